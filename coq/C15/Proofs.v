(* C15 -- proofs about the validation model and the routing checker. *)
From Coq Require Import ZArith QArith Qround List Bool String Lia.
From PB Require Import C15.Model C15.Routing.
Import ListNotations.
Open Scope Z_scope.

Arguments Qle_bool : simpl never.
Arguments inject_Z : simpl never.
Arguments trunc : simpl never.
Arguments in_i64 : simpl never.
Arguments fmax : simpl never.
Arguments i63 : simpl never.
Arguments Z.leb : simpl never.
Arguments Z.abs : simpl never.
Arguments Z.sub : simpl never.

(* ---------------------------------------------------------------- bridging Z and Q *)
Lemma qle_inj (a b : Z) : Qle_bool (inject_Z a) (inject_Z b) = (a <=? b).
Proof.
  destruct (a <=? b) eqn:E.
  - apply Qle_bool_iff. rewrite <- Zle_Qle. lia.
  - destruct (Qle_bool (inject_Z a) (inject_Z b)) eqn:F; [|reflexivity].
    apply Qle_bool_iff in F. rewrite <- Zle_Qle in F. lia.
Qed.

Lemma qle_trans_false (q : Q) (a b : Z) :
  Qle_bool q (inject_Z a) = true -> a < b -> Qle_bool (inject_Z b) q = false.
Proof.
  intros H L. destruct (Qle_bool (inject_Z b) q) eqn:F; [|reflexivity].
  apply Qle_bool_iff in H, F. assert (inject_Z b <= inject_Z a)%Q by (eapply Qle_trans; eauto).
  rewrite <- Zle_Qle in H0. lia.
Qed.

Lemma trunc_le (q : Q) (k : Z) : Qle_bool q (inject_Z k) = true -> trunc q <= k.
Proof.
  intros H. apply Qle_bool_iff in H. unfold trunc. destruct (Qle_bool 0 q).
  - rewrite <- (Qfloor_Z k). apply Qfloor_resp_le, H.
  - rewrite <- (Qceiling_Z k). apply Qceiling_resp_le, H.
Qed.

Lemma i63_lt_fmax : i63 < fmax.
Proof. vm_compute. reflexivity. Qed.

Lemma in_i64_float (z : Z) : in_i64 z = true -> (fmax <=? Z.abs z) = false.
Proof. unfold in_i64. pose proof i63_lt_fmax. intros. lia. Qed.

Lemma le_sc_int (a b : Z) : le_sc (Int a) (Int b) = (a <=? b).
Proof. unfold le_sc; cbn. apply qle_inj. Qed.
Lemma lt_sc_int (a b : Z) : lt_sc (Int a) (Int b) = (a <? b).
Proof. unfold lt_sc, ext_ltb; cbn. rewrite qle_inj. lia. Qed.

(* ---------------------------------------------------------------- never OverflowError on regular values *)
Lemma cast_regular (d : dt) (s : sc) : d <> DtInt -> regular_sc s = true -> cast d s <> Raise OErr.
Proof.
  destruct d, s; cbn; intros D H; try discriminate; try congruence.
  rewrite (in_i64_float _ H). discriminate.
Qed.

Lemma cast_list_regular (d : dt) (l : list sc) : d <> DtInt ->
  forallb regular_sc l = true -> cast_list d l <> Raise OErr.
Proof.
  intros D. induction l as [|s t IH]; cbn; [discriminate|].
  intros H. apply andb_prop in H as [Hs Ht].
  pose proof (cast_regular d s D Hs). destruct (cast d s) as [s'|e]; [|congruence].
  specialize (IH Ht). destruct (cast_list d t); [discriminate|congruence].
Qed.

Lemma regular_list (l : list sc) : regular (Arr l) = true -> forallb regular_sc l = true.
Proof. destruct l; [discriminate|exact (fun H => H)]. Qed.

Lemma asarray_regular (d : dt) (v : value) : d <> DtInt -> regular v = true -> asarray d v <> Raise OErr.
Proof.
  intros D. destruct v as [s|l|l| |]; cbn; intros H.
  - pose proof (cast_regular d s D H). destruct (cast d s); [discriminate|congruence].
  - pose proof (cast_list_regular d l D (regular_list l H)). destruct (cast_list d l); [discriminate|congruence].
  - pose proof (cast_list_regular d l D (regular_list l H)). destruct (cast_list d l); [discriminate|congruence].
  - discriminate.
  - destruct d; discriminate.
Qed.

(* _check_scalar only propagates the errors of np.asarray or raises ValueError *)
Lemma check_scalar_oerr d v n f : check_scalar d v n f = Raise OErr -> asarray d v = Raise OErr.
Proof.
  unfold check_scalar. destruct (asarray d v) as [a|e]; [|intros H; now inversion H].
  destruct a as [s|[|s [|s2 t]]]; destruct f, n; try discriminate;
    try (destruct (Nat.eqb _ _); discriminate).
Qed.

Lemma check_scalar_regular d v n f : d <> DtInt -> regular v = true -> check_scalar d v n f <> Raise OErr.
Proof. intros D H E. apply check_scalar_oerr in E. now apply (asarray_regular d v D H). Qed.

Lemma core_oerr az td d v : csv_core az td d v = Raise OErr -> asarray d v = Raise OErr.
Proof.
  unfold csv_core. destruct (check_scalar d v _ td) eqn:E.
  - destruct (existsb _ _); discriminate.
  - intros H. inversion H; subst. now apply check_scalar_oerr in E.
Qed.

Lemma core_regular az td d v : d <> DtInt -> regular v = true -> csv_core az td d v <> Raise OErr.
Proof. intros D H E. apply core_oerr in E. now apply (asarray_regular d v D H). Qed.

Lemma pre_regular az td v : regular v = true -> csv_pre az td v <> Some OErr.
Proof.
  intros H. unfold csv_pre.
  pose proof (check_scalar_regular DtFloat v (Some (if td then 2 else 1)%nat) td ltac:(discriminate) H).
  destruct (check_scalar DtFloat v _ td); [|congruence].
  destruct (existsb _ _); [discriminate|]. destruct (existsb _ _); discriminate.
Qed.

(* the integer cast of a regular value overflows only on an infinity, and then the float pre-check
   has already raised ValueError *)
Lemma cast_int_oerr_inf (s : sc) : regular_sc s = true -> cast DtInt s = Raise OErr -> is_inf s = true.
Proof. destruct s; cbn; intros R H; try discriminate; try reflexivity; rewrite R in H; discriminate. Qed.

Lemma cast_list_int_oerr (l : list sc) :
  forallb regular_sc l = true -> cast_list DtInt l = Raise OErr -> existsb is_inf l = true.
Proof.
  induction l as [|s t IH]; cbn [cast_list forallb existsb]; [intros _ H; discriminate|]. intros R. apply andb_prop in R as [Rs Rt].
  destruct (cast DtInt s) as [s'|e] eqn:E.
  - destruct (cast_list DtInt t) as [t'|e] eqn:F; intros H; [discriminate|]. inversion H; subst.
    rewrite (IH Rt eq_refl). apply orb_true_r.
  - intros H. inversion H; subst. now rewrite (cast_int_oerr_inf s Rs E).
Qed.

Lemma cast_float_inf (s s' : sc) : cast DtFloat s = Ok s' -> is_inf s' = is_inf s.
Proof.
  destruct s as [z|q| | | |b]; cbn [cast]; try (destruct (fmax <=? Z.abs z); [discriminate|]);
    intros H; inversion H; reflexivity.
Qed.

Lemma cast_list_float (l : list sc) : forallb regular_sc l = true ->
  exists l', cast_list DtFloat l = Ok l' /\ existsb is_inf l' = existsb is_inf l.
Proof.
  induction l as [|s t IH]; cbn [cast_list forallb existsb]; [exists []; now split|].
  intros R. apply andb_prop in R as [Rs Rt]. destruct (IH Rt) as [t' [Ht Hi]].
  pose proof (cast_regular DtFloat s ltac:(discriminate) Rs) as Hs.
  destruct (cast DtFloat s) as [s'|e] eqn:E.
  - exists (s' :: t'). rewrite Ht. split; [reflexivity|]. cbn [existsb]. now rewrite (cast_float_inf s s' E), Hi.
  - destruct s as [z|q| | | |b]; cbn [cast] in E; try discriminate.
    destruct (fmax <=? Z.abs z); [inversion E; subst; congruence|discriminate].
Qed.

Lemma pre_catches_inf (az td : bool) (v : value) :
  regular v = true -> asarray DtInt v = Raise OErr -> csv_pre az td v = Some VErr.
Proof.
  assert (L : forall l, forallb regular_sc l = true -> cast_list DtInt l = Raise OErr ->
              csv_pre az td (Arr l) = Some VErr).
  { intros l R H. pose proof (cast_list_int_oerr l R H) as Hi.
    destruct (cast_list_float l R) as [l' [Ht Hi']]. rewrite <- Hi' in Hi.
    unfold csv_pre, check_scalar, asarray. rewrite Ht. clear Ht Hi' H R.
    destruct l' as [|s [|s2 t]]; [discriminate| |].
    - cbn in Hi. rewrite orb_false_r in Hi.
      destruct td; cbn; rewrite Hi; destruct (zero_test az s); reflexivity.
    - destruct (Nat.eqb (List.length (s :: s2 :: t)) (if td then 2 else 1)); [|reflexivity].
      cbn [cs_elems]. rewrite Hi. destruct (existsb (zero_test az) _); reflexivity. }
  intros R H. destruct v as [s|l|l| |]; cbn [asarray] in H.
  - destruct (cast DtInt s) eqn:E; [discriminate|]. inversion H; subst.
    pose proof (cast_int_oerr_inf s R E). destruct s; try discriminate; destruct az, td; reflexivity.
  - destruct (cast_list DtInt l) eqn:E; [discriminate|]. inversion H; subst.
    exact (L l (regular_list l R) E).
  - destruct (cast_list DtInt l) eqn:E; [discriminate|]. inversion H; subst.
    change (csv_pre az td (Lst l)) with (csv_pre az td (Arr l)).
    exact (L l (regular_list l R) E).
  - discriminate.
  - discriminate.
Qed.

Lemma csv_regular az td d v : regular v = true -> check_scalar_variable az td d v <> Raise OErr.
Proof.
  intros H. unfold check_scalar_variable. destruct d; cbn [is_int_dt].
  - now apply core_regular.
  - pose proof (pre_regular az td v H). destruct (csv_pre az td v) as [e|] eqn:P.
    + congruence.
    + intros E. apply core_oerr in E. rewrite (pre_catches_inf az td v H E) in P. discriminate.
  - now apply core_regular.
Qed.

Lemma cmpv_no_oerr op v : cmpv op v <> Raise OErr.
Proof. destruct v as [s|[|s [|s2 t]]|l| |]; discriminate. Qed.

Lemma harmless (g : guard) (v : value) : regular v = true -> run_guard g v <> Some OErr.
Proof.
  intros H. destruct g; cbn [run_guard].
  - unfold range01.
    pose proof (cmpv_no_oerr (fun s => if lo_strict then lt_sc (zc 0) s else le_sc (zc 0) s) v).
    pose proof (cmpv_no_oerr (fun s => if hi_strict then lt_sc s (zc 1) else le_sc s (zc 1)) v).
    destruct (cmpv _ v) as [[|]|e]; try discriminate; try congruence.
    destruct (cmpv _ v) as [[|]|e']; try discriminate; congruence.
  - pose proof (cmpv_no_oerr (fun s => lt_sc s (zc c)) v).
    destruct (cmpv _ v) as [[|]|e]; cbn; try discriminate; congruence.
  - pose proof (cmpv_no_oerr (fun s => le_sc s (zc c)) v).
    destruct (cmpv _ v) as [[|]|e]; cbn; try discriminate; congruence.
  - destruct v as [s|l|l| |]; cbn; try discriminate;
      [destruct (lt_sc s (zc c))|destruct (existsb _ l)|destruct (existsb _ l)]; discriminate.
  - destruct (check_scalar DtInt v (Some 2%nat) true); [|discriminate].
    cbn. destruct (existsb _ _); discriminate.
  - pose proof (csv_regular allow_zero two_d d v H).
    destruct (check_scalar_variable _ _ _ _); cbn; [discriminate|congruence].
  - unfold check_half_window. pose proof (csv_regular allow_zero two_d DtInt v H).
    destruct (check_scalar_variable _ _ _ _); cbn; [|congruence].
    destruct (ne_orig a v); discriminate.
  - destruct v as [s| | | |]; try discriminate. destruct (existsb _ _); discriminate.
  - discriminate.
Qed.

(* ---------------------------------------------------------------- chains *)
Lemma chain_first (gs : list guard) (v : value) :
  (forall g, In g gs -> run_guard g v <> Some OErr) ->
  (exists g, In g gs /\ run_guard g v <> None) ->
  is_vt (run_chain gs v) = true.
Proof.
  induction gs as [|g t IH]; intros Hh [g0 [Hin Hne]]; [destruct Hin|].
  cbn. pose proof (Hh g (or_introl eq_refl)) as Hg.
  destruct (run_guard g v) as [[| |]|] eqn:E; try reflexivity; try congruence.
  apply IH.
  - intros g' Hg'. apply Hh. now right.
  - destruct Hin as [->|Hin]; [congruence|]. exists g0. now split.
Qed.

(* ---------------------------------------------------------------- one guard covers a domain *)
(* the integer cast of a regular, finite, non-nan scalar *)
Lemma cast_int_ok (s : sc) : regular_sc s = true -> is_nan s = false -> is_inf s = false ->
  exists z, cast DtInt s = Ok (Int z) /\
            (forall k, le_sc s (Int k) = true -> z <= k) /\
            (forall k, lt_sc s (Int k) = true -> z < k \/ (exists q, s = Frac q)).
Proof.
  destruct s as [z|q| | | |b]; intros R N F; cbn in R, N, F; try discriminate; cbn [cast].
  - rewrite R. exists z. split; [reflexivity|]. split; intros k H.
    + rewrite le_sc_int in H. lia.
    + rewrite lt_sc_int in H. left. lia.
  - rewrite R. exists (trunc q). split; [reflexivity|]. split; intros k H.
    + unfold le_sc in H; cbn in H. now apply trunc_le.
    + right. now exists q.
  - exists (b2z b). split; [reflexivity|]. split; intros k H.
    + unfold le_sc in H; cbn in H. rewrite qle_inj in H. destruct b; cbn in *; lia.
    + left. unfold lt_sc, ext_ltb in H; cbn in H. rewrite qle_inj in H. destruct b; cbn in *; lia.
Qed.

Lemma cast_int_nan (s : sc) : is_nan s = true -> cast DtInt s = Raise VErr.
Proof. destruct s; cbn; try discriminate; reflexivity. Qed.
Lemma cast_int_inf (s : sc) : is_inf s = true -> cast DtInt s = Raise OErr.
Proof. destruct s; cbn; try discriminate; reflexivity. Qed.

Lemma rej_le0 (z : Z) : z <= 0 -> le_sc (Int z) (zc 0) = true.
Proof. intros. unfold zc. rewrite le_sc_int. lia. Qed.
Lemma rej_lt0 (z : Z) : z < 0 -> lt_sc (Int z) (zc 0) = true.
Proof. intros. unfold zc. rewrite lt_sc_int. lia. Qed.

Lemma cast_float_le (s s' x : sc) : cast DtFloat s = Ok s' -> le_sc s' x = le_sc s x.
Proof.
  destruct s as [z|q| | | |b]; cbn [cast]; try (destruct (fmax <=? Z.abs z); [discriminate|]);
    intros H; inversion H; reflexivity.
Qed.
Lemma cast_float_lt (s s' x : sc) : cast DtFloat s = Ok s' -> lt_sc s' x = lt_sc s x.
Proof.
  destruct s as [z|q| | | |b]; cbn [cast]; try (destruct (fmax <=? Z.abs z); [discriminate|]);
    intros H; inversion H; reflexivity.
Qed.
Lemma cast_float_raise (s : sc) (e : exc) : cast DtFloat s = Raise e -> e = OErr.
Proof.
  destruct s as [z|q| | | |b]; cbn [cast]; try discriminate.
  destruct (fmax <=? Z.abs z); [|discriminate]. intros H; now inversion H.
Qed.

(* ---------------------------------------------------------------- lifting scalar rejection to values *)
Definition mr (badp : sc -> bool) (td : bool) (v : value) : bool :=
  match v with
  | Sc s => badp s
  | Arr [s] | Lst [s] => badp s
  | Arr [a; b] | Lst [a; b] => if td then badp a || badp b else true
  | Arr _ | Lst _ => true
  | Str | NoneV => false
  end.

Lemma must_reject_mr d td v : pairable d = true -> must_reject d td v = mr (bad_sc d) td v.
Proof.
  intros P. destruct v as [s|[|a [|b [|c t]]]|[|a [|b [|c t]]]| |]; cbn; try reflexivity;
    rewrite P, andb_true_r; reflexivity.
Qed.

Lemma cast_list_length d l l' : cast_list d l = Ok l' -> List.length l' = List.length l.
Proof.
  revert l'. induction l as [|s t IH]; cbn; intros l' H.
  - inversion H. reflexivity.
  - destruct (cast d s); [|discriminate]. destruct (cast_list d t) eqn:E; [|discriminate].
    inversion H. cbn. f_equal. now apply IH.
Qed.

Lemma csv_list_long (az td : bool) (d : dt) (l : list sc) :
  (3 <= List.length l)%nat ->
  of_res (match cast_list d l with
          | Ok l' => match check_scalar d (Arr l) (Some (if td then 2 else 1)%nat) td with
                     | Ok c => if existsb (zero_test az) (cs_elems c) then Raise VErr else Ok c
                     | Raise e => Raise e end
          | Raise e => Raise e end) <> None.
Proof.
  intros L. destruct (cast_list d l) as [l'|e] eqn:E; [|discriminate].
  unfold check_scalar, asarray. rewrite E. pose proof (cast_list_length d l l' E) as Hl.
  destruct l' as [|x [|y [|z w]]]; cbn in Hl; try lia.
  destruct td; cbn; discriminate.
Qed.

Lemma csv_lift (az td : bool) (d : dt) (badp : sc -> bool) (v : value) :
  regular v = true ->
  (forall s, regular_sc s = true -> badp s = true ->
     match cast d s with Ok s' => zero_test az s' = true | Raise _ => True end) ->
  mr badp td v = true ->
  of_res (csv_core az td d v) <> None.
Proof.
  intros R H M. unfold csv_core.
  assert (one : forall s, regular_sc s = true -> badp s = true ->
            forall w, (w = Sc s \/ w = Arr [s] \/ w = Lst [s]) ->
            of_res (match check_scalar d w (Some (if td then 2 else 1)%nat) td with
                    | Ok c => if existsb (zero_test az) (cs_elems c) then Raise VErr else Ok c
                    | Raise e => Raise e end) <> None).
  { intros s Rs Bs w Hw. specialize (H s Rs Bs).
    unfold check_scalar, asarray.
    destruct Hw as [->|[->| ->]]; cbn [cast_list]; destruct (cast d s) as [s'|e]; try discriminate;
      destruct td; cbn; rewrite H; discriminate. }
  destruct v as [s|l|l| |]; cbn in M; try discriminate.
  - apply (one s R M). now left.
  - destruct l as [|a [|b [|c t]]]; cbn in R; try discriminate.
    + rewrite andb_true_r in R. apply (one a R M). right; now left.
    + apply andb_prop in R as [Ra R]. rewrite andb_true_r in R.
      unfold check_scalar, asarray; cbn [cast_list].
      pose proof (H a Ra) as Ha. pose proof (H b R) as Hb.
      destruct (cast d a) as [a'|e]; [|discriminate]. destruct (cast d b) as [b'|e]; [|discriminate].
      destruct td; cbn; [|discriminate].
      apply orb_prop in M as [M|M]; [rewrite (Ha M)|rewrite (Hb M), orb_true_r]; discriminate.
    + pose proof (csv_list_long az td d (a :: b :: c :: t)) as L.
      assert (3 <= List.length (a :: b :: c :: t))%nat by (cbn; lia). specialize (L H0).
      unfold check_scalar, asarray in *. destruct (cast_list d (a :: b :: c :: t)); [exact L|discriminate].
  - destruct l as [|a [|b [|c t]]]; cbn in R; try discriminate.
    + rewrite andb_true_r in R. apply (one a R M). right; now right.
    + apply andb_prop in R as [Ra R]. rewrite andb_true_r in R.
      unfold check_scalar, asarray; cbn [cast_list].
      pose proof (H a Ra) as Ha. pose proof (H b R) as Hb.
      destruct (cast d a) as [a'|e]; [|discriminate]. destruct (cast d b) as [b'|e]; [|discriminate].
      destruct td; cbn; [|discriminate].
      apply orb_prop in M as [M|M]; [rewrite (Ha M)|rewrite (Hb M), orb_true_r]; discriminate.
    + pose proof (csv_list_long az td d (a :: b :: c :: t)) as L.
      assert (3 <= List.length (a :: b :: c :: t))%nat by (cbn; lia). specialize (L H0).
      unfold check_scalar, asarray in *. destruct (cast_list d (a :: b :: c :: t)); [exact L|discriminate].
Qed.

(* ---------------------------------------------------------------- the float pre-check wrapper *)
Lemma wrap_core az td d v : of_res (csv_core az td d v) <> None -> of_res (check_scalar_variable az td d v) <> None.
Proof.
  unfold check_scalar_variable. destruct (is_int_dt d); [|exact (fun H => H)].
  destruct (csv_pre az td v); [discriminate|exact (fun H => H)].
Qed.
Lemma wrap_pre az td v : csv_pre az td v <> None -> of_res (check_scalar_variable az td DtInt v) <> None.
Proof. unfold check_scalar_variable. cbn [is_int_dt]. destruct (csv_pre az td v); [discriminate|congruence]. Qed.
Lemma pre_of_core az td v : of_res (csv_core az td DtFloat v) <> None -> csv_pre az td v <> None.
Proof.
  unfold csv_core, csv_pre. destruct (check_scalar DtFloat v _ td); [|discriminate].
  destruct (existsb (zero_test az) _); [discriminate|]. cbn. congruence.
Qed.
Lemma wrap_ok az td d v c : check_scalar_variable az td d v = Ok c -> csv_core az td d v = Ok c.
Proof.
  unfold check_scalar_variable. destruct (is_int_dt d); [|exact (fun H => H)].
  destruct (csv_pre az td v); [discriminate|exact (fun H => H)].
Qed.

(* ---------------------------------------------------------------- order facts on scalars *)
Lemma ext_total (a b : ext) : ext_leb b a = false -> ext_leb a b = true.
Proof.
  destruct a, b; cbn; try discriminate; try reflexivity.
  intros H. apply Qle_bool_iff. destruct (Qlt_le_dec q q0) as [L|L].
  - now apply Qlt_le_weak.
  - apply Qle_bool_iff in L. congruence.
Qed.
Lemma lt_le (a b : sc) : lt_sc a b = true -> le_sc a b = true.
Proof.
  unfold lt_sc, le_sc, ext_ltb. destruct (num a), (num b); try discriminate.
  intros H. apply ext_total. now destruct (ext_leb e0 e).
Qed.

Lemma qle_mono_false (q : Q) (a b : Z) : Qle_bool (inject_Z a) q = false -> a <= b -> Qle_bool (inject_Z b) q = false.
Proof.
  intros H L. destruct (Qle_bool (inject_Z b) q) eqn:F; [|reflexivity].
  apply Qle_bool_iff in F. assert (inject_Z a <= q)%Q.
  { eapply Qle_trans; [|exact F]. rewrite <- Zle_Qle. exact L. }
  apply Qle_bool_iff in H0. congruence.
Qed.

Lemma lt_lt_const (s : sc) (c c' : Z) : lt_sc s (zc c) = true -> c <= c' -> lt_sc s (zc c') = true.
Proof.
  unfold lt_sc, ext_ltb, zc. destruct s as [z|q| | | |b]; cbn; intros H L; try discriminate; try reflexivity.
  - rewrite qle_inj in *. lia.
  - destruct (Qle_bool (inject_Z c) q) eqn:E; [discriminate|]. now rewrite (qle_mono_false q c c' E L).
  - rewrite qle_inj in *. lia.
Qed.

(* truncation toward zero stays below an integer bound >= 1 *)
Lemma trunc_lt (q : Q) (k : Z) : Qle_bool (inject_Z k) q = false -> 1 <= k -> trunc q < k.
Proof.
  intros H K. unfold trunc. destruct (Qle_bool 0 q) eqn:E.
  - assert (L : (q < inject_Z k)%Q).
    { destruct (Qlt_le_dec q (inject_Z k)); [assumption|]. apply Qle_bool_iff in q0. congruence. }
    pose proof (Qfloor_le q). assert (inject_Z (Qfloor q) < inject_Z k)%Q by (eapply Qle_lt_trans; eauto).
    rewrite <- Zlt_Qlt in H1. lia.
  - assert (L : (q <= 0)%Q).
    { destruct (Qlt_le_dec 0 q) as [L|L]; [|assumption]. apply Qlt_le_weak in L. apply Qle_bool_iff in L. congruence. }
    assert (Qceiling q <= 0); [|lia].
    change 0 with (Qceiling (inject_Z 0)). apply Qceiling_resp_le. exact L.
Qed.

(* a regular scalar below an integer bound k >= 1: its integer cast, when it exists, is below k too *)
Lemma cast_int_lt (s : sc) (k : Z) : regular_sc s = true -> lt_sc s (zc k) = true -> 1 <= k ->
  match cast DtInt s with Ok s' => lt_sc s' (zc k) = true | Raise _ => True end.
Proof.
  intros R B K. destruct (is_nan s) eqn:N; [now rewrite (cast_int_nan s N)|].
  destruct (is_inf s) eqn:F; [now rewrite (cast_int_inf s F)|].
  destruct (cast_int_ok s R N F) as [z [Hc [_ Hlt]]]. rewrite Hc. unfold zc. rewrite lt_sc_int.
  destruct (Hlt k B) as [L|[q ->]]; [lia|].
  cbn [cast] in Hc. cbn in R. rewrite R in Hc. inversion Hc.
  unfold lt_sc, ext_ltb, zc in B. cbn in B.
  assert (trunc q < k); [|lia]. apply trunc_lt; [|assumption]. now destruct (Qle_bool (inject_Z k) q).
Qed.

(* ---------------------------------------------------------------- single-guard coverage *)
Lemma cov_float_pos (td : bool) (v : value) :
  regular v = true -> must_reject DPos td v = true -> run_guard (GCSV false td DtFloat) v <> None.
Proof.
  intros R M. rewrite must_reject_mr in M by reflexivity. cbn [run_guard]. apply wrap_core.
  apply (csv_lift false td DtFloat (bad_sc DPos) v R); [|exact M].
  intros s Rs B. destruct (cast DtFloat s) as [s'|] eqn:E; [|exact I].
  unfold zero_test. rewrite (cast_float_le s s' _ E). exact B.
Qed.

Lemma cast_int_lt_z (s : sc) (k : Z) : regular_sc s = true -> lt_sc s (zc k) = true -> 1 <= k ->
  match cast DtInt s with Ok s' => exists z, s' = Int z /\ z < k | Raise _ => True end.
Proof.
  intros R B K. pose proof (cast_int_lt s k R B K) as H.
  destruct (is_nan s) eqn:N; [now rewrite (cast_int_nan s N)|].
  destruct (is_inf s) eqn:F; [now rewrite (cast_int_inf s F)|].
  destruct (cast_int_ok s R N F) as [z [Hc _]]. rewrite Hc in *. exists z. split; [reflexivity|].
  unfold zc in H. rewrite lt_sc_int in H. lia.
Qed.

Lemma cov_int_ge (az td : bool) (c : Z) (v : value) :
  (if az then c <= 0 else c <= 1) ->
  regular v = true -> must_reject (DGe c) td v = true -> run_guard (GCSV az td DtInt) v <> None.
Proof.
  intros C R M. rewrite must_reject_mr in M by reflexivity. cbn [run_guard]. destruct az.
  - (* allow_zero: the float pre-check rejects every negative value, fractions included *)
    apply wrap_pre, pre_of_core.
    apply (csv_lift true td DtFloat (bad_sc (DGe c)) v R); [|exact M].
    intros s Rs B. destruct (cast DtFloat s) as [s'|] eqn:E; [|exact I].
    unfold zero_test. rewrite (cast_float_lt s s' _ E). apply (lt_lt_const s c 0 B C).
  - apply wrap_core.
    apply (csv_lift false td DtInt (bad_sc (DGe c)) v R); [|exact M].
    intros s Rs B. pose proof (cast_int_lt_z s 1 Rs (lt_lt_const s c 1 B C) ltac:(lia)) as H.
    destruct (cast DtInt s); [|exact I]. destruct H as [z [-> Hz]]. apply rej_le0. lia.
Qed.

Lemma core_long (az td : bool) (d : dt) (l : list sc) :
  (3 <= List.length l)%nat -> of_res (csv_core az td d (Arr l)) <> None.
Proof.
  intros L. unfold csv_core, check_scalar, asarray.
  destruct (cast_list d l) as [l'|e] eqn:E; [|discriminate].
  pose proof (cast_list_length d l l' E) as Hl.
  destruct l' as [|x [|y [|z w]]]; cbn in Hl; try lia.
  destruct td; cbn; discriminate.
Qed.

Definition basic_bad (az : bool) (x : sc) : bool := zero_test az x || (is_nan x || is_inf x).

Lemma bad_not_basic (az : bool) (s : sc) : bad_sc (DHw az) s = true -> basic_bad az s = false ->
  exists q, s = Frac q /\ negb (eq_sc (Int (trunc q)) (Frac q)) = true.
Proof.
  unfold basic_bad. destruct s as [z|q| | | |b]; cbn [bad_sc is_nan is_inf noninteger orb]; intros B N;
    rewrite ?orb_true_r, ?orb_false_r in *; try discriminate; try congruence.
  exists q. split; [reflexivity|]. rewrite N in B. exact B.
Qed.

Lemma mr_or (f g : sc -> bool) (td : bool) (v : value) :
  mr (fun x => f x || g x) td v = mr f td v || mr g td v.
Proof.
  destruct v as [s|[|a [|b [|c t]]]|[|a [|b [|c t]]]| |]; cbn [mr]; try reflexivity; destruct td; try reflexivity;
    destruct (f a), (g a), (f b), (g b); reflexivity.
Qed.

Lemma wrap_ok2 az td v c : check_scalar_variable az td DtInt v = Ok c ->
  csv_pre az td v = None /\ csv_core az td DtInt v = Ok c.
Proof.
  unfold check_scalar_variable. cbn [is_int_dt]. destruct (csv_pre az td v); [discriminate|]. now split.
Qed.

Lemma cast_float_zero_test (az : bool) (s s' : sc) : cast DtFloat s = Ok s' -> zero_test az s' = zero_test az s.
Proof.
  intros H. unfold zero_test. destruct az; [apply (cast_float_lt s s' _ H)|apply (cast_float_le s s' _ H)].
Qed.

Lemma basic_rejected (az td : bool) (v : value) (c : cs) :
  regular v = true -> check_scalar_variable az td DtInt v = Ok c -> mr (basic_bad az) td v = false.
Proof.
  intros R E. apply wrap_ok2 in E as [P E].
  destruct (mr (basic_bad az) td v) eqn:B; [|reflexivity]. exfalso.
  unfold basic_bad in B. rewrite mr_or in B. apply orb_prop in B as [B|B].
  - (* a value failing the sign test is stopped by the float pre-check *)
    assert (H : csv_pre az td v <> None).
    { apply pre_of_core. apply (csv_lift az td DtFloat (zero_test az) v R); [|exact B].
      intros x Rx Bx. destruct (cast DtFloat x) as [x'|] eqn:F; [|exact I].
      now rewrite (cast_float_zero_test az x x' F). }
    now apply H.
  - (* nan / infinity do not survive the integer cast *)
    assert (H : of_res (csv_core az td DtInt v) <> None).
    { apply (csv_lift az td DtInt (fun x => is_nan x || is_inf x) v R); [|exact B]. intros x Rx Bx.
      destruct (is_nan x) eqn:N; [now rewrite (cast_int_nan x N)|].
      cbn [orb] in Bx. now rewrite (cast_int_inf x Bx). }
    rewrite E in H. now apply H.
Qed.

Lemma cast_frac_regular (q : Q) : regular_sc (Frac q) = true -> cast DtInt (Frac q) = Ok (Int (trunc q)).
Proof. cbn. intros R. now rewrite R. Qed.

(* _check_half_window with flags (allow_zero, two_d) rejects everything outside the matching domain *)
Lemma cov_hw (az td : bool) (v : value) :
  regular v = true -> must_reject (DHw az) td v = true -> run_guard (GHalfWindow az td) v <> None.
Proof.
  intros R M. rewrite must_reject_mr in M by reflexivity. cbn [run_guard]. unfold check_half_window.
  destruct (check_scalar_variable az td DtInt v) as [c|e] eqn:E; [|discriminate].
  pose proof (basic_rejected az td v c R E) as NB. apply wrap_ok in E.
  assert (ONE : forall s w, (w = Sc s \/ w = Arr [s]) -> regular_sc s = true -> bad_sc (DHw az) s = true ->
                basic_bad az s = false -> csv_core az td DtInt w = Ok c -> ne_orig c w = true).
  { intros s w Hw Rs Bs Ns Ew. destruct (bad_not_basic az s Bs Ns) as [q [-> Hne]].
    unfold csv_core, check_scalar, asarray in Ew.
    destruct Hw as [->| ->]; cbn [cast_list] in Ew; rewrite (cast_frac_regular q Rs) in Ew;
      destruct td; cbn -[zero_test] in Ew; destruct (zero_test az (Int (trunc q))) in Ew;
      cbn in Ew; try discriminate;
      inversion Ew; unfold ne_orig; cbn [orig_elems cs_elems repeat existsb]; rewrite Hne; reflexivity. }
  assert (ARR : forall l, regular (Arr l) = true -> mr (bad_sc (DHw az)) td (Arr l) = true ->
                mr (basic_bad az) td (Arr l) = false -> csv_core az td DtInt (Arr l) = Ok c ->
                ne_orig c (Arr l) = true).
  { intros l Rl Ml Nl El. destruct l as [|a [|b [|x t]]]; cbn in Rl; try discriminate.
    - rewrite andb_true_r in Rl. apply (ONE a (Arr [a])); [now right|assumption..].
    - apply andb_prop in Rl as [Ra Rb]. rewrite andb_true_r in Rb. cbn [mr] in Ml, Nl.
      destruct td.
      + apply orb_false_elim in Nl as [Na Nb].
        unfold csv_core, check_scalar, asarray in El. cbn [cast_list] in El.
        destruct (cast DtInt a) as [a'|] eqn:Ca; [|discriminate].
        destruct (cast DtInt b) as [b'|] eqn:Cb; [|discriminate].
        cbn -[zero_test] in El. destruct (_ || _) in El; [discriminate|]. inversion El.
        unfold ne_orig. cbn [orig_elems cs_elems ne_any].
        apply orb_prop in Ml as [Ba|Bb].
        * destruct (bad_not_basic az a Ba Na) as [q [-> Hne]]. rewrite (cast_frac_regular q Ra) in Ca.
          inversion Ca. now rewrite Hne.
        * destruct (bad_not_basic az b Bb Nb) as [q [-> Hne]]. rewrite (cast_frac_regular q Rb) in Cb.
          inversion Cb. rewrite Hne. apply orb_true_r.
      + exfalso. unfold csv_core, check_scalar, asarray in El. cbn [cast_list] in El.
        destruct (cast DtInt a); [|discriminate]. destruct (cast DtInt b); [|discriminate].
        cbn -[zero_test] in El. discriminate.
  }
  destruct v as [s|l|l| |]; cbn [mr] in M; try discriminate.
  - rewrite (ONE s (Sc s)); [discriminate|now left|exact R|exact M|exact NB|exact E].
  - rewrite (ARR l R M NB E). discriminate.
  - change (ne_orig c (Lst l)) with (ne_orig c (Arr l)).
    rewrite (ARR l R M NB E). discriminate.
Qed.
(* ---------------------------------------------------------------- inline guards *)
Lemma cov_range_open (td : bool) (v : value) :
  regular v = true -> must_reject DOpen01 td v = true -> run_guard (GRange01 true true) v <> None.
Proof.
  intros R M. cbn [run_guard]. unfold range01.
  destruct v as [s|[|a [|b t]]|[|a [|b t]]| |]; cbn in R; cbn [must_reject bad_sc pairable andb] in M;
    rewrite ?andb_false_r in M; try discriminate; cbn [cmpv];
    try (destruct (lt_sc (zc 0) _); try discriminate; destruct (lt_sc _ (zc 1)); discriminate).
Qed.

Lemma cov_range_closed (ls hs td : bool) (v : value) :
  regular v = true -> must_reject DClosed01 td v = true -> run_guard (GRange01 ls hs) v <> None.
Proof.
  intros R M. cbn [run_guard]. unfold range01.
  assert (K : forall s, negb (le_sc (zc 0) s && le_sc s (zc 1)) = true ->
     match (match Ok (A:=bool) (if ls then lt_sc (zc 0) s else le_sc (zc 0) s) with
            | Ok true => Ok (if hs then lt_sc s (zc 1) else le_sc s (zc 1)) | r => r end)
     with Ok true => None | Ok false => Some VErr | Raise e => Some e end <> None).
  { intros s B.
    destruct (if ls then lt_sc (zc 0) s else le_sc (zc 0) s) eqn:E1; [|discriminate].
    destruct (if hs then lt_sc s (zc 1) else le_sc s (zc 1)) eqn:E2; [|discriminate].
    exfalso.
    assert (le_sc (zc 0) s = true) by (destruct ls; [now apply lt_le|assumption]).
    assert (le_sc s (zc 1) = true) by (destruct hs; [now apply lt_le|assumption]).
    rewrite H, H0 in B. discriminate. }
  destruct v as [s|[|a [|b t]]|[|a [|b t]]| |]; cbn in R; cbn [must_reject bad_sc pairable andb] in M;
    rewrite ?andb_false_r in M; try discriminate; cbn [cmpv]; try (apply K; exact M).
Qed.

Lemma cov_lt (c c' : Z) (v : value) :
  c <= c' -> regular v = true -> must_reject (DGe c) false v = true -> run_guard (GLt c') v <> None.
Proof.
  intros L R M. cbn [run_guard].
  destruct v as [s|[|a [|b t]]|[|a [|b t]]| |]; cbn in R; cbn [must_reject bad_sc andb] in M;
    try discriminate; cbn [cmpv raise_if];
    try (rewrite (lt_lt_const _ c c' M L); discriminate).
Qed.

Lemma covers1_sound (g : guard) (d : dom) (td : bool) (v : value) :
  covers1 g d td = true -> regular v = true -> must_reject d td v = true -> run_guard g v <> None.
Proof.
  intros C R M.
  destruct g as [ls hs|c'|c'|c'|c'|az td' dd|az td'|l|]; destruct d as [| | |c|az0];
    try (destruct ls, hs); try (destruct az, td'); try destruct dd; try destruct az0; destruct td;
    cbn in C; try discriminate; try apply Z.leb_le in C;
    first [ (eapply cov_range_open; eassumption)
          | (eapply cov_range_closed; eassumption)
          | (apply (cov_lt c c'); [lia|assumption..])
          | (apply cov_float_pos; assumption)
          | (apply (cov_int_ge _ _ c); [cbn; lia|assumption..])
          | (apply cov_hw; assumption) ].
Qed.

(* ---------------------------------------------------------------- pair validator + element guard (2-D num_knots) *)
Lemma covers2_sound (gs : list guard) (d : dom) (td : bool) (v : value) :
  covers2 gs d td = true -> regular v = true -> must_reject d td v = true ->
  exists g, In g gs /\ run_guard g v <> None.
Proof.
  intros C R M. destruct d as [| | |c|az0]; try discriminate. cbn in C.
  apply andb_prop in C as [C C2]. apply andb_prop in C as [T C1]. subst td.
  apply existsb_exists in C1 as [g1 [I1 P1]]. apply existsb_exists in C2 as [g2 [I2 P2]].
  destruct g1 as [| | | | |az td' dd| | |]; try discriminate. destruct td', dd; try discriminate.
  destruct g2 as [| | | |c'| | | |]; try discriminate.
  apply andb_prop in P2 as [P2 P3]. apply Z.leb_le in P2, P3.
  destruct (run_guard (GCSV az true DtInt) v) eqn:E1; [exists (GCSV az true DtInt); split; [assumption|congruence]|].
  exists (GEachLt c'). split; [assumption|].
  (* the validator accepted, so the int pair exists; one element is < c <= c' and so is its cast *)
  rewrite must_reject_mr in M by reflexivity.
  cbn [run_guard] in *.
  destruct (check_scalar_variable az true DtInt v) as [k0|] eqn:E0; [|discriminate]. apply wrap_ok in E0.
  unfold csv_core in E0.
  destruct (check_scalar DtInt v (Some 2%nat) true) as [k|e] eqn:E; [|discriminate].
  assert (X : existsb (fun s => lt_sc s (zc c')) (cs_elems k) = true); [|rewrite X; discriminate].
  assert (one : forall s s', regular_sc s = true -> bad_sc (DGe c) s = true -> cast DtInt s = Ok s' ->
                lt_sc s' (zc c') = true).
  { intros s s' Rs B Hc. pose proof (cast_int_lt s c' Rs (lt_lt_const s c c' B P2) P3) as H.
    now rewrite Hc in H. }
  clear E0 E1.
  unfold check_scalar, asarray in E.
  destruct v as [s|[|a [|b [|x t]]]|[|a [|b [|x t]]]| |]; cbn in M, R; try discriminate; cbn [cast_list] in E.
  - destruct (cast DtInt s) eqn:F; [|discriminate]. inversion E. cbn. now rewrite (one s a R M F).
  - rewrite andb_true_r in R. destruct (cast DtInt a) eqn:F; [|discriminate]. inversion E. cbn. now rewrite (one a a0 R M F).
  - apply andb_prop in R as [Ra Rb]. rewrite andb_true_r in Rb.
    destruct (cast DtInt a) eqn:F; [|discriminate]. destruct (cast DtInt b) eqn:F2; [|discriminate].
    inversion E. cbn. apply orb_prop in M as [M|M];
      [rewrite (one a a0 Ra M F)|rewrite (one b a1 Rb M F2), orb_true_r]; reflexivity.
  - destruct (cast_list DtInt (a :: b :: x :: t)) as [l'|] eqn:F; [|cbn [cast_list] in F; rewrite F in E; discriminate].
    pose proof (cast_list_length _ _ _ F) as Hl. cbn [cast_list] in F. rewrite F in E.
    destruct l' as [|y1 [|y2 [|y3 w]]]; cbn in Hl; try lia. cbn in E. discriminate.
  - rewrite andb_true_r in R. destruct (cast DtInt a) eqn:F; [|discriminate]. inversion E. cbn. now rewrite (one a a0 R M F).
  - apply andb_prop in R as [Ra Rb]. rewrite andb_true_r in Rb.
    destruct (cast DtInt a) eqn:F; [|discriminate]. destruct (cast DtInt b) eqn:F2; [|discriminate].
    inversion E. cbn. apply orb_prop in M as [M|M];
      [rewrite (one a a0 Ra M F)|rewrite (one b a1 Rb M F2), orb_true_r]; reflexivity.
  - destruct (cast_list DtInt (a :: b :: x :: t)) as [l'|] eqn:F; [|cbn [cast_list] in F; rewrite F in E; discriminate].
    pose proof (cast_list_length _ _ _ F) as Hl. cbn [cast_list] in F. rewrite F in E.
    destruct l' as [|y1 [|y2 [|y3 w]]]; cbn in Hl; try lia. cbn in E. discriminate.
Qed.

(* ---------------------------------------------------------------- the routing theorem *)
Theorem routing_sound (t : list entry) :
  routing_ok t = true ->
  forall e d, In e t -> expected e = Some d ->
  forall v, regular v = true -> must_reject d (pair_of e) v = true ->
    is_vt (run_chain (before_use (e_chain e)) v) = true.
Proof.
  intros Hok e d Hin Hexp v R M.
  unfold routing_ok in Hok. rewrite forallb_forall in Hok. specialize (Hok e Hin).
  unfold entry_ok in Hok. rewrite Hexp in Hok.
  apply chain_first.
  - intros g _. now apply harmless.
  - apply orb_prop in Hok as [H|H].
    + apply existsb_exists in H as [g [I C]]. exists g. split; [assumption|].
      now apply (covers1_sound g d (pair_of e)).
    + now apply (covers2_sound _ d (pair_of e)).
Qed.

(* ---------------------------------------------------------------- validator characterisations (every value) *)
Definition scalar_like (v : value) (s : sc) : Prop := v = Sc s \/ v = Arr [s] \/ v = Lst [s].

Theorem range01_iff (ls hs : bool) (v : value) :
  run_guard (GRange01 ls hs) v = None <->
  exists s, (v = Sc s \/ v = Arr [s]) /\
            (if ls then lt_sc (zc 0) s else le_sc (zc 0) s) = true /\
            (if hs then lt_sc s (zc 1) else le_sc s (zc 1)) = true.
Proof.
  cbn [run_guard]. unfold range01. split.
  - destruct v as [s|[|a [|b t]]|l| |]; cbn [cmpv]; try discriminate.
    + intros H. exists s. split; [now left|].
      destruct (if ls then _ else _); [|discriminate]. destruct (if hs then _ else _); [|discriminate]. now split.
    + intros H. exists a. split; [now right|].
      destruct (if ls then _ else _); [|discriminate]. destruct (if hs then _ else _); [|discriminate]. now split.
  - intros [s [[->| ->] [H1 H2]]]; cbn [cmpv]; rewrite H1, H2; reflexivity.
Qed.

Theorem range01_rejects_nan (ls hs : bool) : run_guard (GRange01 ls hs) (Sc NaN) = Some VErr.
Proof. destruct ls, hs; reflexivity. Qed.

(* the contrast: a guard written `if p < 0 or p > 1: raise` lets NaN through *)
Definition or_style_guard (v : value) : option exc :=
  match cmpv (fun s => lt_sc s (zc 0)) v with
  | Ok true => Some VErr
  | Ok false => raise_if (cmpv (fun s => lt_sc (zc 1) s) v)
  | Raise e => Some e
  end.
Theorem or_style_accepts_nan : or_style_guard (Sc NaN) = None.
Proof. reflexivity. Qed.

Theorem glt_iff (c : Z) (v : value) :
  run_guard (GLt c) v = None <->
  v = Arr [] \/ exists s, (v = Sc s \/ v = Arr [s]) /\ lt_sc s (zc c) = false.
Proof.
  cbn [run_guard]. split.
  - destruct v as [s|[|a [|b t]]|l| |]; cbn [cmpv raise_if]; try discriminate.
    + intros H. right. exists s. split; [now left|]. now destruct (lt_sc s (zc c)).
    + now left.
    + intros H. right. exists a. split; [now right|]. now destruct (lt_sc a (zc c)).
  - intros [->|[s [[->| ->] H]]]; cbn [cmpv raise_if]; try rewrite H; reflexivity.
Qed.

(* the cast + sign test accepts only None (float dtype) or scalar-like values in 1-D *)
Lemma core_accepts_scalar_like (az : bool) (d : dt) (v : value) :
  of_res (csv_core az false d v) = None -> v = NoneV \/ exists s, scalar_like v s.
Proof.
  unfold csv_core, check_scalar, asarray.
  destruct v as [s|l|l| |]; try (intros; right; exists s; now left); try (now left); try discriminate.
  - destruct (cast_list d l) as [l'|] eqn:F; [|discriminate].
    pose proof (cast_list_length _ _ _ F) as Hl.
    destruct l as [|a [|b t]]; destruct l' as [|x [|y w]]; cbn in Hl; try lia; try discriminate.
    intros _. right. exists a. right; now left.
  - destruct (cast_list d l) as [l'|] eqn:F; [|discriminate].
    pose proof (cast_list_length _ _ _ F) as Hl.
    destruct l as [|a [|b t]]; destruct l' as [|x [|y w]]; cbn in Hl; try lia; try discriminate.
    intros _. right. exists a. right; now right.
Qed.

Theorem csv_accepts_scalar_like (az : bool) (d : dt) (v : value) :
  of_res (check_scalar_variable az false d v) = None -> v = NoneV \/ exists s, scalar_like v s.
Proof.
  intros H. destruct (check_scalar_variable az false d v) as [c|] eqn:E; [|discriminate].
  apply wrap_ok in E. apply (core_accepts_scalar_like az d v). now rewrite E.
Qed.

Lemma core_scalar_like_eq (az : bool) (d : dt) (v : value) (s : sc) : scalar_like v s ->
  csv_core az false d v =
  match cast d s with
  | Ok s' => if zero_test az s' then Raise VErr else Ok (CScalar s')
  | Raise e => Raise e
  end.
Proof.
  unfold csv_core, check_scalar, asarray.
  intros [->|[->| ->]]; cbn [cast_list]; destruct (cast d s); try reflexivity; cbn; now rewrite orb_false_r.
Qed.

Lemma pre_scalar_like_eq (az : bool) (v : value) (s : sc) : scalar_like v s ->
  csv_pre az false v =
  match cast DtFloat s with
  | Ok f => if zero_test az f then Some VErr else if is_inf f then Some VErr else None
  | Raise e => Some e
  end.
Proof.
  unfold csv_pre, check_scalar, asarray.
  intros [->|[->| ->]]; cbn [cast_list]; destruct (cast DtFloat s); try reflexivity; cbn; now rewrite !orb_false_r.
Qed.

(* lam (1-D): accepted iff None (np.asarray(None, float) is nan!), or scalar-like, representable, and not <= 0 *)
Theorem check_lam_iff (v : value) :
  run_guard (GCSV false false DtFloat) v = None <->
  v = NoneV \/ exists s, scalar_like v s /\ cast DtFloat s <> Raise OErr /\ le_sc s (zc 0) = false.
Proof.
  cbn [run_guard]. change (check_scalar_variable false false DtFloat v) with (csv_core false false DtFloat v). split.
  - intros H. destruct (core_accepts_scalar_like _ _ _ H) as [->|[s Hs]]; [now left|]. right. exists s.
    split; [assumption|]. rewrite (core_scalar_like_eq _ _ _ _ Hs) in H. unfold zero_test in H.
    destruct (cast DtFloat s) as [s'|] eqn:F; [|discriminate]. split; [discriminate|].
    rewrite <- (cast_float_le s s' _ F). now destruct (le_sc s' (zc 0)).
  - intros [->|[s [Hs [Hc Hz]]]]; [reflexivity|]. rewrite (core_scalar_like_eq _ _ _ _ Hs). unfold zero_test.
    destruct (cast DtFloat s) as [s'|e] eqn:F.
    + rewrite (cast_float_le s s' _ F), Hz. reflexivity.
    + apply cast_float_raise in F. subst e. congruence.
Qed.

(* facts about a scalar whose integer cast exists *)
Lemma cast_both (s : sc) (z : Z) : cast DtInt s = Ok (Int z) ->
  exists f, cast DtFloat s = Ok f /\ is_inf f = false /\
            (forall x, le_sc f x = le_sc s x) /\ (forall x, lt_sc f x = lt_sc s x).
Proof.
  destruct s as [z0|q| | | |b]; cbn [cast]; try discriminate.
  - destruct (in_i64 z0) eqn:R; [|discriminate]. intros _. rewrite (in_i64_float z0 R).
    exists (Frac (inject_Z z0)). repeat split.
  - intros _. exists (Frac q). repeat split.
  - intros _. exists (Frac (inject_Z (b2z b))). repeat split.
Qed.

Lemma int_cast_shape (s s' : sc) : cast DtInt s = Ok s' -> exists z, s' = Int z.
Proof. destruct s; cbn [cast]; try discriminate; try (destruct (in_i64 _); [|discriminate]); intros H; inversion H; eauto. Qed.

Lemma floor_nonneg (q : Q) : Qle_bool 0 q = true -> 0 <= Qfloor q.
Proof.
  intros H. apply Qle_bool_iff in H. change 0 with (Qfloor (inject_Z 0)). apply Qfloor_resp_le. exact H.
Qed.

Lemma cast_nonneg (s : sc) (z : Z) : cast DtInt s = Ok (Int z) -> lt_sc s (zc 0) = false -> 0 <= z.
Proof.
  destruct s as [z0|q| | | |b]; cbn [cast]; try discriminate.
  - destruct (in_i64 z0); [|discriminate]. intros H L. inversion H; subst. unfold zc in L. rewrite lt_sc_int in L. lia.
  - destruct (in_i64 (trunc q)); [|discriminate]. intros H L. inversion H; subst.
    unfold lt_sc, ext_ltb, zc in L. cbn in L. unfold trunc.
    destruct (Qle_bool 0 q) eqn:E; [now apply floor_nonneg|].
    change (inject_Z 0) with 0%Q in L. rewrite E in L. discriminate.
  - intros H _. inversion H. destruct b; cbn; lia.
Qed.

Lemma le_sc_trans_int (a b : Z) (s : sc) : le_sc (Int a) s = true -> le_sc s (Int b) = true -> a <= b.
Proof.
  unfold le_sc. destruct s as [z|q| | | |c]; cbn; try discriminate; rewrite ?qle_inj; try lia.
  intros H1 H2. apply Qle_bool_iff in H1, H2. assert (inject_Z a <= inject_Z b)%Q by (eapply Qle_trans; eauto).
  rewrite <- Zle_Qle in H. exact H.
Qed.

(* half_window (1-D): accepted iff scalar-like, castable to an integer z >= 1 that equals the input *)
Theorem half_window_1d_iff (v : value) :
  run_guard (GHalfWindow false false) v = None <->
  exists s z, scalar_like v s /\ cast DtInt s = Ok (Int z) /\ 1 <= z /\ eq_sc (Int z) s = true.
Proof.
  cbn [run_guard]. unfold check_half_window. split.
  - intros H. destruct (check_scalar_variable false false DtInt v) as [c|] eqn:E; [|discriminate].
    apply wrap_ok in E.
    assert (E' : of_res (csv_core false false DtInt v) = None) by now rewrite E.
    destruct (core_accepts_scalar_like _ _ _ E') as [->|[s Hs]]; [discriminate|].
    rewrite (core_scalar_like_eq _ _ _ _ Hs) in E. unfold zero_test in E.
    destruct (cast DtInt s) as [s'|] eqn:F; [|discriminate].
    destruct (int_cast_shape s s' F) as [z ->].
    destruct (le_sc (Int z) (zc 0)) eqn:L; [discriminate|]. inversion E; subst c.
    exists s, z. split; [assumption|]. split; [exact F|]. split.
    + unfold zc in L. rewrite le_sc_int in L. lia.
    + assert (N : ne_orig (CScalar (Int z)) v = negb (eq_sc (Int z) s)).
      { destruct Hs as [->|[->| ->]]; unfold ne_orig; cbn; apply orb_false_r. }
      rewrite N in H. now destruct (eq_sc (Int z) s).
  - intros [s [z [Hs [Hc [Hz He]]]]].
    assert (Lz : le_sc s (zc 0) = false).
    { destruct (le_sc s (zc 0)) eqn:L; [|reflexivity]. exfalso. unfold eq_sc in He. apply andb_prop in He as [H1 _].
      pose proof (le_sc_trans_int z 0 s H1 L). lia. }
    destruct (cast_both s z Hc) as [f [Hf [Hi [Hle _]]]].
    unfold check_scalar_variable. cbn [is_int_dt]. rewrite (pre_scalar_like_eq _ _ _ Hs), Hf.
    unfold zero_test at 1. rewrite Hle, Lz, Hi.
    rewrite (core_scalar_like_eq _ _ _ _ Hs), Hc. unfold zero_test, zc.
    rewrite le_sc_int. replace (z <=? 0) with false by lia.
    assert (N : ne_orig (CScalar (Int z)) v = negb (eq_sc (Int z) s)).
    { destruct Hs as [->|[->| ->]]; unfold ne_orig; cbn; apply orb_false_r. }
    rewrite N, He. reflexivity.
Qed.

(* half_window, 1-D and 2-D: whatever is accepted is inside the documented domain *)
Theorem half_window_accepts_only_valid (az td : bool) (v : value) :
  regular v = true -> run_guard (GHalfWindow az td) v = None -> must_reject (DHw az) td v = false.
Proof.
  intros R H. destruct (must_reject (DHw az) td v) eqn:M; [|reflexivity].
  exfalso. now apply (cov_hw az td v R M).
Qed.

(* poly_order (1-D, allow_zero, dtype=int): accepted iff scalar-like, castable, and not negative
   (negative fractions are no longer truncated to 0) *)
Theorem csv_int_allow_zero_iff (v : value) :
  run_guard (GCSV true false DtInt) v = None <->
  exists s z, scalar_like v s /\ cast DtInt s = Ok (Int z) /\ lt_sc s (zc 0) = false.
Proof.
  cbn [run_guard]. split.
  - intros H. destruct (csv_accepts_scalar_like _ _ _ H) as [->|[s Hs]]; [discriminate|].
    unfold check_scalar_variable in H. cbn [is_int_dt] in H. rewrite (pre_scalar_like_eq _ _ _ Hs) in H.
    destruct (cast DtFloat s) as [f|] eqn:Ff; [|discriminate].
    unfold zero_test at 1 in H. rewrite (cast_float_lt s f _ Ff) in H.
    destruct (lt_sc s (zc 0)) eqn:L; [discriminate|]. destruct (is_inf f); [discriminate|].
    rewrite (core_scalar_like_eq _ _ _ _ Hs) in H.
    destruct (cast DtInt s) as [s'|] eqn:F; [|discriminate].
    destruct (int_cast_shape s s' F) as [z ->]. exists s, z. now repeat split.
  - intros [s [z [Hs [Hc Hz]]]]. destruct (cast_both s z Hc) as [f [Hf [Hi [_ Hlt]]]].
    unfold check_scalar_variable. cbn [is_int_dt]. rewrite (pre_scalar_like_eq _ _ _ Hs), Hf.
    unfold zero_test at 1. rewrite Hlt, Hz, Hi.
    rewrite (core_scalar_like_eq _ _ _ _ Hs), Hc. unfold zero_test, zc.
    rewrite lt_sc_int. pose proof (cast_nonneg s z Hc Hz). replace (z <? 0) with false by lia. reflexivity.
Qed.

(* integer parameters: an infinity is now a ValueError, for both settings of allow_zero and two_d *)
Theorem int_param_inf_is_value_error (az td : bool) (s : sc) :
  is_inf s = true -> run_guard (GCSV az td DtInt) (Sc s) = Some VErr.
Proof. destruct s; try discriminate; destruct az, td; reflexivity. Qed.

(* banded_solver setter: accepted iff a non-bool scalar numerically equal to 1, 2, 3 or 4 *)
Theorem banded_solver_iff (v : value) (s : sc) :
  banded_solver_set v = Ok s <->
  v = Sc s /\ (forall b, s <> Bl b) /\ existsb (fun k => eq_sc s (Int k)) [1; 2; 3; 4] = true.
Proof.
  split.
  - destruct v as [x| | | |]; cbn [banded_solver_set]; try discriminate.
    destruct x; try discriminate;
      match goal with |- (if ?b then _ else _) = _ -> _ => destruct b eqn:E end; try discriminate;
      intros H; inversion H; subst; (split; [reflexivity|]); (split; [discriminate|exact E]).
  - intros [-> [Hb He]]. cbn [banded_solver_set]. destruct s as [z|q| | | |b]; try (rewrite He; reflexivity). exfalso. now apply (Hb b).
Qed.

(* _check_sized_array: a returned shape has the expected length and the data was finite when checked *)
Theorem sized_array_ok (cf fin e1 : bool) (shape s : list Z) (len : Z) :
  check_sized_array cf fin e1 shape len = Ok s -> (cf = true -> fin = true) /\ last s 0 = len.
Proof.
  unfold check_sized_array. destruct cf, fin; cbn [andb negb]; try discriminate;
    destruct (check_array_shape e1 false false shape); try discriminate;
    destruct (last a 0 =? len) eqn:E; try discriminate; intros H; inversion H; subst;
    (split; [congruence|now apply Z.eqb_eq]).
Qed.

(* ---------------------------------------------------------------- remaining documented holes (inside the domains) *)
Theorem lam_nan_accepted : run_guard (GCSV false false DtFloat) (Sc NaN) = None.
Proof. reflexivity. Qed.

(* a finite value of 2^63 or more is inside the documented domain but its integer cast overflows *)
Theorem huge_finite_overflow : run_guard (GCSV true false DtInt) (Sc (Int (2 ^ 63))) = Some OErr.
Proof. vm_compute. reflexivity. Qed.

(* the former witnesses are now rejected *)
Theorem former_witnesses_rejected :
  run_guard (GHalfWindow false true) (Sc (Frac (5 # 2))) = Some TErr /\
  run_guard (GCSV true false DtInt) (Sc NegInf) = Some VErr /\
  run_guard (GCSV true false DtInt) (Sc (Frac (-1 # 2))) = Some VErr.
Proof. vm_compute. repeat split. Qed.

(* non-vacuity of the routing theorem's hypotheses *)
Example regular_bad_value : regular (Sc (Int 0)) = true /\ must_reject DPos false (Sc (Int 0)) = true.
Proof. vm_compute. split; reflexivity. Qed.
Example regular_bad_inf : regular (Sc NegInf) = true /\ must_reject (DGe 0) false (Sc NegInf) = true.
Proof. vm_compute. split; reflexivity. Qed.

(* ---------------------------------------------------------------- per-point arrays *)
Theorem array_routing_sound (t : list aentry) :
  array_routing_ok t = true ->
  (forall e, In e t -> a_arg e <> forwarded_arg -> exists rest, a_events e = AValidate :: rest) /\
  (forall e, In e t -> a_arg e = forwarded_arg ->
     a_events e <> [] /\ forall a, In a (a_events e) -> a = APad \/ a = AValidate) /\
  (forall r, In r required_arrays -> exists e, In e t /\ amatches r e = true).
Proof.
  unfold array_routing_ok. intros H. apply andb_prop in H as [H1 H2].
  rewrite forallb_forall in H1, H2. repeat split.
  - intros e He Hn. specialize (H1 e He). unfold aentry_ok in H1.
    destruct (String.eqb (a_arg e) forwarded_arg) eqn:E; [apply String.eqb_eq in E; congruence|].
    destruct (a_events e) as [|[| |] rest]; try discriminate. now exists rest.
  - specialize (H1 e H). unfold aentry_ok in H1. rewrite H0, String.eqb_refl in H1.
    unfold forwarded_ok in H1. destruct (a_events e); [discriminate|discriminate].
  - intros a Ha. specialize (H1 e H). unfold aentry_ok in H1. rewrite H0, String.eqb_refl in H1.
    unfold forwarded_ok in H1. destruct (a_events e) as [|x l] eqn:E; [destruct Ha|].
    rewrite forallb_forall in H1. specialize (H1 a Ha). destruct a; [now right|now left|discriminate].
  - intros r Hr. specialize (H2 r Hr). apply existsb_exists in H2 as [e [He Hm]]. now exists e.
Qed.

(* ---------------------------------------------------------------- check_finite forwarding *)
Theorem finite_routing_sound (t : list centry) :
  finite_routing_ok t = true ->
  (forall e, In e t -> c_forwarded e = true \/ c_prevalidation e = true) /\
  (forall td fn n, In (td, fn, n) finite_required -> (n <= count_sites td fn t)%nat).
Proof.
  unfold finite_routing_ok. intros H. apply andb_prop in H as [H1 H2].
  rewrite forallb_forall in H1, H2. split; [intros e He; now apply orb_prop, H1|].
  intros td fn n Hr. specialize (H2 _ Hr). cbn in H2. now apply Nat.leb_le.
Qed.

(* ---------------------------------------------------------------- _check_half_window call sites *)
Lemma hwsite_eqb_eq (a b : hwsite) : hwsite_eqb a b = true -> a = b.
Proof.
  destruct a as [[[[[d1 m1] f1] x1] z1] t1], b as [[[[[d2 m2] f2] x2] z2] t2]. cbn. intros H.
  repeat (apply andb_prop in H as [H ?]).
  apply eqb_prop in H, H0, H1. apply String.eqb_eq in H2, H3, H4. now subst.
Qed.
Theorem hw_sites_sound (t : list hwsite) : hw_sites_ok t = true -> t = hw_sites_expected.
Proof.
  unfold hw_sites_ok. generalize hw_sites_expected. induction t as [|x t IH]; intros [|y e]; cbn; try discriminate.
  - reflexivity.
  - intros H. apply andb_prop in H as [H1 H2]. apply hwsite_eqb_eq in H1. rewrite H1, (IH e H2). reflexivity.
Qed.

(* ---------------------------------------------------------------- configuration writes *)
Theorem cfg_writes_sound (t : list cfgwrite) :
  cfg_writes_ok t = true -> cfg_violations t = [] /\ forall w, In w t -> cfg_allowed w = true.
Proof.
  unfold cfg_writes_ok, cfg_violations. intros H. rewrite forallb_forall in H. split; [|exact H].
  induction t as [|w t IH]; [reflexivity|]. cbn. rewrite (H w (or_introl eq_refl)). cbn.
  apply IH. intros x Hx. apply H. now right.
Qed.
