(* C15 -- exact accept set of _check_lam for the 2-D fitters (scalar, one-element array or PAIR), for every value. *)
From Coq Require Import ZArith QArith List Bool String Lia.
From PB Require Import C15.Model C15.Routing C15.Proofs.
Import ListNotations.
Open Scope Z_scope.

(* a single lam entry is fine: representable as a double and not <= 0 (nan passes: np.less_equal(nan, 0) is False) *)
Definition lam_entry_ok (s : sc) : Prop := cast DtFloat s <> Raise OErr /\ le_sc s (zc 0) = false.
Definition okf (s : sc) : bool :=
  match cast DtFloat s with Ok f => negb (le_sc f (zc 0)) | Raise _ => false end.

Lemma okf_spec (s : sc) : okf s = true <-> lam_entry_ok s.
Proof.
  unfold okf, lam_entry_ok. destruct (cast DtFloat s) as [f|e] eqn:F.
  - rewrite (cast_float_le s f _ F). split.
    + intros H. split; [discriminate|]. now destruct (le_sc s (zc 0)).
    + intros [_ H]. now rewrite H.
  - apply cast_float_raise in F. subst e. split; [discriminate|]. intros [H _]. congruence.
Qed.

Lemma core2_scalar (w : value) (s : sc) : scalar_like w s ->
  of_res (csv_core false true DtFloat w) = if okf s then None else
     match cast DtFloat s with Ok _ => Some VErr | Raise e => Some e end.
Proof.
  unfold csv_core, check_scalar, asarray, okf.
  intros [->|[->| ->]]; cbn [cast_list]; destruct (cast DtFloat s) as [f|e]; try reflexivity;
    cbn -[le_sc]; unfold zero_test; destruct (le_sc f (zc 0)); reflexivity.
Qed.

Lemma core2_pair (a b : sc) :
  of_res (csv_core false true DtFloat (Arr [a; b])) = None <-> okf a = true /\ okf b = true.
Proof.
  unfold csv_core, check_scalar, asarray, okf. cbn [cast_list].
  destruct (cast DtFloat a) as [fa|]; [|split; [discriminate|intros [H _]; discriminate]].
  destruct (cast DtFloat b) as [fb|]; [|split; [discriminate|intros [_ H]; discriminate]].
  cbn -[le_sc]. unfold zero_test. destruct (le_sc fa (zc 0)), (le_sc fb (zc 0)); cbn; split; try discriminate;
    try (intros [H1 H2]; discriminate); auto.
Qed.

Theorem check_lam_2d_iff (v : value) :
  run_guard (GCSV false true DtFloat) v = None <->
  v = NoneV \/ (exists s, scalar_like v s /\ lam_entry_ok s)
  \/ (exists a b, (v = Arr [a; b] \/ v = Lst [a; b]) /\ lam_entry_ok a /\ lam_entry_ok b).
Proof.
  cbn [run_guard]. change (check_scalar_variable false true DtFloat v) with (csv_core false true DtFloat v).
  assert (LONG : forall l, (3 <= List.length l)%nat -> of_res (csv_core false true DtFloat (Arr l)) <> None)
    by (intros l; apply core_long).
  assert (ARR : forall l, of_res (csv_core false true DtFloat (Arr l)) = None <->
            (exists s, l = [s] /\ lam_entry_ok s) \/ (exists a b, l = [a; b] /\ lam_entry_ok a /\ lam_entry_ok b)).
  { intros l. destruct l as [|a [|b [|c t]]].
    - split; [discriminate|]. intros [[s [H _]]|[a [b [H _]]]]; discriminate.
    - rewrite (core2_scalar (Arr [a]) a) by (right; now left). split.
      + destruct (okf a) eqn:O; [intros _; left; exists a; split; [reflexivity|now apply okf_spec]|].
        destruct (cast DtFloat a); discriminate.
      + intros [[s [H Hs]]|[x [y [H _]]]]; [|discriminate]. inversion H; subst. apply okf_spec in Hs. now rewrite Hs.
    - rewrite core2_pair. split.
      + intros [Ha Hb]. right. exists a, b. split; [reflexivity|]. split; now apply okf_spec.
      + intros [[s [H _]]|[x [y [H [Hx Hy]]]]]; [discriminate|]. inversion H; subst. split; now apply okf_spec.
    - split.
      + intros H. exfalso. apply (LONG (a :: b :: c :: t)); [cbn; lia|exact H].
      + intros [[s [H _]]|[x [y [H _]]]]; discriminate. }
  destruct v as [s|l|l| |].
  - rewrite (core2_scalar (Sc s) s) by now left. split.
    + destruct (okf s) eqn:O; [intros _; right; left; exists s; split; [now left|now apply okf_spec]|].
      destruct (cast DtFloat s); discriminate.
    + intros [H|[[x [[H|[H|H]] Hx]]|[a [b [[H|H] _]]]]]; try discriminate.
      inversion H; subst. apply okf_spec in Hx. now rewrite Hx.
  - rewrite ARR. split.
    + intros [[s [-> Hs]]|[a [b [-> H]]]]; [right; left; exists s; split; [right; now left|assumption]|].
      right; right. exists a, b. split; [now left|assumption].
    + intros [H|[[x [[H|[H|H]] Hx]]|[a [b [[H|H] Hab]]]]]; try discriminate.
      * inversion H; subst. left. now exists x.
      * inversion H; subst. right. now exists a, b.
  - change (csv_core false true DtFloat (Lst l)) with (csv_core false true DtFloat (Arr l)). rewrite ARR. split.
    + intros [[s [-> Hs]]|[a [b [-> H]]]]; [right; left; exists s; split; [right; now right|assumption]|].
      right; right. exists a, b. split; [now right|assumption].
    + intros [H|[[x [[H|[H|H]] Hx]]|[a [b [[H|H] Hab]]]]]; try discriminate.
      * inversion H; subst. left. now exists x.
      * inversion H; subst. right. now exists a, b.
  - split; [discriminate|]. intros [H|[[x [[H|[H|H]] _]]|[a [b [[H|H] _]]]]]; discriminate.
  - split; [intros _; now left|reflexivity].
Qed.
