(* C15 -- executable model of pybaselines/_validation.py and of the inline guards of the fitting
   methods, over an abstract value domain with Python/NumPy comparison semantics (NaN compares
   false with everything; numpy 2.1 truth value of arrays).  Models only -- proofs are in Proofs.v. *)
From Coq Require Import ZArith QArith Qround List Bool String.
Import ListNotations.
Open Scope Z_scope.

(* Python scalars: int, finite float (any rational stands for the float with that value), nan, inf,
   -inf, bool.  Frac q with integral q is a float such as 2.0. *)
Inductive sc := Int (z : Z) | Frac (q : Q) | NaN | PosInf | NegInf | Bl (b : bool).
(* a scalar, a numpy array (already ravelled: _check_scalar ravels), a Python list/tuple, a
   non-numeric string, None *)
Inductive value := Sc (s : sc) | Arr (l : list sc) | Lst (l : list sc) | Str | NoneV.
Inductive exc := VErr | TErr | OErr.      (* ValueError, TypeError, OverflowError *)
Inductive res (A : Type) := Ok (a : A) | Raise (e : exc).
Arguments Ok {A} a.
Arguments Raise {A} e.

(* ---- comparisons on the extended rationals; NaN has no numeric view *)
Inductive ext := Fin (q : Q) | PInf | NInf.
Definition num (s : sc) : option ext :=
  match s with
  | Int z => Some (Fin (inject_Z z)) | Frac q => Some (Fin q) | NaN => None
  | PosInf => Some PInf | NegInf => Some NInf | Bl b => Some (Fin (inject_Z (if b then 1 else 0)))
  end.
Definition ext_leb (a b : ext) : bool :=
  match a, b with
  | NInf, _ => true | _, PInf => true | Fin x, Fin y => Qle_bool x y | _, _ => false
  end.
Definition ext_ltb (a b : ext) : bool := negb (ext_leb b a).
Definition le_sc (a b : sc) : bool :=
  match num a, num b with Some x, Some y => ext_leb x y | _, _ => false end.
Definition lt_sc (a b : sc) : bool :=
  match num a, num b with Some x, Some y => ext_ltb x y | _, _ => false end.
Definition eq_sc (a b : sc) : bool := le_sc a b && le_sc b a.
Definition zc (c : Z) : sc := Int c.

(* Python `v <op> constant` used as a truth value (if / and / not) *)
Definition cmpv (op : sc -> bool) (v : value) : res bool :=
  match v with
  | Sc s => Ok (op s)
  | Arr [] => Ok false          (* numpy 2.1: bool(empty array) = False (DeprecationWarning) *)
  | Arr [s] => Ok (op s)
  | Arr _ => Raise VErr         (* truth value of an array with several elements is ambiguous *)
  | Lst _ | Str | NoneV => Raise TErr   (* '<' not supported between int and list/str/None *)
  end.

(* value of the chained comparison `0 <[=] v <[=] 1` (strict when the flag is true) *)
Definition range01 (ls hs : bool) (v : value) : res bool :=
  match cmpv (fun s => if ls then lt_sc (zc 0) s else le_sc (zc 0) s) v with
  | Ok true => cmpv (fun s => if hs then lt_sc s (zc 1) else le_sc s (zc 1)) v
  | r => r
  end.

(* ---- np.asarray(value, dtype=...) *)
Inductive dt := DtFloat | DtInt | DtNone.
Definition i63 : Z := 2 ^ 63.
Definition fmax : Z := 2 ^ 1024 - 2 ^ 970.     (* ints from here on overflow the double range *)
Definition in_i64 (z : Z) : bool := (- i63 <=? z) && (z <? i63).
Definition trunc (q : Q) : Z := if Qle_bool 0 q then Qfloor q else Qceiling q.
Definition b2z (b : bool) : Z := if b then 1 else 0.

Definition cast (d : dt) (s : sc) : res sc :=
  match d with
  | DtNone => Ok s
  | DtFloat =>
      match s with
      | Int z => if fmax <=? Z.abs z then Raise OErr else Ok (Frac (inject_Z z))
      | Bl b => Ok (Frac (inject_Z (b2z b)))
      | _ => Ok s
      end
  | DtInt =>
      match s with
      | Int z => if in_i64 z then Ok (Int z) else Raise OErr
      | Frac q => if in_i64 (trunc q) then Ok (Int (trunc q)) else Raise OErr
      | NaN => Raise VErr                 (* cannot convert float NaN to integer *)
      | PosInf | NegInf => Raise OErr     (* cannot convert float infinity to integer *)
      | Bl b => Ok (Int (b2z b))
      end
  end.

Fixpoint cast_list (d : dt) (l : list sc) : res (list sc) :=
  match l with
  | [] => Ok []
  | s :: t =>
      match cast d s with
      | Raise e => Raise e
      | Ok s' => match cast_list d t with Ok t' => Ok (s' :: t') | Raise e => Raise e end
      end
  end.

Inductive arr := A0 (s : sc) | A1 (l : list sc).      (* 0-d array / 1-d array *)
Definition asarray (d : dt) (v : value) : res arr :=
  match v with
  | Sc s => match cast d s with Ok s' => Ok (A0 s') | Raise e => Raise e end
  | Arr l | Lst l => match cast_list d l with Ok l' => Ok (A1 l') | Raise e => Raise e end
  | Str => Raise VErr
  | NoneV => match d with DtFloat => Ok (A0 NaN) | _ => Raise TErr end
  end.

(* ---- _check_scalar(data, desired_length, fill_scalar, coerce_0d=True, dtype=d) *)
Inductive cs := CScalar (s : sc) | CFull (n : nat) (s : sc) | CArr (l : list sc).
Definition check_scalar (d : dt) (v : value) (desired : option nat) (fill : bool) : res cs :=
  match asarray d v with
  | Raise e => Raise e
  | Ok a =>
      let scalar_case (s : sc) :=
        if fill then match desired with None => Raise VErr | Some n => Ok (CFull n s) end
        else Ok (CScalar s) in
      match a with
      | A0 s => scalar_case s
      | A1 [s] => scalar_case s
      | A1 l => match desired with
                | Some n => if Nat.eqb (List.length l) n then Ok (CArr l) else Raise VErr
                | None => Ok (CArr l)
                end
      end
  end.
Definition cs_elems (c : cs) : list sc :=
  match c with CScalar s => [s] | CFull n s => repeat s n | CArr l => l end.

(* ---- _check_scalar_variable(value, allow_zero, two_d, dtype=d).
   csv_core is the cast + np.any(np.less[_equal](out, 0)) test; for an integer dtype the value is first
   checked as a float (csv_pre): sign test, then np.isinf -> ValueError, so that negative fractions are
   not truncated to 0 and infinities do not reach the integer cast. *)
Definition zero_test (az : bool) (s : sc) : bool := if az then lt_sc s (zc 0) else le_sc s (zc 0).
Definition is_inf (s : sc) : bool := match s with PosInf | NegInf => true | _ => false end.
Definition is_int_dt (d : dt) : bool := match d with DtInt => true | _ => false end.
Definition csv_core (az td : bool) (d : dt) (v : value) : res cs :=
  match check_scalar d v (Some (if td then 2 else 1)%nat) td with
  | Raise e => Raise e
  | Ok c => if existsb (zero_test az) (cs_elems c) then Raise VErr else Ok c
  end.
Definition csv_pre (az td : bool) (v : value) : option exc :=
  match check_scalar DtFloat v (Some (if td then 2 else 1)%nat) td with
  | Raise e => Some e
  | Ok c => if existsb (zero_test az) (cs_elems c) then Some VErr
            else if existsb is_inf (cs_elems c) then Some VErr else None
  end.
Definition check_scalar_variable (az td : bool) (d : dt) (v : value) : res cs :=
  if is_int_dt d then
    match csv_pre az td v with Some e => Raise e | None => csv_core az td d v end
  else csv_core az td d v.
Definition check_lam (az td : bool) (v : value) : res cs := check_scalar_variable az td DtFloat v.

(* ---- _check_half_window: integer cast, then
   `if np.any(output != np.asarray(half_window).ravel()): TypeError` (1-D and 2-D alike) *)
Definition orig_elems (v : value) : list sc :=
  match v with Sc s => [s] | Arr l | Lst l => l | Str | NoneV => [] end.
Fixpoint ne_any (o l : list sc) : bool :=
  match o, l with a :: o', b :: l' => negb (eq_sc a b) || ne_any o' l' | _, _ => false end.
Definition ne_orig (c : cs) (v : value) : bool :=
  match orig_elems v with
  | [s] => existsb (fun a => negb (eq_sc a s)) (cs_elems c)     (* one input element is broadcast *)
  | l => ne_any (cs_elems c) l
  end.
Definition check_half_window (az td : bool) (v : value) : res cs :=
  match check_scalar_variable az td DtInt v with
  | Raise e => Raise e
  | Ok c => if ne_orig c v then Raise TErr else Ok c
  end.

(* ---- the banded_solver setter: isinstance(solver, bool) or solver not in {1, 2, 3, 4} *)
Definition banded_solver_set (v : value) : res sc :=
  match v with
  | Sc (Bl _) => Raise VErr
  | Sc s => if existsb (fun k => eq_sc s (Int k)) [1; 2; 3; 4] then Ok s else Raise VErr
  | Arr _ | Lst _ => Raise TErr      (* unhashable *)
  | Str | NoneV => Raise VErr
  end.

(* ---- shape decisions of _check_array / _check_sized_array (shape = list of dimensions) *)
Definition has_one (shape : list Z) : bool := existsb (Z.eqb 1) shape.
Definition check_array_shape (ensure_1d ensure_2d two_d : bool) (shape : list Z) : res (list Z) :=
  let dims := Z.of_nat (List.length shape) in
  if dims <? 1 then Raise TErr
  else if ensure_1d then
    if (dims =? 2) && has_one shape then Ok [fold_right Z.mul 1 shape]
    else if negb (dims =? 1) then Raise VErr else Ok shape
  else if two_d then
    if (dims <? 2) || ((dims =? 2) && has_one shape) then Raise VErr
    else if ensure_2d then
      if (dims =? 3) && has_one shape then Ok (filter (fun k => negb (k =? 1)) shape)
      else if negb (dims =? 2) then Raise VErr else Ok shape
    else Ok shape
  else if ensure_2d then Raise VErr else Ok shape.
(* _check_sized_array(..., axis=-1): length of the last axis must equal `len`; `finite` is the result of
   np.asarray_chkfinite (trusted library) when check_finite is set *)
Definition check_sized_array (check_finite finite ensure_1d : bool) (shape : list Z) (len : Z) : res (list Z) :=
  if check_finite && negb finite then Raise VErr
  else match check_array_shape ensure_1d false false shape with
       | Raise e => Raise e
       | Ok s => if last s 0 =? len then Ok s else Raise VErr
       end.

(* ---- guards the translator can emit *)
Inductive guard :=
| GRange01 (lo_strict hi_strict : bool)   (* if not 0 <[=] v <[=] 1: raise ValueError *)
| GLt (c : Z)                             (* if v < c: raise ValueError *)
| GLe (c : Z)                             (* if v <= c: raise ValueError *)
| GNpLessAny (c : Z)                      (* if np.less(v, c).any(): raise ValueError *)
| GEachLt (c : Z)                         (* `if e < c: raise` on each element of the int pair made from v *)
| GCSV (allow_zero two_d : bool) (d : dt) (* _check_scalar_variable / _check_lam *)
| GHalfWindow (allow_zero two_d : bool)   (* _check_half_window *)
| GNotIn (l : list Z)                     (* if v not in {...}: raise ValueError *)
| GOpaque.                                (* another `if ...: raise ValueError/TypeError` mentioning v *)
Inductive item := G (g : guard) | Use.

Definition of_res {A} (r : res A) : option exc := match r with Ok _ => None | Raise e => Some e end.
Definition raise_if (r : res bool) : option exc :=
  match r with Ok true => Some VErr | Ok false => None | Raise e => Some e end.

Definition run_guard (g : guard) (v : value) : option exc :=
  match g with
  | GRange01 ls hs =>
      match range01 ls hs v with Ok true => None | Ok false => Some VErr | Raise e => Some e end
  | GLt c => raise_if (cmpv (fun s => lt_sc s (zc c)) v)
  | GLe c => raise_if (cmpv (fun s => le_sc s (zc c)) v)
  | GNpLessAny c =>
      match v with
      | Sc s => raise_if (Ok (lt_sc s (zc c)))
      | Arr l | Lst l => raise_if (Ok (existsb (fun s => lt_sc s (zc c)) l))
      | Str | NoneV => Some TErr
      end
  | GEachLt c =>
      match check_scalar DtInt v (Some 2%nat) true with
      | Ok k => raise_if (Ok (existsb (fun s => lt_sc s (zc c)) (cs_elems k)))
      | Raise _ => None      (* the validator in front of it has already raised *)
      end
  | GCSV az td d => of_res (check_scalar_variable az td d v)
  | GHalfWindow az td => of_res (check_half_window az td v)
  | GNotIn l =>
      match v with
      | Sc s => if existsb (fun k => eq_sc s (Int k)) l then None else Some VErr
      | Arr _ | Lst _ => Some TErr
      | Str | NoneV => Some VErr
      end
  | GOpaque => None
  end.

(* the guards run in source order; the first one that raises decides *)
Fixpoint run_chain (gs : list guard) (v : value) : option exc :=
  match gs with
  | [] => None
  | g :: t => match run_guard g v with Some e => Some e | None => run_chain t v end
  end.

(* guards reached before the first other use of the parameter *)
Fixpoint before_use (l : list item) : list guard :=
  match l with
  | G g :: t => g :: before_use t
  | _ => []
  end.

Record entry := { e_two_d : bool; e_module : string; e_method : string; e_param : string;
                  e_chain : list item }.

(* per-point arrays (weights, alpha): events of the argument inside the function that validates it *)
(* APad: the array is the input of np.pad(..., 'constant') stored back under the same key (extension by a
   constant number of points, no broadcasting) *)
Inductive aevent := AValidate | APad | AUse.
Record aentry := { a_two_d : bool; a_module : string; a_fn : string; a_arg : string;
                   a_events : list aevent }.

(* validation call sites and whether they forward the fitter's check_finite flag *)
(* c_prevalidation: the validated array is a keyword array (method_kws[key]) that is then handed on to the
   inner registered method, whose own validation (with the fitter's check_finite) sees it again *)
Record centry := { c_two_d : bool; c_module : string; c_fn : string; c_callee : string;
                   c_forwarded : bool; c_prevalidation : bool }.
