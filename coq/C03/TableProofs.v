(* C03 -- the call table generated from the current source passes the reflective check, so every
   registered method instantiates to an operation of the proved state machines. *)
From Coq Require Import ZArith List Bool String Lia.
From PB Require Import C03.Model C03.Model2D C03.Table C03.Instantiate C03.Proofs gen.GenC03.
Import ListNotations.
Open Scope Z_scope.

Lemma table_checked : table_ok gen_methods = true.
Proof. vm_compute. reflexivity. Qed.

Lemma lookup_In t name dim m : lookup t name dim = Some m -> In m t.
Proof.
  induction t as [|m0 t IH]; cbn [lookup]; [discriminate|].
  destruct (String.eqb (m_name m0) name && (m_dim m0 =? dim)).
  - intros [= <-]. left. reflexivity.
  - intros H. right. apply IH, H.
Qed.

(* soundness of the check: whatever table passes it, every method in it is modelled *)
Lemma table_ok_sound t : table_ok t = true ->
  forall name dim m, lookup t name dim = Some m -> minfo_ok m = true.
Proof.
  intros Ht name dim m Hl. unfold table_ok in Ht. rewrite forallb_forall in Ht.
  apply Ht. eapply lookup_In, Hl.
Qed.

Theorem inst_total_any t : table_ok t = true -> forall name a m,
  lookup t name 1 = Some m -> inst t (IMethod name a) = Some (call_of m a).
Proof. intros Ht name a m Hl. cbn [inst]. rewrite Hl, (table_ok_sound t Ht name 1 m Hl). reflexivity. Qed.

Theorem inst2_total_any t : table_ok t = true -> forall name a m,
  lookup t name 2 = Some m -> inst2 t (IMethod2 name a) = Some (call_of2 m a).
Proof. intros Ht name a m Hl. cbn [inst2]. rewrite Hl, (table_ok_sound t Ht name 2 m Hl). reflexivity. Qed.

(* for the table generated from the current source *)
Theorem table_modelled : forall name dim m, lookup gen_methods name dim = Some m ->
  minfo_ok m = true /\
  (forall a, dim = 1 -> inst gen_methods (IMethod name a) = Some (call_of m a)) /\
  (forall a, dim = 2 -> inst2 gen_methods (IMethod2 name a) = Some (call_of2 m a)).
Proof.
  intros name dim m Hl. split; [apply (table_ok_sound _ table_checked name dim m Hl)|]. split; intros a ->.
  - apply (inst_total_any _ table_checked), Hl.
  - apply (inst2_total_any _ table_checked), Hl.
Qed.

(* a group (optimizer call) executes a prefix of its operations: it is covered by the theorems over
   arbitrary operation lists *)
Lemma step_group_prefix ops : forall s, exists k, fst (step_group s ops) = run XSym (firstn k ops) s.
Proof.
  induction ops as [|o ops IH]; intros s.
  - exists 0%nat. reflexivity.
  - cbn [step_group]. destruct (step XSym s o) as [s1 out] eqn:E.
    destruct (is_none (o_err out)).
    + destruct (IH s1) as [k Hk]. exists (S k). cbn [firstn]. unfold run in *. cbn [fold_left]. rewrite E. exact Hk.
    + exists 1%nat. cbn [firstn fst]. unfold run. cbn [fold_left]. rewrite E. reflexivity.
Qed.

Definition item_wf (i : item) : Prop :=
  match i with IMethod _ a => match a_data a with Some n => 2 <= n | None => True end | ISolver _ => True end.

Lemma inst_wf t i o : inst t i = Some o -> item_wf i -> wf_op o.
Proof.
  destruct i as [name a|v]; cbn [inst].
  - destruct (lookup t name 1) as [m|]; [|discriminate]. destruct (minfo_ok m); [|discriminate].
    intros [= <-] H. exact H.
  - intros [= <-] _. exact I.
Qed.

Lemma inst_all_wf t : forall l ops, inst_all t l = Some ops -> Forall item_wf l -> Forall wf_op ops.
Proof.
  induction l as [|i l IH]; intros ops; cbn [inst_all].
  - intros [= <-] _. constructor.
  - destruct (inst t i) as [o|] eqn:Ei; [|discriminate]. destruct (inst_all t l) as [r|]; [|discriminate].
    intros [= <-] Hw. inversion Hw; subst. constructor; [eapply inst_wf; eassumption|apply IH; [reflexivity|assumption]].
Qed.

(* C03_history over histories described by (registered method name, arguments) through the generated table *)
Theorem history_table
  (O : XOps) (V P B : Type) (vander : X O -> bool -> Z -> V) (slice : V -> Z -> V)
  (pinv : V -> P) (basis : X O -> Z -> Z -> B) :
  (forall (x : X O) (dm : bool) (p q : Z), 0 <= q <= p -> slice (vander x dm p) q = vander x dm q) ->
  (forall n : Z, 0 <= n -> xsize O (linspace O n) = n) ->
  (forall n : Z, xunique O (linspace O n) = true) ->
  (forall n p : Z, 2 <= n -> vander (linspace O n) true p = vander (linspace O n) false p) ->
  forall (x0 : option (X O)) (items : list item) (ops : list op) (pitem : item) (probe : op),
    inst_all gen_methods items = Some ops -> Forall item_wf items -> inst gen_methods pitem = Some probe ->
    obs O V P B vander slice pinv basis (run O ops (init O x0)) probe =
    obs O V P B vander slice pinv basis (fresh O (run O ops (init O x0))) probe.
Proof.
  intros H1 H2 H3 H4 x0 items ops pitem probe Hi Hw _.
  apply history; try assumption. eapply inst_all_wf; eassumption.
Qed.

Lemma step_group2_prefix ops : forall s, exists k, fst (step_group2 s ops) = run2 (firstn k ops) s.
Proof.
  induction ops as [|o ops IH]; intros s.
  - exists 0%nat. reflexivity.
  - cbn [step_group2]. destruct (step2 s o) as [s1 out] eqn:E.
    destruct (is_none (o2_err out)).
    + destruct (IH s1) as [k Hk]. exists (S k). cbn [firstn]. unfold run2 in *. cbn [fold_left]. rewrite E. exact Hk.
    + exists 1%nat. cbn [firstn fst]. unfold run2. cbn [fold_left]. rewrite E. reflexivity.
Qed.

(* the persistent attributes of the current source are exactly the cells the models account for *)
Lemma cells_checked : cells_ok gen_cells = true.
Proof. vm_compute. reflexivity. Qed.

(* every cache-key attribute of the current source is assigned a constant, a copy or an immutable scalar *)
Lemma keys_checked : keys_complete gen_key_stores && keys_ok gen_key_stores = true.
Proof. vm_compute. reflexivity. Qed.

Lemma keys_ok_sound g : keys_ok g = true ->
  forall c a m k, In (c, a, m, k) g -> in_known c a = false -> kstore_by_value k = true.
Proof.
  intros H c a m k Hin Hn. unfold keys_ok in H. rewrite forallb_forall in H.
  specialize (H _ Hin). cbv beta iota in H. rewrite Hn in H. rewrite Bool.orb_false_r in H. exact H.
Qed.

Lemma keys_by_value : forall c a m k, In (c, a, m, k) gen_key_stores -> kstore_by_value k = true.
Proof.
  intros c a m k Hin. pose proof keys_checked as H. apply Bool.andb_true_iff in H.
  apply (keys_ok_sound gen_key_stores (proj2 H) c a m k Hin). reflexivity.
Qed.
