(* C03 -- the 2-D theorems lifted from keys to the arrays they denote.  The 2-D machine (Model2D.v) records, for
   every cached array, the key it was computed for; here the keys are interpreted through ABSTRACT deterministic
   library functions of the object's axes (polyvander2d + max_cross masking, np.linalg.pinv, the per-axis B-spline
   basis, scipy.sparse.kron), and the invariant and the refinement theorem are restated about the denoted arrays. *)
From Coq Require Import ZArith List Bool.
From PB Require Import C03.Model C03.Model2D C03.Proofs2D.
Import ListNotations.
Open Scope Z_scope.

Section Den2.
Variable E : Type.                       (* the object's x and z arrays (fixed once created) *)
Variables V P B F : Type.
Variable vander2 : E -> key2 -> V.       (* the (orders, max_cross) Vandermonde over (x, z) *)
Variable pinv : V -> P.
Variable basis : E -> bool -> akey -> B. (* per-axis basis: true = rows (x), false = columns (z) *)
Variable kron : B -> B -> F.

Inductive dread2 := DVander2 (v : V) | DPinv2 (p : P) | DBasis2 (r c : B) | DFull2 (f : F).

Definition den_full (e : E) (f : akey * akey) : F := kron (basis e true (fst f)) (basis e false (snd f)).

Definition dr2 (e : E) (r : read2) : dread2 :=
  match r with
  | RVander2 k => DVander2 (vander2 e k)
  | RPinv2 k => DPinv2 (pinv (vander2 e k))
  | RBasis2 r c => DBasis2 (basis e true r) (basis e false c)
  | RFull2 f => DFull2 (den_full e f)
  end.

(* what a 2-D call's result depends on besides its own arguments, as arrays *)
Definition dobs2 (e : E) (o : outcome2) : (option Z * option Z) * list dread2 * option err :=
  (o2_axes o, map (dr2 e) (o2_reads o), o2_err o).

(* the invariant about the denoted arrays *)
Definition DInv2 (e : E) (s : st2) : Prop :=
  (forall h, t_poly s = Some h ->
     (* the stored Vandermonde is the one for the stored orders and max_cross *)
     vander2 e (q_vand h) = vander2 e (fst (q_order h), snd (q_order h), q_mc h) /\
     (* a pseudo-inverse not flagged stale is the pseudo-inverse of the stored Vandermonde *)
     (q_stale h = false -> forall k, q_pinv h = Some k -> pinv (vander2 e k) = pinv (vander2 e (q_vand h)))) /\
  (forall b, t_spline s = Some b ->
     (* the per-axis bases are the ones of the key's axes *)
     (let '(k1, k2, d1, d2) := b_key b in
      basis e true (b_r b) = basis e true (k1, d1) /\ basis e false (b_c b) = basis e false (k2, d2)) /\
     (* the lazily created full basis is absent or the Kronecker product of the CURRENT per-axis bases *)
     (forall f, b_full b = Some f -> den_full e f = kron (basis e true (b_r b)) (basis e false (b_c b)))).

Lemma inv2_denoted e s : Inv2 s -> DInv2 e s.
Proof.
  intros (Hp & Hs & _). split.
  - intros h Hh. destruct (Hp h Hh) as [Hv Hq]. split; [rewrite Hv; reflexivity|].
    intros Hst k Hk. rewrite (Hq Hst k Hk). reflexivity.
  - intros b Hb. destruct (Hs b Hb) as (_ & Hax & Hf). split.
    + destruct (b_key b) as [[[k1 k2] d1] d2]. destruct Hax as [-> ->]. split; reflexivity.
    + intros f Hfe. rewrite (Hf f Hfe). reflexivity.
Qed.

(* C03_inv_2d, denoted: after every history the cached 2-D arrays ARE what their attributes claim *)
Theorem inv2_run_denoted (e : E) (x0 z0 : option Z) (ops : list op2) : DInv2 e (run2 ops (init2 x0 z0)).
Proof. apply inv2_denoted, inv2_run. Qed.

(* C03_history_2d, denoted: after any history a probe reads the same ARRAYS (Vandermonde, pseudo-inverse, per-axis
   bases, full Kronecker basis), sees the same axes and raises at the same place as on a fresh object *)
Theorem history2_denoted (e : E) (x0 z0 : option Z) (ops : list op2) (probe : op2) :
  dobs2 e (snd (step2 (run2 ops (init2 x0 z0)) probe)) =
  dobs2 e (snd (step2 (fresh2 (run2 ops (init2 x0 z0))) probe)).
Proof. rewrite (history2 x0 z0 ops probe). reflexivity. Qed.
End Den2.
