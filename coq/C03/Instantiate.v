(* C03 -- from the generated call table (gen/GenC03.v) and the concrete arguments of a call to the
   operation of the state machines of Model.v / Model2D.v; the reflective check that every generated
   cache use is of a kind the machines model.  Definitions only. *)
From Coq Require Import ZArith List Bool String.
From PB Require Import C03.Model C03.Model2D C03.Table.
Import ListNotations.
Open Scope Z_scope.

Definition param_eqb (p q : param) : bool :=
  match p, q with
  | PPolyOrder, PPolyOrder | PNumKnots, PNumKnots | PSplineDegree, PSplineDegree | PDiffOrder, PDiffOrder
  | PMaxIter, PMaxIter | PLam, PLam | PMaxCross, PMaxCross => true
  | _, _ => false
  end.

(* ---------------------------------------------------------------- the reflective check *)
Definition zarg_ok (p : param) (z : zarg) : bool :=
  match z with ZConst _ => true | ZParam q => param_eqb p q end.

Definition guard_ok (g : guard) : bool :=
  match g with
  | GAlways | GWeightsNone => true
  | GParamPos PMaxIter => true
  | GParamNotNone PLam => true
  | _ => false
  end.

Definition use_ok (dim : Z) (u : use) : bool :=
  match u with
  | UPoly g _ o _ _ mc => guard_ok g && zarg_ok PPolyOrder o && (match mc with MNone => true | MParam => dim =? 2 end)
  | USpline g _ k d _ dord => guard_ok g && zarg_ok PNumKnots k && zarg_ok PSplineDegree d && zarg_ok PDiffOrder dord
  | UWhit g _ dord => guard_ok g && zarg_ok PDiffOrder dord
  | UWhitOpaque _ | UNoCache _ | UOptimizer | UOverrideX => true
  | UFullBasis => dim =? 2
  | UUnknown _ => false
  end.

(* Model2D has no uniqueness validation: a 2-D method registered with require_unique_xz must fail the check *)
(* a read of the lazy full basis is modelled as part of the unconditional basis-making spline setup that
   precedes it in the same body *)
Definition is_full (u : use) : bool := match u with UFullBasis => true | _ => false end.
Definition is_main_spline (u : use) : bool := match u with USpline GAlways _ _ _ true _ => true | _ => false end.
Fixpoint full_ok (seen : bool) (us : list use) : bool :=
  match us with
  | [] => true
  | u :: r => (if is_full u then seen else true) && full_ok (seen || is_main_spline u) r
  end.

Definition minfo_ok (m : minfo) : bool :=
  ((m_dim m =? 1) || ((m_dim m =? 2) && negb (m_unique m))) && forallb (use_ok (m_dim m)) (m_uses m)
  && full_ok false (m_uses m).

Definition table_ok (t : list minfo) : bool := forallb minfo_ok t.

Fixpoint lookup (t : list minfo) (name : string) (dim : Z) : option minfo :=
  match t with
  | [] => None
  | m :: t' => if String.eqb (m_name m) name && (m_dim m =? dim) then Some m else lookup t' name dim
  end.

(* ---------------------------------------------------------------- 1-D instantiation *)
Record args := { a_data : option Z; a_dataok : bool; a_w : option Z;
                 a_poly : Z; a_knots : Z; a_degree : Z; a_dorder : Z;
                 a_maxiter_pos : bool; a_lam_given : bool;
                 a_pre_raise : bool;    (* the body rejects a parameter before its first _setup_* call *)
                 a_post_raise : bool }. (* the body raises after its last _setup_* call *)

Definition zval (z : zarg) (a : args) : Z :=
  match z with
  | ZConst v => v
  | ZParam PPolyOrder => a_poly a
  | ZParam PNumKnots => a_knots a
  | ZParam PSplineDegree => a_degree a
  | ZParam PDiffOrder => a_dorder a
  | ZParam _ => 0
  end.

Definition guard_on (g : guard) (a : args) : bool :=
  match g with
  | GAlways => true
  | GWeightsNone => is_none (a_w a)
  | GParamPos PMaxIter => a_maxiter_pos a
  | GParamNotNone PLam => a_lam_given a
  | _ => false
  end.

Definition wlen (w : warg) (a : args) : option Z :=
  match w with
  | WNone => None
  | WParam => a_w a
  | WParamOrArray => match a_w a with None => a_data a | Some v => Some v end
  | WArray => a_data a
  end.

Definition setup_of (u : use) (a : args) : list setup :=
  match u with
  | UPoly g w o cv cp _ => if guard_on g a then [SPoly (wlen w a) (zval o a) cv cp] else []
  | USpline g w k d mk dord => if guard_on g a then [SSpline (wlen w a) (zval k a) (zval d a) mk (zval dord a)] else []
  | UWhit g w dord => if guard_on g a then [SWhit (wlen w a) (zval dord a)] else []
  | _ => []
  end.

Definition call_of (m : minfo) (a : args) : op :=
  Call {| c_unique := m_unique m; c_data := a_data a; c_dataok := a_dataok a;
          c_setups := if a_pre_raise a then [SRaise]
                      else flat_map (fun u => setup_of u a) (m_uses m) ++ (if a_post_raise a then [SRaise] else []) |}.

Inductive item := IMethod (name : string) (a : args) | ISolver (v : Z).

Definition inst (t : list minfo) (i : item) : option op :=
  match i with
  | ISolver v => Some (SetSolver v)
  | IMethod name a =>
      match lookup t name 1 with
      | Some m => if minfo_ok m then Some (call_of m a) else None
      | None => None
      end
  end.

Fixpoint inst_all (t : list minfo) (l : list item) : option (list op) :=
  match l with
  | [] => Some []
  | i :: l' => match inst t i, inst_all t l' with Some o, Some r => Some (o :: r) | _, _ => None end
  end.

(* one user-level call = a group of operations (an optimizer's own prologue followed by the calls it
   delegates to methods of the same object); execution stops at the first raise *)
Fixpoint step_group (s : st XSym) (ops : list op) : st XSym * bool :=
  match ops with
  | [] => (s, false)
  | o :: r => let '(s1, out) := step XSym s o in
              if is_none (o_err out) then step_group s1 r else (s1, true)
  end.

Fixpoint trace_g (t : list minfo) (s : st XSym) (gs : list (list item)) : option (list (list Z)) :=
  match gs with
  | [] => Some []
  | g :: r =>
      match inst_all t g with
      | None => None
      | Some ops => let '(s1, raised) := step_group s ops in
                    match trace_g t s1 r with
                    | Some tr => Some ((observe s1 ++ [b2z raised]) :: tr)
                    | None => None
                    end
      end
  end.

(* ---------------------------------------------------------------- 2-D instantiation *)
Record args2 := { b_data : option (Z * Z); b_dataok : bool; b_w : option (Z * Z);
                  b_px : Z; b_pz : Z; b_mc : option Z; b_k : key4; b_dox : Z; b_doz : Z;
                  b_pre_raise : bool; b_post_raise : bool }.

Definition guard_on2 (g : guard) (a : args2) : bool :=
  match g with GAlways => true | GWeightsNone => is_none (b_w a) | _ => false end.

Definition wlen2 (w : warg) (a : args2) : option (Z * Z) :=
  match w with
  | WNone => None
  | WParam => b_w a
  | WParamOrArray => match b_w a with None => b_data a | Some v => Some v end
  | WArray => b_data a
  end.

Definition setup_of2 (full : bool) (u : use) (a : args2) : list setup2 :=
  match u with
  | UPoly g w o cv cp mc =>
      if guard_on2 g a then
        [SPoly2 (wlen2 w a) (match o with ZConst v => v | _ => b_px a end) (match o with ZConst v => v | _ => b_pz a end)
                (match mc with MNone => None | MParam => b_mc a end) cv cp]
      else []
  | USpline g w k d mk dord =>
      if guard_on2 g a then
        let '(k1, k2, d1, d2) := b_k a in
        [SSpline2 (wlen2 w a)
                  (match k with ZConst v => v | _ => k1 end, match k with ZConst v => v | _ => k2 end,
                   match d with ZConst v => v | _ => d1 end, match d with ZConst v => v | _ => d2 end)
                  mk (match dord with ZConst v => v | _ => b_dox a end) (match dord with ZConst v => v | _ => b_doz a end)
                  (full && mk)]
      else []
  | _ => []
  end.

Definition call_of2 (m : minfo) (a : args2) : op2 :=
  Call2 {| d_data := b_data a; d_dataok := b_dataok a;
           d_setups := if b_pre_raise a then [SRaise2]
                       else flat_map (fun u => setup_of2 (existsb is_full (m_uses m)) u a) (m_uses m) ++ (if b_post_raise a then [SRaise2] else []) |}.

Inductive item2 := IMethod2 (name : string) (a : args2) | ISolver2 (v : Z).

Definition inst2 (t : list minfo) (i : item2) : option op2 :=
  match i with
  | ISolver2 v => Some (SetSolver2 v)
  | IMethod2 name a =>
      match lookup t name 2 with
      | Some m => if minfo_ok m then Some (call_of2 m a) else None
      | None => None
      end
  end.

Fixpoint trace2_t (t : list minfo) (s : st2) (l : list item2) : option (list (list Z)) :=
  match l with
  | [] => Some []
  | i :: r =>
      match inst2 t i with
      | None => None
      | Some o => let '(s1, out) := step2 s o in
                  match trace2_t t s1 r with
                  | Some tr => Some ((observe2 s1 ++ [b2z (negb (is_none (o2_err out)))]) :: tr)
                  | None => None
                  end
      end
  end.

(* 2-D groups (optimizer calls delegating to methods of the same Baseline2D object) *)
Fixpoint inst2_all (t : list minfo) (l : list item2) : option (list op2) :=
  match l with
  | [] => Some []
  | i :: l' => match inst2 t i, inst2_all t l' with Some o, Some r => Some (o :: r) | _, _ => None end
  end.

Fixpoint step_group2 (s : st2) (ops : list op2) : st2 * bool :=
  match ops with
  | [] => (s, false)
  | o :: r => let '(s1, out) := step2 s o in
              if is_none (o2_err out) then step_group2 s1 r else (s1, true)
  end.

Fixpoint trace2_g (t : list minfo) (s : st2) (gs : list (list item2)) : option (list (list Z)) :=
  match gs with
  | [] => Some []
  | g :: r =>
      match inst2_all t g with
      | None => None
      | Some ops => let '(s1, raised) := step_group2 s ops in
                    match trace2_g t s1 r with
                    | Some tr => Some ((observe2 s1 ++ [b2z raised]) :: tr)
                    | None => None
                    end
      end
  end.

(* ---------------------------------------------------------------- persistent cells
   Every attribute the source assigns on an object that lives across calls, with the cell of Model.v /
   Model2D.v that stands for it.  A new attribute (a new place where one call can leave something for the
   next) makes cells_ok false. *)
Open Scope string_scope.
Definition expected_cells : list (string * list string) := [
  (* p_pinv;           p_stale;      p_order;      p_vand *)
  ("_PolyHelper", ["_pseudo_inverse"; "pinv_stale"; "poly_order"; "vandermonde"]);
  (* q_pinv;           q_mc;        q_stale;      q_order;      q_vand *)
  ("_PolyHelper2D", ["_pseudo_inverse"; "max_cross"; "pinv_stale"; "poly_order"; "vandermonde"]);
  (* all written once in __init__ from (x, num_knots, spline_degree): denoted by the key s_spline *)
  ("SplineBasis", ["_num_bases"; "_x_len"; "basis"; "knots"; "num_knots"; "spline_degree"; "x"]);
  (* b_key = num_knots/spline_degree; b_r = basis_r/knots_r/_G_r; b_c = basis_c/knots_c/_G_c; b_full = _basis;
     _num_bases derived from b_r, b_c; x, z fixed *)
  ("SplineBasis2D", ["_G_c"; "_G_r"; "_basis"; "_num_bases"; "basis_c"; "basis_r"; "knots_c"; "knots_r"; "num_knots";
                     "spline_degree"; "x"; "z"]);
  (* s_size = __size/_size/_shape; s_solver = _banded_solver/banded_solver; s_penta; s_poly; s_spline; s_validated;
     s_x = x; s_lazy = x_domain; constructor constants: _check_finite, _dtype, _sort_order, _inverted_order *)
  ("_Algorithm", ["__size"; "_banded_solver"; "_check_finite"; "_dtype"; "_inverted_order"; "_pentapy_solver"; "_polynomial";
                  "_shape"; "_size"; "_sort_order"; "_spline_basis"; "_validated_x"; "banded_solver"; "x"; "x_domain"]);
  (* t_x/t_z = x, z, __shape/_shape/_size, x_domain, z_domain; t_vx, t_vz; t_poly; t_spline; t_solver *)
  ("_Algorithm2D", ["__shape"; "_banded_solver"; "_check_finite"; "_dtype"; "_inverted_order"; "_polynomial"; "_shape"; "_size";
                    "_sort_order"; "_spline_basis"; "_validated_x"; "_validated_z"; "banded_solver"; "x"; "x_domain"; "z";
                    "z_domain"]);
  ("memoised functions", [])
].

Fixpoint strl_eqb (a b : list string) : bool :=
  match a, b with
  | [], [] => true
  | x :: a', y :: b' => String.eqb x y && strl_eqb a' b'
  | _, _ => false
  end.

Fixpoint cells_eqb (a b : list (string * list string)) : bool :=
  match a, b with
  | [], [] => true
  | (c1, l1) :: a', (c2, l2) :: b' => String.eqb c1 c2 && strl_eqb l1 l2 && cells_eqb a' b'
  | _, _ => false
  end.

Definition cells_ok (g : list (string * list string)) : bool := cells_eqb g expected_cells.

(* ---------------------------------------------------------------- cache keys are values
   The machines compare cache keys BY VALUE (recalc / recalc2 / same_basis / same_basis2 compare the requested
   key with the stored one), i.e. they assume a stored key is a value captured at call time.  That holds when the
   attribute is assigned a constant, a copy, or an immutable scalar; it fails when the attribute is the caller's
   own ndarray (np.asarray does not copy): editing that array between calls changes the stored key silently. *)
Definition kstore_by_value (k : kstore) : bool :=
  match k with KConst | KCopy | KCheckedScalar => true | _ => false end.

(* key attributes that the current source keeps by reference: none (SplineBasis(2D).num_knots / spline_degree
   were, until repo commit 4a1c1fc; the witnesses leak:1d:num_knots-array-mutated, leak:2d:num_knots-array-mutated,
   leak:2d:spline_degree-array-mutated and leak:2d:poly_order-array-mutated are replayed on every run). *)
Definition by_reference_known : list (string * string) := [].

Definition in_known (c a : string) : bool :=
  existsb (fun p => String.eqb (fst p) c && String.eqb (snd p) a) by_reference_known.

Definition keys_ok (g : list (string * string * string * kstore)) : bool :=
  forallb (fun e => let '(c, a, _, k) := e in kstore_by_value k || in_known c a) g.

(* the classes / attributes that must appear at all (fail-closed against a renamed or vanished store) *)
Definition key_attr_present (g : list (string * string * string * kstore)) (c a : string) : bool :=
  existsb (fun e => let '(c', a', _, _) := e in String.eqb c c' && String.eqb a a') g.
Definition keys_complete (g : list (string * string * string * kstore)) : bool :=
  key_attr_present g "_PolyHelper" "poly_order" && key_attr_present g "_PolyHelper2D" "poly_order" &&
  key_attr_present g "_PolyHelper2D" "max_cross" && key_attr_present g "SplineBasis" "num_knots" &&
  key_attr_present g "SplineBasis" "spline_degree" && key_attr_present g "SplineBasis2D" "num_knots" &&
  key_attr_present g "SplineBasis2D" "spline_degree".
