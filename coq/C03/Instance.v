(* C03 -- the library contracts assumed by Proofs.v are jointly satisfiable: a concrete instance
   (x-values = list Z, polyvander by repeated multiplication, column slicing = firstn). *)
From Coq Require Import ZArith List Bool Lia.
From PB Require Import C03.Model C03.Proofs.
Import ListNotations.
Open Scope Z_scope.

Definition XL : XOps :=
  {| X := list Z; xsize := fun l => Z.of_nat (length l); xunique := fun _ => true;
     linspace := fun n => map Z.of_nat (seq 0 (Z.to_nat n)) |}.

Definition vanderL (x : list Z) (dm : bool) (p : Z) : list (list Z) := vander_rows Z Z.mul 1 x (Z.to_nat p).
Definition sliceL (v : list (list Z)) (q : Z) : list (list Z) := slice_rows Z v (Z.to_nat q).

Lemma sliceL_vanderL : forall (x : X XL) dm p q, 0 <= q <= p -> sliceL (vanderL x dm p) q = vanderL x dm q.
Proof. intros x dm p q H. unfold sliceL, vanderL. apply vander_prefix. apply Z2Nat.inj_le; lia. Qed.

Lemma linspaceL_size : forall n, 0 <= n -> xsize XL (linspace XL n) = n.
Proof. intros n H. cbn. rewrite map_length, seq_length. apply Z2Nat.id. exact H. Qed.

Theorem history_instance (x0 : option (list Z)) (ops : list op) (probe : op) :
  Forall wf_op ops ->
  obs XL _ _ _ vanderL sliceL (fun v => v) (fun x k d => (x, k, d)) (run XL ops (init XL x0)) probe =
  obs XL _ _ _ vanderL sliceL (fun v => v) (fun x k d => (x, k, d)) (fresh XL (run XL ops (init XL x0))) probe.
Proof.
  apply (history XL _ _ _ vanderL sliceL (fun v => v) (fun x k d => (x, k, d))).
  - exact sliceL_vanderL.
  - exact linspaceL_size.
  - reflexivity.
  - reflexivity.
Qed.

(* a history going 5 -> 2 -> 7 in polynomial order with weighted and unweighted calls, a raising call
   in between, a spline-key change with equal knots + degree, and a solver change *)
Definition example_ops : list op :=
  [ Call {| c_unique := false; c_data := Some 30; c_dataok := true; c_setups := [SPoly None 5 true true] |};
    Call {| c_unique := false; c_data := Some 30; c_dataok := true; c_setups := [SPoly (Some 30) 2 true true] |};
    Call {| c_unique := false; c_data := Some 30; c_dataok := true; c_setups := [SPoly None (-1) true true] |};
    Call {| c_unique := true; c_data := Some 30; c_dataok := true; c_setups := [SPoly None 2 true false] |};
    SetSolver 4;
    Call {| c_unique := false; c_data := Some 30; c_dataok := true; c_setups := [SSpline None 5 3 true 2] |};
    Call {| c_unique := false; c_data := Some 30; c_dataok := true; c_setups := [SSpline None 6 2 true 7] |};
    Call {| c_unique := false; c_data := Some 30; c_dataok := true; c_setups := [SPoly None 7 true true; SRaise] |} ].

Lemma example_wf : Forall wf_op example_ops.
Proof. unfold example_ops. repeat constructor; cbn; lia. Qed.

(* after the second call the Vandermonde is a slice and the cached pseudo-inverse is flagged stale;
   at the end it is the order-7 matrix with a fresh pseudo-inverse, the basis key is (6, 2) *)
Lemma example_trace :
  map (fun o => (nth 4 o 0, nth 5 o 0, nth 6 o 0, nth 8 o 0, nth 10 o 0, nth 11 o 0, nth 12 o 0, nth 14 o 0))
      (trace (init XSym None) example_ops)
  = [ (5, 6, 0, 6, -1, -1, 2, 0); (2, 3, 1, 6, -1, -1, 2, 0); (2, 3, 1, 6, -1, -1, 2, 1); (2, 3, 1, 6, -1, -1, 2, 0);
      (2, 3, 1, 6, -1, -1, 4, 0); (2, 3, 1, 6, 5, 3, 4, 0); (2, 3, 1, 6, 6, 2, 4, 1); (7, 8, 0, 8, 6, 2, 4, 1) ].
Proof. vm_compute. reflexivity. Qed.
