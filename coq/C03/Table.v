(* C03 -- vocabulary of the call table that tools/gen_c03.py extracts from the registered method
   bodies (coq/gen/GenC03.v).  Data types only. *)
From Coq Require Import ZArith List Bool String.
Import ListNotations.
Open Scope Z_scope.

(* method parameters that may flow into a cache key or guard a _setup_* call *)
Inductive param := PPolyOrder | PNumKnots | PSplineDegree | PDiffOrder | PMaxIter | PLam | PMaxCross.

Inductive zarg := ZConst (v : Z) | ZParam (p : param).

(* the weights argument of a _setup_* call *)
Inductive warg :=
| WNone            (* None / omitted *)
| WParam           (* the method's own `weights` parameter *)
| WParamOrArray    (* `weights`, reassigned to an internally built array under `if weights is None:` *)
| WArray.          (* an internally built array of the object's size *)

(* the condition a _setup_* call is executed under *)
Inductive guard :=
| GAlways
| GWeightsNone               (* if weights is None: *)
| GParamPos (p : param)      (* if <param> > 0: *)
| GParamNotNone (p : param). (* if <param> is not None: *)

Inductive marg := MNone | MParam.   (* max_cross of the 2-D polynomial setup *)

Inductive use :=
| UPoly (g : guard) (w : warg) (order : zarg) (cv cp : bool) (mc : marg)       (* self._setup_polynomial *)
| USpline (g : guard) (w : warg) (knots degree : zarg) (mk : bool) (dorder : zarg)  (* self._setup_spline *)
| UWhit (g : guard) (w : warg) (dorder : zarg)                                  (* self._setup_whittaker *)
| UWhitOpaque (what : string)  (* self._setup_whittaker under an uninterpreted condition / in a loop *)
| UFullBasis                   (* 2-D: a read of the lazily created full basis (<pspline>.basis.basis) *)
| UNoCache (what : string)     (* _setup_morphology / _setup_smooth / _setup_classification / _setup_misc *)
| UOptimizer                   (* self._setup_optimizer: delegates to registered methods of the same object *)
| UOverrideX                   (* ._override_x: fits on a NEW object *)
| UUnknown (what : string).    (* anything else touching the object's state: not modelled *)

Record minfo := { m_name : string; m_dim : Z; m_unique : bool; m_uses : list use }.

(* how a cache-key attribute is assigned *)
Inductive kstore :=
| KConst          (* a constant *)
| KCopy           (* np.array(...) / int(...) / tuple(...) / a literal: a new object *)
| KCheckedScalar  (* _check_scalar_variable(..., two_d=False): an immutable numpy scalar *)
| KChecked2D      (* _check_scalar_variable(..., two_d=True): np.asarray does not copy -- may be the caller's own array *)
| KRaw            (* the caller's argument itself *)
| KUnknown.
