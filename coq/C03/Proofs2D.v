(* C03 -- proofs about the Baseline2D cache state machine (Model2D.v).  Reads are keys: the array a
   key denotes is a deterministic library function of (x, z, key), so equal keys = equal arrays. *)
From Coq Require Import ZArith List Bool Lia ZifyBool.
From PB Require Import C03.Model C03.Model2D.
Import ListNotations.
Open Scope Z_scope.

Lemma oz_eqb_eq a b : oz_eqb a b = true -> a = b.
Proof. destruct a, b; cbn; intros H; try discriminate; try reflexivity. f_equal. lia. Qed.

Lemma key4_eqb_eq a b : key4_eqb a b = true -> a = b.
Proof.
  destruct a as [[[a1 a2] a3] a4], b as [[[b1 b2] b3] b4]. cbn. intros H.
  assert (a1 = b1 /\ a2 = b2 /\ a3 = b3 /\ a4 = b4) as (-> & -> & -> & ->) by lia. reflexivity.
Qed.

(* the polynomial cache denotes what its attributes claim *)
Definition poly2_ok (h : poly2) : Prop :=
  q_vand h = (fst (q_order h), snd (q_order h), q_mc h) /\
  (q_stale h = false -> forall k, q_pinv h = Some k -> k = q_vand h).

(* the spline cache: a valid key, per-axis bases computed for the key's axes, and a lazy full basis that is
   absent or the Kronecker product of the CURRENT per-axis bases *)
Definition spl2_ok (b : spl2) : Prop :=
  key4_valid (b_key b) = true /\
  (let '(k1, k2, d1, d2) := b_key b in b_r b = (k1, d1) /\ b_c b = (k2, d2)) /\
  (forall f, b_full b = Some f -> f = (b_r b, b_c b)).

Definition Inv2 (s : st2) : Prop :=
  (forall h, t_poly s = Some h -> poly2_ok h) /\
  (forall b, t_spline s = Some b -> spl2_ok b) /\
  1 <= t_solver s <= 4.

Lemma init2_inv x z : Inv2 (init2 x z).
Proof. unfold Inv2, init2; cbn. split; [intros h; discriminate|]. split; [intros k; discriminate|lia]. Qed.

Lemma poly2_new_ok px pz mc : poly2_ok (poly2_new px pz mc).
Proof. unfold poly2_ok, poly2_new; cbn. split; [reflexivity|discriminate]. Qed.

Lemma recalc2_ok h px pz mc : poly2_ok h -> poly2_ok (recalc2 h px pz mc).
Proof.
  intros [Hv Hp]. unfold recalc2.
  destruct (negb (oz_eqb (q_mc h) mc) || negb ((fst (q_order h) =? px) && (snd (q_order h) =? pz))) eqn:E.
  - unfold poly2_ok; cbn. split; [reflexivity|discriminate].
  - apply orb_false_iff in E as [E1 E2]. apply negb_false_iff in E1, E2.
    apply oz_eqb_eq in E1. unfold poly2_ok; cbn [q_vand q_order q_mc q_stale q_pinv fst snd].
    split; [|exact Hp]. rewrite Hv. rewrite E1. f_equal. f_equal; lia.
Qed.

Lemma recalc2_vand h px pz mc : poly2_ok h -> q_vand (recalc2 h px pz mc) = (px, pz, mc).
Proof.
  intros Hh. pose proof (recalc2_ok h px pz mc Hh) as [Hv _]. rewrite Hv.
  unfold recalc2. destruct (negb (oz_eqb (q_mc h) mc) || _); reflexivity.
Qed.

Lemma get_pinv2_ok h : poly2_ok h ->
  poly2_ok (get_pinv2 h) /\ q_vand (get_pinv2 h) = q_vand h /\ q_pinv (get_pinv2 h) = Some (q_vand h).
Proof.
  intros [Hv Hp]. unfold get_pinv2. destruct (q_stale h || is_none (q_pinv h)) eqn:E.
  - cbn. split; [|split; reflexivity]. unfold poly2_ok; cbn. split; [exact Hv|]. intros _ k [= <-]. reflexivity.
  - apply orb_false_iff in E as [Es En]. split; [split; assumption|]. split; [reflexivity|].
    destruct (q_pinv h) as [k|] eqn:Ek; [|discriminate]. rewrite (Hp Es k eq_refl). reflexivity.
Qed.

(* two objects with the same axes and solver whose caches satisfy the invariant *)
Definition Sim2 (s f : st2) : Prop :=
  t_x s = t_x f /\ t_z s = t_z f /\ t_solver s = t_solver f /\ Inv2 s /\ Inv2 f.

Lemma inv2_upd_poly s h : Inv2 s -> poly2_ok h -> Inv2 (upd2_poly s h).
Proof. intros (A & B & C) Hh. unfold Inv2, upd2_poly; cbn. split; [intros h' [= <-]; exact Hh|]. split; assumption. Qed.

Lemma inv2_upd_spline s b : Inv2 s -> spl2_ok b -> Inv2 (upd2_spline s b).
Proof. intros (A & B & C) Hk. unfold Inv2, upd2_spline; cbn. split; [exact A|]. split; [intros k' [= <-]; exact Hk|exact C]. Qed.

Lemma spl2_new_ok k : key4_valid k = true -> spl2_ok (spl2_new k).
Proof.
  intros Hk. destruct k as [[[k1 k2] d1] d2]. unfold spl2_ok, spl2_new; cbn.
  split; [exact Hk|]. split; [split; reflexivity|discriminate].
Qed.

Lemma spl2_axes b k1 k2 d1 d2 : spl2_ok b -> b_key b = (k1, k2, d1, d2) -> b_r b = (k1, d1) /\ b_c b = (k2, d2).
Proof. intros (_ & H & _) E. rewrite E in H. exact H. Qed.

Lemma get_full_ok b : spl2_ok b ->
  spl2_ok (get_full b) /\ b_full (get_full b) = Some (b_r b, b_c b) /\ b_key (get_full b) = b_key b.
Proof.
  intros (A & B & C). unfold get_full, spl2_ok. destruct (b_full b) as [f|] eqn:E.
  - split; [split; [exact A|split; [exact B|intros f0 Hf0; apply C; rewrite <- Hf0; symmetry; exact E]]|].
    split; [rewrite E, (C f eq_refl); reflexivity|reflexivity].
  - cbn. split; [|split; reflexivity]. unfold spl2_ok; cbn. split; [exact A|]. split; [exact B|]. intros f [= <-]. reflexivity.
Qed.

Ltac sim5 := split; [|split; [|split; [|split]]].
Ltac fin2 HS := split; [reflexivity|split; [reflexivity|exact HS]].

Lemma do_setup2_sim s f u : Sim2 s f ->
  let '(s1, r1, e1) := do_setup2 s u in
  let '(f1, r2, e2) := do_setup2 f u in
  e1 = e2 /\ r1 = r2 /\ Sim2 s1 f1.
Proof.
  intros HS. pose proof HS as (Ax & Az & As & Is & If).
  assert (Hw : forall w, wok2 f w = wok2 s w) by (intros w; unfold wok2; rewrite Ax, Az; reflexivity).
  destruct u as [w px pz mc cv cp|w k mk dox doz full|]; cbn [do_setup2]; rewrite ?Hw.
  - destruct (wok2 s w); cbn [negb]; [|fin2 HS].
    destruct ((px <? 0) || (pz <? 0)); [fin2 HS|].
    destruct (cv && match mc with Some m => m <? 0 | None => false end); [fin2 HS|].
    set (hs := match t_poly s with None => poly2_new px pz mc | Some h => recalc2 h px pz mc end).
    set (hf := match t_poly f with None => poly2_new px pz mc | Some h => recalc2 h px pz mc end).
    assert (Hhs : poly2_ok hs /\ q_vand hs = (px, pz, mc)).
    { unfold hs. destruct (t_poly s) as [h|] eqn:Eh.
      - destruct Is as (A & _). split; [apply recalc2_ok, A, Eh|apply recalc2_vand, A, Eh].
      - split; [apply poly2_new_ok|reflexivity]. }
    assert (Hhf : poly2_ok hf /\ q_vand hf = (px, pz, mc)).
    { unfold hf. destruct (t_poly f) as [h|] eqn:Eh.
      - destruct If as (A & _). split; [apply recalc2_ok, A, Eh|apply recalc2_vand, A, Eh].
      - split; [apply poly2_new_ok|reflexivity]. }
    destruct Hhs as [Hhs Vs]. destruct Hhf as [Hhf Vf].
    assert (HS1 : Sim2 (upd2_poly s hs) (upd2_poly f hf)).
    { unfold Sim2; cbn. sim5; try assumption; apply inv2_upd_poly; assumption. }
    destruct cv.
    + destruct cp; cbn [negb upd2_poly t_poly].
      * destruct w as [wv|]; cbn [is_none negb].
        -- split; [reflexivity|]. split; [rewrite Vs, Vf; reflexivity|exact HS1].
        -- destruct (get_pinv2_ok hs Hhs) as (Ks & Kvs & Kps). destruct (get_pinv2_ok hf Hhf) as (Kf & Kvf & Kpf).
           rewrite Kps, Kpf, Kvs, Kvf, Vs, Vf. split; [reflexivity|]. split; [reflexivity|].
           unfold Sim2; cbn. sim5; try assumption.
           ++ apply (inv2_upd_poly (upd2_poly s hs)); [apply inv2_upd_poly; assumption|exact Ks].
           ++ apply (inv2_upd_poly (upd2_poly f hf)); [apply inv2_upd_poly; assumption|exact Kf].
      * split; [reflexivity|]. split; [rewrite Vs, Vf; reflexivity|exact HS1].
    + destruct cp; cbn [negb]; [fin2 HS|]. destruct (t_poly s), (t_poly f); fin2 HS.
  - destruct (wok2 s w); cbn [negb]; [|fin2 HS].
    destruct ((dox <? 1) || (doz <? 1)); [fin2 HS|].
    destruct mk; cbn [negb]; [|fin2 HS].
    assert (Hsame : forall t, Inv2 t -> same_basis2 (t_spline t) k = true ->
                    key4_valid k = true /\ exists b, t_spline t = Some b /\ b_key b = k /\ spl2_ok b).
    { intros t (_ & B & _) E. unfold same_basis2 in E. destruct (t_spline t) as [b0|] eqn:E0; [|discriminate].
      apply key4_eqb_eq in E. pose proof (B b0 eq_refl) as Hb. split; [rewrite E; apply Hb|].
      exists b0. repeat split; try congruence; apply Hb. }
    destruct (key4_valid k) eqn:Ev; cbn [negb]; rewrite ?andb_false_r, ?andb_true_r.
    + assert (Ts : exists b, t_spline (if same_basis2 (t_spline s) k then s else upd2_spline s (spl2_new k)) = Some b
                             /\ b_key b = k /\ spl2_ok b).
      { destruct (same_basis2 (t_spline s) k) eqn:E; [apply (Hsame s Is E)|].
        exists (spl2_new k). split; [reflexivity|]. split; [destruct k as [[[? ?] ?] ?]; reflexivity|apply spl2_new_ok, Ev]. }
      assert (Tf : exists b, t_spline (if same_basis2 (t_spline f) k then f else upd2_spline f (spl2_new k)) = Some b
                             /\ b_key b = k /\ spl2_ok b).
      { destruct (same_basis2 (t_spline f) k) eqn:E; [apply (Hsame f If E)|].
        exists (spl2_new k). split; [reflexivity|]. split; [destruct k as [[[? ?] ?] ?]; reflexivity|apply spl2_new_ok, Ev]. }
      assert (HS1 : Sim2 (if same_basis2 (t_spline s) k then s else upd2_spline s (spl2_new k))
                         (if same_basis2 (t_spline f) k then f else upd2_spline f (spl2_new k))).
      { destruct (same_basis2 (t_spline s) k), (same_basis2 (t_spline f) k); unfold Sim2; cbn;
          sim5; try assumption; try (apply inv2_upd_spline; [assumption|apply spl2_new_ok, Ev]). }
      destruct Ts as (bs & Ts & Ks & Os). destruct Tf as (bf & Tf & Kf & Of).
      rewrite Ts, Tf. destruct k as [[[k1 k2] d1] d2].
      destruct (spl2_axes bs _ _ _ _ Os Ks) as [Rs Cs]. destruct (spl2_axes bf _ _ _ _ Of Kf) as [Rf Cf].
      rewrite Rs, Cs, Rf, Cf.
      destruct ((nbases (k1, d1) <=? dox) || (nbases (k2, d2) <=? doz)); [split; [reflexivity|split; [reflexivity|exact HS1]]|].
      destruct full; [|split; [reflexivity|split; [reflexivity|exact HS1]]].
      destruct (get_full_ok bs Os) as (Gs & Fs & Ks'). destruct (get_full_ok bf Of) as (Gf & Ff & Kf').
      rewrite Fs, Ff, Rs, Cs, Rf, Cf. split; [reflexivity|]. split; [reflexivity|].
      destruct HS1 as (X1 & X2 & X3 & X4 & X5). unfold Sim2; cbn. sim5; try assumption; apply inv2_upd_spline; assumption.
    + assert (Es : same_basis2 (t_spline s) k = false).
      { destruct (same_basis2 (t_spline s) k) eqn:E; [|reflexivity]. destruct (Hsame s Is E). congruence. }
      assert (Ef : same_basis2 (t_spline f) k = false).
      { destruct (same_basis2 (t_spline f) k) eqn:E; [|reflexivity]. destruct (Hsame f If E). congruence. }
      rewrite Es, Ef. cbn [negb]. fin2 HS.
  - fin2 HS.
Qed.

Lemma do_setups2_sim us : forall s f acc, Sim2 s f ->
  let '(s1, r1, e1) := do_setups2 s us acc in
  let '(f1, r2, e2) := do_setups2 f us acc in
  e1 = e2 /\ r1 = r2 /\ Sim2 s1 f1.
Proof.
  induction us as [|u us IH]; intros s f acc HS; cbn [do_setups2].
  - split; [reflexivity|split; [reflexivity|exact HS]].
  - pose proof (do_setup2_sim s f u HS) as Hu.
    destruct (do_setup2 s u) as [[s1 r1] e1]. destruct (do_setup2 f u) as [[f1 r2] e2].
    destruct Hu as (-> & -> & HS1). destruct e2; [split; [reflexivity|split; [reflexivity|exact HS1]]|].
    apply IH. exact HS1.
Qed.

Lemma body2_sim s f c : Sim2 s f ->
  snd (body2 s c) = snd (body2 f c) /\ Sim2 (fst (body2 s c)) (fst (body2 f c)).
Proof.
  intros HS. unfold body2. pose proof (do_setups2_sim (d_setups c) s f [] HS) as H.
  destruct (do_setups2 s (d_setups c) []) as [[s2 r1] e1]. destruct (do_setups2 f (d_setups c) []) as [[f2 r2] e2].
  destruct H as (-> & -> & HS2). destruct HS as (Ax & Az & _). cbn. rewrite Ax, Az. split; [reflexivity|exact HS2].
Qed.

Lemma step2_sim s f o : Sim2 s f ->
  snd (step2 s o) = snd (step2 f o) /\ Sim2 (fst (step2 s o)) (fst (step2 f o)).
Proof.
  intros HS. pose proof HS as (Ax & Az & As & Is & If). destruct o as [c|v]; cbn [step2].
  - destruct (d_data c) as [[r cc]|]; [|unfold fail2; cbn; rewrite Ax, Az; split; [reflexivity|exact HS]].
    rewrite <- Ax, <- Az.
    destruct (d_dataok c && _ && _).
    + apply body2_sim. unfold Sim2, upd2_axes; cbn. rewrite Ax, Az. sim5; try reflexivity; assumption.
    + unfold fail2; cbn. rewrite Ax, Az. split; [reflexivity|exact HS].
  - destruct (solver_valid v) eqn:Ev; unfold fail2; cbn; rewrite Ax, Az; (split; [reflexivity|]); [|exact HS].
    unfold solver_valid in Ev. destruct Is as (I1 & I2 & I3). destruct If as (J1 & J2 & J3).
    unfold Sim2, upd2_solver, Inv2; cbn.
    sim5; try assumption; try reflexivity; (split; [assumption|split; [assumption|lia]]).
Qed.

Lemma sim2_refl s : Inv2 s -> Sim2 s s.
Proof. intros H. unfold Sim2. sim5; try reflexivity; assumption. Qed.

(* C03_inv_2d *)
Theorem run2_inv ops : forall s, Inv2 s -> Inv2 (run2 ops s).
Proof.
  induction ops as [|o ops IH]; intros s HI; [exact HI|].
  unfold run2; cbn [fold_left]. apply IH.
  destruct (step2_sim s s o (sim2_refl s HI)) as (_ & (_ & _ & _ & H & _)). exact H.
Qed.

Theorem inv2_run (x0 z0 : option Z) (ops : list op2) : Inv2 (run2 ops (init2 x0 z0)).
Proof. apply run2_inv, init2_inv. Qed.

Lemma sim2_fresh s : Inv2 s -> Sim2 s (fresh2 s).
Proof.
  intros HI. unfold Sim2, fresh2, init2, upd2_solver; cbn. sim5; try reflexivity; try assumption.
  unfold Inv2; cbn. split; [intros h; discriminate|]. split; [intros k; discriminate|apply HI].
Qed.

(* C03_history_2d: after any history, a probe call has the same outcome (axes, error, and the keys of
   every cached array it reads) as on an object built afresh for the current axes and solver setting *)
Theorem history2 (x0 z0 : option Z) (ops : list op2) (probe : op2) :
  snd (step2 (run2 ops (init2 x0 z0)) probe) = snd (step2 (fresh2 (run2 ops (init2 x0 z0))) probe).
Proof. apply step2_sim, sim2_fresh, run2_inv, init2_inv. Qed.
