(* C03 -- a rejected call is a call like any other: whatever stage it raises at, it leaves the object in a state
   from which every later call equals the call on a fresh object. *)
From Coq Require Import ZArith List Bool Lia.
From PB Require Import C03.Model C03.Model2D C03.Proofs C03.Proofs2D.
Import ListNotations.
Open Scope Z_scope.

Theorem raise_then_fresh
  (O : XOps) (V P B : Type) (vander : X O -> bool -> Z -> V) (slice : V -> Z -> V)
  (pinv : V -> P) (basis : X O -> Z -> Z -> B) :
  (forall (x : X O) (dm : bool) (p q : Z), 0 <= q <= p -> slice (vander x dm p) q = vander x dm q) ->
  (forall n : Z, 0 <= n -> xsize O (linspace O n) = n) ->
  (forall n : Z, xunique O (linspace O n) = true) ->
  (forall n p : Z, 2 <= n -> vander (linspace O n) true p = vander (linspace O n) false p) ->
  forall (x0 : option (X O)) (ops : list op) (o probe : op),
    Forall wf_op ops -> wf_op o ->
    o_err (snd (step O (run O ops (init O x0)) o)) <> None ->
    let s' := fst (step O (run O ops (init O x0)) o) in
    Inv O V vander slice s' /\
    obs O V P B vander slice pinv basis s' probe = obs O V P B vander slice pinv basis (fresh O s') probe.
Proof.
  intros H1 H2 H3 H4 x0 ops o probe Hw Ho _ s'.
  assert (HI : Inv O V vander slice s').
  { apply (step_inv O V vander slice H1 H2 H3); [apply (inv_run O V vander slice H1 H2 H3); exact Hw|exact Ho]. }
  split; [exact HI|]. apply probe_eq; assumption.
Qed.

Theorem raise_then_fresh_2d (x0 z0 : option Z) (ops : list op2) (o probe : op2) :
  o2_err (snd (step2 (run2 ops (init2 x0 z0)) o)) <> None ->
  let s' := fst (step2 (run2 ops (init2 x0 z0)) o) in
  Inv2 s' /\ snd (step2 s' probe) = snd (step2 (fresh2 s') probe).
Proof.
  intros _ s'.
  assert (HI : Inv2 s').
  { pose proof (inv2_run x0 z0 (ops ++ [o])) as H. unfold run2 in H. rewrite fold_left_app in H. exact H. }
  split; [exact HI|]. apply step2_sim, sim2_fresh, HI.
Qed.
