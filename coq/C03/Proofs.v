(* C03 -- proofs about the cache state machine of Model.v (1-D fitter objects). *)
From Coq Require Import ZArith List Bool Lia ZifyBool.
From PB Require Import C03.Model.
Import ListNotations.
Open Scope Z_scope.

(* ------------------------------------------------------------------------------------------
   The concrete fact behind the slicing branch of recalc_vandermonde: polyvander builds a row as
   1, x, x*x, ... by repeated multiplication, so the first q+1 entries of the order-p row ARE the
   order-q row.  Proved for an arbitrary carrier and an arbitrary binary operation (no algebraic
   law is used), hence it holds verbatim for IEEE doubles. *)
Section Pows.
Variable T : Type.
Variable mul : T -> T -> T.
Variable one : T.

Fixpoint pows_from (x cur : T) (n : nat) : list T :=
  match n with O => [] | S n' => cur :: pows_from x (mul cur x) n' end.

(* one row of polyvander(x, p) *)
Definition pows (x : T) (p : nat) : list T := pows_from x one (S p).

Lemma firstn_pows_from x : forall (n m : nat) (cur : T), (m <= n)%nat ->
  firstn m (pows_from x cur n) = pows_from x cur m.
Proof.
  induction n as [|n IH]; intros m cur Hm.
  - assert (m = 0%nat) as -> by lia. reflexivity.
  - destruct m as [|m]; [reflexivity|]. cbn [pows_from firstn]. f_equal. apply IH. lia.
Qed.

Lemma pows_length x p : length (pows x p) = S p.
Proof. unfold pows. generalize one. generalize (S p). induction n; intros; cbn [pows_from length]; [reflexivity|f_equal; apply IHn]. Qed.

(* the matrices: one row per x-value *)
Definition vander_rows (xs : list T) (p : nat) : list (list T) := map (fun x => pows x p) xs.
Definition slice_rows (v : list (list T)) (q : nat) : list (list T) := map (firstn (S q)) v.

Theorem vander_prefix (xs : list T) (p q : nat) : (q <= p)%nat ->
  slice_rows (vander_rows xs p) q = vander_rows xs q.
Proof.
  intros H. unfold slice_rows, vander_rows. rewrite map_map. apply map_ext. intros x.
  unfold pows. apply firstn_pows_from. lia.
Qed.
End Pows.

(* ------------------------------------------------------------------------------------------
   Denotation of the symbolic state over abstract library functions (contracts = Section
   hypotheses, listed in the trusted base; sampled against NumPy by the harness). *)
Section Den.
Variable O : XOps.
Variables V P B : Type.
Variable vander : X O -> bool -> Z -> V.   (* polyvander(mapdomain(x, x_domain, [-1,1]), p); the bool says
                                              x_domain is the constructor default instead of getdomain(x) *)
Variable slice : V -> Z -> V.              (* v[:, :q+1] *)
Variable pinv : V -> P.                    (* np.linalg.pinv *)
Variable basis : X O -> Z -> Z -> B.       (* SplineBasis(x, num_knots, spline_degree) *)

Hypothesis slice_vander : forall x dm p q, 0 <= q <= p -> slice (vander x dm p) q = vander x dm q.
Hypothesis linspace_size : forall n, 0 <= n -> xsize O (linspace O n) = n.
Hypothesis linspace_unique : forall n, xunique O (linspace O n) = true.
(* getdomain(linspace(-1, 1, n)) = [-1, 1] needs at least two points *)
Hypothesis linspace_domain : forall n p, 2 <= n -> vander (linspace O n) true p = vander (linspace O n) false p.

Fixpoint vden (x : X O) (dm : bool) (e : vexpr) : V :=
  match e with VFull p => vander x dm p | VSlice e q => slice (vden x dm e) q end.

Inductive dread := DVander (v : V) | DPinv (p : P) | DBasis (b : B) | DSolver (b pt : Z).

Definition dr (x : X O) (dm : bool) (r : read) : dread :=
  match r with
  | RVander e => DVander (vden x dm e)
  | RPinv e => DPinv (pinv (vden x dm e))
  | RBasis k d => DBasis (basis x k d)
  | RSolver b pt => DSolver b pt
  end.

(* everything a call's result depends on besides its own arguments *)
Definition den_out (dm : bool) (o : outcome O) : option (X O) * list dread * option err :=
  match o_x o with
  | Some x => (Some x, map (dr x dm) (o_reads o), o_err o)
  | None => (None, [], o_err o)
  end.

Definition obs (s : st O) (o : op) : option (X O) * list dread * option err :=
  let '(s', out) := step O s o in den_out (s_lazy s') out.

(* ---- invariant ---- *)
Definition poly_ok (x : X O) (dm : bool) (h : poly) : Prop :=
  0 <= p_order h /\
  vden x dm (p_vand h) = vander x dm (p_order h) /\
  (p_stale h = false -> forall e, p_pinv h = Some e -> vden x dm e = vden x dm (p_vand h)).

Definition spline_ok (s : st O) : Prop :=
  forall k d, s_spline s = Some (k, d) -> 0 <= d /\ 2 <= k.

Definition Inv (s : st O) : Prop :=
  s_penta s = penta_of (s_solver s) /\ 1 <= s_solver s <= 4 /\ spline_ok s /\
  match s_x s with
  | None => s_lazy s = true /\ s_size s = None /\ s_validated s = true /\
            s_poly s = None /\ s_spline s = None
  | Some x => s_size s = Some (xsize O x) /\
              (s_validated s = true -> xunique O x = true) /\
              (s_lazy s = true -> exists n, x = linspace O n /\ 2 <= n) /\
              (forall h, s_poly s = Some h -> poly_ok x (s_lazy s) h)
  end.

(* operations whose lazily created x would have fewer than two points are excluded
   (x_domain would differ from getdomain(x); see linspace_domain) *)
Definition wf_op (o : op) : Prop :=
  match o with
  | Call c => match c_data c with Some n => 2 <= n | None => True end
  | SetSolver _ => True
  end.

Lemma init_inv x : Inv (init O x).
Proof.
  unfold Inv, init; cbn. split; [reflexivity|]. split; [lia|]. split; [intros k d; discriminate|].
  destruct x as [x|]; cbn.
  - repeat split; try discriminate.
  - repeat split.
Qed.

Lemma poly_new_ok x dm p : 0 <= p -> poly_ok x dm (poly_new p).
Proof. intros Hp. unfold poly_ok, poly_new; cbn. repeat split; [exact Hp|discriminate]. Qed.

Lemma recalc_order h p : p_order (recalc h p) = p.
Proof. unfold recalc. destruct (p_order h <? p); [reflexivity|]. destruct (p <? p_order h); reflexivity. Qed.

Lemma recalc_ok x dm h p : poly_ok x dm h -> 0 <= p -> poly_ok x dm (recalc h p).
Proof.
  intros (H0 & Hv & Hp) Hp0. unfold recalc.
  destruct (p_order h <? p) eqn:E1.
  - unfold poly_ok; cbn. repeat split; [exact Hp0|discriminate].
  - destruct (p <? p_order h) eqn:E2.
    + unfold poly_ok; cbn [p_vand p_order p_stale p_pinv vden]. split; [exact Hp0|]. split; [|discriminate].
      rewrite Hv. apply slice_vander. lia.
    + assert (p = p_order h) as -> by lia.
      unfold poly_ok; cbn [p_vand p_order p_stale p_pinv]. repeat split; assumption.
Qed.

Lemma get_pinv_ok x dm h : poly_ok x dm h ->
  poly_ok x dm (get_pinv h) /\ p_vand (get_pinv h) = p_vand h /\ p_order (get_pinv h) = p_order h /\
  exists e, p_pinv (get_pinv h) = Some e /\ vden x dm e = vander x dm (p_order h).
Proof.
  intros (H0 & Hv & Hp). unfold get_pinv.
  destruct (p_stale h || is_none (p_pinv h)) eqn:E.
  - cbn [p_vand p_order p_stale p_pinv]. split; [|split; [reflexivity|split; [reflexivity|]]].
    + unfold poly_ok; cbn [p_vand p_order p_stale p_pinv]. repeat split; try assumption.
      intros _ e [= <-]. reflexivity.
    + exists (p_vand h). split; [reflexivity|exact Hv].
  - apply orb_false_iff in E as [Es En].
    split; [repeat split; assumption|]. split; [reflexivity|]. split; [reflexivity|].
    destruct (p_pinv h) as [e|] eqn:Ee; [|discriminate].
    exists e. split; [reflexivity|]. rewrite (Hp Es e eq_refl). exact Hv.
Qed.

(* ---- preservation ---- *)
Ltac hd Hp Hs Hk := split; [exact Hp|split; [exact Hs|split; [exact Hk|]]].
Lemma inv_upd_poly s x h :
  Inv s -> s_x s = Some x -> poly_ok x (s_lazy s) h -> Inv (upd_poly O s h).
Proof.
  intros (Hp & Hs & Hk & Hx) Ex Hh. rewrite Ex in Hx. destruct Hx as (Hsz & Hval & Hlz & Hpo).
  unfold Inv, upd_poly; cbn. hd Hp Hs Hk. rewrite Ex.
  split; [exact Hsz|split; [exact Hval|split; [exact Hlz|]]].
  intros h' [= <-]. exact Hh.
Qed.

Lemma inv_upd_spline s k d : Inv s -> s_x s <> None -> 0 <= d -> 2 <= k -> Inv (upd_spline O s k d).
Proof.
  intros (Hp & Hs & Hk & Hx) Ex Hd Hk2. unfold Inv, upd_spline; cbn.
  split; [exact Hp|]. split; [exact Hs|]. split; [intros k' d' [= <- <-]; split; assumption|].
  destruct (s_x s) as [x|]; [|congruence]. exact Hx.
Qed.

Lemma do_setup_inv s u x : Inv s -> s_x s = Some x ->
  Inv (fst (fst (do_setup O s u))) /\ s_x (fst (fst (do_setup O s u))) = Some x.
Proof.
  intros HI Ex. pose proof HI as (Hp & Hs & Hk & Hx). rewrite Ex in Hx. destruct Hx as (Hsz & Hval & Hlz & Hpo).
  destruct u as [w p cv cp|w k d mk dorder|w dorder|]; cbn [do_setup].
  - destruct (wok O s w); cbn [negb]; [|split; assumption].
    destruct (p <? 0) eqn:Ep; [split; assumption|].
    set (h1 := match s_poly s with None => poly_new p | Some h => recalc h p end).
    assert (Hh1 : poly_ok x (s_lazy s) h1).
    { unfold h1. destruct (s_poly s) as [h|] eqn:Eh; [apply recalc_ok; [apply Hpo; reflexivity|lia]|apply poly_new_ok; lia]. }
    destruct cv.
    + assert (HI1 : Inv (upd_poly O s h1)) by (apply inv_upd_poly with x; assumption).
      destruct cp; cbn [negb]; [|split; [exact HI1|exact Ex]].
      cbn [upd_poly s_poly].
      destruct w as [wn|]; cbn [is_none negb]; [split; [exact HI1|exact Ex]|].
      cbn [fst]. split; [|exact Ex].
      apply inv_upd_poly with x; [exact HI1|exact Ex|]. cbn [upd_poly s_lazy].
      apply get_pinv_ok, Hh1.
    + destruct cp; cbn [negb]; split; assumption.
  - destruct (wok O s w); cbn [negb]; [|split; assumption].
    destruct mk; cbn [negb]; [|split; assumption].
    destruct (negb (same_basis (s_spline s) k d) && ((d <? 0) || (k <? 2))) eqn:Ebad; [split; assumption|].
    set (s1 := if same_basis (s_spline s) k d then s else upd_spline O s k d).
    assert (H1 : Inv s1 /\ s_x s1 = Some x).
    { unfold s1. destruct (same_basis (s_spline s) k d); [split; assumption|]. cbn [negb andb] in Ebad.
      split; [apply inv_upd_spline; [exact HI|congruence|lia|lia]|exact Ex]. }
    destruct (s_spline s1) as [[k1 d1]|]; [|exact H1].
    destruct ((dorder <? 1) || (k1 + d1 - 1 <=? dorder)); exact H1.
  - destruct (dorder <? 1); [split; assumption|]. destruct (wok O s w); cbn [negb]; split; assumption.
  - split; assumption.
Qed.

Lemma do_setups_inv us : forall s acc x, Inv s -> s_x s = Some x ->
  Inv (fst (fst (do_setups O s us acc))).
Proof.
  induction us as [|u us IH]; intros s acc x HI Ex; cbn [do_setups]; [exact HI|].
  pose proof (do_setup_inv s u x HI Ex) as [H1 H2].
  destruct (do_setup O s u) as [[s1 r] e]. cbn [fst] in H1, H2.
  destruct e; [exact H1|]. apply IH with x; assumption.
Qed.

Lemma body_inv s c x : Inv s -> s_x s = Some x -> Inv (fst (body O s c)).
Proof.
  intros HI Ex. unfold body. pose proof (do_setups_inv (c_setups c) s [] x HI Ex) as H.
  destruct (do_setups O s (c_setups c) []) as [[s2 r] e2]. exact H.
Qed.

Lemma after_validate_inv s c x : Inv s -> s_x s = Some x -> Inv (fst (after_validate O s c)).
Proof.
  intros HI Ex. unfold after_validate.
  destruct (c_data c); [|apply body_inv with x; assumption].
  destruct (c_dataok c && _); [apply body_inv with x; assumption|exact HI].
Qed.

Lemma step_inv s o : Inv s -> wf_op o -> Inv (fst (step O s o)).
Proof.
  intros HI Hwf. pose proof HI as (Hp & Hs & Hk & Hx). destruct o as [c|v]; cbn [step].
  - destruct (s_x s) as [x|] eqn:Ex.
    + destruct Hx as (Hsz & Hval & Hlz & Hpo).
      destruct (c_unique c && negb (s_validated s)) eqn:Echk; cbn [andb].
      * destruct (xunique O x) eqn:Eu; cbn [negb]; [|exact HI].
        apply after_validate_inv with x; [|exact Ex].
        unfold Inv, upd_validated; cbn. hd Hp Hs Hk. rewrite Ex.
        split; [exact Hsz|split; [intros _; exact Eu|split; [exact Hlz|exact Hpo]]].
      * apply after_validate_inv with x; assumption.
    + destruct Hx as (Hl & Hsz & Hval & Hpo & Hsp).
      destruct (c_data c) as [n|] eqn:Ed; [|exact HI].
      destruct (c_dataok c); [|exact HI].
      apply body_inv with (linspace O n); [|reflexivity].
      unfold Inv, upd_x; cbn. hd Hp Hs Hk. split; [|split; [|split]].
      * rewrite linspace_size; [reflexivity|]. cbn in Hwf. rewrite Ed in Hwf. lia.
      * intros _. apply linspace_unique.
      * intros _. exists n. split; [reflexivity|]. cbn in Hwf. rewrite Ed in Hwf. exact Hwf.
      * intros h Hh. rewrite Hpo in Hh. discriminate.
  - destruct (solver_valid v) eqn:Ev; [|exact HI]. cbn [fst].
    unfold solver_valid in Ev.
    unfold Inv, upd_solver; cbn. split; [reflexivity|]. split; [lia|]. split; [exact Hk|exact Hx].
Qed.

Theorem run_inv ops : forall s, Inv s -> Forall wf_op ops -> Inv (run O ops s).
Proof.
  induction ops as [|o ops IH]; intros s HI Hw; [exact HI|].
  inversion Hw as [|? ? Ho Hr]; subst. unfold run. cbn [fold_left]. apply IH; [|exact Hr].
  apply step_inv; assumption.
Qed.

Lemma spline_target (s : st O) k d :
  s_spline (if same_basis (s_spline s) k d then s else upd_spline O s k d) = Some (k, d).
Proof.
  destruct (same_basis (s_spline s) k d) eqn:E; [|reflexivity].
  unfold same_basis in E. destruct (s_spline s) as [[k0 d0]|]; [|discriminate].
  f_equal. f_equal; lia.
Qed.

Lemma lazy_if_spline (s : st O) k d :
  s_lazy (if same_basis (s_spline s) k d then s else upd_spline O s k d) = s_lazy s.
Proof. destruct (same_basis (s_spline s) k d); reflexivity. Qed.

Lemma solver_if_spline (s : st O) k d :
  s_solver (if same_basis (s_spline s) k d then s else upd_spline O s k d) = s_solver s /\
  s_penta (if same_basis (s_spline s) k d then s else upd_spline O s k d) = s_penta s.
Proof. destruct (same_basis (s_spline s) k d); split; reflexivity. Qed.

(* ---- the solver preference is plain configuration: never cached, never changed by a call ---- *)
Lemma do_setup_solver s u : s_solver (fst (fst (do_setup O s u))) = s_solver s /\
                            s_penta (fst (fst (do_setup O s u))) = s_penta s.
Proof.
  destruct u as [w p cv cp|w k d mk dorder|w dorder|]; cbn [do_setup].
  - destruct (wok O s w); cbn [negb]; [|split; reflexivity]. destruct (p <? 0); [split; reflexivity|].
    destruct cv, cp; cbn [negb upd_poly s_poly]; try (split; reflexivity);
      try (destruct w as [wn|]; cbn [is_none negb]; split; reflexivity); destruct (s_poly s); split; reflexivity.
  - destruct (wok O s w); cbn [negb]; [|split; reflexivity]. destruct mk; cbn [negb]; [|split; reflexivity].
    destruct (negb (same_basis (s_spline s) k d) && ((d <? 0) || (k <? 2))); [split; reflexivity|].
    rewrite spline_target. pose proof (solver_if_spline s k d) as [H1 H2].
    destruct ((dorder <? 1) || (k + d - 1 <=? dorder)); cbn [fst]; split; assumption.
  - destruct (dorder <? 1); [split; reflexivity|]. destruct (wok O s w); split; reflexivity.
  - split; reflexivity.
Qed.

Lemma do_setups_solver us : forall s acc, s_solver (fst (fst (do_setups O s us acc))) = s_solver s /\
                                          s_penta (fst (fst (do_setups O s us acc))) = s_penta s.
Proof.
  induction us as [|u us IH]; intros s acc; cbn [do_setups]; [split; reflexivity|].
  pose proof (do_setup_solver s u) as [H1 H2].
  destruct (do_setup O s u) as [[s1 r] e]. cbn [fst] in *.
  destruct e; [split; assumption|]. destruct (IH s1 (acc ++ r)) as [H3 H4]. split; congruence.
Qed.

Lemma body_solver s c : s_solver (fst (body O s c)) = s_solver s /\ s_penta (fst (body O s c)) = s_penta s.
Proof.
  unfold body. pose proof (do_setups_solver (c_setups c) s []) as H.
  destruct (do_setups O s (c_setups c) []) as [[s2 r] e2]. exact H.
Qed.

Lemma after_validate_solver s c :
  s_solver (fst (after_validate O s c)) = s_solver s /\ s_penta (fst (after_validate O s c)) = s_penta s.
Proof.
  unfold after_validate. destruct (c_data c); [|apply body_solver].
  destruct (c_dataok c && _); [apply body_solver|split; reflexivity].
Qed.

Theorem call_keeps_solver s c :
  s_solver (fst (step O s (Call c))) = s_solver s /\ s_penta (fst (step O s (Call c))) = s_penta s.
Proof.
  cbn [step]. destruct (s_x s) as [x|].
  - destruct (c_unique c && negb (s_validated s)); cbn [andb].
    + destruct (xunique O x); cbn [negb]; [|split; reflexivity].
      destruct (after_validate_solver (upd_validated O s) c) as [H1 H2]. split; [exact H1|exact H2].
    + apply after_validate_solver.
  - destruct (c_data c); [|split; reflexivity]. destruct (c_dataok c); [|split; reflexivity].
    destruct (body_solver (upd_x O s (linspace O z) z) c) as [H1 H2]. split; [exact H1|exact H2].
Qed.

(* ---- refinement: what a probe reads on the reused object = what it reads on a fresh one ---- *)
Definition Sim (x : X O) (s f : st O) : Prop :=
  s_x s = Some x /\ s_x f = Some x /\ s_size s = s_size f /\
  s_solver s = s_solver f /\ s_penta s = s_penta f /\
  (forall h, s_poly s = Some h -> poly_ok x (s_lazy s) h) /\
  (forall h, s_poly f = Some h -> poly_ok x (s_lazy f) h) /\
  (forall p, vander x (s_lazy s) p = vander x (s_lazy f) p) /\
  spline_ok s /\ spline_ok f.

Ltac sim10 := split; [|split; [|split; [|split; [|split; [|split; [|split; [|split; [|split]]]]]]]].

Lemma sim_upd_poly x s f hs hf :
  Sim x s f -> poly_ok x (s_lazy s) hs -> poly_ok x (s_lazy f) hf -> Sim x (upd_poly O s hs) (upd_poly O f hf).
Proof.
  intros (A & B0 & C & D & E & F & G & H & Ks & Kf) Hs Hf. unfold Sim, upd_poly; cbn.
  sim10; try assumption; intros h [= <-]; assumption.
Qed.


Lemma sim_spline x s f k d : 0 <= d -> 2 <= k ->
  Sim x s f ->
  Sim x (if same_basis (s_spline s) k d then s else upd_spline O s k d)
        (if same_basis (s_spline f) k d then f else upd_spline O f k d).
Proof.
  intros Hd Hk2 HS. destruct (same_basis (s_spline s) k d), (same_basis (s_spline f) k d);
    try exact HS; destruct HS as (A & B0 & C & D & E & F & G & H & Ks & Kf); unfold Sim, upd_spline; cbn;
    sim10; try assumption; intros k' d' [= <- <-]; split; assumption.
Qed.



Ltac fin HS := split; [reflexivity|split; [reflexivity|split; [exact HS|split; reflexivity]]].

Lemma do_setup_sim x s f u : Sim x s f ->
  let '(s1, r1, e1) := do_setup O s u in
  let '(f1, r2, e2) := do_setup O f u in
  e1 = e2 /\ map (dr x (s_lazy s)) r1 = map (dr x (s_lazy f)) r2 /\ Sim x s1 f1 /\
  s_lazy s1 = s_lazy s /\ s_lazy f1 = s_lazy f.
Proof.
  intros HS. pose proof HS as (A & B0 & C & D & E & F & G & H & Ks & Kf).
  assert (Hw : forall w, wok O f w = wok O s w) by (intros w; unfold wok; rewrite C; reflexivity).
  destruct u as [w p cv cp|w k d mk dorder|w dorder|]; cbn [do_setup]; rewrite ?Hw.
  - destruct (wok O s w); cbn [negb]; [|fin HS].
    destruct (p <? 0) eqn:Ep; [fin HS|].
    set (hs := match s_poly s with None => poly_new p | Some h => recalc h p end).
    set (hf := match s_poly f with None => poly_new p | Some h => recalc h p end).
    assert (Hhs : poly_ok x (s_lazy s) hs).
    { unfold hs. destruct (s_poly s) as [h|] eqn:Eh; [apply recalc_ok; [apply F; reflexivity|lia]|apply poly_new_ok; lia]. }
    assert (Hhf : poly_ok x (s_lazy f) hf).
    { unfold hf. destruct (s_poly f) as [h|] eqn:Eh; [apply recalc_ok; [apply G; reflexivity|lia]|apply poly_new_ok; lia]. }
    assert (Ohs : p_order hs = p).
    { unfold hs. destruct (s_poly s); [apply recalc_order|reflexivity]. }
    assert (Ohf : p_order hf = p).
    { unfold hf. destruct (s_poly f); [apply recalc_order|reflexivity]. }
    assert (Hvv : vden x (s_lazy s) (p_vand hs) = vden x (s_lazy f) (p_vand hf)).
    { destruct Hhs as (_ & -> & _). destruct Hhf as (_ & -> & _). rewrite Ohs, Ohf. apply H. }
    destruct cv.
    + pose proof (sim_upd_poly x s f hs hf HS Hhs Hhf) as HS1.
      destruct cp; cbn [negb upd_poly s_poly].
      * destruct w as [wn|]; cbn [is_none negb].
        -- split; [reflexivity|]. split; [cbn [map dr]; rewrite Hvv; reflexivity|]. split; [exact HS1|]. split; reflexivity.
        -- destruct (get_pinv_ok x (s_lazy s) hs Hhs) as (Is & Kvs & Kos & es & Kes & Kds).
           destruct (get_pinv_ok x (s_lazy f) hf Hhf) as (If & Kvf & Kof & ef & Kef & Kdf).
           rewrite Kes, Kef. split; [reflexivity|]. split.
           { cbn [map dr]. rewrite Kvs, Kvf, Hvv, Kds, Kdf, Ohs, Ohf, H. reflexivity. }
           split; [|split; reflexivity].
           unfold Sim; cbn. sim10; try assumption; intros h [= <-]; assumption.
      * split; [reflexivity|]. split; [cbn [map dr]; rewrite Hvv; reflexivity|]. split; [exact HS1|]. split; reflexivity.
    + destruct cp; cbn [negb]; [fin HS|].
      destruct (s_poly s), (s_poly f); fin HS.
  - destruct (wok O s w); cbn [negb]; [|fin HS].
    destruct mk; cbn [negb]; [|fin HS].
    destruct ((d <? 0) || (k <? 2)) eqn:Ebad.
    + (* an invalid key is never the key of a stored basis (spline_ok): both objects raise *)
      assert (Es : same_basis (s_spline s) k d = false).
      { unfold same_basis. destruct (s_spline s) as [[k0 d0]|] eqn:E0; [|reflexivity].
        destruct (Ks k0 d0 E0). lia. }
      assert (Ef : same_basis (s_spline f) k d = false).
      { unfold same_basis. destruct (s_spline f) as [[k0 d0]|] eqn:E0; [|reflexivity].
        destruct (Kf k0 d0 E0). lia. }
      rewrite Es, Ef. cbn [negb andb]. fin HS.
    + rewrite !andb_false_r.
      pose proof (spline_target s k d) as Ts. pose proof (spline_target f k d) as Tf.
      assert (HS1 := sim_spline x s f k d ltac:(lia) ltac:(lia) HS).
      pose proof (lazy_if_spline s k d) as Ls. pose proof (lazy_if_spline f k d) as Lf.
      pose proof (solver_if_spline s k d) as [Ss Ps]. pose proof (solver_if_spline f k d) as [Sf Pf].
      rewrite Ts, Tf, Ss, Ps, Sf, Pf, D, E.
      destruct ((dorder <? 1) || (k + d - 1 <=? dorder));
        (split; [reflexivity|]; split; [reflexivity|]; split; [exact HS1|]; split; assumption).
  - destruct (dorder <? 1); [fin HS|].
    destruct (wok O s w); cbn [negb]; [|fin HS].
    rewrite D, E. fin HS.
  - fin HS.
Qed.

Lemma do_setups_sim x us : forall s f acc1 acc2, Sim x s f ->
  map (dr x (s_lazy s)) acc1 = map (dr x (s_lazy f)) acc2 ->
  let '(s1, r1, e1) := do_setups O s us acc1 in
  let '(f1, r2, e2) := do_setups O f us acc2 in
  e1 = e2 /\ map (dr x (s_lazy s)) r1 = map (dr x (s_lazy f)) r2 /\
  s_lazy s1 = s_lazy s /\ s_lazy f1 = s_lazy f.
Proof.
  induction us as [|u us IH]; intros s f acc1 acc2 HS Hacc; cbn [do_setups].
  - repeat split; assumption.
  - pose proof (do_setup_sim x s f u HS) as Hu.
    destruct (do_setup O s u) as [[s1 r1] e1]. destruct (do_setup O f u) as [[f1 r2] e2].
    destruct Hu as (He & Hr & HS1 & L1 & L2). subst e2.
    assert (Hacc' : map (dr x (s_lazy s)) (acc1 ++ r1) = map (dr x (s_lazy f)) (acc2 ++ r2))
      by (rewrite !map_app, Hacc, Hr; reflexivity).
    destruct e1.
    + repeat split; assumption.
    + specialize (IH s1 f1 (acc1 ++ r1) (acc2 ++ r2) HS1). rewrite L1, L2 in IH. specialize (IH Hacc').
      destruct (do_setups O s1 us (acc1 ++ r1)) as [[s2 r3] e3].
      destruct (do_setups O f1 us (acc2 ++ r2)) as [[f2 r4] e4].
      destruct IH as (I1 & I2 & I3 & I4). repeat split; congruence.
Qed.

Definition dobs (so : st O * outcome O) : option (X O) * list dread * option err :=
  den_out (s_lazy (fst so)) (snd so).

Lemma body_sim x s f c : Sim x s f -> dobs (body O s c) = dobs (body O f c).
Proof.
  intros HS. unfold body. pose proof (do_setups_sim x (c_setups c) s f [] [] HS eq_refl) as H.
  destruct (do_setups O s (c_setups c) []) as [[s2 r1] e1].
  destruct (do_setups O f (c_setups c) []) as [[f2 r2] e2].
  destruct H as (He & Hr & L1 & L2). destruct HS as (A & B0 & _).
  unfold dobs, den_out; cbn. rewrite A, B0, L1, L2, Hr, He. reflexivity.
Qed.

Lemma after_validate_sim x s f c : Sim x s f -> dobs (after_validate O s c) = dobs (after_validate O f c).
Proof.
  intros HS. pose proof HS as (A & B0 & C & _). unfold after_validate. rewrite <- C.
  destruct (c_data c); [|apply body_sim with x; exact HS].
  destruct (c_dataok c && _); [apply body_sim with x; exact HS|].
  unfold dobs, fail, den_out; cbn. rewrite A, B0. reflexivity.
Qed.

Lemma sim_fresh x s : Inv s -> s_x s = Some x -> Sim x s (fresh O s).
Proof.
  intros (Hp & Hs & Hk & Hx) Ex. rewrite Ex in Hx. destruct Hx as (Hsz & Hval & Hlz & Hpo).
  unfold Sim, fresh, init, upd_solver; cbn. rewrite Ex. cbn. sim10; try assumption; try reflexivity.
  - intros h; discriminate.
  - intros p. destruct (s_lazy s) eqn:El; [|reflexivity].
    destruct (Hlz eq_refl) as (n & -> & Hn). apply linspace_domain. exact Hn.
  - intros k d; discriminate.
Qed.

Lemma sim_validated x s f (b1 b2 : bool) : Sim x s f ->
  Sim x (if b1 then upd_validated O s else s) (if b2 then upd_validated O f else f).
Proof. intros HS. destruct b1, b2; exact HS. Qed.

(* the refinement step: a probe on a state satisfying the invariant reads what it reads on the
   object built afresh for the current x-values (and the current solver preference) *)
Lemma probe_eq s o : Inv s -> obs s o = obs (fresh O s) o.
Proof.
  intros HI. pose proof HI as (Hp & Hs & Hk & Hx).
  assert (Hobs : forall t, obs t o = dobs (step O t o)).
  { intros t. unfold obs, dobs. destruct (step O t o). reflexivity. }
  rewrite !Hobs.
  destruct (s_x s) as [x|] eqn:Ex.
  2:{ (* nothing was ever created: the reused object IS the fresh object *)
    destruct Hx as (Hl & Hsz & Hval & Hpo & Hsp).
    assert (s = fresh O s) as <-; [|reflexivity].
    unfold fresh, init, upd_solver. rewrite Ex. destruct s; cbn in *. subst. reflexivity. }
  destruct Hx as (Hsz & Hval & Hlz & Hpo).
  pose proof (sim_fresh x s HI Ex) as HS.
  assert (Hf : s_x (fresh O s) = Some x /\ s_validated (fresh O s) = false).
  { unfold fresh, init, upd_solver; cbn. rewrite Ex. split; reflexivity. }
  destruct Hf as (Fx & Fv).
  destruct o as [c|v]; cbn [step].
  - rewrite Ex, Fx, Fv. cbn [negb]. rewrite andb_true_r.
    destruct (c_unique c) eqn:Eu; cbn [andb].
    + destruct (s_validated s) eqn:Ev; cbn [negb andb].
      * rewrite (Hval eq_refl). cbn [negb].
        apply after_validate_sim with x. apply (sim_validated x s (fresh O s) false true HS).
      * destruct (xunique O x); cbn [negb].
        -- apply after_validate_sim with x. apply (sim_validated x s (fresh O s) true true HS).
        -- unfold dobs, fail, den_out; cbn. reflexivity.
    + apply after_validate_sim with x. exact HS.
  - destruct (solver_valid v); unfold dobs, fail, den_out; cbn; try rewrite Ex; reflexivity.
Qed.

(* C03_history *)
Theorem history (x0 : option (X O)) (ops : list op) (probe : op) :
  Forall wf_op ops ->
  obs (run O ops (init O x0)) probe = obs (fresh O (run O ops (init O x0))) probe.
Proof. intros Hw. apply probe_eq. apply run_inv; [apply init_inv|exact Hw]. Qed.

(* C03_inv: the invariant holds after every history (each operation, raising or not, preserves it) *)
Theorem inv_run (x0 : option (X O)) (ops : list op) : Forall wf_op ops -> Inv (run O ops (init O x0)).
Proof. intros Hw. apply run_inv; [apply init_inv|exact Hw]. Qed.

(* C03_solver_setting: the solver pair a call reads is the one written by the last accepted
   setter call; a method call never changes it. *)
Fixpoint last_solver (ops : list op) (cur : Z) : Z :=
  match ops with
  | [] => cur
  | Call _ :: ops' => last_solver ops' cur
  | SetSolver v :: ops' => last_solver ops' (if solver_valid v then v else cur)
  end.

Theorem solver_setting ops : forall s,
  s_solver (run O ops s) = last_solver ops (s_solver s) /\
  (s_penta s = penta_of (s_solver s) -> s_penta (run O ops s) = penta_of (last_solver ops (s_solver s))).
Proof.
  induction ops as [|o ops IH]; intros s; [split; [reflexivity|auto]|].
  unfold run. cbn [fold_left]. fold (run O ops (fst (step O s o))).
  destruct (IH (fst (step O s o))) as [I1 I2].
  destruct o as [c|v]; cbn [last_solver].
  - destruct (call_keeps_solver s c) as [H1 H2]. rewrite H1 in I1, I2. rewrite H2 in I2. split; assumption.
  - cbn [step] in *. destruct (solver_valid v); cbn [fst upd_solver fail s_solver s_penta] in *.
    + split; [exact I1|intros _; apply I2; reflexivity].
    + split; assumption.
Qed.

End Den.
