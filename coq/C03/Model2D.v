(* C03 -- executable state machine of the caches of a Baseline2D object (models only).
   Source: two_d/_algorithm_setup.py  __init__ (86-149), _shape setter (156-183), banded_solver setter,
   _register.inner (373-415), _setup_polynomial (597-630), _setup_spline (693-722),
   _PolyHelper2D (1036-1116); two_d/_spline_utils.py SplineBasis2D.__init__/same_basis, PSpline2D.__init__. *)
From Coq Require Import ZArith List Bool.
From PB Require Import C03.Model.
Import ListNotations.
Open Scope Z_scope.

(* key of a 2-D Vandermonde: (x order, z order, max_cross) *)
Definition key2 := (Z * Z * option Z)%type.

Definition oz_eqb (a b : option Z) : bool :=
  match a, b with Some u, Some v => u =? v | None, None => true | _, _ => false end.
Definition key2_eqb (a b : key2) : bool :=
  let '(a1, a2, a3) := a in let '(b1, b2, b3) := b in (a1 =? b1) && (a2 =? b2) && oz_eqb a3 b3.

(* _PolyHelper2D: the key the stored vandermonde was computed for, the stored attributes
   poly_order / max_cross, pinv_stale, and the key whose pinv is stored *)
Record poly2 := { q_vand : key2; q_order : Z * Z; q_mc : option Z; q_stale : bool; q_pinv : option key2 }.

Definition poly2_new (px pz : Z) (mc : option Z) : poly2 :=
  {| q_vand := (px, pz, mc); q_order := (px, pz); q_mc := mc; q_stale := true; q_pinv := None |}.

(* recalc_vandermonde after the max_cross check: recompute iff max_cross or the orders differ *)
Definition recalc2 (h : poly2) (px pz : Z) (mc : option Z) : poly2 :=
  if negb (oz_eqb (q_mc h) mc) || negb ((fst (q_order h) =? px) && (snd (q_order h) =? pz)) then
    {| q_vand := (px, pz, mc); q_order := (px, pz); q_mc := mc; q_stale := true; q_pinv := q_pinv h |}
  else
    {| q_vand := q_vand h; q_order := (px, pz); q_mc := mc; q_stale := q_stale h; q_pinv := q_pinv h |}.

Definition get_pinv2 (h : poly2) : poly2 :=
  if q_stale h || is_none (q_pinv h) then
    {| q_vand := q_vand h; q_order := q_order h; q_mc := q_mc h; q_stale := false; q_pinv := Some (q_vand h) |}
  else h.

Definition key4 := (Z * Z * Z * Z)%type.   (* (knots_x, knots_z, degree_x, degree_z) *)
Definition akey := (Z * Z)%type.           (* one axis: (knots, degree) *)
Definition key4_eqb (a b : key4) : bool :=
  let '(a1, a2, a3, a4) := a in let '(b1, b2, b3, b4) := b in
  (a1 =? b1) && (a2 =? b2) && (a3 =? b3) && (a4 =? b4).

(* SplineBasis2D has three levels: the attributes num_knots / spline_degree (what same_basis compares), the
   per-axis bases basis_r / basis_c (what each was computed for), and the lazily created full basis `_basis`
   (None until first read through the `basis` property, then kron of the per-axis bases it was built from) *)
Record spl2 := { b_key : key4; b_r : akey; b_c : akey; b_full : option (akey * akey) }.

Definition spl2_new (k : key4) : spl2 :=
  let '(k1, k2, d1, d2) := k in {| b_key := k; b_r := (k1, d1); b_c := (k2, d2); b_full := None |}.

(* the `basis` property *)
Definition get_full (b : spl2) : spl2 :=
  match b_full b with
  | None => {| b_key := b_key b; b_r := b_r b; b_c := b_c b; b_full := Some (b_r b, b_c b) |}
  | Some _ => b
  end.

Inductive setup2 :=
| SPoly2 (w : option (Z * Z)) (px pz : Z) (mc : option Z) (cv cp : bool)
| SSpline2 (w : option (Z * Z)) (k : key4) (mk : bool) (dox doz : Z) (full : bool)
    (* full: the body then reads the lazy full basis (pspline.basis.basis; only pspline_iasls) *)
| SRaise2.

Record call2 := { d_data : option (Z * Z);   (* None: data=None; Some (rows, cols) *)
                  d_dataok : bool;
                  d_setups : list setup2 }.

Inductive op2 := Call2 (c : call2) | SetSolver2 (v : Z).

Inductive read2 := RVander2 (k : key2) | RPinv2 (k : key2) | RBasis2 (r c : akey) | RFull2 (f : akey * akey).

(* an axis (x or z): its length and whether it was created lazily *)
Record st2 := { t_x : option Z; t_z : option Z;
                t_vx : bool; t_vz : bool;        (* _validated_x / _validated_z: set once in __init__ *)
                t_poly : option poly2; t_spline : option spl2;
                t_solver : Z }.

Definition init2 (x z : option Z) : st2 :=
  {| t_x := x; t_z := z; t_vx := is_none x; t_vz := is_none z; t_poly := None; t_spline := None; t_solver := 2 |}.

Definition upd2_axes (s : st2) (x z : Z) : st2 :=
  {| t_x := Some x; t_z := Some z; t_vx := t_vx s; t_vz := t_vz s; t_poly := t_poly s; t_spline := t_spline s;
     t_solver := t_solver s |}.
Definition upd2_poly (s : st2) (h : poly2) : st2 :=
  {| t_x := t_x s; t_z := t_z s; t_vx := t_vx s; t_vz := t_vz s; t_poly := Some h; t_spline := t_spline s;
     t_solver := t_solver s |}.
Definition upd2_spline (s : st2) (b : spl2) : st2 :=
  {| t_x := t_x s; t_z := t_z s; t_vx := t_vx s; t_vz := t_vz s; t_poly := t_poly s; t_spline := Some b;
     t_solver := t_solver s |}.
Definition upd2_solver (s : st2) (v : Z) : st2 :=
  {| t_x := t_x s; t_z := t_z s; t_vx := t_vx s; t_vz := t_vz s; t_poly := t_poly s; t_spline := t_spline s;
     t_solver := v |}.

(* _check_optional_array(self._shape, weights, ...) *)
Definition wok2 (s : st2) (w : option (Z * Z)) : bool :=
  match w with
  | None => true
  | Some (r, c) => match t_x s, t_z s with Some m, Some n => (r =? m) && (c =? n) | _, _ => false end
  end.

Definition key4_valid (k : key4) : bool :=
  let '(k1, k2, d1, d2) := k in (2 <=? k1) && (2 <=? k2) && (0 <=? d1) && (0 <=? d2).

Definition same_basis2 (cur : option spl2) (k : key4) : bool :=
  match cur with Some b => key4_eqb k (b_key b) | None => false end.

Definition nbases (a : akey) : Z := fst a + snd a - 1.

Definition do_setup2 (s : st2) (u : setup2) : st2 * list read2 * option err :=
  match u with
  | SPoly2 w px pz mc cv cp =>
      if negb (wok2 s w) then (s, [], Some EWeights)
      else if (px <? 0) || (pz <? 0) then (s, [], Some EPolyOrder)
      else if cv && (match mc with Some m => m <? 0 | None => false end) then (s, [], Some EParam)
      else
        let s1 := if cv then upd2_poly s (match t_poly s with None => poly2_new px pz mc | Some h => recalc2 h px pz mc end)
                  else s in
        if negb cp then
          (s1, match t_poly s1 with Some h => if cv then [RVander2 (q_vand h)] else [] | None => [] end, None)
        else if negb cv then (s1, [], Some EParam)
        else
          match t_poly s1 with
          | None => (s1, [], Some EParam)
          | Some h =>
              if negb (is_none w) then (s1, [RVander2 (q_vand h)], None)
              else let h' := get_pinv2 h in
                   (upd2_poly s1 h',
                    match q_pinv h' with Some e => [RVander2 (q_vand h'); RPinv2 e] | None => [RVander2 (q_vand h')] end,
                    None)
          end
  | SSpline2 w k mk dox doz full =>
      if negb (wok2 s w) then (s, [], Some EWeights)
      else if (dox <? 1) || (doz <? 1) then (s, [], Some EParam)
      else if negb mk then (s, [], None)
      else if negb (same_basis2 (t_spline s) k) && negb (key4_valid k) then (s, [], Some ESplineBasis)
      else
        let s1 := if same_basis2 (t_spline s) k then s else upd2_spline s (spl2_new k) in
        match t_spline s1 with
        | None => (s1, [], Some ESplineBasis)
        | Some b =>
            (* PSpline2D: _num_bases comes from the per-axis bases *)
            if (nbases (b_r b) <=? dox) || (nbases (b_c b) <=? doz) then (s1, [RBasis2 (b_r b) (b_c b)], Some EPSpline)
            else if full then
              let b' := get_full b in
              (upd2_spline s1 b',
               RBasis2 (b_r b) (b_c b) :: match b_full b' with Some f => [RFull2 f] | None => [] end, None)
            else (s1, [RBasis2 (b_r b) (b_c b)], None)
        end
  | SRaise2 => (s, [], Some EBody)
  end.

Fixpoint do_setups2 (s : st2) (us : list setup2) (acc : list read2) : st2 * list read2 * option err :=
  match us with
  | [] => (s, acc, None)
  | u :: us' =>
      let '(s1, r, e) := do_setup2 s u in
      match e with
      | Some _ => (s1, acc ++ r, e)
      | None => do_setups2 s1 us' (acc ++ r)
      end
  end.

Record outcome2 := { o2_axes : option Z * option Z; o2_reads : list read2; o2_err : option err }.

Definition fail2 (s : st2) (e : err) : st2 * outcome2 :=
  (s, {| o2_axes := (t_x s, t_z s); o2_reads := []; o2_err := Some e |}).

Definition body2 (s1 : st2) (c : call2) : st2 * outcome2 :=
  let '(s2, r, e2) := do_setups2 s1 (d_setups c) [] in
  (s2, {| o2_axes := (t_x s1, t_z s1); o2_reads := r; o2_err := e2 |}).

(* _register.inner of _Algorithm2D: the shape check uses whichever axes exist, then the missing
   axes are created from the data shape *)
Definition step2 (s : st2) (o : op2) : st2 * outcome2 :=
  match o with
  | Call2 c =>
      match d_data c with
      | None => fail2 s ENoData
      | Some (r, cc) =>
          let okx := match t_x s with Some m => r =? m | None => true end in
          let okz := match t_z s with Some n => cc =? n | None => true end in
          if d_dataok c && okx && okz then
            body2 (upd2_axes s (match t_x s with Some m => m | None => r end)
                               (match t_z s with Some n => n | None => cc end)) c
          else fail2 s (if is_none (t_x s) && is_none (t_z s) then EData else ESize)
      end
  | SetSolver2 v =>
      if solver_valid v then (upd2_solver s v, {| o2_axes := (t_x s, t_z s); o2_reads := []; o2_err := None |})
      else fail2 s ESolver
  end.

Definition run2 (ops : list op2) (s : st2) : st2 := fold_left (fun s o => fst (step2 s o)) ops s.

(* a new object for the current axes (validated flags as for given axes) and solver preference *)
Definition fresh2 (s : st2) : st2 := upd2_solver (init2 (t_x s) (t_z s)) (t_solver s).

(* number of all-zero columns of the Vandermonde computed for a key (cross terms above max_cross) *)
Definition zeroed (k : key2) : Z :=
  let '(px, pz, mc) := k in
  match mc with None => 0 | Some m => px * pz - Z.min px m * Z.min pz m end.

(* [x is None; z is None; shape0; shape1; _size; _validated_x; _validated_z; has _polynomial; order_x; order_z;
    max_cross (-1 None); vandermonde columns; all-zero columns of the vandermonde; pinv_stale;
    _pseudo_inverse is None; rows of _pseudo_inverse; has basis; kx; kz; dx; dz; columns of basis_r; columns of basis_c;
    _basis is None; columns of _basis; _basis == kron(basis_r, basis_c) of the CURRENT per-axis bases; _banded_solver] *)
Definition oz (o : option Z) : Z := match o with Some v => v | None => -1 end.
Definition observe2 (s : st2) : list Z :=
  [ b2z (is_none (t_x s)); b2z (is_none (t_z s)); oz (t_x s); oz (t_z s);
    match t_x s, t_z s with Some m, Some n => m * n | _, _ => -1 end; b2z (t_vx s); b2z (t_vz s) ]
  ++ match t_poly s with
     | None => [0; -1; -1; -1; -1; -1; -1; -1; -1]
     | Some h => let '(vx, vz, vmc) := q_vand h in
                 [1; fst (q_order h); snd (q_order h); oz (q_mc h); (vx + 1) * (vz + 1); zeroed (q_vand h); b2z (q_stale h);
                  b2z (is_none (q_pinv h));
                  match q_pinv h with Some (px, pz, _) => (px + 1) * (pz + 1) | None => -1 end]
     end
  ++ match t_spline s with
     | None => [0; -1; -1; -1; -1; -1; -1; 1; -1; -1]
     | Some b => let '(k1, k2, d1, d2) := b_key b in
                 [1; k1; k2; d1; d2; nbases (b_r b); nbases (b_c b); b2z (is_none (b_full b));
                  match b_full b with Some (r, c) => nbases r * nbases c | None => -1 end;
                  match b_full b with
                  | Some (r, c) => b2z ((fst r =? fst (b_r b)) && (snd r =? snd (b_r b)) && (fst c =? fst (b_c b)) && (snd c =? snd (b_c b)))
                  | None => -1 end]
     end
  ++ [ t_solver s ].

Fixpoint trace2 (s : st2) (ops : list op2) : list (list Z) :=
  match ops with
  | [] => []
  | o :: ops' =>
      let '(s1, out) := step2 s o in
      (observe2 s1 ++ [b2z (negb (is_none (o2_err out)))]) :: trace2 s1 ops'
  end.
