(* C03 -- executable state machine of the per-object caches of pybaselines' fitter objects.
   Models only (no proofs).  Source modelled (pybaselines 1.2.0):
     _algorithm_setup.py   _Algorithm.__init__ (77-107), banded_solver setter (158-188),
                           _register.inner prologue (299-322), _setup_whittaker (421-443),
                           _setup_polynomial (494-521), _setup_spline (584-612),
                           _PolyHelper (939-1002)
     _spline_utils.py      SplineBasis.__init__/same_basis (545-576), PSpline.__init__ guards
     two_d/_algorithm_setup.py  _Algorithm2D.__init__, inner prologue (373-415),
                           _setup_polynomial (597-630), _setup_spline (693-722), _PolyHelper2D (1036-1116)
   The state holds SYMBOLIC values (how the cached array was produced); what they denote is
   defined in Proofs.v over abstract library functions. *)
From Coq Require Import ZArith List Bool.
Import ListNotations.
Open Scope Z_scope.

(* ------------------------------------------------------------------ x-values *)
Record XOps := { X : Type; xsize : X -> Z; xunique : X -> bool; linspace : Z -> X }.

(* executable instance: an x given by the user (length, all-values-distinct flag) or created lazily *)
Inductive xsym := XGiven (n : Z) (u : bool) | XLazy (n : Z).
Definition XSym : XOps :=
  {| X := xsym;
     xsize := fun x => match x with XGiven n _ => n | XLazy n => n end;
     xunique := fun x => match x with XGiven _ u => u | XLazy _ => true end;
     linspace := XLazy |}.

(* ------------------------------------------------------------------ polynomial cache *)
(* how the stored Vandermonde was produced: polyvander(mapped_x, p) or a column slice [:, :q+1] *)
Inductive vexpr := VFull (p : Z) | VSlice (e : vexpr) (q : Z).

Fixpoint vcols (e : vexpr) : Z :=
  match e with VFull p => p + 1 | VSlice e q => Z.min (vcols e) (q + 1) end.

(* _PolyHelper: vandermonde, poly_order, pinv_stale, _pseudo_inverse (= pinv of which expression) *)
Record poly := { p_vand : vexpr; p_order : Z; p_stale : bool; p_pinv : option vexpr }.

(* _PolyHelper.__init__: poly_order = -1, vandermonde None, then recalc_vandermonde *)
Definition poly_new (p : Z) : poly :=
  {| p_vand := VFull p; p_order := p; p_stale := true; p_pinv := None |}.

(* _PolyHelper.recalc_vandermonde (vandermonde is never None after __init__) *)
Definition recalc (h : poly) (p : Z) : poly :=
  if p_order h <? p then
    {| p_vand := VFull p; p_order := p; p_stale := true; p_pinv := p_pinv h |}
  else if p <? p_order h then
    {| p_vand := VSlice (p_vand h) p; p_order := p; p_stale := true; p_pinv := p_pinv h |}
  else
    {| p_vand := p_vand h; p_order := p; p_stale := p_stale h; p_pinv := p_pinv h |}.

Definition is_none {A} (o : option A) : bool := match o with None => true | Some _ => false end.

(* the pseudo_inverse property: recompute iff stale or never computed *)
Definition get_pinv (h : poly) : poly :=
  if p_stale h || is_none (p_pinv h) then
    {| p_vand := p_vand h; p_order := p_order h; p_stale := false; p_pinv := Some (p_vand h) |}
  else h.

(* ------------------------------------------------------------------ calls *)
Inductive err :=
| ENoData        (* TypeError: data and x both None *)
| EData          (* input data rejected by _check_array while x is still None *)
| ENotUnique     (* require_unique_x and x has repeated values *)
| ESize          (* data rejected by _check_sized_array *)
| EParam         (* a scalar parameter rejected inside a _setup_* before any cache is touched *)
| EWeights       (* weights rejected by _check_optional_array *)
| EPolyOrder     (* negative polynomial order *)
| ESplineBasis   (* SplineBasis(...) raises: degree < 0 or fewer than 2 knots *)
| EPSpline       (* PSpline(...) raises after the basis was (re)built: bad diff_order *)
| EBody          (* the method body raises *)
| ESolver.       (* banded_solver setter rejects the value *)

(* the cache-relevant steps of a method body, in source order *)
Inductive setup :=
| SPoly (w : option Z) (p : Z) (cv cp : bool)             (* _setup_polynomial; w = len(weights) *)
| SSpline (w : option Z) (k d : Z) (mk : bool) (dorder : Z) (* _setup_spline *)
| SWhit (w : option Z) (dorder : Z)                         (* _setup_whittaker *)
| SRaise.                                                 (* the body raises here *)

Record call := { c_unique : bool;        (* registered with require_unique_x=True *)
                 c_data : option Z;      (* None: data=None; Some n: len(data) *)
                 c_dataok : bool;        (* data passes _check_array (1-d, finite) *)
                 c_setups : list setup }.

Inductive op := Call (c : call) | SetSolver (v : Z).

(* what a call reads from the object (symbolically) *)
Inductive read := RVander (e : vexpr) | RPinv (e : vexpr) | RBasis (k d : Z) | RSolver (b pt : Z).

Section Machine.
Variable O : XOps.

Record st := { s_x : option (X O);
               s_lazy : bool;          (* x_domain is the constructor default [-1, 1] *)
               s_size : option Z;
               s_validated : bool;
               s_poly : option poly;
               s_spline : option (Z * Z);   (* (num_knots, spline_degree) the cached basis was built for *)
               s_solver : Z; s_penta : Z }.

Definition penta_of (v : Z) : Z := if v <? 3 then v else 1.

Definition init (x : option (X O)) : st :=
  {| s_x := x; s_lazy := is_none x; s_size := option_map (xsize O) x; s_validated := is_none x;
     s_poly := None; s_spline := None; s_solver := 2; s_penta := 2 |}.

Definition upd_x (s : st) (x : X O) (n : Z) : st :=
  {| s_x := Some x; s_lazy := s_lazy s; s_size := Some n; s_validated := s_validated s;
     s_poly := s_poly s; s_spline := s_spline s; s_solver := s_solver s; s_penta := s_penta s |}.
Definition upd_validated (s : st) : st :=
  {| s_x := s_x s; s_lazy := s_lazy s; s_size := s_size s; s_validated := true;
     s_poly := s_poly s; s_spline := s_spline s; s_solver := s_solver s; s_penta := s_penta s |}.
Definition upd_poly (s : st) (h : poly) : st :=
  {| s_x := s_x s; s_lazy := s_lazy s; s_size := s_size s; s_validated := s_validated s;
     s_poly := Some h; s_spline := s_spline s; s_solver := s_solver s; s_penta := s_penta s |}.
Definition upd_spline (s : st) (k d : Z) : st :=
  {| s_x := s_x s; s_lazy := s_lazy s; s_size := s_size s; s_validated := s_validated s;
     s_poly := s_poly s; s_spline := Some (k, d); s_solver := s_solver s; s_penta := s_penta s |}.
Definition upd_solver (s : st) (v : Z) : st :=
  {| s_x := s_x s; s_lazy := s_lazy s; s_size := s_size s; s_validated := s_validated s;
     s_poly := s_poly s; s_spline := s_spline s; s_solver := v; s_penta := penta_of v |}.

Definition same_basis (cur : option (Z * Z)) (k d : Z) : bool :=
  match cur with Some (k0, d0) => (k =? k0) && (d =? d0) | None => false end.

(* _check_optional_array(self._size, weights): finite weights of the object's length *)
Definition wok (s : st) (w : option Z) : bool :=
  match w with
  | None => true
  | Some n => match s_size s with Some m => n =? m | None => false end
  end.

Definition do_setup (s : st) (u : setup) : st * list read * option err :=
  match u with
  | SPoly w p cv cp =>
      if negb (wok s w) then (s, [], Some EWeights)
      else if p <? 0 then (s, [], Some EPolyOrder)
      else
        let s1 := if cv then upd_poly s (match s_poly s with None => poly_new p | Some h => recalc h p end)
                  else s in
        if negb cp then
          (s1, match s_poly s1 with Some h => if cv then [RVander (p_vand h)] else [] | None => [] end, None)
        else if negb cv then (s1, [], Some EParam)
        else
          match s_poly s1 with
          | None => (s1, [], Some EParam)   (* unreachable: cv created it *)
          | Some h =>
              if negb (is_none w) then (s1, [RVander (p_vand h)], None)
              else let h' := get_pinv h in
                   (upd_poly s1 h',
                    match p_pinv h' with Some e => [RVander (p_vand h'); RPinv e] | None => [RVander (p_vand h')] end,
                    None)
          end
  | SSpline w k d mk dorder =>
      if negb (wok s w) then (s, [], Some EWeights)
      else if negb mk then (s, [], None)
      else if negb (same_basis (s_spline s) k d) && ((d <? 0) || (k <? 2)) then (s, [], Some ESplineBasis)
      else
        let s1 := if same_basis (s_spline s) k d then s else upd_spline s k d in
        match s_spline s1 with
        | None => (s1, [], Some ESplineBasis)   (* unreachable *)
        | Some (k1, d1) =>
            if (dorder <? 1) || (k1 + d1 - 1 <=? dorder) then (s1, [RBasis k1 d1], Some EPSpline)
            else (s1, [RBasis k1 d1; RSolver (s_solver s1) (s_penta s1)], None)
        end
  | SWhit w dorder =>
      if dorder <? 1 then (s, [], Some EParam)
      else if negb (wok s w) then (s, [], Some EWeights)
      else (s, [RSolver (s_solver s) (s_penta s)], None)
  | SRaise => (s, [], Some EBody)
  end.

Fixpoint do_setups (s : st) (us : list setup) (acc : list read) : st * list read * option err :=
  match us with
  | [] => (s, acc, None)
  | u :: us' =>
      let '(s1, r, e) := do_setup s u in
      match e with
      | Some _ => (s1, acc ++ r, e)
      | None => do_setups s1 us' (acc ++ r)
      end
  end.

Record outcome := { o_x : option (X O); o_reads : list read; o_err : option err }.

Definition fail (s : st) (e : err) : st * outcome :=
  (s, {| o_x := s_x s; o_reads := []; o_err := Some e |}).

(* the wrapped method body: its _setup_* calls in order, stopping at the first raise *)
Definition body (s1 : st) (c : call) : st * outcome :=
  let '(s2, r, e2) := do_setups s1 (c_setups c) [] in
  (s2, {| o_x := s_x s1; o_reads := r; o_err := e2 |}).

(* _check_sized_array(data, self._size) when x exists *)
Definition after_validate (s1 : st) (c : call) : st * outcome :=
  match c_data c with
  | None => body s1 c
  | Some n =>
      if c_dataok c && (match s_size s1 with Some m => n =? m | None => false end)
      then body s1 c else fail s1 ESize
  end.

Definition solver_valid (v : Z) : bool := (1 <=? v) && (v <=? 4).

(* _register.inner (lines 299-337) followed by the method body; the banded_solver setter *)
Definition step (s : st) (o : op) : st * outcome :=
  match o with
  | Call c =>
      match s_x s with
      | None =>
          match c_data c with
          | None => fail s ENoData
          | Some n => if c_dataok c then body (upd_x s (linspace O n) n) c else fail s EData
          end
      | Some x =>
          let chk := c_unique c && negb (s_validated s) in
          if chk && negb (xunique O x) then fail s ENotUnique
          else after_validate (if chk then upd_validated s else s) c
      end
  | SetSolver v =>
      if solver_valid v then (upd_solver s v, {| o_x := s_x s; o_reads := []; o_err := None |})
      else fail s ESolver
  end.

Definition run (ops : list op) (s : st) : st := fold_left (fun s o => fst (step s o)) ops s.

(* the object a user would build afresh for the current x-values and solver preference *)
Definition fresh (s : st) : st := upd_solver (init (s_x s)) (s_solver s).

End Machine.

Arguments s_x {O}. Arguments s_lazy {O}. Arguments s_size {O}. Arguments s_validated {O}.
Arguments s_poly {O}. Arguments s_spline {O}. Arguments s_solver {O}. Arguments s_penta {O}.
Arguments o_x {O}. Arguments o_reads {O}. Arguments o_err {O}.

(* ------------------------------------------------------------------ observation (correspondence) *)
Definition b2z (b : bool) : Z := if b then 1 else 0.

(* [x is None; _size; _validated_x; has _polynomial; poly_order; vandermonde columns; pinv_stale;
    _pseudo_inverse is None; rows of _pseudo_inverse; has _spline_basis; num_knots; spline_degree;
    _banded_solver; _pentapy_solver] *)
Definition observe (s : st XSym) : list Z :=
  [ b2z (is_none (s_x s)); match s_size s with Some n => n | None => -1 end; b2z (s_validated s) ]
  ++ match s_poly s with
     | None => [0; -1; -1; -1; -1; -1]
     | Some h => [1; p_order h; vcols (p_vand h); b2z (p_stale h); b2z (is_none (p_pinv h));
                  match p_pinv h with Some e => vcols e | None => -1 end]
     end
  ++ match s_spline s with None => [0; -1; -1] | Some (k, d) => [1; k; d] end
  ++ [ s_solver s; s_penta s ].

(* observation after every operation, with a raised? flag appended *)
Fixpoint trace (s : st XSym) (ops : list op) : list (list Z) :=
  match ops with
  | [] => []
  | o :: ops' =>
      let '(s1, out) := step XSym s o in
      (observe s1 ++ [b2z (negb (is_none (o_err out)))]) :: trace s1 ops'
  end.
