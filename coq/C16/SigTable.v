(* Data types of the signature table that tools/gen_sigs.py emits into gen/GenSigs.v.
   Only data; the binding model is in C16/Bind.v. *)
From Coq Require Import String List Bool ZArith.
Import ListNotations.
Open Scope string_scope.

(* A default value, as a canonical form of the Python AST of the default expression. *)
Inductive dflt :=
| DReq                                             (* the parameter has no default *)
| DNone
| DBool (b : bool)
| DNum (num : Z) (den : positive) (isfloat : bool) (* exact value of an int / float literal *)
| DStr (s : string)
| DOther (dump : string)                           (* ast.dump of any other expression, e.g. "Tuple(elts=[])" *)
| DUnknown.

(* All parameters are POSITIONAL_OR_KEYWORD (the translator refuses every other kind except one
   trailing VAR_KEYWORD, recorded in s_varkw). *)
Record param := { p_name : string; p_dflt : dflt }.
Record sig := { s_params : list param; s_varkw : bool }.

Inductive cw_shape := CwBindPopCall | CwUnknown.          (* recognised body of _class_wrapper *)
Inductive gm_shape := GmLowerHasattrGetattr | GmUnknown.  (* recognised body of _get_method *)

Record entry := {
  e_module : string;            (* pybaselines.<module> *)
  e_name : string;              (* the module-level function, = func.__name__ = the method looked up *)
  e_class : string;             (* klass given to _class_wrapper by the decorator used *)
  e_func : sig;                 (* signature of the module-level function *)
  e_meth : option sig;          (* signature of klass.<name> without self; None: no such method *)
  e_registered : bool           (* the method is decorated with _Algorithm._register *)
}.

(* ---- per-point arguments: how each _setup_* function validates and flattens `weights`
   (weight_array = _check_optional_array(<size>, weights, dtype=, order=, ensure_1d=, axis=) and the
   later assignments to weight_array), as translated from the source ---- *)
Inductive wdtype := WFloat | WBool | WNone | WOtherDt.
Inductive worder := ONone | OC | OOther.
Inductive waxis := AxLast | AxAll | AxOther.          (* axis omitted (= -1)  |  axis=slice(None) *)
Inductive wflat := FlNone | FlRavelC | FlRavelCUnlessSvd | FlOther.
Record setup_entry := {
  su_two_d : bool; su_name : string;
  su_size_is_shape : bool;       (* first argument is self._shape (else self._size) *)
  su_dtype : wdtype; su_order : worder; su_ensure_1d : bool; su_axis : waxis;
  su_sort : bool;                (* followed by: if self._sort_order is not None and weights is not None: w = w[self._sort_order] *)
  su_flat : wflat                (* weight_array.ravel() [order C]: always / only when not whittaker_system._using_svd / never *)
}.

(* recognised shape of _register.inner: inner(self, data=None, *args, **kwargs) whose only call of the
   wrapped function is func(self, y, *args, **kwargs) *)
Inductive in_shape := InDataArgsKwargs | InUnknown.

(* ---- method NAME arguments of the optimizers: every use of the `method` parameter (or of a name derived from
   it) in a comparison / membership test with string literals, in a getattr, or anywhere else ---- *)
Inductive muse :=
| CmpLowered        (* compared expression is a name assigned from method.lower() (or method after method = method.lower()) *)
| CmpLowerCall      (* compared expression is <name>.lower() itself *)
| CmpRaw            (* compared expression is the caller's string as given *)
| GetattrLowered    (* getattr(obj, <lower-cased name>) / hasattr *)
| GetattrRaw
| UseOther.         (* any other use of the raw string that is not whitelisted: unknown *)
Record mcmp := { mc_two_d : bool; mc_func : string; mc_use : muse; mc_lits : list string }.

(* ---- routing of every per-point array parameter (weights, alpha) of every registered method to the validator
   that imposes its dtype ---- *)
Inductive aroute :=
| RSetup (name : string)      (* passed to self._setup_<name>: dtype imposed there (table `setups`) *)
| RDirect (t : wdtype)        (* second argument of _check_optional_array(..., dtype=t) in the method itself *)
| RUnknown.                   (* any other use of the parameter (or of an alias of it) *)
Record aparam := { ap_two_d : bool; ap_method : string; ap_param : string; ap_routes : list aroute }.

(* ---- arrays travelling inside method_kwargs of the optimizers: every read of method_kws['weights' | 'alpha' | <loop key>] ---- *)
Inductive kwuse :=
| KwValidated (t : wdtype)    (* second argument of _check_optional_array(...) : shape-normalised before any array operation *)
| KwInternal                  (* read after the optimizer itself stored a computed value under that key *)
| KwUnknown.
Record kwload := { kl_two_d : bool; kl_func : string; kl_key : string; kl_use : kwuse }.
