From Coq Require Import String List Bool.
From PB Require Import C16.SigTable C16.Bind C16.BindProofs C16.MethodCase.
Import ListNotations.
Open Scope string_scope.

(* a use that passes the check cannot tell two spellings with the same lower-casing apart *)
Theorem use_case_insensitive c s t :
  use_ok c = true -> lower s = lower t -> eval_use c s = eval_use c t /\ attr_use c s = attr_use c t.
Proof.
  unfold use_ok, eval_use, attr_use. intros H Hl. apply andb_true_iff in H. destruct H as [H _].
  destruct (mc_use c); try discriminate; rewrite ?Hl; split; reflexivity.
Qed.

(* ... and behaves as for the lower-case spelling itself *)
Theorem use_as_lower c s :
  use_ok c = true -> eval_use c s = eval_use c (lower s) /\ attr_use c s = attr_use c (lower s).
Proof. intros H. apply use_case_insensitive; [exact H|]. symmetry. apply lower_idem. Qed.

(* a comparison of the raw string is refuted *)
Theorem raw_compare_refuted :
  let c := {| mc_two_d := false; mc_func := "collab_pls"; mc_use := CmpRaw; mc_lits := ["fabc"] |} in
  use_ok c = false /\ eval_use c "FABC" <> eval_use c "fabc" /\ lower "FABC" = lower "fabc".
Proof. vm_compute. repeat split; discriminate. Qed.
