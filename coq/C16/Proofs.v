(* Proofs about C16/Model.v: normalisation keeps the denotation for every size; no x == linspace. *)
From Coq Require Import ZArith List Bool Lia ZifyBool.
From PB Require Import C01.Wrapper C16.Model.
Import ListNotations.
Open Scope Z_scope.

(* ------------------------------------------------------------------ the value model refines the shape model *)
Lemma check_1d_shape {V} (a : nd V) : res_shape (check_array_1d_val a) = check_array_1d (nd_shape a).
Proof.
  unfold check_array_1d_val, check_array_1d.
  destruct (nd_shape a) as [|x [|y [|z r]]] eqn:E; cbn [res_shape]; rewrite ?E; try reflexivity.
  destruct (has1 [x; y]); [|reflexivity]. cbn [res_shape ravel nd_shape]. rewrite E.
  unfold prodZ, fold_right. rewrite Z.mul_1_r. reflexivity.
Qed.

Lemma check_2d_shape {V} (a : nd V) : res_shape (check_array_2d_val a) = check_array_2d (nd_shape a).
Proof.
  unfold check_array_2d_val, check_array_2d.
  destruct (nd_shape a) as [|x [|y [|z [|w r]]]] eqn:E; cbn [res_shape]; rewrite ?E; try reflexivity.
  - destruct (has1 [x; y]); [reflexivity|]. cbn [res_shape]. rewrite E. reflexivity.
  - destruct (has1 [x; y; z]); reflexivity.
Qed.

Lemma check_2d_stack_shape {V} (a : nd V) :
  res_shape (check_array_2d_stack_val a) = check_array_2d_stack (nd_shape a).
Proof.
  unfold check_array_2d_stack_val, check_array_2d_stack.
  destruct (nd_shape a) as [|x [|y [|z r]]] eqn:E; try reflexivity; cbn [res_shape]; try (rewrite E; reflexivity).
  destruct (has1 [x; y]); [reflexivity|]. cbn [res_shape]. rewrite E. reflexivity.
Qed.

(* ------------------------------------------------------------------ C-order index algebra *)
Lemma prodZ_cons d s : prodZ (d :: s) = d * prodZ s.
Proof. reflexivity. Qed.

Lemma prodZ_pos s : Forall (fun d => 0 < d) s -> 0 < prodZ s.
Proof.
  induction 1 as [|d s Hd Hs IH]; [reflexivity|]. rewrite prodZ_cons. apply Z.mul_pos_pos; assumption.
Qed.

Lemma ravel_unravel s : Forall (fun d => 0 < d) s -> forall p, 0 <= p < prodZ s -> ravel_idx s (unravel s p) = p.
Proof.
  induction 1 as [|d s Hd Hs IH]; intros p Hp.
  - cbn in *. unfold prodZ in Hp. cbn in Hp. lia.
  - cbn [unravel ravel_idx]. assert (HP := prodZ_pos s Hs).
    rewrite IH by (apply Z.mod_pos_bound; exact HP).
    rewrite (Z.div_mod p (prodZ s)) at 3 by lia. ring.
Qed.

Lemma prodZ_squeeze s : prodZ (squeeze s) = prodZ s.
Proof.
  induction s as [|d s IH]; [reflexivity|]. cbn [squeeze filter]. fold (squeeze s).
  destruct (d =? 1) eqn:E; cbn [negb]; rewrite ?prodZ_cons, IH; [|reflexivity].
  apply Z.eqb_eq in E. subst. lia.
Qed.

Lemma squeeze_pos s : Forall (fun d => 0 < d) s -> Forall (fun d => 0 < d) (squeeze s).
Proof.
  intros H. unfold squeeze. rewrite Forall_forall in *. intros x Hx. apply filter_In in Hx. apply H. tauto.
Qed.

Lemma flat_1d {V} (a : nd V) n p : nd_shape a = [n] -> flat a p = nd_at a [p].
Proof.
  intros E. unfold flat. rewrite E. cbn [unravel]. unfold prodZ, fold_right. rewrite Z.div_1_r. reflexivity.
Qed.

(* ------------------------------------------------------------------ normalisation keeps the denotation *)
Definition same_den {V} (a b : nd V) : Prop :=
  prodZ (nd_shape a) = prodZ (nd_shape b)
  /\ forall p, 0 <= p < prodZ (nd_shape a) -> flat a p = flat b p.

Theorem norm_1d_flat {V} (a a' : nd V) :
  check_array_1d_val a = VOk a' ->
  nd_shape a' = [prodZ (nd_shape a)] /\ forall p, nd_at a' [p] = flat a p.
Proof.
  unfold check_array_1d_val. destruct (nd_shape a) as [|x [|y [|z r]]] eqn:E; try discriminate.
  - intros [= <-]. split.
    + rewrite E. unfold prodZ, fold_right. rewrite Z.mul_1_r. reflexivity.
    + intros p. symmetry. eapply flat_1d. exact E.
  - destruct (has1 [x; y]); [|discriminate]. intros [= <-]. cbn [ravel nd_shape nd_at]. rewrite E.
    split; [reflexivity|]. intros p. reflexivity.
Qed.

Theorem normalise_1d {V} (a b a' b' : nd V) :
  same_den a b -> check_array_1d_val a = VOk a' -> check_array_1d_val b = VOk b' ->
  nd_shape a' = nd_shape b' /\ forall p, 0 <= p < prodZ (nd_shape a) -> nd_at a' [p] = nd_at b' [p].
Proof.
  intros [Hs Hv] Ha Hb. destruct (norm_1d_flat _ _ Ha) as [Sa Va]. destruct (norm_1d_flat _ _ Hb) as [Sb Vb].
  split; [congruence|]. intros p Hp. rewrite Va, Vb. apply Hv. exact Hp.
Qed.

Lemma squeeze_no1 s : has1 s = false -> squeeze s = s.
Proof.
  unfold has1, squeeze. induction s as [|d s IH]; [reflexivity|]. cbn [existsb filter].
  intros H. apply orb_false_iff in H. destruct H as [H1 H2]. rewrite Z.eqb_sym, H1. cbn [negb].
  rewrite IH by exact H2. reflexivity.
Qed.

Lemma has1_In s : In 1 s -> has1 s = true.
Proof. intros H. unfold has1. apply existsb_exists. exists 1. split; [exact H|reflexivity]. Qed.

(* the three accepted 1-D shape classes, for every N, and what their flat denotation is *)
Theorem shapes_1d_accepted {V} (a : nd V) n :
  nd_shape a = [n] \/ nd_shape a = [n; 1] \/ nd_shape a = [1; n] ->
  exists a', check_array_1d_val a = VOk a' /\ nd_shape a' = [n].
Proof.
  intros H. unfold check_array_1d_val.
  destruct H as [E|[E|E]]; rewrite E.
  - exists a. auto.
  - rewrite (has1_In [n; 1]) by (right; left; reflexivity).
    eexists. split; [reflexivity|]. cbn [ravel nd_shape]. rewrite E. unfold prodZ, fold_right. f_equal. lia.
  - rewrite (has1_In [1; n]) by (left; reflexivity).
    eexists. split; [reflexivity|]. cbn [ravel nd_shape]. rewrite E. unfold prodZ, fold_right. f_equal. lia.
Qed.

Lemma flat_col {V} (a : nd V) n p : nd_shape a = [n; 1] -> flat a p = nd_at a [p; 0].
Proof.
  intros E. unfold flat. rewrite E. cbn [unravel]. unfold prodZ, fold_right.
  rewrite !Z.mul_1_r, !Z.div_1_r, Z.mod_1_r. reflexivity.
Qed.

Lemma flat_row {V} (a : nd V) n p : nd_shape a = [1; n] -> 0 <= p < n -> flat a p = nd_at a [0; p].
Proof.
  intros E Hp. unfold flat. rewrite E. cbn [unravel]. unfold prodZ, fold_right.
  rewrite !Z.mul_1_r, !Z.div_1_r. rewrite Z.div_small, Z.mod_small by lia. reflexivity.
Qed.

Theorem norm_2d_flat {V} (a a' : nd V) :
  Forall (fun d => 0 < d) (nd_shape a) -> check_array_2d_val a = VOk a' ->
  (nd_shape a' = nd_shape a \/ nd_shape a' = squeeze (nd_shape a))
  /\ prodZ (nd_shape a') = prodZ (nd_shape a)
  /\ forall p, 0 <= p < prodZ (nd_shape a) -> flat a' p = flat a p.
Proof.
  intros Hpos. unfold check_array_2d_val. destruct (nd_shape a) as [|x [|y [|z [|w r]]]] eqn:E; try discriminate.
  - destruct (has1 [x; y]); [discriminate|]. intros [= <-]. rewrite E. auto.
  - destruct (has1 [x; y; z]); [|discriminate]. intros Hc.
    assert (Ea : a' = reshape a (squeeze [x; y; z])) by congruence. subst a'. clear Hc. cbn [reshape nd_shape].
    split; [right; reflexivity|]. split; [apply prodZ_squeeze|].
    intros p Hp. unfold flat at 1. cbn [reshape nd_shape nd_at].
    rewrite ravel_unravel; [reflexivity| |].
    + apply squeeze_pos. exact Hpos.
    + rewrite prodZ_squeeze. exact Hp.
Qed.

Theorem normalise_2d {V} (a b a' b' : nd V) :
  Forall (fun d => 0 < d) (nd_shape a) -> Forall (fun d => 0 < d) (nd_shape b) ->
  squeeze (nd_shape a) = squeeze (nd_shape b) -> same_den a b ->
  check_array_2d_val a = VOk a' -> check_array_2d_val b = VOk b' ->
  nd_shape a' = nd_shape b' /\ forall p, 0 <= p < prodZ (nd_shape a) -> flat a' p = flat b' p.
Proof.
  intros Pa Pb Hsq [Hs Hv] Ha Hb.
  destruct (norm_2d_flat _ _ Pa Ha) as [Sa [_ Va]]. destruct (norm_2d_flat _ _ Pb Hb) as [Sb [_ Vb]].
  split.
  - (* an accepted 2-D shape has no 1, so it is its own squeeze *)
    assert (Hself : forall (c c' : nd V), check_array_2d_val c = VOk c' -> nd_shape c' = squeeze (nd_shape c)).
    { intros c c'. unfold check_array_2d_val. destruct (nd_shape c) as [|x [|y [|z [|w r]]]] eqn:E; try discriminate.
      - destruct (has1 [x; y]) eqn:H1; [discriminate|]. intros [= <-]. rewrite E.
        symmetry. apply squeeze_no1. exact H1.
      - destruct (has1 [x; y; z]); [|discriminate]. intros [= <-]. reflexivity. }
    rewrite (Hself _ _ Ha), (Hself _ _ Hb). exact Hsq.
  - intros p Hp. rewrite Va by exact Hp. rewrite Vb by (rewrite <- Hs; exact Hp). apply Hv. exact Hp.
Qed.

(* entry (i, j) of the normalised (M, N) array for the three stacked shape classes, for every M, N *)
Ltac Zify.zify_post_hook ::= Z.to_euclidean_division_equations.

Lemma divmod_row m n i j : 0 <= i < m -> 0 <= j < n -> (i * n + j) / n = i /\ (i * n + j) mod n = j.
Proof.
  intros Hi Hj. split.
  - symmetry. apply (Z.div_unique _ _ i j); lia.
  - symmetry. apply (Z.mod_unique _ _ i j); lia.
Qed.

Theorem stack_entries {V} (a a' : nd V) m n i j :
  1 < m -> 1 < n -> 0 <= i < m -> 0 <= j < n -> check_array_2d_val a = VOk a' ->
  (nd_shape a = [m; n; 1] -> nd_shape a' = [m; n] /\ nd_at a' [i; j] = nd_at a [i; j; 0])
  /\ (nd_shape a = [1; m; n] -> nd_shape a' = [m; n] /\ nd_at a' [i; j] = nd_at a [0; i; j])
  /\ (nd_shape a = [m; 1; n] -> nd_shape a' = [m; n] /\ nd_at a' [i; j] = nd_at a [i; 0; j]).
Proof.
  intros Hm Hn Hi Hj Hc. unfold check_array_2d_val in Hc.
  assert (Em : (m =? 1) = false) by lia. assert (En : (n =? 1) = false) by lia.
  destruct (divmod_row m n i j Hi Hj) as [D1 D2].
  split; [|split]; intros E; rewrite E in Hc.
  - rewrite (has1_In [m; n; 1]) in Hc by (right; right; left; reflexivity).
    assert (Ea : a' = reshape a (squeeze [m; n; 1])) by congruence. subst a'. clear Hc.
    assert (Esq : squeeze [m; n; 1] = [m; n]) by (unfold squeeze; cbn [filter]; rewrite Em, En; reflexivity).
    rewrite Esq. cbn [reshape nd_at nd_shape]. split; [reflexivity|].
    unfold flat. rewrite E. cbn [ravel_idx unravel]. unfold prodZ, fold_right.
    rewrite !Z.mul_1_r, !Z.add_0_r, !Z.div_1_r, Z.mod_1_r. rewrite D1, D2. reflexivity.
  - rewrite (has1_In [1; m; n]) in Hc by (left; reflexivity).
    assert (Ea : a' = reshape a (squeeze [1; m; n])) by congruence. subst a'. clear Hc.
    assert (Esq : squeeze [1; m; n] = [m; n]) by (unfold squeeze; cbn [filter]; rewrite Em, En; reflexivity).
    rewrite Esq. cbn [reshape nd_at nd_shape]. split; [reflexivity|].
    unfold flat. rewrite E. cbn [ravel_idx unravel]. unfold prodZ, fold_right.
    rewrite !Z.mul_1_r, !Z.add_0_r, !Z.div_1_r.
    assert (Hlt : 0 <= i * n + j < m * n) by nia.
    rewrite (Z.div_small (i * n + j) (m * n)) by exact Hlt. rewrite (Z.mod_small (i * n + j) (m * n)) by exact Hlt.
    rewrite D1, D2. reflexivity.
  - rewrite (has1_In [m; 1; n]) in Hc by (right; left; reflexivity).
    assert (Ea : a' = reshape a (squeeze [m; 1; n])) by congruence. subst a'. clear Hc.
    assert (Esq : squeeze [m; 1; n] = [m; n]) by (unfold squeeze; cbn [filter]; rewrite Em, En; reflexivity).
    rewrite Esq. cbn [reshape nd_at nd_shape]. split; [reflexivity|].
    unfold flat. rewrite E. cbn [ravel_idx unravel]. unfold prodZ, fold_right.
    rewrite !Z.mul_1_r, !Z.add_0_r, !Z.div_1_r, !Z.mul_1_l.
    rewrite D1, D2. rewrite (Z.div_small j n), (Z.mod_small j n) by lia. reflexivity.
Qed.

(* memory layout does not enter: descriptors whose logical values agree have the same denotation *)
Theorem layout_irrelevant {V} (d1 d2 : desc V) :
  d_shape d1 = d_shape d2 ->
  (forall idx, nd_at (as_nd d1) idx = nd_at (as_nd d2) idx) -> same_den (as_nd d1) (as_nd d2).
Proof.
  intros Hs Hv. unfold same_den. cbn [as_nd nd_shape]. rewrite Hs. split; [reflexivity|].
  intros p _. unfold flat. cbn [nd_shape as_nd]. rewrite Hs. apply Hv.
Qed.

(* ------------------------------------------------------------------ output dtype rule *)
Theorem dtype_rule_1d {V} cast algo given (d : desc V) t r :
  run_1d cast algo given d = Some (t, r) ->
  t = match given with Some g => g | None => d_dtype d end
  /\ exists y, check_array_1d_val (as_nd d) = VOk y /\ r = map_nd (cast t) (algo (map_nd (cast F64) y)).
Proof.
  unfold run_1d. destruct (check_array_1d_val (as_nd d)) as [y| |]; try discriminate.
  intros [= <- <-]. split; [destruct given; reflexivity|]. exists y. auto.
Qed.

Theorem dtype_rule_2d {V} cast algo given (d : desc V) t r :
  run_2d cast algo given d = Some (t, r) ->
  t = match given with Some g => g | None => d_dtype d end
  /\ exists y, check_array_2d_val (as_nd d) = VOk y /\ r = map_nd (cast t) (algo (map_nd (cast F64) y)).
Proof.
  unfold run_2d. destruct (check_array_2d_val (as_nd d)) as [y| |]; try discriminate.
  intros [= <- <-]. split; [destruct given; reflexivity|]. exists y. auto.
Qed.

(* ------------------------------------------------------------------ no x == linspace(-1, 1, N), N >= 2 *)
Lemma lin_in n x : In x (lin_nums n) <-> exists i, (i <= n)%nat /\ x = 2 * Z.of_nat i - Z.of_nat n.
Proof.
  unfold lin_nums. rewrite in_map_iff. split.
  - intros [i [<- Hi]]. apply in_seq in Hi. exists i. split; [lia|reflexivity].
  - intros [i [Hi ->]]. exists i. split; [reflexivity|]. apply in_seq. lia.
Qed.

Lemma affine_sorted c s len :
  sortedb (map (fun i => 2 * Z.of_nat i - c) (seq s len)) = true
  /\ uniqueb (map (fun i => 2 * Z.of_nat i - c) (seq s len)) = true.
Proof.
  revert s. induction len as [|k IH]; intros s; [split; reflexivity|].
  destruct k as [|k']; [split; reflexivity|].
  destruct (IH (S s)) as [I1 I2].
  change (seq s (S (S k'))) with (s :: seq (S s) (S k')).
  change (seq (S s) (S k')) with (S s :: seq (S (S s)) k') in *.
  cbn [map sortedb uniqueb] in *. rewrite I1, I2. split; apply andb_true_iff; split; try reflexivity; lia.
Qed.

Lemma fold_min_spec r a : In (fold_left Z.min r a) (a :: r) /\ forall x, In x (a :: r) -> fold_left Z.min r a <= x.
Proof.
  revert a. induction r as [|b r IH]; intros a; cbn [fold_left].
  - split; [left; reflexivity|]. intros x [Hx|[]]. lia.
  - destruct (IH (Z.min a b)) as [H1 H2]. split.
    + destruct H1 as [H1|H1]; [|right; right; exact H1].
      rewrite <- H1. destruct (Z.min_spec a b) as [[_ ->]|[_ ->]]; [left|right; left]; reflexivity.
    + intros x [<-|[<-|Hx]].
      * specialize (H2 (Z.min a b) (or_introl eq_refl)). lia.
      * specialize (H2 (Z.min a b) (or_introl eq_refl)). lia.
      * apply H2. right. exact Hx.
Qed.

Lemma fold_max_spec r a : In (fold_left Z.max r a) (a :: r) /\ forall x, In x (a :: r) -> x <= fold_left Z.max r a.
Proof.
  revert a. induction r as [|b r IH]; intros a; cbn [fold_left].
  - split; [left; reflexivity|]. intros x [Hx|[]]. lia.
  - destruct (IH (Z.max a b)) as [H1 H2]. split.
    + destruct H1 as [H1|H1]; [|right; right; exact H1].
      rewrite <- H1. destruct (Z.max_spec a b) as [[_ ->]|[_ ->]]; [right; left|left]; reflexivity.
    + intros x [<-|[<-|Hx]].
      * specialize (H2 (Z.max a b) (or_introl eq_refl)). lia.
      * specialize (H2 (Z.max a b) (or_introl eq_refl)). lia.
      * apply H2. right. exact Hx.
Qed.

Lemma lin_min_max n : minl (lin_nums n) = - Z.of_nat n /\ maxl (lin_nums n) = Z.of_nat n.
Proof.
  assert (E : lin_nums n = (2 * Z.of_nat 0 - Z.of_nat n) :: map (fun i => 2 * Z.of_nat i - Z.of_nat n) (seq 1 n))
    by reflexivity.
  assert (Hlo : In (- Z.of_nat n) (lin_nums n)) by (apply lin_in; exists 0%nat; split; lia).
  assert (Hhi : In (Z.of_nat n) (lin_nums n)) by (apply lin_in; exists n; split; lia).
  assert (Hb : forall x, In x (lin_nums n) -> - Z.of_nat n <= x <= Z.of_nat n).
  { intros x Hx. apply lin_in in Hx. destruct Hx as [i [Hi ->]]. lia. }
  unfold minl, maxl. rewrite E in *.
  set (a := 2 * Z.of_nat 0 - Z.of_nat n) in *. set (r := map _ (seq 1 n)) in *.
  destruct (fold_min_spec r a) as [M1 M2]. destruct (fold_max_spec r a) as [X1 X2].
  split.
  - specialize (M2 _ Hlo). specialize (Hb _ M1). lia.
  - specialize (X2 _ Hhi). specialize (Hb _ X1). lia.
Qed.

Theorem no_x_state (n : nat) : (1 <= n)%nat -> state_with_x n (lin_nums n) (Z.of_nat n) = state_no_x n.
Proof.
  intros _. unfold state_with_x, state_no_x.
  destruct (lin_min_max n) as [-> ->].
  destruct (affine_sorted (Z.of_nat n) 0 (S n)) as [S1 S2]. unfold lin_nums. rewrite S1, S2.
  rewrite map_length, seq_length. reflexivity.
Qed.

(* N = 1: linspace(-1, 1, 1) = [-1.] has the degenerate domain [-1, -1], the object built without x keeps [-1, 1] *)
Theorem no_x_one_refuted : state_with_x 0 [-1] 1 <> state_no_x_one.
Proof. intros H. apply (f_equal f_dom) in H. cbv in H. discriminate. Qed.
