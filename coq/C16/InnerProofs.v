(* The `inner(self, data=None, *args, **kwargs)` layer of _Algorithm._register / _Algorithm2D._register followed by
   `func(self, y, *args, **kwargs)` is transparent: the wrapped method binds exactly as if it had been called directly,
   with `data` replaced by the validated array y (C16/Bind.v, register_call). *)
From Coq Require Import String List Bool ZArith Lia.
From PB Require Import C16.SigTable C16.Bind C16.BindProofs.
Import ListNotations.
Open Scope string_scope.
Open Scope list_scope.

Section Inner.
Context {V : Type}.
Notation kwargs := (@kwargs V).

Lemma lookup_remove_key d n (kw : kwargs) :
  lookup n (remove_key d kw) = if String.eqb n d then None else lookup n kw.
Proof.
  unfold remove_key. induction kw as [|[k v] r IH]; cbn [filter lookup fst].
  - destruct (String.eqb n d); reflexivity.
  - destruct (String.eqb d k) eqn:Edk; cbn [negb].
    + apply String.eqb_eq in Edk. subst k. rewrite IH. destruct (String.eqb n d); reflexivity.
    + cbn [lookup]. destruct (String.eqb n k) eqn:Enk.
      * apply String.eqb_eq in Enk. subst k. rewrite String.eqb_sym, Edk. reflexivity.
      * exact IH.
Qed.

Lemma lookup_pos_cons_data p (hd : list param) (v : V) rest n :
  lookup_pos (p :: hd) (v :: rest) n = if String.eqb n (p_name p) then Some v else lookup_pos hd rest n.
Proof. reflexivity. Qed.

Theorem register_transparent (yof : option V -> V) (ms : sig) (margs : list V) (mkw : kwargs) (mb : bound) :
  NoDup (names (s_params ms)) ->
  (exists p r, s_params ms = p :: r /\ p_name p = "data") ->
  bind ms margs mkw = Some mb ->
  exists mb', register_call yof ms margs mkw = Some mb'
    /\ (forall n, b_get mb' n = if String.eqb n "data" then Some (yof (b_get mb "data")) else b_get mb n)
    /\ b_extra mb' = b_extra mb.
Proof.
  intros Hnd [p [r [Hps Hdata]]] Hb. unfold register_call.
  destruct margs as [|v rest].
  - (* data by keyword or absent *)
    unfold bind in Hb |- *. rewrite Hps in *. cbn [length firstn skipn Nat.leb] in Hb |- *.
    change (forallb (fun p0 : param => negb (memk (p_name p0) mkw)) []) with true in Hb. cbn [andb] in Hb.
    cbn [forallb]. rewrite andb_true_r.
    destruct (forallb (fun p0 => has_default p0 || memk (p_name p0) mkw) (p :: r)) eqn:C3; cbn [andb] in Hb; [|discriminate].
    destruct (s_varkw ms || forallb (fun kv => mems (fst kv) (names (p :: r))) mkw) eqn:C4; [|discriminate].
    injection Hb as <-. cbn [b_get b_extra lookup_pos].
    assert (Hnotin : ~ In "data" (names r)).
    { cbn [names map] in Hnd. inversion Hnd; subst. rewrite <- Hdata. assumption. }
    assert (K2 : negb (memk (p_name p) (remove_key "data" mkw)) = true).
    { unfold memk. rewrite lookup_remove_key, Hdata, String.eqb_refl. reflexivity. }
    assert (K3 : forallb (fun p0 => has_default p0 || memk (p_name p0) (remove_key "data" mkw)) r = true).
    { cbn [forallb] in C3. apply andb_true_iff in C3. destruct C3 as [_ C3]. rewrite forallb_forall in *.
      intros q Hq. specialize (C3 q Hq). unfold memk in *. rewrite lookup_remove_key.
      destruct (String.eqb (p_name q) "data") eqn:E; [|exact C3].
      apply String.eqb_eq in E. exfalso. apply Hnotin. rewrite <- E. apply in_names. exact Hq. }
    assert (K4 : (s_varkw ms || forallb (fun kv => mems (fst kv) (names r)) (remove_key "data" mkw)) = true).
    { destruct (s_varkw ms); [reflexivity|]. cbn [orb] in *. rewrite forallb_forall in *.
      intros kv Hkv. unfold remove_key in Hkv. apply filter_In in Hkv. destruct Hkv as [Hin Hne].
      specialize (C4 kv Hin). cbn [names map mems existsb] in C4. apply orb_true_iff in C4. destruct C4 as [C4|C4]; [|exact C4].
      rewrite Hdata, String.eqb_sym in C4. rewrite C4 in Hne. discriminate. }
    rewrite K2, K3, K4. cbn [andb]. eexists. split; [reflexivity|]. cbn [b_get b_extra]. split.
    + intros n. rewrite Hdata. destruct (String.eqb n "data") eqn:E.
      * apply String.eqb_eq in E. subst n.
        cbn [names map mems existsb]. rewrite ?Hdata, ?String.eqb_refl. cbn [orb]. reflexivity.
      * cbn [names map mems existsb]. rewrite ?Hdata, ?E. cbn [orb]. fold (mems n (names r)).
        destruct (mems n (names r)); [|reflexivity]. rewrite lookup_remove_key, E. reflexivity.
    + unfold remove_key. clear - Hdata. destruct p as [pn pd]. cbn [p_name] in Hdata. subst pn.
      induction mkw as [|[k w] l IH]; cbn [filter fst]; [reflexivity|].
      cbn [names map mems existsb p_name] in *.
      destruct (String.eqb "data" k) eqn:E; cbn [negb].
      * rewrite String.eqb_sym, E. cbn [orb negb]. exact IH.
      * cbn [filter fst]. rewrite (String.eqb_sym k "data"), E. cbn [orb].
        fold (mems k (names r)). destruct (mems k (names r)); cbn [negb]; [exact IH|]. f_equal. exact IH.
  - (* data positionally *)
    unfold bind in Hb. rewrite Hps in Hb. cbn [length firstn skipn forallb] in Hb.
    destruct (Nat.leb (S (length rest)) (S (length r))) eqn:C1; cbn [andb] in Hb; [|discriminate].
    destruct (negb (memk (p_name p) mkw)) eqn:C2a; cbn [andb] in Hb; [|discriminate].
    destruct (forallb (fun p0 => negb (memk (p_name p0) mkw)) (firstn (length rest) r)) eqn:C2; cbn [andb] in Hb; [|discriminate].
    destruct (forallb (fun p0 => has_default p0 || memk (p_name p0) mkw) (skipn (length rest) r)) eqn:C3; cbn [andb] in Hb; [|discriminate].
    destruct (s_varkw ms || forallb (fun kv => mems (fst kv) (names (skipn (length rest) r))) mkw) eqn:C4; [|discriminate].
    injection Hb as <-.
    rewrite Hdata in C2a. apply negb_true_iff in C2a. rewrite C2a.
    unfold bind. rewrite Hps. cbn [length firstn skipn forallb]. rewrite C1, Hdata, C2a, C2, C3, C4. cbn [andb negb].
    eexists. split; [reflexivity|]. cbn [b_get b_extra]. split; [|reflexivity].
    intros n. rewrite !lookup_pos_cons_data, Hdata, String.eqb_refl.
    destruct (String.eqb n "data"); reflexivity.
Qed.

(* module-level function -> _class_wrapper -> klass(x).method = inner -> func: the whole path *)
Theorem full_path (yof : option V -> V) (fs ms : sig) (pos : list V) (kw : kwargs) (b : bound) :
  sig_ok fs ms = true -> (exists p r, s_params ms = p :: r /\ p_name p = "data") ->
  bind fs pos kw = Some b ->
  exists margs mkw mb',
    wrapper fs pos kw = WCall (b_get b X) margs mkw
    /\ register_call yof ms margs mkw = Some mb'
    /\ (forall n, b_get mb' n = if String.eqb n "data" then Some (yof (b_get b "data"))
                               else if String.eqb n X then None else b_get b n)
    /\ b_extra mb' = b_extra b.
Proof.
  intros Hok Hd Hb. destruct (wrapper_sound _ _ _ _ _ Hok Hb) as [margs [mkw [mb [H1 [H2 [H3 H4]]]]]].
  assert (HndM : NoDup (names (s_params ms))).
  { unfold sig_ok in Hok. repeat (apply andb_true_iff in Hok; destruct Hok as [Hok ?]).
    match goal with Hm : nodupb (names (s_params ms)) = true |- _ => apply nodupb_NoDup; exact Hm end. }
  destruct (register_transparent yof ms margs mkw mb HndM Hd H2) as [mb' [R1 [R2 R3]]].
  exists margs, mkw, mb'. split; [exact H1|]. split; [exact R1|]. split; [|congruence].
  intros n. rewrite R2. destruct (String.eqb n "data") eqn:E.
  - rewrite H3. reflexivity.
  - rewrite H3. reflexivity.
Qed.

End Inner.
