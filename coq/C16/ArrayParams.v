(* Routing of the per-point array parameters (weights, alpha) of every registered method: each use of the caller's
   array must reach a validator that IMPOSES a dtype (float or bool), so that the dtype of the caller's container cannot
   enter the arithmetic of the method body.  Table: gen/GenSigs.v `array_params`.  Models only. *)
From Coq Require Import String List Bool ZArith.
From PB Require Import C16.SigTable C16.Bind C16.PerPoint.
Import ListNotations.
Open Scope string_scope.

(* the dtype a route imposes on the array, if any *)
Definition route_dtype (setups : list setup_entry) (two_d : bool) (r : aroute) : option wdtype :=
  match r with
  | RSetup n => match find (fun e => Bool.eqb (su_two_d e) two_d && String.eqb (su_name e) n && setup_ok e) setups with
                | Some e => Some (su_dtype e) | None => None end
  | RDirect t => Some t
  | RUnknown => None
  end.

Definition imposed (t : option wdtype) : bool :=
  match t with Some WFloat | Some WBool => true | _ => false end.

(* reviewed exceptions: parameters whose validator is called without a dtype.  Empty since /repo c307817 (alpha of the aspls
   methods is cast to float like the weights): every per-point parameter must reach a float- or bool-imposing validator. *)
Definition reviewed_no_dtype : list (bool * string * string) := [].

Definition is_reviewed (a : aparam) : bool :=
  existsb (fun x => match x with (d, m, p) =>
             Bool.eqb d (ap_two_d a) && String.eqb m (ap_method a) && String.eqb p (ap_param a) end) reviewed_no_dtype
  && forallb (fun r => match r with RDirect WNone => true | _ => false end) (ap_routes a).

Definition aparam_ok (setups : list setup_entry) (a : aparam) : bool :=
  negb (Nat.eqb (length (ap_routes a)) 0)
  && (forallb (fun r => imposed (route_dtype setups (ap_two_d a) r)) (ap_routes a) || is_reviewed a).

Definition array_params_ok (setups : list setup_entry) (t : list aparam) : bool :=
  negb (Nat.eqb (length t) 0) && forallb (aparam_ok setups) t.

(* what a method body computes with after a route, for a caller value v stored in a container of any dtype:
   the route's cast of the number -- the container's dtype is not an input *)
Definition routed_value (t : wdtype) (v : Z) : Z := wcast t v.

(* arrays inside method_kwargs of the optimizers: every read is either normalised by _check_optional_array first (the dtype is then
   imposed by the inner method's own routes) or a value the optimizer computed itself *)
Definition kwload_ok (k : kwload) : bool :=
  match kl_use k with KwValidated t => match t with WOtherDt => false | _ => true end | KwInternal => true | KwUnknown => false end.
Definition kwargs_loads_ok (t : list kwload) : bool := forallb kwload_ok t.
