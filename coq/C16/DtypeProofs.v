(* End-to-end statement on the prologue model (C16/Model.v run_1d / run_2d): inputs holding the same numbers (after the
   float64 cast), in any container / shape class / layout / dtype, give the same result for every extensional method body,
   cast to the same output dtype. *)
From Coq Require Import ZArith List Bool Lia.
From PB Require Import C01.Wrapper C16.Model C16.Proofs.
Import ListNotations.
Open Scope Z_scope.

Definition nd_equiv {V} (a b : nd V) : Prop :=
  nd_shape a = nd_shape b /\ forall p, 0 <= p < prodZ (nd_shape a) -> flat a p = flat b p.

Lemma map_nd_equiv {V W} (f : V -> W) (a b : nd V) : nd_equiv a b -> nd_equiv (map_nd f a) (map_nd f b).
Proof.
  intros [Hs Hv]. split; [exact Hs|]. intros p Hp. cbn [map_nd nd_shape] in Hp.
  change (f (flat a p) = f (flat b p)). f_equal. apply Hv. exact Hp.
Qed.

Lemma norm_1d_cast_equiv {V} (c : V -> V) (a1 a2 y1 y2 : nd V) :
  same_den (map_nd c a1) (map_nd c a2) ->
  check_array_1d_val a1 = VOk y1 -> check_array_1d_val a2 = VOk y2 ->
  nd_equiv (map_nd c y1) (map_nd c y2).
Proof.
  intros [Hs Hv] H1 H2. destruct (norm_1d_flat _ _ H1) as [S1 V1]. destruct (norm_1d_flat _ _ H2) as [S2 V2].
  cbn [map_nd nd_shape] in Hs. split.
  - cbn [map_nd nd_shape]. rewrite S1, S2, Hs. reflexivity.
  - intros p Hp. cbn [map_nd nd_shape] in Hp. rewrite S1 in Hp.
    assert (Hp' : 0 <= p < prodZ (nd_shape a1)).
    { unfold prodZ at 1 in Hp. cbn [fold_right] in Hp. lia. }
    change (c (flat y1 p) = c (flat y2 p)).
    rewrite (flat_1d y1 _ p S1), (flat_1d y2 _ p S2), V1, V2.
    exact (Hv p Hp').
Qed.

Lemma norm_2d_cast_equiv {V} (c : V -> V) (a1 a2 y1 y2 : nd V) :
  Forall (fun d => 0 < d) (nd_shape a1) -> Forall (fun d => 0 < d) (nd_shape a2) ->
  squeeze (nd_shape a1) = squeeze (nd_shape a2) ->
  same_den (map_nd c a1) (map_nd c a2) ->
  check_array_2d_val a1 = VOk y1 -> check_array_2d_val a2 = VOk y2 ->
  nd_equiv (map_nd c y1) (map_nd c y2).
Proof.
  intros P1 P2 Hsq [Hs Hv] H1 H2.
  assert (Hden : same_den a1 a1) by (split; [reflexivity|intros; reflexivity]).
  destruct (norm_2d_flat _ _ P1 H1) as [_ [Q1 V1]]. destruct (norm_2d_flat _ _ P2 H2) as [_ [Q2 V2]].
  cbn [map_nd nd_shape] in Hs.
  (* shapes: through normalise_2d on the un-cast arrays, whose statement only needs the squeezed shapes *)
  assert (Hshape : nd_shape y1 = nd_shape y2).
  { assert (Hself : forall (x x' : nd V), check_array_2d_val x = VOk x' -> nd_shape x' = squeeze (nd_shape x)).
    { intros x x'. unfold check_array_2d_val. destruct (nd_shape x) as [|u [|v [|w [|q r]]]] eqn:E; try discriminate.
      - destruct (has1 [u; v]) eqn:Hh; [discriminate|]. intros [= <-]. rewrite E. symmetry. apply squeeze_no1. exact Hh.
      - destruct (has1 [u; v; w]); [|discriminate]. intros Hc.
        assert (Ex : x' = reshape x (squeeze [u; v; w])) by congruence. subst x'. reflexivity. }
    rewrite (Hself _ _ H1), (Hself _ _ H2). exact Hsq. }
  split; [exact Hshape|].
  intros p Hp. cbn [map_nd nd_shape] in Hp. rewrite Q1 in Hp.
  change (c (flat y1 p) = c (flat y2 p)). rewrite (V1 p Hp). rewrite V2 by (rewrite <- Hs; exact Hp).
  exact (Hv p Hp).
Qed.

Section EndToEnd.
Context {V : Type}.
Variable cast : dtype -> V -> V.
Variable algo : nd V -> nd V.
(* the method body is a function of the numbers it receives (shape and values), nothing else *)
Hypothesis algo_ext : forall a b, nd_equiv a b -> nd_equiv (algo a) (algo b).

Theorem run_1d_same_result given (d1 d2 : desc V) t1 t2 r1 r2 :
  same_den (map_nd (cast F64) (as_nd d1)) (map_nd (cast F64) (as_nd d2)) ->
  out_dtype given (d_dtype d1) = out_dtype given (d_dtype d2) ->
  run_1d cast algo given d1 = Some (t1, r1) -> run_1d cast algo given d2 = Some (t2, r2) ->
  t1 = t2 /\ nd_equiv r1 r2.
Proof.
  intros Hden Ht. unfold run_1d.
  destruct (check_array_1d_val (as_nd d1)) as [y1| |] eqn:E1; try discriminate.
  destruct (check_array_1d_val (as_nd d2)) as [y2| |] eqn:E2; try discriminate.
  intros [= <- <-] [= <- <-]. split; [exact Ht|]. rewrite Ht.
  apply map_nd_equiv. apply algo_ext. exact (norm_1d_cast_equiv (cast F64) _ _ _ _ Hden E1 E2).
Qed.

Theorem run_2d_same_result given (d1 d2 : desc V) t1 t2 r1 r2 :
  Forall (fun d => 0 < d) (d_shape d1) -> Forall (fun d => 0 < d) (d_shape d2) ->
  squeeze (d_shape d1) = squeeze (d_shape d2) ->
  same_den (map_nd (cast F64) (as_nd d1)) (map_nd (cast F64) (as_nd d2)) ->
  out_dtype given (d_dtype d1) = out_dtype given (d_dtype d2) ->
  run_2d cast algo given d1 = Some (t1, r1) -> run_2d cast algo given d2 = Some (t2, r2) ->
  t1 = t2 /\ nd_equiv r1 r2.
Proof.
  intros P1 P2 Hsq Hden Ht. unfold run_2d.
  destruct (check_array_2d_val (as_nd d1)) as [y1| |] eqn:E1; try discriminate.
  destruct (check_array_2d_val (as_nd d2)) as [y2| |] eqn:E2; try discriminate.
  intros [= <- <-] [= <- <-]. split; [exact Ht|]. rewrite Ht.
  apply map_nd_equiv. apply algo_ext.
  exact (norm_2d_cast_equiv (cast F64) (as_nd d1) (as_nd d2) y1 y2 P1 P2 Hsq Hden E1 E2).
Qed.

(* with an explicit output_dtype the side condition on the dtypes is void *)
Corollary run_1d_same_result_given g (d1 d2 : desc V) t1 t2 r1 r2 :
  same_den (map_nd (cast F64) (as_nd d1)) (map_nd (cast F64) (as_nd d2)) ->
  run_1d cast algo (Some g) d1 = Some (t1, r1) -> run_1d cast algo (Some g) d2 = Some (t2, r2) ->
  t1 = g /\ t2 = g /\ nd_equiv r1 r2.
Proof.
  intros Hden H1 H2. destruct (run_1d_same_result (Some g) d1 d2 t1 t2 r1 r2 Hden eq_refl H1 H2) as [Ht Hr].
  unfold run_1d in H1. destruct (check_array_1d_val (as_nd d1)); try discriminate. injection H1 as <- _.
  split; [reflexivity|]. split; [symmetry; exact Ht|exact Hr].
Qed.

End EndToEnd.
