(* Method NAME arguments of the optimizers (collab_pls, optimize_extended_range, adaptive_minmax, custom_bc,
   individual_axes, _get_function): the table gen/GenSigs.v `method_uses` lists every comparison / membership test of
   the name with string literals and every getattr on it, with the data-flow class of the compared expression.
   Model of what each use computes for a caller-supplied spelling s.  Models only. *)
From Coq Require Import String List Bool.
From PB Require Import C16.SigTable C16.Bind.
Import ListNotations.
Open Scope string_scope.

(* outcome of a comparison `name == 'lit'` / `name in ('a', 'b')` (negated forms are its negation) *)
Definition eval_use (c : mcmp) (s : string) : bool :=
  match mc_use c with
  | CmpLowered | CmpLowerCall => mems (lower s) (mc_lits c)
  | CmpRaw | UseOther => mems s (mc_lits c)
  | _ => false                       (* not a comparison *)
  end.

(* attribute name used by getattr / hasattr *)
Definition attr_use (c : mcmp) (s : string) : string :=
  match mc_use c with GetattrLowered => lower s | GetattrRaw | UseOther => s | _ => "" (* not a getattr *) end.

Definition use_ok (c : mcmp) : bool :=
  match mc_use c with CmpLowered | CmpLowerCall | GetattrLowered => true | _ => false end
  && forallb (fun l => String.eqb (lower l) l) (mc_lits c).

Definition pair_mem (p : bool * string) (l : list (bool * string)) : bool :=
  existsb (fun q => Bool.eqb (fst p) (fst q) && String.eqb (snd p) (snd q)) l.

Definition method_uses_ok (funcs : list (bool * string)) (t : list mcmp) : bool :=
  forallb use_ok t
  && forallb (fun p => pair_mem p funcs)
       [(false, "collab_pls"); (false, "optimize_extended_range"); (false, "adaptive_minmax"); (false, "custom_bc");
        (true, "collab_pls"); (true, "adaptive_minmax"); (true, "individual_axes");
        (false, "_get_function"); (true, "_get_function")]
  && forallb (fun c => pair_mem (mc_two_d c, mc_func c) funcs) t.
