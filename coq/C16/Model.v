(* Input normalisation of pybaselines (1-D and 2-D prologues), as an executable model.

   - an input descriptor (container, layout, dtype, shape, memory) denotes, through np.asarray, a
     logical n-d array `nd` (shape + value at every multi-index); its *denotation* is the C-order flat
     sequence of its logical values (`flat`);
   - `check_array_1d_val` / `check_array_2d_val` / `check_array_2d_stack_val` are the value-level
     versions of the shape decisions in C01/Wrapper.v (_validation._check_array): ravel of (N,1)/(1,N);
     reshape of (M,N,1)/(1,M,N)/(M,1,N) to the non-singleton axes;
   - `out_dtype`: output dtype = dtype of the converted input unless output_dtype was given;
     the computation is done on the float64 cast; the result is cast last;
   - the state after the prologue of the first call of an object built without x versus built with
     x = linspace(-1, 1, N)  (_Algorithm.__init__, _register.inner, _yx_arrays).
   Models only; proofs are in C16/Proofs.v. *)
From Coq Require Import ZArith List Bool Lia.
From PB Require Import C01.Wrapper.
Import ListNotations.
Open Scope Z_scope.

(* ------------------------------------------------------------------ logical arrays *)
Record nd (V : Type) := { nd_shape : list Z; nd_at : list Z -> V }.
Arguments nd_shape {V}. Arguments nd_at {V}.

Definition prodZ (s : list Z) : Z := fold_right Z.mul 1 s.

(* C-order (row-major) flat position of a multi-index and back *)
Fixpoint ravel_idx (s idx : list Z) : Z :=
  match s, idx with
  | _ :: s', i :: idx' => i * prodZ s' + ravel_idx s' idx'
  | _, _ => 0
  end.
Fixpoint unravel (s : list Z) (p : Z) : list Z :=
  match s with
  | [] => []
  | _ :: s' => (p / prodZ s') :: unravel s' (p mod prodZ s')
  end.

Definition flat {V} (a : nd V) (p : Z) : V := nd_at a (unravel (nd_shape a) p).

(* ndarray.ravel() and ndarray.reshape(new_shape): same C-order sequence, new shape *)
Definition ravel {V} (a : nd V) : nd V :=
  {| nd_shape := [prodZ (nd_shape a)]; nd_at := fun idx => flat a (hd 0 idx) |}.
Definition reshape {V} (a : nd V) (s' : list Z) : nd V :=
  {| nd_shape := s'; nd_at := fun idx => flat a (ravel_idx s' idx) |}.

Inductive vres (V : Type) := VOk (a : nd V) | VTypeErr | VValueErr.
Arguments VOk {V}. Arguments VTypeErr {V}. Arguments VValueErr {V}.

Definition res_shape {V} (r : vres V) : res :=
  match r with VOk a => Ok (nd_shape a) | VTypeErr => TypeErr | VValueErr => ValueErr end.

(* _check_array(ensure_1d=True) *)
Definition check_array_1d_val {V} (a : nd V) : vres V :=
  match nd_shape a with
  | [] => VTypeErr
  | [_] => VOk a
  | [_; _] => if has1 (nd_shape a) then VOk (ravel a) else VValueErr
  | _ => VValueErr
  end.

Definition squeeze (s : list Z) : list Z := filter (fun d => negb (d =? 1)) s.

(* _check_array(ensure_1d=False, two_d=True, ensure_2d=True) *)
Definition check_array_2d_val {V} (a : nd V) : vres V :=
  match nd_shape a with
  | [] => VTypeErr
  | [_] => VValueErr
  | [_; _] => if has1 (nd_shape a) then VValueErr else VOk a
  | [_; _; _] => if has1 (nd_shape a) then VOk (reshape a (squeeze (nd_shape a))) else VValueErr
  | _ => VValueErr
  end.

(* _check_array(ensure_1d=False, two_d=True, ensure_2d=False): stacks keep their shape *)
Definition check_array_2d_stack_val {V} (a : nd V) : vres V :=
  match nd_shape a with
  | [] => VTypeErr
  | [_] => VValueErr
  | [_; _] => if has1 (nd_shape a) then VValueErr else VOk a
  | _ => VOk a
  end.

(* ------------------------------------------------------------------ descriptors *)
Inductive container := CList | CTuple | CArray.
Inductive layout := LC | LF | LStep (k : Z).   (* LStep k: the view base[::k, ::k, ...] of a C-ordered base *)
Inductive dtype := F64 | F32 | F16 | I64 | I32 | I16 | I8 | U8 | BoolT.

Fixpoint cstrides (s : list Z) : list Z :=
  match s with [] => [] | _ :: s' => prodZ s' :: cstrides s' end.
Fixpoint fstrides_from (acc : Z) (s : list Z) : list Z :=
  match s with [] => [] | d :: s' => acc :: fstrides_from (acc * d) s' end.
Definition strides (l : layout) (s : list Z) : list Z :=
  match l with
  | LC => cstrides s
  | LF => fstrides_from 1 s
  | LStep k => map (Z.mul k) (cstrides (map (Z.mul k) s))
  end.
Fixpoint dot (a b : list Z) : Z :=
  match a, b with x :: a', y :: b' => x * y + dot a' b' | _, _ => 0 end.

Record desc (V : Type) := {
  d_cont : container; d_layout : layout; d_dtype : dtype; d_shape : list Z;
  d_mem : Z -> V                (* element offset -> stored number *)
}.
Arguments d_cont {V}. Arguments d_layout {V}. Arguments d_dtype {V}. Arguments d_shape {V}. Arguments d_mem {V}.

(* np.asarray: lists and tuples become fresh C-ordered arrays, arrays are used as they are *)
Definition as_nd {V} (d : desc V) : nd V :=
  let l := match d_cont d with CArray => d_layout d | _ => LC end in
  {| nd_shape := d_shape d; nd_at := fun idx => d_mem d (dot idx (strides l (d_shape d))) |}.

(* ------------------------------------------------------------------ dtypes *)
Definition out_dtype (given : option dtype) (input : dtype) : dtype :=
  match given with Some t => t | None => input end.

Definition map_nd {V W} (f : V -> W) (a : nd V) : nd W :=
  {| nd_shape := nd_shape a; nd_at := fun idx => f (nd_at a idx) |}.

(* _register.inner (1-D, data given): normalise, remember the dtype, compute on the float64 cast, cast last.
   `cast t` converts a stored number to dtype t; `algo` is the wrapped method body. *)
Definition run_1d {V} (cast : dtype -> V -> V) (algo : nd V -> nd V) (given : option dtype) (d : desc V)
  : option (dtype * nd V) :=
  match check_array_1d_val (as_nd d) with
  | VOk y => let t := out_dtype given (d_dtype d) in
             Some (t, map_nd (cast t) (algo (map_nd (cast F64) y)))
  | _ => None
  end.
Definition run_2d {V} (cast : dtype -> V -> V) (algo : nd V -> nd V) (given : option dtype) (d : desc V)
  : option (dtype * nd V) :=
  match check_array_2d_val (as_nd d) with
  | VOk y => let t := out_dtype given (d_dtype d) in
             Some (t, map_nd (cast t) (algo (map_nd (cast F64) y)))
  | _ => None
  end.

(* ------------------------------------------------------------------ no x versus linspace(-1, 1, N)
   x values are exact rationals with one common positive denominator: x_i = num_i / den.
   linspace(-1, 1, n+1) = (2 i - n) / n  for n >= 1;  linspace(-1, 1, 1) = [-1]. *)
Definition lin_nums (n : nat) : list Z := map (fun i => 2 * Z.of_nat i - Z.of_nat n) (seq 0 (S n)).

Fixpoint sortedb (l : list Z) : bool :=          (* _determine_sorts finds nothing to sort *)
  match l with a :: ((b :: _) as r) => (a <=? b) && sortedb r | _ => true end.
Fixpoint uniqueb (l : list Z) : bool :=          (* not np.any(x[1:] == x[:-1]) *)
  match l with a :: ((b :: _) as r) => negb (a =? b) && uniqueb r | _ => true end.
Definition minl (l : list Z) : Z := match l with [] => 0 | a :: r => fold_left Z.min r a end.
Definition maxl (l : list Z) : Z := match l with [] => 0 | a :: r => fold_left Z.max r a end.

(* the fitter state that the method bodies read after the prologue of the first call *)
Record fstate := {
  f_size : Z;
  f_x : list Z; f_den : Z;          (* x = f_x / f_den *)
  f_dom : Z * Z;                    (* x_domain * f_den *)
  f_sort_none : bool;               (* _sort_order is None *)
  f_unique_ok : bool                (* a require_unique_x method passes its check *)
}.

(* Baseline(x_data=None); first call with data of length n+1: _yx_arrays makes x, x_domain stays [-1, 1] *)
Definition state_no_x (n : nat) : fstate :=
  {| f_size := Z.of_nat (S n); f_x := lin_nums n; f_den := Z.of_nat n;
     f_dom := (- Z.of_nat n, Z.of_nat n); f_sort_none := true; f_unique_ok := true |}.

(* Baseline(x_data = x) for an x of length n+1 given as numerators over den; first call with data of that length *)
Definition state_with_x (n : nat) (nums : list Z) (den : Z) : fstate :=
  {| f_size := Z.of_nat (length nums); f_x := nums; f_den := den;
     f_dom := (minl nums, maxl nums);          (* np.polynomial.polyutils.getdomain *)
     f_sort_none := sortedb nums; f_unique_ok := uniqueb nums |}.

(* linspace(-1, 1, 1) = [-1.]: one point, written over the denominator 1 *)
Definition state_no_x_one : fstate :=
  {| f_size := 1; f_x := [-1]; f_den := 1; f_dom := (-1, 1); f_sort_none := true; f_unique_ok := true |}.
