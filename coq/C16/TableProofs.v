(* Reflective checks of the generated signature table (gen/GenSigs.v), lifted by forallb_forall. *)
From Coq Require Import String List Bool ZArith.
From PB Require Import C16.SigTable C16.Bind C16.BindProofs gen.GenSigs.
Import ListNotations.
Open Scope string_scope.

Lemma sig_table_checked :
  sig_table_ok sigs = true /\ shapes_ok class_wrapper_shape get_method_1d get_method_2d = true.
Proof. split; vm_compute; reflexivity. Qed.

Lemma entry_ok_spec e : entry_ok e = true ->
  exists ms, e_meth e = Some ms /\ sig_ok (e_func e) ms = true
             /\ (exists p r, s_params ms = p :: r /\ p_name p = "data") /\ e_registered e = true.
Proof.
  unfold entry_ok. destruct (e_meth e) as [ms|]; [|discriminate]. intros H.
  apply andb_true_iff in H. destruct H as [H H3]. apply andb_true_iff in H. destruct H as [H1 H2].
  exists ms. repeat split; try assumption.
  destruct (s_params ms) as [|p r]; [discriminate|]. exists p, r. split; [reflexivity|].
  apply String.eqb_eq. exact H2.
Qed.

Lemma table_entries_ok : forall e, In e sigs ->
  exists ms, e_meth e = Some ms /\ sig_ok (e_func e) ms = true
             /\ (exists p r, s_params ms = p :: r /\ p_name p = "data") /\ e_registered e = true.
Proof.
  intros e Hin. apply entry_ok_spec.
  destruct sig_table_checked as [H _]. unfold sig_table_ok in H. apply andb_true_iff in H. destruct H as [_ H].
  rewrite forallb_forall in H. apply H. exact Hin.
Qed.

(* every module-level function of the current source forwards transparently, for every call shape *)
Theorem table_wrapper_sound {V : Type} : forall e, In e sigs ->
  exists ms, e_meth e = Some ms /\
  forall (pos : list V) (kw : list (string * V)) (b : bound),
    bind (e_func e) pos kw = Some b ->
    exists margs mkw mb,
      wrapper (e_func e) pos kw = WCall (b_get b X) margs mkw /\ bind ms margs mkw = Some mb
      /\ (forall n, b_get mb n = if String.eqb n X then None else b_get b n)
      /\ b_extra mb = b_extra b.
Proof.
  intros e Hin. destruct (table_entries_ok e Hin) as [ms [H1 [H2 _]]]. exists ms. split; [exact H1|].
  intros pos kw b Hb. exact (wrapper_sound _ _ _ _ _ H2 Hb).
Qed.

Lemma method_names_lower :
  names_lower_ok methods_1d = true /\ names_lower_ok methods_2d = true
  /\ negb (Nat.eqb (length methods_1d) 0) = true /\ negb (Nat.eqb (length methods_2d) 0) = true.
Proof. repeat split; vm_compute; reflexivity. Qed.

(* every registered method is found from any spelling whose lower-casing is its name *)
Theorem get_method_table : forall name s, (In name methods_1d \/ In name methods_2d) -> lower s = name ->
  (In name methods_1d -> get_method methods_1d s = Some name)
  /\ (In name methods_2d -> get_method methods_2d s = Some name).
Proof.
  intros name s _ Hl. destruct method_names_lower as [L1 [L2 _]]. split; intros Hin.
  - exact (get_method_finds _ _ _ L1 Hin Hl).
  - exact (get_method_finds _ _ _ L2 Hin Hl).
Qed.
