(* Reflective checks of the generated signature table (gen/GenSigs.v), lifted by forallb_forall. *)
From Coq Require Import String List Bool ZArith.
From PB Require Import C16.SigTable C16.Bind C16.BindProofs gen.GenSigs.
Import ListNotations.
Open Scope string_scope.

Lemma sig_table_checked :
  sig_table_ok sigs = true /\ shapes_ok class_wrapper_shape get_method_1d get_method_2d = true.
Proof. split; vm_compute; reflexivity. Qed.

Lemma entry_ok_spec e : entry_ok e = true ->
  exists ms, e_meth e = Some ms /\ sig_ok (e_func e) ms = true
             /\ (exists p r, s_params ms = p :: r /\ p_name p = "data") /\ e_registered e = true.
Proof.
  unfold entry_ok. destruct (e_meth e) as [ms|]; [|discriminate]. intros H.
  apply andb_true_iff in H. destruct H as [H H3]. apply andb_true_iff in H. destruct H as [H1 H2].
  exists ms. repeat split; try assumption.
  destruct (s_params ms) as [|p r]; [discriminate|]. exists p, r. split; [reflexivity|].
  apply String.eqb_eq. exact H2.
Qed.

Lemma table_entries_ok : forall e, In e sigs ->
  exists ms, e_meth e = Some ms /\ sig_ok (e_func e) ms = true
             /\ (exists p r, s_params ms = p :: r /\ p_name p = "data") /\ e_registered e = true.
Proof.
  intros e Hin. apply entry_ok_spec.
  destruct sig_table_checked as [H _]. unfold sig_table_ok in H. apply andb_true_iff in H. destruct H as [_ H].
  rewrite forallb_forall in H. apply H. exact Hin.
Qed.

(* every module-level function of the current source forwards transparently, for every call shape *)
Theorem table_wrapper_sound {V : Type} : forall e, In e sigs ->
  exists ms, e_meth e = Some ms /\
  forall (pos : list V) (kw : list (string * V)) (b : bound),
    bind (e_func e) pos kw = Some b ->
    exists margs mkw mb,
      wrapper (e_func e) pos kw = WCall (b_get b X) margs mkw /\ bind ms margs mkw = Some mb
      /\ (forall n, b_get mb n = if String.eqb n X then None else b_get b n)
      /\ b_extra mb = b_extra b.
Proof.
  intros e Hin. destruct (table_entries_ok e Hin) as [ms [H1 [H2 _]]]. exists ms. split; [exact H1|].
  intros pos kw b Hb. exact (wrapper_sound _ _ _ _ _ H2 Hb).
Qed.

Lemma method_names_lower :
  names_lower_ok methods_1d = true /\ names_lower_ok methods_2d = true
  /\ negb (Nat.eqb (length methods_1d) 0) = true /\ negb (Nat.eqb (length methods_2d) 0) = true.
Proof. repeat split; vm_compute; reflexivity. Qed.

(* every registered method is found from any spelling whose lower-casing is its name *)
Theorem get_method_table : forall name s, (In name methods_1d \/ In name methods_2d) -> lower s = name ->
  (In name methods_1d -> get_method methods_1d s = Some name)
  /\ (In name methods_2d -> get_method methods_2d s = Some name).
Proof.
  intros name s _ Hl. destruct method_names_lower as [L1 [L2 _]]. split; intros Hin.
  - exact (get_method_finds _ _ _ L1 Hin Hl).
  - exact (get_method_finds _ _ _ L2 Hin Hl).
Qed.

(* ---- per-point arguments and the inner layer ---- *)
From PB Require Import C16.Model C16.Proofs C16.PerPoint C16.PerPointProofs C16.InnerProofs.

Lemma setups_checked :
  setups_ok setups = true /\ inner_shapes_ok inner_shape_1d inner_shape_2d = true.
Proof. split; vm_compute; reflexivity. Qed.

Lemma setups_entries_ok : forall e, In e setups -> setup_ok e = true.
Proof.
  destruct setups_checked as [H _]. unfold setups_ok in H. apply andb_true_iff in H. destruct H as [H _].
  rewrite forallb_forall in H. exact H.
Qed.

(* every translated setup: weights with the same logical values reach the body as the same array *)
Theorem table_per_point : forall e, In e setups ->
  forall size svd (a b ra rb : nd Z),
    setup_weights e size svd a = VOk ra -> setup_weights e size svd b = VOk rb ->
    (su_two_d e = false -> same_den a b ->
       nd_shape ra = nd_shape rb /\ forall p, (0 <= p < prodZ (nd_shape a))%Z -> flat ra p = flat rb p)
    /\ (su_two_d e = true -> nd_shape a = nd_shape b ->
        (forall p, (0 <= p < prodZ (nd_shape a))%Z -> flat a p = flat b p) ->
        nd_shape ra = nd_shape rb /\ forall p, (0 <= p < prodZ (nd_shape a))%Z -> flat ra p = flat rb p).
Proof.
  intros e Hin size svd a b ra rb Ha Hb. assert (Hok := setups_entries_ok e Hin).
  unfold setup_ok in Hok. repeat (apply andb_true_iff in Hok; destruct Hok as [Hok ?]).
  match goal with H1 : Bool.eqb (su_ensure_1d e) (negb (su_two_d e)) = true |- _ => apply Bool.eqb_prop in H1; rename H1 into He end.
  split; intros Hd.
  - intros Hden. rewrite Hd in He. cbn in He. exact (per_point_same_1d e size svd a b ra rb He Hden Ha Hb).
  - intros Hs Hv. rewrite Hd in He. cbn in He. exact (per_point_same_2d e size svd a b ra rb He Hs Hv Ha Hb).
Qed.

(* the whole path of every module-level function: _class_wrapper, then _register.inner, then the method body *)
Theorem table_full_path {V : Type} (yof : option V -> V) : forall e, In e sigs ->
  exists ms, e_meth e = Some ms /\
  forall (pos : list V) (kw : list (string * V)) (b : bound),
    bind (e_func e) pos kw = Some b ->
    exists margs mkw mb',
      wrapper (e_func e) pos kw = WCall (b_get b X) margs mkw
      /\ register_call yof ms margs mkw = Some mb'
      /\ (forall n, b_get mb' n = if String.eqb n "data" then Some (yof (b_get b "data"))
                                 else if String.eqb n X then None else b_get b n)
      /\ b_extra mb' = b_extra b.
Proof.
  intros e Hin. destruct (table_entries_ok e Hin) as [ms [H1 [H2 [H3 _]]]]. exists ms. split; [exact H1|].
  intros pos kw b Hb. exact (full_path yof _ _ _ _ _ H2 H3 Hb).
Qed.

(* ---- method NAME arguments of the optimizers ---- *)
From PB Require Import C16.MethodCase C16.MethodCaseProofs.

Lemma method_uses_checked : method_uses_ok method_funcs method_uses = true.
Proof. vm_compute. reflexivity. Qed.

Theorem table_method_case : forall c, In c method_uses ->
  forall s t, lower s = lower t -> eval_use c s = eval_use c t /\ attr_use c s = attr_use c t.
Proof.
  intros c Hin s t Hl. apply use_case_insensitive; [|exact Hl].
  assert (H := method_uses_checked). unfold method_uses_ok in H.
  apply andb_true_iff in H. destruct H as [H _]. apply andb_true_iff in H. destruct H as [H _].
  rewrite forallb_forall in H. apply H. exact Hin.
Qed.

(* ---- routing of per-point array parameters ---- *)
From PB Require Import C16.ArrayParams C16.ArrayParamsProofs.

Lemma array_params_checked : array_params_ok setups array_params = true.
Proof. vm_compute. reflexivity. Qed.

Theorem table_array_params : forall a, In a array_params -> is_reviewed a = false ->
  ap_routes a <> [] /\ forall r, In r (ap_routes a) ->
    exists t, route_dtype setups (ap_two_d a) r = Some t /\ (t = WFloat \/ t = WBool).
Proof.
  intros a Hin Hr. apply aparam_routes_impose; [|exact Hr].
  assert (H := array_params_checked). unfold array_params_ok in H. apply andb_true_iff in H. destruct H as [_ H].
  rewrite forallb_forall in H. apply H. exact Hin.
Qed.

Lemma kwargs_loads_checked : kwargs_loads_ok kwargs_loads = true.
Proof. vm_compute. reflexivity. Qed.

Theorem table_kwargs_loads : forall k, In k kwargs_loads -> kl_use k <> KwUnknown.
Proof.
  intros k Hin. assert (H := kwargs_loads_checked). unfold kwargs_loads_ok in H. rewrite forallb_forall in H.
  specialize (H k Hin). unfold kwload_ok in H. destruct (kl_use k); [discriminate| discriminate | discriminate].
Qed.
