From Coq Require Import String List Bool ZArith.
From PB Require Import C16.SigTable C16.Bind C16.Model C16.PerPoint C16.ArrayParams.
Import ListNotations.
Open Scope string_scope.

(* a parameter that passes the check and is not a reviewed exception: every use of the caller's array goes through a
   validator that imposes float or bool *)
Theorem aparam_routes_impose setups a :
  aparam_ok setups a = true -> is_reviewed a = false ->
  ap_routes a <> [] /\ forall r, In r (ap_routes a) ->
    exists t, route_dtype setups (ap_two_d a) r = Some t /\ (t = WFloat \/ t = WBool).
Proof.
  unfold aparam_ok. intros H Hr. apply andb_true_iff in H. destruct H as [H1 H2]. rewrite Hr, orb_false_r in H2.
  split.
  - destruct (ap_routes a); [discriminate|]. discriminate.
  - intros r Hin. rewrite forallb_forall in H2. specialize (H2 r Hin). unfold imposed in H2.
    destruct (route_dtype setups (ap_two_d a) r) as [[| | |]|]; try discriminate; eexists; split; try reflexivity; auto.
Qed.

(* a setup route resolves to a table entry that itself passes setup_ok (C16_setups_table_sound then applies) *)
Theorem setup_route_entry setups two_d n t :
  route_dtype setups two_d (RSetup n) = Some t ->
  exists e, In e setups /\ su_two_d e = two_d /\ su_name e = n /\ setup_ok e = true /\ su_dtype e = t.
Proof.
  unfold route_dtype. destruct (find _ setups) as [e|] eqn:E; [|discriminate]. intros [= <-].
  apply find_some in E. destruct E as [Hin H]. apply andb_true_iff in H. destruct H as [H H3].
  apply andb_true_iff in H. destruct H as [H1 H2]. exists e. repeat split; auto.
  - apply Bool.eqb_prop. exact H1.
  - apply String.eqb_eq. exact H2.
Qed.

(* the container dtype is not an input of the normalisation: descriptors that differ only in their dtype tag denote
   the same array, hence give the same validated array *)
Theorem container_dtype_irrelevant (e : setup_entry) size svd (d : desc Z) (t : dtype) :
  setup_weights e size svd (as_nd d)
  = setup_weights e size svd (as_nd {| d_cont := d_cont d; d_layout := d_layout d; d_dtype := t;
                                       d_shape := d_shape d; d_mem := d_mem d |}).
Proof. reflexivity. Qed.
