(* Proofs about C16/PerPoint.v: the weight array seen by a method body depends only on the logical values. *)
From Coq Require Import String ZArith List Bool Lia.
From PB Require Import C01.Wrapper C16.SigTable C16.Model C16.Proofs C16.PerPoint.
Import ListNotations.
Open Scope Z_scope.

Lemma flat_map_nd {V W} (f : V -> W) (a : nd V) p : flat (map_nd f a) p = f (flat a p).
Proof. reflexivity. Qed.

Lemma flat_ravel {V} (a : nd V) p : flat (ravel a) p = flat a p.
Proof.
  unfold flat at 1. cbn [ravel nd_shape nd_at unravel hd]. unfold prodZ at 1, fold_right.
  rewrite Z.div_1_r. reflexivity.
Qed.

Lemma apply_flat_props {V} f svd (a b : nd V) :
  nd_shape a = nd_shape b ->
  nd_shape (apply_flat f svd a) = nd_shape (apply_flat f svd b)
  /\ (forall p, flat (apply_flat f svd a) p = flat a p) /\ (forall p, flat (apply_flat f svd b) p = flat b p).
Proof.
  intros Hs. destruct f; cbn [apply_flat]; try (split; [exact Hs|split; reflexivity]).
  - split; [cbn [ravel nd_shape]; rewrite Hs; reflexivity|]. split; intros p; apply flat_ravel.
  - destruct svd; [split; [exact Hs|split; reflexivity]|].
    split; [cbn [ravel nd_shape]; rewrite Hs; reflexivity|]. split; intros p; apply flat_ravel.
Qed.

Lemma sized_val_1d {V} e size (a a' : nd V) :
  su_ensure_1d e = true -> sized_val e size a = VOk a' -> check_array_1d_val a = VOk a'.
Proof.
  unfold sized_val. intros ->. destruct (check_array_1d_val a) as [x| |]; try discriminate.
  destruct (su_axis e).
  - destruct (bcast_all_eq _ size) as [[|]|]; try discriminate. intros [= ->]. reflexivity.
  - destruct (bcast_all_eq _ size) as [[|]|]; try discriminate. intros [= ->]. reflexivity.
  - destruct (bcast_all_eq _ size) as [[|]|]; try discriminate. intros [= ->]. reflexivity.
Qed.

Lemma sized_val_2d {V} e size (a a' : nd V) :
  su_ensure_1d e = false -> sized_val e size a = VOk a' -> a' = a.
Proof.
  unfold sized_val. intros ->. destruct (nd_shape a) as [|d s]; [discriminate|].
  destruct (bcast_all_eq _ size) as [[|]|]; try discriminate. intros [= ->]. reflexivity.
Qed.

(* 1-D setups: any container / (N,), (N,1), (1,N) / layout / dtype with the same numbers *)
Theorem per_point_same_1d e size svd (a b ra rb : nd Z) :
  su_ensure_1d e = true -> same_den a b ->
  setup_weights e size svd a = VOk ra -> setup_weights e size svd b = VOk rb ->
  nd_shape ra = nd_shape rb /\ forall p, 0 <= p < prodZ (nd_shape a) -> flat ra p = flat rb p.
Proof.
  intros He [Hs Hv]. unfold setup_weights.
  destruct (sized_val e size (map_nd (wcast (su_dtype e)) a)) as [a'| |] eqn:Ea; try discriminate.
  destruct (sized_val e size (map_nd (wcast (su_dtype e)) b)) as [b'| |] eqn:Eb; try discriminate.
  intros [= <-] [= <-].
  apply (sized_val_1d _ _ _ _ He) in Ea. apply (sized_val_1d _ _ _ _ He) in Eb.
  destruct (norm_1d_flat _ _ Ea) as [Sa Va]. destruct (norm_1d_flat _ _ Eb) as [Sb Vb].
  cbn [map_nd nd_shape] in Sa, Sb.
  assert (Hsh : nd_shape a' = nd_shape b') by congruence.
  destruct (apply_flat_props (su_flat e) svd a' b' Hsh) as [H1 [H2 H3]].
  split; [exact H1|]. intros p Hp. rewrite H2, H3.
  rewrite (flat_1d a' _ p Sa), (flat_1d b' _ p Sb), Va, Vb, !flat_map_nd. f_equal. apply Hv. exact Hp.
Qed.

(* 2-D setups: any container / memory layout (C, Fortran, transposed or strided view) / dtype with the same (M, N) numbers *)
Theorem per_point_same_2d e size svd (a b ra rb : nd Z) :
  su_ensure_1d e = false -> nd_shape a = nd_shape b ->
  (forall p, 0 <= p < prodZ (nd_shape a) -> flat a p = flat b p) ->
  setup_weights e size svd a = VOk ra -> setup_weights e size svd b = VOk rb ->
  nd_shape ra = nd_shape rb /\ forall p, 0 <= p < prodZ (nd_shape a) -> flat ra p = flat rb p.
Proof.
  intros He Hs Hv. unfold setup_weights.
  destruct (sized_val e size (map_nd (wcast (su_dtype e)) a)) as [a'| |] eqn:Ea; try discriminate.
  destruct (sized_val e size (map_nd (wcast (su_dtype e)) b)) as [b'| |] eqn:Eb; try discriminate.
  intros [= <-] [= <-].
  apply (sized_val_2d _ _ _ _ He) in Ea. apply (sized_val_2d _ _ _ _ He) in Eb. subst a' b'.
  destruct (apply_flat_props (su_flat e) svd (map_nd (wcast (su_dtype e)) a) (map_nd (wcast (su_dtype e)) b) Hs)
    as [H1 [H2 H3]].
  split; [exact H1|]. intros p Hp. rewrite H2, H3, !flat_map_nd. f_equal. apply Hv. exact Hp.
Qed.

Lemma all_eq_refl s : all_eq s s = true.
Proof. induction s as [|d s IH]; [reflexivity|]. cbn [all_eq]. rewrite Z.eqb_refl, IH. reflexivity. Qed.

(* what the body sees for (M, N) weights, for every M and N: accepted, cast, and -- where the setup flattens --
   the ROW-MAJOR sequence  w'[i * N + j] = W[i][j]  whatever the memory layout of W *)
Theorem setup_weights_2d_value e svd (a : nd Z) m n :
  su_ensure_1d e = false -> su_axis e = AxAll -> nd_shape a = [m; n] ->
  setup_weights e [m; n] svd a = VOk (apply_flat (su_flat e) svd (map_nd (wcast (su_dtype e)) a)).
Proof.
  intros He Ha Hs. unfold setup_weights, sized_val. rewrite He, Ha. cbn [map_nd nd_shape]. rewrite Hs.
  unfold bcast_all_eq. cbn [length Nat.eqb]. rewrite all_eq_refl. reflexivity.
Qed.

Theorem ravel_row_major {V} (a : nd V) m n i j :
  nd_shape a = [m; n] -> 0 <= i < m -> 0 <= j < n ->
  nd_shape (ravel a) = [m * (n * 1)] /\ nd_at (ravel a) [i * n + j] = nd_at a [i; j].
Proof.
  intros Hs Hi Hj. cbn [ravel nd_shape nd_at hd]. rewrite Hs. split; [reflexivity|].
  unfold flat. rewrite Hs. cbn [unravel]. unfold prodZ, fold_right.
  rewrite !Z.mul_1_r, !Z.div_1_r. destruct (divmod_row m n i j Hi Hj) as [-> ->]. reflexivity.
Qed.

(* 1-D weights of the three shape classes are accepted for every N and arrive as the flat sequence, cast *)
Theorem setup_weights_1d_value e svd (a : nd Z) n :
  su_ensure_1d e = true -> su_axis e = AxLast -> su_flat e = FlNone ->
  nd_shape a = [n] \/ nd_shape a = [n; 1] \/ nd_shape a = [1; n] ->
  exists ra, setup_weights e [n] svd a = VOk ra /\ nd_shape ra = [n]
             /\ forall p, nd_at ra [p] = wcast (su_dtype e) (flat a p).
Proof.
  intros He Ha Hf Hs. unfold setup_weights, sized_val. rewrite He, Ha, Hf.
  destruct (shapes_1d_accepted (map_nd (wcast (su_dtype e)) a) n Hs) as [a' [Hc Hs']].
  rewrite Hc, Hs'. cbn [last]. unfold bcast_all_eq. cbn [length Nat.eqb all_eq]. rewrite Z.eqb_refl. cbn [andb].
  exists a'. split; [reflexivity|]. split; [exact Hs'|].
  intros p. destruct (norm_1d_flat _ _ Hc) as [_ Hv]. rewrite Hv. apply flat_map_nd.
Qed.
