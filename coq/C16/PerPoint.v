(* Per-point arguments (weights): what the body of a method sees after its _setup_* function.
   The model INTERPRETS the translated table entry (gen/GenSigs.v `setups`):
     weight_array = _check_optional_array(self._size | self._shape, weights, dtype=, order=, ensure_1d=, axis=)
       = _check_sized_array(...) = _check_array(...) + np.equal(output.shape[axis], length).all()
     [weight_array = weight_array[self._sort_order]      -- not modelled here: C02; sorted x is used]
     [weight_array = weight_array.ravel()]               -- C order: the logical row-major sequence
   Models only. *)
From Coq Require Import String ZArith List Bool.
From PB Require Import C01.Wrapper C16.SigTable C16.Model.
Import ListNotations.
Open Scope Z_scope.

(* np.asarray(weights, dtype=float | bool | None) on small integers *)
Definition wcast (t : wdtype) (v : Z) : Z :=
  match t with WBool => if v =? 0 then 0 else 1 | _ => v end.

(* np.equal(shape_tuple, length).all() with NumPy broadcasting of the two 1-D operands;
   None: the operands cannot be broadcast (ValueError as well) *)
Fixpoint all_eq (a b : list Z) : bool :=
  match a, b with
  | [], [] => true
  | x :: a', y :: b' => (x =? y) && all_eq a' b'
  | _, _ => false
  end.
Definition bcast_all_eq (s size : list Z) : option bool :=
  if Nat.eqb (length s) (length size) then Some (all_eq s size)
  else match s, size with
       | [x], _ => Some (forallb (Z.eqb x) size)
       | _, [y] => Some (forallb (fun d => d =? y) s)
       | _, _ => None
       end.

(* _check_sized_array as called for weights; size = [N] (self._size) or [M; N] (self._shape) *)
Definition sized_val {V} (e : setup_entry) (size : list Z) (a : nd V) : vres V :=
  if su_ensure_1d e then
    match check_array_1d_val a with
    | VOk a' => match su_axis e with
                | AxLast => match bcast_all_eq [last (nd_shape a') 0] size with
                            | Some true => VOk a' | _ => VValueErr end
                | _ => match bcast_all_eq (nd_shape a') size with Some true => VOk a' | _ => VValueErr end
                end
    | r => r
    end
  else
    match nd_shape a with
    | [] => VTypeErr
    | s => let s' := match su_axis e with AxLast => [last s 0] | _ => s end in
           match bcast_all_eq s' size with Some true => VOk a | _ => VValueErr end
    end.

Definition apply_flat {V} (f : wflat) (svd : bool) (a : nd V) : nd V :=
  match f with
  | FlRavelC => ravel a
  | FlRavelCUnlessSvd => if svd then a else ravel a
  | _ => a
  end.

(* the weight array handed to the method body (x sorted, weights given) *)
Definition setup_weights (e : setup_entry) (size : list Z) (svd : bool) (a : nd Z) : vres Z :=
  match sized_val e size (map_nd (wcast (su_dtype e)) a) with
  | VOk a' => VOk (apply_flat (su_flat e) svd a')
  | r => r
  end.

(* table condition: nothing unrecognised, the dtype is fixed by the setup (so it cannot depend on the caller's dtype) *)
Definition setup_ok (e : setup_entry) : bool :=
  match su_dtype e with WFloat | WBool => true | _ => false end
  && match su_order e with OOther => false | _ => true end
  && match su_axis e with AxOther => false | _ => true end
  && match su_flat e with FlOther => false | _ => true end
  && Bool.eqb (su_size_is_shape e) (su_two_d e)
  && Bool.eqb (su_ensure_1d e) (negb (su_two_d e))
  && match su_axis e with AxAll => su_two_d e | _ => negb (su_two_d e) end.

Definition setups_ok (t : list setup_entry) : bool :=
  forallb setup_ok t
  && forallb (fun two_d => forallb (fun n => existsb (fun e => Bool.eqb (su_two_d e) two_d && String.eqb (su_name e) n) t)
                ["_setup_whittaker"; "_setup_polynomial"; "_setup_spline"; "_setup_classification"]%string)
       [false; true].

Definition inner_shapes_ok (a b : in_shape) : bool :=
  match a, b with InDataArgsKwargs, InDataArgsKwargs => true | _, _ => false end.
