(* Proofs about C16/Bind.v: the wrapper is transparent under sig_ok, for every call shape. *)
From Coq Require Import String Ascii List Bool ZArith Lia.
From PB Require Import C16.SigTable C16.Bind.
Import ListNotations.
Open Scope string_scope.
Open Scope list_scope.

(* ------------------------------------------------------------------ small facts *)
Lemma mems_In n l : mems n l = true <-> In n l.
Proof.
  unfold mems. rewrite existsb_exists. split.
  - intros [x [Hin He]]. apply String.eqb_eq in He. subst. exact Hin.
  - intros H. exists n. split; [exact H | apply String.eqb_refl].
Qed.

Lemma mems_false n l : mems n l = false <-> ~ In n l.
Proof.
  rewrite <- mems_In. destruct (mems n l); split; intros H.
  - discriminate.
  - exfalso. apply H. reflexivity.
  - intros Hc. discriminate.
  - reflexivity.
Qed.

Lemma nodupb_NoDup l : nodupb l = true -> NoDup l.
Proof.
  induction l as [|a r IH]; cbn; intros H; [constructor|].
  apply andb_true_iff in H. destruct H as [H1 H2]. constructor.
  - apply negb_true_iff in H1. apply mems_false in H1. exact H1.
  - apply IH. exact H2.
Qed.

Lemma NoDup_app_disj {A} (a b : list A) x : NoDup (a ++ b) -> In x a -> ~ In x b.
Proof.
  induction a as [|y a IH]; cbn; intros Hnd Hin; [tauto|].
  inversion Hnd; subst. destruct Hin as [->|Hin].
  - intros Hb. apply H1. apply in_or_app. right. exact Hb.
  - apply IH; assumption.
Qed.

Lemma names_split k (F : list param) : names F = (names (firstn k F) ++ names (skipn k F))%list.
Proof. unfold names. rewrite <- map_app, firstn_skipn. reflexivity. Qed.

Lemma names_firstn k (F : list param) : names (firstn k F) = firstn k (names F).
Proof. unfold names. symmetry. apply firstn_map. Qed.

Lemma prefixb_spec a b : prefixb a b = true -> exists r, b = (a ++ r)%list.
Proof.
  revert b. induction a as [|x a IH]; intros b H; cbn in *.
  - exists b. reflexivity.
  - destruct b as [|y b]; [discriminate|]. apply andb_true_iff in H. destruct H as [H1 H2].
    apply String.eqb_eq in H1. subst. destruct (IH _ H2) as [r ->]. exists r. reflexivity.
Qed.

Lemma before_prefix x l : exists r, l = (before x l ++ r)%list.
Proof.
  induction l as [|a l [r IH]]; cbn -[String.eqb].
  - exists []. reflexivity.
  - destruct (String.eqb a x).
    + exists (a :: l). reflexivity.
    + exists r. cbn. rewrite <- IH. reflexivity.
Qed.

Lemma firstn_prefix {A} k (a r : list A) : (k <= length a)%nat -> firstn k (a ++ r) = firstn k a.
Proof.
  intros H. rewrite firstn_app. replace (k - length a)%nat with 0%nat by lia.
  cbn. apply app_nil_r.
Qed.

Lemma find_param_In n ps : In n (names ps) -> exists p, find_param n ps = Some p /\ p_name p = n /\ In p ps.
Proof.
  induction ps as [|p r IH]; cbn; [tauto|]. intros H.
  destruct (String.eqb n (p_name p)) eqn:E.
  - apply String.eqb_eq in E. exists p. auto.
  - destruct H as [H|H]; [subst; rewrite String.eqb_refl in E; discriminate|].
    destruct (IH H) as [q [H1 [H2 H3]]]. exists q. auto.
Qed.

Lemma find_param_some n ps q : find_param n ps = Some q -> p_name q = n /\ In q ps.
Proof.
  induction ps as [|p r IH]; cbn; [discriminate|].
  destruct (String.eqb n (p_name p)) eqn:E.
  - intros [= <-]. apply String.eqb_eq in E. auto.
  - intros H. destruct (IH H). auto.
Qed.

Lemma in_names p (ps : list param) : In p ps -> In (p_name p) (names ps).
Proof. intros. unfold names. apply in_map. assumption. Qed.

Lemma sig_ok_parts fs ms : sig_ok fs ms = true ->
  NoDup (names (s_params fs))
  /\ (forall p, In p (s_params fs) -> p_name p <> X ->
        exists q, find_param (p_name p) (s_params ms) = Some q /\ dflt_eqb (p_dflt p) (p_dflt q) = true)
  /\ (forall q, In q (s_params ms) -> ~ In (p_name q) (names (s_params fs)) -> has_default q = true).
Proof.
  intros Hok. unfold sig_ok in Hok. repeat (apply andb_true_iff in Hok; destruct Hok as [Hok ?]).
  rewrite forallb_forall in H0, H1. split; [apply nodupb_NoDup; exact Hok|]. split.
  - intros p Hin Hne. specialize (H1 _ Hin). apply orb_true_iff in H1. destruct H1 as [Hc|Hd].
    { apply String.eqb_eq in Hc. congruence. }
    destruct (find_param (p_name p) (s_params ms)) eqn:E; [|discriminate]. exists p0. auto.
  - intros q Hin Hn. specialize (H0 _ Hin). apply orb_true_iff in H0. destruct H0 as [Hc|Hd]; [|exact Hd].
    apply mems_In in Hc. tauto.
Qed.

Section Proofs.
Context {V : Type}.
Notation kwargs := (@kwargs V).
Notation bound := (@bound V).

Lemma lookup_app n (a b : kwargs) :
  lookup n (a ++ b) = match lookup n a with Some v => Some v | None => lookup n b end.
Proof.
  induction a as [|[k v] a IH]; cbn; [reflexivity|]. destruct (String.eqb n k); [reflexivity|exact IH].
Qed.

Lemma lookup_none_notin n (kw : kwargs) : ~ In n (keys kw) -> lookup n kw = None.
Proof.
  induction kw as [|[k v] r IH]; cbn; [reflexivity|]. intros H.
  destruct (String.eqb n k) eqn:E.
  - apply String.eqb_eq in E. subst. tauto.
  - apply IH. tauto.
Qed.

Lemma lookup_some_in n (kw : kwargs) v : lookup n kw = Some v -> In (n, v) kw.
Proof.
  induction kw as [|[k w] r IH]; cbn; [discriminate|].
  destruct (String.eqb n k) eqn:E.
  - intros [= ->]. apply String.eqb_eq in E. subst. auto.
  - intros H. right. apply IH. exact H.
Qed.

Lemma lookup_pos_names (h h' : list param) (pos : list V) n :
  names h = names h' -> lookup_pos h pos n = lookup_pos h' pos n.
Proof.
  revert h' pos. induction h as [|p h IH]; intros [|p' h'] pos H; cbn in *; try discriminate; try reflexivity.
  injection H as H1 H2. destruct pos as [|v pos]; [reflexivity|]. rewrite H1.
  destruct (String.eqb n (p_name p')); [reflexivity|]. apply IH. exact H2.
Qed.

Lemma lookup_pos_in (h : list param) (pos : list V) n v : lookup_pos h pos n = Some v -> In n (names h).
Proof.
  revert pos. induction h as [|p h IH]; intros [|w pos]; cbn; try discriminate.
  destruct (String.eqb n (p_name p)) eqn:E.
  - apply String.eqb_eq in E. auto.
  - intros H. right. eapply IH. exact H.
Qed.

Lemma lookup_pos_total (h : list param) (pos : list V) n :
  In n (names h) -> (length h <= length pos)%nat -> lookup_pos h pos n <> None.
Proof.
  revert pos. induction h as [|p h IH]; intros [|w pos]; cbn; try tauto; try lia.
  intros Hin Hl. destruct (String.eqb n (p_name p)) eqn:E; [discriminate|].
  apply IH; [|lia]. destruct Hin as [Hin|Hin]; [|exact Hin].
  subst. rewrite String.eqb_refl in E. discriminate.
Qed.

(* ------------------------------------------------------------------ BoundArguments.args / .kwargs *)
Definition npre (F : list param) (g : string -> option V) : nat := length (ba_args F g).

Lemma ba_args_lookup F (g : string -> option V) n :
  lookup_pos (firstn (npre F g) F) (ba_args F g) n
  = if mems n (names (firstn (npre F g) F)) then g n else None.
Proof.
  unfold npre. induction F as [|p r IH]; cbn; [reflexivity|].
  destruct (g (p_name p)) eqn:E; cbn; [|reflexivity].
  destruct (String.eqb n (p_name p)) eqn:En; cbn.
  - apply String.eqb_eq in En. subst. symmetry. exact E.
  - exact IH.
Qed.

Lemma ba_kwargs_true_lookup L (g : string -> option V) n :
  lookup n (ba_kwargs true L g) = if mems n (names L) then g n else None.
Proof.
  induction L as [|p r IH]; cbn; [reflexivity|].
  destruct (g (p_name p)) eqn:E; cbn.
  - destruct (String.eqb n (p_name p)) eqn:En; cbn.
    + apply String.eqb_eq in En. subst. symmetry. exact E.
    + exact IH.
  - destruct (String.eqb n (p_name p)) eqn:En; cbn.
    + apply String.eqb_eq in En. subst. rewrite IH, E. destruct (mems _ _); reflexivity.
    + exact IH.
Qed.

Lemma ba_kwargs_lookup F (g : string -> option V) n :
  lookup n (ba_kwargs false F g) = if mems n (names (skipn (npre F g) F)) then g n else None.
Proof.
  unfold npre. induction F as [|p r IH]; cbn; [reflexivity|].
  destruct (g (p_name p)) eqn:E; cbn; [exact IH|].
  rewrite ba_kwargs_true_lookup.
  destruct (String.eqb n (p_name p)) eqn:En; cbn; [|reflexivity].
  apply String.eqb_eq in En. subst. rewrite E. destruct (mems (p_name p) (names r)); reflexivity.
Qed.

Lemma ba_kwargs_true_keys L (g : string -> option V) kv :
  In kv (ba_kwargs true L g) -> In (fst kv) (names L) /\ g (fst kv) = Some (snd kv).
Proof.
  induction L as [|p r IH]; cbn; [tauto|].
  destruct (g (p_name p)) eqn:E; cbn.
  - intros [<-|H]; cbn; [auto|]. destruct (IH H). auto.
  - intros H. destruct (IH H). auto.
Qed.

Lemma ba_kwargs_keys F (g : string -> option V) kv :
  In kv (ba_kwargs false F g) -> In (fst kv) (names (skipn (npre F g) F)) /\ g (fst kv) = Some (snd kv).
Proof.
  unfold npre. induction F as [|p r IH]; cbn; [tauto|].
  destruct (g (p_name p)) eqn:E; cbn; [exact IH|].
  intros H. destruct (ba_kwargs_true_keys _ _ _ H). auto.
Qed.

Lemma npre_before F (g : string -> option V) :
  g X = None -> (npre F g <= length (before X (names F)))%nat.
Proof.
  intros HX. unfold npre. induction F as [|p r IH]; cbn -[String.eqb]; [lia|].
  destruct (g (p_name p)) eqn:E; cbn -[String.eqb]; [|lia].
  destruct (String.eqb (p_name p) X) eqn:En.
  - apply String.eqb_eq in En. rewrite En in E. congruence.
  - cbn [length]. apply le_n_S. exact IH.
Qed.

(* ------------------------------------------------------------------ what a successful bind provides *)
Lemma bind_facts (s : sig) (pos : list V) (kw : kwargs) (b : bound) :
  NoDup (names (s_params s)) -> bind s pos kw = Some b ->
  (forall n v, b_get b n = Some v -> In n (names (s_params s)))
  /\ (forall p, In p (s_params s) -> has_default p = false -> b_get b (p_name p) <> None)
  /\ (forall kv, In kv (b_extra b) -> ~ In (fst kv) (names (s_params s)))
  /\ (s_varkw s = false -> b_extra b = []).
Proof.
  intros Hnd H. unfold bind in H.
  set (ps := s_params s) in *. set (np := length pos) in *.
  destruct (Nat.leb np (length ps)) eqn:C1; cbn [andb] in H; [|discriminate].
  destruct (forallb (fun p => negb (memk (p_name p) kw)) (firstn np ps)) eqn:C2; cbn [andb] in H; [|discriminate].
  destruct (forallb (fun p => has_default p || memk (p_name p) kw) (skipn np ps)) eqn:C3; cbn [andb] in H; [|discriminate].
  destruct (s_varkw s || forallb (fun kv => mems (fst kv) (names (skipn np ps))) kw) eqn:C4; [|discriminate].
  injection H as <-. cbn [b_get b_extra].
  apply Nat.leb_le in C1. rewrite forallb_forall in C2, C3.
  assert (Hsplit := names_split np ps).
  repeat split.
  - intros n v H. rewrite Hsplit. apply in_or_app.
    destruct (lookup_pos (firstn np ps) pos n) eqn:E.
    + left. eapply lookup_pos_in. exact E.
    + right. destruct (mems n (names (skipn np ps))) eqn:E2; [|discriminate]. apply mems_In. exact E2.
  - intros p Hin Hreq. rewrite <- (firstn_skipn np ps) in Hin. apply in_app_or in Hin.
    destruct (lookup_pos (firstn np ps) pos (p_name p)) eqn:E; [discriminate|].
    destruct Hin as [Hin|Hin].
    + exfalso. revert E. apply lookup_pos_total; [apply in_names; exact Hin|].
      rewrite firstn_length. lia.
    + assert (Hm : mems (p_name p) (names (skipn np ps)) = true) by (apply mems_In, in_names; exact Hin).
      rewrite Hm. specialize (C3 _ Hin). rewrite Hreq in C3. cbn in C3. unfold memk in C3.
      destruct (lookup (p_name p) kw); [discriminate|discriminate].
  - intros kv Hin. apply filter_In in Hin. destruct Hin as [Hin Hf].
    apply negb_true_iff, mems_false in Hf. rewrite Hsplit. intros Hc. apply in_app_or in Hc.
    destruct Hc as [Hc|Hc]; [|tauto].
    unfold names in Hc. apply in_map_iff in Hc. destruct Hc as [p [Hp Hpin]].
    specialize (C2 _ Hpin). apply negb_true_iff in C2. unfold memk in C2. rewrite Hp in C2.
    destruct (lookup (fst kv) kw) eqn:E; [discriminate|].
    destruct kv as [k v]. cbn in *. clear - Hin E.
    induction kw as [|[k' v'] r IH]; cbn in *; [tauto|].
    destruct (String.eqb k k') eqn:Ek; [discriminate|].
    destruct Hin as [Hin|Hin]; [injection Hin as -> _; rewrite String.eqb_refl in Ek; discriminate|].
    apply IH; assumption.
  - intros Hv. rewrite Hv in C4. cbn in C4. rewrite forallb_forall in C4.
    clear - C4. induction kw as [|kv r IH]; cbn; [reflexivity|].
    rewrite (C4 kv (or_introl eq_refl)). cbn. apply IH. intros x Hx. apply C4. right. exact Hx.
Qed.

(* ------------------------------------------------------------------ re-assembly on the method side *)
Lemma reassemble (fs ms : sig) (g : string -> option V) (extras : kwargs) :
  sig_ok fs ms = true ->
  (forall n v, g n = Some v -> In n (names (s_params fs)) /\ n <> X) ->
  (forall p, In p (s_params fs) -> p_name p <> X -> has_default p = false -> g (p_name p) <> None) ->
  (forall kv, In kv extras -> ~ In (fst kv) (names (s_params fs))) ->
  (s_varkw fs = false -> extras = []) ->
  exists mb, bind ms (ba_args (s_params fs) g) (ba_kwargs false (s_params fs) g ++ extras) = Some mb
             /\ (forall n, b_get mb n = g n) /\ b_extra mb = extras.
Proof.
  intros Hok G1 G2 G3 G4. unfold sig_ok in Hok.
  set (F := s_params fs) in *. set (M := s_params ms) in *.
  repeat (apply andb_true_iff in Hok; destruct Hok as [Hok ?]).
  rename H into Hvk, H0 into Hextra, H1 into Hdef, H2 into Hpre, H3 into Hxd, H4 into HXM, H5 into HXF, H6 into HndM.
  rename Hok into HndF.
  apply nodupb_NoDup in HndF, HndM. apply negb_true_iff, mems_false in HXM. apply mems_In in HXF.
  rewrite forallb_forall in Hdef, Hextra.
  assert (HgX : g X = None). { destruct (g X) eqn:E; [|reflexivity]. destruct (G1 _ _ E). congruence. }
  set (k := npre F g).
  assert (Hk : (k <= length (before X (names F)))%nat) by (apply npre_before; exact HgX).
  destruct (before_prefix X (names F)) as [rF HrF].
  destruct (prefixb_spec _ _ Hpre) as [rM HrM].
  assert (HN1 : names (firstn k M) = names (firstn k F)).
  { rewrite !names_firstn. rewrite HrM. rewrite HrF at 2. rewrite !firstn_prefix by exact Hk. reflexivity. }
  assert (HkM : (k <= length M)%nat).
  { assert (length (names M) = length M) by (unfold names; apply map_length).
    rewrite HrM, app_length in H. lia. }
  assert (HsF := names_split k F). assert (HsM := names_split k M).
  (* membership transfers *)
  assert (FinM : forall n, In n (names F) -> n <> X -> In n (names M)).
  { intros n Hin Hne. unfold names in Hin. apply in_map_iff in Hin. destruct Hin as [p [Hp Hpin]].
    specialize (Hdef _ Hpin). rewrite Hp in Hdef. apply orb_true_iff in Hdef. destruct Hdef as [Hd|Hd].
    - apply String.eqb_eq in Hd. congruence.
    - destruct (find_param n M) eqn:E; [|discriminate]. destruct (find_param_some _ _ _ E) as [<- Hq].
      apply in_names. exact Hq. }
  assert (tlF_tlM : forall n, In n (names (skipn k F)) -> n <> X -> In n (names (skipn k M))).
  { intros n Hin Hne. assert (In n (names M)) by (apply FinM; [rewrite HsF; apply in_or_app; auto|exact Hne]).
    rewrite HsM in H. apply in_app_or in H. destruct H as [H|H]; [|exact H].
    exfalso. rewrite HN1 in H. rewrite HsF in HndF. exact (NoDup_app_disj _ _ _ HndF H Hin). }
  assert (MsubF : s_varkw fs = true -> forall n, In n (names M) -> In n (names F)).
  { intros Hv n Hin. rewrite Hv in Hvk. cbn in Hvk. apply andb_true_iff in Hvk. destruct Hvk as [_ Hvk].
    rewrite forallb_forall in Hvk. unfold names in Hin. apply in_map_iff in Hin. destruct Hin as [q [Hq Hqin]].
    specialize (Hvk _ Hqin). rewrite Hq in Hvk. apply mems_In. exact Hvk. }
  assert (Ex_notM : forall kv, In kv extras -> ~ In (fst kv) (names M)).
  { intros kv Hin HinM. destruct (s_varkw fs) eqn:Ev.
    - apply (G3 _ Hin). apply MsubF; auto.
    - rewrite (G4 eq_refl) in Hin. exact Hin. }
  assert (Lex : forall n, In n (names F) \/ In n (names M) -> lookup n extras = None).
  { intros n Hn. apply lookup_none_notin. intros Hc. unfold keys in Hc. apply in_map_iff in Hc.
    destruct Hc as [kv [Hkv Hin]]. subst n. destruct Hn as [Hn|Hn]; [exact (G3 _ Hin Hn)|exact (Ex_notM _ Hin Hn)]. }
  (* the four conditions of bind on the method *)
  unfold bind. fold M.
  change (length (ba_args F g)) with k.
  assert (C1 : Nat.leb k (length M) = true) by (apply Nat.leb_le; exact HkM).
  assert (C2 : forallb (fun p => negb (memk (p_name p) (ba_kwargs false F g ++ extras))) (firstn k M) = true).
  { apply forallb_forall. intros q Hq. apply negb_true_iff. unfold memk. rewrite lookup_app, ba_kwargs_lookup.
    fold k. assert (Hn1 : In (p_name q) (names (firstn k F))) by (rewrite <- HN1; apply in_names; exact Hq).
    assert (Hn2 : ~ In (p_name q) (names (skipn k F))).
    { rewrite HsF in HndF. exact (NoDup_app_disj _ _ _ HndF Hn1). }
    apply mems_false in Hn2. rewrite Hn2. rewrite Lex; [reflexivity|]. left. rewrite HsF. apply in_or_app. auto. }
  assert (C3 : forallb (fun p => has_default p || memk (p_name p) (ba_kwargs false F g ++ extras)) (skipn k M) = true).
  { apply forallb_forall. intros q Hq. destruct (has_default q) eqn:Hd; [reflexivity|]. cbn.
    assert (HqM : In q M) by (rewrite <- (firstn_skipn k M); apply in_or_app; auto).
    specialize (Hextra _ HqM). rewrite Hd, orb_false_r in Hextra. apply mems_In in Hextra.
    assert (Hne : p_name q <> X) by (intros Hc; apply HXM; rewrite <- Hc; apply in_names; exact HqM).
    destruct (find_param_In _ _ Hextra) as [p [Hfp [Hpn Hpin]]].
    specialize (Hdef _ Hpin). apply orb_true_iff in Hdef. destruct Hdef as [Hc|Hdef].
    { apply String.eqb_eq in Hc. congruence. }
    rewrite Hpn in Hdef. destruct (find_param (p_name q) M) eqn:Efq; [|discriminate].
    destruct (find_param_some _ _ _ Efq) as [Hpq Hp0in].
    assert (p0 = q).
    { (* NoDup names M: same name, same parameter *)
      clear - HndM Hpq Hp0in HqM. unfold names in HndM. induction M as [|m r IH]; cbn in *; [tauto|].
      inversion HndM as [|? ? Hnotin Hnd']; subst. destruct Hp0in as [->|Ha], HqM as [->|Hb]; auto.
      - exfalso. apply Hnotin. rewrite Hpq. apply in_map. exact Hb.
      - exfalso. apply Hnotin. rewrite <- Hpq. apply in_map. exact Ha. }
    subst p0.
    assert (Hreq : has_default p = false).
    { unfold has_default in *. destruct (p_dflt p), (p_dflt q); cbn in Hdef; try discriminate; try reflexivity. }
    assert (Hg : g (p_name p) <> None) by (apply G2; [exact Hpin|congruence|exact Hreq]).
    rewrite Hpn in Hg.
    assert (Hn2 : In (p_name q) (names (skipn k F))).
    { rewrite HsF in Hextra. apply in_app_or in Hextra. destruct Hextra as [Hc|Hc]; [|exact Hc].
      exfalso. rewrite <- HN1 in Hc. rewrite HsM in HndM.
      exact (NoDup_app_disj _ _ _ HndM Hc (in_names _ _ Hq)). }
    unfold memk. rewrite lookup_app, ba_kwargs_lookup. fold k. apply mems_In in Hn2. rewrite Hn2.
    destruct (g (p_name q)); [reflexivity|congruence]. }
  assert (Kin : forall kv, In kv (ba_kwargs false F g) -> In (fst kv) (names (skipn k M))).
  { intros kv Hin. destruct (ba_kwargs_keys _ _ _ Hin) as [H1 H2]. fold k in H1.
    apply tlF_tlM; [exact H1|]. destruct (G1 _ _ H2). assumption. }
  assert (C4 : (s_varkw ms || forallb (fun kv => mems (fst kv) (names (skipn k M))) (ba_kwargs false F g ++ extras)) = true).
  { destruct (s_varkw fs) eqn:Ev.
    - cbn in Hvk. apply andb_true_iff in Hvk. destruct Hvk as [-> _]. reflexivity.
    - rewrite (G4 eq_refl), app_nil_r. apply orb_true_iff. right. apply forallb_forall.
      intros kv Hin. apply mems_In. apply Kin. exact Hin. }
  rewrite C1, C2, C3, C4. cbn [andb]. eexists. split; [reflexivity|]. cbn [b_get b_extra]. split.
  - intros n. rewrite (lookup_pos_names _ (firstn k F)) by exact HN1.
    unfold k at 1 2. rewrite ba_args_lookup. fold k.
    destruct (mems n (names (firstn k F))) eqn:E1.
    + destruct (g n) eqn:Eg; [reflexivity|].
      apply mems_In in E1. rewrite <- HN1 in E1.
      assert (Hn2 : ~ In n (names (skipn k M))). { rewrite HsM in HndM. exact (NoDup_app_disj _ _ _ HndM E1). }
      apply mems_false in Hn2. rewrite Hn2. reflexivity.
    + apply mems_false in E1. destruct (mems n (names (skipn k M))) eqn:E2.
      * apply mems_In in E2. rewrite lookup_app, ba_kwargs_lookup. fold k.
        destruct (mems n (names (skipn k F))) eqn:E3.
        -- destruct (g n) eqn:Eg; [reflexivity|]. apply Lex. left. rewrite HsF. apply in_or_app. right.
           apply mems_In. exact E3.
        -- apply mems_false in E3. rewrite Lex by (right; rewrite HsM; apply in_or_app; auto).
           destruct (g n) eqn:Eg; [|reflexivity]. destruct (G1 _ _ Eg) as [Hin _].
           rewrite HsF in Hin. apply in_app_or in Hin. tauto.
      * apply mems_false in E2. destruct (g n) eqn:Eg; [|reflexivity]. destruct (G1 _ _ Eg) as [Hin Hne].
        exfalso. assert (HM := FinM _ Hin Hne). rewrite HsM in HM. apply in_app_or in HM.
        rewrite HN1 in HM. tauto.
  - rewrite filter_app.
    assert (Hf1 : filter (fun kv : string * V => negb (mems (fst kv) (names (skipn k M)))) (ba_kwargs false F g) = []).
    { assert (Hall := Kin). revert Hall. generalize (ba_kwargs false F g). intros l Hall.
      induction l as [|kv r IH]; cbn; [reflexivity|].
      assert (Hm : mems (fst kv) (names (skipn k M)) = true) by (apply mems_In, Hall; left; reflexivity).
      rewrite Hm. cbn. apply IH. intros x Hx. apply Hall. right. exact Hx. }
    rewrite Hf1. cbn.
    assert (Hall : forall kv, In kv extras -> ~ In (fst kv) (names (skipn k M))).
    { intros kv Hin Hc. apply (Ex_notM _ Hin). rewrite HsM. apply in_or_app. auto. }
    clear - Hall. induction extras as [|kv r IH]; cbn; [reflexivity|].
    assert (Hm : mems (fst kv) (names (skipn k M)) = false) by (apply mems_false, Hall; left; reflexivity).
    rewrite Hm. cbn. f_equal. apply IH. intros x Hx. apply Hall. right. exact Hx.
Qed.

(* ------------------------------------------------------------------ the wrapper is transparent *)
Theorem wrapper_sound (fs ms : sig) (pos : list V) (kw : kwargs) (b : bound) :
  sig_ok fs ms = true -> bind fs pos kw = Some b ->
  exists margs mkw mb,
    wrapper fs pos kw = WCall (b_get b X) margs mkw
    /\ bind ms margs mkw = Some mb
    /\ (forall n, b_get mb n = if String.eqb n X then None else b_get b n)
    /\ b_extra mb = b_extra b.
Proof.
  intros Hok Hb. unfold wrapper. rewrite Hb.
  assert (HndF : NoDup (names (s_params fs))).
  { unfold sig_ok in Hok. repeat (apply andb_true_iff in Hok; destruct Hok as [Hok ?]).
    apply nodupb_NoDup. exact Hok. }
  destruct (bind_facts _ _ _ _ HndF Hb) as [B1 [B2 [B3 B4]]].
  destruct (reassemble fs ms (pop_x (b_get b)) (b_extra b) Hok) as [mb [H1 [H2 H3]]].
  - intros n v. unfold pop_x. destruct (String.eqb n X) eqn:E; [discriminate|].
    intros H. split; [eapply B1; exact H|]. intros ->. rewrite String.eqb_refl in E. discriminate.
  - intros p Hin Hne Hreq. unfold pop_x. destruct (String.eqb (p_name p) X) eqn:E.
    + apply String.eqb_eq in E. congruence.
    + apply B2; assumption.
  - exact B3.
  - exact B4.
  - do 3 eexists. split; [reflexivity|]. split; [exact H1|]. split; [|exact H3].
    intros n. rewrite H2. reflexivity.
Qed.

(* the environment seen by the method body: same explicit values, ==-equal defaults *)
Definition aval_equiv (a b : @aval V) : Prop :=
  match a, b with
  | Given v, Given w => v = w
  | Dflt d, Dflt e => dflt_eqb d e = true
  | _, _ => False
  end.

Theorem wrapper_env (fs ms : sig) (pos : list V) (kw : kwargs) (b : bound) :
  sig_ok fs ms = true -> bind fs pos kw = Some b ->
  exists margs mkw mb,
    wrapper fs pos kw = WCall (b_get b X) margs mkw /\ bind ms margs mkw = Some mb
    /\ b_extra mb = b_extra b
    /\ (* every parameter of the function except x_data is a parameter of the method with the same value *)
       (forall p, In p (s_params fs) -> p_name p <> X ->
          exists q, find_param (p_name p) (s_params ms) = Some q /\ aval_equiv (env_at fs b p) (env_at ms mb q))
    /\ (* the method's other parameters keep their defaults *)
       (forall q, In q (s_params ms) -> ~ In (p_name q) (names (s_params fs)) ->
          env_at ms mb q = Dflt (p_dflt q) /\ has_default q = true).
Proof.
  intros Hok Hb. destruct (wrapper_sound _ _ _ _ _ Hok Hb) as [margs [mkw [mb [H1 [H2 [H3 H4]]]]]].
  destruct (sig_ok_parts _ _ Hok) as [Hnd [P1 P2]].
  exists margs, mkw, mb. repeat split; try assumption.
  - intros p Hin Hne. destruct (P1 _ Hin Hne) as [q [E Hd]]. exists q. split; [exact E|].
    destruct (find_param_some _ _ _ E) as [Hn _].
    unfold env_at. rewrite Hn, H3.
    destruct (String.eqb (p_name p) X) eqn:Ex; [apply String.eqb_eq in Ex; congruence|].
    destruct (b_get b (p_name p)); cbn; [reflexivity|exact Hd].
  - unfold env_at. rewrite H3. destruct (String.eqb (p_name q) X); [reflexivity|].
    destruct (b_get b (p_name q)) eqn:E; [|reflexivity].
    exfalso. apply H0. destruct (bind_facts _ _ _ _ Hnd Hb) as [B1 _]. eapply B1. exact E.
  - apply P2; assumption.
Qed.

(* any two call shapes (any split between positional and keyword) that bind the function's
   parameters to the same values reach the method with the same x and the same arguments *)
Theorem call_shape_irrelevant (fs ms : sig) (pos pos' : list V) (kw kw' : kwargs) (b b' : bound) :
  sig_ok fs ms = true -> bind fs pos kw = Some b -> bind fs pos' kw' = Some b' ->
  (forall n, b_get b n = b_get b' n) -> b_extra b = b_extra b' ->
  exists margs mkw mb margs' mkw' mb',
    wrapper fs pos kw = WCall (b_get b X) margs mkw /\ wrapper fs pos' kw' = WCall (b_get b X) margs' mkw'
    /\ bind ms margs mkw = Some mb /\ bind ms margs' mkw' = Some mb'
    /\ (forall n, b_get mb n = b_get mb' n) /\ b_extra mb = b_extra mb'.
Proof.
  intros Hok Hb Hb' Hg He.
  destruct (wrapper_sound _ _ _ _ _ Hok Hb) as [margs [mkw [mb [H1 [H2 [H3 H4]]]]]].
  destruct (wrapper_sound _ _ _ _ _ Hok Hb') as [margs' [mkw' [mb' [H1' [H2' [H3' H4']]]]]].
  exists margs, mkw, mb, margs', mkw', mb'. rewrite <- (Hg X) in H1'.
  repeat split; try assumption.
  - intros n. rewrite H3, H3', Hg. reflexivity.
  - congruence.
Qed.

(* a failing bind is the only way the wrapper itself raises *)
Theorem wrapper_error_iff (fs : sig) (pos : list V) (kw : kwargs) :
  wrapper fs pos kw = WTypeError <-> bind fs pos kw = None.
Proof. unfold wrapper. destruct (bind fs pos kw); split; intros; congruence. Qed.

End Proofs.

(* ------------------------------------------------------------------ _get_method *)
Lemma lower_ascii_idem c : lower_ascii (lower_ascii c) = lower_ascii c.
Proof.
  unfold lower_ascii.
  destruct (Nat.leb 65 (nat_of_ascii c) && Nat.leb (nat_of_ascii c) 90) eqn:E; [|rewrite E; reflexivity].
  apply andb_true_iff in E. destruct E as [E1 E2]. apply Nat.leb_le in E1, E2.
  rewrite nat_ascii_embedding by lia.
  replace (Nat.leb (nat_of_ascii c + 32) 90) with false by (symmetry; apply Nat.leb_gt; lia).
  rewrite andb_false_r. reflexivity.
Qed.

Lemma lower_idem s : lower (lower s) = lower s.
Proof. induction s; cbn; [reflexivity|]. rewrite lower_ascii_idem, IHs. reflexivity. Qed.

(* the lookup only depends on the lower-cased name, and finds every all-lower-case attribute from any casing *)
Theorem get_method_case attrs s t : lower s = lower t -> get_method attrs s = get_method attrs t.
Proof. unfold get_method. intros ->. reflexivity. Qed.

Theorem get_method_finds attrs name s :
  names_lower_ok attrs = true -> In name attrs -> lower s = name -> get_method attrs s = Some name.
Proof.
  intros _ Hin <-. unfold get_method. apply mems_In in Hin. rewrite Hin. reflexivity.
Qed.

Theorem get_method_lower_name attrs name :
  names_lower_ok attrs = true -> In name attrs -> get_method attrs name = Some name.
Proof.
  intros Hl Hin. unfold names_lower_ok in Hl. rewrite forallb_forall in Hl.
  specialize (Hl _ Hin). apply String.eqb_eq in Hl. unfold get_method. rewrite Hl.
  apply mems_In in Hin. rewrite Hin. reflexivity.
Qed.
