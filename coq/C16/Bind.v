(* Executable model of the argument plumbing between a module-level function and the method it
   wraps (pybaselines/_algorithm_setup.py, _class_wrapper):

     func_signature = signature(func)
     def inner( *args, **kwargs):
         total_inputs = func_signature.bind( *args, **kwargs)
         x = total_inputs.arguments.pop('x_data', None)
         return getattr(klass(x_data=x), method)( *total_inputs.args, **total_inputs.kwargs)

   - `bind`      : inspect.Signature.bind == the CPython call binding, for signatures made of
                   POSITIONAL_OR_KEYWORD parameters and an optional trailing **kwargs
                   (the only kinds in the repository; the translator refuses any other);
   - `ba_args` / `ba_kwargs` : the BoundArguments.args / .kwargs rule (maximal present prefix goes
                   positionally, everything present after the first absent parameter by keyword,
                   then the **kwargs dict);
   - `wrapper`   : the whole of `inner`;
   - `register_call` : the `inner(self, data=None, *args, **kwargs)` layer of _Algorithm._register
                   followed by `func(self, y, *args, **kwargs)`;
   - `sig_ok`    : the decidable condition on (functional signature, method signature) under which
                   the wrapper is transparent (C16/BindProofs.v);
   - `get_method`: Baseline._get_method / Baseline2D._get_method.
   Models only; no proofs here. *)
From Coq Require Import String Ascii List Bool ZArith.
From PB Require Import C16.SigTable.
Import ListNotations.
Open Scope string_scope.

Definition X : string := "x_data".

Definition names (ps : list param) : list string := map p_name ps.
Definition mems (n : string) (l : list string) : bool := existsb (String.eqb n) l.
Definition has_default (p : param) : bool := match p_dflt p with DReq => false | _ => true end.

Section Bind.
Context {V : Type}.

Definition kwargs := list (string * V).

Fixpoint lookup (n : string) (kw : kwargs) : option V :=
  match kw with
  | [] => None
  | (k, v) :: r => if String.eqb n k then Some v else lookup n r
  end.
Definition memk (n : string) (kw : kwargs) : bool :=
  match lookup n kw with Some _ => true | None => false end.
Definition keys (kw : kwargs) : list string := map fst kw.

(* positional arguments are given to the leading parameters, in order *)
Fixpoint lookup_pos (hd : list param) (pos : list V) (n : string) : option V :=
  match hd, pos with
  | p :: hd', v :: pos' => if String.eqb n (p_name p) then Some v else lookup_pos hd' pos' n
  | _, _ => None
  end.

(* BoundArguments.arguments without the **kwargs entry (a dict: partial map), and that entry *)
Record bound := { b_get : string -> option V; b_extra : kwargs }.

Definition bind (s : sig) (pos : list V) (kw : kwargs) : option bound :=
  let ps := s_params s in
  let np := length pos in
  let hd := firstn np ps in
  let tl := skipn np ps in
  if (Nat.leb np (length ps))                                            (* else: too many positional arguments *)
     && forallb (fun p => negb (memk (p_name p) kw)) hd                  (* else: multiple values for argument *)
     && forallb (fun p => has_default p || memk (p_name p) kw) tl        (* else: missing a required argument *)
     && (s_varkw s || forallb (fun kv => mems (fst kv) (names tl)) kw)   (* else: unexpected keyword argument *)
  then Some {| b_get := fun n => match lookup_pos hd pos n with
                                 | Some v => Some v
                                 | None => if mems n (names tl) then lookup n kw else None
                                 end;
               b_extra := filter (fun kv => negb (mems (fst kv) (names tl))) kw |}
  else None.

(* arguments.pop('x_data', None): the remaining dict *)
Definition pop_x (g : string -> option V) : string -> option V :=
  fun n => if String.eqb n X then None else g n.

(* BoundArguments.args *)
Fixpoint ba_args (ps : list param) (g : string -> option V) : list V :=
  match ps with
  | [] => []
  | p :: r => match g (p_name p) with Some v => v :: ba_args r g | None => [] end
  end.

(* BoundArguments.kwargs (without the **kwargs entry) *)
Fixpoint ba_kwargs (started : bool) (ps : list param) (g : string -> option V) : kwargs :=
  match ps with
  | [] => []
  | p :: r => match g (p_name p) with
              | Some v => if started then (p_name p, v) :: ba_kwargs true r g else ba_kwargs false r g
              | None => ba_kwargs true r g
              end
  end.

(* what `inner` of _class_wrapper does: TypeError from bind, or klass(x_data=x).method( *args, **kwargs);
   x = None is Python's None (x_data absent) *)
Inductive wres := WTypeError | WCall (x : option V) (margs : list V) (mkw : kwargs).

Definition wrapper (fs : sig) (pos : list V) (kw : kwargs) : wres :=
  match bind fs pos kw with
  | None => WTypeError
  | Some b => let g := pop_x (b_get b) in
              WCall (b_get b X) (ba_args (s_params fs) g) (ba_kwargs false (s_params fs) g ++ b_extra b)%list
  end.

(* _Algorithm._register: inner(self, data=None, *args, **kwargs) ... func(self, y, *args, **kwargs),
   y computed from data (yof None stands for the None that is passed on when data is None) *)
Definition remove_key (n : string) (kw : kwargs) : kwargs :=
  filter (fun kv => negb (String.eqb n (fst kv))) kw.

Definition register_call (yof : option V -> V) (ms : sig) (margs : list V) (mkw : kwargs) : option bound :=
  match margs with
  | v :: rest => if memk "data" mkw then None else bind ms (yof (Some v) :: rest) mkw
  | [] => bind ms [yof (lookup "data" mkw)] (remove_key "data" mkw)
  end.

(* the value a parameter finally has inside the callee *)
Inductive aval := Given (v : V) | Dflt (d : dflt).
Definition env_at (s : sig) (b : bound) (p : param) : aval :=
  match b_get b (p_name p) with Some v => Given v | None => Dflt (p_dflt p) end.

End Bind.

(* ------------------------------------------------------------------ the table condition *)
Definition dflt_eqb (a b : dflt) : bool :=
  match a, b with
  | DReq, DReq => true
  | DNone, DNone => true
  | DBool x, DBool y => Bool.eqb x y
  | DNum n d _, DNum n' d' _ => Z.eqb n n' && Pos.eqb d d'   (* Python ==: 1 and 1.0 are the same default *)
  | DStr s, DStr t => String.eqb s t
  | DOther s, DOther t => String.eqb s t
  | _, _ => false
  end.

(* the same, but also distinguishing int from float literals *)
Definition dflt_strict_eqb (a b : dflt) : bool :=
  match a, b with
  | DNum n d f, DNum n' d' f' => Z.eqb n n' && Pos.eqb d d' && Bool.eqb f f'
  | _, _ => dflt_eqb a b
  end.

Fixpoint nodupb (l : list string) : bool :=
  match l with [] => true | a :: r => negb (mems a r) && nodupb r end.

Fixpoint before (x : string) (l : list string) : list string :=
  match l with [] => [] | a :: r => if String.eqb a x then [] else a :: before x r end.

Fixpoint prefixb (a b : list string) : bool :=
  match a, b with
  | [], _ => true
  | x :: a', y :: b' => String.eqb x y && prefixb a' b'
  | _ :: _, [] => false
  end.

Fixpoint find_param (n : string) (ps : list param) : option param :=
  match ps with [] => None | p :: r => if String.eqb n (p_name p) then Some p else find_param n r end.

Definition sig_ok (fs ms : sig) : bool :=
  let F := s_params fs in
  let M := s_params ms in
  nodupb (names F) && nodupb (names M)
  && mems X (names F) && negb (mems X (names M))
  (* x_data is optional with default None, or required (interp_pts) *)
  && match find_param X F with
     | Some p => match p_dflt p with DNone | DReq => true | _ => false end
     | None => false
     end
  (* what can be forwarded positionally sits at the same position in the method *)
  && prefixb (before X (names F)) (names M)
  (* name for name, default for default *)
  && forallb (fun p => String.eqb (p_name p) X
                       || match find_param (p_name p) M with
                          | Some q => dflt_eqb (p_dflt p) (p_dflt q)
                          | None => false
                          end) F
  (* anything the method has in addition is optional *)
  && forallb (fun q => mems (p_name q) (names F) || has_default q) M
  (* extra keywords accepted by the function must reach the method's **kwargs untouched *)
  && (negb (s_varkw fs) || (s_varkw ms && forallb (fun q => mems (p_name q) (names F)) M)).

Definition entry_ok (e : entry) : bool :=
  match e_meth e with
  | Some ms => sig_ok (e_func e) ms
               && match s_params ms with p :: _ => String.eqb (p_name p) "data" | [] => false end
               && e_registered e
  | None => false
  end.

(* parameters whose defaults are ==-equal but differ in int/float type (reported, tested by the oracle) *)
Definition weak_defaults (e : entry) : list (string * string) :=
  match e_meth e with
  | Some ms => flat_map (fun p => match find_param (p_name p) (s_params ms) with
                                  | Some q => if dflt_eqb (p_dflt p) (p_dflt q) && negb (dflt_strict_eqb (p_dflt p) (p_dflt q))
                                              then [(e_name e, p_name p)] else []
                                  | None => []
                                  end) (s_params (e_func e))
  | None => []
  end.

Definition shapes_ok (cw : cw_shape) (g1 g2 : gm_shape) : bool :=
  match cw, g1, g2 with CwBindPopCall, GmLowerHasattrGetattr, GmLowerHasattrGetattr => true | _, _, _ => false end.

Definition sig_table_ok (t : list entry) : bool := negb (Nat.eqb (length t) 0) && forallb entry_ok t.

(* ------------------------------------------------------------------ _get_method *)
Definition lower_ascii (c : ascii) : ascii :=
  let n := nat_of_ascii c in
  if Nat.leb 65 n && Nat.leb n 90 then ascii_of_nat (n + 32) else c.
Fixpoint lower (s : string) : string :=
  match s with EmptyString => EmptyString | String c r => String (lower_ascii c) (lower r) end.

(* method_string = baseline_method.lower(); getattr(self, method_string) if hasattr else AttributeError;
   `attrs` are the attribute names of the object *)
Definition get_method (attrs : list string) (s : string) : option string :=
  if mems (lower s) attrs then Some (lower s) else None.

Definition names_lower_ok (l : list string) : bool := forallb (fun n => String.eqb (lower n) n) l.
