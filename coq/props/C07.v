(* Property C07 -- penalized-spline baselines solve the documented P-spline system.
   Only the property theorems; each is closed by an exact lemma of C07/Proofs.v.

   Reading guide.  [O : ops] is ANY commutative ring (ring_theory with Leibniz equality) with an embedding
   ofZ of the integer penalty bands and a sound zero test; M = number of basis functions, k = spline degree,
   d = diff_order, n = number of data points, B = the design matrix as a function, assumed only to have the
   B-spline support shape (row i vanishes outside the k+1 columns left_i - k .. left_i; the B-spline facts
   themselves are property C12).  numba = the _numba_btb_bty path (true) or the scipy.sparse fallback path
   (false); al = allow_lower (lower bands + solveh_banded, or full bands + solve_banded).
   pass_ok A rhs al c  :=  the call c that reaches PenalizedSystem.solve uses the layout al, is well formed
   for the library entry point, DENOTES the matrix A (entry by entry, under that entry point's storage
   convention) and has right-hand side rhs. *)
From Coq Require Import ZArith List Bool Lia ZifyBool Ring.
From PB Require Import lib.SumZ lib.PySlice lib.Arr lib.Loop C11.DtD C11.Table gen.GenBands C11.Banded C07.Model C07.Proofs C07.Extra.
Import ListNotations.
Open Scope Z_scope.

(* pspline_asls / airpls / arpls / iarpls / psalsa / derpsalsa / mpls / brpls / lsrpls / mixture_model / irsqr,
   utils.pspline_smooth: at EVERY pass (whatever weights are in force) the solver receives
   (B'WB + lam D'D, B'Wy); in particular PSpline.__init__'s padding and both _add_diagonals never raise. *)
Theorem C07_asls_system : forall O0 : ops,
  ring_theory (zero O0) (one O0) (add O0) (mul O0) (sub O0) (opp O0) eq ->
  (forall x : T O0, is0 O0 x = true -> x = zero O0) ->
  ofZ O0 0 = zero O0 ->
  forall (M : nat) (k : Z) (n : nat) (B : Z -> Z -> T O0) (left : Z -> Z),
  0 <= k ->
  (forall i c : Z, 0 <= i < Z.of_nat n -> c < left i - k \/ left i < c -> B i c = zero O0) ->
  forall (numba : bool) (lam : T O0) (d : nat) (al : bool) (y : Z -> T O0) (wl : list (Z -> T O0)),
  (1 <= d < M)%nat ->
  exists cs : list (call O0),
    asls O0 numba k M lam d al n B y wl = Some cs /\
    Forall2 (fun (w : Z -> T O0) (c : call O0) =>
               pass_ok O0 M (doc_asls O0 M d lam n B w) (bty O0 n B w y) al c) wl cs.
Proof. exact asls_system. Qed.
Print Assumptions C07_asls_system.

(* _add_diagonals aligns the main diagonals for EVERY pair of bandwidths (the padding parity condition
   of the full layout always holds: both operands have an odd number of rows), never raises, and the sum
   denotes the sum of the two matrices. *)
Theorem C07_add_diagonals_aligned : forall O : ops,
  ring_theory (zero O) (one O) (add O) (mul O) (sub O) (opp O) eq ->
  forall (M : nat) (lower : bool) (a b : tarr O) (ua ub : Z) (A Bq : Z -> Z -> T O),
  Rep O M lower a ua A -> Rep O M lower b ub Bq ->
  exists s : tarr O,
    add_diagonals O a b lower = Some s /\ Rep O M lower s (Z.max ua ub) (fun i j : Z => add O (A i j) (Bq i j)).
Proof. exact add_rep. Qed.
Print Assumptions C07_add_diagonals_aligned.

(* PSpline.__init__ / reset_penalty_diagonals: for every degree and diff_order the padded penalty is
   lam D'D stored with bandwidth max(degree, diff_order) (negative padding = none), in LAPACK layout
   (reverse_diags=False) or row-aligned layout (reverse_diags=True, full bands). *)
Theorem C07_init_penalty : forall O0 : ops,
  ring_theory (zero O0) (one O0) (add O0) (mul O0) (sub O0) (opp O0) eq ->
  (forall x : T O0, is0 O0 x = true -> x = zero O0) ->
  ofZ O0 0 = zero O0 ->
  forall (M : nat) (k : Z) (lam : T O0) (d : nat) (al rev : bool),
  (1 <= d < M)%nat -> 0 <= k ->
  exists s : ps O0,
    pspline_init O0 k M lam d al rev = Some s /\
    p_k s = k /\ p_M s = M /\ p_lower s = al /\ p_rev s = rev /\ p_nb s = Z.max k (Z.of_nat d) /\
    (rev = false -> Rep O0 M al (p_pen s) (Z.max k (Z.of_nat d)) (Pq O0 M d lam)) /\
    (rev = true -> al = false -> RowRep O0 M (p_pen s) (Z.max k (Z.of_nat d)) (Pq O0 M d lam)).
Proof. exact init_spec. Qed.
Print Assumptions C07_init_penalty.

(* solve_pspline with ANY penalty argument / rhs_extra, both assembly paths *)
Theorem C07_solve_pspline : forall O : ops,
  ring_theory (zero O) (one O) (add O) (mul O) (sub O) (opp O) eq ->
  (forall x : T O, is0 O x = true -> x = zero O) ->
  forall (M : nat) (k : Z) (n : nat) (B : Z -> Z -> T O) (left : Z -> Z),
  0 <= k ->
  (forall i c : Z, 0 <= i < Z.of_nat n -> c < left i - k \/ left i < c -> B i c = zero O) ->
  forall (s : ps O) (numba : bool) (w y : Z -> T O) (penalty : option (tarr O)) (rhs_extra : option (Z -> T O))
    (pen : tarr O) (uq : Z) (Q : Z -> Z -> T O),
  p_M s = M -> p_k s = k ->
  pen = match penalty with Some p => p | None => p_pen s end ->
  Rep O M (p_lower s) pen uq Q ->
  exists c : call O,
    solve_pspline O s numba n B w y penalty rhs_extra = Some c /\
    k_lower c = p_lower s /\
    call_wf O (Z.of_nat M) c = true /\
    (forall i j : Z, inR M i -> inR M j -> den O c i j = add O (btwb O n B w i j) (Q i j)) /\
    (forall r : Z, k_rhs c r = match rhs_extra with
                               | Some e => add O (bty O n B w y r) (e r)
                               | None => bty O n B w y r
                               end).
Proof. exact solve_pspline_spec. Qed.
Print Assumptions C07_solve_pspline.

(* pspline_iasls: (B'W'WB + lam D'D + lam_1 B'D1'D1B, B'W'Wy + lam_1 B'D1'D1y), whatever bandwidth the
   sparse product B'D1'D1B turns out to have *)
Theorem C07_iasls_system : forall O0 : ops,
  ring_theory (zero O0) (one O0) (add O0) (mul O0) (sub O0) (opp O0) eq ->
  (forall x : T O0, is0 O0 x = true -> x = zero O0) ->
  ofZ O0 0 = zero O0 ->
  forall (M : nat) (k : Z) (n : nat) (B : Z -> Z -> T O0) (left : Z -> Z),
  0 <= k ->
  (forall i c : Z, 0 <= i < Z.of_nat n -> c < left i - k \/ left i < c -> B i c = zero O0) ->
  forall (numba : bool) (lam lam1 : T O0) (d : nat) (al : bool) (y : Z -> T O0) (wl : list (Z -> T O0)),
  (2 <= d < M)%nat ->
  exists cs : list (call O0),
    iasls O0 numba k M lam lam1 d al n B y wl = Some cs /\
    Forall2 (fun (w : Z -> T O0) (c : call O0) =>
               pass_ok O0 M (doc_iasls O0 M d lam lam1 n B w) (doc_iasls_rhs O0 lam1 n B w y) al c) wl cs.
Proof. exact iasls_system. Qed.
Print Assumptions C07_iasls_system.

(* pspline_drpls: B'WB + D1'D1 + lam (I - eta W_interp) D'D  (reversed bands, row scaling, _shift_rows),
   for any interpolated weights of the right length (C07_basis_midpoints_len) *)
Theorem C07_drpls_system : forall O0 : ops,
  ring_theory (zero O0) (one O0) (add O0) (mul O0) (sub O0) (opp O0) eq ->
  (forall x : T O0, is0 O0 x = true -> x = zero O0) ->
  ofZ O0 0 = zero O0 ->
  forall (M : nat) (k : Z) (n : nat) (B : Z -> Z -> T O0) (left : Z -> Z),
  0 <= k ->
  (forall i c : Z, 0 <= i < Z.of_nat n -> c < left i - k \/ left i < c -> B i c = zero O0) ->
  forall (numba : bool) (lam eta : T O0) (d : nat) (y : Z -> T O0) (wl : list ((Z -> T O0) * list (T O0))),
  (2 <= d < M)%nat ->
  Forall (fun wp : (Z -> T O0) * list (T O0) => length (snd wp) = M) wl ->
  exists cs : list (call O0),
    drpls O0 numba k M lam eta d n B y wl = Some cs /\
    Forall2 (fun (wp : (Z -> T O0) * list (T O0)) (c : call O0) =>
               pass_ok O0 M (doc_drpls O0 M d lam eta n B (fst wp) (vec_of O0 (snd wp)))
                       (bty O0 n B (fst wp) y) false c) wl cs.
Proof. exact drpls_system. Qed.
Print Assumptions C07_drpls_system.

Theorem C07_drpls_documented_form : forall O0 : ops,
  ring_theory (zero O0) (one O0) (add O0) (mul O0) (sub O0) (opp O0) eq ->
  forall (M n : nat) (B : Z -> Z -> T O0) (lam eta : T O0) (d : nat) (w wi : Z -> T O0) (i j : Z),
  doc_drpls O0 M d lam eta n B w wi i j =
  add O0 (btwb O0 n B w i j)
    (add O0 (ofZ O0 (DtD 1 M i j)) (mul O0 (mul O0 lam (sub O0 (one O0) (mul O0 eta (wi i)))) (ofZ O0 (DtD d M i j)))).
Proof. exact doc_drpls_form. Qed.
Print Assumptions C07_drpls_documented_form.

(* pspline_aspls: B'WB + lam diag(alpha_interp) D'D *)
Theorem C07_aspls_system : forall O0 : ops,
  ring_theory (zero O0) (one O0) (add O0) (mul O0) (sub O0) (opp O0) eq ->
  (forall x : T O0, is0 O0 x = true -> x = zero O0) ->
  ofZ O0 0 = zero O0 ->
  forall (M : nat) (k : Z) (n : nat) (B : Z -> Z -> T O0) (left : Z -> Z),
  0 <= k ->
  (forall i c : Z, 0 <= i < Z.of_nat n -> c < left i - k \/ left i < c -> B i c = zero O0) ->
  forall (numba : bool) (lam : T O0) (d : nat) (y : Z -> T O0) (wal : list ((Z -> T O0) * list (T O0))),
  (1 <= d < M)%nat ->
  Forall (fun wa : (Z -> T O0) * list (T O0) => length (snd wa) = M) wal ->
  exists cs : list (call O0),
    aspls O0 numba k M lam d n B y wal = Some cs /\
    Forall2 (fun (wa : (Z -> T O0) * list (T O0)) (c : call O0) =>
               pass_ok O0 M (doc_aspls O0 M d lam n B (fst wa) (vec_of O0 (snd wa)))
                       (bty O0 n B (fst wa) y) false c) wal cs.
Proof. exact aspls_system. Qed.
Print Assumptions C07_aspls_system.

(* mpspline: the smoothing solve and, after the penalty is rescaled by lam / lam_smooth, the baseline solve *)
Theorem C07_mpspline_system : forall O0 : ops,
  ring_theory (zero O0) (one O0) (add O0) (mul O0) (sub O0) (opp O0) eq ->
  (forall x : T O0, is0 O0 x = true -> x = zero O0) ->
  ofZ O0 0 = zero O0 ->
  forall (M : nat) (k : Z) (n : nat) (B : Z -> Z -> T O0) (left : Z -> Z),
  0 <= k ->
  (forall i c : Z, 0 <= i < Z.of_nat n -> c < left i - k \/ left i < c -> B i c = zero O0) ->
  forall (numba : bool) (lam_smooth ratio : T O0) (d : nat) (al : bool) (y w0 fit w1 : Z -> T O0),
  (1 <= d < M)%nat ->
  exists c0 c1 : call O0,
    mpspline O0 numba k M lam_smooth ratio d al n B y w0 fit w1 = Some (c0, c1) /\
    pass_ok O0 M (doc_asls O0 M d lam_smooth n B w0) (bty O0 n B w0 y) al c0 /\
    pass_ok O0 M (fun i j : Z => add O0 (btwb O0 n B w1 i j) (mul O0 ratio (Pm O0 M d lam_smooth i j)))
            (bty O0 n B w1 fit) al c1.
Proof. exact mpspline_system. Qed.
Print Assumptions C07_mpspline_system.

(* _basis_midpoints returns exactly num_bases = num_knots + degree - 1 points, for both degree parities *)
Theorem C07_basis_midpoints_len : forall (O : ops) (half : T O) (knots : list (T O)) (k nk : Z),
  0 <= k -> 2 <= nk -> Z.of_nat (length knots) = nk + 2 * k ->
  Z.of_nat (length (basis_midpoints O half knots k)) = nk + k - 1.
Proof. exact basis_midpoints_len. Qed.
Print Assumptions C07_basis_midpoints_len.

(* and for odd degree point j is the knot in the middle of the support of basis function j *)
Theorem C07_basis_midpoints_odd : forall (O : ops) (half : T O) (knots : list (T O)) (k nk : Z) (j : nat) (dflt : T O),
  0 <= k -> k mod 2 = 1 -> 2 <= nk -> Z.of_nat (length knots) = nk + 2 * k -> Z.of_nat j < nk + k - 1 ->
  nth j (basis_midpoints O half knots k) dflt = nth (j + Z.to_nat ((k + 1) / 2)) knots dflt.
Proof. exact basis_midpoints_odd. Qed.
Print Assumptions C07_basis_midpoints_odd.

(* ... and for even degree it is the mean of the two knots around the centre of the support (0.5 * (knots[1:] + knots[:-1])
   sliced): together with C07_basis_midpoints_odd, point j is the midpoint of [t_j, t_{j+k+1}] on equally spaced knots *)
Theorem C07_basis_midpoints_even : forall (O : ops) (half : T O) (knots : list (T O)) (k nk : Z) (j : nat) (dflt : T O),
  0 <= k -> k mod 2 = 0 -> 2 <= nk -> Z.of_nat (length knots) = nk + 2 * k -> Z.of_nat j < nk + k - 1 ->
  nth j (basis_midpoints O half knots k) dflt
  = mul O half (add O (nth (j + Z.to_nat (k / 2) + 1) knots dflt) (nth (j + Z.to_nat (k / 2)) knots dflt)).
Proof. exact basis_midpoints_even. Qed.
Print Assumptions C07_basis_midpoints_even.

(* the systems of the methods that may use the LOWER layout (solveh_banded reads the lower bands only and assumes
   symmetry) are symmetric, so the symmetric completion in [den] is the matrix itself; drpls / aspls scale rows and
   are not symmetric -- the model (and the code) force the full layout there (al = false in their theorems) *)
Theorem C07_lower_systems_symmetric : forall O : ops,
  ring_theory (zero O) (one O) (add O) (mul O) (sub O) (opp O) eq ->
  forall (M d : nat) (lam lam1 : T O) (n : nat) (B : Z -> Z -> T O) (w : Z -> T O) (i j : Z),
  doc_asls O M d lam n B w i j = doc_asls O M d lam n B w j i /\
  doc_iasls O M d lam lam1 n B w i j = doc_iasls O M d lam lam1 n B w j i.
Proof. intros O Rth M d lam lam1 n B w i j. exact (conj (doc_asls_sym O Rth M d lam n B w i j) (doc_iasls_sym O Rth M d lam lam1 n B w i j)). Qed.
Print Assumptions C07_lower_systems_symmetric.

(* C07_Bc: with the banded solver as a library satisfying  den(lhs) * solve(lhs, rhs) = rhs,  the coefficients
   of any pass solve the documented system (the returned spline is  baseline := B c  by definition) *)
Theorem C07_Bc : forall (O : ops) (M : nat) (k : Z) (n : nat) (B : Z -> Z -> T O) (left : Z -> Z),
  (forall i c : Z, 0 <= i < Z.of_nat n -> c < left i - k \/ left i < c -> B i c = zero O) ->
  forall solve : call O -> Z -> T O,
  (forall c : call O,
   call_wf O (Z.of_nat M) c = true -> forall r : Z, inR M r -> matvec O M (den O c) (solve c) r = k_rhs c r) ->
  forall (A : Z -> Z -> T O) (rhs : Z -> T O) (al : bool) (c : call O),
  pass_ok O M A rhs al c -> forall r : Z, inR M r -> matvec O M A (solve c) r = rhs r.
Proof. exact coef_solves. Qed.
Print Assumptions C07_Bc.

(* the returned (baseline, weights) of the reweighting loop (lib/Loop.v skeleton), any reweighting rule *)
Theorem C07_returned_pair : forall O0 : ops,
  ring_theory (zero O0) (one O0) (add O0) (mul O0) (sub O0) (opp O0) eq ->
  (forall x : T O0, is0 O0 x = true -> x = zero O0) ->
  ofZ O0 0 = zero O0 ->
  forall (M : nat) (k : Z) (n : nat) (B : Z -> Z -> T O0) (left : Z -> Z),
  0 <= k ->
  (forall i c : Z, 0 <= i < Z.of_nat n -> c < left i - k \/ left i < c -> B i c = zero O0) ->
  forall solve : call O0 -> Z -> T O0,
  (forall c : call O0,
   call_wf O0 (Z.of_nat M) c = true -> forall r : Z, inR M r -> matvec O0 M (den O0 c) (solve c) r = k_rhs c r) ->
  forall (D : Type) (reweight : nat -> (Z -> T O0) -> (Z -> T O0) -> (Z -> T O0) * bool)
    (diff : nat -> (Z -> T O0) -> (Z -> T O0) -> (Z -> T O0) -> D) (below : D -> bool) (numba : bool)
    (lam : T O0) (d : nat) (al : bool) (y : Z -> T O0) (s : ps O0) (w0 : Z -> T O0) (budget : nat)
    (r : result (Z -> T O0) (Z -> T O0) D),
  (1 <= d < M)%nat ->
  pspline_init O0 k M lam d al false = Some s ->
  loop (Z -> T O0) (Z -> T O0) D (fun (_ : nat) (w : Z -> T O0) => pspline_pass O0 M n B solve s numba y w)
       reweight diff below budget w0 = Some r ->
  match r_reason r with
  | Exhausted =>
      exists (wprev : Z -> T O0) (c : call O0),
        solve_pspline O0 s numba n B wprev y None None = Some c /\
        pass_ok O0 M (doc_asls O0 M d lam n B wprev) (bty O0 n B wprev y) al c /\
        r_base r = baseline O0 M B (solve c) /\ r_state r = fst (reweight (budget - 1)%nat (r_base r) wprev)
  | _ =>
      exists c : call O0,
        solve_pspline O0 s numba n B (r_state r) y None None = Some c /\
        pass_ok O0 M (doc_asls O0 M d lam n B (r_state r)) (bty O0 n B (r_state r) y) al c /\
        r_base r = baseline O0 M B (solve c) /\
        (forall row : Z, inR M row ->
           matvec O0 M (doc_asls O0 M d lam n B (r_state r)) (solve c) row = bty O0 n B (r_state r) y row)
  end.
Proof. exact returned_pair. Qed.
Print Assumptions C07_returned_pair.

(* ---- non-vacuity: the integers satisfy the ring hypotheses; a degree-1 basis on 4 functions satisfies the
   support hypothesis and the model produces, for diff_order 2 > degree (negative padding) in full layout on
   the fallback path, exactly the documented matrix ---- *)
Example C07_ring_nonvacuous :
  ring_theory (zero ops_Z) (one ops_Z) (add ops_Z) (mul ops_Z) (sub ops_Z) (opp ops_Z) eq /\
  (forall x : T ops_Z, is0 ops_Z x = true -> x = zero ops_Z) /\ ofZ ops_Z 0 = zero ops_Z.
Proof. split; [exact InitialRing.Zth|]. split; [intros x H; apply Z.eqb_eq; exact H|reflexivity]. Qed.

Example C07_support_nonvacuous :
  let left := fun i => Z.min 3 (i + 1) in
  let B := fun i c => if (left i - 1 <=? c) && (c <=? left i) then i + c + 1 else 0 in
  (forall i c : Z, 0 <= i < 5 -> c < left i - 1 \/ left i < c -> B i c = 0) /\
  match asls ops_Z false 1 4 2 2 false 5 B (fun i => i + 1) [fun i => i mod 2 + 1] with
  | Some [c] => dense ops_Z 4 (den ops_Z c)
                = dense ops_Z 4 (doc_asls ops_Z 4 2 2 5 B (fun i => i mod 2 + 1)) /\ tr (k_lhs c) = 5
  | _ => False
  end.
Proof.
  split.
  - intros i c Hi Hc. cbv zeta.
    destruct ((Z.min 3 (i + 1) - 1 <=? c) && (c <=? Z.min 3 (i + 1))) eqn:E; [lia|reflexivity].
  - vm_compute. split; reflexivity.
Qed.
