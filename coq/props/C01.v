(* Property C01 -- every call returns a well-formed (baseline, params) pair or raises.
   Theorems: the loop skeleton (record length, last-entry rule, returned pair) for ALL budgets and
   ALL oracles, and the shape decisions of the wrappers for ALL shapes. *)
From Coq Require Import ZArith List Bool Lia.
From PB Require Import lib.Loop lib.LoopProofs C01.Wrapper C01.Proofs C01.PyLoop C01.PyLoopProofs gen.GenLoops.
Import ListNotations.

(* the loop is exactly: stop at the first pass that exits early or records a value below tol, else
   run the whole budget (functional specification in terms of the free-running sequences) *)
Theorem C01_loop_spec : forall (W B D : Type) (solve : nat -> W -> B) (reweight : nat -> B -> W -> W * bool)
    (diff : nat -> W -> W -> B -> D) (below : D -> bool) (w0 : W) (budget : nat),
  loop W B D solve reweight diff below budget w0 = spec W B D solve reweight diff below w0 budget.
Proof. exact loop_spec. Qed.
Print Assumptions C01_loop_spec.

(* at most `budget` (= max_iter + 1, or max_iter for the polynomial loops) entries; ends below tol on
   convergence with no earlier entry below tol; full length on exhaustion; shorter on early exit *)
Theorem C01_history_len_last : forall (W B D : Type) (solve : nat -> W -> B) (reweight : nat -> B -> W -> W * bool)
    (diff : nat -> W -> W -> B -> D) (below : D -> bool) (w0 : W) (budget : nat) (r : result W B D),
  loop W B D solve reweight diff below budget w0 = Some r ->
  (length (r_hist r) <= budget)%nat /\
  match r_reason r with
  | Converged => exists h d, r_hist r = h ++ [d] /\ below d = true /\ Forall (fun x => below x = false) h
  | Exhausted => length (r_hist r) = budget /\ Forall (fun x => below x = false) (r_hist r)
  | EarlyExit => (length (r_hist r) < budget)%nat /\ Forall (fun x => below x = false) (r_hist r)
  end.
Proof. exact loop_record. Qed.
Print Assumptions C01_history_len_last.

Theorem C01_returned_pair : forall (W B D : Type) (solve : nat -> W -> B) (reweight : nat -> B -> W -> W * bool)
    (diff : nat -> W -> W -> B -> D) (below : D -> bool) (w0 : W) (budget : nat) (r : result W B D),
  loop W B D solve reweight diff below budget w0 = Some r ->
  match r_reason r with
  | Converged | EarlyExit => exists k, (k < budget)%nat /\ r_base r = solve k (r_state r)
  | Exhausted => exists wprev, r_base r = solve (budget - 1)%nat wprev /\
                               r_state r = fst (reweight (budget - 1)%nat (r_base r) wprev)
  end.
Proof. exact loop_returned_pair. Qed.
Print Assumptions C01_returned_pair.

(* an empty iteration range is an error (UnboundLocalError in Python), never a default result *)
Theorem C01_empty_budget : forall (W B D : Type) solve reweight diff below (w0 : W),
  loop W B D solve reweight diff below 0%nat w0 = None.
Proof. reflexivity. Qed.
Print Assumptions C01_empty_budget.

(* ---- the loops as they are written in the source (coq/gen/GenLoops.v is regenerated from /repo by
   tools/gen_loops.py on every run): range bounds, np.empty size, store index, prefix slice, early-exit
   block of all 58 single-loop iterative methods satisfy the syntactic conditions ... *)
Theorem C01_source_loops_checked :
  forallb (fun p => loop_ok (snd p) && bound_ok (snd p)) loops = true /\ nested_loops = expected_nested.
Proof. vm_compute. split; reflexivity. Qed.
Print Assumptions C01_source_loops_checked.

(* ... under which the Python loop (np.empty record, offset stores with NumPy index semantics, clamped
   prefix slice, `i -= 1` on early exit) IS the skeleton with budget = max_iter + l_stop - l_start: for
   EVERY max_iter and EVERY oracle, the returned (baseline, weights, tol_history, reason) coincide, no
   store is out of bounds and no unwritten np.empty entry is returned. *)
Theorem C01_source_loop_is_skeleton : forall (l : ldesc), loop_ok l = true ->
  forall (W B D : Type) (solve : nat -> W -> B) (reweight : nat -> B -> W -> W * bool)
         (diff : nat -> W -> W -> B -> D) (below : D -> bool) (max_iter : Z) (w0 : W),
  (l_early l = false -> forall k b w, snd (reweight k b w) = false) ->
  pyloop W B D solve reweight diff below l max_iter w0 =
  match loop W B D solve reweight diff below (budget l max_iter) w0 with
  | None => None
  | Some r => Some (r_base r, r_state r, map Some (r_hist r), r_reason r)
  end.
Proof. intros l Hok W B D solve reweight diff below m w0 He. exact (pyloop_refines W B D solve reweight diff below l m Hok He w0). Qed.
Print Assumptions C01_source_loop_is_skeleton.

(* hence, for every method in the generated table: at most max_iter + 1 entries, all of them written *)
Theorem C01_source_record_bound : forall name l, In (name, l) loops ->
  forall (W B D : Type) (solve : nat -> W -> B) (reweight : nat -> B -> W -> W * bool)
         (diff : nat -> W -> W -> B -> D) (below : D -> bool) (max_iter : Z) (w0 : W) b w hist rsn,
  (l_early l = false -> forall k b w, snd (reweight k b w) = false) ->
  (0 <= max_iter + 1)%Z ->
  pyloop W B D solve reweight diff below l max_iter w0 = Some (b, w, hist, rsn) ->
  (Z.of_nat (length hist) <= max_iter + 1)%Z /\ Forall (fun e => e <> None) hist.
Proof.
  intros name l Hin W B D solve reweight diff below m w0 b w hist rsn He Hm Hp.
  destruct C01_source_loops_checked as [Hall _].
  rewrite forallb_forall in Hall. specialize (Hall _ Hin). cbn [snd] in Hall.
  apply andb_prop in Hall. destruct Hall as [Hok Hb].
  exact (pyloop_at_most_max_iter_plus_1 W B D solve reweight diff below l m Hok He w0 b w hist rsn Hb Hm Hp).
Qed.
Print Assumptions C01_source_record_bound.

(* an empty range (max_iter too small) raises (UnboundLocalError), it never returns a default *)
Theorem C01_source_empty_range : forall (l : ldesc) (W B D : Type) solve reweight diff below (max_iter : Z) (w0 : W),
  (max_iter + l_stop l - l_start l <= 0)%Z ->
  pyloop W B D solve reweight diff below l max_iter w0 = None.
Proof. intros l W B D solve reweight diff below m w0 H. exact (pyloop_empty_range W B D solve reweight diff below l m w0 H). Qed.
Print Assumptions C01_source_empty_range.

From Coq Require Import String.
Example C01_source_loops_nonvacuous :
  In ("whittaker.airpls"%string, {| l_start := 1; l_stop := 2; l_alloc := 1; l_store := -1; l_slice := 0; l_early := true; l_decr := 1 |}) loops
  /\ pyloop nat nat nat (fun i w => (w + i)%nat) (fun i b w => (b, false)) (fun i w w' b => (10 - i)%nat) (fun d => Nat.ltb d 9)
        {| l_start := 1; l_stop := 2; l_alloc := 1; l_store := -1; l_slice := 0; l_early := true; l_decr := 1 |} 4%Z 0%nat
      = Some (3, 1, [Some 10; Some 9; Some 8], Converged)%nat.
Proof. split; [unfold loops; repeat (try (left; reflexivity); right) | vm_compute; reflexivity]. Qed.

Open Scope Z_scope.
(* 1-D wrapper: accepted shapes are exactly (N,), (N,1), (1,N) and all come back as (N,) *)
Theorem C01_shape_1d : forall s s', check_array_1d s = Ok s' ->
  exists n, s' = [n] /\ (s = [n] \/ s = [n; 1] \/ s = [1; n]).
Proof. exact shape_1d. Qed.
Print Assumptions C01_shape_1d.

Theorem C01_shape_1d_sized : forall s len s', sized_1d s len = Ok s' -> s' = [len].
Proof. exact sized_1d_ok. Qed.
Print Assumptions C01_shape_1d_sized.

Theorem C01_shape_2d : forall s s', check_array_2d s = Ok s' ->
  (exists m n, s = [m; n] /\ s' = [m; n] /\ m <> 1 /\ n <> 1) \/
  (exists a b c, s = [a; b; c] /\ s' = filter (fun d => negb (d =? 1)) s /\ (a = 1 \/ b = 1 \/ c = 1)).
Proof. exact shape_2d. Qed.
Print Assumptions C01_shape_2d.

Example C01_shape_nonvacuous :
  check_array_1d [7; 1] = Ok [7] /\ check_array_2d [4; 1; 6] = Ok [4; 6] /\ check_array_2d [1; 5] = ValueErr.
Proof. vm_compute. repeat split. Qed.

Close Scope Z_scope.
(* a run that converges at pass 2 out of a budget of 5: premises are satisfiable *)
Example C01_loop_nonvacuous :
  match loop nat nat nat (fun i w => (w + i)%nat) (fun i b w => (b, false)) (fun i w w' b => (10 - i)%nat)
             (fun d => Nat.ltb d 9) 5%nat 0%nat with
  | Some r => r_reason r = Converged /\ r_hist r = [10; 9; 8]%nat
  | None => False
  end.
Proof. vm_compute. split; reflexivity. Qed.

(* ---- ordering of the outputs: the axis values Baseline2D.individual_axes hands to the inner 1-D
   fitters (C01/AxisOrder.v; tied to the source by the recorded-constructor correspondence of
   harness/c01.py on every run).  The 2-D object stores x_user[sort_order]; the data are NOT sorted
   (skip_sorting=True), so the caller's axis values have to be rebuilt. *)
From PB Require Import lib.Perm lib.PermProofs C01.AxisOrder C01.AxisOrderProofs.

(* stored[inverted_order] is the caller's array: every permutation, every array (ties allowed) *)
Theorem C01_rebuild_inverted_is_user : forall (A : Type) (d : A) (x : list A) (s : list nat) (n : nat),
  is_perm s n -> List.length x = n -> gather d (gather d x s) (inverted_sort s) = x.
Proof. exact @rebuild_inverted_is_user. Qed.
Print Assumptions C01_rebuild_inverted_is_user.

(* the model of individual_axes (three branches of the source + _determine_sorts + the stable argsort)
   hands the caller's x and z to the inner fitters, for ALL axis values of any length *)
Theorem C01_individual_axes_values_user : forall (x z : list Z), exists b, individual_axes_values x z = (x, z, b).
Proof. exact individual_axes_values_user. Qed.
Print Assumptions C01_individual_axes_values_user.

(* assume_sorted=True reaches the inner fitters only if both axes are sorted *)
Theorem C01_individual_axes_assume_sorted : forall (x z : list Z),
  snd (individual_axes_values x z) = true -> argsort x = seq 0 (List.length x) /\ argsort z = seq 0 (List.length z).
Proof. exact individual_axes_assume_sorted. Qed.
Print Assumptions C01_individual_axes_assume_sorted.

(* so the inner fitters sort the user-ordered rows / columns by the sorting permutation of the axis *)
Theorem C01_inner_order : forall (x z : list Z),
  inner_sort_order (fst (fst (individual_axes_values x z))) = argsort x /\
  inner_sort_order (snd (fst (individual_axes_values x z))) = argsort z.
Proof. exact inner_order_inverted. Qed.
Print Assumptions C01_inner_order.

(* indexing the stored values with the FORWARD order instead is right exactly when the sorting
   permutation is its own inverse (sorted or fully reversed axes ...), for distinct values *)
Theorem C01_rebuild_forward_iff_involution : forall (A : Type) (d : A) (x : list A) (s : list nat) (n : nat),
  NoDup x -> is_perm s n -> List.length x = n ->
  (gather d (gather d x s) s = x <-> gather 0%nat s s = seq 0 n).
Proof. exact @rebuild_forward_iff_involution. Qed.
Print Assumptions C01_rebuild_forward_iff_involution.

(* ... and then the inner fitter sorts the user-ordered data by inverted_order instead of sort_order *)
Theorem C01_inner_order_forward : forall (x : list Z), NoDup x ->
  inner_sort_order (gather 0%Z (gather 0%Z x (argsort x)) (argsort x)) = inverted_sort (argsort x).
Proof. exact inner_order_forward. Qed.
Print Assumptions C01_inner_order_forward.

(* witness: an axis rotated by one position; forward indexing hands [3;1;2] to the inner fitter *)
Example C01_forward_rebuild_refuted : exists x z : list Z,
  NoDup x /\ fst (fst (individual_axes_values_forward x z)) <> x /\ fst (fst (individual_axes_values x z)) = x.
Proof.
  exists [2; 3; 1]%Z, [1; 2]%Z. destruct forward_differs_example as [-> ->]. cbn [fst].
  split; [|split; [discriminate|reflexivity]].
  repeat constructor; cbn [In]; intros H; repeat (destruct H as [H|H]; [discriminate|]); exact H.
Qed.
Print Assumptions C01_forward_rebuild_refuted.

(* the hypotheses are satisfiable: a rotation is a permutation that is not an involution *)
Example C01_axis_order_nonvacuous :
  is_perm [2; 0; 1]%nat 3 /\ gather 0%nat [2; 0; 1]%nat [2; 0; 1]%nat <> seq 0 3 /\ argsort [2; 3; 1]%Z = [2; 0; 1]%nat.
Proof.
  split; [|split; [vm_compute; discriminate|vm_compute; reflexivity]].
  unfold is_perm. cbn [seq]. apply Permutation.Permutation_sym.
  apply Permutation.perm_trans with [0; 2; 1]%nat; [apply Permutation.perm_skip, Permutation.perm_swap|].
  apply Permutation.perm_trans with [2; 0; 1]%nat; [apply Permutation.perm_swap|apply Permutation.Permutation_refl].
Qed.
