(* Property C01 -- every call returns a well-formed (baseline, params) pair or raises.
   Theorems: the loop skeleton (record length, last-entry rule, returned pair) for ALL budgets and
   ALL oracles, and the shape decisions of the wrappers for ALL shapes. *)
From Coq Require Import ZArith List Bool Lia.
From PB Require Import lib.Loop lib.LoopProofs C01.Wrapper C01.Proofs C01.PyLoop C01.PyLoopProofs gen.GenLoops.
Import ListNotations.

(* the loop is exactly: stop at the first pass that exits early or records a value below tol, else
   run the whole budget (functional specification in terms of the free-running sequences) *)
Theorem C01_loop_spec : forall (W B D : Type) (solve : nat -> W -> B) (reweight : nat -> B -> W -> W * bool)
    (diff : nat -> W -> W -> B -> D) (below : D -> bool) (w0 : W) (budget : nat),
  loop W B D solve reweight diff below budget w0 = spec W B D solve reweight diff below w0 budget.
Proof. exact loop_spec. Qed.
Print Assumptions C01_loop_spec.

(* at most `budget` (= max_iter + 1, or max_iter for the polynomial loops) entries; ends below tol on
   convergence with no earlier entry below tol; full length on exhaustion; shorter on early exit *)
Theorem C01_history_len_last : forall (W B D : Type) (solve : nat -> W -> B) (reweight : nat -> B -> W -> W * bool)
    (diff : nat -> W -> W -> B -> D) (below : D -> bool) (w0 : W) (budget : nat) (r : result W B D),
  loop W B D solve reweight diff below budget w0 = Some r ->
  (length (r_hist r) <= budget)%nat /\
  match r_reason r with
  | Converged => exists h d, r_hist r = h ++ [d] /\ below d = true /\ Forall (fun x => below x = false) h
  | Exhausted => length (r_hist r) = budget /\ Forall (fun x => below x = false) (r_hist r)
  | EarlyExit => (length (r_hist r) < budget)%nat /\ Forall (fun x => below x = false) (r_hist r)
  end.
Proof. exact loop_record. Qed.
Print Assumptions C01_history_len_last.

Theorem C01_returned_pair : forall (W B D : Type) (solve : nat -> W -> B) (reweight : nat -> B -> W -> W * bool)
    (diff : nat -> W -> W -> B -> D) (below : D -> bool) (w0 : W) (budget : nat) (r : result W B D),
  loop W B D solve reweight diff below budget w0 = Some r ->
  match r_reason r with
  | Converged | EarlyExit => exists k, (k < budget)%nat /\ r_base r = solve k (r_state r)
  | Exhausted => exists wprev, r_base r = solve (budget - 1)%nat wprev /\
                               r_state r = fst (reweight (budget - 1)%nat (r_base r) wprev)
  end.
Proof. exact loop_returned_pair. Qed.
Print Assumptions C01_returned_pair.

(* an empty iteration range is an error (UnboundLocalError in Python), never a default result *)
Theorem C01_empty_budget : forall (W B D : Type) solve reweight diff below (w0 : W),
  loop W B D solve reweight diff below 0%nat w0 = None.
Proof. reflexivity. Qed.
Print Assumptions C01_empty_budget.

(* ---- the loops as they are written in the source (coq/gen/GenLoops.v is regenerated from /repo by
   tools/gen_loops.py on every run): range bounds, np.empty size, store index, prefix slice, early-exit
   block of all 58 single-loop iterative methods satisfy the syntactic conditions ... *)
Theorem C01_source_loops_checked :
  forallb (fun p => loop_ok (snd p) && bound_ok (snd p)) loops = true /\ nested_loops = expected_nested.
Proof. vm_compute. split; reflexivity. Qed.
Print Assumptions C01_source_loops_checked.

(* ... under which the Python loop (np.empty record, offset stores with NumPy index semantics, clamped
   prefix slice, `i -= 1` on early exit) IS the skeleton with budget = max_iter + l_stop - l_start: for
   EVERY max_iter and EVERY oracle, the returned (baseline, weights, tol_history, reason) coincide, no
   store is out of bounds and no unwritten np.empty entry is returned. *)
Theorem C01_source_loop_is_skeleton : forall (l : ldesc), loop_ok l = true ->
  forall (W B D : Type) (solve : nat -> W -> B) (reweight : nat -> B -> W -> W * bool)
         (diff : nat -> W -> W -> B -> D) (below : D -> bool) (max_iter : Z) (w0 : W),
  (l_early l = false -> forall k b w, snd (reweight k b w) = false) ->
  pyloop W B D solve reweight diff below l max_iter w0 =
  match loop W B D solve reweight diff below (budget l max_iter) w0 with
  | None => None
  | Some r => Some (r_base r, r_state r, map Some (r_hist r), r_reason r)
  end.
Proof. intros l Hok W B D solve reweight diff below m w0 He. exact (pyloop_refines W B D solve reweight diff below l m Hok He w0). Qed.
Print Assumptions C01_source_loop_is_skeleton.

(* hence, for every method in the generated table: at most max_iter + 1 entries, all of them written *)
Theorem C01_source_record_bound : forall name l, In (name, l) loops ->
  forall (W B D : Type) (solve : nat -> W -> B) (reweight : nat -> B -> W -> W * bool)
         (diff : nat -> W -> W -> B -> D) (below : D -> bool) (max_iter : Z) (w0 : W) b w hist rsn,
  (l_early l = false -> forall k b w, snd (reweight k b w) = false) ->
  (0 <= max_iter + 1)%Z ->
  pyloop W B D solve reweight diff below l max_iter w0 = Some (b, w, hist, rsn) ->
  (Z.of_nat (length hist) <= max_iter + 1)%Z /\ Forall (fun e => e <> None) hist.
Proof.
  intros name l Hin W B D solve reweight diff below m w0 b w hist rsn He Hm Hp.
  destruct C01_source_loops_checked as [Hall _].
  rewrite forallb_forall in Hall. specialize (Hall _ Hin). cbn [snd] in Hall.
  apply andb_prop in Hall. destruct Hall as [Hok Hb].
  exact (pyloop_at_most_max_iter_plus_1 W B D solve reweight diff below l m Hok He w0 b w hist rsn Hb Hm Hp).
Qed.
Print Assumptions C01_source_record_bound.

(* an empty range (max_iter too small) raises (UnboundLocalError), it never returns a default *)
Theorem C01_source_empty_range : forall (l : ldesc) (W B D : Type) solve reweight diff below (max_iter : Z) (w0 : W),
  (max_iter + l_stop l - l_start l <= 0)%Z ->
  pyloop W B D solve reweight diff below l max_iter w0 = None.
Proof. intros l W B D solve reweight diff below m w0 H. exact (pyloop_empty_range W B D solve reweight diff below l m w0 H). Qed.
Print Assumptions C01_source_empty_range.

From Coq Require Import String.
Example C01_source_loops_nonvacuous :
  In ("whittaker.airpls"%string, {| l_start := 1; l_stop := 2; l_alloc := 1; l_store := -1; l_slice := 0; l_early := true; l_decr := 1 |}) loops
  /\ pyloop nat nat nat (fun i w => (w + i)%nat) (fun i b w => (b, false)) (fun i w w' b => (10 - i)%nat) (fun d => Nat.ltb d 9)
        {| l_start := 1; l_stop := 2; l_alloc := 1; l_store := -1; l_slice := 0; l_early := true; l_decr := 1 |} 4%Z 0%nat
      = Some (3, 1, [Some 10; Some 9; Some 8], Converged)%nat.
Proof. split; [unfold loops; repeat (try (left; reflexivity); right) | vm_compute; reflexivity]. Qed.

Open Scope Z_scope.
(* 1-D wrapper: accepted shapes are exactly (N,), (N,1), (1,N) and all come back as (N,) *)
Theorem C01_shape_1d : forall s s', check_array_1d s = Ok s' ->
  exists n, s' = [n] /\ (s = [n] \/ s = [n; 1] \/ s = [1; n]).
Proof. exact shape_1d. Qed.
Print Assumptions C01_shape_1d.

Theorem C01_shape_1d_sized : forall s len s', sized_1d s len = Ok s' -> s' = [len].
Proof. exact sized_1d_ok. Qed.
Print Assumptions C01_shape_1d_sized.

Theorem C01_shape_2d : forall s s', check_array_2d s = Ok s' ->
  (exists m n, s = [m; n] /\ s' = [m; n] /\ m <> 1 /\ n <> 1) \/
  (exists a b c, s = [a; b; c] /\ s' = filter (fun d => negb (d =? 1)) s /\ (a = 1 \/ b = 1 \/ c = 1)).
Proof. exact shape_2d. Qed.
Print Assumptions C01_shape_2d.

Example C01_shape_nonvacuous :
  check_array_1d [7; 1] = Ok [7] /\ check_array_2d [4; 1; 6] = Ok [4; 6] /\ check_array_2d [1; 5] = ValueErr.
Proof. vm_compute. repeat split. Qed.

Close Scope Z_scope.
(* a run that converges at pass 2 out of a budget of 5: premises are satisfiable *)
Example C01_loop_nonvacuous :
  match loop nat nat nat (fun i w => (w + i)%nat) (fun i b w => (b, false)) (fun i w w' b => (10 - i)%nat)
             (fun d => Nat.ltb d 9) 5%nat 0%nat with
  | Some r => r_reason r = Converged /\ r_hist r = [10; 9; 8]%nat
  | None => False
  end.
Proof. vm_compute. split; reflexivity. Qed.

(* ---- ordering of the outputs: the axis values Baseline2D.individual_axes hands to the inner 1-D
   fitters (C01/AxisOrder.v; tied to the source by the recorded-constructor correspondence of
   harness/c01.py on every run).  The 2-D object stores x_user[sort_order]; the data are NOT sorted
   (skip_sorting=True), so the caller's axis values have to be rebuilt. *)
From PB Require Import lib.Perm lib.PermProofs C01.AxisOrder C01.AxisOrderProofs.

(* stored[inverted_order] is the caller's array: every permutation, every array (ties allowed) *)
Theorem C01_rebuild_inverted_is_user : forall (A : Type) (d : A) (x : list A) (s : list nat) (n : nat),
  is_perm s n -> List.length x = n -> gather d (gather d x s) (inverted_sort s) = x.
Proof. exact @rebuild_inverted_is_user. Qed.
Print Assumptions C01_rebuild_inverted_is_user.

(* the model of individual_axes (three branches of the source + _determine_sorts + the stable argsort)
   hands the caller's x and z to the inner fitters, for ALL axis values of any length *)
Theorem C01_individual_axes_values_user : forall (x z : list Z), exists b, individual_axes_values x z = (x, z, b).
Proof. exact individual_axes_values_user. Qed.
Print Assumptions C01_individual_axes_values_user.

(* assume_sorted=True reaches the inner fitters only if both axes are sorted *)
Theorem C01_individual_axes_assume_sorted : forall (x z : list Z),
  snd (individual_axes_values x z) = true -> argsort x = seq 0 (List.length x) /\ argsort z = seq 0 (List.length z).
Proof. exact individual_axes_assume_sorted. Qed.
Print Assumptions C01_individual_axes_assume_sorted.

(* so the inner fitters sort the user-ordered rows / columns by the sorting permutation of the axis *)
Theorem C01_inner_order : forall (x z : list Z),
  inner_sort_order (fst (fst (individual_axes_values x z))) = argsort x /\
  inner_sort_order (snd (fst (individual_axes_values x z))) = argsort z.
Proof. exact inner_order_inverted. Qed.
Print Assumptions C01_inner_order.

(* indexing the stored values with the FORWARD order instead is right exactly when the sorting
   permutation is its own inverse (sorted or fully reversed axes ...), for distinct values *)
Theorem C01_rebuild_forward_iff_involution : forall (A : Type) (d : A) (x : list A) (s : list nat) (n : nat),
  NoDup x -> is_perm s n -> List.length x = n ->
  (gather d (gather d x s) s = x <-> gather 0%nat s s = seq 0 n).
Proof. exact @rebuild_forward_iff_involution. Qed.
Print Assumptions C01_rebuild_forward_iff_involution.

(* ... and then the inner fitter sorts the user-ordered data by inverted_order instead of sort_order *)
Theorem C01_inner_order_forward : forall (x : list Z), NoDup x ->
  inner_sort_order (gather 0%Z (gather 0%Z x (argsort x)) (argsort x)) = inverted_sort (argsort x).
Proof. exact inner_order_forward. Qed.
Print Assumptions C01_inner_order_forward.

(* witness: an axis rotated by one position; forward indexing hands [3;1;2] to the inner fitter *)
Example C01_forward_rebuild_refuted : exists x z : list Z,
  NoDup x /\ fst (fst (individual_axes_values_forward x z)) <> x /\ fst (fst (individual_axes_values x z)) = x.
Proof.
  exists [2; 3; 1]%Z, [1; 2]%Z. destruct forward_differs_example as [-> ->]. cbn [fst].
  split; [|split; [discriminate|reflexivity]].
  repeat constructor; cbn [In]; intros H; repeat (destruct H as [H|H]; [discriminate|]); exact H.
Qed.
Print Assumptions C01_forward_rebuild_refuted.

(* the hypotheses are satisfiable: a rotation is a permutation that is not an involution *)
Example C01_axis_order_nonvacuous :
  is_perm [2; 0; 1]%nat 3 /\ gather 0%nat [2; 0; 1]%nat [2; 0; 1]%nat <> seq 0 3 /\ argsort [2; 3; 1]%Z = [2; 0; 1]%nat.
Proof.
  split; [|split; [vm_compute; discriminate|vm_compute; reflexivity]].
  unfold is_perm. cbn [seq]. apply Permutation.Permutation_sym.
  apply Permutation.perm_trans with [0; 2; 1]%nat; [apply Permutation.perm_skip, Permutation.perm_swap|].
  apply Permutation.perm_trans with [2; 0; 1]%nat; [apply Permutation.perm_swap|apply Permutation.Permutation_refl].
Qed.

(* ---- output dtype of the wrappers (C01/Dtype.v: the steps of _register.inner + _return_results of the 1-D and
   2-D wrappers on dtypes; tied to the source by the probe-method correspondence of harness/c01_dtype.py).
   For EVERY flag combination (1-D/2-D, skip_sorting, sorted/unsorted, layout, stacks, reshape, check_finite),
   every ENTRY PATH (object built with its axes; first call of an object built without -- _yx_arrays / _yxz_arrays
   generate them; a later call on that object; module-level function without / with x_data), every output_dtype,
   every input kind and whatever dtypes the method body returns: *)
(* Require without Import: the short names of C01/Dtype.v (result, input, flags, inner, ...) stay out of scope here *)
From PB Require C01.Dtype C01.DtypeProofs.

(* a returning call has the documented dtype (the output_dtype in force -- the one given at construction, none in
   the functional interface -- else the dtype of the data as passed, else -- data=None -- what the method
   produced); the method body receives float64; params keep their dtype *)
Theorem C01_dtype_rule : forall (f : Dtype.flags) (out : option Dtype.dt) (i : Dtype.input) (bd pd : Dtype.dt) (r : Dtype.result),
  Dtype.inner f out i bd pd = Some r ->
  Dtype.r_ret r = Dtype.documented (Dtype.eff_out (Dtype.entry f) out) i bd /\
  Dtype.r_received r = Dtype.F64 /\ Dtype.r_params r = pd.
Proof. exact DtypeProofs.inner_rule. Qed.
Print Assumptions C01_dtype_rule.

(* the only dtype-related raises of the wrappers: data=None in 2-D, or in 1-D while the object has no x *)
Theorem C01_dtype_raises : forall (f : Dtype.flags) (out : option Dtype.dt) (i : Dtype.input) (bd pd : Dtype.dt),
  Dtype.inner f out i bd pd = None <->
  (i = Dtype.NoData /\ (Dtype.two_d f = true \/ Dtype.generates (Dtype.entry f) = true)).
Proof. exact DtypeProofs.inner_raises. Qed.
Print Assumptions C01_dtype_raises.

(* no flag and no entry path matters beyond "is data=None accepted" and "which output_dtype is in force" *)
Theorem C01_dtype_flag_independent : forall (f g : Dtype.flags) (out out' : option Dtype.dt) (i : Dtype.input) (bd pd : Dtype.dt),
  DtypeProofs.raises f i = DtypeProofs.raises g i ->
  Dtype.eff_out (Dtype.entry f) out = Dtype.eff_out (Dtype.entry g) out' ->
  Dtype.inner f out i bd pd = Dtype.inner g out' i bd pd.
Proof. exact DtypeProofs.inner_flag_independent. Qed.
Print Assumptions C01_dtype_flag_independent.

(* in particular, with no output_dtype the result for given data is the same on EVERY entry path (and for
   every other flag, 1-D or 2-D): first call without x, later call, object with x, functional interface *)
Theorem C01_dtype_entry_independent : forall (f g : Dtype.flags) (i : Dtype.input) (bd pd : Dtype.dt),
  i <> Dtype.NoData -> Dtype.inner f None i bd pd = Dtype.inner g None i bd pd.
Proof. exact DtypeProofs.inner_entry_independent. Qed.
Print Assumptions C01_dtype_entry_independent.

(* the variant that casts the data to float BEFORE the dtype is recorded returns float64 for every
   non-float64 array when no output_dtype was given, where the source returns the input's dtype *)
Theorem C01_dtype_cast_first_refuted : forall (f : Dtype.flags) (d bd pd : Dtype.dt), d <> Dtype.F64 ->
  exists r s, Dtype.inner f None (Dtype.Arr d) bd pd = Some r /\ Dtype.inner_cast_first f None (Dtype.Arr d) bd pd = Some s /\
              Dtype.r_ret r = d /\ Dtype.r_ret s = Dtype.F64.
Proof. exact DtypeProofs.cast_first_differs. Qed.
Print Assumptions C01_dtype_cast_first_refuted.

(* the variant in which the axis-GENERATING helper (_yx_arrays / _yxz_arrays) casts y to float64: float64 instead of
   the input's dtype on the first call of an object without axes and in the functional interface without x_data ... *)
Theorem C01_dtype_helper_casts_refuted : forall (f : Dtype.flags) (d bd pd : Dtype.dt),
  Dtype.generates (Dtype.entry f) = true -> d <> Dtype.F64 ->
  exists r s, Dtype.inner f None (Dtype.Arr d) bd pd = Some r /\ Dtype.inner_helper_casts f None (Dtype.Arr d) bd pd = Some s /\
              Dtype.r_ret r = d /\ Dtype.r_ret s = Dtype.F64.
Proof. exact DtypeProofs.helper_casts_differs. Qed.
Print Assumptions C01_dtype_helper_casts_refuted.

(* ... and indistinguishable from the source on every other path (objects with axes, later calls, x_data given) *)
Theorem C01_dtype_helper_casts_only_first : forall (f : Dtype.flags) (out : option Dtype.dt) (i : Dtype.input) (bd pd : Dtype.dt),
  Dtype.generates (Dtype.entry f) = false -> Dtype.inner_helper_casts f out i bd pd = Dtype.inner f out i bd pd.
Proof. exact DtypeProofs.helper_casts_same. Qed.
Print Assumptions C01_dtype_helper_casts_only_first.

Example C01_dtype_nonvacuous :
  Dtype.inner {| Dtype.two_d := true; Dtype.skip_sorting := false; Dtype.unsorted := true; Dtype.flat_layout := false;
                 Dtype.stack := false; Dtype.reshape_out := true; Dtype.check_finite := true;
                 Dtype.entry := Dtype.WithAxes Dtype.AxBoth |}
              None (Dtype.Arr Dtype.F32) Dtype.F64 Dtype.Bool
  = Some {| Dtype.r_received := Dtype.F64; Dtype.r_ret := Dtype.F32; Dtype.r_params := Dtype.Bool |}
  /\ Dtype.generates Dtype.NoAxesFirst = true /\ Dtype.generates Dtype.NoAxesLater = false.
Proof. repeat split. Qed.

(* ---- methods with a NESTED convergence record (brpls, pspline_brpls in 1-D and 2-D, goldindec):
   the two-level loop of C01/Nested.v over abstract oracles, parameterised by the bookkeeping that
   tools/gen_loops.py (GenNested) extracts from the source on every run (coq/gen/GenNested.v) ---- *)
From PB Require C01.Nested C01.NestedProofs gen.GenNested.

(* the generated table covers exactly the methods GenLoops lists as nested, and every descriptor
   passes the syntactic conditions (row / column offsets inside the allocation, slice ending at the
   last pass, early exit discarding the unfinished pass and ending the outer loop, np.zeros) *)
Theorem C01_nested_source_checked :
  map fst GenNested.nested_descs = nested_loops /\
  forallb (fun p => Nested.nested_ok (snd p)) GenNested.nested_descs = true.
Proof. vm_compute. split; reflexivity. Qed.
Print Assumptions C01_nested_source_checked.

(* for EVERY max_iter, max_iter_2 and EVERY oracle: the call fails exactly when one of the two ranges
   is empty (UnboundLocalError) -- no store is ever out of bounds *)
Theorem C01_nested_no_index_error : forall (St D : Type) (istep : nat -> nat -> St -> St * Nested.ires D)
    (ostep : nat -> St -> bool -> list D * bool * St) (n : Nested.ndesc) (m m2 : Z) (s0 : St),
  Nested.nested_ok n = true ->
  (Nested.n_early n = false -> forall i j s, snd (istep i j s) <> Nested.IEarly) ->
  (Nested.nested St D istep ostep n m m2 s0 = None <->
   (Nested.obudget n m2 = 0 \/ Nested.ibudget n m = 0)%nat).
Proof. intros St D istep ostep n m m2 s0 Hok He. exact (NestedProofs.nested_none_iff St D istep ostep n m m2 Hok He s0). Qed.
Print Assumptions C01_nested_no_index_error.

(* the returned record tol_history[:i + r, :max(i, j_max) + c]: the slice is never clamped; it has at
   most max_iter_2 + n_arows rows and max(max_iter, max_iter_2) + n_acols columns; it cuts off no
   recorded value; every cell of it is a recorded value or a zero of np.zeros (never garbage) *)
Theorem C01_nested_record : forall (St D : Type) (istep : nat -> nat -> St -> St * Nested.ires D)
    (ostep : nat -> St -> bool -> list D * bool * St) (n : Nested.ndesc) (m m2 : Z) (s0 : St) (x : Nested.nres St D),
  Nested.nested_ok n = true ->
  (Nested.n_early n = false -> forall i j s, snd (istep i j s) <> Nested.IEarly) ->
  Nested.nested St D istep ostep n m m2 s0 = Some x ->
  Nested.ret_rows St D n m2 x = (Z.of_nat (Nested.x_i x) + Nested.n_srow n)%Z /\
  Nested.ret_cols St D n m m2 x = (Z.max (Z.of_nat (Nested.x_i x)) (Nested.x_jmax x) + Nested.n_scol n)%Z /\
  (1 <= Nested.ret_rows St D n m2 x <= m2 + Nested.n_arows n)%Z /\
  (1 <= Nested.ret_cols St D n m m2 x <= Z.max m m2 + Nested.n_acols n)%Z /\
  (Nested.x_passes x <= Nested.obudget n m2)%nat /\
  Forall (fun e => (0 <= NestedProofs.er D e < Nested.ret_rows St D n m2 x)%Z /\
                   (0 <= NestedProofs.ec D e < Nested.ret_cols St D n m m2 x)%Z) (Nested.x_tab x) /\
  (forall r c, Nested.ret_cell St D n x r c <> Nested.Garbage).
Proof. intros St D istep ostep n m m2 s0 x Hok He. exact (NestedProofs.nested_record St D istep ostep n m m2 Hok He s0 x). Qed.
Print Assumptions C01_nested_record.

(* hence, for the methods in the generated table: at most max_iter_2 + 2 rows and
   max(max_iter, max_iter_2) + 1 columns *)
Theorem C01_nested_source_record_bound : forall name n, In (name, n) GenNested.nested_descs ->
  forall (St D : Type) (istep : nat -> nat -> St -> St * Nested.ires D)
         (ostep : nat -> St -> bool -> list D * bool * St) (m m2 : Z) (s0 : St) (x : Nested.nres St D),
  (Nested.n_early n = false -> forall i j s, snd (istep i j s) <> Nested.IEarly) ->
  Nested.nested St D istep ostep n m m2 s0 = Some x ->
  (Nested.ret_rows St D n m2 x <= m2 + 2)%Z /\ (Nested.ret_cols St D n m m2 x <= Z.max m m2 + 1)%Z.
Proof.
  intros name n Hin St D istep ostep m m2 s0 x He Hx.
  assert (Hall : forallb (fun p => Nested.nested_ok (snd p) && (Nested.n_arows (snd p) <=? 2)%Z && (Nested.n_acols (snd p) <=? 1)%Z)
                         GenNested.nested_descs = true) by (vm_compute; reflexivity).
  rewrite forallb_forall in Hall. specialize (Hall _ Hin). cbn [snd] in Hall.
  apply andb_prop in Hall. destruct Hall as [Hall Hc]. apply andb_prop in Hall. destruct Hall as [Hok Hr].
  destruct (NestedProofs.nested_record St D istep ostep n m m2 Hok He s0 x Hx) as (_ & _ & (_ & H1) & (_ & H2) & _).
  apply Z.leb_le in Hr. apply Z.leb_le in Hc. split; [apply (Z.le_trans _ _ _ H1)|apply (Z.le_trans _ _ _ H2)].
  - apply Z.add_le_mono_l. exact Hr.
  - apply Z.add_le_mono_l. exact Hc.
Qed.
Print Assumptions C01_nested_source_record_bound.

(* an inner early exit ends the outer loop in that very pass (brpls: tol_2 is forced to inf) *)
Theorem C01_nested_early_exit_ends_outer : forall (St D : Type) (istep : nat -> nat -> St -> St * Nested.ires D)
    (ostep : nat -> St -> bool -> list D * bool * St) (n : Nested.ndesc) (m m2 : Z),
  Nested.nested_ok n = true ->
  forall fuel i s jmax t s1 j t1, Nested.n_early n = true -> (i < Nested.obudget n m2)%nat ->
  Nested.inner St D istep n m m2 (Nested.ibudget n m) 0 i s t = Some (s1, j, true, t1) ->
  exists x, Nested.outer St D istep ostep n m m2 (S fuel) i s jmax t = Some x /\ Nested.x_i x = i.
Proof.
  intros St D istep ostep n m m2 Hok fuel i s jmax t s1 j t1 He.
  assert (Hv : Nested.n_early n = false -> forall i j s, snd (istep i j s) <> Nested.IEarly)
    by (intros Hf; rewrite Hf in He; discriminate).
  exact (NestedProofs.early_ends_outer St D istep ostep n m m2 Hok Hv fuel i s jmax t s1 j t1 He).
Qed.
Print Assumptions C01_nested_early_exit_ends_outer.

(* non-vacuity: brpls bookkeeping, 2 outer passes; the second inner loop leaves through the early exit *)
Example C01_nested_nonvacuous :
  let n := {| Nested.n_ostop := 1; Nested.n_istop := 1; Nested.n_arows := 2; Nested.n_acols := 1; Nested.n_irow := 1;
              Nested.n_orows := 1; Nested.n_srow := 2; Nested.n_scol := 1; Nested.n_early := true; Nested.n_decr := 1;
              Nested.n_force := true; Nested.n_zeros := true |} in
  Nested.nested_ok n = true /\
  match Nested.nested nat nat (fun i j s => (S s, if Nat.eqb s 4 then Nested.IEarly else Nested.IRec (10 * i + j)%nat (Nat.eqb j 2)))
                      (fun i s e => ([100 + i]%nat, false, s)) n 3 5 0%nat with
  | Some x => Nested.x_i x = 1%nat /\ Nested.ret_rows nat nat n 5 x = 3%Z /\ Nested.ret_cols nat nat n 3 5 x = 3%Z
  | None => False
  end.
Proof. vm_compute. repeat split. Qed.

(* ---- two-dimensional pad -> filter -> strip (C01/Pad2D.v; tied to utils.pad_edges2d and
   Baseline2D.noise_median by the shape correspondence of harness/c01_pad.py on every run) ---- *)
From PB Require C01.Pad2D C01.Pad2DProofs.

(* the baseline of the padded 2-D smoother has the data's shape for EVERY data shape, EVERY pair of half
   windows >= 1 (equal or not) and every padding mode / extrapolate window the padding accepts *)
Theorem C01_noise_median2d_shape : forall (M N hr hc : Z) (extrapolate : bool) (ew : option (list Z)) (R C : Z),
  (0 <= M)%Z -> (0 <= N)%Z -> (0 < hr)%Z -> (0 < hc)%Z ->
  Pad2D.noise_median2d_shape M N hr hc extrapolate ew = Pad2D.PadOk R C -> R = M /\ C = N.
Proof. exact Pad2DProofs.noise_median2d_shape_is_data. Qed.
Print Assumptions C01_noise_median2d_shape.

Theorem C01_noise_median2d_returns : forall (M N hr hc : Z) (extrapolate : bool),
  (0 <= M)%Z -> (0 <= N)%Z -> (0 < hr)%Z -> (0 < hc)%Z ->
  Pad2D.noise_median2d_shape M N hr hc extrapolate None = Pad2D.PadOk M N.
Proof. exact Pad2DProofs.noise_median2d_returns. Qed.
Print Assumptions C01_noise_median2d_returns.

(* pad_edges2d with a (rows, columns) pair: (M + 2 rows, N + 2 columns) in every mode *)
Theorem C01_pad2d_pair_shape : forall (M N pr pc : Z) (extrapolate : bool), (0 < pr)%Z -> (0 < pc)%Z ->
  Pad2D.pad_edges2d_shape M N [pr; pc] extrapolate None = Pad2D.PadOk (M + 2 * pr) (N + 2 * pc).
Proof. exact Pad2DProofs.pad2d_pair_shape. Qed.
Print Assumptions C01_pad2d_pair_shape.

(* with the row / column padding mixed up in the extrapolation the result has shape
   (M, N + 2 (hr - hc)): wrong exactly for unequal pairs *)
Theorem C01_noise_median2d_mixed_refuted : forall (M N hr hc : Z),
  (0 <= M)%Z -> (0 <= N)%Z -> (0 < hr)%Z -> (0 < hc)%Z -> (0 <= N + 2 * (hr - hc))%Z ->
  Pad2D.noise_median2d_shape_with Pad2D.pad_edges2d_shape_mixed M N hr hc true None = Pad2D.PadOk M (N + 2 * (hr - hc)).
Proof. exact Pad2DProofs.noise_median2d_mixed_refuted. Qed.
Print Assumptions C01_noise_median2d_mixed_refuted.

(* ---- a fitter with a HISTORY (C01/FitterState.v): configuration (output dtype, check_finite, solver choice, sort
   orders) + method calls as scripts whose computations may raise at ANY point.  Tie to the source: tools/gen_c01_config.py
   scans every function of the package on every run and REFUSES a store to a configuration attribute outside __init__,
   the property setters and freshly constructed objects (coq/gen/GenC01Config.v lists the sites). *)
From PB Require C01.FitterState C01.FitterStateProofs gen.GenC01Config.

(* the stores to configuration attributes found in the current source are constructor / setter / fresh-object stores,
   and the attributes the model speaks about are among the derived configuration attributes *)
Theorem C01_config_write_sites_allowed :
  forallb (fun s => existsb (String.eqb (snd s)) ["ctor"; "setter"; "fresh"]%string) GenC01Config.config_write_sites = true /\
  forallb (fun a => existsb (String.eqb a) GenC01Config.config_attrs)
          ["_dtype"; "_check_finite"; "_banded_solver"; "_pentapy_solver"; "_sort_order"; "_inverted_order"]%string = true.
Proof. vm_compute. split; reflexivity. Qed.
Print Assumptions C01_config_write_sites_allowed.

(* the only configuration stores on an object other than `self`: objects constructed in that very function *)
Theorem C01_config_fresh_object_sites :
  map (fun s => (fst (fst s), snd (fst s)))
      (filter (fun s => String.eqb (snd s) "fresh"%string) GenC01Config.config_write_sites) =
  [("_inverted_order", "_algorithm_setup._Algorithm._override_x"); ("_sort_order", "_algorithm_setup._Algorithm._override_x");
   ("banded_solver", "_algorithm_setup._Algorithm._get_function"); ("banded_solver", "_algorithm_setup._Algorithm._override_x");
   ("banded_solver", "two_d._algorithm_setup._Algorithm2D._get_function");
   ("banded_solver", "two_d.optimizers._Optimizers.individual_axes")]%string.
Proof. vm_compute. reflexivity. Qed.
Print Assumptions C01_config_fresh_object_sites.

(* what IS written after construction: x / z / shape on the first call of an object built without them, the validation
   flags and the polynomial / spline caches -- exactly these method sites *)
Theorem C01_state_write_sites :
  map (fun s => (fst (fst s), snd (fst s)))
      (filter (fun s => String.eqb (snd s) "method"%string) GenC01Config.state_write_sites) =
  [("_polynomial", "_algorithm_setup._Algorithm._setup_polynomial");
   ("_polynomial", "two_d._algorithm_setup._Algorithm2D._setup_polynomial");
   ("_shape", "two_d._algorithm_setup._Algorithm2D._register.inner");
   ("_size", "_algorithm_setup._Algorithm._register.inner");
   ("_spline_basis", "_algorithm_setup._Algorithm._setup_spline");
   ("_spline_basis", "two_d._algorithm_setup._Algorithm2D._setup_spline");
   ("_validated_x", "_algorithm_setup._Algorithm._register.inner");
   ("_validated_x", "two_d._algorithm_setup._Algorithm2D._register.inner");
   ("_validated_z", "two_d._algorithm_setup._Algorithm2D._register.inner");
   ("x", "_algorithm_setup._Algorithm._register.inner"); ("x", "two_d._algorithm_setup._Algorithm2D._register.inner");
   ("z", "two_d._algorithm_setup._Algorithm2D._register.inner")]%string.
Proof. vm_compute. reflexivity. Qed.
Print Assumptions C01_state_write_sites.

(* after ANY history of calls whose scripts do not store to the configuration -- whatever each call's outcome: returned,
   raised up front, raised deep inside an inner fit, raised after partial work -- the configuration is the constructor's *)
Theorem C01_config_invariant : forall (h : list FitterState.call),
  Forall FitterStateProofs.pure_call h -> forall st : FitterState.obj,
  FitterState.cfg (FitterState.run st h) = FitterState.cfg st.
Proof. exact FitterStateProofs.run_preserves_cfg. Qed.
Print Assumptions C01_config_invariant.

(* hence a later call returns exactly what the same call on the untouched object returns: the documented dtype for the
   CONSTRUCTOR's output_dtype (C01_dtype_rule), the method body gets float64, params keep their dtype *)
Theorem C01_dtype_after_history : forall (h : list FitterState.call) (st : FitterState.obj) (f : Dtype.flags)
    (i : Dtype.input) (bd pd : Dtype.dt),
  Forall FitterStateProofs.pure_call h ->
  FitterState.later_call (FitterState.run st h) f i bd pd = FitterState.later_call st f i bd pd /\
  forall r, FitterState.later_call (FitterState.run st h) f i bd pd = Some r ->
            Dtype.r_ret r = Dtype.documented (Dtype.eff_out (Dtype.entry f) (FitterState.out_of (FitterState.cfg st))) i bd /\
            Dtype.r_received r = Dtype.F64 /\ Dtype.r_params r = pd.
Proof. exact FitterStateProofs.dtype_after_history. Qed.
Print Assumptions C01_dtype_after_history.

(* a temporary change of a configuration attribute is safe under try/finally, for every outcome of the body ... *)
Theorem C01_try_finally_restores : forall (a : FitterState.attr) (v : FitterState.cval) (body : FitterState.script),
  FitterState.inert body = true -> forall o st b,
  FitterState.cfg (fst (FitterState.exec (FitterState.protected a v body) o st)) b = FitterState.cfg st b.
Proof. exact FitterStateProofs.protected_restores. Qed.
Print Assumptions C01_try_finally_restores.

(* ... but with the restore as a plain statement, ONE call whose computation in between raises leaves `_dtype` cleared:
   on an object constructed with output_dtype = d every later call on data of another dtype d' returns d' *)
Theorem C01_unprotected_restore_refuted : forall (st : FitterState.obj) (f : Dtype.flags) (d d' bd pd : Dtype.dt),
  FitterState.out_of (FitterState.cfg st) = Some d -> d' <> d ->
  Dtype.eff_out (Dtype.entry f) (Some d) = Some d ->
  let st' := FitterState.run st [(FitterState.unprotected FitterState.ADtype (FitterState.VDt None) (FitterState.Work 0),
                                  fun _ => true)] in
  exists r r', FitterState.later_call st f (Dtype.Arr d') bd pd = Some r /\
               FitterState.later_call st' f (Dtype.Arr d') bd pd = Some r' /\
               Dtype.r_ret r = d /\ Dtype.r_ret r' = d'.
Proof. exact FitterStateProofs.unprotected_dtype_refuted. Qed.
Print Assumptions C01_unprotected_restore_refuted.

(* a history with a call that raises up front, one that raises deep inside and one that returns: premises satisfiable *)
Example C01_history_nonvacuous :
  Forall FitterStateProofs.pure_call
    [(FitterState.Work 0, fun _ => true);
     (FitterState.Seq (FitterState.Work 0) (FitterState.Seq (FitterState.Save FitterState.ADtype 1) (FitterState.Work 1)),
      fun k => Nat.eqb k 1);
     (FitterState.Seq (FitterState.Work 0) (FitterState.Work 1), fun _ => false)]
  /\ snd (FitterState.exec (FitterState.Seq (FitterState.Work 0) (FitterState.Work 1)) (fun k => Nat.eqb k 1)
            {| FitterState.cfg := fun _ => FitterState.VNat 0; FitterState.slots := fun _ _ => FitterState.VNat 0 |}) = true.
Proof. split; [repeat constructor|reflexivity]. Qed.

(* ---- nested records: WHICH cells are written.  In every inner row (row i + n_irow of outer iteration i)
   the recorded values form an initial segment of columns: left of a recorded value there is no unwritten
   (zero-initialised) gap -- for ALL max_iter, max_iter_2 and ALL oracles (C01/NestedContig.v) ---- *)
From PB Require C01.NestedContig.

Theorem C01_nested_rows_contiguous : forall (St D : Type) (istep : nat -> nat -> St -> St * Nested.ires D)
    (ostep : nat -> St -> bool -> list D * bool * St) (n : Nested.ndesc) (m m2 : Z) (s0 : St) (x : Nested.nres St D),
  Nested.nested_ok n = true ->
  (Nested.n_early n = false -> forall i j s, snd (istep i j s) <> Nested.IEarly) ->
  Nested.nested St D istep ostep n m m2 s0 = Some x ->
  forall r c v, In (r, c, v) (Nested.x_tab x) -> (Nested.n_irow n <= r)%Z ->
  forall c', (0 <= c' <= c)%Z -> exists v', In (r, c', v') (Nested.x_tab x).
Proof. intros St D istep ostep n m m2 s0 x Hok He. exact (NestedContig.nested_rows_contiguous St D istep ostep n m m2 Hok He s0 x). Qed.
Print Assumptions C01_nested_rows_contiguous.
