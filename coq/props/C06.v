(* Property C06 -- Whittaker baselines solve the documented penalized least-squares system.
   Only the property theorems; each is closed by an exact lemma of C06/Proofs.v.

   Reading guide.  [asls hp bs N lam d wl y] etc. are the executable models (C06/Model.v) of what
   pybaselines hands to pentapy / solveh_banded / solve_banded at the successive passes of the loop
   (wl = the weights in force at pass 0, 1, 2, ...; hp = pentapy importable; bs = banded_solver).
   [sys_ok N A b k]: the call k is well-formed for its library entry point, the matrix it DENOTES under
   that entry point's storage convention is A on 0..N-1 x 0..N-1, and its right-hand side is b.
   Values are integers (the assembly is ring arithmetic); PARTIAL with respect to the property text:
   the solvers' backward error and float rounding of the assembly are outside the proof. *)
From Coq Require Import ZArith List Bool Lia String.
From PB Require Import lib.SumZ lib.PySlice lib.Arr lib.Loop lib.LoopProofs C11.DtD C11.Table gen.GenBands
                       C11.Banded C11.History C06.Model C06.Proofs C06.Model2D C06.Proofs2D C06.Vec gen.GenC06Vec C06.VecProofs C06.Order gen.GenC06Order C06.OrderProofs gen.GenC06EigShare C06.EigShare C06.Homog C06.Smooth0.
Import ListNotations.
Open Scope Z_scope.

(* asls, airpls, arpls, iarpls, psalsa, derpsalsa, brpls, lsrpls: at EVERY pass (in-place add_diagonal
   history included), for every N > d >= 1, lam > 0, weights, data, banded_solver, pentapy on/off:
   (W + lam D'D) v = W y *)
Theorem C06_asls_system : forall (hp : bool) (bs : Z) (N : nat) (lam : Z) (d : nat) (wl : list (Z -> Z)) (y : Z -> Z),
  (1 <= d < N)%nat -> 0 < lam ->
  exists cs, asls hp bs N lam d wl y = Some cs /\
    Forall2 (fun w k => sys_ok N (doc_asls N d lam w) (mulv w y) k) wl cs.
Proof. exact asls_system. Qed.
Print Assumptions C06_asls_system.

(* utils.whittaker_smooth (its own PenalizedSystem with the constructor defaults, one pass):
   (W + lam D'D) v = W y for arbitrary (non-binary) weights *)
Theorem C06_whittaker_smooth_system : forall (hp : bool) (N : nat) (lam : Z) (d : nat) (w y : Z -> Z),
  (1 <= d < N)%nat -> 0 < lam ->
  exists k, whittaker_smooth hp N lam d w y = Some k /\ sys_ok N (doc_asls N d lam w) (mulv w y) k.
Proof. exact whittaker_smooth_system. Qed.
Print Assumptions C06_whittaker_smooth_system.

(* iasls: (W^2 + lam_1 D1'D1 + lam D'D) v = (W^2 + lam_1 D1'D1) y *)
Theorem C06_iasls_system : forall (hp : bool) (bs : Z) (N : nat) (lam lam1 : Z) (d : nat) (wl : list (Z -> Z)) (y : Z -> Z),
  (2 <= d < N)%nat -> 0 < lam ->
  exists cs, iasls hp bs N lam lam1 d wl y = Some cs /\
    Forall2 (fun w k => sys_ok N (doc_iasls N d lam lam1 w) (doc_iasls_rhs N lam1 w y) k) wl cs.
Proof. exact iasls_system. Qed.
Print Assumptions C06_iasls_system.

(* drpls: (W + D1'D1 + lam (I - eta W) D'D) v = W y *)
Theorem C06_drpls_system : forall (hp : bool) (bs : Z) (N : nat) (lam eta : Z) (d : nat) (wl : list (Z -> Z)) (y : Z -> Z),
  (2 <= d < N)%nat -> 0 < lam ->
  exists cs, drpls hp bs N lam eta d wl y = Some cs /\
    Forall2 (fun w k => sys_ok N (doc_drpls N d lam eta w) (mulv w y) k) wl cs.
Proof. exact drpls_system. Qed.
Print Assumptions C06_drpls_system.

(* aspls: (W + lam diag(alpha) D'D) v = W y *)
Theorem C06_aspls_system : forall (hp : bool) (bs : Z) (N : nat) (lam : Z) (d : nat)
    (wal : list ((Z -> Z) * (Z -> Z))) (y : Z -> Z),
  (1 <= d < N)%nat -> 0 < lam ->
  exists cs, aspls hp bs N lam d wal y = Some cs /\
    Forall2 (fun (wa : (Z -> Z) * (Z -> Z)) k =>
               sys_ok N (doc_aspls N d lam (fst wa) (snd wa)) (mulv (fst wa) y) k) wal cs.
Proof. exact aspls_system. Qed.
Print Assumptions C06_aspls_system.

(* the three-slice closed form of iasls is D1'D1 y for every N >= 2 *)
Theorem C06_d1y_closed_form : forall (N : nat) (y : Z -> Z) (i : Z),
  (2 <= N)%nat -> 0 <= i < Z.of_nat N -> d1y (Z.of_nat N) y i = matvec N (DtD 1 N) y i.
Proof. exact d1y_closed_form. Qed.
Print Assumptions C06_d1y_closed_form.

(* _shift_rows turns row-aligned bands into LAPACK bands of the same matrix, for every shape
   (any number of upper/lower bands, any width, bands wholly outside the matrix included) *)
Theorem C06_shift_rows : forall (a : arr) (u l i j : Z),
  0 <= u -> 0 <= l -> nr a = u + l + 1 -> 0 <= i < nc a -> 0 <= j < nc a ->
  den_lapack u l (shift_rows a u l) i j = den_rowaligned u l a i j.
Proof. exact shift_rows_spec. Qed.
Print Assumptions C06_shift_rows.

(* add_penalty / _add_diagonals: adding a narrower (or equally wide) band array in the same layout adds
   the denoted matrices, whatever padding rule applies *)
Theorem C06_add_penalty : forall (N u u' : Z) (B B' : Z -> Z -> Z) (ws : wsys) (p : arr),
  SInv N u B ws -> (forall c, w_maind ws c = get (w_pen ws) (w_main ws) c) ->
  0 <= u' <= u -> nc p = N -> nr p = (if w_lower ws then u' + 1 else 2 * u' + 1) ->
  (forall i j, 0 <= i < N -> 0 <= j < N -> Z.abs (i - j) <= u' ->
      get p (fst (coord u' ws i j)) (snd (coord u' ws i j)) = B' i j) ->
  Banded N u' B' ->
  exists ws', add_penalty ws p = Some ws' /\
    SInv N u (fun i j => B i j + B' i j) ws' /\
    (forall c, w_maind ws' c = get (w_pen ws') (w_main ws') c) /\
    w_penta ws' = w_penta ws /\ w_lower ws' = w_lower ws.
Proof. exact add_penalty_inv. Qed.
Print Assumptions C06_add_penalty.

(* any vector that solves the banded system handed to the library solves the documented system *)
Theorem C06_solves_documented : forall (N : nat) (A : Z -> Z -> Z) (b : Z -> Z) (k : call) (v : Z -> Z),
  sys_ok N A b k -> solves N (den k) (k_rhs k) v -> solves N A b v.
Proof. exact sys_ok_solves. Qed.
Print Assumptions C06_solves_documented.

(* the loop coupling: with the solver as an abstract library that satisfies its contract on the calls
   of the run, a run that reports convergence (or exits early) returns a baseline that solves the
   documented system FOR THE RETURNED STATE (weights, and alpha for aspls: not updated on that pass);
   an exhausted run returns the reweighting of the returned baseline *)
Theorem C06_returned_pair : forall (N : nat) (W D : Type) (docA : W -> Z -> Z -> Z) (docb : W -> Z -> Z)
    (asm : nat -> W -> call),
  (forall k w, sys_ok N (docA w) (docb w) (asm k w)) ->
  forall (solver : call -> Z -> Z) (reweight : nat -> (Z -> Z) -> W -> W * bool)
         (diff : nat -> W -> W -> (Z -> Z) -> D) (below : D -> bool) (w0 : W) (budget : nat),
  (forall k, (k < budget)%nat ->
     solves N (den (asm k (wseq W (Z -> Z) (fun k w => solver (asm k w)) reweight w0 k)))
              (k_rhs (asm k (wseq W (Z -> Z) (fun k w => solver (asm k w)) reweight w0 k)))
              (solver (asm k (wseq W (Z -> Z) (fun k w => solver (asm k w)) reweight w0 k)))) ->
  forall r, loop W (Z -> Z) D (fun k w => solver (asm k w)) reweight diff below budget w0 = Some r ->
    match r_reason r with
    | Converged | EarlyExit => solves N (docA (r_state r)) (docb (r_state r)) (r_base r)
    | Exhausted => exists wprev, solves N (docA wprev) (docb wprev) (r_base r) /\
                                 r_state r = fst (reweight (budget - 1)%nat (r_base r) wprev)
    end.
Proof. exact returned_pair. Qed.
Print Assumptions C06_returned_pair.

(* the hypothesis of C06_returned_pair holds for the assembly of each method *)
Theorem C06_returned_pair_methods : forall (hp : bool) (bs : Z) (N : nat) (lam p1 : Z) (d : nat) (y : Z -> Z),
  0 < lam ->
  ((1 <= d < N)%nat -> forall (k : nat) w,
      sys_ok N (doc_asls N d lam w) (mulv w y) (first_call (asls hp bs N lam d [w] y))) /\
  ((2 <= d < N)%nat -> forall (k : nat) w,
      sys_ok N (doc_iasls N d lam p1 w) (doc_iasls_rhs N p1 w y) (first_call (iasls hp bs N lam p1 d [w] y))) /\
  ((2 <= d < N)%nat -> forall (k : nat) w,
      sys_ok N (doc_drpls N d lam p1 w) (mulv w y) (first_call (drpls hp bs N lam p1 d [w] y))) /\
  ((1 <= d < N)%nat -> forall (k : nat) (wa : (Z -> Z) * (Z -> Z)),
      sys_ok N (doc_aspls N d lam (fst wa) (snd wa)) (mulv (fst wa) y) (first_call (aspls hp bs N lam d [wa] y))).
Proof.
  intros hp bs N lam p1 d y Hl.
  exact (conj (fun H => asls_asm_ok hp bs N lam d y H Hl)
        (conj (fun H => iasls_asm_ok hp bs N lam p1 d y H Hl)
        (conj (fun H => drpls_asm_ok hp bs N lam p1 d y H Hl)
              (fun H => aspls_asm_ok hp bs N lam d y H Hl)))).
Qed.
Print Assumptions C06_returned_pair_methods.

(* ---------------- 2-D (num_eigens=None): what reaches spsolve, on row-major raveled indices p = i*N + j.
   [sys2_ok M N A b k]: the matrix handed to spsolve equals A on 0..MN-1 x 0..MN-1 and the rhs equals b.
   P2r is lam_r kron(D_r'D_r, I_N) + lam_c kron(I_M, D_c'D_c) read through (p / N, p mod N); C06_kron_penalty
   states it in pair coordinates.  diff_penalty_matrix is modelled from the C11 band tables. *)
Theorem C06_kron_penalty : forall (M N : nat) (lr lc : Z) (dr dc : nat) (i j i' j' : Z),
  0 <= j < Z.of_nat N -> 0 <= j' < Z.of_nat N ->
  P2r M N lr lc dr dc (i * Z.of_nat N + j) (i' * Z.of_nat N + j')
  = lr * DtD dr M i i' * eye j j' + lc * eye i i' * DtD dc N j j'.
Proof. exact P2r_pairs. Qed.
Print Assumptions C06_kron_penalty.

Theorem C06_diff_penalty_matrix : forall (n d : nat), (d < n)%nat ->
  exists A, dpm n d = Some A /\
    forall i j, 0 <= i < Z.of_nat n -> 0 <= j < Z.of_nat n -> A i j = DtD d n i j.
Proof. exact dpm_spec. Qed.
Print Assumptions C06_diff_penalty_matrix.

(* asls, airpls, arpls, iarpls, psalsa, brpls, lsrpls (2-D): (W + P) v = W y at every pass *)
Theorem C06_2d_asls_system : forall (M N : nat) (lr lc : Z) (dr dc : nat) (wl : list (Z -> Z)) (y : Z -> Z),
  (1 <= dr < M)%nat -> (1 <= dc < N)%nat -> 0 < lr -> 0 < lc ->
  exists cs, asls2 M N lr lc dr dc wl y = Some cs /\
    Forall2 (fun w k => sys2_ok M N (doc2_asls M N lr lc dr dc w) (mulv w y) k) wl cs.
Proof. exact asls2_system. Qed.
Print Assumptions C06_2d_asls_system.

(* iasls (2-D): (W^2 + P_1 + P) v = (W^2 + P_1) y, P_1 the first-difference Kronecker penalty with lam_1 *)
Theorem C06_2d_iasls_system : forall (M N : nat) (lr lc l1r l1c : Z) (dr dc : nat) (wl : list (Z -> Z)) (y : Z -> Z),
  (2 <= dr < M)%nat -> (2 <= dc < N)%nat -> 0 < lr -> 0 < lc -> 0 < l1r -> 0 < l1c ->
  exists cs, iasls2 M N lr lc l1r l1c dr dc wl y = Some cs /\
    Forall2 (fun w k => sys2_ok M N (doc2_iasls M N lr lc l1r l1c dr dc w)
                                 (doc2_iasls_rhs M N l1r l1c w y) k) wl cs.
Proof. exact iasls2_system. Qed.
Print Assumptions C06_2d_iasls_system.

(* drpls (2-D): (W + P_1 + (I - eta W) P) v = W y *)
Theorem C06_2d_drpls_system : forall (M N : nat) (lr lc eta : Z) (dr dc : nat) (wl : list (Z -> Z)) (y : Z -> Z),
  (2 <= dr < M)%nat -> (2 <= dc < N)%nat -> 0 < lr -> 0 < lc ->
  exists cs, drpls2 M N lr lc eta dr dc wl y = Some cs /\
    Forall2 (fun w k => sys2_ok M N (doc2_drpls M N lr lc eta dr dc w) (mulv w y) k) wl cs.
Proof. exact drpls2_system. Qed.
Print Assumptions C06_2d_drpls_system.

(* aspls (2-D): (W + diag(alpha) P) v = W y *)
Theorem C06_2d_aspls_system : forall (M N : nat) (lr lc : Z) (dr dc : nat)
    (wal : list ((Z -> Z) * (Z -> Z))) (y : Z -> Z),
  (1 <= dr < M)%nat -> (1 <= dc < N)%nat -> 0 < lr -> 0 < lc ->
  exists cs, aspls2 M N lr lc dr dc wal y = Some cs /\
    Forall2 (fun (wa : (Z -> Z) * (Z -> Z)) k =>
               sys2_ok M N (doc2_aspls M N lr lc dr dc (fst wa) (snd wa)) (mulv (fst wa) y) k) wal cs.
Proof. exact aspls2_system. Qed.
Print Assumptions C06_2d_aspls_system.

Theorem C06_2d_solves_documented : forall (M N : nat) (A : mat) (b : Z -> Z) (k : call2) (v : Z -> Z),
  sys2_ok M N A b k -> solves2 M N (c2_lhs k) (c2_rhs k) v -> solves2 M N A b v.
Proof. exact sys2_ok_solves. Qed.
Print Assumptions C06_2d_solves_documented.

(* ---------------- the vec convention (C06/Vec.v): vec = row-major flatten of the LOGICAL (M, N) array, a function
   of the values only, independent of strides; reshape with the default order is its inverse.  The flatten /
   reshape / order= sites of the 2-D Whittaker code path are read off the current source on every run
   (gen/GenC06Vec.v); the check refuses any order other than the default / 'C'. *)
Theorem C06_2d_unvec_vec : forall (N : Z) (a : Z -> Z -> Z) (i j : Z), 0 <= j < N -> unvec N (vec N a) i j = a i j.
Proof. exact unvec_vec. Qed.
Print Assumptions C06_2d_unvec_vec.

Theorem C06_2d_flatten_order_sound : forall sites : list site, check sites = true ->
  (forall s, In s sites -> forall (l : layout) M N a, np_ravel (s_ord s) l M N a = Some (vec N a)) /\
  (exists s, In s sites /\ is_site "_Algorithm2D._setup_whittaker" "ravel" "y" s = true) /\
  (exists s, In s sites /\ is_site "_Algorithm2D._setup_whittaker" "ravel" "weight_array" s = true).
Proof. exact check_sound. Qed.
Print Assumptions C06_2d_flatten_order_sound.

(* pinned source: the sites generated from the current tree pass the check *)
Theorem C06_2d_flatten_sites_pinned : check GenC06Vec.sites = true.
Proof. exact sites_checked. Qed.
Print Assumptions C06_2d_flatten_sites_pinned.

(* every other literal order flattens column-major memory differently from vec (why the check refuses it) *)
Theorem C06_2d_flatten_other_order_refuted : forall o, ord_ok o = false -> o <> OrdUnknown ->
  exists (l : layout) (a : Z -> Z -> Z) f p,
    np_ravel o l 2 3 a = Some f /\ 0 <= p < 2 * 3 /\ f p <> vec 3 a p.
Proof. exact ravel_other_refuted. Qed.
Print Assumptions C06_2d_flatten_other_order_refuted.

(* the asls-type 2-D system on logical arrays W, Y (values indexed (i, j)), in pair coordinates *)
Theorem C06_2d_asls_system_logical : forall (M N : nat) (lr lc : Z) (dr dc : nat) (Wl : list (Z -> Z -> Z)) (Y : Z -> Z -> Z),
  (1 <= dr < M)%nat -> (1 <= dc < N)%nat -> 0 < lr -> 0 < lc ->
  exists cs, asls2 M N lr lc dr dc (map (vec (Z.of_nat N)) Wl) (vec (Z.of_nat N) Y) = Some cs /\
    Forall2 (fun W k =>
      forall i j i' j', 0 <= i < Z.of_nat M -> 0 <= j < Z.of_nat N -> 0 <= i' < Z.of_nat M -> 0 <= j' < Z.of_nat N ->
        c2_lhs k (i * Z.of_nat N + j) (i' * Z.of_nat N + j')
          = (if (i =? i') && (j =? j') then W i j else 0) + P2 M N lr lc dr dc i j i' j' /\
        c2_rhs k (i * Z.of_nat N + j) = W i j * Y i j) Wl cs.
Proof. exact asls2_logical. Qed.
Print Assumptions C06_2d_asls_system_logical.

(* ---------------- the order convention (C06/Order.v): the documented systems are stated for the data as supplied --
   weight_i / alpha_i belong to data point i as supplied; the x-sorted arrays the system is assembled from are the
   GATHERS a[sort_order] of the supplied arrays.  The uses of the sort order in the Whittaker hosts are read off the
   current source on every run (gen/GenC06Order.v); a scatter (assignment through the sort order) is refused. *)
Theorem C06_order_convention_aspls : forall (N d : nat) (lam : Z) (w al y s : Z -> Z) (k j : Z),
  doc_aspls N d lam (gather w s) (gather al s) k j = diagm (fun k => w (s k)) k j + lam * al (s k) * DtD d N k j /\
  mulv (gather w s) (gather y s) k = w (s k) * y (s k).
Proof. exact aspls_order_convention. Qed.
Print Assumptions C06_order_convention_aspls.

Theorem C06_scatter_is_inverse_gather : forall (n : Z) (s sinv a : Z -> Z) (k : Z),
  inverse_on n s sinv -> 0 <= k < n -> scatter a sinv (s k) = a k.
Proof. exact scatter_spec. Qed.
Print Assumptions C06_scatter_is_inverse_gather.

(* scatter = gather for involutions (sorted or exactly reversed x) ... *)
Theorem C06_scatter_involution : forall (n : Z) (s a : Z -> Z), inverse_on n s s ->
  forall k, 0 <= k < n -> scatter a s k = gather a s k.
Proof. exact scatter_involution. Qed.
Print Assumptions C06_scatter_involution.

(* ... and not otherwise: a rotation of three points *)
Theorem C06_scatter_refuted :
  exists (s sinv a : Z -> Z) k, inverse_on 3 s sinv /\ 0 <= k < 3 /\ scatter a sinv k <> gather a s k.
Proof. exact scatter_refuted. Qed.
Print Assumptions C06_scatter_refuted.

Theorem C06_order_sites_sound : forall (l : list osite) (req : list (string * string * string)), ocheck l req = true ->
  (forall s, In s l -> o_kind s = Gather) /\ (forall r, In r req -> exists s, In s l /\ is_osite r s = true).
Proof. exact ocheck_sound. Qed.
Print Assumptions C06_order_sites_sound.

(* pinned source: the sort-order uses generated from the current tree are all gathers and the required ones exist *)
Theorem C06_order_sites_pinned : ocheck GenC06Order.osites required = true.
Proof. exact osites_checked. Qed.
Print Assumptions C06_order_sites_pinned.

(* ---------------- 2-D eigendecomposition path: each axis gets the eigenpairs of its OWN (points, diff_order, num_eigens).
   The condition under which WhittakerSystem2D.reset_diagonals re-uses the rows' decomposition for the columns is read
   off the current source on every run (gen/GenC06EigShare.v); it must compare all three components. *)
Theorem C06_2d_eigen_share_sound : forall (T : Type) (E : key -> T) (c : option flags) (krow kcol : key),
  flags_ok c = true -> cols_used E c krow kcol = E kcol.
Proof. exact @share_sound. Qed.
Print Assumptions C06_2d_eigen_share_sound.

Theorem C06_2d_eigen_share_refuted : forall f : flags, flags_ok (Some f) = false ->
  exists krow kcol : key, cols_used (fun k => k) (Some f) krow kcol <> kcol.
Proof. exact share_refuted. Qed.
Print Assumptions C06_2d_eigen_share_refuted.

Theorem C06_2d_eigen_share_pinned : echeck = true.
Proof. exact eigshare_checked. Qed.
Print Assumptions C06_2d_eigen_share_pinned.

(* utils.whittaker_smooth with diff_order = 0 (accepted by the code; D_0 = I), the case excluded above: every N >= 1 *)
Theorem C06_whittaker_smooth_d0_system : forall (hp : bool) (N : nat) (lam : Z) (w y : Z -> Z),
  (0 < N)%nat -> 0 < lam ->
  exists k, whittaker_smooth hp N lam 0 w y = Some k /\ sys_ok N (doc_asls N 0 lam w) (mulv w y) k.
Proof. exact whittaker_smooth_d0_system. Qed.
Print Assumptions C06_whittaker_smooth_d0_system.

(* ---------------- homogeneity (C06/Homog.v): the exact-input correspondence rescales dyadic weights by a power of two S;
   the model run on (S*lam, S*w) -- iasls: (S^2*lam, S^2*lam_1, S*w) -- denotes S (S^2) times the system of (lam, w) at
   every pass and for every solver setting, right-hand side included, so the scaled comparison is a comparison of the
   unscaled rational system. *)
Theorem C06_asls_homogeneous : forall (hp : bool) (bs : Z) (N : nat) (lam : Z) (d : nat) (wl : list (Z -> Z)) (y : Z -> Z) (S : Z),
  (1 <= d < N)%nat -> 0 < lam -> 0 < S ->
  exists cs cs', asls hp bs N lam d wl y = Some cs /\
    asls hp bs N (S * lam) d (map (fun w i => S * w i) wl) y = Some cs' /\
    Forall2 (scaled N S) cs cs'.
Proof. exact asls_homogeneous. Qed.
Print Assumptions C06_asls_homogeneous.

Theorem C06_iasls_homogeneous : forall (hp : bool) (bs : Z) (N : nat) (lam lam1 : Z) (d : nat) (wl : list (Z -> Z)) (y : Z -> Z) (S : Z),
  (2 <= d < N)%nat -> 0 < lam -> 0 < S ->
  exists cs cs', iasls hp bs N lam lam1 d wl y = Some cs /\
    iasls hp bs N (S * S * lam) (S * S * lam1) d (map (fun w i => S * w i) wl) y = Some cs' /\
    Forall2 (scaled N (S * S)) cs cs'.
Proof. exact iasls_homogeneous. Qed.
Print Assumptions C06_iasls_homogeneous.

(* non-vacuity: concrete instances (pentapy and LAPACK layouts) evaluate to calls that denote the
   documented matrices; the hypotheses of C06_returned_pair are satisfiable and a run converges *)
Example C06_systems_nonvacuous :
  match asls true 1 7 4 2 [fun i => i mod 3; fun _ => 1] (fun i => i * i - 5),
        drpls false 4 6 8 1 3 [fun i => i mod 2] (fun i => 7 - i),
        aspls true 2 5 2 2 [(fun i => 1 + i mod 2, fun i => i)] (fun i => i) with
  | Some [k1; k2], Some [k3], Some [k4] =>
      k_solver k1 = Penta /\ k_solver k3 = SolveBanded 3 3 /\ k_solver k4 = Penta /\
      dense 7 (den k2) = dense 7 (doc_asls 7 2 4 (fun _ => 1)) /\
      dense 6 (den k3) = dense 6 (doc_drpls 6 3 8 1 (fun i => i mod 2)) /\
      dense 5 (den k4) = dense 5 (doc_aspls 5 2 2 (fun i => 1 + i mod 2) (fun i => i))
  | _, _, _ => False
  end.
Proof. exact systems_nonvacuous. Qed.

Example C06_returned_pair_nonvacuous :
  let y := fun _ : Z => 0 in
  let asm := fun (k : nat) (w : Z -> Z) => first_call (asls false 4 3 1 1 [w] y) in
  let solver := fun (_ : call) (_ : Z) => 0 in
  (forall k w, sys_ok 3 (doc_asls 3 1 1 w) (mulv w y) (asm k w)) /\
  (forall k w, solves 3 (den (asm k w)) (k_rhs (asm k w)) (solver (asm k w))) /\
  exists r, loop (Z -> Z) (Z -> Z) unit (fun k w => solver (asm k w)) (fun _ _ w => (w, false))
                 (fun _ _ _ _ => tt) (fun _ => true) 1 (fun _ => 1) = Some r /\ r_reason r = Converged.
Proof. exact returned_pair_nonvacuous. Qed.

Example C06_2d_systems_nonvacuous :
  match asls2 4 3 2 8 2 1 [fun p => p mod 3; fun _ => 1] (fun p => p * p - 7),
        drpls2 4 5 4 2 1 2 3 [fun p => p mod 2] (fun p => 9 - p) with
  | Some [k1; k2], Some [k3] =>
      dense 12 (c2_lhs k2) = dense 12 (doc2_asls 4 3 2 8 2 1 (fun _ => 1)) /\
      dense 20 (c2_lhs k3) = dense 20 (doc2_drpls 4 5 4 2 1 2 3 (fun p => p mod 2)) /\
      P2r 4 3 2 8 2 1 (1 * 3 + 2) (2 * 3 + 2) = 2 * DtD 2 4 1 2
  | _, _ => False
  end.
Proof. exact systems2_nonvacuous. Qed.
