(* Property C12 -- the spline design matrix is the B-spline basis; its normal equations are exact.
   All statements are about the executable models in C12/Model.v of the compiled kernels of
   pybaselines/_spline_utils.py (_find_interval, _de_boor, __make_design_matrix, _numba_btb_bty).  The SAME
   definitions, instantiated with binary64 floats, are compared bit-for-bit with the implementation on
   every run (harness/c12.py).  Theorems are over the rationals (order/field facts) or over an
   arbitrary commutative semiring (B'WB, B'Wy); float rounding is outside (see claims/C12.json). *)
From Coq Require Import List Arith Bool Lia QArith Setoid Morphisms Ring ZArith.
From PB Require Import C12.Num C12.LArr C12.Model C12.Refine C12.ProofsQ C12.Btb C12.CoxDeBoor C12.Proofs C12.Btwb2D C12.Btwy2D C12.BsplUnity.
Import ListNotations.

(* _find_interval returns THE knot interval of x, for every starting hint (also out-of-range hints),
   every number of knots and degree; knots only need to be non-decreasing; x on a knot belongs to the
   interval starting there; x on the right end belongs to the last interval. *)
Theorem C12_interval : forall (knots : list Q) (k nb : nat) (x : Q) (last_left : nat),
  (k < nb)%nat -> (nb < length knots)%nat -> sortedQ knots ->
  (gQ knots k <= x <= gQ knots nb)%Q ->
  let l := find_interval Num_Q knots k x last_left nb in
  (k <= l < nb)%nat /\ (gQ knots l <= x)%Q /\
  ((x < gQ knots (l + 1))%Q \/ ((l + 1 = nb)%nat /\ x == gQ knots nb)) /\
  (forall l', (k <= l' < nb)%nat -> (gQ knots l' <= x < gQ knots (l' + 1))%Q -> l' = l).
Proof. exact interval_full. Qed.
Print Assumptions C12_interval.

(* every row of the design matrix sums to one (each de Boor sweep redistributes the mass) *)
Theorem C12_row_sum_one : forall (x knots : list Q) (k : nat),
  knots_ok knots k -> x_ok x knots k ->
  let '(data, _, _) := make_design_matrix Num_Q x knots k in
  forall i, (i < length x)%nat -> sumQ (k + 1) (fun j => gQ data (i * (k + 1) + j)%nat) == 1.
Proof. exact row_sum_one. Qed.
Print Assumptions C12_row_sum_one.

(* every stored entry is non-negative *)
Theorem C12_nonneg : forall (x knots : list Q) (k : nat),
  knots_ok knots k -> x_ok x knots k ->
  let '(data, _, _) := make_design_matrix Num_Q x knots k in
  forall p, (0 <= gQ data p)%Q.
Proof. exact nonneg. Qed.
Print Assumptions C12_nonneg.

(* row i of the CSR triplet occupies the k+1 consecutive columns l-k .. l (all inside the matrix),
   where l is the knot interval of x[i] *)
Theorem C12_support : forall (x knots : list Q) (k : nat),
  knots_ok knots k -> x_ok x knots k ->
  let nb := (length knots - (k + 1))%nat in
  let '(data, row, col) := make_design_matrix Num_Q x knots k in
  length data = (length x * (k + 1))%nat /\ length row = (length x * (k + 1))%nat /\
  length col = (length x * (k + 1))%nat /\
  forall i, (i < length x)%nat -> exists l,
    (k <= l < nb)%nat /\ (gQ knots l <= gQ x i)%Q /\
    ((gQ x i < gQ knots (l + 1))%Q \/ ((l + 1 = nb)%nat /\ gQ x i == gQ knots nb)) /\
    forall j, (j <= k)%nat ->
      nth (i * (k + 1) + j) row 0%nat = i /\ nth (i * (k + 1) + j) col 0%nat = (l - k + j)%nat.
Proof. exact support. Qed.
Print Assumptions C12_support.

(* the index part of the layout holds for ANY arithmetic (so also for the binary64 run, NaNs included) *)
Theorem C12_layout_any_arithmetic : forall (N : Num) (x knots : list (T N)) (k : nat),
  let nb := (length knots - (k + 1))%nat in
  (k < nb)%nat ->
  let '(data, row, col) := make_design_matrix N x knots k in
  length data = (length x * (k + 1))%nat /\ length row = (length x * (k + 1))%nat /\
  length col = (length x * (k + 1))%nat /\
  forall i, (i < length x)%nat -> exists l, (k <= l < nb)%nat /\
    forall j, (j <= k)%nat ->
      nth (i * (k + 1) + j) row 0%nat = i /\ nth (i * (k + 1) + j) col 0%nat = (l - k + j)%nat.
Proof. exact layout. Qed.
Print Assumptions C12_layout_any_arithmetic.

(* the in-place work/temp algorithm of _de_boor computes the pure two-term recurrence W, in ANY
   arithmetic and for ANY previous content of `work` (it persists between rows) *)
Theorem C12_de_boor_inplace : forall (N : Num) (knots : list (T N)) (x : T N) (ell k : nat) (work : list (T N)),
  (k < length work)%nat ->
  length (de_boor N knots x k ell work) = length work /\
  forall j, (j <= k)%nat -> Model.g N (de_boor N knots x k ell work) j = W N knots x ell k j.
Proof. exact de_boor_spec. Qed.
Print Assumptions C12_de_boor_inplace.

(* the stored values ARE the Cox-de Boor basis functions: entry j of row i is N_{l-k+j, k}(x[i]) *)
Theorem C12_cox_de_boor : forall (x knots : list Q) (k : nat),
  knots_ok knots k -> x_ok x knots k ->
  let nb := (length knots - (k + 1))%nat in
  let '(data, _, col) := make_design_matrix Num_Q x knots k in
  forall i j, (i < length x)%nat -> (j <= k)%nat ->
    gQ data (i * (k + 1) + j) == bspl knots nb (gQ x i) k (nth (i * (k + 1) + j) col 0%nat) /\
    forall c, (c < nb)%nat -> (forall j', (j' <= k)%nat -> nth (i * (k + 1) + j') col 0%nat <> c) ->
      bspl knots nb (gQ x i) k c == 0.
Proof. exact cox_de_boor. Qed.
Print Assumptions C12_cox_de_boor.

(* _numba_btb_bty: over any commutative semiring (hence any commutative ring), for every weight
   vector (zeros included), every y, every number of points (also fewer than basis functions):
     ab[d, c]  = ab0[d, c] + sum_i w_i * B[i, c+d] * B[i, c]      (0 <= d <= k; zero beyond the matrix)
     rhs[r]    = rhs0[r]   + sum_i w_i * B[i, r] * y_i
   where B is the matrix denoted by the CSR data and the intervals the kernel itself finds. *)
Theorem C12_btb_exact : forall (N : Num) (req : T N -> T N -> Prop),
  Equivalence req -> Proper (req ==> req ==> req) (add N) -> Proper (req ==> req ==> req) (mul N) ->
  semi_ring_theory (zero N) (one N) (add N) (mul N) req ->
  forall (x knots : list (T N)) (k : nat) (y weights : list (T N)) (ab0 : list (list (T N)))
         (rhs0 data : list (T N)) (nb : nat),
  nb = (length knots - (k + 1))%nat -> (k < nb)%nat -> shape N ab0 (k + 1) nb -> length rhs0 = nb ->
  let '(ab, rhs) := numba_btb_bty N x knots k y weights ab0 rhs0 data in
  shape N ab (k + 1) nb /\ length rhs = nb /\
  (forall dd c, (dd <= k)%nat ->
     req (get2 N ab dd c)
         (add N (get2 N ab0 dd c)
            (sumR N (length x) (fun i => mul N (mul N (Model.g N weights i) (Bmat N x knots k data i (c + dd)))
                                               (Bmat N x knots k data i c))))) /\
  (forall r,
     req (Model.g N rhs r)
         (add N (Model.g N rhs0 r)
            (sumR N (length x) (fun i => mul N (mul N (Model.g N weights i) (Bmat N x knots k data i r))
                                               (Model.g N y i))))).
Proof. exact btb_exact. Qed.
Print Assumptions C12_btb_exact.

(* the matrix B of C12_btb_exact is the one __make_design_matrix produced: its row i has the stored
   values at the stored column indices and zero elsewhere (any arithmetic) *)
Theorem C12_bmat_is_design_matrix : forall (N : Num) (x knots : list (T N)) (k : nat),
  let nb := (length knots - (k + 1))%nat in
  (k < nb)%nat ->
  let '(data, _, col) := make_design_matrix N x knots k in
  forall i c, (i < length x)%nat ->
    (forall j, (j <= k)%nat -> nth (i * (k + 1) + j) col 0%nat = c ->
       Bmat N x knots k data i c = Model.g N data (i * (k + 1) + j)) /\
    ((forall j, (j <= k)%nat -> nth (i * (k + 1) + j) col 0%nat <> c) -> Bmat N x knots k data i c = zero N).
Proof. exact bmat_design. Qed.
Print Assumptions C12_bmat_is_design_matrix.

(* 2-D: SplineBasis2D._make_btwb (face-splitting products, G_r' W G_c, reshape (P,P,Q,Q) -> transpose [0,2,1,3] ->
   reshape (PQ,PQ), modelled with the div/mod maps of C-ordered data) is, entry by entry and for EVERY weight
   matrix, (B_r (x) B_c)' diag(vec W) (B_r (x) B_c); any commutative semiring, any shapes. *)
Theorem C12_btwb_2d : forall (N : Num) (req : T N -> T N -> Prop),
  Equivalence req -> Proper (req ==> req ==> req) (add N) -> Proper (req ==> req ==> req) (mul N) ->
  semi_ring_theory (zero N) (one N) (add N) (mul N) req ->
  forall (M Nn P Q : nat) (Br W Bc : mat N) (a b c d : nat),
  (a < P)%nat -> (b < P)%nat -> (c < Q)%nat -> (d < Q)%nat ->
  req (make_btwb N M Nn P Q Br W Bc (a * Q + c)%nat (b * Q + d)%nat)
      (sumR N Nn (fun j => sumR N M (fun i =>
         mul N (mul N (W i j) (mul N (Br i a) (Bc j c))) (mul N (Br i b) (Bc j d))))).
Proof. exact make_btwb_kron. Qed.
Print Assumptions C12_btwb_2d.

(* ... and for separable weights W[i,j] = u_i v_j it is the Kronecker product of the two weighted 1-D normal
   matrices sum_i u_i B[i,a] B[i,b] of C12_btb_exact.  Constant weights w are u = w, v = 1: the result is
   w * (B_r'B_r (x) B_c'B_c); the weight value never drops out (unit weights are the only case where it may). *)
Theorem C12_btwb_2d_separable : forall (N : Num) (req : T N -> T N -> Prop),
  Equivalence req -> Proper (req ==> req ==> req) (add N) -> Proper (req ==> req ==> req) (mul N) ->
  semi_ring_theory (zero N) (one N) (add N) (mul N) req ->
  forall (M Nn P Q : nat) (Br W Bc : mat N) (u v : nat -> T N) (a b c d : nat),
  (a < P)%nat -> (b < P)%nat -> (c < Q)%nat -> (d < Q)%nat ->
  (forall i j, (i < M)%nat -> (j < Nn)%nat -> req (W i j) (mul N (u i) (v j))) ->
  req (make_btwb N M Nn P Q Br W Bc (a * Q + c)%nat (b * Q + d)%nat)
      (mul N (sumR N M (fun i => mul N (mul N (u i) (Br i a)) (Br i b)))
             (sumR N Nn (fun j => mul N (mul N (v j) (Bc j c)) (Bc j d)))).
Proof. exact make_btwb_separable. Qed.
Print Assumptions C12_btwb_2d_separable.

(* 2-D right-hand side: the model of `(basis_r.T @ (weights * y) @ basis_c).ravel()` of PSpline2D.solve (the statement
   is pinned in the source on every run) is, entry by entry, (B_r (x) B_c)' diag(vec W) vec(Y); any commutative
   semiring, every weight matrix and data, all shapes (M <> N, P <> Q included). *)
Theorem C12_btwy_2d : forall (N : Num) (req : T N -> T N -> Prop),
  Equivalence req -> Proper (req ==> req ==> req) (add N) -> Proper (req ==> req ==> req) (mul N) ->
  semi_ring_theory (zero N) (one N) (add N) (mul N) req ->
  forall (M Nn Q : nat) (Br W Y Bc : mat N) (a c : nat), (c < Q)%nat ->
  req (make_btwy N M Nn Q Br W Y Bc (a * Q + c)%nat)
      (sumR N Nn (fun j => sumR N M (fun i => mul N (mul N (W i j) (Y i j)) (mul N (Br i a) (Bc j c))))).
Proof. exact make_btwy_kron. Qed.
Print Assumptions C12_btwy_2d.

(* ... and for separable (in particular constant) weights W[i,j] = u_i v_j it is B_r' diag(u) Y diag(v) B_c: both weight
   factors stay in the sum, matching the factorisation of the matrix in C12_btwb_2d_separable. *)
Theorem C12_btwy_2d_separable : forall (N : Num) (req : T N -> T N -> Prop),
  Equivalence req -> Proper (req ==> req ==> req) (add N) -> Proper (req ==> req ==> req) (mul N) ->
  semi_ring_theory (zero N) (one N) (add N) (mul N) req ->
  forall (M Nn Q : nat) (Br W Y Bc : mat N) (u v : nat -> T N) (a c : nat), (c < Q)%nat ->
  (forall i j, (i < M)%nat -> (j < Nn)%nat -> req (W i j) (mul N (u i) (v j))) ->
  req (make_btwy N M Nn Q Br W Y Bc (a * Q + c)%nat)
      (sumR N Nn (fun j => mul N (mul N (v j) (Bc j c)) (sumR N M (fun i => mul N (mul N (u i) (Br i a)) (Y i j))))).
Proof. exact make_btwy_separable. Qed.
Print Assumptions C12_btwy_2d_separable.

(* the Cox-de Boor basis functions themselves (the recursion, independently of the kernels), for EVERY degree, every
   non-decreasing knot vector with t[nb-1] < t[nb] and every x in [t_k, t_nb] (knots and both ends included):
   non-negative, and summing to one over the nb basis functions *)
Theorem C12_bspl_nonneg : forall (knots : list Q) (k : nat) (x : Q),
  knots_ok knots k ->
  (gQ knots k <= x <= gQ knots (length knots - (k + 1)))%Q ->
  forall c, (c < length knots - (k + 1))%nat -> (0 <= bspl knots (length knots - (k + 1)) x k c)%Q.
Proof. exact bspl_nonneg. Qed.
Print Assumptions C12_bspl_nonneg.

Theorem C12_bspl_partition_of_unity : forall (knots : list Q) (k : nat) (x : Q),
  knots_ok knots k ->
  (gQ knots k <= x <= gQ knots (length knots - (k + 1)))%Q ->
  sumQ (length knots - (k + 1)) (bspl knots (length knots - (k + 1)) x k) == 1.
Proof. exact bspl_partition_of_unity. Qed.
Print Assumptions C12_bspl_partition_of_unity.

(* hypotheses are satisfiable; the ring laws hold for Q (with Qeq) and Z *)
Example C12_hypotheses_nonvacuous :
  knots_ok [0; 1; 2; 3]%Q 1 /\ x_ok [1; 3 # 2; 2]%Q [0; 1; 2; 3]%Q 1 /\
  semi_ring_theory (zero Num_Q) (one Num_Q) (add Num_Q) (mul Num_Q) Qeq /\
  semi_ring_theory (zero Num_Z) (one Num_Z) (add Num_Z) (mul Num_Z) (@eq Z).
Proof. split; [apply example_ok|]. split; [apply example_ok|]. split; [exact Q_srt|exact Z_srt]. Qed.
