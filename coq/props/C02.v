(* Property C02 -- results do not depend on the order in which x (and z) values are supplied.
   This file contains only the property theorems; each is closed by an exact lemma.
   Models: lib/Perm.v (utils._inverted_sort as coded, stable argsort, _determine_sorts, _sort_array),
   C02/Model.v (the 1-D and 2-D wrappers with an ARBITRARY method body), C02/OrderFlow.v (order
   discipline of the method bodies; table generated from the source in gen/GenOrderFlow.v). *)
From Coq Require Import ZArith List Bool Arith Lia Permutation Sorted.
From Coq Require Import String.
From PB Require Import lib.Perm lib.PermProofs C02.Model C02.Proofs C02.Proofs2D C02.Wrapper2D C02.WrapperG C02.CollabModel C02.CollabProofs C02.OptModel C02.OptProofs C02.OrderFlow C02.OrderFlowProofs C02.Sites gen.GenOrderFlow.
Import ListNotations.
Close Scope Z_scope.
Open Scope string_scope.
Open Scope nat_scope.
Notation length := List.length.

(* a == a[sort_order][inverted_order] for EVERY permutation (not only reversal), with the inverse
   built by the sequential scatter of utils._inverted_sort; the inverse of the inverse is the sort. *)
Theorem C02_inverse : forall (A : Type) (d : A) (a : list A) (p : list nat) (n : nat),
  length a = n -> Permutation p (seq 0 n) ->
  gather d (gather d a p) (inverted_sort p) = a /\
  gather d (gather d a (inverted_sort p)) p = a /\
  inverted_sort (inverted_sort p) = p /\
  Permutation (inverted_sort p) (seq 0 n).
Proof.
  intros A d a p n L H. repeat split.
  - exact (gather_inverse d a p n L H).
  - exact (gather_inverse' d a p n L H).
  - exact (inverted_sort_involutive p n H).
  - exact (inverted_sort_perm p n H).
Qed.
Print Assumptions C02_inverse.

(* data.argsort(kind='mergesort') as modelled is a permutation that sorts, and for pairwise
   distinct keys it is the ONLY permutation that sorts. *)
Theorem C02_argsort : forall x : list Z,
  Permutation (argsort x) (seq 0 (length x)) /\
  StronglySorted Z.le (gather 0%Z x (argsort x)) /\
  (NoDup x -> forall p, Permutation p (seq 0 (length x)) ->
     StronglySorted Z.le (gather 0%Z x p) -> p = argsort x).
Proof.
  intro x. repeat split.
  - exact (argsort_perm x).
  - exact (argsort_sorted x).
  - intros ND p Hp S. exact (argsort_unique x p ND Hp S).
Qed.
Print Assumptions C02_argsort.

(* _determine_sorts returns (None, None) exactly when the stable argsort is arange(n); then
   skipping the sort is the same as sorting. *)
Theorem C02_determine_sorts : forall x : list Z,
  (determine_sorts x = None <-> argsort x = seq 0 (length x)) /\
  (forall s i, determine_sorts x = Some (s, i) -> s = argsort x /\ i = inverted_sort s).
Proof.
  intro x. split; [split|].
  - unfold determine_sorts. destruct (incr (argsort x)) eqn:E; [|discriminate].
    intros _. exact (incr_identity _ _ (argsort_perm x) E).
  - intro E. unfold determine_sorts. rewrite E, incr_seq. reflexivity.
  - intros s i. unfold determine_sorts. destruct (incr (argsort x)); [discriminate|].
    intro H. injection H; intros; subst; auto.
Qed.
Print Assumptions C02_determine_sorts.

(* THE 1-D EQUIVARIANCE.  For pairwise distinct x, ANY permutation pi, ANY method body that is a
   function of the sorted x, the sorted data and the sorted optional per-point input and that
   returns per-point arrays:  the wrapper applied to consistently permuted inputs returns the
   correspondingly permuted baseline and [sort_keys] parameters.  A sort_keys entry is a list of N
   ROWS of an arbitrary type E -- shape (N,), (N, k) (e.g. loess' 'coef'), ... -- and
   _return_results indexes the leading axis of every entry that is present, whatever its number of
   dimensions. *)
Theorem C02_wrapper_equivariant :
  forall (D E : Type) (d0 : D) (e0 : E)
         (body : list Z -> list D -> option (list D) -> list D * list (list E)),
    (forall xs ys ws, length ys = length xs ->
                      match ws with None => True | Some w' => length w' = length xs end ->
                      length (fst (body xs ys ws)) = length xs /\
                      Forall (fun p => length p = length xs) (snd (body xs ys ws))) ->
  forall (x : list Z) (y : list D) (w : option (list D)) (pi : list nat),
    NoDup x -> length y = length x ->
    match w with None => True | Some w' => length w' = length x end ->
    Permutation pi (seq 0 (length x)) ->
    wrapperG D E d0 e0 body (gather 0%Z x pi) (gather d0 y pi) (option_map (fun w' => gather d0 w' pi) w)
    = permute_outG D E d0 e0 pi (wrapperG D E d0 e0 body x y w).
Proof.
  intros D E d0 e0 body Hlen x y w pi. exact (wrapperG_equivariant D E d0 e0 body Hlen x y w pi).
Qed.
Print Assumptions C02_wrapper_equivariant.

(* the hypotheses are satisfiable and the statement is not about the identity only: a concrete
   non-involutive permutation, a body that depends on positions *)
Example C02_wrapper_equivariant_nonvacuous :
  let body := fun (xs : list Z) (ys : list Z) (ws : option (list Z)) =>
                (map (fun k => (nth k ys 0 + 10 * Z.of_nat k)%Z) (seq 0 (length xs)), [xs]) in
  let x := [30; 10; 40; 20]%Z in
  let pi := [1; 2; 0; 3] in
  NoDup x /\ Permutation pi (seq 0 4) /\ gather 0 pi pi <> seq 0 4 /\
  wrapper Z 0%Z body x [3; 1; 4; 2]%Z None = ([23; 1; 34; 12]%Z, [[30; 10; 40; 20]%Z]).
Proof.
  cbv zeta. repeat split.
  - repeat constructor; simpl; intuition discriminate.
  - apply (Permutation_trans (l' := [0; 1; 2; 3])); [|apply Permutation_refl].
    apply Permutation_sym. apply (perm_trans (l' := [1; 0; 2; 3])); [apply perm_swap|].
    apply perm_skip. apply perm_swap.
  - vm_compute. discriminate.
Qed.

(* THE DATA-LESS ENTRY.  _register.inner(self, data=None, ...) sorts the data on entry only when it is
   given, but un-sorts the baseline on exit whenever the decorator's skip_sorting is off (wrapperN;
   the two conditions are read from the source by the translator, see C02_flow_table).  For a
   method that may be called without data (interp_pts builds its baseline from the sorted self.x)
   the permuted call still returns the permuted baseline and sort_keys entries, with or without
   data. *)
Theorem C02_wrapper_nodata_equivariant :
  forall (D E : Type) (d0 : D) (e0 : E)
         (body : list Z -> option (list D) -> option (list D) -> list D * list (list E)),
    (forall xs ys ws,
        match ys with None => True | Some y' => length y' = length xs end ->
        match ws with None => True | Some w' => length w' = length xs end ->
        length (fst (body xs ys ws)) = length xs /\
        Forall (fun p => length p = length xs) (snd (body xs ys ws))) ->
  forall (x : list Z) (y : option (list D)) (w : option (list D)) (pi : list nat),
    NoDup x -> match y with None => True | Some y' => length y' = length x end ->
    match w with None => True | Some w' => length w' = length x end ->
    Permutation pi (seq 0 (length x)) ->
    wrapperN D E d0 e0 body false (gather 0%Z x pi) (option_map (fun y' => gather d0 y' pi) y)
             (option_map (fun w' => gather d0 w' pi) w)
    = permute_outG D E d0 e0 pi (wrapperN D E d0 e0 body false x y w).
Proof.
  intros D E d0 e0 body H x y w pi. exact (wrapperN_equivariant D E d0 e0 body H x y w pi).
Qed.
Print Assumptions C02_wrapper_nodata_equivariant.

(* without data the baseline of a body that returns the (sorted) x itself comes back in the SUPPLIED order *)
Example C02_wrapper_nodata_nonvacuous :
  wrapperN Z Z 0%Z 0%Z (fun xs _ _ => (xs, [])) false [30; 10; 20]%Z None None = ([30; 10; 20]%Z, []).
Proof. vm_compute. reflexivity. Qed.

(* the wrappers with entries of the element type of the baseline (used by the optimizer models)
   are the instances E = D *)
Theorem C02_wrapper_instances :
  (forall D d0 body x y w, wrapper D d0 body x y w = wrapperG D D d0 d0 body x y w) /\
  (forall D d0 body2 x z y w, wrapper2 D d0 body2 x z y w = wrapper2G D D d0 d0 body2 x z y w).
Proof. split; reflexivity. Qed.
Print Assumptions C02_wrapper_instances.

(* entries of shape (N,) (rows of one number) and (N, 2) side by side *)
Example C02_wrapper_rows_nonvacuous :
  let body := fun (xs ys : list Z) (_ : option (list Z)) =>
                (ys, [map (fun v => [v]) ys; map (fun k => [Z.of_nat k; nth k xs 0%Z]) (seq 0 (length xs))]) in
  wrapperG Z (list Z) 0%Z [] body [30; 10; 20]%Z [3; 1; 2]%Z None
  = ([3; 1; 2]%Z, [[[3]; [1]; [2]]%Z; [[2; 30]; [0; 10]; [1; 20]]%Z]).
Proof. vm_compute. reflexivity. Qed.

(* optimize_extended_range (optimizers.py:322-339): the extended sort order is a permutation of the
   extended index set and sorts the extended data -- the added parts stay where they are, the
   original part is sorted by the original order -- for every side, every added_window, every
   order s.  (User weights are padded in the supplied order, which is the extended supplied order.) *)
Theorem C02_extended_order :
  forall (A : Type) (d : A) (sd : side) (s : list nat) (n aw : nat) (l y r : list A),
    Permutation s (seq 0 n) -> length l = aw -> length r = aw -> length y = n ->
    gather d (extended_data sd l y r) (extended_order sd s n aw) = extended_data sd l (gather d y s) r /\
    Permutation (extended_order sd s n aw)
                (seq 0 (match sd with SBoth => aw + n + aw | _ => n + aw end)).
Proof.
  intros A d sd s n aw l y r Hs Ll Lr Ly. split.
  - apply (extended_order_sorts A d sd s n aw l y r Ll Lr Ly).
    intros i Hi. exact (is_perm_lt s n i Hs Hi).
  - exact (extended_order_perm sd s n aw Hs).
Qed.
Print Assumptions C02_extended_order.

(* 2-D: gathering rows and columns by any two permutations and then by the inverses built by
   _inverted_sort gives the array back. *)
Theorem C02_inverse_2d :
  forall (D : Type) (d0 : D) (a : list (list D)) (px pz : list nat) (n m : nat),
    length a = n -> Forall (fun row => length row = m) a ->
    Permutation px (seq 0 n) -> Permutation pz (seq 0 m) ->
    gather2 D d0 (gather2 D d0 a px pz) (inverted_sort px) (inverted_sort pz) = a.
Proof.
  intros D d0 a px pz n m La Fa Hx Hz. exact (gather2_inverse D d0 a px pz n m (conj La Fa) Hx Hz).
Qed.
Print Assumptions C02_inverse_2d.

(* THE 2-D EQUIVARIANCE.  _Algorithm2D.__init__ builds _sort_order/_inverted_order in one of the
   four layouts None | x_order | (..., z_order) | (x_order[:,None], z_order[None,:]) (mk_order2 of
   the two _determine_sorts results), utils._sort_array2d applies them (sort_array2d), and
   _return_results un-sorts the baseline and every sort_keys entry.  For pairwise distinct x and
   pairwise distinct z, INDEPENDENT permutations px, pz (either may be the identity: x only /
   z only), any body that maps n x m arrays to n x m arrays:  permuting x, z, the data and the
   optional per-point input consistently permutes every output the same way.  sort_keys entries
   are M x N arrays of rows of an arbitrary type E: shape (M, N), (M, N, k), ... *)
Theorem C02_wrapper2_equivariant :
  forall (D E : Type) (d0 : D) (e0 : E)
         (body2 : list Z -> list Z -> list (list D) -> option (list (list D))
                  -> list (list D) * list (list (list E))),
    (forall xs zs ys ws,
        rect D ys (length xs) (length zs) ->
        match ws with None => True | Some w' => rect D w' (length xs) (length zs) end ->
        rect D (fst (body2 xs zs ys ws)) (length xs) (length zs) /\
        Forall (fun p => rect E p (length xs) (length zs)) (snd (body2 xs zs ys ws))) ->
  forall (x z : list Z) (y : list (list D)) (w : option (list (list D))) (px pz : list nat),
    NoDup x -> NoDup z -> rect D y (length x) (length z) ->
    match w with None => True | Some w' => rect D w' (length x) (length z) end ->
    Permutation px (seq 0 (length x)) -> Permutation pz (seq 0 (length z)) ->
    wrapper2G D E d0 e0 body2 (gather 0%Z x px) (gather 0%Z z pz) (gather2 D d0 y px pz)
              (option_map (fun w' => gather2 D d0 w' px pz) w)
    = permute_out2G D E d0 e0 px pz (wrapper2G D E d0 e0 body2 x z y w).
Proof.
  intros D E d0 e0 body2 H x z y w px pz. exact (wrapper2G_equivariant D E d0 e0 body2 H x z y w px pz).
Qed.
Print Assumptions C02_wrapper2_equivariant.

Example C02_wrapper2_equivariant_nonvacuous :
  let body2 := fun (xs zs : list Z) (ys : list (list Z)) (_ : option (list (list Z))) =>
                 (tab2 Z (length xs) (length zs)
                       (fun i j => (nth2 Z 0%Z ys i j + 100 * Z.of_nat i + 10 * Z.of_nat j)%Z), []) in
  wrapper2 Z 0%Z body2 [3; 1; 2]%Z [20; 10]%Z [[1; 2]; [3; 4]; [5; 6]]%Z None
  = ([[211; 202]; [13; 4]; [115; 106]]%Z, []) /\
  wrapper2 Z 0%Z body2 [3; 1; 2]%Z [10; 20]%Z [[1; 2]; [3; 4]; [5; 6]]%Z None
  = ([[201; 212]; [3; 14]; [105; 116]]%Z, []).
Proof. vm_compute. split; reflexivity. Qed.

(* ---------------------------------------------------------------- methods that skip the wrapper *)
(* adaptive_minmax (1-D): weights sorted with _sort_order, edges written at [:kl] / [n-kr:], both
   arrays un-sorted with _inverted_order.  For EVERY permutation of the supplied order both arrays
   handed to the polynomial method are the correspondingly permuted ones, and after that method's
   own sort the constrained points are the kl smallest / kr largest x.  (An implementation that
   confuses the sort with its inverse satisfies this for involutions only.) *)
Theorem C02_adaptive_minmax :
  forall (D : Type) (d0 : D) (x : list Z) (w : list D) (pi : list nat) (kl kr : nat) (wl wr : D),
    length w = length x ->
    (gather d0 (fst (amm_weights D d0 x w kl kr wl wr)) (argsort x) = gather d0 w (argsort x) /\
     gather d0 (snd (amm_weights D d0 x w kl kr wl wr)) (argsort x)
     = edge_write D d0 (gather d0 w (argsort x)) kl kr wl wr) /\
    (NoDup x -> Permutation pi (seq 0 (length x)) ->
     amm_weights D d0 (gather 0%Z x pi) (gather d0 w pi) kl kr wl wr
     = (gather d0 (fst (amm_weights D d0 x w kl kr wl wr)) pi,
        gather d0 (snd (amm_weights D d0 x w kl kr wl wr)) pi)).
Proof.
  intros D d0 x w pi kl kr wl wr L. split.
  - exact (amm_sorted_frame D d0 x w kl kr wl wr L).
  - intros ND Hpi. exact (amm_equivariant D d0 x w pi kl kr wl wr ND L Hpi).
Qed.
Print Assumptions C02_adaptive_minmax.

Theorem C02_adaptive_minmax_2d :
  forall (D : Type) (d0 : D) (x z : list Z) (w : list (list D)) (px pz : list nat)
         (k0 k1 k2 k3 : nat) (w0 w1 w2 w3 : D),
    NoDup x -> NoDup z -> rect D w (length x) (length z) ->
    Permutation px (seq 0 (length x)) -> Permutation pz (seq 0 (length z)) ->
    amm_weights2 D d0 (gather 0%Z x px) (gather 0%Z z pz) (gather2 D d0 w px pz) k0 k1 k2 k3 w0 w1 w2 w3
    = (gather2 D d0 (fst (amm_weights2 D d0 x z w k0 k1 k2 k3 w0 w1 w2 w3)) px pz,
       gather2 D d0 (snd (amm_weights2 D d0 x z w k0 k1 k2 k3 w0 w1 w2 w3)) px pz).
Proof.
  intros D d0 x z w px pz k0 k1 k2 k3 w0 w1 w2 w3.
  exact (amm2_equivariant D d0 x z w px pz k0 k1 k2 k3 w0 w1 w2 w3).
Qed.
Print Assumptions C02_adaptive_minmax_2d.

(* optimize_extended_range + _override_x: edges from the sorted data, data and padded user weights
   in the supplied order, the sub-fitter sorted by the extended order and un-sorted by
   _inverted_sort(extended order), the middle cut out.  This computes EXACTLY what the standard
   wrapper computes around "extend the sorted data, run the sub-method, cut the middle out"
   (oer_body), hence is equivariant for every permutation, every side and added_window. *)
Theorem C02_extended_range :
  forall (D : Type) (d0 : D) (body : list Z -> list D -> option (list D) -> list D * list (list D))
         (edge_l edge_r : list D -> list D) (addx_l addx_r : list Z -> list Z) (one : D)
         (sd : side) (aw : nat),
    (forall ys, length (edge_l ys) = aw) -> (forall ys, length (edge_r ys) = aw) ->
    (forall fx ys ws, length (fst (body fx ys ws)) = length ys /\
                      Forall (fun p => length p = length ys) (snd (body fx ys ws))) ->
  forall (x : list Z) (y : list D) (w : option (list D)) (pi : list nat),
    length y = length x -> match w with None => True | Some w' => length w' = length x end ->
    oer D d0 body edge_l edge_r addx_l addx_r one sd aw x y w
    = wrapper D d0 (oer_body D body edge_l edge_r addx_l addx_r one sd aw) x y w /\
    (NoDup x -> Permutation pi (seq 0 (length x)) ->
     oer D d0 body edge_l edge_r addx_l addx_r one sd aw (gather 0%Z x pi) (gather d0 y pi)
         (option_map (fun w' => gather d0 w' pi) w)
     = permute_out D d0 pi (oer D d0 body edge_l edge_r addx_l addx_r one sd aw x y w)).
Proof.
  intros D d0 body el er al ar one sd aw Hl Hr Hb x y w pi Ly Lw. split.
  - exact (oer_is_wrapper D d0 body el er al ar one sd aw Hl Hr Hb x y w Ly Lw).
  - intros ND Hpi. exact (oer_equivariant D d0 body el er al ar one sd aw Hl Hr Hb x y w pi ND Ly Lw Hpi).
Qed.
Print Assumptions C02_extended_range.

(* _override_x: the inverse it builds for the extended order is the extended inverse *)
Theorem C02_override_x_inverse : forall (sd : side) (s : list nat) (n aw : nat),
  Permutation s (seq 0 n) ->
  inverted_sort (extended_order sd s n aw) = extended_order sd (inverted_sort s) n aw.
Proof. intros sd s n aw Hs. exact (ext_inverse sd s n aw Hs). Qed.
Print Assumptions C02_override_x_inverse.

(* collab_pls (skip_sorting=True, no order-related statement of its own): step 1 fits the mean data
   set (or every data set and averages the weights), step 2 fits every data set with those weights;
   per-point arrays travel between the sub-fitter calls in the SUPPLIED order.  The average weights,
   every baseline and every per-data-set weights array are equivariant for every permutation, both
   settings of average_dataset, any number of data sets, any per-point mean. *)
Theorem C02_collab_pls :
  forall (D : Type) (d0 : D) (mean : list D -> D)
         (b1 b2 : list Z -> list D -> option (list D) -> list D * list D),
    (forall xs ys ws, length ys = length xs ->
        match ws with None => True | Some w' => length w' = length xs end ->
        length (fst (b1 xs ys ws)) = length xs /\ length (snd (b1 xs ys ws)) = length xs) ->
    (forall xs ys ws, length ys = length xs ->
        match ws with None => True | Some w' => length w' = length xs end ->
        length (fst (b2 xs ys ws)) = length xs /\ length (snd (b2 xs ys ws)) = length xs) ->
  forall (average : bool) (x : list Z) (ys : list (list D)) (pi : list nat),
    NoDup x -> Forall (fun y => length y = length x) ys -> Permutation pi (seq 0 (length x)) ->
    collab_pls D d0 mean b1 b2 average (gather 0%Z x pi) (map (fun y => gather d0 y pi) ys)
    = (gather d0 (fst (collab_pls D d0 mean b1 b2 average x ys)) pi,
       map (fun r => (gather d0 (fst r) pi, gather d0 (snd r) pi))
           (snd (collab_pls D d0 mean b1 b2 average x ys))).
Proof.
  intros D d0 mean b1 b2 H1 H2 average x ys pi.
  exact (collab_pls_equivariant D d0 mean b1 b2 H1 H2 average x ys pi).
Qed.
Print Assumptions C02_collab_pls.

(* _get_function (1-D; the 2-D one uses the formulas of individual_axes, see C02_individual_axes):
   a sub-fitter class the object does not provide itself is constructed on the SUPPLIED x, and with
   assume_sorted=True only if x was supplied ascending. *)
Theorem C02_get_function : forall x : list Z, exists srt,
  get_function_x x = (x, srt) /\ (srt = true -> determine_sorts x = None).
Proof. exact get_function_x_eff. Qed.
Print Assumptions C02_get_function.

(* individual_axes: the axis values rebuilt from the sorted x/z and _inverted_order (three
   non-trivial layouts) are the supplied x and z; the 1-D fitters (assume_sorted=False) sort each
   row/column themselves; data - baseline, baseline += partial.  Baseline and every partial
   baseline are equivariant under independent permutations of x and z, for every axes sequence. *)
Theorem C02_individual_axes :
  forall (D : Type) (d0 zero : D) (add sub : D -> D -> D)
         (bodyx bodyz : list Z -> list D -> option (list D) -> list D * list (list D)),
    (forall xs ys ws, length ys = length xs ->
        match ws with None => True | Some w' => length w' = length xs end ->
        length (fst (bodyx xs ys ws)) = length xs /\ Forall (fun p => length p = length xs) (snd (bodyx xs ys ws))) ->
    (forall xs ys ws, length ys = length xs ->
        match ws with None => True | Some w' => length w' = length xs end ->
        length (fst (bodyz xs ys ws)) = length xs /\ Forall (fun p => length p = length xs) (snd (bodyz xs ys ws))) ->
  forall (x z : list Z) (y : list (list D)) (px pz : list nat) (axes : list bool),
    (exists srt, axis_values x z = (x, z, srt) /\
                 (srt = true -> determine_sorts x = None /\ determine_sorts z = None)) /\
    (NoDup x -> NoDup z -> rect D y (length x) (length z) ->
     Permutation px (seq 0 (length x)) -> Permutation pz (seq 0 (length z)) ->
     individual_axes D d0 zero add sub bodyx bodyz (gather 0%Z x px) (gather 0%Z z pz) (gather2 D d0 y px pz) axes
     = permute_out2 D d0 px pz (individual_axes D d0 zero add sub bodyx bodyz x z y axes)).
Proof.
  intros D d0 zero add sub bodyx bodyz Hx Hz x z y px pz axes. split.
  - exact (axis_values_eff x z).
  - exact (individual_axes_equivariant D d0 zero add sub bodyx bodyz Hx Hz x z y px pz axes).
Qed.
Print Assumptions C02_individual_axes.

(* ---------------------------------------------------------------- per-method order discipline *)
(* SOUNDNESS of the reflective check: a row (source, explicit sort/un-sort sites, sink) extracted
   from a method body that passes [flow_ok] delivers -- for EVERY sort order sigma of EVERY size --
   exactly the array c that the run on sorted inputs holds at that place (order-invariant sources
   need the invariance of c). *)
Theorem C02_flow_sound : forall (D : Type) (d0 : D) (sigma : list nat) (n : nat),
  Permutation sigma (seq 0 n) ->
  forall (r : row) (c : list D),
    List.length c = n ->
    (r_src r = SConst -> forall p, Permutation p (seq 0 n) -> gather d0 c p = c) ->
    flow_ok r = true ->
    arrives D d0 sigma r c = c.
Proof. intros D d0 sigma n Hs r c. exact (flow_sound D d0 sigma n Hs r c). Qed.
Print Assumptions C02_flow_sound.

(* The table generated from the CURRENT source (every method registered without skip_sorting, 1-D
   and 2-D: user weights/alpha through _setup_*, the explicit sites of iasls, pspline_iasls, mpls,
   pspline_mpls, fabc, aspls, pspline_aspls, 2-D iasls/pspline_iasls/aspls, every returned
   per-point key against sort_keys) passes the check; the _setup_* functions sort their weights
   exactly once under the guard `sort order is not None and weights is not None`. *)
Theorem C02_flow_table :
  forallb flow_ok gen_rows = true /\ setups_ok gen_setups = true /\ (100 <=? List.length gen_rows)%nat = true /\
  wrapper_io_ok gen_wrapper_io gen_data_optional = true.
Proof. vm_compute. repeat split. Qed.
Print Assumptions C02_flow_table.

(* What is still pinned as reviewed text (C02/Sites.v): the three order-related statements of
   custom_bc.  PARTIAL: custom_bc (sub-fitter on the sampled, ascending x_fit) has no Gallina model;
   it is covered by the metamorphic oracle only. *)
Theorem C02_sites_pinned_partial : str_list_eqb gen_sites expected_sites = true.
Proof. vm_compute. reflexivity. Qed.
Print Assumptions C02_sites_pinned_partial.

(* the check rejects the two shapes that were real defects: weights built from sorted data handed
   to a sorting setup (iasls before cdd4484), and the same value returned un-sorted *)
Example C02_flow_rejects_nonvacuous :
  flow_ok {| r_dim := "1d"; r_method := "iasls"; r_var := "weight_array"; r_src := SInternal;
             r_ops := [OSort]; r_sink := KUse |} = false /\
  flow_ok {| r_dim := "1d"; r_method := "x"; r_var := "params[weights]"; r_src := SInternal;
             r_ops := []; r_sink := KRetUnsorted |} = false /\
  (forall (c : list Z), arrives Z 0%Z [1; 2; 0] {| r_dim := "1d"; r_method := "iasls"; r_var := "w"; r_src := SInternal;
             r_ops := [OSort]; r_sink := KUse |} [10; 20; 30]%Z = [20; 30; 10]%Z).
Proof. vm_compute. repeat split. Qed.
