(* Property C02 -- results do not depend on the order in which x (and z) values are supplied.
   This file contains only the property theorems; each is closed by an exact lemma.
   Models: lib/Perm.v (utils._inverted_sort as coded, stable argsort, _determine_sorts, _sort_array),
   C02/Model.v (the 1-D and 2-D wrappers with an ARBITRARY method body), C02/OrderFlow.v (order
   discipline of the method bodies; table generated from the source in gen/GenOrderFlow.v). *)
From Coq Require Import ZArith List Bool Arith Lia Permutation Sorted.
From Coq Require Import String.
From PB Require Import lib.Perm lib.PermProofs C02.Model C02.Proofs C02.Proofs2D C02.OrderFlow C02.OrderFlowProofs C02.Sites gen.GenOrderFlow.
Import ListNotations.
Close Scope Z_scope.
Open Scope string_scope.
Open Scope nat_scope.
Notation length := List.length.

(* a == a[sort_order][inverted_order] for EVERY permutation (not only reversal), with the inverse
   built by the sequential scatter of utils._inverted_sort; the inverse of the inverse is the sort. *)
Theorem C02_inverse : forall (A : Type) (d : A) (a : list A) (p : list nat) (n : nat),
  length a = n -> Permutation p (seq 0 n) ->
  gather d (gather d a p) (inverted_sort p) = a /\
  gather d (gather d a (inverted_sort p)) p = a /\
  inverted_sort (inverted_sort p) = p /\
  Permutation (inverted_sort p) (seq 0 n).
Proof.
  intros A d a p n L H. repeat split.
  - exact (gather_inverse d a p n L H).
  - exact (gather_inverse' d a p n L H).
  - exact (inverted_sort_involutive p n H).
  - exact (inverted_sort_perm p n H).
Qed.
Print Assumptions C02_inverse.

(* data.argsort(kind='mergesort') as modelled is a permutation that sorts, and for pairwise
   distinct keys it is the ONLY permutation that sorts. *)
Theorem C02_argsort : forall x : list Z,
  Permutation (argsort x) (seq 0 (length x)) /\
  StronglySorted Z.le (gather 0%Z x (argsort x)) /\
  (NoDup x -> forall p, Permutation p (seq 0 (length x)) ->
     StronglySorted Z.le (gather 0%Z x p) -> p = argsort x).
Proof.
  intro x. repeat split.
  - exact (argsort_perm x).
  - exact (argsort_sorted x).
  - intros ND p Hp S. exact (argsort_unique x p ND Hp S).
Qed.
Print Assumptions C02_argsort.

(* _determine_sorts returns (None, None) exactly when the stable argsort is arange(n); then
   skipping the sort is the same as sorting. *)
Theorem C02_determine_sorts : forall x : list Z,
  (determine_sorts x = None <-> argsort x = seq 0 (length x)) /\
  (forall s i, determine_sorts x = Some (s, i) -> s = argsort x /\ i = inverted_sort s).
Proof.
  intro x. split; [split|].
  - unfold determine_sorts. destruct (incr (argsort x)) eqn:E; [|discriminate].
    intros _. exact (incr_identity _ _ (argsort_perm x) E).
  - intro E. unfold determine_sorts. rewrite E, incr_seq. reflexivity.
  - intros s i. unfold determine_sorts. destruct (incr (argsort x)); [discriminate|].
    intro H. injection H; intros; subst; auto.
Qed.
Print Assumptions C02_determine_sorts.

(* THE 1-D EQUIVARIANCE.  For pairwise distinct x, ANY permutation pi, ANY method body that is a
   function of the sorted x, the sorted data and the sorted optional per-point input and that
   returns per-point arrays:  the wrapper applied to consistently permuted inputs returns the
   correspondingly permuted baseline and [sort_keys] parameters. *)
Theorem C02_wrapper_equivariant :
  forall (D : Type) (d0 : D)
         (body : list Z -> list D -> option (list D) -> list D * list (list D)),
    (forall xs ys ws, length (fst (body xs ys ws)) = length xs /\
                      Forall (fun p => length p = length xs) (snd (body xs ys ws))) ->
  forall (x : list Z) (y : list D) (w : option (list D)) (pi : list nat),
    NoDup x -> length y = length x ->
    match w with None => True | Some w' => length w' = length x end ->
    Permutation pi (seq 0 (length x)) ->
    wrapper D d0 body (gather 0%Z x pi) (gather d0 y pi) (option_map (fun w' => gather d0 w' pi) w)
    = permute_out D d0 pi (wrapper D d0 body x y w).
Proof.
  intros D d0 body Hlen x y w pi. exact (wrapper_equivariant D d0 body Hlen x y w pi).
Qed.
Print Assumptions C02_wrapper_equivariant.

(* the hypotheses are satisfiable and the statement is not about the identity only: a concrete
   non-involutive permutation, a body that depends on positions *)
Example C02_wrapper_equivariant_nonvacuous :
  let body := fun (xs : list Z) (ys : list Z) (ws : option (list Z)) =>
                (map (fun k => (nth k ys 0 + 10 * Z.of_nat k)%Z) (seq 0 (length xs)), [xs]) in
  let x := [30; 10; 40; 20]%Z in
  let pi := [1; 2; 0; 3] in
  NoDup x /\ Permutation pi (seq 0 4) /\ gather 0 pi pi <> seq 0 4 /\
  wrapper Z 0%Z body x [3; 1; 4; 2]%Z None = ([23; 1; 34; 12]%Z, [[30; 10; 40; 20]%Z]).
Proof.
  cbv zeta. repeat split.
  - repeat constructor; simpl; intuition discriminate.
  - apply (Permutation_trans (l' := [0; 1; 2; 3])); [|apply Permutation_refl].
    apply Permutation_sym. apply (perm_trans (l' := [1; 0; 2; 3])); [apply perm_swap|].
    apply perm_skip. apply perm_swap.
  - vm_compute. discriminate.
Qed.

(* optimize_extended_range (optimizers.py:322-339): the extended sort order is a permutation of the
   extended index set and sorts the extended data -- the added parts stay where they are, the
   original part is sorted by the original order -- for every side, every added_window, every
   order s.  (User weights are padded in the supplied order, which is the extended supplied order.) *)
Theorem C02_extended_order :
  forall (A : Type) (d : A) (sd : side) (s : list nat) (n aw : nat) (l y r : list A),
    Permutation s (seq 0 n) -> length l = aw -> length r = aw -> length y = n ->
    gather d (extended_data sd l y r) (extended_order sd s n aw) = extended_data sd l (gather d y s) r /\
    Permutation (extended_order sd s n aw)
                (seq 0 (match sd with SBoth => aw + n + aw | _ => n + aw end)).
Proof.
  intros A d sd s n aw l y r Hs Ll Lr Ly. split.
  - apply (extended_order_sorts A d sd s n aw l y r Ll Lr Ly).
    intros i Hi. exact (is_perm_lt s n i Hs Hi).
  - exact (extended_order_perm sd s n aw Hs).
Qed.
Print Assumptions C02_extended_order.

(* 2-D: gathering rows and columns by any two permutations and then by the inverses built by
   _inverted_sort gives the array back (layout (x_order[:,None], z_order[None,:]); the x-only and
   z-only layouts are the cases pz = arange / px = arange).
   NOT YET PROVED (kept as the full statement): C02_wrapper2_equivariant --
     forall body2 returning n x m arrays, NoDup x, NoDup z, Permutation px (seq 0 n), Permutation pz (seq 0 m),
       wrapper2 body2 (gather x px) (gather z pz) (gather2 y px pz) (option_map (gather2 . px pz) w)
       = permute_out2 px pz (wrapper2 body2 x z y w).
   The 2-D wrapper model is tied to the code by the exact correspondence and the oracle only. *)
Theorem C02_inverse_2d_partial :
  forall (D : Type) (d0 : D) (a : list (list D)) (px pz : list nat) (n m : nat),
    length a = n -> Forall (fun row => length row = m) a ->
    Permutation px (seq 0 n) -> Permutation pz (seq 0 m) ->
    gather2 D d0 (gather2 D d0 a px pz) (inverted_sort px) (inverted_sort pz) = a.
Proof.
  intros D d0 a px pz n m La Fa Hx Hz. exact (gather2_inverse D d0 a px pz n m (conj La Fa) Hx Hz).
Qed.
Print Assumptions C02_inverse_2d_partial.

(* ---------------------------------------------------------------- per-method order discipline *)
(* SOUNDNESS of the reflective check: a row (source, explicit sort/un-sort sites, sink) extracted
   from a method body that passes [flow_ok] delivers -- for EVERY sort order sigma of EVERY size --
   exactly the array c that the run on sorted inputs holds at that place (order-invariant sources
   need the invariance of c). *)
Theorem C02_flow_sound : forall (D : Type) (d0 : D) (sigma : list nat) (n : nat),
  Permutation sigma (seq 0 n) ->
  forall (r : row) (c : list D),
    List.length c = n ->
    (r_src r = SConst -> forall p, Permutation p (seq 0 n) -> gather d0 c p = c) ->
    flow_ok r = true ->
    arrives D d0 sigma r c = c.
Proof. intros D d0 sigma n Hs r c. exact (flow_sound D d0 sigma n Hs r c). Qed.
Print Assumptions C02_flow_sound.

(* The table generated from the CURRENT source (every method registered without skip_sorting, 1-D
   and 2-D: user weights/alpha through _setup_*, the explicit sites of iasls, pspline_iasls, mpls,
   pspline_mpls, fabc, aspls, pspline_aspls, 2-D iasls/pspline_iasls/aspls, every returned
   per-point key against sort_keys) passes the check; the _setup_* functions sort their weights
   exactly once under the guard `sort order is not None and weights is not None`. *)
Theorem C02_flow_table :
  forallb flow_ok gen_rows = true /\ setups_ok gen_setups = true /\ (100 <=? List.length gen_rows)%nat = true.
Proof. vm_compute. repeat split. Qed.
Print Assumptions C02_flow_table.

(* The order-related statements of the wrappers and of the skip_sorting methods are the reviewed
   ones (C02/Sites.v); PARTIAL: their discipline is reviewed + cross-validated dynamically, not
   derived by the abstract interpretation. *)
Theorem C02_sites_pinned_partial : str_list_eqb gen_sites expected_sites = true.
Proof. vm_compute. reflexivity. Qed.
Print Assumptions C02_sites_pinned_partial.

(* the check rejects the two shapes that were real defects: weights built from sorted data handed
   to a sorting setup (iasls before cdd4484), and the same value returned un-sorted *)
Example C02_flow_rejects_nonvacuous :
  flow_ok {| r_dim := "1d"; r_method := "iasls"; r_var := "weight_array"; r_src := SInternal;
             r_ops := [OSort]; r_sink := KUse |} = false /\
  flow_ok {| r_dim := "1d"; r_method := "x"; r_var := "params[weights]"; r_src := SInternal;
             r_ops := []; r_sink := KRetUnsorted |} = false /\
  (forall (c : list Z), arrives Z 0%Z [1; 2; 0] {| r_dim := "1d"; r_method := "iasls"; r_var := "w"; r_src := SInternal;
             r_ops := [OSort]; r_sink := KUse |} [10; 20; 30]%Z = [20; 30; 10]%Z).
Proof. vm_compute. repeat split. Qed.
