(* Property C07, tie of the models to the source: every host function the C07 models cover has, in the CURRENT
   source (gen/GenC07Hosts.v, regenerated on every run), exactly the branch structure the models were written
   against; in particular no host has a code path gated on a numeric threshold (data size, number of stored
   entries, ...) -- the theorems of props/C07.v and props/C07_2d.v describe ONE path per host and layout. *)
From Coq Require Import String List Bool.
From PB Require Import gen.GenC07Hosts C07.Hosts C07.HostsProofs.
Import ListNotations.

Theorem C07_hosts_branches_pinned : host_branches = expected_branches.
Proof. exact hosts_pinned. Qed.
Print Assumptions C07_hosts_branches_pinned.

Theorem C07_hosts_no_module_thresholds :
  forallb (fun p => match snd p with [] => true | _ => false end) module_constants = true.
Proof. exact no_module_thresholds. Qed.
Print Assumptions C07_hosts_no_module_thresholds.

Theorem C07_hosts_no_size_gates : size_gated = [].
Proof. exact no_size_gates. Qed.
Print Assumptions C07_hosts_no_size_gates.
