(* Property C19 -- polynomial exactness LIFTED to the list-based loop body of the model (C19/Model.v `kstep`,
   i.e. one iteration of _loess_low_memory / _loess_first_loop), for any commutative ring on the model's carrier.
   Vocabulary (C19/LiftProofs.v):
     pval q c0 row         = sum_{a<q} row[a] * c0[a]           the polynomial's value on a Vandermonde row
     ydata vander q c0     = map (pval q c0) vander              data lying exactly on the polynomial
     Zs vander kernel w win = the window's entries (kernel[t], (vander[left+t], w[left+t])), built with the same pyslice
     entry ... a t         = nth t (nth a AT []) 0  where (AT, b) = fit_args kernel ydata w win -- the ACTUAL list arguments
                             the model hands to local_fit (= _loess_solver, whose body is tied by C19_solver_is_normal_equations).
   Hypotheses: predict is the dot product vander[i].dot(coef); the solver result satisfies the normal equations
   (AT AT^T) c = AT b OF ITS LIST ARGUMENTS; AT AT^T is non-singular.  Conclusion: the value the loop body stores in
   baseline[fits[idx]] is the polynomial's value on row fits[idx] of the Vandermonde matrix, which (C19_ydata_entry) is the
   data value y[fits[idx]].  With C19_interp_line / C19_first_pass_exit: exact data are reproduced at every fitted point.
   Still outside the proof: np.linalg.solve's contract, BLAS dot, IEEE rounding (ring laws do not hold for binary64). *)
From Coq Require Import ZArith List Ring.
From PB Require Import C19.Model C19.PolyProofs C19.LiftProofs.
Import ListNotations.

Theorem C19_poly_exact : forall (R : Num) (ropp : T R -> T R),
  ring_theory (zero R) (one R) (add R) (mul R) (sub R) ropp eq ->
  forall (vander : list (list (T R))) (q : nat) (kernel w : list (T R)) (win : Z * Z) (c0 : nat -> T R)
    (Coef : Type) (local_fit : list (list (T R)) -> list (T R) -> Coef) (predict : list (T R) -> Coef -> T R)
    (coef_of : Coef -> nat -> T R),
  (forall (row : list (T R)) (c : Coef),
     predict row c = rsum (T R) (zero R) (add R) q (fun a => mul R (nth a row (zero R)) (coef_of c a))) ->
  (forall a, (a < q)%nat ->
     rsum (T R) (zero R) (add R) (length (Zs R vander kernel w win))
       (fun t => mul R (entry R vander q kernel w win c0 a t)
          (rsum (T R) (zero R) (add R) q
             (fun a' => mul R (entry R vander q kernel w win c0 a' t)
                (coef_of (local_fit (fst (fit_args R vander q kernel (ydata R vander q c0) w win))
                                    (snd (fit_args R vander q kernel (ydata R vander q c0) w win))) a')))) =
     rsum (T R) (zero R) (add R) (length (Zs R vander kernel w win))
       (fun t => mul R (entry R vander q kernel w win c0 a t)
          (nth t (snd (fit_args R vander q kernel (ydata R vander q c0) w win)) (zero R)))) ->
  (forall d : nat -> T R,
     (forall a, (a < q)%nat ->
        rsum (T R) (zero R) (add R) (length (Zs R vander kernel w win))
          (fun t => mul R (entry R vander q kernel w win c0 a t)
             (rsum (T R) (zero R) (add R) q (fun a' => mul R (entry R vander q kernel w win c0 a' t) (d a')))) = zero R) ->
     forall a, (a < q)%nat -> d a = zero R) ->
  forall (x : list (T R)) (windows : list (Z * Z)) (fits : list Z) (idx : nat),
  win = nth idx windows (0%Z, 0%Z) ->
  kernel = kernel_of R x (nth idx fits 0%Z) win ->
  forall (mode : nat) (s : kstate R Coef), (mode < 2)%nat ->
  k_base R Coef (kstep R Coef local_fit predict x vander q windows fits mode (ydata R vander q c0) w s idx) (nth idx fits 0%Z)
  = pval R q c0 (pyget [] vander (nth idx fits 0%Z)).
Proof. exact kstep_baseline_exact. Qed.
Print Assumptions C19_poly_exact.

Theorem C19_ydata_entry : forall (R : Num) (vander : list (list (T R))) (q : nat) (c0 : nat -> T R) (i : Z),
  (0 <= i < zlen vander)%Z -> pyget (zero R) (ydata R vander q c0) i = pval R q c0 (pyget [] vander i).
Proof. intros R vander q c0 i. exact (ydata_entry R vander q [] [] (0%Z, 0%Z) c0 i). Qed.
Print Assumptions C19_ydata_entry.

(* the hypotheses are satisfiable: over the rationals the ring laws hold (Qcrt), and the normal-equation / non-singularity
   hypotheses are those of C19_poly_exact_hyps_nonvacuous (props/C19.v) read through `entry` *)
Example C19_poly_exact_ring_nonvacuous :
  exists (R : Num) (ropp : T R -> T R), ring_theory (zero R) (one R) (add R) (mul R) (sub R) ropp eq.
Proof.
  exists {| T := Qcanon.Qc; add := Qcanon.Qcplus; sub := Qcanon.Qcminus; mul := Qcanon.Qcmult; div := Qcanon.Qcdiv;
            nabs := fun x => x; nsqrt := fun x => x; ltb := fun _ _ => false; zero := Qcanon.Q2Qc (QArith_base.Qmake 0 1); one := Qcanon.Q2Qc (QArith_base.Qmake 1 1) |},
         Qcanon.Qcopp.
  exact Qcanon.Qcrt.
Qed.
