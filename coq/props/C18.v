(* Property C18 -- padding and kernel helpers preserve the data and its length.
   Only the property theorems; each is closed by an exact lemma of C18/*Proofs.v.
   Arrays are (length, index function) over Q; np.pad is an arbitrary function with the contract
   [np_contract]; exp is an arbitrary positive function. *)
From Coq Require Import ZArith QArith List Bool Lia.
From PB Require Import lib.PySlice C18.Model C18.SumQ C18.PadProofs C18.ConvProofs C18.Model2D C18.Proofs2D C18.DType C18.DTypeProofs C18.OwProofs C18.LsqMin C18.LinProofs C18.AffProofs C18.ExtLin C18.Offset.
Import ListNotations.
Open Scope Z_scope.

(* pad_edges: for every N >= 1, every pad length >= 0 and every mode (any np.pad satisfying numpy's
   contract, or 'extrapolate' with windows >= 1: None, scalar or per side, also larger than N) the
   call succeeds, the output has N + 2 p points and the interior is the data. *)
Theorem C18_len_interior : forall (y : vec) (p : Z) (m : mode),
  1 <= vlen y -> 0 <= p -> mode_ok m p ->
  exists out, pad_edges y p m = Ok out /\ vlen out = vlen y + 2 * p /\
              forall i, 0 <= i < vlen y -> vget out (p + i) = vget y i.
Proof. exact pad_len_interior. Qed.
Print Assumptions C18_len_interior.

Example C18_len_interior_nonvacuous :
  mode_ok (Extrapolate (Some [7; 1])) 3 /\ mode_ok (Extrapolate None) 0 /\ mode_ok (NpMode np_reflect) 5
  /\ mode_ok (NpMode np_edge) 5 /\ mode_ok (NpMode np_symmetric) 5 /\ mode_ok (NpMode np_wrap) 5
  /\ mode_ok (NpMode (np_constant 0)) 5.
Proof.
  split; [right; exists 7, 1; repeat split; lia|].
  split; [left; reflexivity|].
  split; [exact np_reflect_contract|]. split; [exact np_edge_contract|].
  split; [exact np_symmetric_contract|]. split; [exact np_wrap_contract|exact (np_constant_contract 0)].
Qed.

(* the rejected inputs raise ValueError *)
Theorem C18_pad_rejects : forall (y : vec) (p : Z),
  (forall m, p < 0 -> pad_edges y p m = Err ValueErr) /\
  (forall ew wl wr, 1 <= p -> windows_of ew p = Some (wl, wr) -> wl <= 0 \/ wr <= 0 ->
                    pad_edges y p (Extrapolate ew) = Err ValueErr).
Proof. intros y p. split; [intros; apply pad_negative; assumption|intros; eapply pad_bad_window; eassumption]. Qed.
Print Assumptions C18_pad_rejects.

(* exactly linear data y_i = a + b i is continued exactly on both sides for every window >= 2
   (scalar, per side, larger than N -- Python's slice clamping), every N >= 2, every pad length *)
Theorem C18_linear_exact : forall (y : vec) (p : Z) (ew : option (list Z)) (wl wr : Z) (a b : Q),
  2 <= vlen y -> 1 <= p -> windows_of ew p = Some (wl, wr) -> 2 <= wl -> 2 <= wr ->
  linear_on y a b ->
  exists out, pad_edges y p (Extrapolate ew) = Ok out /\ vlen out = vlen y + 2 * p /\
              forall i, 0 <= i < vlen y + 2 * p -> (vget out i == a + b * inject_Z (i - p))%Q.
Proof. exact pad_linear_exact. Qed.
Print Assumptions C18_linear_exact.

Example C18_linear_exact_nonvacuous :
  linear_on (of_zlist [3; 5; 7; 9]) 3 2 /\ windows_of (Some [2; 9]) 4 = Some (2, 9) /\ windows_of None 4 = Some (4, 4).
Proof.
  split; [|split; reflexivity]. intros i Hi. cbn [of_zlist of_list vlen length map] in Hi.
  assert (H : i = 0 \/ i = 1 \/ i = 2 \/ i = 3) by lia.
  destruct H as [H|[H|[H|H]]]; subst i; vm_compute; reflexivity.
Qed.

(* arbitrary data: on a side with window w >= 2 the p added points lie on one line, and that line
   satisfies the normal equations of the min(w, N) data points next to that side placed at the
   abscissae they have in the padded array (i.e. it is their least-squares line);
   with w = 1 the edge value is repeated *)
Theorem C18_edge_is_least_squares : forall (y : vec) (p w : Z) (left : bool),
  2 <= vlen y -> 1 <= p -> 2 <= w ->
  let m := Z.min w (vlen y) in
  let s := if left then 0 else vlen y - m in
  exists e l, edge_side y p left w = Ok e /\ vlen e = p /\
    (forall i, 0 <= i < p ->
       (vget e i == line_at l (inject_Z (if left then i else vlen y + p + i)))%Q) /\
    (sumQ (Z.to_nat m) (fun k => vget y (s + k) - line_at l (inject_Z (p + s + k))) == 0)%Q /\
    (sumQ (Z.to_nat m) (fun k => inject_Z (p + s + k) * (vget y (s + k) - line_at l (inject_Z (p + s + k)))) == 0)%Q.
Proof. exact pad_edge_is_lsq. Qed.
Print Assumptions C18_edge_is_least_squares.

Theorem C18_window_one : forall (y : vec) (p : Z) (left : bool),
  edge_side y p left 1 = Ok (vfull p (vget y (if left then 0 else vlen y - 1))).
Proof. exact edge_window1. Qed.
Print Assumptions C18_window_one.

(* padded_convolve returns exactly N points for every kernel length M >= 1 (shorter than, equal to,
   longer than the data), with the index formula of each output point *)
Theorem C18_convolve_len : forall (y k : vec) (m : mode),
  1 <= vlen y -> 1 <= vlen k -> mode_ok m (conv_padding (vlen y) (vlen k)) ->
  let p := conv_padding (vlen y) (vlen k) in
  exists yp out, pad_edges y p m = Ok yp /\ vlen yp = vlen y + 2 * p /\
    padded_convolve y k m = Ok out /\ vlen out = vlen y /\
    forall i, vget out i = conv_full yp k (p + i + (vlen k - 1) / 2).
Proof. exact convolve_len. Qed.
Print Assumptions C18_convolve_len.

(* constant data, kernel summing to one, M <= N, any pad that keeps the constant: unchanged *)
Theorem C18_convolve_const : forall (y k : vec) (m : mode) (c : Q) (yp out : vec),
  1 <= vlen k -> vlen k <= vlen y ->
  let p := conv_padding (vlen y) (vlen k) in
  pad_edges y p m = Ok yp -> vlen yp = vlen y + 2 * p -> const_on yp c ->
  (vsum k == 1)%Q ->
  padded_convolve y k m = Ok out ->
  vlen out = vlen y /\ forall i, 0 <= i < vlen y -> (vget out i == c)%Q.
Proof. exact convolve_const. Qed.
Print Assumptions C18_convolve_const.

(* ... the default mode 'reflect' end to end, and 'extrapolate' keeps constants *)
Theorem C18_convolve_const_reflect : forall (y k : vec) (c : Q),
  1 <= vlen k -> vlen k <= vlen y -> const_on y c -> (vsum k == 1)%Q ->
  exists out, padded_convolve y k (NpMode np_reflect) = Ok out /\ vlen out = vlen y /\ const_on out c.
Proof. exact convolve_const_reflect. Qed.
Print Assumptions C18_convolve_const_reflect.

Theorem C18_extrapolate_const : forall (y : vec) (p : Z) (ew : option (list Z)) (wl wr : Z) (c : Q),
  2 <= vlen y -> 1 <= p -> windows_of ew p = Some (wl, wr) -> 1 <= wl -> 1 <= wr -> const_on y c ->
  exists out, pad_edges y p (Extrapolate ew) = Ok out /\ vlen out = vlen y + 2 * p /\ const_on out c.
Proof. exact extrapolate_const. Qed.
Print Assumptions C18_extrapolate_const.

(* every kernel length: the output is c times the kernel mass whose taps land inside the padded
   array; for M > N some taps fall outside (M // 2 > ceil(N / 2)) and the constant is lost: *)
Theorem C18_convolve_const_general : forall (y k : vec) (m : mode) (c : Q) (yp out : vec),
  1 <= vlen y -> 1 <= vlen k ->
  let p := conv_padding (vlen y) (vlen k) in
  pad_edges y p m = Ok yp -> vlen yp = vlen y + 2 * p -> const_on yp c ->
  padded_convolve y k m = Ok out ->
  forall i, 0 <= i < vlen y ->
    (vget out i == c * sumQ (Z.to_nat (vlen k))
                     (fun j => if tap_in (vlen y + 2 * p) (p + i + (vlen k - 1) / 2) j then vget k j else 0))%Q.
Proof. exact convolve_const_general. Qed.
Print Assumptions C18_convolve_const_general.

Theorem C18_convolve_long_kernel_refuted :
  (vsum wit_k == 1)%Q /\
  exists out, padded_convolve wit_y wit_k (NpMode np_reflect) = Ok out /\ vlen out = 2 /\
              (vget out 0 == 4 # 5)%Q.
Proof. exact convolve_long_kernel_witness. Qed.
Print Assumptions C18_convolve_long_kernel_refuted.

(* kernels (exp replaced by ANY positive function respecting ==): length, sign, symmetry, unit sum *)
Theorem C18_kernels_gaussian : forall (ex : Q -> Q),
  (forall x, (0 < ex x)%Q) -> (forall x x', (x == x')%Q -> (ex x == ex x')%Q) ->
  forall (window_size : Z) (sigma : Q),
    let g := gaussian_kernel ex window_size sigma in
    vlen g = Z.max 1 window_size /\
    (forall i, 0 <= i < vlen g -> (0 < vget g i)%Q) /\
    (forall i, 0 <= i < vlen g -> (vget g (vlen g - 1 - i) == vget g i)%Q) /\
    (vsum g == 1)%Q.
Proof. exact gaussian_kernel_props. Qed.
Print Assumptions C18_kernels_gaussian.

Theorem C18_kernels_mollifier : forall (ex : Q -> Q),
  (forall x, (0 < ex x)%Q) -> (forall x x', (x == x')%Q -> (ex x == ex x')%Q) ->
  forall (w : Z), 1 <= w ->
    let g := mollifier_kernel ex w in
    vlen g = 2 * w + 1 /\
    (forall i, 0 <= i < vlen g -> (0 <= vget g i)%Q) /\
    (vget g 0 == 0 /\ vget g (2 * w) == 0)%Q /\
    (forall i, 0 <= i < vlen g -> (vget g (vlen g - 1 - i) == vget g i)%Q) /\
    (vsum g == 1)%Q.
Proof. exact mollifier_kernel_props. Qed.
Print Assumptions C18_kernels_mollifier.

(* optimize_window: for every outcome sequence of the tolerance test, every increment <> 0 (0 makes
   range() raise), every max_hits / min / max: an integer >= 1; with increment, min >= 1 it is 1 or
   lies in [min_half_window, max_half_window) *)
Theorem C18_optimize_window_ge1 : forall (close : Z -> bool) (inc max_hits max_hw min_hw : Z),
  inc <> 0 ->
  exists r, optimize_window close inc max_hits max_hw min_hw = Ok r /\ 1 <= r /\
            (1 <= inc -> 1 <= min_hw -> r = 1 \/ min_hw <= r < max_hw).
Proof.
  intros close inc mh mx mn H. destruct (optimize_window_total close inc mh mx mn H) as [r E].
  exists r. split; [exact E|]. split.
  - exact (optimize_window_ge1 _ _ _ _ _ _ E).
  - intros Hi Hm. exact (optimize_window_bounds _ _ _ _ _ _ Hi Hm E).
Qed.
Print Assumptions C18_optimize_window_ge1.

(* 2-D: _extrapolate2d writes nine blocks into np.empty; for all shapes and pads >= 1 every output
   cell is written by exactly one of the nine slice assignments, and the centre block is the data *)
Theorem C18_2d_blocks : forall (R C a b i j : Z),
  1 <= R -> 1 <= C -> 1 <= a -> 1 <= b -> 0 <= i < R + 2 * a -> 0 <= j < C + 2 * b ->
  count_true (map (fun blk => in_block (R + 2 * a) (C + 2 * b) blk i j) (nine_blocks a b)) = 1%nat.
Proof. exact nine_blocks_tile. Qed.
Print Assumptions C18_2d_blocks.

Theorem C18_2d_len_interior : forall (y : mat) (a b : Z) (ew : option (list Z)) (w : Z * Z * Z * Z),
  1 <= mrows y -> 1 <= mcols y -> 1 <= a -> 1 <= b ->
  windows2d ew a b = Some w -> windows_ok w ->
  exists out, extrapolate2d y a b ew = Ok out /\
    orows out = mrows y + 2 * a /\ ocols out = mcols y + 2 * b /\
    (forall i j, 0 <= i < orows out -> 0 <= j < ocols out -> mget out i j <> None) /\
    (forall i j, 0 <= i < mrows y -> 0 <= j < mcols y -> mget out (a + i) (b + j) = Some (yget y i j)).
Proof. exact extrapolate2d_len_interior. Qed.
Print Assumptions C18_2d_len_interior.

(* a plane y[i][j] = c0 + cr i + cc j is continued exactly over all nine blocks (windows >= 2) *)
Theorem C18_2d_plane_exact : forall (y : mat) (a b : Z) (ew : option (list Z)) (w : Z * Z * Z * Z) (c0 cr cc : Q),
  2 <= mrows y -> 2 <= mcols y -> 1 <= a -> 1 <= b ->
  windows2d ew a b = Some w -> windows_ge2 w -> plane_on y c0 cr cc ->
  exists out, extrapolate2d y a b ew = Ok out /\
    forall i j, 0 <= i < mrows y + 2 * a -> 0 <= j < mcols y + 2 * b ->
      exists v, mget out i j = Some v /\ (v == c0 + cr * inject_Z (i - a) + cc * inject_Z (j - b))%Q.
Proof. exact extrapolate2d_plane_exact. Qed.
Print Assumptions C18_2d_plane_exact.

(* general form: along each axis either (both windows >= 2 and >= 2 points) or the plane is flat there *)
Theorem C18_2d_plane_general : forall (y : mat) (a b : Z) (ew : option (list Z)) (w : Z * Z * Z * Z) (c0 cr cc : Q),
  1 <= mrows y -> 1 <= mcols y -> 1 <= a -> 1 <= b ->
  windows2d ew a b = Some w -> windows_ok w -> axes_ok y w cr cc -> plane_on y c0 cr cc ->
  exists out, extrapolate2d y a b ew = Ok out /\
    forall i j, 0 <= i < mrows y + 2 * a -> 0 <= j < mcols y + 2 * b ->
      exists v, mget out i j = Some v /\ (v == c0 + cr * inject_Z (i - a) + cc * inject_Z (j - b))%Q.
Proof. exact extrapolate2d_plane_general. Qed.
Print Assumptions C18_2d_plane_general.

(* constant data is continued over all nine blocks for EVERY window >= 1 (repaired by 8286df4:
   a one-row Vandermonde section now gets the constant fit [[1],[0]] instead of the minimum-norm pinv) *)
Theorem C18_2d_const_exact : forall (y : mat) (a b : Z) (ew : option (list Z)) (w : Z * Z * Z * Z) (c : Q),
  1 <= mrows y -> 1 <= mcols y -> 1 <= a -> 1 <= b ->
  windows2d ew a b = Some w -> windows_ok w ->
  (forall i j, 0 <= i < mrows y -> 0 <= j < mcols y -> (yget y i j == c)%Q) ->
  exists out, extrapolate2d y a b ew = Ok out /\
    forall i j, 0 <= i < mrows y + 2 * a -> 0 <= j < mcols y + 2 * b ->
      exists v, mget out i j = Some v /\ (v == c)%Q.
Proof. exact extrapolate2d_const. Qed.
Print Assumptions C18_2d_const_exact.

(* a window of 1 on a side repeats the edge row / column on that side, as the 1-D code does *)
Theorem C18_2d_window_one : forall (y : mat) (a b : Z) (ew : option (list Z)) (wt wb wl wr : Z),
  1 <= mrows y -> 1 <= mcols y -> 1 <= a -> 1 <= b ->
  windows2d ew a b = Some (wt, wb, wl, wr) -> windows_ok (wt, wb, wl, wr) ->
  exists out, extrapolate2d y a b ew = Ok out /\
    (wt = 1 -> forall i k, 0 <= i < a -> 0 <= k < mcols y -> mget out i (b + k) = Some (yget y 0 k)) /\
    (wb = 1 -> forall i k, 0 <= i < a -> 0 <= k < mcols y ->
               mget out (a + mrows y + i) (b + k) = Some (yget y (mrows y - 1) k)) /\
    (wl = 1 -> forall i k, 0 <= i < mrows y -> 0 <= k < b -> mget out (a + i) k = Some (yget y i 0)) /\
    (wr = 1 -> forall i k, 0 <= i < mrows y -> 0 <= k < b ->
               mget out (a + i) (b + mcols y + k) = Some (yget y i (mcols y - 1))).
Proof. exact extrapolate2d_window_one. Qed.
Print Assumptions C18_2d_window_one.

Example C18_2d_window_one_nonvacuous :
  windows2d (Some [1]) 2 3 = Some (1, 1, 1, 1) /\ windows_ok (1, 1, 1, 1) /\
  windows2d (Some [1; 4; 2; 1]) 2 3 = Some (1, 4, 2, 1) /\ windows2d None 1 2 = Some (1, 1, 2, 2).
Proof. repeat split; cbn; lia. Qed.

(* ---- element types (input dtypes and containers) ----
   numpy promotion on the twelve real dtypes, as used by the helpers: float64 absorbs, bool is neutral *)
Theorem C18_result_type_laws : forall a b : dtype,
  result_type a b = result_type b a /\ result_type a a = a /\
  result_type F64 a = F64 /\ result_type DBool a = a /\
  (is_float a = true -> is_float (result_type a b) = true).
Proof.
  intros a b. split; [apply result_type_comm|]. split; [apply result_type_idem|].
  split; [apply result_type_f64|]. split; [apply result_type_bool|apply result_type_float].
Qed.
Print Assumptions C18_result_type_laws.

(* for every input dtype / container, every mode: success, N + 2p points, output dtype float64
   ('extrapolate' with p > 0) or the input's (np.pad modes, p = 0), interior = the data as stored *)
Theorem C18_typed_len_interior : forall (y : vec) (c : container) (p : Z) (m : mode),
  1 <= vlen y -> 0 <= p -> mode_ok m p ->
  exists out od, pad_edges_typed y c p m = Ok (out, od) /\ vlen out = vlen y + 2 * p /\
    od = pad_edges_dtype m p (asarray_dtype c) /\
    (od = F64 \/ od = asarray_dtype c) /\
    forall i, 0 <= i < vlen y -> vget out (p + i) = store od (vget y i).
Proof. exact typed_len_interior. Qed.
Print Assumptions C18_typed_len_interior.

Theorem C18_dtype_rules : forall (d kd : dtype) (p n mk : Z) (ew : option (list Z)) (f : vec -> Z -> vec),
  (p <> 0 -> pad_edges_dtype (Extrapolate ew) p d = F64) /\
  pad_edges_dtype (NpMode f) p d = d /\ pad_edges_dtype (Extrapolate ew) 0 d = d /\
  (1 <= n -> 1 <= mk -> convolve_dtype (Extrapolate ew) n mk d kd = F64) /\
  (1 <= n -> 1 <= mk -> convolve_dtype (NpMode f) n mk d F64 = F64) /\
  pad2d_dtype true d = F64 /\ pad2d_dtype false d = d.
Proof.
  intros. split; [apply pad_edges_dtype_extrapolate|]. split; [apply pad_edges_dtype_np|].
  split; [reflexivity|]. split; [intros; apply convolve_dtype_float; try assumption; right; eexists; reflexivity|].
  split; [intros; apply convolve_dtype_float; try assumption; left; reflexivity|]. split; reflexivity.
Qed.
Print Assumptions C18_dtype_rules.

(* a value the dtype holds exactly (any float; an integer for integer dtypes; 0/1 for bool) is stored unchanged *)
Theorem C18_store_holds : forall (d : dtype) (q : Q), holds d q -> (store d q == q)%Q.
Proof. exact store_holds. Qed.
Print Assumptions C18_store_holds.

(* integer / bool / float32 input, arrays or Python lists: the extrapolated output is float64, its
   values are those of the exact model, and exactly linear data is continued exactly *)
Theorem C18_typed_linear_exact : forall (y : vec) (c : container) (p : Z) (ew : option (list Z)) (wl wr : Z) (a b : Q),
  2 <= vlen y -> 1 <= p -> windows_of ew p = Some (wl, wr) -> 2 <= wl -> 2 <= wr ->
  linear_on y a b ->
  exists out, pad_edges_typed y c p (Extrapolate ew) = Ok (out, F64) /\ vlen out = vlen y + 2 * p /\
              forall i, 0 <= i < vlen y + 2 * p -> (vget out i == a + b * inject_Z (i - p))%Q.
Proof. exact typed_linear_exact. Qed.
Print Assumptions C18_typed_linear_exact.

Theorem C18_typed_extrapolate_values : forall (y : vec) (c : container) (p : Z) (ew : option (list Z)) (out : vec),
  p <> 0 -> pad_edges y p (Extrapolate ew) = Ok out ->
  exists out', pad_edges_typed y c p (Extrapolate ew) = Ok (out', F64) /\ vlen out' = vlen out /\
               forall i, vget out' i = vget out i.
Proof. exact typed_extrapolate_values. Qed.
Print Assumptions C18_typed_extrapolate_values.

(* building the output with the INPUT's dtype instead (np.empty_like + slice assignment) truncates
   the fitted points: [0, 0, 1] as Python ints, window 3, pad 1 gives 0 where the line gives -2/3 *)
Theorem C18_typed_inherit_refuted :
  exists o1 o2, pad_edges_inherit wit_int PyInts 1 (Extrapolate (Some [3])) = Ok (o1, I64) /\
                pad_edges_typed wit_int PyInts 1 (Extrapolate (Some [3])) = Ok (o2, F64) /\
                (vget o1 0 == 0)%Q /\ (vget o2 0 == - 2 # 3)%Q.
Proof. exact typed_inherit_refuted. Qed.
Print Assumptions C18_typed_inherit_refuted.

(* ---- optimize_window over the whole range of its options ----
   for EVERY min_half_window (0 and negative too), every max_half_window, increment >= 1, max_hits and
   every outcome sequence of the tolerance test: the result is >= 1, and is 1 or lies in
   [min_half_window, max_half_window) *)
Theorem C18_optimize_window_bounds_any_min : forall (close : Z -> bool) (inc max_hits max_hw min_hw r : Z),
  1 <= inc ->
  optimize_window close inc max_hits max_hw min_hw = Ok r ->
  1 <= r /\ (r = 1 \/ min_hw <= r < max_hw).
Proof. exact optimize_window_bounds_any_min. Qed.
Print Assumptions C18_optimize_window_bounds_any_min.

(* flat data (every opening agrees with the previous one) with at least max_hits scanned windows:
   the call returns max(min_half_window, 1), i.e. 1 for min_half_window = 0 *)
Theorem C18_optimize_window_flat : forall (close : Z -> bool) (inc max_hits max_hw min_hw : Z),
  1 <= inc -> 1 <= max_hits -> (forall h, close h = true) ->
  max_hits <= Z.of_nat (length (py_range (min_hw + inc) max_hw inc)) ->
  optimize_window close inc max_hits max_hw min_hw = Ok (Z.max min_hw 1).
Proof. exact optimize_window_flat. Qed.
Print Assumptions C18_optimize_window_flat.

Example C18_optimize_window_flat_nonvacuous :
  (3 <= Z.of_nat (length (py_range (0 + 1) 12 1))) /\ optimize_window (fun _ => true) 1 3 12 0 = Ok 1.
Proof. split; vm_compute; [discriminate|reflexivity]. Qed.

(* clamping the result with the caller's minimum instead of the constant 1 returns 0 there *)
Theorem C18_optimize_window_minclamp_refuted :
  optimize_window_minclamp (fun _ => true) 1 3 12 0 = Ok 0 /\
  optimize_window (fun _ => true) 1 3 12 0 = Ok 1.
Proof. exact optimize_window_minclamp_refuted. Qed.
Print Assumptions C18_optimize_window_minclamp_refuted.

(* ---- global optimality: the fitted line IS the least-squares line ----
   the model of Polynomial.fit(x, y, 1) minimises the sum of squared residuals over ALL lines a + b t
   (whenever the abscissae are not all equal) *)
Theorem C18_fit_minimises : forall (xs ys : vec) (l : line),
  fit_line xs ys = Ok l -> ~ (sxx_of xs == 0)%Q ->
  forall a b : Q,
    (sumQ (Z.to_nat (vlen xs)) (fun k => (vget ys k - line_at l (vget xs k)) * (vget ys k - line_at l (vget xs k)))
     <= sse (Z.to_nat (vlen xs)) (vget xs) (vget ys) a b)%Q.
Proof. exact fit_minimises. Qed.
Print Assumptions C18_fit_minimises.

(* pad_edges 'extrapolate', arbitrary data, every N >= 2, pad >= 1, window >= 2 (also > N), either side:
   the p added points lie on a line whose squared error at the min(w, N) neighbouring data points
   (at their abscissae in the padded array) is <= that of EVERY other line *)
Theorem C18_edge_minimises_squared_error : forall (y : vec) (p w : Z) (left : bool),
  2 <= vlen y -> 1 <= p -> 2 <= w ->
  let m := Z.min w (vlen y) in
  let s := if left then 0 else vlen y - m in
  exists e l, edge_side y p left w = Ok e /\ vlen e = p /\
    (forall i, 0 <= i < p ->
       (vget e i == line_at l (inject_Z (if left then i else vlen y + p + i)))%Q) /\
    forall a b : Q,
      (sumQ (Z.to_nat m) (fun k => (vget y (s + k) - line_at l (inject_Z (p + s + k)))
                                   * (vget y (s + k) - line_at l (inject_Z (p + s + k))))
       <= sse (Z.to_nat m) (fun k => inject_Z (p + s + k)) (fun k => vget y (s + k)) a b)%Q.
Proof. exact pad_edge_minimises. Qed.
Print Assumptions C18_edge_minimises_squared_error.

(* padded_convolve with an index-function padding mode (np.pad 'edge', 'reflect', 'symmetric', 'wrap':
   np_src src for ANY source-index function of the length) is a LINEAR map of the data: for every length,
   kernel and scalars a, b the call on a*y1 + b*y2 succeeds exactly when the calls on y1 and y2 do (with
   the same error otherwise) and returns a*out1 + b*out2 point by point.  (False for 'extrapolate' only in
   the degenerate windows; the affine case of that mode is C18_linear_exact.) *)
Theorem C18_convolve_index_modes_linear : forall (src : Z -> Z -> Z) (y1 y2 k : vec) (a b : Q),
  vlen y1 = vlen y2 ->
  match padded_convolve y1 k (NpMode (np_src src)), padded_convolve y2 k (NpMode (np_src src)),
        padded_convolve (vlin a b y1 y2) k (NpMode (np_src src)) with
  | Ok o1, Ok o2, Ok o =>
      vlen o = vlen o1 /\ vlen o = vlen o2 /\
      forall i, (vget o i == a * vget o1 i + b * vget o2 i)%Q
  | Err e1, Err e2, Err e => e1 = e /\ e2 = e
  | _, _, _ => False
  end.
Proof. exact convolve_src_linear. Qed.
Print Assumptions C18_convolve_index_modes_linear.

(* padded_convolve is linear in the KERNEL for EVERY mode (any np.pad function, 'extrapolate' with any
   windows, valid or not): the padding depends on the kernel through its length only, so the call on
   a*k1 + b*k2 is rejected exactly when the calls on k1 and k2 are (same error) and otherwise returns
   a*out1 + b*out2 point by point, for every data length, kernel length and scalars. *)
Theorem C18_convolve_kernel_linear : forall (m : mode) (y k1 k2 : vec) (a b : Q),
  vlen k1 = vlen k2 ->
  match padded_convolve y k1 m, padded_convolve y k2 m, padded_convolve y (vlin a b k1 k2) m with
  | Ok o1, Ok o2, Ok o =>
      vlen o = vlen o1 /\ vlen o = vlen o2 /\
      forall i, (vget o i == a * vget o1 i + b * vget o2 i)%Q
  | Err e1, Err e2, Err e => e1 = e /\ e2 = e
  | _, _, _ => False
  end.
Proof. exact convolve_kernel_linear. Qed.
Print Assumptions C18_convolve_kernel_linear.

(* pad_edges with an index-function padding mode (np_src of ANY source-index function of the length: numpy's
   edge/reflect/symmetric/wrap) only COPIES data points: it commutes with every pointwise map f, for every
   length and pad length, and f(y) is rejected exactly when y is (same error). *)
Theorem C18_pad_index_modes_copy : forall (src : Z -> Z -> Z) (f : Q -> Q) (y : vec) (p : Z),
  match pad_edges y p (NpMode (np_src src)), pad_edges (vmap f y) p (NpMode (np_src src)) with
  | Ok o1, Ok o => vlen o = vlen o1 /\ forall i, vget o i = f (vget o1 i)
  | Err e1, Err e => e1 = e
  | _, _ => False
  end.
Proof. exact pad_src_map. Qed.
Print Assumptions C18_pad_index_modes_copy.

(* pad_edges 'extrapolate' is equivariant under EVERY affine map of the data: for every length, pad length,
   windows (None, scalar, per side, 1, larger than N, invalid) and every a, b (a = 0 and a < 0 included),
   padding a*y + b gives a*(padding of y) + b point by point -- fitted edges included -- and the two calls
   are rejected together with the same error.  (C18_linear_exact is the special case y = a line.) *)
Theorem C18_extrapolate_affine_equivariant : forall (y : vec) (p : Z) (ew : option (list Z)) (a b : Q),
  match pad_edges y p (Extrapolate ew), pad_edges (vmap (aff a b) y) p (Extrapolate ew) with
  | Ok o, Ok o' => vlen o' = vlen o /\ forall i, (vget o' i == a * vget o i + b)%Q
  | Err e, Err e' => e = e'
  | _, _ => False
  end.
Proof. exact pad_extrapolate_affine. Qed.
Print Assumptions C18_extrapolate_affine_equivariant.

(* pad_edges 'extrapolate' is a LINEAR map of arbitrary data (every length, pad length, windows None/scalar/
   per side/1/larger than N/invalid, scalars a, b): padding a*y1 + b*y2 gives a*pad(y1) + b*pad(y2) point by
   point, fitted edges included, and the combination is rejected exactly when the parts are (same error). *)
Theorem C18_extrapolate_linear : forall (y1 y2 : vec) (p : Z) (ew : option (list Z)) (a b : Q),
  vlen y1 = vlen y2 ->
  match pad_edges y1 p (Extrapolate ew), pad_edges y2 p (Extrapolate ew),
        pad_edges (vlin a b y1 y2) p (Extrapolate ew) with
  | Ok o1, Ok o2, Ok o => vlen o = vlen o1 /\ vlen o = vlen o2 /\
                          forall i, (vget o i == a * vget o1 i + b * vget o2 i)%Q
  | Err e1, Err e2, Err e => e1 = e /\ e2 = e
  | _, _, _ => False
  end.
Proof. exact pad_extrapolate_linear. Qed.
Print Assumptions C18_extrapolate_linear.

(* ... and so is padded_convolve in its default mode 'extrapolate', for every kernel: with
   C18_convolve_index_modes_linear the smoothing helper is linear in the data in every modelled mode
   except 'constant' with a non-zero fill value *)
Theorem C18_convolve_extrapolate_linear : forall (y1 y2 k : vec) (ew : option (list Z)) (a b : Q),
  vlen y1 = vlen y2 ->
  match padded_convolve y1 k (Extrapolate ew), padded_convolve y2 k (Extrapolate ew),
        padded_convolve (vlin a b y1 y2) k (Extrapolate ew) with
  | Ok o1, Ok o2, Ok o => vlen o = vlen o1 /\ vlen o = vlen o2 /\
                          forall i, (vget o i == a * vget o1 i + b * vget o2 i)%Q
  | Err e1, Err e2, Err e => e1 = e /\ e2 = e
  | _, _, _ => False
  end.
Proof. exact convolve_extrapolate_linear. Qed.
Print Assumptions C18_convolve_extrapolate_linear.

(* smoothing commutes with an offset: in the default mode 'reflect', for ARBITRARY data, every kernel with
   unit sum and 1 <= M <= N, and every b, both calls succeed and padded_convolve(y + b) = padded_convolve(y) + b
   point by point (y + b written as the combination vshift b y = 1*y + b*ones).  Corollary of
   C18_convolve_index_modes_linear and C18_convolve_const_reflect; false for M > N (C18_convolve_long_kernel_refuted). *)
Theorem C18_convolve_reflect_offset : forall (y k : vec) (b : Q),
  1 <= vlen k -> vlen k <= vlen y -> (vsum k == 1)%Q ->
  exists o o', padded_convolve y k (NpMode np_reflect) = Ok o /\
               padded_convolve (vshift b y) k (NpMode np_reflect) = Ok o' /\
               vlen o = vlen y /\ vlen o' = vlen y /\
               forall i, 0 <= i < vlen y -> (vget o' i == vget o i + b)%Q.
Proof. exact convolve_reflect_offset. Qed.
Print Assumptions C18_convolve_reflect_offset.
