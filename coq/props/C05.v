(* C05 -- compiled kernels never index outside their arrays (DESIGN.md section 4, C05).
   Every statement is for ALL lengths / parameters satisfying the stated precondition and ALL oracle
   lists o (the outcomes of the float comparisons that steer control flow: any data, NaN, unsorted).
   all_okb log = true : every logged subscript i on an axis of length len has 0 <= i < len (the few literal
   negative subscripts of the source, x[-1] x[-2] difference[-1], have -len <= i < 0), every array-valued
   assignment has matching lengths, and no while loop of the model ran out of fuel (C05_ok_means).
   The guards loess_rejects / spline_*_rejects / pf_* and the kernel skeleton list come from
   gen/GenKernels.v, regenerated from /repo on every run. *)
From Coq Require Import ZArith List Bool String.
From PB Require Import lib.PySlice C05.PyLen C05.Mon C05.Model C05.Callers C05.Sigs gen.GenKernels C05.Final C05.CallerProofs C05.State C05.StateFinal C05.Fnz C05.ProofsFnz.
Import ListNotations.
Open Scope Z_scope.

(* the kernels are the ones the models were written against: subscripts, loop bounds, guards *)
Theorem C05_kernel_skeletons : GenKernels.kernels = Sigs.expected.
Proof. exact kernel_skeletons. Qed.
Print Assumptions C05_kernel_skeletons.

(* every knots[...] subscript of _find_interval is in range, both while loops terminate, result in [degree, num_bases-1] for ANY last_left and ANY comparison outcomes (NaN, x outside the knots) *)
Theorem C05_find_interval_safe : forall nk degree last_left num_bases (o : list bool),
  0 <= degree -> degree + 1 <= num_bases -> num_bases + degree + 1 <= nk ->
  all_okb (logof (find_interval nk degree last_left num_bases o)) = true /\
  degree <= resof (find_interval nk degree last_left num_bases o) <= num_bases - 1.
Proof. exact find_interval_final. Qed.
Print Assumptions C05_find_interval_safe.

(* work / temp / knots subscripts of _de_boor *)
Theorem C05_de_boor_safe : forall nk degree left nw num_bases (o : list bool),
  0 <= degree -> degree <= left <= num_bases - 1 -> num_bases + degree + 1 <= nk ->
  2 * (degree + 1) <= nw ->
  all_okb (logof (de_boor nk degree left nw o)) = true.
Proof. exact de_boor_final. Qed.
Print Assumptions C05_de_boor_safe.

(* __make_design_matrix incl. its calls of _find_interval/_de_boor and slice-assignment lengths *)
Theorem C05_design_matrix_safe : forall nx nk degree (o : list bool),
  0 <= degree -> 0 <= nx -> degree + 1 <= nk - (degree + 1) ->
  all_okb (logof (design_matrix nx nk degree o)) = true.
Proof. exact design_matrix_final. Qed.
Print Assumptions C05_design_matrix_safe.

(* ab[j-k, column], rhs[row], work, basis_data slices of _numba_btb_bty *)
Theorem C05_btb_bty_safe : forall nx nk degree ny nwt ab0 ab1 nrhs nbd (o : list bool),
  0 <= degree -> 0 <= nx -> degree + 1 <= nk - (degree + 1) ->
  nx <= ny -> nx <= nwt -> degree + 1 <= ab0 -> nk - (degree + 1) <= ab1 -> nk - (degree + 1) <= nrhs ->
  nbd = nx * (degree + 1) ->
  all_okb (logof (btb_bty nx nk degree ny nwt ab0 ab1 nrhs nbd o)) = true.
Proof. exact btb_bty_final. Qed.
Print Assumptions C05_btb_bty_safe.

(* all accesses of _determine_fits (x[-1], x[-2] are the listed negative subscripts) and the postcondition on windows/fits/skips *)
Theorem C05_determine_fits_safe : forall num_x total_points (o : list bool),
  1 <= total_points <= num_x ->
  all_okb (logof (determine_fits num_x total_points o)) = true /\
  (let '(windows, fits, skips) := resof (determine_fits num_x total_points o) in
   Forall (fun w => 0 <= fst w /\ snd w <= num_x /\ snd w - fst w = total_points) windows /\
   Forall (fun f => 0 <= f < num_x) fits /\ lenz windows = lenz fits /\
   Forall (fun s => 0 <= fst s /\ fst s < snd s /\ snd s <= num_x) skips).
Proof. exact determine_fits_final. Qed.
Print Assumptions C05_determine_fits_safe.

(* _fill_skips + _interp_inplace on skip windows satisfying the postcondition *)
Theorem C05_fill_skips_safe : forall n skips (o : list bool),
  Forall (fun s => 0 <= fst s /\ fst s < snd s /\ snd s <= n) skips ->
  all_okb (logof (fill_skips n n skips o)) = true.
Proof. exact fill_skips_final. Qed.
Print Assumptions C05_fill_skips_safe.

(* _interp_inplace needs a non-empty segment of equal lengths *)
Theorem C05_interp_inplace_safe : forall ax ay n (o : list bool),
  1 <= n -> all_okb (logof (interp_inplace ax n ay n o)) = true.
Proof. exact interp_inplace_final. Qed.
Print Assumptions C05_interp_inplace_safe.

(* the three loess loop kernels for windows/fits satisfying the postcondition (right-left = total_points, 0 <= left) *)
Theorem C05_loess_safe : forall mode n tp c1 windows fits (o : list bool),
  1 <= tp -> 1 <= c1 ->
  Forall (fun w => 0 <= fst w /\ snd w <= n /\ snd w - fst w = tp) windows ->
  Forall (fun f => 0 <= f < n) fits -> lenz windows = lenz fits ->
  all_okb (logof (loess_loop mode n n n n c1 n c1 n n tp windows fits o)) = true.
Proof. exact loess_loop_final. Qed.
Print Assumptions C05_loess_safe.

(* _directional_min_moving_avg: 0 <= half_window, len y >= data_len >= 1 *)
Theorem C05_dmma_safe : forall ny data_len half_window (o : list bool),
  0 <= half_window -> 1 <= data_len <= ny ->
  all_okb (logof (dmma ny data_len half_window o)) = true.
Proof. exact dmma_final. Qed.
Print Assumptions C05_dmma_safe.

(* _rolling_std on data of length >= 2*half_window+1 *)
Theorem C05_rolling_std_safe : forall num_y half_window (o : list bool),
  0 <= half_window -> 2 * half_window + 1 <= num_y ->
  all_okb (logof (rolling_std num_y half_window o)) = true.
Proof. exact rolling_std_final. Qed.
Print Assumptions C05_rolling_std_safe.

(* _numba_banded_dot_banded incl. a_upper + b_upper > n-1 *)
Theorem C05_banded_dot_banded_safe : forall a0 n1a b0 n1b c0 n1c a_lower a_upper b_lower b_upper c_upper n lower_bound (o : list bool),
  0 <= a_lower -> 0 <= a_upper -> 0 <= b_lower -> 0 <= b_upper -> 0 <= n ->
  a_lower + a_upper + 1 <= a0 -> b_lower + b_upper + 1 <= b0 -> n <= n1a -> n <= n1b -> n <= n1c ->
  c_upper = Z.min (a_upper + b_upper) (n - 1) ->
  Z.min (a_lower + b_lower) (n - 1) + c_upper + 1 <= c0 ->
  all_okb (logof (banded_dot_banded a0 n1a b0 n1b c0 n1c a_lower a_upper b_lower b_upper c_upper n
                                    lower_bound o)) = true.
Proof. exact banded_dot_banded_final. Qed.
Print Assumptions C05_banded_dot_banded_safe.

(* loess guard (from the source) => whole index pipeline _determine_fits -> loop kernel -> _fill_skips is safe *)
Theorem C05_loess_public_safe : forall mode n total_points poly_order (o : list bool),
  loess_rejects total_points poly_order n = false -> 0 <= poly_order ->
  all_okb (logof (loess_pipeline mode n total_points poly_order o)) = true.
Proof. exact loess_public_final. Qed.
Print Assumptions C05_loess_public_safe.

(* _spline_knots/SplineBasis guards (from the source) => _numba_btb_bty as called by solve_pspline is safe *)
Theorem C05_pspline_public_safe : forall n num_knots degree (o : list bool),
  spline_knots_rejects num_knots = false -> spline_basis_rejects degree = false -> 0 <= n ->
  all_okb (logof (btb_bty_call n num_knots degree (n * (degree + 1)) o)) = true.
Proof. exact btb_bty_public_final. Qed.
Print Assumptions C05_pspline_public_safe.

(* same guards => __make_design_matrix is safe *)
Theorem C05_design_public_safe : forall n num_knots degree (o : list bool),
  spline_knots_rejects num_knots = false -> spline_basis_rejects degree = false -> 0 <= n ->
  all_okb (logof (design_call n num_knots degree o)) = true.
Proof. exact design_public_final. Qed.
Print Assumptions C05_design_public_safe.

(* sections guard/default + half-window clamp + len(y_truncated) (all from the source) => first half window >= 1 and every kernel call safe *)
Theorem C05_peak_filling_public_safe : forall size sections half_win left_pad right_pad h (o : list bool),
  (pf_sections_rejects sections size = false \/ (sections = pf_default_sections size /\ 10 <= size)) ->
  1 <= half_win -> 0 <= left_pad <= 1 -> 0 <= right_pad <= 1 ->
  (* h: any entry of the schedule; the first one is pf_half_win half_win sections *)
  (h = pf_half_win half_win sections \/ 1 <= h) ->
  1 <= h /\ all_okb (logof (pf_kernel_call2 sections left_pad right_pad h o)) = true.
Proof. exact peak_filling_public_final. Qed.
Print Assumptions C05_peak_filling_public_safe.

(* peak_filling with `sections` given as a sequence: the data_len argument of the kernel call, translated from
   the CURRENT source, is an ndarray, so the call ends in a Python exception (numba TypingError) before any
   compiled code runs *)
Theorem C05_peak_filling_sequence_rejected : pf_seq_data_len_is_int = false.
Proof. exact peak_filling_sequence_rejected_final. Qed.
Print Assumptions C05_peak_filling_sequence_rejected.

(* whatever the source passes as data_len in the sequence branch: for EVERY number k of split indices and EVERY
   number uniq of distinct entries of [0] + sections + [size] (repeats, 0 or size-1 inside the sequence make
   uniq < k + 2) the kernel is either not entered or data_len is within [1, len(y_truncated)] *)
Theorem C05_peak_filling_sequence_safe : forall k uniq size left_pad right_pad h (o : list bool),
  0 <= k -> 2 <= uniq <= k + 2 -> 1 <= size -> 0 <= left_pad <= 1 -> 0 <= right_pad <= 1 -> 0 <= h ->
  all_okb (logof (pf_seq_kernel_call k uniq size left_pad right_pad h o)) = true.
Proof. exact peak_filling_sequence_final. Qed.
Print Assumptions C05_peak_filling_sequence_safe.

(* _padded_rolling_std padding => _rolling_std safe *)
Theorem C05_rolling_std_public_safe : forall n half_window (o : list bool),
  1 <= n -> 0 <= half_window -> all_okb (logof (rolling_std_call n half_window o)) = true.
Proof. exact rolling_std_public_final. Qed.
Print Assumptions C05_rolling_std_public_safe.

(* _banded_dot_banded with square shapes => kernel safe *)
Theorem C05_beads_bdb_public_safe : forall n a_lower a_upper b_lower b_upper symmetric (o : list bool),
  0 <= n -> 0 <= a_lower -> 0 <= a_upper -> 0 <= b_lower -> 0 <= b_upper ->
  all_okb (logof (bdb_call n a_lower a_upper b_lower b_upper symmetric o)) = true.
Proof. exact bdb_public_final. Qed.
Print Assumptions C05_beads_bdb_public_safe.

(* what a safe event is: 0 <= i < len (listed negatives: -len <= i < 0), equal lengths in array assignments, no fuel exhaustion *)
Theorem C05_ok_means : forall e,
  ev_okb e = true ->
  match e with
  | Acc _ _ cs => Forall (fun c => match c with
                                   | CI i len => 0 <= i < len
                                   | CN i len => - len <= i < 0
                                   | CS _ _ _ => True end) cs
  | Fit n m => n = m
  | Stuck => False
  end.
Proof. exact ok_means. Qed.
Print Assumptions C05_ok_means.

(* _quadratic_bezier_spline: indices strictly increasing inside the data (what np.flatnonzero returns); every np.argmin result is an arbitrary oracle-chosen value in [0, slice length) *)
Theorem C05_bezier_safe : forall nx ny indices (o : list bool),
  (forall k, 0 <= k < lenz indices ->
     0 <= nthz indices k 0 < nx /\ (k + 1 < lenz indices -> nthz indices k 0 < nthz indices (k + 1) 0)) ->
  all_okb (logof (bezier nx ny indices o)) = true.
Proof. exact bezier_final. Qed.
Print Assumptions C05_bezier_safe.

(* corner_cutting hands (self.x, y, np.flatnonzero(mask)) to the kernel *)
Theorem C05_corner_cutting_public_safe : forall n indices (o : list bool),
  (forall k, 0 <= k < lenz indices ->
     0 <= nthz indices k 0 < n /\ (k + 1 < lenz indices -> nthz indices k 0 < nthz indices (k + 1) 0)) ->
  all_okb (logof (corner_cutting_call n indices o)) = true.
Proof. exact corner_cutting_public_final. Qed.
Print Assumptions C05_corner_cutting_public_safe.

(* the array lengths the translator derived from the np.concatenate/linspace/repeat/percentile, np.pad and np.empty calls of the CURRENT source are the ones the kernel preconditions need (holds for every half window, also half_window >= n) *)
Theorem C05_numpy_lengths :   (forall penalized num_knots degree, spline_knots_len penalized num_knots degree = num_knots + 2 * degree) /\
  (forall n half_window, prs_padded_len n half_window = n + 2 * half_window) /\
  (forall sections left_pad right_pad, pf_y_len sections left_pad right_pad = sections + left_pad + right_pad).
Proof. exact np_lengths_final. Qed.
Print Assumptions C05_numpy_lengths.

(* _find_peak_segments: for EVERY boolean mask all (start, end) pairs satisfy 0 <= start <= end <= N-1 *)
Theorem C05_find_peak_segments_ok : forall (mask : list bool),
  Forall (fun se => 0 <= fst se /\ fst se <= snd se /\ snd se <= lenz mask - 1) (find_peak_segments mask).
Proof. exact find_peak_segments_final. Qed.
Print Assumptions C05_find_peak_segments_ok.

(* _averaged_interp (std_distribution, fastchrom, ...): every _interp_inplace call gets non-empty slices of equal length, for every mask *)
Theorem C05_averaged_interp_safe : forall (mask : list bool) (o : list bool),
  all_okb (logof (averaged_interp mask o)) = true.
Proof. exact averaged_interp_final. Qed.
Print Assumptions C05_averaged_interp_safe.


(* ---- histories of public calls on ONE fitter object (the state the Python-level guards read) ---- *)
(* the exception paths of the method wrapper, extracted from the CURRENT source: a handler that resets x or _size
   must reset both and every cache built from x (attributes assigned by the _setup_* methods) *)
Theorem C05_wrapper_handlers_ok : handlers_ok fitter_cache_attrs wrapper_handlers = true.
Proof. exact wrapper_handlers_ok_final. Qed.
Print Assumptions C05_wrapper_handlers_ok.

(* nothing else in the class writes x, _size or the caches *)
Theorem C05_fitter_other_writers : fitter_other_writers = [].
Proof. exact other_writers_final. Qed.
Print Assumptions C05_fitter_other_writers.

(* for EVERY history of calls (any data lengths, any order of cache use / kernel call / raise inside each method,
   objects created with or without x_data): after every call -- returned or raised -- _size = len(x) and the cached
   spline basis / Vandermonde were built from the current x; every kernel call sees len(basis.x) = len(y) = len(weights) *)
Theorem C05_history_state : forall (calls : list (Z * list act)) (x0 : option Z),
  Forall (fun s => ssize s = sx s /\
                   (forall nk d bx, sbasis s = Some (nk, d, bx) -> sx s = Some bx) /\
                   (forall px, spoly s = Some px -> sx s = Some px))
         (fst (run_history wrapper_handlers calls (init_state x0))) /\
  Forall (fun ob : obs => let '(nk, d, bx, yl, wl) := ob in bx = yl /\ bx = wl)
         (snd (run_history wrapper_handlers calls (init_state x0))).
Proof. exact history_state_final. Qed.
Print Assumptions C05_history_state.

(* hence every _numba_btb_bty call of every history is index-safe *)
Theorem C05_history_kernel_safe : forall (calls : list (Z * list act)) (x0 : option Z) (o : list bool),
  Forall (fun ob : obs =>
            let '(nk, d, bx, yl, wl) := ob in
            spline_knots_rejects nk = false -> spline_basis_rejects d = false -> 0 <= bx ->
            all_okb (logof (btb_bty bx (spline_nk nk d) d yl wl (d + 1) (spline_num_bases nk d)
                                    (spline_num_bases nk d) (bx * (d + 1)) o)) = true)
         (snd (run_history wrapper_handlers calls (init_state x0))).
Proof. exact history_kernel_final. Qed.
Print Assumptions C05_history_kernel_safe.

(* the checker is not vacuous: a wrapper that resets only x and _size is rejected, and the model then shows the
   stale basis (400 points, failing call after the basis was cached, then 60 points) *)
Example C05_stale_basis_example :
  handlers_ok ["_polynomial"; "_spline_basis"]%string [["x"; "_size"]%string] = false /\
  snd (run_history [["x"; "_size"]%string]
         [(400, [ASpline 10 3; ARaise]); (60, [ASpline 10 3; AKernel])] (init_state None))
  = [(10, 3, 400, 60, 60)].
Proof. exact stale_basis_example_final. Qed.


(* ---- corner_cutting without a hypothesis on the index array ---- *)
(* np.flatnonzero (positions of True, in order) returns strictly increasing positions inside the mask, for EVERY mask *)
Theorem C05_flatnonzero_sorted : forall (mask : list bool) k, 0 <= k < lenz (flatnonzero mask) ->
    0 <= nthz (flatnonzero mask) k 0 < lenz mask /\
    (k + 1 < lenz (flatnonzero mask) -> nthz (flatnonzero mask) k 0 < nthz (flatnonzero mask) (k + 1) 0).
Proof. exact flatnonzero_final. Qed.
Print Assumptions C05_flatnonzero_sorted.

(* hence _quadratic_bezier_spline(self.x, y, np.flatnonzero(mask)) is index-safe for every mask (also all False / one True:
   the kernel raises its ValueError), every data and every argmin outcome *)
Theorem C05_corner_cutting_mask_safe : forall (mask : list bool) (o : list bool),
  all_okb (logof (corner_cutting_mask_call mask o)) = true.
Proof. exact corner_cutting_mask_final. Qed.
Print Assumptions C05_corner_cutting_mask_safe.

Example C05_loess_guard_nonvacuous : loess_rejects 4 1 4 = false /\ 0 <= 1.
Proof. exact loess_guard_nonvacuous. Qed.

Example C05_spline_guard_nonvacuous : spline_knots_rejects 2 = false /\ spline_basis_rejects 0 = false.
Proof. exact spline_guard_nonvacuous. Qed.

Example C05_pf_guard_nonvacuous : pf_sections_rejects 2 25 = false /\ pf_half_win 5 2 = 1 /\ pf_default_sections 25 = 2.
Proof. exact pf_guard_nonvacuous. Qed.
