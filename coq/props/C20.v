(* Property C20 -- 2-D eigendecomposition and array algebra agree with the full 2-D system.
   This file contains only the property theorems; each is closed by an exact lemma.

   Notation of the statements.  [R : ops] is any commutative semiring ([semi_ring_theory], e.g. the
   integers used by the correspondence, or the reals); arrays are index functions; data shape
   (M, N); bases B_r (M x a) and B_c (N x c) (eigenvectors or B-splines; a <> c and M <> N allowed);
   [cf] is the index-level configuration translated from the current source (gen/GenC20.v). *)
From Coq Require Import ZArith List Bool Ring.
From PB Require Import C20.Model C20.Proofs C20.Layout C20.Reductions C20.EndToEnd gen.GenC20 C20.GenOk.
Import ListNotations.
Open Scope Z_scope.

(* The configuration translated from pybaselines/two_d/_whittaker_utils.py and _spline_utils.py on
   this run (kron factor order in _face_splitting, reshape dims, transposition axes, final reshape,
   repeat/tile counts) is one the theorems below are proved for. *)
Theorem C20_source_cfg : cfg_ok gen_cfg_whittaker = true /\ cfg_ok gen_cfg_spline = true.
Proof. exact gen_cfgs_ok. Qed.
Print Assumptions C20_source_cfg.

(* Memory layout.  The direct (num_eigens=None) branch flattens data and weights, solves the row-major
   Kronecker system and reshapes back.  Every ravel / flatten / reshape call of pybaselines/two_d/*.py
   (translated with its `order` argument on this run) uses the default order ... *)
Theorem C20_source_flatten_orders : forallb order_ok gen_flatten_orders = true /\ gen_flatten_orders <> nil.
Proof. exact gen_orders_ok. Qed.
Print Assumptions C20_source_flatten_orders.

(* ... which is row-major (Model.ravel2) whatever the memory layout of the caller's array
   (C-contiguous, Fortran-contiguous / transposed view, negative strides, non-contiguous slice) ... *)
Theorem C20_ravel_layout_independent : forall o : order, order_ok o = true ->
  forall (l : layout) (M N k : Z), ravel_idx o l M N k = Some (row_major M N k).
Proof. exact ravel_layout_independent. Qed.
Print Assumptions C20_ravel_layout_independent.

(* ... while every other order ('F', 'A', 'K') is not: witness on a Fortran-contiguous 2 x 3 array. *)
Theorem C20_ravel_other_orders_refuted : forall o : order, order_ok o = false ->
  exists (l : layout) (M N k : Z), 0 <= k < M * N /\ ravel_idx o l M N k <> Some (row_major M N k).
Proof. exact ravel_other_orders_refuted. Qed.
Print Assumptions C20_ravel_other_orders_refuted.

(* row-major flatten followed by the row-major reshape(shape) is the identity (vec / unvec) *)
Theorem C20_ravel_reshape_roundtrip : forall (R : ops) (N : Z) (A : mat R) (i j : Z),
  0 <= j < N -> reshape2 R N (ravel2 R N A) i j = A i j.
Proof. exact ravel_reshape_roundtrip. Qed.
Print Assumptions C20_ravel_reshape_roundtrip.

(* Host-level scalars.  On the direct branch y / weights / residuals are 1-D, on the eigendecomposition branch
   they are (M, N); the stop rules and normalisations of the eigen-capable hosts (and of the _weighting helpers
   and relative_difference they call) must not depend on that.  Every reduction in those bodies, translated
   and classified on this run, is an axis=None / Frobenius / .size form (or acts on a boolean-mask selection) ... *)
Theorem C20_source_reductions : forallb red_ok gen_reductions = true /\ gen_reductions <> nil.
Proof. exact gen_reductions_ok. Qed.
Print Assumptions C20_source_reductions.

(* ... such forms agree on the two shapes (sum over the row-major flattening = double sum) ... *)
Theorem C20_sum_2d_is_sum_flat : forall (R : ops),
  semi_ring_theory (t0 R) (t1 R) (tadd R) (tmul R) (@eq (T R)) ->
  forall (M N : nat) (A : mat R),
  sumf R (M * N) (ravel2 R (Z.of_nat N) A) = sumf R M (fun i => sumf R N (fun j => A i j)).
Proof. exact sum_2d_is_sum_flat. Qed.
Print Assumptions C20_sum_2d_is_sum_flat.

(* ... whereas an ndim-dependent form does not: np.linalg.norm(., 1) is sum|v| in 1-D, max column sum in 2-D. *)
Theorem C20_norm1_depends_on_ndim_refuted :
  exists (M N : nat) (A : mat ZO), mat_norm1 M N A <> vec_norm1 (M * N) (ravel2 ZO (Z.of_nat N) A).
Proof. exact norm1_depends_on_ndim. Qed.
Print Assumptions C20_norm1_depends_on_ndim_refuted.

(* _make_btwb (face-splitting products, G_r' W G_c, reshape -> transpose [0,2,1,3] -> reshape as
   div/mod maps on C-order raveled data):
   F[(a1,c1),(a2,c2)] = sum_i sum_j B_r[i,a1] B_r[i,a2] W[i,j] B_c[j,c1] B_c[j,c2], all shapes. *)
Theorem C20_btwb : forall (R : ops),
  semi_ring_theory (t0 R) (t1 R) (tadd R) (tmul R) (@eq (T R)) ->
  forall (cf : cfg) (M N a c : nat) (Br W Bc : mat R) (a1 c1 a2 c2 : Z),
  cfg_ok cf = true ->
  0 <= a1 < Z.of_nat a -> 0 <= a2 < Z.of_nat a -> 0 <= c1 < Z.of_nat c -> 0 <= c2 < Z.of_nat c ->
  make_btwb R cf M N a c Br W Bc (a1 * Z.of_nat c + c1) (a2 * Z.of_nat c + c2)
  = sumf R M (fun i => sumf R N (fun j =>
      tmul R (tmul R (tmul R (tmul R (Br i a1) (Br i a2)) (W i j)) (Bc j c1)) (Bc j c2))).
Proof. exact make_btwb_entry. Qed.
Print Assumptions C20_btwb.

(* ... i.e. F = B' diag(vec W) B for B = kron(B_r, B_c) of shape (M*N, a*c), every entry. *)
Theorem C20_btwb_kron : forall (R : ops),
  semi_ring_theory (t0 R) (t1 R) (tadd R) (tmul R) (@eq (T R)) ->
  forall (cf : cfg) (M N a c : nat) (Br W Bc : mat R) (r s : Z),
  cfg_ok cf = true -> 0 <= r < Z.of_nat a * Z.of_nat c -> 0 <= s < Z.of_nat a * Z.of_nat c ->
  make_btwb R cf M N a c Br W Bc r s
  = mmul R (M * N) (mmul R (M * N) (mT R (kron R (Z.of_nat N) (Z.of_nat c) Br Bc))
                                    (diagm R (ravel2 R (Z.of_nat N) W)))
           (kron R (Z.of_nat N) (Z.of_nat c) Br Bc) r s.
Proof. exact make_btwb_is_BtWB. Qed.
Print Assumptions C20_btwb_kron.

(* reset_diagonals: np.repeat(lam_r*values_rows, c) + np.tile(lam_c*values_columns, a) has length
   a*c on both sides and is the diagonal of kron(L_r, I_c) + kron(I_a, L_c). *)
Theorem C20_penalty_kron : forall (R : ops),
  semi_ring_theory (t0 R) (t1 R) (tadd R) (tmul R) (@eq (T R)) ->
  forall (cf : cfg) (a c : nat) (lam_r lam_c : T R) (vr vc : vec R) (k : Z),
  cfg_ok cf = true -> 0 < Z.of_nat c ->
  penalty_lens cf (Z.of_nat a) (Z.of_nat c) = (Z.of_nat a * Z.of_nat c, Z.of_nat c * Z.of_nat a) /\
  penalty R cf (Z.of_nat a) (Z.of_nat c) lam_r lam_c vr vc k
  = madd R (kron R (Z.of_nat c) (Z.of_nat c) (diagm R (vscale R lam_r vr)) (eye R))
           (kron R (Z.of_nat c) (Z.of_nat c) (eye R) (diagm R (vscale R lam_c vc))) k k.
Proof. exact penalty_is_kron_diag. Qed.
Print Assumptions C20_penalty_kron.

(* that matrix is diagonal, so np.fill_diagonal(lhs, lhs.diagonal() + penalty) adds all of it *)
Theorem C20_penalty_offdiag : forall (R : ops),
  semi_ring_theory (t0 R) (t1 R) (tadd R) (tmul R) (@eq (T R)) ->
  forall (a c : Z) (lr lc : vec R) (r s : Z),
  0 < c -> r <> s -> pen_spec R a c lr lc r s = t0 R.
Proof. exact pen_spec_offdiag. Qed.
Print Assumptions C20_penalty_offdiag.

(* solve(): the matrix handed to scipy.linalg.solve is B'WB + kron(L_r,I) + kron(I,L_c) ... *)
Theorem C20_lhs : forall (R : ops),
  semi_ring_theory (t0 R) (t1 R) (tadd R) (tmul R) (@eq (T R)) ->
  forall (cf : cfg) (M N a c : nat) (Br W Bc : mat R) (lam_r lam_c : T R) (vr vc : vec R) (r s : Z),
  cfg_ok cf = true -> 0 <= r < Z.of_nat a * Z.of_nat c -> 0 <= s < Z.of_nat a * Z.of_nat c ->
  lhs_model R cf M N a c Br W Bc (penalty R cf (Z.of_nat a) (Z.of_nat c) lam_r lam_c vr vc) r s
  = madd R (btwb_spec R M N (Z.of_nat c) Br W Bc)
           (pen_spec R (Z.of_nat a) (Z.of_nat c) (vscale R lam_r vr) (vscale R lam_c vc)) r s.
Proof. exact lhs_is_BtWB_plus_P. Qed.
Print Assumptions C20_lhs.

(* ... the right-hand side (B_r' (W o Y) B_c).ravel() is B' diag(vec W) vec(Y) ... *)
Theorem C20_rhs : forall (R : ops),
  semi_ring_theory (t0 R) (t1 R) (tadd R) (tmul R) (@eq (T R)) ->
  forall (M N c : nat) (Br W Y Bc : mat R) (k : Z),
  0 <= k -> 0 < Z.of_nat c ->
  rhs_model R M N (Z.of_nat c) Br W Y Bc k
  = mvec R (M * N) (mmul R (M * N) (mT R (kron R (Z.of_nat N) (Z.of_nat c) Br Bc))
                                    (diagm R (ravel2 R (Z.of_nat N) W)))
           (ravel2 R (Z.of_nat N) Y) k.
Proof. exact rhs_is_BtWy. Qed.
Print Assumptions C20_rhs.

(* ... and the returned surface B_r @ coef.reshape(a, c) @ B_c' is B @ coef, reshaped to (M, N). *)
Theorem C20_output : forall (R : ops),
  semi_ring_theory (t0 R) (t1 R) (tadd R) (tmul R) (@eq (T R)) ->
  forall (N a c : nat) (Br Bc : mat R) (coef : vec R) (i j : Z),
  0 <= j < Z.of_nat N ->
  output_model R a c Br Bc coef i j
  = mvec R (a * c) (kron R (Z.of_nat N) (Z.of_nat c) Br Bc) coef (i * Z.of_nat N + j).
Proof. exact output_is_Bc. Qed.
Print Assumptions C20_output.

(* eigenvalues[:diff_order] = 0 is the identity when the first diff_order eigenvalues are exactly
   zero (contract of the eigen-solver: null space of D_d'D_d, sampled by the harness) *)
Theorem C20_zero_first : forall (R : ops) (d : Z) (v : vec R) (k : Z),
  (forall i, 0 <= i < d -> v i = t0 R) -> 0 <= k -> zero_first R d v k = v k.
Proof. exact zero_first_exact. Qed.
Print Assumptions C20_zero_first.

(* Precisely: zeroing by POSITION changes nothing iff the first diff_order eigenvalues are null; when
   EXACTLY the first diff_order eigenvalues are the null ones (rank of D_d'D_d is n - d; the solver
   returns them in ascending order) the zeroed positions are exactly the null space. *)
Theorem C20_zero_first_iff : forall (R : ops) (d : Z) (n : nat) (v : vec R),
  (forall k, 0 <= k < Z.of_nat n -> zero_first R d v k = v k)
  <-> (forall k, 0 <= k < Z.of_nat n -> k < d -> v k = t0 R).
Proof. exact zero_first_iff. Qed.
Print Assumptions C20_zero_first_iff.

Theorem C20_zero_first_null_space : forall (R : ops) (d : Z) (n : nat) (v : vec R),
  (forall k, 0 <= k < Z.of_nat n -> (v k = t0 R <-> k < d)) ->
  forall k, 0 <= k < Z.of_nat n ->
  zero_first R d v k = v k /\ (zero_first R d v k = t0 R <-> k < d).
Proof. exact zero_first_null_space. Qed.
Print Assumptions C20_zero_first_null_space.

(* Zeroing by MAGNITUDE (not what the source does) is harmless iff no genuine eigenvalue is small --
   false on long axes, where the smallest genuine eigenvalues of D'D shrink like (c/N)^(2d) ... *)
Theorem C20_zero_below_iff : forall (R : ops) (small : T R -> bool) (n : nat) (v : vec R),
  (forall k, 0 <= k < Z.of_nat n -> zero_below R small v k = v k)
  <-> (forall k, 0 <= k < Z.of_nat n -> small (v k) = true -> v k = t0 R).
Proof. exact zero_below_iff. Qed.
Print Assumptions C20_zero_below_iff.

(* ... witness on the model (diagonal example, eigenvalues (0,0,3,50), diff_order 2, threshold 10):
   position zeroing is exact, the threshold zeroes the genuine eigenvalue 3 and changes the penalty. *)
Theorem C20_threshold_zeroing_refuted :
  (forall k, 0 <= k < 4 -> (wit_vals k = 0 <-> k < 2)) /\
  (forall k, 0 <= k < 4 -> zero_first ZO 2 wit_vals k = wit_vals k) /\
  zero_below ZO wit_small wit_vals 2 <> wit_vals 2 /\
  penalty ZO std_cfg 4 1 1 1 (zero_below ZO wit_small wit_vals) (of_list [0]) 2
  <> penalty ZO std_cfg 4 1 1 1 (zero_first ZO 2 wit_vals) (of_list [0]) 2.
Proof. exact threshold_zeroing_wrong. Qed.
Print Assumptions C20_threshold_zeroing_refuted.

(* Kronecker mixed product, all shapes: kron(A,B) @ kron(C,D) = kron(A@C, B@D); with kron_transpose
   this gives U'U = kron(U_r'U_r, U_c'U_c) and U' kron(P_r, I) U = kron(U_r'P_rU_r, U_c'U_c). *)
Theorem C20_kron_mixed : forall (R : ops),
  semi_ring_theory (t0 R) (t1 R) (tadd R) (tmul R) (@eq (T R)) ->
  forall (n q : nat) (p l : Z) (A B C D : mat R) (r s : Z),
  mmul R (n * q) (kron R p (Z.of_nat q) A B) (kron R (Z.of_nat q) l C D) r s
  = kron R p l (mmul R n A C) (mmul R q B D) r s.
Proof. exact kron_mixed. Qed.
Print Assumptions C20_kron_mixed.

(* Per-axis eigen contracts (orthonormal columns U_r'U_r = I; U_r'P_rU_r = diag(l_r); same for the
   columns; sampled against eig_banded / eigh_tridiagonal by the harness) give, for U = kron(U_r,U_c):
   U'U = I, and U' (kron(P_r, I_N) + kron(I_M, P_c)) U = kron(L_r, I_c) + kron(I_a, L_c), the diagonal
   matrix of C20_penalty_kron -- i.e. the hypotheses "U'PU = L" / "U'U = 1" of C20_galerkin*. *)
Theorem C20_eigenbasis_orthonormal : forall (R : ops),
  semi_ring_theory (t0 R) (t1 R) (tadd R) (tmul R) (@eq (T R)) ->
  forall (M N a c : nat) (Ur Uc : mat R) (r s : Z),
  orthonormal_cols R M a Ur -> orthonormal_cols R N c Uc ->
  0 <= r < Z.of_nat a * Z.of_nat c -> 0 <= s < Z.of_nat a * Z.of_nat c ->
  mmul R (M * N) (mT R (kron R (Z.of_nat N) (Z.of_nat c) Ur Uc)) (kron R (Z.of_nat N) (Z.of_nat c) Ur Uc) r s
  = eye R r s.
Proof. exact eigenbasis_orthonormal. Qed.
Print Assumptions C20_eigenbasis_orthonormal.

Theorem C20_eigenbasis_penalty : forall (R : ops),
  semi_ring_theory (t0 R) (t1 R) (tadd R) (tmul R) (@eq (T R)) ->
  forall (M N a c : nat) (Ur Uc Pr Pc : mat R) (lr lc : vec R) (r s : Z),
  orthonormal_cols R M a Ur -> orthonormal_cols R N c Uc ->
  diagonalises R M a Ur Pr lr -> diagonalises R N c Uc Pc lc ->
  0 <= r < Z.of_nat a * Z.of_nat c -> 0 <= s < Z.of_nat a * Z.of_nat c ->
  mmul R (M * N) (mmul R (M * N) (mT R (kron R (Z.of_nat N) (Z.of_nat c) Ur Uc))
                       (madd R (kron R (Z.of_nat N) (Z.of_nat N) Pr (eye R))
                               (kron R (Z.of_nat N) (Z.of_nat N) (eye R) Pc)))
       (kron R (Z.of_nat N) (Z.of_nat c) Ur Uc) r s
  = pen_spec R (Z.of_nat a) (Z.of_nat c) lr lc r s.
Proof. exact eigenbasis_penalty. Qed.
Print Assumptions C20_eigenbasis_penalty.

(* End to end, inside the executable model (no abstract matrices): under the per-axis eigen contracts the matrix
   WhittakerSystem2D.solve assembles (face-splitting / reshape pipeline + repeat/tile penalty + fill_diagonal) IS
   U' (diag(vec W) + kron(P_r, I_N) + kron(I_M, P_c)) U for U = kron(U_r, U_c): the documented full system projected
   on the eigenbasis (P_r, P_c carry lam_r, lam_c; their eigenvalues are lam_r*values_rows, lam_c*values_columns) ... *)
Theorem C20_lhs_is_projected_full_system : forall (R : ops),
  semi_ring_theory (t0 R) (t1 R) (tadd R) (tmul R) (@eq (T R)) ->
  forall (cf : cfg) (M N a c : nat) (Ur Uc W Pr Pc : mat R) (lam_r lam_c : T R) (vr vc : vec R) (r s : Z),
  cfg_ok cf = true ->
  orthonormal_cols R M a Ur -> orthonormal_cols R N c Uc ->
  diagonalises R M a Ur Pr (vscale R lam_r vr) -> diagonalises R N c Uc Pc (vscale R lam_c vc) ->
  0 <= r < Z.of_nat a * Z.of_nat c -> 0 <= s < Z.of_nat a * Z.of_nat c ->
  lhs_model R cf M N a c Ur W Uc (penalty R cf (Z.of_nat a) (Z.of_nat c) lam_r lam_c vr vc) r s
  = projected R M N c Ur Uc (full_matrix R N W Pr Pc) r s.
Proof. exact lhs_is_projected_full_system. Qed.
Print Assumptions C20_lhs_is_projected_full_system.

(* ... so coefficients that solve the system the code builds satisfy U'(W+P)U c = U' W vec(y), the Galerkin system of
   (W + P) v = W y (C20_galerkin* then give: v = U c solves the full system for a full orthogonal basis). *)
Theorem C20_solve_is_galerkin : forall (R : ops),
  semi_ring_theory (t0 R) (t1 R) (tadd R) (tmul R) (@eq (T R)) ->
  forall (cf : cfg) (M N a c : nat) (Ur Uc W Y Pr Pc : mat R) (lam_r lam_c : T R) (vr vc coef : vec R),
  cfg_ok cf = true ->
  orthonormal_cols R M a Ur -> orthonormal_cols R N c Uc ->
  diagonalises R M a Ur Pr (vscale R lam_r vr) -> diagonalises R N c Uc Pc (vscale R lam_c vc) ->
  (forall r, 0 <= r < Z.of_nat a * Z.of_nat c ->
     mvec R (a * c) (lhs_model R cf M N a c Ur W Uc (penalty R cf (Z.of_nat a) (Z.of_nat c) lam_r lam_c vr vc)) coef r
     = rhs_model R M N (Z.of_nat c) Ur W Y Uc r) ->
  forall r, 0 <= r < Z.of_nat a * Z.of_nat c ->
    mvec R (a * c) (projected R M N c Ur Uc (full_matrix R N W Pr Pc)) coef r
    = btwy_spec R M N (Z.of_nat c) Ur W Y Uc r.
Proof. exact solve_is_galerkin. Qed.
Print Assumptions C20_solve_is_galerkin.

Example C20_eigen_contract_nonvacuous :
  orthonormal_cols ZO 2 2 (of_rows [[0; 1]; [1; 0]]) /\
  diagonalises ZO 2 2 (of_rows [[0; 1]; [1; 0]]) (of_rows [[3; 0]; [0; 0]]) (of_list [0; 3]).
Proof. exact eigen_contract_example. Qed.
Example C20_semiring_nonvacuous : semi_ring_theory (t0 ZO) (t1 ZO) (tadd ZO) (tmul ZO) (@eq (T ZO)).
Proof. exact ZO_sring. Qed.
Example C20_cfg_nonvacuous : cfg_ok std_cfg = true.
Proof. reflexivity. Qed.

(* ---------------------------------------------------------------- individual_axes *)
From PB Require Import C20.Axes C20.AxesProofs.

(* Baseline2D.individual_axes (axis values rebuilt in input order through the inverted sort orders,
   assume_sorted only when no axis needed sorting, axes in the requested order, accumulation
   baseline += fit(data - baseline)) equals the chosen 1-D method applied along the requested axes
   in order with the axis values as the user supplied them -- sorted or not, any axis order.
   fit1 is the 1-D method (Section contract: reads positions 0..n-1 only; on sorted axis values the
   assume_sorted flag is irrelevant); axis_inv is what Baseline2D.__init__ establishes
   (self.x = x_in[p], p[inverted[i]] = i, or x_in already sorted). *)
Theorem C20_individual_axes : forall (T : Type) (tadd tsub : T -> T -> T) (tzero : T)
    (fit1 : bool -> nat -> (Z -> T) -> (Z -> T) -> Z -> T) (is_sorted : nat -> (Z -> T) -> Prop),
  (forall (flag : bool) (n : nat) (v v' d d' : Z -> T),
     (forall i, 0 <= i < Z.of_nat n -> v i = v' i) -> (forall i, 0 <= i < Z.of_nat n -> d i = d' i) ->
     forall i, 0 <= i < Z.of_nat n -> fit1 flag n v d i = fit1 flag n v' d' i) ->
  (forall (n : nat) (v d : Z -> T) (i : Z), is_sorted n v -> fit1 true n v d i = fit1 false n v d i) ->
  forall (st : state T) (x_in z_in : Z -> T) (M N : nat) (axes : list Z) (data : Z -> Z -> T),
  axes_ok axes ->
  axis_inv T is_sorted M x_in (sx T st) (inv_x T st) ->
  axis_inv T is_sorted N z_in (sz T st) (inv_z T st) ->
  eq_on T M N (individual_axes T tadd tsub tzero fit1 st M N axes data)
              (sequential_1d T tadd tsub tzero fit1 x_in z_in M N axes data).
Proof. exact individual_axes_sequential. Qed.
Print Assumptions C20_individual_axes.

(* the sort handling matters: the code before the fix 712a97d (sorted axis values, assume_sorted=True)
   differs from the sequential application on x_in = [5; 1] *)
Theorem C20_individual_axes_old_code_differs :
  tabZ 2 1 (individual_axes_old Z Z.add Z.sub 0 fitS wit_state 2 1 [0] (of_rowsZ [[10]; [20]]))
  <> tabZ 2 1 (sequential_1d Z Z.add Z.sub 0 fitS (of_listZ [5; 1]) (of_listZ [7]) 2 1 [0]
                 (of_rowsZ [[10]; [20]])).
Proof. exact individual_axes_old_differs. Qed.
Print Assumptions C20_individual_axes_old_code_differs.

Example C20_individual_axes_nonvacuous :
  axis_inv Z (fun _ _ => True) 2 (of_listZ [5; 1]) (sx Z wit_state) (inv_x Z wit_state) /\
  axis_inv Z (fun _ _ => True) 1 (of_listZ [7]) (sz Z wit_state) (inv_z Z wit_state).
Proof. exact wit_inv. Qed.
Example C20_fit_contract_nonvacuous : forall flag n v v' d d',
  (forall i, 0 <= i < Z.of_nat n -> v i = v' i) -> (forall i, 0 <= i < Z.of_nat n -> d i = d' i) ->
  forall i, 0 <= i < Z.of_nat n -> fitS flag n v d i = fitS flag n v' d' i.
Proof. exact fitS_ext. Qed.

(* ---------------------------------------------------------------- Galerkin (mathcomp) *)
From mathcomp Require Import all_ssreflect all_algebra.
From PB Require Import C20.Galerkin.
Import GRing.Theory.
Local Open Scope ring_scope.

(* With L = U'PU (C20_penalty_kron + the eigen contract), the system the code solves,
   (U'WU + L) c = U'W y (C20_lhs, C20_rhs), is exactly the Galerkin condition of the full system
   (W + P) v = W y on span(U): the residual at v = U c is orthogonal to every column of U.
   Any number of basis vectors k <= n, any U (orthonormality is only needed for L to be diagonal). *)
Theorem C20_galerkin : forall (F : comUnitRingType) (n k : nat) (W P : 'M[F]_n) (U : 'M[F]_(n, k))
    (L : 'M[F]_k) (y : 'cV[F]_n) (c : 'cV[F]_k),
  U^T *m P *m U = L ->
  ((U^T *m W *m U + L) *m c = U^T *m W *m y
   <-> U^T *m ((W + P) *m (U *m c) - W *m y) = 0).
Proof. exact galerkin_reduced. Qed.
Print Assumptions C20_galerkin.

(* With all eigenvectors (square U with orthonormal columns) the reduced solution gives a solution
   v = U c of the full system (W + P) v = W y ... *)
Theorem C20_galerkin_full : forall (F : comUnitRingType) (n : nat) (W P U L : 'M[F]_n) (y c : 'cV[F]_n),
  U^T *m U = 1%:M -> U^T *m P *m U = L ->
  (U^T *m W *m U + L) *m c = U^T *m W *m y ->
  (W + P) *m (U *m c) = W *m y.
Proof. exact galerkin_full. Qed.
Print Assumptions C20_galerkin_full.

(* ... which is the direct solution whenever W + P is invertible. *)
Theorem C20_galerkin_full_unique : forall (F : comUnitRingType) (n : nat) (W P U L : 'M[F]_n) (y c : 'cV[F]_n),
  U^T *m U = 1%:M -> U^T *m P *m U = L -> (W + P) \in unitmx ->
  (U^T *m W *m U + L) *m c = U^T *m W *m y ->
  U *m c = invmx (W + P) *m (W *m y).
Proof. exact galerkin_full_unique. Qed.
Print Assumptions C20_galerkin_full_unique.
