(* Property C19, translator obligation: the loess driver keeps nothing on the fitter object between calls.
   gen/GenLoessState.v is regenerated from /repo on every run (tools/gen_loess_state.py, fail-closed); the check is
   reflective (boolean checker + soundness lemma + vm_compute).  With C19_history_independent (props/C19.v) this lifts
   the single-call theorems to every sequence of loess calls on one object. *)
From Coq Require Import List String.
From PB Require Import gen.GenLoessState C19.StateCheck.
Import ListNotations.
Open Scope string_scope.

Theorem C19_driver_stateless :
  loess_module_data_used = [] /\ loess_self_writes = [] /\ polynomial_class_state = [] /\ polynomial_module_state = [] /\
  (forall a, In a loess_self_reads -> In a ["_polynomial"; "_setup_polynomial"; "_size"; "x"; "x_domain"]) /\
  (forall a, In a loess_self_calls -> In a ["_setup_polynomial"]) /\
  (forall f d, In (f, d) loess_strategy_functions -> forall e, In e d -> e = "jit(nopython=True, cache=True)").
Proof. exact driver_stateless. Qed.
Print Assumptions C19_driver_stateless.
