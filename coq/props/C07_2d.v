(* Property C07, 2-D part -- the 2-D penalized-spline methods solve the documented Kronecker P-spline system.
   Only the property theorems; each is closed by an exact lemma of C07/Proofs2D.v (which imports C20).

   [R : ops] (C20's record) is any commutative semiring, [ofZ] the embedding of the integer difference penalty;
   data shape (M, N); bases B_r (M x a), B_c (N x c) -- ARBITRARY matrices (the assembly uses nothing else);
   diff_order (dr, dc) and lam (lr, lc) per axis; [cf] the index-level configuration of _make_btwb translated
   from the current source (gen/GenC20.v, checked by C20_source_cfg).  Coefficient (a1, c1) has index a1*c + c1.
   pass2_ok n A rhs k := the (lhs, rhs) handed to spsolve equal A (all n x n entries) and rhs. *)
From Coq Require Import ZArith List Bool Ring.
From PB Require Import C11.DtD C20.Model C20.Proofs gen.GenC20 C07.Model2D C07.Proofs2D C07.Cfg2D.
Import ListNotations.
Open Scope Z_scope.

(* mixture_model, irsqr, pspline_asls / airpls / arpls / iarpls / psalsa / brpls / lsrpls (2-D): at every pass
   lhs = kron(B_r,B_c)' diag(vec W) kron(B_r,B_c) + lam_r kron(D_r'D_r, I_c) + lam_c kron(I_a, D_c'D_c),
   rhs = kron(B_r,B_c)' diag(vec W) vec(Y), for all shapes / numbers of basis functions / diff_orders per axis *)
Theorem C07_2d_asls_system : forall (R : ops),
  semi_ring_theory (t0 R) (t1 R) (tadd R) (tmul R) (@eq (T R)) ->
  forall (ofZ : Z -> T R) (cf : cfg) (M N a c dr dc : nat) (lr lc : T R) (Br Bc Y : mat R) (wl : list (mat R)),
  cfg_ok cf = true -> (1 <= dr < a)%nat -> (1 <= dc < c)%nat ->
  exists cs, asls2d R ofZ cf M N a c dr dc lr lc Br Bc Y wl = Some cs /\
    Forall2 (fun W k => pass2_ok R (Z.of_nat a * Z.of_nat c)
                          (doc_asls2d R ofZ M N a c dr dc lr lc Br Bc W)
                          (btwy_spec R M N (Z.of_nat c) Br W Y Bc) k) wl cs.
Proof. exact asls2d_system. Qed.
Print Assumptions C07_2d_asls_system.

(* the penalty of that system entry by entry on the coefficient grid *)
Theorem C07_2d_penalty_entry : forall (R : ops),
  semi_ring_theory (t0 R) (t1 R) (tadd R) (tmul R) (@eq (T R)) ->
  forall (ofZ : Z -> T R) (a c dr dc : nat) (lr lc : T R) (a1 c1 a2 c2 : Z),
  0 <= c1 < Z.of_nat c -> 0 <= c2 < Z.of_nat c ->
  pen2d R ofZ a c dr dc lr lc (a1 * Z.of_nat c + c1) (a2 * Z.of_nat c + c2)
  = tadd R (if c1 =? c2 then tmul R lr (ofZ (DtD dr a a1 a2)) else t0 R)
           (if a1 =? a2 then tmul R lc (ofZ (DtD dc c c1 c2)) else t0 R).
Proof. exact pen2d_entry. Qed.
Print Assumptions C07_2d_penalty_entry.

(* pspline_iasls (2-D): + B' P_1 B and rhs + B' P_1 vec(Y), P_1 = lam_1r kron(D_1'D_1, I_N) + lam_1c kron(I_M, D_1'D_1)
   on the data grid, weights squared *)
Theorem C07_2d_iasls_system : forall (R : ops),
  semi_ring_theory (t0 R) (t1 R) (tadd R) (tmul R) (@eq (T R)) ->
  forall (ofZ : Z -> T R) (cf : cfg) (M N a c dr dc : nat) (lr lc l1r l1c : T R) (Br Bc Y : mat R) (wl : list (mat R)),
  cfg_ok cf = true -> (2 <= dr < a)%nat -> (2 <= dc < c)%nat -> (2 <= M)%nat -> (2 <= N)%nat ->
  exists cs, iasls2d R ofZ cf M N a c dr dc lr lc l1r l1c Br Bc Y wl = Some cs /\
    Forall2 (fun W k => pass2_ok R (Z.of_nat a * Z.of_nat c)
                          (doc_iasls2d R ofZ M N a c dr dc lr lc l1r l1c Br Bc W)
                          (doc_iasls2d_rhs R ofZ M N c l1r l1c Br Bc W Y) k) wl cs.
Proof. exact iasls2d_system. Qed.
Print Assumptions C07_2d_iasls_system.

(* spsolve as a library with contract lhs * x = rhs: the coefficients solve the documented system *)
Theorem C07_2d_coef_solves : forall (R : ops)
         (solve : call2 R -> vec R) (n : nat),
  (forall k r, 0 <= r < Z.of_nat n -> mvec R n (c_lhs k) (solve k) r = c_rhs k r) ->
  forall (A : mat R) (rhs : vec R) (k : call2 R),
  pass2_ok R (Z.of_nat n) A rhs k ->
  forall r, 0 <= r < Z.of_nat n -> mvec R n A (solve k) r = rhs r.
Proof. exact coef2d_solves. Qed.
Print Assumptions C07_2d_coef_solves.

(* the returned surface basis_r @ coef.reshape(a, c) @ basis_c.T is kron(B_r, B_c) c on the data grid *)
Theorem C07_2d_Bc : forall (R : ops),
  semi_ring_theory (t0 R) (t1 R) (tadd R) (tmul R) (@eq (T R)) ->
  forall (N a c : nat) (Br Bc : mat R) (coef : vec R) (i j : Z),
  0 <= j < Z.of_nat N ->
  output_model R a c Br Bc coef i j
  = mvec R (a * c) (Bkron R (Z.of_nat N) (Z.of_nat c) Br Bc) coef (i * Z.of_nat N + j).
Proof. exact output2d_is_Bc. Qed.
Print Assumptions C07_2d_Bc.

(* the configuration translated from the current source is one these theorems apply to *)
Theorem C07_2d_source_cfg : cfg_ok gen_cfg_spline = true.
Proof. exact spline_cfg_ok. Qed.
Print Assumptions C07_2d_source_cfg.

(* non-vacuity: integers, a 3 x 2 coefficient grid with different orders per axis; the model's lhs is the
   documented matrix and is not the bare B'WB *)
Example C07_2d_nonvacuous :
  let Br : mat ZO := fun i j => if (j <=? i) && (i <=? j + 1) then i + j + 1 else 0 in
  let Bc : mat ZO := fun i j => if j =? i / 2 then 2 else 0 in
  let W : mat ZO := fun i j => (i + j) mod 3 in
  match asls2d ZO (fun z => z) gen_cfg_spline 4 4 3 2 2 1 2 3 Br Bc (fun i j => i - j) [W] with
  | Some [k] => tab2 6 6 (c_lhs k) = tab2 6 6 (doc_asls2d ZO (fun z => z) 4 4 3 2 2 1 2 3 Br Bc W)
                /\ c_lhs k 0 2 <> btwb_spec ZO 4 4 2 Br W Bc 0 2
  | _ => False
  end.
Proof. vm_compute. split; [reflexivity|discriminate]. Qed.
