(* Property C08 -- polynomial baselines are least-squares polynomials with usable coefficients.
   Part 1 (stdlib, closed): the coefficient transform of pybaselines/utils.py (C08/Model.v) over EVERY field
   with decidable Leibniz equality and 2 <> 0 (`good_field`), instantiated by the canonical rationals, which is
   the instance the harness executes against the implementation on dyadic inputs.
   Part 2 (mathcomp, closed): what the Moore-Penrose conditions of numpy.linalg.pinv (a Section variable,
   sampled by the harness) give for `coef = pinv(sqrt(w) V) @ (sqrt(w) y)`, over every real (ordered) field. *)
From Coq Require Import ZArith List Bool Arith String.
Import ListNotations.
From PB Require Import C08.Model C08.Proofs C08.MaxCross C08.Flow gen.GenPolyFlow C08.FlowTable.
From PB Require C08.NormalEq.

(* ---------------- Part 1: usable coefficients ---------------- *)

(* T . d evaluated at x  =  d evaluated at (x - offset)/scale: for every number of coefficients n, every
   coefficient vector, every scale <> 0 and every offset -- BOTH branches of _poly_transform_matrix
   (transform_os tests `offset == 0` itself) *)
Theorem C08_transform : forall (F : Fld), good_field F ->
  forall (n : nat) (d : nat -> T F) (offset scale x : T F), scale <> f0 F ->
  polyval F n (matvec F n (transform_os F offset scale) d) x
  = polyval F n d (fdiv F (fsub F x offset) scale).
Proof. intros F [H1 [H2 H3]]. exact (transform_thm F H1 H2). Qed.
Print Assumptions C08_transform.

(* the two branches are one closed form; in particular the `offset == 0` branch (diagonal only) is what the
   general formula gives at offset = 0, and the closed form is 0 below the diagonal -- so leaving those entries
   unwritten (commit 97626ff, which removed a 0 * inf = nan for tiny offsets) is exact *)
Theorem C08_transform_branches : forall (F : Fld), good_field F ->
  forall (offset scale : T F) (i j : nat), scale <> f0 F ->
  transform_os F offset scale i j
  = fmul F (fpow F (finv F scale) j)
      (fmul F (of_nat F (binom j i)) (fpow F (fopp F offset) (j - i)))
  /\ ((j < i)%nat -> transform_os F offset scale i j = f0 F).
Proof.
  intros F [H1 [H2 H3]] offset scale i j Hs. split.
  - rewrite (transform_os_closed F H1 H2) by exact Hs. rewrite (row_binom F H1). reflexivity.
  - apply (transform_os_lower F H1 H2). exact Hs.
Qed.
Print Assumptions C08_transform_branches.

(* evaluating params['coef'] = _convert_coef(coef, x_domain) on the ORIGINAL x equals the row of
   `vandermonde @ coef` for that x (vandermonde built from mapdomain(x, x_domain, [-1, 1])), for every
   order, every domain with hi <> lo and every x *)
Theorem C08_coef_reproduce : forall (F : Fld), good_field F ->
  forall (n : nat) (d : nat -> T F) (lo hi x : T F), hi <> lo ->
  polyval F n (convert_coef F n d lo hi) x = fitted_baseline F n d lo hi x.
Proof. intros F [H1 [H2 H3]]. exact (coef_reproduce F H1 H2 H3). Qed.
Print Assumptions C08_coef_reproduce.

(* `vandermonde @ coef` is a polynomial of degree < n in the original variable *)
Theorem C08_baseline_is_polynomial : forall (F : Fld), good_field F ->
  forall (n : nat) (d : nat -> T F) (lo hi : T F), hi <> lo ->
  exists c : nat -> T F, forall x, fitted_baseline F n d lo hi x = polyval F n c x.
Proof. intros F [H1 [H2 H3]]. exact (baseline_is_polynomial F H1 H2 H3). Qed.
Print Assumptions C08_baseline_is_polynomial.

(* 2-D: Tx C Tz^T evaluated at (x, z) = C evaluated at the mapped (x, z) *)
Theorem C08_transform_2d : forall (F : Fld), good_field F ->
  forall (nx nz : nat) (c : nat -> T F) (lox hix loz hiz x z : T F), hix <> lox -> hiz <> loz ->
  polyval2d F nx nz (convert_coef2d F nx nz c lox hix loz hiz) x z
  = polyval2d F nx nz (coef2d F nz c) (mapped F x lox hix) (mapped F z loz hiz).
Proof. intros F [H1 [H2 H3]]. exact (transform_2d F H1 H2 H3). Qed.
Print Assumptions C08_transform_2d.

(* 2-D with max_cross: polyval2d of the returned coefficients on the original (x, z) equals the row of the
   masked Vandermonde times the flat coefficients, provided the coefficients of the masked columns are 0
   (which C08_pinv_zero_column derives from the Moore-Penrose conditions) *)
Theorem C08_coef_reproduce_2d : forall (F : Fld), good_field F ->
  forall (nx nz : nat) (mc : option nat) (c : nat -> T F) (lox hix loz hiz x z : T F),
  (0 < nz)%nat -> hix <> lox -> hiz <> loz ->
  (forall a b, (a < nx)%nat -> (b < nz)%nat -> masked mc a b = true -> c (a * nz + b)%nat = f0 F) ->
  polyval2d F nx nz (convert_coef2d F nx nz c lox hix loz hiz) x z
  = fitted_baseline2d F nx nz mc c lox hix loz hiz x z.
Proof. intros F [H1 [H2 H3]]. exact (coef_reproduce_2d F H1 H2 H3). Qed.
Print Assumptions C08_coef_reproduce_2d.

(* max_cross as a statement about monomials: x^a z^b is removed exactly when both exponents are >= 1 and one exceeds
   max_cross; the removed set is upward closed (so the surviving monomials are closed under lowering exponents, which is
   what an affine change of variables per axis needs); pure powers always survive; max_cross >= both orders removes nothing *)
Theorem C08_max_cross_monomials : forall (mc : option nat) (a b : nat),
  (masked mc a b = true <-> exists m, mc = Some m /\ (1 <= a)%nat /\ (1 <= b)%nat /\ (m < a \/ m < b)%nat)
  /\ (forall a' b', (a <= a')%nat -> (b <= b')%nat -> masked mc a b = true -> masked mc a' b' = true)
  /\ (a = O \/ b = O -> masked mc a b = false)
  /\ (forall m nx nz, mc = Some m -> (nx <= S m)%nat -> (nz <= S m)%nat -> (a < nx)%nat -> (b < nz)%nat -> masked mc a b = false).
Proof.
  intros mc a b. split; [apply masked_spec|]. split; [intros a' b'; apply masked_upward|]. split; [apply masked_pure|].
  intros m nx nz ->. apply masked_none_in_range.
Qed.
Print Assumptions C08_max_cross_monomials.

(* the back-transformation keeps the mask: if the fitted coefficients vanish on the removed monomials (which
   C08_pinv_zero_column gives), the coefficient array returned in the ORIGINAL variables vanishes there too -- for every
   order pair, every max_cross and every pair of domains (no hypothesis on the domains: T is upper triangular by construction) *)
Theorem C08_max_cross_preserved : forall (F : Fld), good_field F ->
  forall (nx nz : nat) (mc : option nat) (c : nat -> T F) (lox hix loz hiz : T F),
  (forall a b, (a < nx)%nat -> (b < nz)%nat -> masked mc a b = true -> c (a * nz + b)%nat = f0 F) ->
  forall a b, masked mc a b = true -> convert_coef2d F nx nz c lox hix loz hiz a b = f0 F.
Proof. intros F [H1 _]. exact (max_cross_preserved F H1). Qed.
Print Assumptions C08_max_cross_preserved.

(* the hypothesis `good_field` is satisfiable: the canonical rationals, the instance the harness runs *)
Example C08_good_field_nonvacuous : good_field Fld_Qc.
Proof. exact (conj Qc_field (conj Qc_eqb Qc_two)). Qed.

(* ---------------- which methods: flow of `coef` and `baseline` (translator + reflection) ---------------- *)

(* soundness of the abstract interpreter: for EVERY execution of a program over the four events (any loop
   counts, any branch choices), if the checker accepts then at return the report was not invalidated and the
   reported coef is the one the returned baseline was computed from *)
Theorem C08_flow_sound : forall p : prog, flow_ok p = true -> forall s', exec p init s' -> good s' = true.
Proof. exact flow_ok_sound. Qed.
Print Assumptions C08_flow_sound.

(* (every `coef = ...` in these methods must be `P @ rhs` with P a pseudo-inverse of the row-scaled Vandermonde -- a name
   only ever bound to the last result of _setup_polynomial(calc_pinv=True) or to np.linalg.pinv(s[:, None] * V) -- or
   np.linalg.lstsq on that tall matrix; any other solve, e.g. through V'WV, is the event ECoefOther, which no accepted
   program contains: that is the situation in which C08_pinv_optimal / C08_poly_weighted_optimal apply) *)
(* the table generated from the CURRENT source: all 12 methods with a return_coef parameter (loess exempt, see
   tools/gen_polyflow.py) return `vandermonde @ coef` for the coef they report, on every path; dietrich only
   "reported coef belongs to the returned baseline" because max_iter = 0 documents an interpolated baseline *)
Theorem C08_is_polynomial : forall (name : String.string) (p : prog) (s' : state),
  In (name, p) methods -> exec p init s' ->
  good s' = true /\ (name <> "1d_dietrich"%string -> sync s' = true).
Proof. exact methods_polynomial. Qed.
Print Assumptions C08_is_polynomial.

Theorem C08_method_table : map fst methods = expected_methods /\ exempt = ["1d_loess"%string].
Proof. split; apply table_checked. Qed.
Print Assumptions C08_method_table.

Example C08_flow_rejects_nonvacuous :
  flow_ok (Seq (Atom ECoef) (Seq (Atom EBase) (Seq (Star (Atom ECoef)) (Atom EReport)))) = false
  /\ exists s', exec (Seq (Atom ECoef) (Seq (Atom EBase) (Seq (Star (Atom ECoef)) (Atom EReport)))) init s' /\ good s' = false.
Proof.
  split; [reflexivity|]. eexists. split.
  - eapply X_seq; [apply X_atom|]. eapply X_seq; [apply X_atom|]. eapply X_seq; [|apply X_atom].
    eapply X_star_S; [apply X_atom | apply X_star_0].
  - reflexivity.
Qed.

(* ---------------- Part 2: least squares ---------------- *)
From mathcomp Require Import all_ssreflect all_algebra.
Import GRing.Theory Num.Theory.
Local Open Scope ring_scope.

(* if P satisfies A P A = A and (A P)^T = A P then c = P b satisfies the normal equations and minimises
   |A c - b|^2 among ALL c' (any real field, any shape) *)
Theorem C08_pinv_optimal : forall (F : realFieldType) (m n : nat) (A : 'M[F]_(m, n)) (P : 'M[F]_(n, m)),
  A *m P *m A = A -> (A *m P)^T = A *m P ->
  forall b : 'cV[F]_m,
    A^T *m (A *m (P *m b) - b) = 0
    /\ forall c' : 'cV[F]_n, NormalEq.norm2 (A *m (P *m b) - b) <= NormalEq.norm2 (A *m c' - b).
Proof.
  move=> F m n A P H1 H3 b; split; first exact: NormalEq.pinv_normal_eq.
  by move=> c'; exact: NormalEq.pinv_minimises.
Qed.
Print Assumptions C08_pinv_optimal.

(* uniqueness under full column rank *)
Theorem C08_pinv_unique : forall (F : realFieldType) (m n : nat) (A : 'M[F]_(m, n)) (P : 'M[F]_(n, m)),
  A *m P *m A = A -> (A *m P)^T = A *m P ->
  (forall c : 'cV[F]_n, A *m c = 0 -> c = 0) ->
  forall (b : 'cV[F]_m) (c' : 'cV[F]_n),
    NormalEq.norm2 (A *m c' - b) <= NormalEq.norm2 (A *m (P *m b) - b) -> c' = P *m b.
Proof. by move=> F m n A P H1 H3 inj b c'; exact: NormalEq.pinv_unique. Qed.
Print Assumptions C08_pinv_unique.

(* poly: with A = diag(s) V, s_i^2 = w_i, the coefficients P (s * y) minimise sum_i w_i (V c - y)_i^2 *)
Theorem C08_poly_weighted_optimal : forall (F : realFieldType) (m n : nat) (V : 'M[F]_(m, n)) (s w : 'rV[F]_m)
  (P : 'M[F]_(n, m)),
  (forall i, s 0 i ^+ 2 = w 0 i) ->
  diag_mx s *m V *m P *m (diag_mx s *m V) = diag_mx s *m V ->
  (diag_mx s *m V *m P)^T = diag_mx s *m V *m P ->
  forall (y : 'cV[F]_m) (c' : 'cV[F]_n),
    NormalEq.wdist V w (P *m (diag_mx s *m y)) y <= NormalEq.wdist V w c' y.
Proof. by move=> F m n V s w P sw H1 H3 y c'; exact: (NormalEq.poly_weighted_optimal sw). Qed.
Print Assumptions C08_poly_weighted_optimal.

(* a Vandermonde column zeroed by max_cross gets coefficient exactly 0 (all four Moore-Penrose conditions) *)
Theorem C08_pinv_zero_column : forall (F : realFieldType) (m n : nat) (A : 'M[F]_(m, n)) (P : 'M[F]_(n, m)),
  P *m A *m P = P -> (P *m A)^T = P *m A ->
  forall (k : 'I_n) (b : 'cV[F]_m), (forall i, A i k = 0) -> (P *m b) k 0 = 0.
Proof. by move=> F m n A P H2 H4 k b; exact: NormalEq.pinv_zero_column. Qed.
Print Assumptions C08_pinv_zero_column.
