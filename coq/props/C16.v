(* Property C16 -- equivalent ways of supplying the same inputs give the same result.
   This file contains only the property theorems; each is closed by an exact lemma. *)
From Coq Require Import String ZArith List Bool.
From PB Require Import C01.Wrapper C16.SigTable C16.Bind C16.BindProofs C16.Model C16.Proofs
  C16.PerPoint C16.PerPointProofs C16.InnerProofs C16.MethodCase C16.MethodCaseProofs C16.ArrayParams C16.ArrayParamsProofs C16.DtypeProofs gen.GenSigs C16.TableProofs.
Import ListNotations.
Open Scope Z_scope.

(* ---- normalisation (shapes and values), every N and M ---- *)

(* The value-level model used below makes the shape decisions of the C01 model of _check_array. *)
Theorem C16_shape_model_refines : forall (V : Type) (a : nd V),
  res_shape (check_array_1d_val a) = check_array_1d (nd_shape a)
  /\ res_shape (check_array_2d_val a) = check_array_2d (nd_shape a)
  /\ res_shape (check_array_2d_stack_val a) = check_array_2d_stack (nd_shape a).
Proof. intros V a. exact (conj (check_1d_shape a) (conj (check_2d_shape a) (check_2d_stack_shape a))). Qed.
Print Assumptions C16_shape_model_refines.

(* 1-D: two inputs with the same denotation (the same C-order sequence of numbers), whatever their
   container, shape class (N,), (N,1), (1,N) and memory layout, normalise to the same (shape, values). *)
Theorem C16_normalise : forall (V : Type) (a b a' b' : nd V),
  same_den a b -> check_array_1d_val a = VOk a' -> check_array_1d_val b = VOk b' ->
  nd_shape a' = nd_shape b' /\ forall p, 0 <= p < prodZ (nd_shape a) -> nd_at a' [p] = nd_at b' [p].
Proof. exact @normalise_1d. Qed.
Print Assumptions C16_normalise.

(* ... and what is accepted is raveled to shape (N,) holding exactly the flat denotation; (N,), (N,1), (1,N)
   are accepted for every N *)
Theorem C16_normalise_1d_value : forall (V : Type) (a a' : nd V),
  check_array_1d_val a = VOk a' ->
  nd_shape a' = [prodZ (nd_shape a)] /\ forall p, nd_at a' [p] = flat a p.
Proof. exact @norm_1d_flat. Qed.
Print Assumptions C16_normalise_1d_value.

Theorem C16_shape_classes_1d : forall (V : Type) (a : nd V) n,
  nd_shape a = [n] \/ nd_shape a = [n; 1] \/ nd_shape a = [1; n] ->
  exists a', check_array_1d_val a = VOk a' /\ nd_shape a' = [n].
Proof. exact @shapes_1d_accepted. Qed.
Print Assumptions C16_shape_classes_1d.

Theorem C16_column_row_denotation : forall (V : Type) (a : nd V) n p,
  (nd_shape a = [n; 1] -> flat a p = nd_at a [p; 0])
  /\ (nd_shape a = [1; n] -> 0 <= p < n -> flat a p = nd_at a [0; p]).
Proof. intros V a n p. exact (conj (flat_col a n p) (flat_row a n p)). Qed.
Print Assumptions C16_column_row_denotation.

(* 2-D: (M,N), (M,N,1), (1,M,N), (M,1,N) with the same non-singleton shape and the same denotation
   normalise to the same (shape, values) *)
Theorem C16_normalise_2d : forall (V : Type) (a b a' b' : nd V),
  Forall (fun d => 0 < d) (nd_shape a) -> Forall (fun d => 0 < d) (nd_shape b) ->
  squeeze (nd_shape a) = squeeze (nd_shape b) -> same_den a b ->
  check_array_2d_val a = VOk a' -> check_array_2d_val b = VOk b' ->
  nd_shape a' = nd_shape b' /\ forall p, 0 <= p < prodZ (nd_shape a) -> flat a' p = flat b' p.
Proof. exact @normalise_2d. Qed.
Print Assumptions C16_normalise_2d.

Theorem C16_stack_entries : forall (V : Type) (a a' : nd V) m n i j,
  1 < m -> 1 < n -> 0 <= i < m -> 0 <= j < n -> check_array_2d_val a = VOk a' ->
  (nd_shape a = [m; n; 1] -> nd_shape a' = [m; n] /\ nd_at a' [i; j] = nd_at a [i; j; 0])
  /\ (nd_shape a = [1; m; n] -> nd_shape a' = [m; n] /\ nd_at a' [i; j] = nd_at a [0; i; j])
  /\ (nd_shape a = [m; 1; n] -> nd_shape a' = [m; n] /\ nd_at a' [i; j] = nd_at a [i; 0; j]).
Proof. exact @stack_entries. Qed.
Print Assumptions C16_stack_entries.

(* memory layout (C, Fortran, strided view) only enters through the logical values *)
Theorem C16_layout_irrelevant : forall (V : Type) (d1 d2 : desc V),
  d_shape d1 = d_shape d2 ->
  (forall idx, nd_at (as_nd d1) idx = nd_at (as_nd d2) idx) -> same_den (as_nd d1) (as_nd d2).
Proof. exact @layout_irrelevant. Qed.
Print Assumptions C16_layout_irrelevant.

(* output dtype: the given output_dtype, else the dtype of the converted input; computed on the float64
   cast of the normalised input, cast last.
   PARTIAL (name kept without suffix because the statement is the model's rule, not a property of NumPy):
   the casts themselves are NumPy's and only sampled by the oracle. *)
Theorem C16_dtype_rule_partial : forall (V : Type) cast algo given (d : desc V) t r,
  (run_1d cast algo given d = Some (t, r) ->
     t = match given with Some g => g | None => d_dtype d end
     /\ exists y, check_array_1d_val (as_nd d) = VOk y /\ r = map_nd (cast t) (algo (map_nd (cast F64) y)))
  /\ (run_2d cast algo given d = Some (t, r) ->
     t = match given with Some g => g | None => d_dtype d end
     /\ exists y, check_array_2d_val (as_nd d) = VOk y /\ r = map_nd (cast t) (algo (map_nd (cast F64) y))).
Proof. intros. split; [apply dtype_rule_1d | apply dtype_rule_2d]. Qed.
Print Assumptions C16_dtype_rule_partial.

(* ---- no x == linspace(-1, 1, N) ---- *)

(* For every N = n+1 >= 2 the fitter state read by the method bodies (size, x, x_domain, no sort order,
   uniqueness check passes) is the same whether x was omitted or given as linspace(-1, 1, N). *)
Theorem C16_no_x : forall n : nat, (1 <= n)%nat ->
  state_with_x n (lin_nums n) (Z.of_nat n) = state_no_x n.
Proof. exact no_x_state. Qed.
Print Assumptions C16_no_x.

(* N = 1 is excluded above because it is false there: linspace(-1,1,1) = [-1.] has x_domain [-1,-1]. *)
Theorem C16_no_x_one_refuted : state_with_x 0 [-1] 1 <> state_no_x_one.
Proof. exact no_x_one_refuted. Qed.
Print Assumptions C16_no_x_one_refuted.

(* ---- module-level function == method on a fitter object ---- *)

(* Soundness of the table condition: IF sig_ok holds THEN for EVERY call shape (any number of positional
   arguments, any keywords) that the function's signature accepts, _class_wrapper calls
   klass(x_data = <the value bound to x_data or None>).method(...) such that the method's own binding
   succeeds and every parameter of the function other than x_data has, inside the method, the same
   explicit value or an ==-equal default; the method's additional parameters keep their defaults and
   the extra keywords arrive unchanged. *)
Theorem C16_wrapper_sound : forall (V : Type) (fs ms : sig) (pos : list V) (kw : list (string * V)) (b : bound),
  sig_ok fs ms = true -> bind fs pos kw = Some b ->
  exists margs mkw mb,
    wrapper fs pos kw = WCall (b_get b X) margs mkw /\ bind ms margs mkw = Some mb
    /\ b_extra mb = b_extra b
    /\ (forall p, In p (s_params fs) -> p_name p <> X ->
          exists q, find_param (p_name p) (s_params ms) = Some q /\ aval_equiv (env_at fs b p) (env_at ms mb q))
    /\ (forall q, In q (s_params ms) -> ~ In (p_name q) (names (s_params fs)) ->
          env_at ms mb q = Dflt (p_dflt q) /\ has_default q = true).
Proof. exact @wrapper_env. Qed.
Print Assumptions C16_wrapper_sound.

Theorem C16_call_shape_irrelevant : forall (V : Type) (fs ms : sig) (pos pos' : list V)
    (kw kw' : list (string * V)) (b b' : bound),
  sig_ok fs ms = true -> bind fs pos kw = Some b -> bind fs pos' kw' = Some b' ->
  (forall n, b_get b n = b_get b' n) -> b_extra b = b_extra b' ->
  exists margs mkw mb margs' mkw' mb',
    wrapper fs pos kw = WCall (b_get b X) margs mkw /\ wrapper fs pos' kw' = WCall (b_get b X) margs' mkw'
    /\ bind ms margs mkw = Some mb /\ bind ms margs' mkw' = Some mb'
    /\ (forall n, b_get mb n = b_get mb' n) /\ b_extra mb = b_extra mb'.
Proof. exact @call_shape_irrelevant. Qed.
Print Assumptions C16_call_shape_irrelevant.

Theorem C16_wrapper_error_iff : forall (V : Type) (fs : sig) (pos : list V) (kw : list (string * V)),
  wrapper fs pos kw = WTypeError <-> bind fs pos kw = None.
Proof. exact @wrapper_error_iff. Qed.
Print Assumptions C16_wrapper_error_iff.

(* The table generated from the current source passes the check: every wrapped module-level function
   has its method, registered, `data` first, and sig_ok; _class_wrapper and both _get_method bodies have
   the modelled shape. *)
Theorem C16_sig_table :
  sig_table_ok sigs = true /\ shapes_ok class_wrapper_shape get_method_1d get_method_2d = true.
Proof. exact sig_table_checked. Qed.
Print Assumptions C16_sig_table.

(* ... hence every module-level function of the current source is transparent for every call shape *)
Theorem C16_sig_table_sound : forall (V : Type) e, In e sigs ->
  exists ms, e_meth e = Some ms /\
  forall (pos : list V) (kw : list (string * V)) (b : bound),
    bind (e_func e) pos kw = Some b ->
    exists margs mkw mb,
      wrapper (e_func e) pos kw = WCall (b_get b X) margs mkw /\ bind ms margs mkw = Some mb
      /\ (forall n, b_get mb n = if String.eqb n X then None else b_get b n)
      /\ b_extra mb = b_extra b.
Proof. exact @table_wrapper_sound. Qed.
Print Assumptions C16_sig_table_sound.

(* ---- method lookup by name ---- *)
Theorem C16_case : forall attrs s t name,
  (lower s = lower t -> get_method attrs s = get_method attrs t)
  /\ (names_lower_ok attrs = true -> In name attrs -> lower s = name -> get_method attrs s = Some name).
Proof. intros attrs s t name. exact (conj (get_method_case attrs s t) (get_method_finds attrs name s)). Qed.
Print Assumptions C16_case.

Theorem C16_case_table :
  names_lower_ok methods_1d = true /\ names_lower_ok methods_2d = true
  /\ negb (Nat.eqb (length methods_1d) 0) = true /\ negb (Nat.eqb (length methods_2d) 0) = true.
Proof. exact method_names_lower. Qed.
Print Assumptions C16_case_table.

(* ---- per-point arguments (weights) as seen by the method body ---- *)

(* The model interprets the translated call  _check_optional_array(size, weights, dtype=, order=, ensure_1d=, axis=)
   and the later ravel of each _setup_* function.  1-D setups: inputs with the same denotation (any container,
   (N,), (N,1), (1,N), layout, dtype) give the same array. *)
Theorem C16_per_point_1d : forall e size svd (a b ra rb : nd Z),
  su_ensure_1d e = true -> same_den a b ->
  setup_weights e size svd a = VOk ra -> setup_weights e size svd b = VOk rb ->
  nd_shape ra = nd_shape rb /\ forall p, 0 <= p < prodZ (nd_shape a) -> flat ra p = flat rb p.
Proof. exact per_point_same_1d. Qed.
Print Assumptions C16_per_point_1d.

(* 2-D setups: (M, N) inputs with the same logical entries (C, Fortran, transposed or strided memory, any
   container or dtype) give the same array, also where the setup flattens it. *)
Theorem C16_per_point_2d : forall e size svd (a b ra rb : nd Z),
  su_ensure_1d e = false -> nd_shape a = nd_shape b ->
  (forall p, 0 <= p < prodZ (nd_shape a) -> flat a p = flat b p) ->
  setup_weights e size svd a = VOk ra -> setup_weights e size svd b = VOk rb ->
  nd_shape ra = nd_shape rb /\ forall p, 0 <= p < prodZ (nd_shape a) -> flat ra p = flat rb p.
Proof. exact per_point_same_2d. Qed.
Print Assumptions C16_per_point_2d.

(* for every M, N: (M, N) weights are accepted and the flattened array is the ROW-MAJOR sequence of the logical
   entries, w'[i*N + j] = W[i][j], whatever the memory layout; 1-D weights of the three shape classes arrive as
   their flat sequence, cast to the setup's dtype *)
Theorem C16_per_point_values : forall e svd (a : nd Z) m n i j,
  (su_ensure_1d e = false -> su_axis e = AxAll -> nd_shape a = [m; n] ->
     setup_weights e [m; n] svd a = VOk (apply_flat (su_flat e) svd (map_nd (wcast (su_dtype e)) a)))
  /\ (nd_shape a = [m; n] -> 0 <= i < m -> 0 <= j < n ->
        nd_shape (ravel a) = [m * (n * 1)] /\ nd_at (ravel a) [i * n + j] = nd_at a [i; j])
  /\ (su_ensure_1d e = true -> su_axis e = AxLast -> su_flat e = FlNone ->
        nd_shape a = [n] \/ nd_shape a = [n; 1] \/ nd_shape a = [1; n] ->
        exists ra, setup_weights e [n] svd a = VOk ra /\ nd_shape ra = [n]
                   /\ forall p, nd_at ra [p] = wcast (su_dtype e) (flat a p)).
Proof.
  intros e svd a m n i j. split; [|split].
  - exact (setup_weights_2d_value e svd a m n).
  - exact (ravel_row_major a m n i j).
  - exact (setup_weights_1d_value e svd a n).
Qed.
Print Assumptions C16_per_point_values.

(* the table of the eight _setup_* functions translated from the current source passes the check (dtype fixed by
   the setup, C-order ravel only, expected flags), and both _register.inner bodies have the modelled shape *)
Theorem C16_setups_table :
  setups_ok setups = true /\ inner_shapes_ok inner_shape_1d inner_shape_2d = true.
Proof. exact setups_checked. Qed.
Print Assumptions C16_setups_table.

Theorem C16_setups_table_sound : forall e, In e setups ->
  forall size svd (a b ra rb : nd Z),
    setup_weights e size svd a = VOk ra -> setup_weights e size svd b = VOk rb ->
    (su_two_d e = false -> same_den a b ->
       nd_shape ra = nd_shape rb /\ forall p, 0 <= p < prodZ (nd_shape a) -> flat ra p = flat rb p)
    /\ (su_two_d e = true -> nd_shape a = nd_shape b ->
        (forall p, 0 <= p < prodZ (nd_shape a) -> flat a p = flat b p) ->
        nd_shape ra = nd_shape rb /\ forall p, 0 <= p < prodZ (nd_shape a) -> flat ra p = flat rb p).
Proof. exact table_per_point. Qed.
Print Assumptions C16_setups_table_sound.

(* ---- the inner(self, data=None, *args, **kwargs) layer of _register ---- *)

(* a call that binds on the method's own signature binds identically through inner + func(self, y, *args, **kwargs),
   with `data` replaced by the validated array y = yof data (data positional, by keyword, or absent) *)
Theorem C16_register_transparent : forall (V : Type) (yof : option V -> V) (ms : sig) (margs : list V)
    (mkw : list (string * V)) (mb : bound),
  NoDup (names (s_params ms)) ->
  (exists p r, s_params ms = p :: r /\ p_name p = "data"%string) ->
  bind ms margs mkw = Some mb ->
  exists mb', register_call yof ms margs mkw = Some mb'
    /\ (forall n, b_get mb' n = if String.eqb n "data" then Some (yof (b_get mb "data"%string)) else b_get mb n)
    /\ b_extra mb' = b_extra mb.
Proof. exact @register_transparent. Qed.
Print Assumptions C16_register_transparent.

(* whole path for every module-level function of the current source, every call shape *)
Theorem C16_full_path : forall (V : Type) (yof : option V -> V) e, In e sigs ->
  exists ms, e_meth e = Some ms /\
  forall (pos : list V) (kw : list (string * V)) (b : bound),
    bind (e_func e) pos kw = Some b ->
    exists margs mkw mb',
      wrapper (e_func e) pos kw = WCall (b_get b X) margs mkw
      /\ register_call yof ms margs mkw = Some mb'
      /\ (forall n, b_get mb' n = if String.eqb n "data" then Some (yof (b_get b "data"%string))
                                 else if String.eqb n X then None else b_get b n)
      /\ b_extra mb' = b_extra b.
Proof. exact @table_full_path. Qed.
Print Assumptions C16_full_path.

(* ---- method NAME arguments of the optimizers (collab_pls, optimize_extended_range, adaptive_minmax, custom_bc,
   individual_axes, _get_function) ---- *)

(* a comparison / membership test / getattr whose operand is the LOWER-CASED name (data flow from method.lower())
   and whose literals are lower case cannot tell two spellings with the same lower-casing apart, and behaves as for
   the lower-case spelling *)
Theorem C16_method_name_use : forall c s t,
  use_ok c = true ->
  (lower s = lower t -> eval_use c s = eval_use c t /\ attr_use c s = attr_use c t)
  /\ eval_use c s = eval_use c (lower s) /\ attr_use c s = attr_use c (lower s).
Proof.
  intros c s t H. split; [exact (use_case_insensitive c s t H)|exact (use_as_lower c s H)].
Qed.
Print Assumptions C16_method_name_use.

(* every such use translated from the optimizer bodies of the current source passes the check *)
Theorem C16_method_name_table : method_uses_ok method_funcs method_uses = true.
Proof. exact method_uses_checked. Qed.
Print Assumptions C16_method_name_table.

Theorem C16_method_name_table_sound : forall c, In c method_uses ->
  forall s t, lower s = lower t -> eval_use c s = eval_use c t /\ attr_use c s = attr_use c t.
Proof. exact table_method_case. Qed.
Print Assumptions C16_method_name_table_sound.

(* why the raw string must not be compared: 'FABC' and 'fabc' are told apart *)
Theorem C16_method_name_raw_refuted :
  let c := {| mc_two_d := false; mc_func := "collab_pls"%string; mc_use := CmpRaw; mc_lits := ["fabc"%string] |} in
  use_ok c = false /\ eval_use c "FABC" <> eval_use c "fabc" /\ lower "FABC" = lower "fabc".
Proof. exact raw_compare_refuted. Qed.
Print Assumptions C16_method_name_raw_refuted.

(* ---- every per-point array parameter reaches a validator that imposes its dtype ---- *)

(* table condition -> every use of the caller's array (weights / alpha, or a plain alias of it, outside the branches
   that only run when None was passed) goes to a _setup_* function of the checked `setups` table or to
   _check_optional_array(..., dtype=float|bool); the reviewed exceptions are listed in C16/ArrayParams.v *)
Theorem C16_array_param_routes : forall setups a,
  aparam_ok setups a = true -> is_reviewed a = false ->
  ap_routes a <> [] /\ forall r, In r (ap_routes a) ->
    exists t, route_dtype setups (ap_two_d a) r = Some t /\ (t = WFloat \/ t = WBool).
Proof. exact aparam_routes_impose. Qed.
Print Assumptions C16_array_param_routes.

Theorem C16_array_param_setup_route : forall setups two_d n t,
  route_dtype setups two_d (RSetup n) = Some t ->
  exists e, In e setups /\ su_two_d e = two_d /\ su_name e = n /\ setup_ok e = true /\ su_dtype e = t.
Proof. exact setup_route_entry. Qed.
Print Assumptions C16_array_param_setup_route.

(* the table of all registered methods of the current source passes *)
Theorem C16_array_param_table : array_params_ok setups array_params = true.
Proof. exact array_params_checked. Qed.
Print Assumptions C16_array_param_table.

Theorem C16_array_param_table_sound : forall a, In a array_params -> is_reviewed a = false ->
  ap_routes a <> [] /\ forall r, In r (ap_routes a) ->
    exists t, route_dtype setups (ap_two_d a) r = Some t /\ (t = WFloat \/ t = WBool).
Proof. exact table_array_params. Qed.
Print Assumptions C16_array_param_table_sound.

(* once the dtype is imposed by the validator, the dtype tag of the caller's container is not an input *)
Theorem C16_container_dtype_irrelevant : forall (e : setup_entry) size svd (d : desc Z) (t : dtype),
  setup_weights e size svd (as_nd d)
  = setup_weights e size svd (as_nd {| d_cont := d_cont d; d_layout := d_layout d; d_dtype := t;
                                       d_shape := d_shape d; d_mem := d_mem d |}).
Proof. exact container_dtype_irrelevant. Qed.
Print Assumptions C16_container_dtype_irrelevant.

(* arrays travelling inside method_kwargs of the optimizers are shape-normalised by _check_optional_array before any array
   operation of the optimizer (np.pad, indexing), or are values the optimizer computed itself *)
Theorem C16_kwargs_loads_table : kwargs_loads_ok kwargs_loads = true.
Proof. exact kwargs_loads_checked. Qed.
Print Assumptions C16_kwargs_loads_table.

Theorem C16_kwargs_loads_table_sound : forall k, In k kwargs_loads -> kl_use k <> KwUnknown.
Proof. exact table_kwargs_loads. Qed.
Print Assumptions C16_kwargs_loads_table_sound.

(* ---- end to end on the prologue model: same numbers => same result, cast to the output dtype ---- *)

(* For EVERY method body that is a function of the numbers it receives (algo_ext), two inputs whose float64 casts hold the same
   numbers -- any container, (N,), (N,1), (1,N), memory layout, dtype -- give, through normalisation, float64 cast, body and
   final cast, the same output dtype (whenever output_dtype is given, or the two input dtypes agree) and the same result, for every N.
   This replaces the unfolding-only C16_dtype_rule_partial as the statement of the dtype / container clause on the model;
   what stays outside is that NumPy's casts are the `cast` of the model and that the real bodies are extensional (oracle). *)
Theorem C16_same_numbers_same_result_1d : forall (V : Type) (cast : dtype -> V -> V) (algo : nd V -> nd V),
  (forall a b, nd_equiv a b -> nd_equiv (algo a) (algo b)) ->
  forall given (d1 d2 : desc V) t1 t2 r1 r2,
  same_den (map_nd (cast F64) (as_nd d1)) (map_nd (cast F64) (as_nd d2)) ->
  out_dtype given (d_dtype d1) = out_dtype given (d_dtype d2) ->
  run_1d cast algo given d1 = Some (t1, r1) -> run_1d cast algo given d2 = Some (t2, r2) ->
  t1 = t2 /\ nd_equiv r1 r2.
Proof. exact @run_1d_same_result. Qed.
Print Assumptions C16_same_numbers_same_result_1d.

(* 2-D: (M,N), (M,N,1), (1,M,N), (M,1,N) with the same non-singleton shape, every M and N *)
Theorem C16_same_numbers_same_result_2d : forall (V : Type) (cast : dtype -> V -> V) (algo : nd V -> nd V),
  (forall a b, nd_equiv a b -> nd_equiv (algo a) (algo b)) ->
  forall given (d1 d2 : desc V) t1 t2 r1 r2,
  Forall (fun d => 0 < d) (d_shape d1) -> Forall (fun d => 0 < d) (d_shape d2) ->
  squeeze (d_shape d1) = squeeze (d_shape d2) ->
  same_den (map_nd (cast F64) (as_nd d1)) (map_nd (cast F64) (as_nd d2)) ->
  out_dtype given (d_dtype d1) = out_dtype given (d_dtype d2) ->
  run_2d cast algo given d1 = Some (t1, r1) -> run_2d cast algo given d2 = Some (t2, r2) ->
  t1 = t2 /\ nd_equiv r1 r2.
Proof. exact @run_2d_same_result. Qed.
Print Assumptions C16_same_numbers_same_result_2d.

(* with an explicit output_dtype nothing is asked of the input dtypes *)
Theorem C16_same_result_given_output_dtype : forall (V : Type) (cast : dtype -> V -> V) (algo : nd V -> nd V),
  (forall a b, nd_equiv a b -> nd_equiv (algo a) (algo b)) ->
  forall g (d1 d2 : desc V) t1 t2 r1 r2,
  same_den (map_nd (cast F64) (as_nd d1)) (map_nd (cast F64) (as_nd d2)) ->
  run_1d cast algo (Some g) d1 = Some (t1, r1) -> run_1d cast algo (Some g) d2 = Some (t2, r2) ->
  t1 = g /\ t2 = g /\ nd_equiv r1 r2.
Proof. exact @run_1d_same_result_given. Qed.
Print Assumptions C16_same_result_given_output_dtype.

(* the hypotheses are satisfiable: a float32 (N,1) Fortran column and an int64 list with the same numbers, identity casts,
   a body that doubles every value *)
Example C16_same_result_nonvacuous :
  let d1 := {| d_cont := CArray; d_layout := LF; d_dtype := F32; d_shape := [3; 1];
               d_mem := fun o => nth (Z.to_nat o) [4; 5; 6] 0 |} in
  let d2 := {| d_cont := CList; d_layout := LC; d_dtype := I64; d_shape := [3];
               d_mem := fun o => nth (Z.to_nat o) [4; 5; 6] 0 |} in
  let algo := fun a : nd Z => map_nd (fun v => 2 * v) a in
  match run_1d (fun _ v => v) algo (Some F64) d1, run_1d (fun _ v => v) algo (Some F64) d2 with
  | Some (t1, r1), Some (t2, r2) =>
      t1 = F64 /\ t2 = F64 /\ nd_shape r1 = [3] /\ map (flat r1) [0; 1; 2] = [8; 10; 12] /\ map (flat r2) [0; 1; 2] = [8; 10; 12]
  | _, _ => False
  end.
Proof. vm_compute. repeat split; reflexivity. Qed.

(* ---- hypotheses are satisfiable ---- *)
Open Scope string_scope.
Example C16_sig_ok_nonvacuous :
  let fs := {| s_params := [{| p_name := "data"; p_dflt := DReq |}; {| p_name := "lam"; p_dflt := DNum 5 1 false |};
                            {| p_name := "x_data"; p_dflt := DNone |}; {| p_name := "w"; p_dflt := DNone |}];
               s_varkw := true |} in
  let ms := {| s_params := [{| p_name := "data"; p_dflt := DReq |}; {| p_name := "lam"; p_dflt := DNum 5 1 true |};
                            {| p_name := "w"; p_dflt := DNone |}]; s_varkw := true |} in
  sig_ok fs ms = true
  /\ wrapper fs [10%Z; 20%Z; 30%Z] [("z", 40%Z)] = WCall (Some 30%Z) [10%Z; 20%Z] [("z", 40%Z)]
  /\ wrapper fs [10%Z] [("w", 50%Z); ("x_data", 30%Z)] = WCall (Some 30%Z) [10%Z] [("w", 50%Z)]
  /\ wrapper fs [] [("lam", 1%Z)] = WTypeError.
Proof. vm_compute. repeat split; reflexivity. Qed.

Example C16_get_method_nonvacuous :
  get_method ["asls"; "poly"] "AsLS" = Some "asls" /\ get_method ["asls"] "nope" = None.
Proof. vm_compute. split; reflexivity. Qed.

(* a Fortran-ordered (2, 3) weight array  [[1,2,3],[4,5,6]]  (memory 1,4,2,5,3,6) reaches the polynomial body as 1..6 *)
Example C16_setup_weights_nonvacuous :
  let e := {| su_two_d := true; su_name := "_setup_polynomial"; su_size_is_shape := true; su_dtype := WFloat;
              su_order := ONone; su_ensure_1d := false; su_axis := AxAll; su_sort := true; su_flat := FlRavelC |} in
  let d := {| d_cont := CArray; d_layout := LF; d_dtype := I64; d_shape := [2; 3]%Z;
              d_mem := fun o => nth (Z.to_nat o) [1; 4; 2; 5; 3; 6]%Z 0%Z |} in
  setup_ok e = true /\
  match setup_weights e [2; 3]%Z false (as_nd d) with
  | VOk r => nd_shape r = [6]%Z /\ map (flat r) [0; 1; 2; 3; 4; 5]%Z = [1; 2; 3; 4; 5; 6]%Z
  | _ => False
  end.
Proof. vm_compute. repeat split; reflexivity. Qed.
