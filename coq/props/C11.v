(* Property C11 -- the difference-penalty matrix and its banded layouts are exact for every size.
   This file contains only the property theorems; each is closed by an exact lemma. *)
From Coq Require Import ZArith List Bool Lia.
From PB Require Import lib.SumZ lib.PySlice lib.Arr C11.DtD C11.Table gen.GenBands C11.Banded C11.History
                       C11.Uses C11.UsesProofs C11.PSplineSys C11.PSplineSysProofs
                       C11.Effects C11.EffectsProofs gen.GenBandEffects
                       C11.Sys2D C11.Sys2DProofs gen.GenBandEffects2D C11.Sites gen.GenPenaltySites gen.GenBandEvents2D.
Import ListNotations.
Open Scope Z_scope.

(* D = np.diff(np.eye(N), d, axis=0) is Toeplitz with the alternating binomials, and the
   coefficient iteration of utils.difference_matrix produces exactly those coefficients. *)
Theorem C11_toeplitz : forall (d : nat) (k i : Z), Dm d k i = c d (i - k).
Proof. exact D_toeplitz. Qed.
Print Assumptions C11_toeplitz.

Theorem C11_difference_matrix_public : forall (d : nat) (m : Z), coef_iter d (Z.of_nat d) m = c d m.
Proof. exact coef_iter_final. Qed.
Print Assumptions C11_difference_matrix_public.

(* (D'D)[j+r, j] depends only on the band and the capped distances to the two edges. *)
Theorem C11_edge_form : forall (d N : nat) (r j : Z),
  (d < N)%nat -> 0 <= r <= Z.of_nat d -> 0 <= j -> j + r < Z.of_nat N ->
  DtD d N (j + r) j
  = Sform d r (Z.min j (Z.of_nat d)) (Z.min (Z.of_nat N - 1 - j - r) (Z.of_nat d)).
Proof. exact edge_form. Qed.
Print Assumptions C11_edge_form.

(* Any table (as translated from the source) that passes the finite reflective check is exact
   for EVERY size N >= 2d+1, both layouts, including the zero corners. *)
Theorem C11_table_sound : forall t : table, check t = true ->
  forall (N : nat) (lower : bool) (rho j : Z),
    (2 * t_order t + 1 <= N)%nat -> 0 <= rho < t_rows t lower -> 0 <= j < Z.of_nat N ->
    eval t lower (Z.of_nat N) rho j = band_spec (t_order t) N lower rho j.
Proof. exact check_sound. Qed.
Print Assumptions C11_table_sound.

(* The tables generated from the current source pass the check. *)
Theorem C11_tables_checked :
  forallb (fun kt => (fst kt =? Z.of_nat (t_order (snd kt))) && check (snd kt)) disp_tables = true.
Proof. exact tables_checked. Qed.
Print Assumptions C11_tables_checked.

(* Everything diff_penalty_diagonals routes to a hard-coded table satisfies the side condition. *)
Theorem C11_dispatch : forall N d : nat,
  disp_rejects (Z.of_nat N) (Z.of_nat d) = false ->
  disp_identity (Z.of_nat N) (Z.of_nat d) = false ->
  disp_general (Z.of_nat N) (Z.of_nat d) = false ->
  exists t, lookup (Z.of_nat d) disp_tables = Some t /\ t_order t = d /\ (2 * d + 1 <= N)%nat.
Proof. exact dispatch_table. Qed.
Print Assumptions C11_dispatch.

(* For every N > d >= 0 and both layouts, diff_penalty_diagonals is exactly the bands of D'D. *)
Theorem C11_penalty_bands_exact : forall (N d : nat) (lower : bool),
  (d < N)%nat -> exists a, dpd_core N d lower = DpdOk a /\ aeq a (spec_bands d N lower).
Proof. exact dpd_core_exact. Qed.
Print Assumptions C11_penalty_bands_exact.

(* Layout conversions preserve the denotation. *)
Theorem C11_layouts : forall d N : nat,
  aeq (lower_to_full (spec_bands d N true)) (spec_bands d N false) /\
  aeq (drop_rows (Z.of_nat d) (spec_bands d N false)) (spec_bands d N true) /\
  aeq (rev_rows (rev_rows (spec_bands d N false))) (spec_bands d N false).
Proof. intros d N. exact (conj (lower_to_full_spec d N) (conj (drop_full_spec d N) (rev_rows_invol _))). Qed.
Print Assumptions C11_layouts.

(* Any reconfiguration history followed by a reset to settings c equals the fresh system for c. *)
Theorem C11_history : forall (hp : bool) (N : nat) (c0 : cfg) (ops : list op) (c : cfg) (s0 : sys),
  (c_d c0 < N)%nat -> Forall (op_ok N) ops -> (c_d c < N)%nat ->
  reset hp N None c0 = Some s0 ->
  match reset hp N (Some (run hp N s0 ops)) c, reset hp N None c with
  | Some s1, Some s2 => sys_eq s1 s2 /\ Inv N s1
  | None, None => True
  | _, _ => False
  end.
Proof. exact history. Qed.
Print Assumptions C11_history.

Theorem C11_penalty_is_lam_DtD : forall (hp : bool) (N : nat) (c : cfg) (s : sys),
  (c_d c < N)%nat -> reset hp N None c = Some s ->
  aeq (s_pen s) (scale (c_lam c) (pad_diagonals (layout (c_d c) N (want_lower hp c) (want_rev hp c))
                                               (c_pad c) (want_lower hp c))).
Proof. exact penalty_exact. Qed.
Print Assumptions C11_penalty_is_lam_DtD.

(* ---- histories that include USES of the system (C11/Uses.v: the same reset / reverse_penalty,
   extended by add_diagonal, add_penalty, an in-place overwrite of the penalty array by a solver and
   re-binding of the attribute, with the identity of the buffers behind penalty and
   original_diagonals tracked) ---- *)

(* Any history of reconfigurations AND uses followed by a reset to settings c equals the fresh system
   for c -- contents, flags, band bookkeeping, main_diagonal, and the fact that penalty and
   original_diagonals do not share memory. *)
Theorem C11_history_with_uses : forall (hp : bool) (N : nat) (c0 : cfg) (ops : list uop) (c : cfg) (u0 : usys),
  (c_d c0 < N)%nat -> Forall (uop_ok N) ops -> (c_d c < N)%nat ->
  ureset hp N None c0 = Some u0 ->
  match ureset hp N (Some (urun hp N u0 ops)) c, ureset hp N None c with
  | Some u1, Some u2 => usys_eq u1 u2 /\ UInv N u1
  | None, None => True
  | _, _ => False
  end.
Proof. exact history_with_uses. Qed.
Print Assumptions C11_history_with_uses.

(* A use never changes original_diagonals (nor the layout flags a later reset reads): with the
   penalty in its own buffer, every operation that writes self.penalty leaves the stored D'D bands
   Leibniz-equal, and keeps the two buffers separate. *)
Theorem C11_use_keeps_diagonals : forall (hp : bool) (N : nat) (u : usys) (o : uop),
  Sep u -> is_use o = true -> kept u (ustep hp N u o) /\ Sep (ustep hp N u o).
Proof. exact use_kept. Qed.
Print Assumptions C11_use_keeps_diagonals.

(* At every point of every history: penalty and original_diagonals are in different buffers
   (np.shares_memory is False) and original_diagonals is D'D in the layout the flags claim. *)
Theorem C11_never_aliased : forall (hp : bool) (N : nat) (c0 : cfg) (ops : list uop) (u0 : usys),
  (c_d c0 < N)%nat -> Forall (uop_ok N) ops -> ureset hp N None c0 = Some u0 ->
  let s := u_sys (urun hp N u0 ops) in
  aliased (urun hp N u0 ops) = false /\
  aeq (s_orig s) (layout (s_d s) N (s_lower s) (s_rev s)).
Proof. exact never_aliased. Qed.
Print Assumptions C11_never_aliased.

(* add_diagonal(w) right after a reset leaves lam * D'D + diag(w) in the penalty (w added on the
   main-diagonal row only) and original_diagonals untouched. *)
Theorem C11_add_diagonal_exact : forall (hp : bool) (N : nat) (c : cfg) (u : usys) (w : list Z),
  (c_d c < N)%nat -> ureset hp N None c = Some u -> length w = N ->
  let u' := add_diagonal u w in
  s_orig (u_sys u') = s_orig (u_sys u) /\
  aeq (s_pen (u_sys u)) (scale (c_lam c) (pad_diagonals (layout (c_d c) N (want_lower hp c) (want_rev hp c))
                                                        (c_pad c) (want_lower hp c))) /\
  forall r j, 0 <= r < nr (s_pen (u_sys u)) -> 0 <= j < Z.of_nat N ->
    get (s_pen (u_sys u')) r j
    = get (s_pen (u_sys u)) r j + (if r =? s_main (u_sys u) then nth (Z.to_nat j) w 0 else 0).
Proof. exact add_diagonal_exact. Qed.
Print Assumptions C11_add_diagonal_exact.

(* The separation is what carries the theorem: in the SAME state machine with the multiplication by
   lam elided when lam = 1 (the only copy between original_diagonals and penalty when padding <= 0),
   the system aliases its stored diagonals and reset-after-use differs from the fresh system. *)
Theorem C11_elided_scaling_variant_refuted :
  let c := {| c_lam := 1; c_d := 2%nat; c_allow_lower := true; c_rev := None; c_allow_penta := false; c_pad := 0 |} in
  exists u0 u1 u2,
    ureset_g elide_one false 6 None c = Some u0 /\
    aliased u0 = true /\
    ureset_g elide_one false 6 (Some (urun_g elide_one false 6 u0 [AddDiag [1; 1; 1; 1; 1; 1]])) c = Some u1 /\
    ureset_g elide_one false 6 None c = Some u2 /\
    tab (s_orig (u_sys u1)) <> tab (s_orig (u_sys u2)) /\ tab (s_pen (u_sys u1)) <> tab (s_pen (u_sys u2)).
Proof. exact elide_one_refuted. Qed.
Print Assumptions C11_elided_scaling_variant_refuted.

(* non-vacuity: a concrete history through lower+reversed, full, pentapy layouts *)
Example C11_history_nonvacuous :
  let c0 := {| c_lam := 2; c_d := 2%nat; c_allow_lower := true; c_rev := Some true; c_allow_penta := false; c_pad := 1 |} in
  let c1 := {| c_lam := 3; c_d := 2%nat; c_allow_lower := false; c_rev := None; c_allow_penta := true; c_pad := 0 |} in
  let c2 := {| c_lam := 1; c_d := 3%nat; c_allow_lower := true; c_rev := Some false; c_allow_penta := true; c_pad := 2 |} in
  match reset true 9 None c0 with
  | Some s0 =>
      match reset true 9 (Some (run true 9 s0 [Reset c1; Reverse; Reset c2; Reset c0; Reset c1])) c2,
            reset true 9 None c2 with
      | Some s1, Some s2 => observe s1 = observe s2
      | _, _ => False
      end
  | None => False
  end.
Proof. vm_compute. reflexivity. Qed.

(* non-vacuity: the same layouts with uses between the resets; lam = 1 and no padding in c1 *)
Example C11_history_with_uses_nonvacuous :
  let c0 := {| c_lam := 2; c_d := 2%nat; c_allow_lower := true; c_rev := Some true; c_allow_penta := false; c_pad := 1 |} in
  let c1 := {| c_lam := 1; c_d := 2%nat; c_allow_lower := false; c_rev := None; c_allow_penta := true; c_pad := 0 |} in
  let c2 := {| c_lam := 1; c_d := 3%nat; c_allow_lower := true; c_rev := Some false; c_allow_penta := true; c_pad := (-1) |} in
  match ureset true 9 None c0 with
  | Some u0 =>
      match ureset true 9 (Some (urun true 9 u0 [UReset c1; AddDiag [1;2;3;4;5;6;7;8;9]; UReverse; Clobber [[7]];
                                                UReset c2; AddPen [[1;1;1;1;1;1;1;1;1]]; AddDiag [5]; UReset c2;
                                                Clobber [[1;2;3;4;5;6;7;8;9];[1;2;3;4;5;6;7;8;9];[1;2;3;4;5;6;7;8;9];[1;2;3;4;5;6;7;8;9]];
                                                UReset c1; AddDiag [5]; SetPen [[0]]])) c2,
            ureset true 9 None c2 with
      | Some u1, Some u2 => uobserve u1 = uobserve u2
      | _, _ => False
      end
  | None => False
  end.
Proof. vm_compute. reflexivity. Qed.

(* ---- PSpline (C11/PSplineSys.v): constructor and reset_penalty_diagonals as operations of the same
   state machine; allow_pentapy=False and padding = spline_degree - diff_order recomputed from the
   CURRENT order on every call ---- *)

(* A PSpline built with any settings, after ANY history of reset_penalty_diagonals (changing order,
   lam, layout), solve_pspline, inherited reconfigurations and uses, then reset to settings p, is the
   PSpline constructed directly with p. *)
Theorem C11_pspline_history : forall (hp : bool) (nb : nat) (deg : Z) (p0 : pcfg) (ops : list pop) (p : pcfg) (u0 : usys),
  Forall (pop_ok nb) ops -> (1 <= p_d p < nb)%nat ->
  pinit hp nb deg p0 = Some u0 ->
  match ureset hp nb (Some (prun hp nb deg u0 ops)) (pcfg_cfg deg p), pinit hp nb deg p with
  | Some u1, Some u2 => usys_eq u1 u2 /\ UInv nb u1
  | None, None => True
  | _, _ => False
  end.
Proof. exact pspline_history. Qed.
Print Assumptions C11_pspline_history.

(* Geometry of a constructed PSpline: never pentapy, lower iff allow_lower, max(diff_order,
   spline_degree) bands: penalty shape (B+1, nb) / (2B+1, nb), num_bands = B, main index 0 / B. *)
Theorem C11_pspline_shape : forall (hp : bool) (nb : nat) (deg : Z) (p : pcfg) (u : usys),
  pinit hp nb deg p = Some u ->
  let s := u_sys u in
  let B := pspline_bands deg (p_d p) in
  s_d s = p_d p /\ s_penta s = false /\ s_lower s = p_allow_lower p /\
  nr (s_pen s) = (if p_allow_lower p then B + 1 else 2 * B + 1) /\ nc (s_pen s) = Z.of_nat nb /\
  s_num_bands s = B /\ s_main s = (if p_allow_lower p then 0 else B).
Proof. exact pspline_shape. Qed.
Print Assumptions C11_pspline_shape.

(* ... and the same geometry after any history followed by reset_penalty_diagonals(p): the padding
   follows the current difference order, whatever orders were used before. *)
Theorem C11_pspline_shape_after_history : forall (hp : bool) (nb : nat) (deg : Z) (p0 : pcfg) (ops : list pop) (p : pcfg) (u0 : usys),
  Forall (pop_ok nb) ops -> (1 <= p_d p < nb)%nat -> 0 < p_lam p ->
  pinit hp nb deg p0 = Some u0 ->
  exists u1, ureset hp nb (Some (prun hp nb deg u0 ops)) (pcfg_cfg deg p) = Some u1 /\
    let s := u_sys u1 in
    let B := pspline_bands deg (p_d p) in
    s_d s = p_d p /\ s_penta s = false /\ s_lower s = p_allow_lower p /\
    nr (s_pen s) = (if p_allow_lower p then B + 1 else 2 * B + 1) /\ nc (s_pen s) = Z.of_nat nb /\
    s_num_bands s = B /\ s_main s = (if p_allow_lower p then 0 else B).
Proof. exact pspline_shape_after_history. Qed.
Print Assumptions C11_pspline_shape_after_history.

Example C11_pspline_history_nonvacuous :
  let p0 := {| p_lam := 5; p_d := 3%nat; p_allow_lower := false; p_rev := Some true |} in
  let p1 := {| p_lam := 1; p_d := 1%nat; p_allow_lower := true; p_rev := Some false |} in
  let p2 := {| p_lam := 1; p_d := 4%nat; p_allow_lower := true; p_rev := None |} in
  match pinit true 7 2 p0 with
  | Some u0 =>
      match ureset true 7 (Some (prun true 7 2 u0 [PReset p1; POp (AddDiag [1;2;3;4;5;6;7]); PSolve; PReset p2;
                                                  POp (AddDiag [3]); PReset p2; POp (Clobber [[0]]); PReset p0])) (pcfg_cfg 2 p1),
            pinit true 7 2 p1 with
      | Some u1, Some u2 => uobserve u1 = uobserve u2
      | _, _ => False
      end
  | None => False
  end.
Proof. vm_compute. reflexivity. Qed.

(* ---- requests that may be REJECTED (C11/Effects.v): reset_diagonals is executed as the SEQUENCE OF
   EFFECTS extracted from the current source (gen/GenBandEffects.v: reset_diagonals_effects), so that an
   exception raised half-way leaves exactly the attributes assigned before the raising statement
   changed.  The theorems hold for every order that passes the boolean check effects_ok; the first
   theorem says that the order of the current source passes it. ---- *)

(* The order of assignments and validations in the current source: nothing can raise between the first
   write to original_diagonals and the last layout flag, the conversion reads the flags before they are
   overwritten, the penalty and band bookkeeping are rebuilt last -- and lam is validated before the
   first assignment. *)
Theorem C11_reset_order_checked :
  effects_ok reset_diagonals_effects = true /\ checks_first reset_diagonals_effects = true.
Proof. split; vm_compute; reflexivity. Qed.
Print Assumptions C11_reset_order_checked.

(* Every method of PenalizedSystem / PSpline that assigns attributes of self (events generated from the
   source, calls of other methods inlined): no attribute is assigned before the last raising statement. *)
Theorem C11_mutators_strongly_safe :
  forallb (fun m => strongly_safe (snd m)) mutator_events = true.
Proof. vm_compute. reflexivity. Qed.
Print Assumptions C11_mutators_strongly_safe.

Theorem C11_strongly_safe_sound : forall evs : list event, strongly_safe evs = true ->
  forall pre w post, evs = pre ++ Raises w :: post -> forall a, ~ In (Assigns a) pre.
Proof. exact strongly_safe_sound. Qed.
Print Assumptions C11_strongly_safe_sound.

(* An accepted request run through the effects IS Uses.ureset (Leibniz-equal object), and the
   constructor run through the same effects IS Uses.ureset on no previous object: everything proved
   above about accepted histories is about the extracted order. *)
Theorem C11_accepted_request_is_reset : forall (hp : bool) (N : nat) (q : req) (u : usys),
  req_valid q = true ->
  exec hp N q reset_diagonals_effects true u =
    match ureset hp N (Some u) (req_cfg q) with Some u' => Done u' | None => Raised u end.
Proof. intros hp N q u. exact (exec_valid hp N q _ u (proj1 C11_reset_order_checked)). Qed.
Print Assumptions C11_accepted_request_is_reset.

Theorem C11_constructor_is_reset : forall (hp : bool) (N : nat) (c : cfg),
  einit hp N reset_diagonals_effects (cfg_req c) = ureset hp N None c.
Proof. intros hp N c. exact (einit_valid hp N _ c (proj1 C11_reset_order_checked)). Qed.
Print Assumptions C11_constructor_is_reset.

(* A REJECTED request (lam <= 0, non-scalar lam, diff_order < 0; ValueError caught by the caller)
   leaves the whole object -- every attribute, and the identity of its buffers -- exactly as it was. *)
Theorem C11_reset_rejected_noop : forall (hp : bool) (N : nat) (q : req) (u : usys),
  req_valid q = false -> exec hp N q reset_diagonals_effects true u = Raised u.
Proof.
  intros hp N q u.
  exact (rejected_noop_strong hp N q _ u (proj1 C11_reset_order_checked) (proj2 C11_reset_order_checked)).
Qed.
Print Assumptions C11_reset_rejected_noop.

(* Hence a history with rejected requests is the same history with them deleted ... *)
Theorem C11_rejected_requests_erasable : forall (hp : bool) (N : nat) (ops : list rop) (u : usys),
  rrun hp N reset_diagonals_effects u ops = urun hp N u (flat_map erase ops).
Proof.
  intros hp N ops.
  exact (rrun_erase hp N _ ops (proj1 C11_reset_order_checked) (proj2 C11_reset_order_checked)).
Qed.
Print Assumptions C11_rejected_requests_erasable.

(* ... and a system given ANY sequence of requests, each accepted or rejected, is at the end the system
   built directly with the LAST ACCEPTED request (contents, flags, band bookkeeping, main_diagonal, no
   shared memory), with D'D in the layout its flags claim. *)
Theorem C11_requests_history : forall (hp : bool) (N : nat) (q0 : req) (qs : list req) (u0 : usys),
  q_d q0 < Z.of_nat N -> Forall (fun q => q_d q < Z.of_nat N) qs ->
  einit hp N reset_diagonals_effects q0 = Some u0 ->
  exists u3, ureset hp N None (req_cfg (last_valid q0 qs)) = Some u3 /\
             usys_eq (rrun hp N reset_diagonals_effects u0 (map RReq qs)) u3 /\
             UInv N (rrun hp N reset_diagonals_effects u0 (map RReq qs)).
Proof.
  intros hp N q0 qs u0.
  exact (requests_history hp N _ q0 qs u0 (proj1 C11_reset_order_checked) (proj2 C11_reset_order_checked)).
Qed.
Print Assumptions C11_requests_history.

(* With reversals and uses in between: after ANY history of accepted / rejected requests, accepted
   resets, reverse_penalty and uses, a valid request is accepted and gives the directly built system.
   (Proved for every order that passes effects_ok, also one that validates lam late.) *)
Theorem C11_history_with_rejected : forall (hp : bool) (N : nat) (c0 : cfg) (ops : list rop) (q : req) (u0 : usys),
  (c_d c0 < N)%nat -> Forall (rop_ok N) ops -> req_valid q = true -> q_d q < Z.of_nat N ->
  ureset hp N None c0 = Some u0 ->
  exists u1 u2,
    exec hp N q reset_diagonals_effects true (rrun hp N reset_diagonals_effects u0 ops) = Done u1 /\
    ureset hp N None (req_cfg q) = Some u2 /\ usys_eq u1 u2 /\ UInv N u1.
Proof.
  intros hp N c0 ops q u0.
  exact (history_with_rejected hp N _ c0 ops q u0 (proj1 C11_reset_order_checked)).
Qed.
Print Assumptions C11_history_with_rejected.

(* At every point of every such history the stored diagonals are D'D in the layout the flags claim and
   do not share memory with the penalty: flags and diagonals never desynchronise. *)
Theorem C11_rejected_never_desync : forall (hp : bool) (N : nat) (c0 : cfg) (ops : list rop) (u0 : usys),
  (c_d c0 < N)%nat -> Forall (rop_ok N) ops -> ureset hp N None c0 = Some u0 ->
  let s := u_sys (rrun hp N reset_diagonals_effects u0 ops) in
  aliased (rrun hp N reset_diagonals_effects u0 ops) = false /\
  aeq (s_orig s) (layout (s_d s) N (s_lower s) (s_rev s)).
Proof.
  intros hp N c0 ops u0.
  exact (rejected_never_desync hp N _ c0 ops u0 (proj1 C11_reset_order_checked)).
Qed.
Print Assumptions C11_rejected_never_desync.

(* For ANY order that passes effects_ok (also a late lam check): a rejected request keeps the penalty,
   lam, the band bookkeeping and main_diagonal, and keeps (flags, original_diagonals) consistent. *)
Theorem C11_rejected_keeps_invariant : forall (hp : bool) (N : nat) (q : req) (es : list effect) (u u' : usys),
  effects_ok es = true -> UInv N u -> q_d q < Z.of_nat N ->
  exec hp N q es true u = Raised u' -> UInv N u' /\ pen_kept u u'.
Proof. exact rejected_keeps. Qed.
Print Assumptions C11_rejected_keeps_invariant.

(* PSpline.reset_penalty_diagonals (forwards to reset_diagonals with allow_pentapy=False and
   padding = spline_degree - diff_order; checked by the translator) with rejected requests. *)
Theorem C11_pspline_history_with_rejected :
  forall (hp : bool) (nb : nat) (deg : Z) (p0 : pcfg) (ops : list prop_) (p : preq) (u0 : usys),
  Forall (prop_ok nb) ops -> req_valid (preq_req deg p) = true -> 1 <= pq_d p < Z.of_nat nb ->
  pinit hp nb deg p0 = Some u0 ->
  exists u1 u2,
    exec hp nb (preq_req deg p) reset_diagonals_effects true (prrun hp nb deg reset_diagonals_effects u0 ops) = Done u1 /\
    pinit hp nb deg (preq_pcfg p) = Some u2 /\ usys_eq u1 u2 /\ UInv nb u1.
Proof.
  intros hp nb deg p0 ops p u0.
  exact (pspline_history_with_rejected hp nb deg _ p0 ops p u0 (proj1 C11_reset_order_checked)).
Qed.
Print Assumptions C11_pspline_history_with_rejected.

(* The order matters: with the order of /repo 0f85b1f (lam validated AFTER original_diagonals and the
   layout flags were overwritten) the rejected request reset_diagonals(lam=0, diff_order=2,
   allow_lower=False) on PenalizedSystem(8, lam=1, diff_order=2) changes lower and original_diagonals
   (3 -> 5 rows) while the penalty keeps its 3 rows. *)
Theorem C11_late_lam_check_order_refuted :
  match ureset false 8 None ex_c0 with
  | Some u0 =>
      match exec false 8 ex_bad order_0f85b1f true u0 with
      | Raised u' =>
          s_lower (u_sys u0) = true /\ s_lower (u_sys u') = false /\
          nr (s_orig (u_sys u0)) = 3 /\ nr (s_orig (u_sys u')) = 5 /\ nr (s_pen (u_sys u')) = 3 /\
          uobserve u' <> uobserve u0
      | Done _ => False
      end
  | None => False
  end.
Proof. exact strong_noop_refuted. Qed.
Print Assumptions C11_late_lam_check_order_refuted.

(* non-vacuity: a rejected request (lam = 0, asking for the full reversed layout) between two accepted
   ones with different layouts; the object after the rejected request is the object before it, and the
   final object is the directly built one *)
Example C11_requests_history_nonvacuous :
  let q0 := {| q_lam := 2; q_lam_len := 1; q_d := 2; q_allow_lower := true; q_rev := None; q_allow_penta := false; q_pad := 1 |} in
  let bad := {| q_lam := 0; q_lam_len := 1; q_d := 2; q_allow_lower := false; q_rev := Some true; q_allow_penta := false; q_pad := 0 |} in
  let bad2 := {| q_lam := 3; q_lam_len := 1; q_d := (-1); q_allow_lower := false; q_rev := None; q_allow_penta := true; q_pad := 0 |} in
  let q1 := {| q_lam := 3; q_lam_len := 1; q_d := 2; q_allow_lower := false; q_rev := None; q_allow_penta := true; q_pad := 0 |} in
  let q2 := {| q_lam := 5; q_lam_len := 1; q_d := 3; q_allow_lower := true; q_rev := Some true; q_allow_penta := true; q_pad := 2 |} in
  match einit true 9 reset_diagonals_effects q0 with
  | Some u0 =>
      req_valid bad = false /\ req_valid bad2 = false /\
      uobserve (rrun true 9 reset_diagonals_effects u0 [RReq bad]) = uobserve u0 /\
      last_valid q0 [q1; bad; bad2; q2; bad] = q2 /\
      match ureset true 9 None (req_cfg q2) with
      | Some u2 => uobserve (rrun true 9 reset_diagonals_effects u0 (map RReq [q1; bad; bad2; q2; bad])) = uobserve u2
      | None => False
      end
  | None => False
  end.
Proof. vm_compute. repeat split. Qed.

(* ---- the 2-D penalized systems (C11/Sys2D.v): PenalizedSystem2D, WhittakerSystem2D without
   eigendecomposition, PSpline2D.  Their penalty is built FROM the 1-D penalty by Kronecker products;
   reset_diagonals is run as the sequence of effects extracted from the current source
   (gen/GenBandEffects2D.v: reset2d_effects), every value read from where the source reads it. ---- *)

(* diff_penalty_matrix(N, d) -- the full bands of diff_penalty_diagonals placed on their diagonals -- is
   D'D for every N > d (and raises for N <= d). *)
Theorem C11_penalty_matrix_exact : forall N d : nat, (d < N)%nat ->
  exists P, pen1 N d = Some P /\ forall i j, 0 <= i < Z.of_nat N -> 0 <= j < Z.of_nat N -> P i j = DtD d N i j.
Proof. exact pen1_exact. Qed.
Print Assumptions C11_penalty_matrix_exact.

(* The extracted order is one the theorems are proved for, and it validates and builds everything
   before the first assignment. *)
Theorem C11_reset2d_order_checked :
  effects2_ok reset2d_effects = true /\ checks_first2 reset2d_effects = true.
Proof. split; vm_compute; reflexivity. Qed.
Print Assumptions C11_reset2d_order_checked.

(* An accepted 2-D reset is a function of the REQUEST ALONE: whatever the object was (whatever its
   previous orders, lams, penalty), the result is the directly built system.  Nothing of the old state --
   in particular no term computed for an earlier difference order -- survives. *)
Theorem C11_reset2d_is_function_of_request : forall (R C : nat) (q : req2) (o s : sys2),
  fresh2 R C q = Some s -> exec2 R C q reset2d_effects frame0 o = Done2 s.
Proof. intros R C q o s. exact (exec2_accepted R C q _ o s (proj1 C11_reset2d_order_checked)). Qed.
Print Assumptions C11_reset2d_is_function_of_request.

(* A rejected 2-D request (lam <= 0, diff_order < 1, wrong length, diff_order >= size on either axis)
   leaves the whole object as it was. *)
Theorem C11_reset2d_rejected_noop : forall (R C : nat) (q : req2) (o : sys2),
  fresh2 R C q = None -> exec2 R C q reset2d_effects frame0 o = Raised2 o.
Proof.
  intros R C q o E.
  destruct (exec2_rejected R C q _ o (proj1 C11_reset2d_order_checked) E) as (o' & H1 & _ & H3).
  rewrite H1, (H3 (proj2 C11_reset2d_order_checked)). reflexivity.
Qed.
Print Assumptions C11_reset2d_rejected_noop.

Theorem C11_constructor2d_is_fresh : forall (R C : nat) (q : req2),
  einit2 R C reset2d_effects q = fresh2 R C q.
Proof. intros R C q. exact (einit2_is_fresh R C q _ (proj1 C11_reset2d_order_checked)). Qed.
Print Assumptions C11_constructor2d_is_fresh.

(* Any history -- accepted and rejected requests changing the order on one axis, on both, or only lam;
   add_diagonal / solve / reset_diagonal writing into the penalty in place -- followed by a request the
   directly built system accepts, gives exactly the directly built system. *)
Theorem C11_history2d : forall (R C : nat) (o0 : sys2) (ops : list rop2) (q : req2) (s : sys2),
  fresh2 R C q = Some s ->
  exec2 R C q reset2d_effects frame0 (rrun2 R C reset2d_effects o0 ops) = Done2 s.
Proof. intros R C o0 ops q s. exact (history2 R C _ o0 ops q s (proj1 C11_reset2d_order_checked)). Qed.
Print Assumptions C11_history2d.

(* After ANY sequence of requests, each accepted or rejected, the object IS the system built directly
   with the last accepted request. *)
Theorem C11_requests_history2d : forall (R C : nat) (q0 : req2) (qs : list req2) (s0 : sys2),
  einit2 R C reset2d_effects q0 = Some s0 ->
  rrun2 R C reset2d_effects s0 (map R2Req qs) = last_ok2 R C s0 qs.
Proof.
  intros R C q0 qs s0 H.
  exact (proj2 (requests_history2 R C _ q0 qs s0 (proj1 C11_reset2d_order_checked) H) (proj2 C11_reset2d_order_checked)).
Qed.
Print Assumptions C11_requests_history2d.

(* The directly built 2-D system: penalty[(i1,j1),(i2,j2)] = lam_r (D_r'D_r)[i1,i2] [j1=j2] +
   lam_c [i1=i2] (D_c'D_c)[j1,j2] on the row-major flattened index, for the orders and lams of the
   request, and main_diagonal is its diagonal. *)
Theorem C11_penalty2d_is_kron_DtD : forall (R C : nat) (q : req2) (s : sys2), fresh2 R C q = Some s ->
  exists dr dc lr lc,
    check_pos (r_d q) = Some (dr, dc) /\ check_pos (r_lam q) = Some (lr, lc) /\
    z_dr s = dr /\ z_dc s = dc /\ z_lr s = lr /\ z_lc s = lc /\
    (Z.to_nat dr < R)%nat /\ (Z.to_nat dc < C)%nat /\
    nr (z_pen s) = Z.of_nat R * Z.of_nat C /\ nc (z_pen s) = Z.of_nat R * Z.of_nat C /\
    (forall i1 j1 i2 j2, 0 <= i1 < Z.of_nat R -> 0 <= i2 < Z.of_nat R -> 0 <= j1 < Z.of_nat C -> 0 <= j2 < Z.of_nat C ->
       get (z_pen s) (i1 * Z.of_nat C + j1) (i2 * Z.of_nat C + j2)
       = lr * DtD (Z.to_nat dr) R i1 i2 * delta j1 j2 + delta i1 i2 * (lc * DtD (Z.to_nat dc) C j1 j2)) /\
    (forall k, z_maind s k = get (z_pen s) k k).
Proof. exact fresh2_penalty. Qed.
Print Assumptions C11_penalty2d_is_kron_DtD.

(* The order matters: with the order of /repo 4a1c1fc (diff_order and lam stored before
   diff_penalty_matrix can still raise) rejected requests change diff_order / lam. *)
Theorem C11_late_validation_order2d_refuted :
  match fresh2 5 6 ex2_q0 with
  | Some s0 =>
      fresh2 5 6 ex2_bad = None /\ fresh2 5 6 ex2_bad2 = None /\
      z_dr (after2 (exec2 5 6 ex2_bad order2_4a1c1fc frame0 s0)) = 3 /\
      z_dc (after2 (exec2 5 6 ex2_bad2 order2_4a1c1fc frame0 s0)) = 6 /\
      z_lr (after2 (exec2 5 6 ex2_bad2 order2_4a1c1fc frame0 s0)) = 2 /\ z_dr s0 = 2 /\ z_lr s0 = 1
  | None => False
  end.
Proof. exact strong_noop2_refuted. Qed.
Print Assumptions C11_late_validation_order2d_refuted.

(* non-vacuity: one-axis order changes (2 -> (2,3) -> (1,3)), a lam-only change, rejected requests
   (lam 0; order too large for the 4 columns) and an in-place add_diagonal in between *)
Example C11_history2d_nonvacuous :
  let q0 := {| r_lam := [1]; r_d := [2] |} in
  let q1 := {| r_lam := [4]; r_d := [2; 3] |} in
  let bad := {| r_lam := [0]; r_d := [1; 3] |} in
  let bad2 := {| r_lam := [2]; r_d := [1; 4] |} in
  let q2 := {| r_lam := [4; 5]; r_d := [1; 3] |} in
  match einit2 3 4 reset2d_effects q0, fresh2 3 4 q2 with
  | Some s0, Some s2 =>
      fresh2 3 4 bad = None /\ fresh2 3 4 bad2 = None /\
      observe2 (rrun2 3 4 reset2d_effects s0 [R2Req q1; R2Req bad; R2AddDiag [7]; R2Req bad2; R2Req q2; R2Req bad]) = observe2 s2 /\
      observe2 s2 <> observe2 (after2 (exec2 3 4 q1 reset2d_effects frame0 s0))
  | _, _ => False
  end.
Proof. vm_compute. repeat split. discriminate. Qed.

(* ---- method-internal re-use of a system (C11/Sites.v): every call of reset_diagonals /
   reset_penalty_diagonals / reset_penalty / update_lam, every constructor and _setup_whittaker /
   _setup_spline / whittaker_smooth / pspline_smooth call, and every assignment to <x>.penalty OUTSIDE the
   system classes, generated from the current source with the way the difference order reaches the system
   (gen/GenPenaltySites.v).  No site omits diff_order while its function has one, none re-binds a penalty
   to anything but a multiple of itself. ---- *)
Theorem C11_penalty_sites_checked : sites_ok penalty_sites = true.
Proof. vm_compute. reflexivity. Qed.
Print Assumptions C11_penalty_sites_checked.

Theorem C11_penalty_sites_sound : forall l, sites_ok l = true ->
  forall w x c, In (w, x, c) l -> c <> OmitsOrder /\ c <> OtherSite.
Proof. exact sites_ok_sound. Qed.
Print Assumptions C11_penalty_sites_sound.

(* what a RescaleOnly site does to lam0 * P: the same bands of the same order, scaled *)
Theorem C11_rescale_keeps_order : forall (k lam0 : Z) (P : arr), aeq (scale k (scale lam0 P)) (scale (k * lam0) P).
Proof. exact rescale_same_order. Qed.
Print Assumptions C11_rescale_keeps_order.

(* ---- exception safety of EVERY mutator of the 2-D systems, including the eigendecomposition mode of
   WhittakerSystem2D (reset_diagonals / reset_penalty / update_penalty / solve / basis) that C11/Sys2D.v does
   not model: events generated from the source path by path (an `if ...: ...; return` splits the path,
   calls of the object's own methods and of super() are expanded); on every path no attribute of self is
   assigned before the last statement that can raise (soundness: C11_strongly_safe_sound). ---- *)
Theorem C11_mutators2d_strongly_safe :
  forallb (fun m => strongly_safe (snd m)) mutator2d_events = true.
Proof. vm_compute. reflexivity. Qed.
Print Assumptions C11_mutators2d_strongly_safe.
