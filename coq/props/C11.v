(* Property C11 -- the difference-penalty matrix and its banded layouts are exact for every size.
   This file contains only the property theorems; each is closed by an exact lemma. *)
From Coq Require Import ZArith List Bool Lia.
From PB Require Import lib.SumZ lib.PySlice lib.Arr C11.DtD C11.Table gen.GenBands C11.Banded C11.History.
Import ListNotations.
Open Scope Z_scope.

(* D = np.diff(np.eye(N), d, axis=0) is Toeplitz with the alternating binomials, and the
   coefficient iteration of utils.difference_matrix produces exactly those coefficients. *)
Theorem C11_toeplitz : forall (d : nat) (k i : Z), Dm d k i = c d (i - k).
Proof. exact D_toeplitz. Qed.
Print Assumptions C11_toeplitz.

Theorem C11_difference_matrix_public : forall (d : nat) (m : Z), coef_iter d (Z.of_nat d) m = c d m.
Proof. exact coef_iter_final. Qed.
Print Assumptions C11_difference_matrix_public.

(* (D'D)[j+r, j] depends only on the band and the capped distances to the two edges. *)
Theorem C11_edge_form : forall (d N : nat) (r j : Z),
  (d < N)%nat -> 0 <= r <= Z.of_nat d -> 0 <= j -> j + r < Z.of_nat N ->
  DtD d N (j + r) j
  = Sform d r (Z.min j (Z.of_nat d)) (Z.min (Z.of_nat N - 1 - j - r) (Z.of_nat d)).
Proof. exact edge_form. Qed.
Print Assumptions C11_edge_form.

(* Any table (as translated from the source) that passes the finite reflective check is exact
   for EVERY size N >= 2d+1, both layouts, including the zero corners. *)
Theorem C11_table_sound : forall t : table, check t = true ->
  forall (N : nat) (lower : bool) (rho j : Z),
    (2 * t_order t + 1 <= N)%nat -> 0 <= rho < t_rows t lower -> 0 <= j < Z.of_nat N ->
    eval t lower (Z.of_nat N) rho j = band_spec (t_order t) N lower rho j.
Proof. exact check_sound. Qed.
Print Assumptions C11_table_sound.

(* The tables generated from the current source pass the check. *)
Theorem C11_tables_checked :
  forallb (fun kt => (fst kt =? Z.of_nat (t_order (snd kt))) && check (snd kt)) disp_tables = true.
Proof. exact tables_checked. Qed.
Print Assumptions C11_tables_checked.

(* Everything diff_penalty_diagonals routes to a hard-coded table satisfies the side condition. *)
Theorem C11_dispatch : forall N d : nat,
  disp_rejects (Z.of_nat N) (Z.of_nat d) = false ->
  disp_identity (Z.of_nat N) (Z.of_nat d) = false ->
  disp_general (Z.of_nat N) (Z.of_nat d) = false ->
  exists t, lookup (Z.of_nat d) disp_tables = Some t /\ t_order t = d /\ (2 * d + 1 <= N)%nat.
Proof. exact dispatch_table. Qed.
Print Assumptions C11_dispatch.

(* For every N > d >= 0 and both layouts, diff_penalty_diagonals is exactly the bands of D'D. *)
Theorem C11_penalty_bands_exact : forall (N d : nat) (lower : bool),
  (d < N)%nat -> exists a, dpd_core N d lower = DpdOk a /\ aeq a (spec_bands d N lower).
Proof. exact dpd_core_exact. Qed.
Print Assumptions C11_penalty_bands_exact.

(* Layout conversions preserve the denotation. *)
Theorem C11_layouts : forall d N : nat,
  aeq (lower_to_full (spec_bands d N true)) (spec_bands d N false) /\
  aeq (drop_rows (Z.of_nat d) (spec_bands d N false)) (spec_bands d N true) /\
  aeq (rev_rows (rev_rows (spec_bands d N false))) (spec_bands d N false).
Proof. intros d N. exact (conj (lower_to_full_spec d N) (conj (drop_full_spec d N) (rev_rows_invol _))). Qed.
Print Assumptions C11_layouts.

(* Any reconfiguration history followed by a reset to settings c equals the fresh system for c. *)
Theorem C11_history : forall (hp : bool) (N : nat) (c0 : cfg) (ops : list op) (c : cfg) (s0 : sys),
  (c_d c0 < N)%nat -> Forall (op_ok N) ops -> (c_d c < N)%nat ->
  reset hp N None c0 = Some s0 ->
  match reset hp N (Some (run hp N s0 ops)) c, reset hp N None c with
  | Some s1, Some s2 => sys_eq s1 s2 /\ Inv N s1
  | None, None => True
  | _, _ => False
  end.
Proof. exact history. Qed.
Print Assumptions C11_history.

Theorem C11_penalty_is_lam_DtD : forall (hp : bool) (N : nat) (c : cfg) (s : sys),
  (c_d c < N)%nat -> reset hp N None c = Some s ->
  aeq (s_pen s) (scale (c_lam c) (pad_diagonals (layout (c_d c) N (want_lower hp c) (want_rev hp c))
                                               (c_pad c) (want_lower hp c))).
Proof. exact penalty_exact. Qed.
Print Assumptions C11_penalty_is_lam_DtD.

(* non-vacuity: a concrete history through lower+reversed, full, pentapy layouts *)
Example C11_history_nonvacuous :
  let c0 := {| c_lam := 2; c_d := 2%nat; c_allow_lower := true; c_rev := Some true; c_allow_penta := false; c_pad := 1 |} in
  let c1 := {| c_lam := 3; c_d := 2%nat; c_allow_lower := false; c_rev := None; c_allow_penta := true; c_pad := 0 |} in
  let c2 := {| c_lam := 1; c_d := 3%nat; c_allow_lower := true; c_rev := Some false; c_allow_penta := true; c_pad := 2 |} in
  match reset true 9 None c0 with
  | Some s0 =>
      match reset true 9 (Some (run true 9 s0 [Reset c1; Reverse; Reset c2; Reset c0; Reset c1])) c2,
            reset true 9 None c2 with
      | Some s1, Some s2 => observe s1 = observe s2
      | _, _ => False
      end
  | None => False
  end.
Proof. vm_compute. reflexivity. Qed.
