(* Property C04 -- one fitter object may be shared by concurrent threads.
   Model: C04/Sched.v (n threads, a schedule is a list of thread ids, one step = ONE load or store of one
   shared attribute) and C04/Model.v (thread programs = the shared-attribute accesses of
   pybaselines/_algorithm_setup.py in source order; tied to the real calls on every run by exact
   comparison of recorded access sequences and by replaying schedules on real threads).

   FULL STATEMENT of the property (all methods, objects created with or without x, 1-D and 2-D):
     forall programs of ONE method with identical non-data arguments, forall schedules, every thread's
     outcome is the serial one.
   It is REFUTED on the current tree for the composite adaptive_minmax (witness below).  First calls on a
   Baseline2D created without x and/or z are proved safe (C04_first_call_2d_safe, since d3d4e98); the 2-D
   polynomial / spline caches have no Coq thread program (schedule replay only).
   What is proved (unbounded in the number of threads, the schedule, the cache history): the statement
   for all programs whose polynomial segments request one order and whose spline segments request one
   (knots, degree), on an object with x present (C04_single_order_safe) AND on a freshly created object
   without x (C04_first_call_safe; holds since f1bf5e1 stores _size before x -- the schedule that failed
   before is kept as a replayed regression case). *)
From Coq Require Import ZArith List Bool.
From PB Require Import C04.Sched C04.Model C04.Proofs C04.Model2D C04.Proofs2D C04.Model2DS C04.Proofs2DS C04.Config.
Import ListNotations.
Open Scope Z_scope.

(* For ANY number of threads (length progs), ANY schedule, x present with any length N (duplicates allowed
   unless a program requires unique x), _validated_x in any state, polynomial cache cold or warm at ANY
   previous order with any consistent pseudo-inverse state, spline cache empty or holding ANY key:
   if every thread's program (any sequence of calls: prologues, _setup_polynomial in any of its four
   modes, body reads of the Vandermonde, _setup_spline, reads of _size/_shape/x/_spline_basis) requests
   the single order p and the single spline key kd, then after the schedule
     - no thread is in an error state,
     - every value any thread has read FOR USE is the one determined by its own arguments
       (Vandermonde of order p, pinv of that matrix, the basis for kd, N, x) = the serial value,
     - every finished thread has outcome 0 (= serial), unfinished ones have no deviation so far. *)
Theorem C04_single_order_safe : forall N p kd dup v0 cache spl0 progs sched,
  match cache with Some h => cache_consistent h | None => True end ->
  Forall (prog_ok true N p dup kd) progs ->
  let st := run_sched sched (init_shared N dup v0 cache spl0, map init_local progs) in
  length (snd st) = length progs /\
  Forall (fun l => (forall e, lpc l <> PErr e) /\ Forall (use_ok N p dup kd) (luses l) /\
                   (outcome (Some (N, dup)) l = 0 \/ (outcome (Some (N, dup)) l = 9 /\ ltodo l <> [])))
         (snd st).
Proof. exact single_order_safe. Qed.
Print Assumptions C04_single_order_safe.

(* the inductive invariant itself (shared-state invariant G, per-thread invariant L) holds in every
   reachable state *)
Theorem C04_reachable_invariant : forall N p kd dup v0 cache spl0 progs sched,
  match cache with Some h => cache_consistent h | None => True end ->
  Forall (prog_ok true N p dup kd) progs ->
  exists q0 wm,
    let st := run_sched sched (init_shared N dup v0 cache spl0, map init_local progs) in
    G N p q0 dup wm true kd spl0 (fst st) /\ Forall (L N p q0 dup wm true kd (fst st)) (snd st).
Proof. exact single_order_inv. Qed.
Print Assumptions C04_reachable_invariant.

(* generic reachable-state principle of the interleaving semantics (any model) *)
Theorem C04_sched_run_inv : forall (Sh Lo : Type) (step : Sh -> Lo -> Sh * Lo)
    (G : Sh -> Prop) (L : Sh -> Lo -> Prop) (R : Sh -> Sh -> Prop),
  (forall s l, G s -> L s l ->
     G (fst (step s l)) /\ L (fst (step s l)) (snd (step s l)) /\ R s (fst (step s l))) ->
  (forall s s' l, G s -> G s' -> R s s' -> L s l -> L s' l) ->
  forall sched s ls, G s -> Forall (L s) ls ->
    G (fst (run step sched (s, ls))) /\ Forall (L (fst (run step sched (s, ls)))) (snd (run step sched (s, ls))).
Proof. exact run_inv. Qed.
Print Assumptions C04_sched_run_inv.

(* FIRST CALLS on an object created WITHOUT x_data (x, _size, _shape unset; _validated_x = True; caches
   empty): for ANY number of threads whose data have the same length N, ANY schedule, programs as above
   (each starting with a prologue): no thread reaches an error state, every value read for use is the
   serial one (x = linspace of length N, _size = _shape = N, Vandermonde of order p, ...). *)
Theorem C04_first_call_safe : forall N p kd progs sched,
  Forall (prog_ok false N p false kd) progs ->
  let st := run_sched sched (fresh_shared, map init_local progs) in
  length (snd st) = length progs /\
  Forall (fun l => (forall e, lpc l <> PErr e) /\ Forall (use_ok N p false kd) (luses l) /\
                   (outcome (Some (N, false)) l = 0 \/ (outcome (Some (N, false)) l = 9 /\ ltodo l <> [])))
         (snd st).
Proof. exact first_call_safe. Qed.
Print Assumptions C04_first_call_safe.

(* regression witness: the schedule that made thread 1 raise before f1bf5e1 now gives serial outcomes,
   and Baseline().poly(y, poly_order=3) satisfies the hypothesis of C04_first_call_safe *)
Theorem C04_first_call_regression :
  outcomes 200 (Some (40, false)) [0; 0; 1; 1]%nat (fresh_shared, [init_local poly3; init_local poly3]) = [0; 0] /\
  prog_ok false 40 3 false (8, 3) poly3.
Proof. exact first_call_regression. Qed.
Print Assumptions C04_first_call_regression.

(* 2-D FIRST CALLS (coq/C04/Model2D.v: prologue of _Algorithm2D._register.inner incl. the _shape setter's two
   stores __shape then _size, and later reads of x / z / _shape / _size): for a Baseline2D created with x only,
   z only, neither or both (ix, iz), ANY number of threads passing data of one shape (M, N), ANY schedule:
   no thread reaches an error state (length mismatch, the setter's partial-update path, np.prod or linspace
   of None are all unreachable), every later read returns x of length M, z of length N, _shape = (M, N),
   _size = M*N, and the shared invariant G2 holds in every reachable state. *)
Theorem C04_first_call_2d_safe : forall M N ix iz dupx dupz progs sched,
  Forall (prog_ok2 M N dupx dupz) progs ->
  let st := run_sched2 dupx dupz sched (fresh2 ix iz M N, map init_local2 progs) in
  length (snd st) = length progs /\
  G2 M N ix iz (fst st) /\
  Forall (fun l => (forall e, qpc l <> AErr e) /\ Forall (use_ok2 M N) (quses l) /\
                   (outcome2 M N l = 0 \/ (outcome2 M N l = 9 /\ qtodo l <> []))) (snd st).
Proof. exact first_call_2d_safe. Qed.
Print Assumptions C04_first_call_2d_safe.

(* regression witness: the pre-emption that failed before d3d4e98 (thread 0 stopped after 5 accesses of its
   first call on Baseline2D(), thread 1 run to completion) now gives serial outcomes; hypothesis satisfiable *)
Theorem C04_first_call_2d_regression :
  map (outcome2 12 10)
      (snd (run_sched2 false false (repeat 0%nat 5 ++ repeat 1%nat 14 ++ repeat 0%nat 14)
              (fresh2 false false 12 10,
               [init_local2 [Pro2 false 12 10; Use2 Dshape]; init_local2 [Pro2 false 12 10; Use2 Dshape]])))
    = [0; 0] /\
  prog_ok2 12 10 false false [Pro2 false 12 10; Use2 Dshape].
Proof. exact first_call_2d_regression. Qed.
Print Assumptions C04_first_call_2d_regression.

(* 2-D SPLINE CACHE and the LAZY SplineBasis2D.basis (coq/C04/Model2DS.v: _setup_spline's read / same_basis /
   publish / read of self._spline_basis, and `if self._basis is None: self._basis = kron(..)`; `return
   self._basis` = read, [store], read on the basis object the thread's PSpline2D holds): ANY number of threads
   requesting one (num_knots, spline_degree), ANY schedule, cache cold or warm with ANY key and the lazy
   basis computed or not: no thread gets a None basis (error state) or a basis for another key.
   (x, z, _shape are only read here; the thread's own prologue has set them: C04_first_call_2d_safe.) *)
Theorem C04_spline2d_lazy_safe : forall kd (cache : option basisobj) progs sched,
  Forall (prog_okS kd) progs ->
  let st := run_schedS sched (match cache with Some o => warmS o | None => coldS end, map init_localS progs) in
  length (snd st) = length progs /\
  Forall (fun l => (forall e, spc l <> SErr e) /\ Forall (use_okS kd) (suses l) /\
                   (outcomeS l = 0 \/ (outcomeS l = 9 /\ stodo l <> []))) (snd st).
Proof. exact spline2d_lazy_safe. Qed.
Print Assumptions C04_spline2d_lazy_safe.

(* what it rests on: no step of the thread program ever takes `_basis` back to None *)
Theorem C04_spline2d_lazy_monotone : forall s l j o, getb s j = Some o -> snd o = true ->
  exists o', getb (fst (stepS s l)) j = Some o' /\ snd o' = true.
Proof. exact lazy_monotone. Qed.
Print Assumptions C04_spline2d_lazy_monotone.

Example C04_spline2d_nonvacuous :
  prog_okS (5, 3) [UseShapeS; Spl2 5 3; Lazy2; Lazy2] /\
  map outcomeS (snd (run_schedS ([0; 0; 0; 0; 0; 0; 0] ++ repeat 1%nat 12 ++ repeat 0%nat 6)%nat
       (coldS, [init_localS [UseShapeS; Spl2 5 3; Lazy2; Lazy2]; init_localS [UseShapeS; Spl2 5 3; Lazy2; Lazy2]])))
    = [0; 0].
Proof. exact spline2d_examples. Qed.

(* CONFIGURATION attributes (_dtype; likewise _check_finite, banded_solver, _sort_order, _inverted_order) as a
   read-only shared cell (coq/C04/Config.v): if no thread program contains a store to the cell - which is the
   harness obligation "no store to a configuration attribute during any replayed call" - then for ANY number of
   threads and ANY schedule the cell keeps its value and every call's entry read (which decides the dtype of that
   call's result) returns the configured value, i.e. the serial result's dtype. *)
Theorem C04_config_readonly_safe : forall (c0 : option Z) (progs : list (list cop)) (sched : list nat),
  Forall no_write progs ->
  fst (crun sched c0 progs) = c0 /\
  length (snd (crun sched c0 progs)) = length progs /\
  Forall (fun l => Forall (fun o => o = c0) (couts l)) (snd (crun sched c0 progs)).
Proof. exact config_readonly_safe. Qed.
Print Assumptions C04_config_readonly_safe.

(* the hypothesis is needed: a wrapper that clears the cell around an inner call and restores it (a transient
   store) gives another thread's outer call the wrong dtype under some schedule, while the serial schedule is fine *)
Theorem C04_config_transient_write_refuted :
  map couts (snd (crun [0; 0; 1; 1; 1; 1; 1; 0; 0; 0]%nat (Some 32) [wrapper_prog; wrapper_prog]))
    = [[Some 32; Some 32]; [None; None]] /\
  map couts (snd (crun (repeat 0%nat 5 ++ repeat 1%nat 5) (Some 32) [wrapper_prog; wrapper_prog]))
    = [[None; Some 32]; [None; Some 32]] /\
  ~ no_write wrapper_prog.
Proof. exact config_transient_write_refuted. Qed.
Print Assumptions C04_config_transient_write_refuted.

(* REFUTED on the current tree: adaptive_minmax(poly_order=2) on a shared object with x present.
   Thread 0 pre-empted after k of its accesses, thread 1 run to completion:
   k = 16: thread 0 raises (matmul shape mismatch); k = 14: thread 0 silently returns another baseline. *)
Theorem C04_adaptive_minmax_refuted : exists s1 s2,
  outcomes 1000 (Some (40, false)) s1 (cold (Some (40, false)) false, [init_local amm; init_local amm]) = [8; 0] /\
  outcomes 1000 (Some (40, false)) s2 (cold (Some (40, false)) false, [init_local amm; init_local amm]) = [1; 0] /\
  outcomes 1000 (Some (40, false)) [] (cold (Some (40, false)) false, [init_local amm; init_local amm]) = [0; 0].
Proof. exists (amm_sched 16), (amm_sched 14). exact adaptive_minmax_witness. Qed.
Print Assumptions C04_adaptive_minmax_refuted.

(* adaptive_minmax does not satisfy the single-order hypothesis for any p *)
Theorem C04_adaptive_minmax_outside_hypothesis : forall p, ~ prog_ok true 40 p false (8, 3) amm.
Proof. exact amm_not_single_order. Qed.
Print Assumptions C04_adaptive_minmax_outside_hypothesis.

Example C04_hypotheses_nonvacuous :
  prog_ok true 40 3 false (8, 3) poly3 /\
  prog_ok true 40 3 false (8, 3) (prog_poly_call true 40 3 MWt 4 ++ [SPro false true 40; SSpl 8 3; SUseSpl 8 3]) /\
  cache_consistent (mkH (Some 5) 5 false (Some 5)) /\ cache_consistent (mkH (Some 2) 2 true (Some 7)).
Proof. exact prog_ok_examples. Qed.
