(* Property C10 -- answers do not depend on the linear-algebra backend or optional dependencies.
   This file contains only the property theorems; each is closed by an exact lemma.
   Configurations: banded_solver in {1,2,3,4} x pentapy importable or not x numba importable or not.
   `valid c` = the banded_solver setter accepts cf_bs c (the values are read from the source). *)
From Coq Require Import ZArith List Bool Lia.
From Coq Require PrimFloat.
From PB Require Import lib.SumZ lib.PySlice lib.Arr C11.DtD C11.Table gen.GenBands C11.Banded C11.History
                       C10.Syntax gen.GenC10 C10.Model C10.Proofs.
Import ListNotations.
Open Scope Z_scope.

(* the 16 configurations are exactly the valid ones *)
Theorem C10_all_configs : length all_configs = 16%nat /\ forall c, In c all_configs <-> (valid c /\ True).
Proof. exact (conj all_configs_16 all_configs_valid). Qed.
Print Assumptions C10_all_configs.

(* the flag expressions of the CURRENT source (gen/GenC10.v) are those of the C11 state-machine model,
   so every C11 layout / history theorem applies to the configuration chosen by _setup_whittaker *)
Theorem C10_flags_agree : forall c lam d al rv,
  want_penta (cf_penta c) (ws_cfg c lam d al rv) = flag_penta c d /\
  want_lower (cf_penta c) (ws_cfg c lam d al rv) = flag_lower c d al /\
  want_rev (cf_penta c) (ws_cfg c lam d al rv) = flag_rev c d rv.
Proof. exact flags_agree. Qed.
Print Assumptions C10_flags_agree.

(* the flag combinations reachable from the 16 configurations for the three ways the callers set
   (allow_lower, reverse_diags): never lower+reversed, never lower+pentapy, pentapy only for d = 2 *)
Theorem C10_reachable_flags : forall c d, valid c ->
  let f al rv := (flag_lower c d al, flag_rev c d rv, flag_penta c d) in
  In (f true None) [(true, false, false); (false, false, false); (false, true, true)] /\
  In (f false (Some false)) [(false, false, false); (false, false, true)] /\
  In (f false (Some true)) [(false, true, false); (false, true, true)] /\
  (flag_penta c d = true -> Z.of_nat d = 2 /\ cf_penta c = true /\ cf_bs c <= 2) /\
  (cf_bs c = 4 -> flag_lower c d true = false) /\
  (cf_penta c = false -> flag_penta c d = false).
Proof. exact reachable_flags. Qed.
Print Assumptions C10_reachable_flags.

(* PenalizedSystem.solve (chain read from the source): for EVERY flag combination exactly one arm is
   selected -- pentapy row-wise flat / solveh_banded(lower=True) / solve_banded(l_and_u) *)
Theorem C10_solve_chain_total : forall penta lower which lu nrows,
  dispatch solve_chain penta lower which lu nrows =
  Some (if penta then Penta true true which
        else if lower then Solveh true
        else match lu with Some (l, u) => SolveBanded l u | None => SolveBanded (nrows / 2) (nrows / 2) end).
Proof. exact dispatch_spec. Qed.
Print Assumptions C10_solve_chain_total.

(* C10_dispatch_total: for every method that assembles bands (plain add_diagonal pass, iasls, drpls,
   aspls, both jbcd systems), every configuration, size N > d, order, lam > 0, data: the call is
   defined; the layout the selected entry point reads by its documentation is the layout the bands are
   in (they store the documented matrix in that layout); pentapy only gets 5 row-aligned bands with
   solver 1 or 2, solve_banded gets l_and_u = (d, d) with 2d+1 rows, solveh_banded gets lower=True
   and only symmetric systems. *)
Theorem C10_dispatch_total : forall m c N d x,
  valid c -> (min_order m <= d < N)%nat -> 0 < i_lam x ->
  exists k L, run m c N d x = Some k /\
    expects (k_solver k) = Some L /\
    Rep L (Z.of_nat d) (Z.of_nat N) (k_lhs k) (doc m N d x) /\
    shape_ok (Z.of_nat d) (k_solver k) /\
    call_wf (Z.of_nat N) k = true /\
    (L = LLower -> symmetric_doc m = true).
Proof. exact dispatch_total. Qed.
Print Assumptions C10_dispatch_total.

(* every configuration's call denotes (by the library's own storage convention) the documented matrix *)
Theorem C10_config_denotes : forall m c N d x,
  valid c -> (min_order m <= d < N)%nat -> 0 < i_lam x ->
  exists k, run m c N d x = Some k /\ call_wf (Z.of_nat N) k = true /\
    (forall i j, 0 <= i < Z.of_nat N -> 0 <= j < Z.of_nat N -> den k i j = doc m N d x i j) /\
    (forall i, k_rhs k i = doc_rhs m N x i).
Proof. exact config_denotes. Qed.
Print Assumptions C10_config_denotes.

(* C10_config_invariant: the denoted matrix and the right-hand side are the same for all 16 x 16
   pairs of configurations *)
Theorem C10_config_invariant : forall m c1 c2 N d x,
  valid c1 -> valid c2 -> (min_order m <= d < N)%nat -> 0 < i_lam x ->
  exists k1 k2, run m c1 N d x = Some k1 /\ run m c2 N d x = Some k2 /\
    (forall i j, 0 <= i < Z.of_nat N -> 0 <= j < Z.of_nat N -> den k1 i j = den k2 i j) /\
    (forall i, k_rhs k1 i = k_rhs k2 i).
Proof. exact config_invariant. Qed.
Print Assumptions C10_config_invariant.

(* the hypotheses are satisfiable and the statement is not trivial: two configurations hand the same
   drpls system to different entry points in different layouts *)
Example C10_config_invariant_nonvacuous :
  valid ex_c1 /\ valid ex_c2 /\
  match run MDrpls ex_c1 7 2 ex_inputs, run MDrpls ex_c2 7 2 ex_inputs with
  | Some k1, Some k2 =>
      k_solver k1 = Penta true true 2 /\ k_solver k2 = SolveBanded 2 2 /\
      tab (k_lhs k1) <> tab (k_lhs k2) /\
      dense 7 (den k1) = dense 7 (den k2) /\ dense 7 (den k1) = dense 7 (doc MDrpls 7 2 ex_inputs)
  | _, _ => False
  end.
Proof. vm_compute. repeat split; discriminate. Qed.

(* C10_jit_shim: the no-numba `jit` of _compat.py (shape read from the source) binds, for every
   decorator call shape (@jit, @jit(nopython=True, cache=True) / @jit(), @jit(signature)), a callable that computes
   the undecorated function *)
Theorem C10_jit_shim : forall sh f, exists g, decorate sh f = Some g /\ forall x, g x = f x.
Proof. exact jit_shim. Qed.
Print Assumptions C10_jit_shim.

(* under the contract of numba (a Dispatcher computes its py_func), what is bound to a kernel name
   computes the same function in every configuration *)
Theorem C10_kernels_config_invariant :
  forall compile : (Z -> Z) -> (Z -> Z), (forall f x, compile f x = f x) ->
  forall c1 c2 sh f, exists g1 g2,
    bound compile c1 sh f = Some g1 /\ bound compile c2 sh f = Some g2 /\ forall x, g1 x = g2 x.
Proof. exact kernels_config_invariant. Qed.
Print Assumptions C10_kernels_config_invariant.

(* ------------------------------------------------------------------------------------------------
   C10_btb_paths.  PSpline.solve_pspline (model: C07/Model.v, both `ab` assembly paths) over ANY
   commutative ring: numba path = bands accumulated by _numba_btb_bty (+ _lower_to_full when the
   system is not lower), fallback = scipy.sparse product -> _sparse_to_banded -> ab[len(ab) // 2:]
   (whose band count is whatever non-zero bands the product has).  For any two PSpline objects on the
   same basis whose penalty arrays denote the same matrix Q -- each in the layout of its own `lower`
   flag, i.e. banded_solver < 4 or = 4 -- and either path on either side, the calls are well formed
   and denote the SAME matrix B'WB + Q and right-hand side B'Wy (+ rhs_extra). *)
(* the last assembly step of the banded beads path, `temp[2:-2] += BTB` (statement pinned by the translator): the slice
   addition aligns the main diagonals, the array handed to solve_banded stores A D A + B B for every n and band count u *)
From PB Require Import C10.BeadsAlign.
Theorem C10_beads_lhs_aligned : forall (u N : Z) (temp btb : arr) (X Y : Z -> Z -> Z),
  0 <= u -> Rep LFull (u + 2) N temp X -> Rep LFull u N btb Y -> Banded N u Y ->
  Rep LFull (u + 2) N (slice_add2 temp btb) (fun i j => X i j + Y i j).
Proof. exact beads_lhs_aligned. Qed.
Print Assumptions C10_beads_lhs_aligned.

(* every place where the package consults its optional dependencies is a known, modelled one: a new
   flag-conditional branch anywhere in pybaselines (enumerated from the source on every run) breaks this *)
From PB Require Import C10.Sites.
Theorem C10_flag_sites : flag_sites = expected_flag_sites /\ jit_functions = expected_jit_functions.
Proof. exact sites_ok. Qed.
Print Assumptions C10_flag_sites.

(* every buffer handed to a backend-dispatching solve() with overwrite_b / overwrite_ab = True is a fresh local
   (or, for the matrix, the penalty of a system not used again): no returned value or params entry can be
   overwritten by SciPy but left intact by pentapy.  Sites enumerated and classified from the source on every run. *)
Theorem C10_overwrite_buffers_fresh :
  (forall s, In s overwrite_sites -> site_ok s = true) /\ overwrite_sites <> [].
Proof. exact overwrite_ok. Qed.
Print Assumptions C10_overwrite_buffers_fresh.

(* which implementation each arm of every backend-conditional branch calls is the expected one, and every jit kernel has
   a declared fallback pair that the harness runs (sorted and non-monotone inputs) *)
Theorem C10_kernel_fallback_pairs :
  flag_branches = expected_flag_branches /\ (forall k, In k jit_functions -> kernel_has_pair k = true).
Proof. exact branches_ok. Qed.
Print Assumptions C10_kernel_fallback_pairs.

(* IEEE: a zero weight does not remove a non-finite datum from a sum (what the pair identities of coq/C10/Sites.v mean
   when read over floats); evaluated on Coq's primitive binary64 floats *)
Example C10_zero_weight_propagates_nonvacuous :
  PrimFloat.is_nan (PrimFloat.mul PrimFloat.zero PrimFloat.nan) = true /\
  PrimFloat.is_nan (PrimFloat.mul PrimFloat.zero PrimFloat.infinity) = true /\
  PrimFloat.is_nan (PrimFloat.add (PrimFloat.mul PrimFloat.zero PrimFloat.neg_infinity) PrimFloat.one) = true /\
  length pair_identities = 5%nat.
Proof. vm_compute. repeat split. Qed.

(* imported here, after the theorems above, because C07.Model re-uses names of C10.Model (call, den, ...) *)
From PB Require Import C07.Model C07.Proofs C10.Btb C10.BeadsModel C10.BeadsProofs.
Module M7 := PB.C07.Model.
Module P7 := PB.C07.Proofs.

Theorem C10_btb_paths : forall O : M7.ops,
  ring_theory (M7.zero O) (M7.one O) (M7.add O) (M7.mul O) (M7.sub O) (M7.opp O) eq ->
  (forall x : M7.T O, M7.is0 O x = true -> x = M7.zero O) ->
  forall (M : nat) (k : Z) (n : nat) (B : Z -> Z -> M7.T O) (left : Z -> Z),
  0 <= k ->
  (forall i c : Z, 0 <= i < Z.of_nat n -> c < left i - k \/ left i < c -> B i c = M7.zero O) ->
  forall (s1 s2 : M7.ps O) (numba1 numba2 : bool) (w y : Z -> M7.T O)
    (rhs_extra : option (Z -> M7.T O)) (u1 u2 : Z) (Q : Z -> Z -> M7.T O),
  M7.p_M s1 = M -> M7.p_k s1 = k -> M7.p_M s2 = M -> M7.p_k s2 = k ->
  P7.Rep O M (M7.p_lower s1) (M7.p_pen s1) u1 Q ->
  P7.Rep O M (M7.p_lower s2) (M7.p_pen s2) u2 Q ->
  exists c1 c2 : M7.call O,
    M7.solve_pspline O s1 numba1 n B w y None rhs_extra = Some c1 /\
    M7.solve_pspline O s2 numba2 n B w y None rhs_extra = Some c2 /\
    M7.call_wf O (Z.of_nat M) c1 = true /\ M7.call_wf O (Z.of_nat M) c2 = true /\
    (forall i j : Z, P7.inR M i -> P7.inR M j ->
       M7.den O c1 i j = M7.den O c2 i j /\
       M7.den O c1 i j = M7.add O (M7.btwb O n B w i j) (Q i j)) /\
    (forall r : Z, M7.k_rhs c1 r = M7.k_rhs c2 r).
Proof. exact C10.Btb.solve_pspline_paths. Qed.
Print Assumptions C10_btb_paths.

(* the systems _setup_spline builds under two configurations: allow_lower and banded_solver < 4 (the
   expression translated from the source, sp_allow_lower), numba importable or not *)
Theorem C10_pspline_config_invariant : forall O : M7.ops,
  ring_theory (M7.zero O) (M7.one O) (M7.add O) (M7.mul O) (M7.sub O) (M7.opp O) eq ->
  (forall x : M7.T O, M7.is0 O x = true -> x = M7.zero O) ->
  M7.ofZ O 0 = M7.zero O ->
  forall (M : nat) (k : Z) (n : nat) (B : Z -> Z -> M7.T O) (left : Z -> Z),
  0 <= k ->
  (forall i c : Z, 0 <= i < Z.of_nat n -> c < left i - k \/ left i < c -> B i c = M7.zero O) ->
  forall (b1 b2 : Z) (numba1 numba2 al : bool) (lam : M7.T O) (d : nat) (w y : Z -> M7.T O),
  (1 <= d < M)%nat ->
  exists (s1 s2 : M7.ps O) (c1 c2 : M7.call O),
    M7.pspline_init O k M lam d (C10.Btb.ps_allow_lower b1 al) false = Some s1 /\
    M7.pspline_init O k M lam d (C10.Btb.ps_allow_lower b2 al) false = Some s2 /\
    M7.solve_pspline O s1 numba1 n B w y None None = Some c1 /\
    M7.solve_pspline O s2 numba2 n B w y None None = Some c2 /\
    M7.k_lower c1 = C10.Btb.ps_allow_lower b1 al /\ M7.k_lower c2 = C10.Btb.ps_allow_lower b2 al /\
    M7.call_wf O (Z.of_nat M) c1 = true /\ M7.call_wf O (Z.of_nat M) c2 = true /\
    (forall i j : Z, P7.inR M i -> P7.inR M j ->
       M7.den O c1 i j = M7.den O c2 i j /\
       M7.den O c1 i j = M7.add O (M7.btwb O n B w i j) (P7.Pq O M d lam i j)) /\
    (forall r : Z, M7.k_rhs c1 r = M7.k_rhs c2 r /\ M7.k_rhs c1 r = M7.bty O n B w y r).
Proof. exact C10.Btb.pspline_config_invariant. Qed.
Print Assumptions C10_pspline_config_invariant.

(* banded_solver = 4 really gives a different object (full bands), < 4 lower bands *)
Example C10_pspline_config_nonvacuous :
  C10.Btb.ps_allow_lower 4 true = false /\ C10.Btb.ps_allow_lower 2 true = true.
Proof. split; reflexivity. Qed.

(* ------------------------------------------------------------------------------------------------
   C10_beads_bands.  _numba_banded_dot_banded (the numba kernel of beads; loop nest pinned by the
   translator) as an index function with Python's negative-row wrap: for EVERY n and all band counts,
   including a_upper + b_upper > n - 1, each cell of the zero-initialised output is the entry of the
   matrix product of the two band matrices, or 0 where the loops do not go. *)
Module BM := PB.C10.BeadsModel.

Theorem C10_beads_kernel : forall (a b : arr) (al au bl bu n lb rows row col : Z),
  0 <= n -> 0 <= au -> 0 <= bu -> 0 <= row < rows -> 0 <= col < n ->
  let cu := BM.c_upper au bu n in
  get (BM.kernel a b al au bl bu cu n lb rows) row col =
  if (row - cu <=? lb) && (0 <=? col + (row - cu)) && (col + (row - cu) <? n)
  then BM.prod a b al au bl bu n (col + (row - cu)) col else 0.
Proof. exact C10.BeadsProofs.kernel_spec. Qed.
Print Assumptions C10_beads_kernel.

(* _banded_dot_banded(symmetric_output=False) (A @ D in beads): LAPACK general band storage of A @ B
   with the clamped band counts, zero corners *)
Theorem C10_beads_product_full : forall (a b : arr) (al au bl bu i j : Z),
  let n := nc a in
  0 <= al -> 0 <= au -> 0 <= bl -> 0 <= bu -> 0 <= i < n -> 0 <= j < n ->
  - BM.c_upper au bu n <= i - j <= BM.c_lower al bl n ->
  get (BM.banded_dot_banded a b al au bl bu false) (BM.c_upper au bu n + i - j) j = BM.prod a b al au bl bu n i j.
Proof. exact C10.BeadsProofs.banded_dot_banded_full. Qed.
Print Assumptions C10_beads_product_full.

(* _banded_dot_banded(symmetric_output=True) (B @ B and (A D) @ A in beads): only the upper bands are
   computed, the completion loop `output[-row, :-offset] = output[row - 1, offset:]` mirrors them; the
   result is the full band storage of the symmetric product.
   PARTIAL in one respect: stated for a_lower + b_lower = a_upper + b_upper <= n - 1 (beads: 2 filter_type
   resp. 2 filter_type + 2 bands, so n >= 2 filter_type + 3); for more bands than n - 1 the completion
   loop indexes from the bottom of a clamped array (a TODO in the source) and is not claimed. *)
Theorem C10_beads_bands_partial : forall (a b : arr) (al au bl bu i j : Z),
  let n := nc a in
  let u := au + bu in
  0 <= al -> 0 <= au -> 0 <= bl -> 0 <= bu -> al + bl = u -> u <= n - 1 ->
  (forall p q, 0 <= p < n -> 0 <= q < n -> BM.prod a b al au bl bu n p q = BM.prod a b al au bl bu n q p) ->
  0 <= i < n -> 0 <= j < n -> Z.abs (i - j) <= u ->
  get (BM.banded_dot_banded a b al au bl bu true) (u + i - j) j = BM.prod a b al au bl bu n i j.
Proof. exact C10.BeadsProofs.banded_dot_banded_sym. Qed.
Print Assumptions C10_beads_bands_partial.
(* full statement (not proved): the same without `u <= n - 1`, with rows = c_lower + c_upper + 1 clamped. *)

(* the sparse path computes the same products with scipy.sparse (library, trusted to be the matrix
   product); every other statement of _banded_beads / _sparse_beads (weights, gamma, penalty rows, cost) is
   textually identical in the two functions: checked by tools/gen_c10.py on every run, which refuses
   to translate otherwise. *)
Example C10_beads_translated_nonvacuous : beads_kernel_is_modelled = true /\ 0 < beads_shared_statements.
Proof. split; reflexivity. Qed.
