(* Property C10 -- answers do not depend on the linear-algebra backend or optional dependencies.
   This file contains only the property theorems; each is closed by an exact lemma.
   Configurations: banded_solver in {1,2,3,4} x pentapy importable or not x numba importable or not.
   `valid c` = the banded_solver setter accepts cf_bs c (the values are read from the source). *)
From Coq Require Import ZArith List Bool Lia.
From PB Require Import lib.SumZ lib.PySlice lib.Arr C11.DtD C11.Table gen.GenBands C11.Banded C11.History
                       C10.Syntax gen.GenC10 C10.Model C10.Proofs.
Import ListNotations.
Open Scope Z_scope.

(* the 16 configurations are exactly the valid ones *)
Theorem C10_all_configs : length all_configs = 16%nat /\ forall c, In c all_configs <-> (valid c /\ True).
Proof. exact (conj all_configs_16 all_configs_valid). Qed.
Print Assumptions C10_all_configs.

(* the flag expressions of the CURRENT source (gen/GenC10.v) are those of the C11 state-machine model,
   so every C11 layout / history theorem applies to the configuration chosen by _setup_whittaker *)
Theorem C10_flags_agree : forall c lam d al rv,
  want_penta (cf_penta c) (ws_cfg c lam d al rv) = flag_penta c d /\
  want_lower (cf_penta c) (ws_cfg c lam d al rv) = flag_lower c d al /\
  want_rev (cf_penta c) (ws_cfg c lam d al rv) = flag_rev c d rv.
Proof. exact flags_agree. Qed.
Print Assumptions C10_flags_agree.

(* the flag combinations reachable from the 16 configurations for the three ways the callers set
   (allow_lower, reverse_diags): never lower+reversed, never lower+pentapy, pentapy only for d = 2 *)
Theorem C10_reachable_flags : forall c d, valid c ->
  let f al rv := (flag_lower c d al, flag_rev c d rv, flag_penta c d) in
  In (f true None) [(true, false, false); (false, false, false); (false, true, true)] /\
  In (f false (Some false)) [(false, false, false); (false, false, true)] /\
  In (f false (Some true)) [(false, true, false); (false, true, true)] /\
  (flag_penta c d = true -> Z.of_nat d = 2 /\ cf_penta c = true /\ cf_bs c <= 2) /\
  (cf_bs c = 4 -> flag_lower c d true = false) /\
  (cf_penta c = false -> flag_penta c d = false).
Proof. exact reachable_flags. Qed.
Print Assumptions C10_reachable_flags.

(* PenalizedSystem.solve (chain read from the source): for EVERY flag combination exactly one arm is
   selected -- pentapy row-wise flat / solveh_banded(lower=True) / solve_banded(l_and_u) *)
Theorem C10_solve_chain_total : forall penta lower which lu nrows,
  dispatch solve_chain penta lower which lu nrows =
  Some (if penta then Penta true true which
        else if lower then Solveh true
        else match lu with Some (l, u) => SolveBanded l u | None => SolveBanded (nrows / 2) (nrows / 2) end).
Proof. exact dispatch_spec. Qed.
Print Assumptions C10_solve_chain_total.

(* C10_dispatch_total: for every method that assembles bands (plain add_diagonal pass, iasls, drpls,
   aspls, both jbcd systems), every configuration, size N > d, order, lam > 0, data: the call is
   defined; the layout the selected entry point reads by its documentation is the layout the bands are
   in (they store the documented matrix in that layout); pentapy only gets 5 row-aligned bands with
   solver 1 or 2, solve_banded gets l_and_u = (d, d) with 2d+1 rows, solveh_banded gets lower=True
   and only symmetric systems. *)
Theorem C10_dispatch_total : forall m c N d x,
  valid c -> (min_order m <= d < N)%nat -> 0 < i_lam x ->
  exists k L, run m c N d x = Some k /\
    expects (k_solver k) = Some L /\
    Rep L (Z.of_nat d) (Z.of_nat N) (k_lhs k) (doc m N d x) /\
    shape_ok (Z.of_nat d) (k_solver k) /\
    call_wf (Z.of_nat N) k = true /\
    (L = LLower -> symmetric_doc m = true).
Proof. exact dispatch_total. Qed.
Print Assumptions C10_dispatch_total.

(* every configuration's call denotes (by the library's own storage convention) the documented matrix *)
Theorem C10_config_denotes : forall m c N d x,
  valid c -> (min_order m <= d < N)%nat -> 0 < i_lam x ->
  exists k, run m c N d x = Some k /\ call_wf (Z.of_nat N) k = true /\
    (forall i j, 0 <= i < Z.of_nat N -> 0 <= j < Z.of_nat N -> den k i j = doc m N d x i j) /\
    (forall i, k_rhs k i = doc_rhs m N x i).
Proof. exact config_denotes. Qed.
Print Assumptions C10_config_denotes.

(* C10_config_invariant: the denoted matrix and the right-hand side are the same for all 16 x 16
   pairs of configurations *)
Theorem C10_config_invariant : forall m c1 c2 N d x,
  valid c1 -> valid c2 -> (min_order m <= d < N)%nat -> 0 < i_lam x ->
  exists k1 k2, run m c1 N d x = Some k1 /\ run m c2 N d x = Some k2 /\
    (forall i j, 0 <= i < Z.of_nat N -> 0 <= j < Z.of_nat N -> den k1 i j = den k2 i j) /\
    (forall i, k_rhs k1 i = k_rhs k2 i).
Proof. exact config_invariant. Qed.
Print Assumptions C10_config_invariant.

(* the hypotheses are satisfiable and the statement is not trivial: two configurations hand the same
   drpls system to different entry points in different layouts *)
Example C10_config_invariant_nonvacuous :
  valid ex_c1 /\ valid ex_c2 /\
  match run MDrpls ex_c1 7 2 ex_inputs, run MDrpls ex_c2 7 2 ex_inputs with
  | Some k1, Some k2 =>
      k_solver k1 = Penta true true 2 /\ k_solver k2 = SolveBanded 2 2 /\
      tab (k_lhs k1) <> tab (k_lhs k2) /\
      dense 7 (den k1) = dense 7 (den k2) /\ dense 7 (den k1) = dense 7 (doc MDrpls 7 2 ex_inputs)
  | _, _ => False
  end.
Proof. vm_compute. repeat split; discriminate. Qed.

(* C10_jit_shim: the no-numba `jit` of _compat.py (shape read from the source) binds, for every
   decorator call shape (@jit, @jit(nopython=True, cache=True) / @jit(), @jit(signature)), a callable that computes
   the undecorated function *)
Theorem C10_jit_shim : forall sh f, exists g, decorate sh f = Some g /\ forall x, g x = f x.
Proof. exact jit_shim. Qed.
Print Assumptions C10_jit_shim.

(* under the contract of numba (a Dispatcher computes its py_func), what is bound to a kernel name
   computes the same function in every configuration *)
Theorem C10_kernels_config_invariant :
  forall compile : (Z -> Z) -> (Z -> Z), (forall f x, compile f x = f x) ->
  forall c1 c2 sh f, exists g1 g2,
    bound compile c1 sh f = Some g1 /\ bound compile c2 sh f = Some g2 /\ forall x, g1 x = g2 x.
Proof. exact kernels_config_invariant. Qed.
Print Assumptions C10_kernels_config_invariant.

(* NOT CLAIMED (stated in DESIGN.md section 4 / C10, left to the direct oracle of harness/c10.py):
   C10_btb_paths   : _numba_btb_bty accumulation = sparse B'WB product path (PSpline.solve_pspline);
   C10_beads_bands : _numba_banded_dot_banded = banded product with symmetric completion, hence
                     _banded_beads and _sparse_beads assemble the same systems. *)
