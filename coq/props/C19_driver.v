(* Property C19, translator obligation on the driver's iteration (gen/GenLoessDriver.v, regenerated fail-closed from /repo by
   tools/gen_loess_state.py on every run): max_iter + 1 passes; the ONLY exit is `break` under exactly `calc_difference < tol`;
   the tested value is relative_difference(baseline before the pass, baseline after it) and is what tol_history records.
   This is the stop test `below (reldiff (d_base s) b)` of `drive` (C19/Model.v); see C19_first_pass_exit (props/C19.v). *)
From Coq Require Import List String.
From PB Require Import gen.GenLoessDriver C19.DriverCheck.
Import ListNotations.
Open Scope string_scope.

Theorem C19_driver_stop_test :
  loess_loop_header = "for i in range(max_iter + 1)" /\
  loess_loop_exits = [("break", "(calc_difference < tol)")] /\
  loess_loop_defs = ["baseline_old = baseline"; "calc_difference = relative_difference(baseline_old, baseline)"; "tol_history[i] = calc_difference"].
Proof. exact driver_stop_test. Qed.
Print Assumptions C19_driver_stop_test.
