(* Property C19, translator obligation on the driver's iteration (gen/GenLoessDriver.v, regenerated fail-closed from /repo by
   tools/gen_loess_state.py on every run): max_iter + 1 passes; the ONLY exit is `break` under exactly `calc_difference < tol`;
   the tested value is relative_difference(baseline before the pass, baseline after it) and is what tol_history records.
   This is the stop test `below (reldiff (d_base s) b)` of `drive` (C19/Model.v); see C19_first_pass_exit (props/C19.v). *)
From Coq Require Import List String.
From PB Require Import gen.GenLoessDriver C19.DriverCheck.
Import ListNotations.
Open Scope string_scope.

Theorem C19_driver_stop_test :
  loess_loop_header = "for i in range(max_iter + 1)" /\
  loess_loop_exits = [("break", "(calc_difference < tol)")] /\
  loess_loop_defs = ["baseline_old = baseline"; "calc_difference = relative_difference(baseline_old, baseline)"; "tol_history[i] = calc_difference"].
Proof. exact driver_stop_test. Qed.
Print Assumptions C19_driver_stop_test.

(* every branch test and every assignment inside the iteration, as the model's `drive` has them: the strategy dispatch is
   `conserve_memory` / `i == 0` only (no size threshold), `kernels` is bound once by _loess_first_loop and passed on
   unchanged (no cast, copy or truncation of the cache), y / sqrt_w are updated only by the two documented rules *)
Theorem C19_driver_loop_skeleton :
  loess_loop_tests = ["conserve_memory"; "calc_difference < tol"; "use_threshold"; "i == 0"; "use_original"] /\
  loess_loop_assignments =
  ["baseline_old = baseline"; "calc_difference = relative_difference(baseline_old, baseline)"; "tol_history[i] = calc_difference";
   "baseline = _loess_low_memory(x, y, sqrt_w, coefs, vandermonde, self._size, windows, fits)";
   "y = np.minimum(y0 if use_original else y, baseline + num_std * np.std(y - baseline))";
   "residual = y - baseline";
   "sqrt_w = _tukey_square(residual / _median_absolute_value(residual), scale, symmetric_weights)";
   "kernels, baseline = _loess_first_loop(x, y, sqrt_w, coefs, vandermonde, total_points, self._size, windows, fits)";
   "baseline = _loess_nonfirst_loops(y, sqrt_w, coefs, vandermonde, kernels, windows, self._size, fits)"].
Proof. exact driver_loop_skeleton. Qed.
Print Assumptions C19_driver_loop_skeleton.
