(* Property C19, translator obligation on the local solver (gen/GenLoessSolver.v, regenerated fail-closed from /repo by
   tools/gen_loess_state.py on every run). *)
From PB Require Import gen.GenLoessSolver C19.SolverCheck.

(* _loess_solver(AT, b) returns np.linalg.solve(AT . AT^T, AT . b): the normal equations of the kernel- and
   weight-scaled local design matrix, with nothing added to or multiplied into either side -- the shape of hypothesis
   `normal c a = sum_t A a t * b t` of C19_poly_exact_partial (np.linalg.solve itself is trusted). *)
Theorem C19_solver_is_normal_equations :
  loess_solver_lhs = SDot SA (ST SA) /\ loess_solver_rhs = SDot SA SB.
Proof. exact solver_is_normal_equations. Qed.
Print Assumptions C19_solver_is_normal_equations.
