(* Property C13 -- calls never modify the caller's arrays or dictionaries.
   Only the property theorems; each is closed by an exact lemma of C13/Proofs.v or C13/Table.v. *)
From Coq Require Import List Bool Arith String.
From PB Require Import C13.Model C13.Writes C13.Proofs gen.GenWrites C13.Table.
Import ListNotations.

(* ---- alias map: for ALL input/flag combinations (ndarray/list/None, dtype, contiguity, shape kind,
   1-D/2-D wrapper, skip_sorting, sort order present or not) the array a method body receives as `data`
   shares the caller's buffer exactly when the closed form says so ... *)
Theorem C13_alias_map_data : forall (two_d skip no_order : bool) (i : inp),
  aliases 0 (fst (wrapper_y two_d skip no_order (user_obj 0 i) first_fresh))
  = y_alias_formula two_d skip no_order i.
Proof. exact wrapper_y_alias. Qed.
Print Assumptions C13_alias_map_data.

(* ... and the weight array a _setup_* hands to the body (four setups, 1-D/2-D, ravel or not,
   copy_weights, sort order) shares the caller's weights exactly when the closed form says so *)
Theorem C13_alias_map : forall two_d rv k cw no_order i,
  aliases 0 (fst (setup_weights two_d rv k cw no_order (user_obj 0 i) first_fresh))
  = w_alias_formula two_d rv k cw no_order i.
Proof. exact setup_weights_alias. Qed.
Print Assumptions C13_alias_map.

(* every output is the caller's buffer itself or a buffer allocated during the call *)
Theorem C13_alias_map_owner : forall two_d rv k cw no_order i,
  let a := fst (setup_weights two_d rv k cw no_order (user_obj 0 i) first_fresh) in
  (a_buf a = 0 /\ a_own a = User /\ w_alias_formula two_d rv k cw no_order i = true)
  \/ (a_own a = Fresh /\ first_fresh <= a_buf a).
Proof. exact setup_weights_owner. Qed.
Print Assumptions C13_alias_map_owner.

(* copy_weights=True: never the caller's buffer, whatever the input looks like *)
Theorem C13_copy_weights_fresh : forall two_d rv k no_order i,
  let a := fst (setup_weights two_d rv k true no_order (user_obj 0 i) first_fresh) in
  a_own a = Fresh /\ first_fresh <= a_buf a.
Proof. exact copy_weights_fresh. Qed.
Print Assumptions C13_copy_weights_fresh.

(* the semantics the write-site language gives to a setup's weight output over-approximates the model *)
Theorem C13_setup_semantics_justified : forall two_d rv k cw no_order i,
  let a := fst (setup_weights two_d rv k cw no_order (user_obj 0 i) first_fresh) in
  a_own a = Fresh \/ (cw = false /\ a_buf a = 0).
Proof. exact setup_w_sem_justified. Qed.
Print Assumptions C13_setup_semantics_justified.

(* _setup_optimizer: method_kwargs.copy() is a new dict holding the caller's values; copy_kwargs=False is the caller's dict *)
Theorem C13_kwargs_copy : forall (d : pydict) n,
  let d' := fst (setup_kwargs true (Some d) n) in
  d_buf d' = n /\ d_own d' = Fresh /\ d_vals d' = d_vals d.
Proof. exact setup_kwargs_copy. Qed.
Print Assumptions C13_kwargs_copy.

(* ---- soundness of the checker, for arbitrary executions: any branch choices, any number of loop
   iterations, break/continue, a raise (or return) at ANY point; any owner map, any store that is covered by
   the entry taint on the names the statement mentions (M).  Every write goes to a Fresh buffer; the store at
   normal exit / break / continue / the point of a raise is covered by the computed sets N / B / C / R. *)
Theorem C13_checker_sound : forall (V : Type) (own : nat -> owner) (M : name -> bool) s,
  (forall m, mentions m s = true -> M m = true) ->
  forall T N B C R, analyse s T = Ok N B C R ->
  forall st t o, covers_on own M st T -> exec V own s st t o ->
    fresh_trace V own t /\ post own M o N B C R.
Proof. exact analyse_sound. Qed.
Print Assumptions C13_checker_sound.

(* induction over arbitrary write sequences: writes through fresh roots, cut after any prefix
   (a raise only truncates the sequence), leave every caller-owned buffer unchanged *)
Theorem C13_fresh_writes_preserve : forall (V : Type) (own : nat -> owner) (t : list (nat * V)) (h : heap V),
  fresh_trace V own t -> forall k u, own u = User -> run V h (firstn k t) u = h u.
Proof. exact fresh_writes_preserve_user. Qed.
Print Assumptions C13_fresh_writes_preserve.

(* ---- the table generated from the current source passes the checker ... *)
Theorem C13_writes_ok : writes_ok bodies = true.
Proof. exact gen_writes_ok. Qed.
Print Assumptions C13_writes_ok.

(* ... hence, for every analysed body (registered method bodies, helpers with their claimed write/return
   summaries), every execution, returning or raising, leaves all caller-owned buffers bit-for-bit unchanged *)
Theorem C13_writes_safe : forall b, In b bodies ->
  forall (V : Type) (own : nat -> owner) st t o, covers own st (b_tainted b) -> exec V own (b_code b) st t o ->
    forall (h : heap V) k u, own u = User -> run V h (firstn k t) u = h u.
Proof. intros b Hin V own. exact (writes_ok_sound V own bodies gen_writes_ok b Hin). Qed.
Print Assumptions C13_writes_safe.

(* ---- the wrapper layers and cross-call aliasing, derived from the translated source by the same checker *)

(* the decorator closures (_register.inner 1-D/2-D, _class_wrapper.inner) and _return_results are bodies of the
   checked table: with every argument of `inner` caller-owned they write through no caller-owned source; the
   `params` dict they store into is, for every registered body, a new object (re-checked return summaries).
   C13_alias_map_data is therefore no longer an assumption of C13_writes_safe but an exact refinement of it. *)
Theorem C13_wrappers_checked :
  has_body "_algorithm_setup:_Algorithm._register [writes only ]"
  && has_body "two_d._algorithm_setup:_Algorithm2D._register [writes only ]"
  && has_body "_algorithm_setup:_class_wrapper [writes only ]"
  && has_body "_algorithm_setup:_Algorithm._return_results [writes only params]"
  && has_body "two_d._algorithm_setup:_Algorithm2D._return_results [writes only params]" = true.
Proof. exact gen_wrappers_checked. Qed.
Print Assumptions C13_wrappers_checked.

(* an attribute store `self.a = e` that the table claims fresh: whenever the checker accepts the store followed by
   its assertion, the stored value denotes library-allocated buffers only, in every state covered by the entry
   taint -- also when the call raises right after the store (the fact is about the state at the store) *)
Theorem C13_assert_fresh : forall (own : nat -> owner) n r l T N B C R,
  analyse (SSeq (SBind n r) (SWrite n l)) T = Ok N B C R ->
  forall (st : store) (S : nat -> Prop), covers own st T -> rhs_sem own r st S ->
  forall b, S b -> own b = Fresh.
Proof. exact bind_then_assert_fresh. Qed.
Print Assumptions C13_assert_fresh.

(* self.x / self.z (the caller's arrays when already float64 and sorted) are classified caller-owned, every
   write-site body that mentions them (or what they hold) treats them as caller-owned on entry, and no write
   site has them as its root; with C13_writes_ok no write goes through any alias of them, in any call *)
Theorem C13_self_xz_never_written :
  forallb (fun b => attr_guarded "self.x" b && attr_guarded "self.z" b
                    && attr_guarded "self.x.*" b && attr_guarded "self.z.*" b) write_bodies = true
  /\ existsb (String.eqb "x") caller_attrs && existsb (String.eqb "z") caller_attrs
     && negb (existsb (String.eqb "x") fresh_attrs) && negb (existsb (String.eqb "z") fresh_attrs) = true.
Proof. split; [exact gen_self_xz_guarded | exact gen_xz_classified_caller_owned]. Qed.
Print Assumptions C13_self_xz_never_written.

(* the same guard for EVERY persistent attribute that is not proven fresh at all of its stores *)
Theorem C13_persistent_attrs_guarded :
  forallb (fun a => forallb (attr_guarded (String.append "self." a)) write_bodies) caller_attrs = true.
Proof. exact gen_caller_attrs_guarded. Qed.
Print Assumptions C13_persistent_attrs_guarded.

(* table fact used by the history theorem: every write-site body treats each possibly-caller-owned persistent
   name it mentions as caller-owned on entry, and at every exit AND every point where a raise may cut it no other
   persistent name may denote a caller-owned buffer *)
Theorem C13_persist_ok : forallb (persist_ok caller_names) write_bodies = true.
Proof. exact gen_persist_ok. Qed.
Print Assumptions C13_persist_ok.

(* CALL HISTORIES (mechanised; replaces the former ..._partial argument).  A history is any list of calls of
   checked bodies on one object: each call starts from a store whose persistent names (`self.*`) denote what the
   earlier calls left there and whose other names (arguments, locals) are arbitrary but declared in the entry
   taint; each call returns, breaks out, or is cut by a raise ANYWHERE, and the store at that point is what the
   next call finds.  By induction over the list: every write of the whole history goes to a library-allocated
   buffer and the persistent state stays safe; hence every caller-owned buffer is unchanged after any prefix of
   any history. *)
Theorem C13_history_invariant : forall (V : Type) (own : nat -> owner) P t P',
  pinv own caller_names P -> history V own write_bodies P t P' ->
  fresh_trace V own t /\ pinv own caller_names P'.
Proof. intros V own. exact (history_sound V own caller_names write_bodies gen_persist_ok). Qed.
Print Assumptions C13_history_invariant.

Theorem C13_history_preserves_caller_memory : forall (V : Type) (own : nat -> owner) P t P',
  pinv own caller_names P -> history V own write_bodies P t P' ->
  forall (h : heap V) k u, own u = User -> run V h (firstn k t) u = h u.
Proof. intros V own. exact (history_preserves_user V own caller_names write_bodies gen_persist_ok). Qed.
Print Assumptions C13_history_preserves_caller_memory.

(* the hypothesis on the initial state holds for a newly created object (nothing stored yet) *)
Example C13_history_start_nonvacuous : forall (own : nat -> owner), pinv own caller_names (fun _ _ => False).
Proof. intro own. exact (pinv_empty own caller_names). Qed.

(* CALLS BETWEEN REGISTERED METHODS (formerly a trusted assumption).  The translator turns a call of a registered method
   from another body (an optimizer calling its inner method, the decorator calling the decorated body) into "writes
   none of its arguments".  This is a consequence of the table, not an assumption: every registered body (all of
   them: the list has n_registered entries) is a write-site body whose entry taint contains EVERY one of its
   parameters, so whatever the caller passes may be caller-owned and still every execution of the callee, returning
   or raising, leaves all caller-owned buffers unchanged. *)
Theorem C13_registered_calls_write_nothing : forall e, In e registered_params ->
  exists b, In b write_bodies /\ b_name b = fst e
    /\ (forall p, In p (snd e) -> mem p (b_tainted b) = true)
    /\ forall (V : Type) (own : nat -> owner) st t o,
         covers own st (b_tainted b) -> exec V own (b_code b) st t o ->
         forall (h : heap V) k u, own u = User -> run V h (firstn k t) u = h u.
Proof. exact registered_call_safe. Qed.
Print Assumptions C13_registered_calls_write_nothing.

Theorem C13_registered_table_complete :
  forallb reg_entry_total registered_params = true /\ Nat.eqb (List.length registered_params) n_registered = true.
Proof. exact gen_registered_entry_total. Qed.
Print Assumptions C13_registered_table_complete.

(* ---- non-vacuity *)
Example C13_copy_flag_matters_nonvacuous : setup_w_may_alias false = true /\ setup_w_may_alias true = false.
Proof. split; [exact setup_w_may_alias_false | exact setup_w_may_alias_true]. Qed.
Example C13_checker_rejects_nonvacuous :
  body_ok {| b_name := "bad"; b_tainted := ["weights"%string];
             b_code := SSeq (SBind "w"%string (RSetupW false ["weights"%string])) (SWrite "w"%string 1) |} = false.
Proof. exact checker_rejects_write_through_param. Qed.
Example C13_bodies_nonvacuous : Nat.leb 90 n_registered = true.
Proof. exact gen_registered_count. Qed.
