(* Property C13 -- calls never modify the caller's arrays or dictionaries.
   Only the property theorems; each is closed by an exact lemma of C13/Proofs.v or C13/Table.v. *)
From Coq Require Import List Bool Arith String.
From PB Require Import C13.Model C13.Writes C13.Proofs gen.GenWrites C13.Table.
Import ListNotations.

(* ---- alias map: for ALL input/flag combinations (ndarray/list/None, dtype, contiguity, shape kind,
   1-D/2-D wrapper, skip_sorting, sort order present or not) the array a method body receives as `data`
   shares the caller's buffer exactly when the closed form says so ... *)
Theorem C13_alias_map_data : forall (two_d skip no_order : bool) (i : inp),
  aliases 0 (fst (wrapper_y two_d skip no_order (user_obj 0 i) first_fresh))
  = y_alias_formula two_d skip no_order i.
Proof. exact wrapper_y_alias. Qed.
Print Assumptions C13_alias_map_data.

(* ... and the weight array a _setup_* hands to the body (four setups, 1-D/2-D, ravel or not,
   copy_weights, sort order) shares the caller's weights exactly when the closed form says so *)
Theorem C13_alias_map : forall two_d rv k cw no_order i,
  aliases 0 (fst (setup_weights two_d rv k cw no_order (user_obj 0 i) first_fresh))
  = w_alias_formula two_d rv k cw no_order i.
Proof. exact setup_weights_alias. Qed.
Print Assumptions C13_alias_map.

(* every output is the caller's buffer itself or a buffer allocated during the call *)
Theorem C13_alias_map_owner : forall two_d rv k cw no_order i,
  let a := fst (setup_weights two_d rv k cw no_order (user_obj 0 i) first_fresh) in
  (a_buf a = 0 /\ a_own a = User /\ w_alias_formula two_d rv k cw no_order i = true)
  \/ (a_own a = Fresh /\ first_fresh <= a_buf a).
Proof. exact setup_weights_owner. Qed.
Print Assumptions C13_alias_map_owner.

(* copy_weights=True: never the caller's buffer, whatever the input looks like *)
Theorem C13_copy_weights_fresh : forall two_d rv k no_order i,
  let a := fst (setup_weights two_d rv k true no_order (user_obj 0 i) first_fresh) in
  a_own a = Fresh /\ first_fresh <= a_buf a.
Proof. exact copy_weights_fresh. Qed.
Print Assumptions C13_copy_weights_fresh.

(* the semantics the write-site language gives to a setup's weight output over-approximates the model *)
Theorem C13_setup_semantics_justified : forall two_d rv k cw no_order i,
  let a := fst (setup_weights two_d rv k cw no_order (user_obj 0 i) first_fresh) in
  a_own a = Fresh \/ (cw = false /\ a_buf a = 0).
Proof. exact setup_w_sem_justified. Qed.
Print Assumptions C13_setup_semantics_justified.

(* _setup_optimizer: method_kwargs.copy() is a new dict holding the caller's values; copy_kwargs=False is the caller's dict *)
Theorem C13_kwargs_copy : forall (d : pydict) n,
  let d' := fst (setup_kwargs true (Some d) n) in
  d_buf d' = n /\ d_own d' = Fresh /\ d_vals d' = d_vals d.
Proof. exact setup_kwargs_copy. Qed.
Print Assumptions C13_kwargs_copy.

(* ---- soundness of the checker, for arbitrary executions: any branch choices, any number of loop
   iterations, break/continue, a raise (or return) at ANY point; any owner map, any store consistent with
   the entry taint.  Every write goes to a Fresh buffer and the exit state is covered by the computed sets. *)
Theorem C13_checker_sound : forall (V : Type) (own : nat -> owner) s T N B C,
  analyse s T = Ok N B C ->
  forall st t o, covers own st T -> exec V own s st t o ->
    fresh_trace V own t /\ post own o N B C.
Proof. exact analyse_sound. Qed.
Print Assumptions C13_checker_sound.

(* induction over arbitrary write sequences: writes through fresh roots, cut after any prefix
   (a raise only truncates the sequence), leave every caller-owned buffer unchanged *)
Theorem C13_fresh_writes_preserve : forall (V : Type) (own : nat -> owner) (t : list (nat * V)) (h : heap V),
  fresh_trace V own t -> forall k u, own u = User -> run V h (firstn k t) u = h u.
Proof. exact fresh_writes_preserve_user. Qed.
Print Assumptions C13_fresh_writes_preserve.

(* ---- the table generated from the current source passes the checker ... *)
Theorem C13_writes_ok : writes_ok bodies = true.
Proof. exact gen_writes_ok. Qed.
Print Assumptions C13_writes_ok.

(* ... hence, for every analysed body (registered method bodies, helpers with their claimed write/return
   summaries), every execution, returning or raising, leaves all caller-owned buffers bit-for-bit unchanged *)
Theorem C13_writes_safe : forall b, In b bodies ->
  forall (V : Type) (own : nat -> owner) st t o, covers own st (b_tainted b) -> exec V own (b_code b) st t o ->
    forall (h : heap V) k u, own u = User -> run V h (firstn k t) u = h u.
Proof. intros b Hin V own. exact (writes_ok_sound V own bodies gen_writes_ok b Hin). Qed.
Print Assumptions C13_writes_safe.

(* ---- non-vacuity *)
Example C13_copy_flag_matters_nonvacuous : setup_w_may_alias false = true /\ setup_w_may_alias true = false.
Proof. split; [exact setup_w_may_alias_false | exact setup_w_may_alias_true]. Qed.
Example C13_checker_rejects_nonvacuous :
  body_ok {| b_name := "bad"; b_tainted := ["weights"%string];
             b_code := SSeq (SBind "w"%string (RSetupW false ["weights"%string])) (SWrite "w"%string 1) |} = false.
Proof. exact checker_rejects_write_through_param. Qed.
Example C13_bodies_nonvacuous : Nat.leb 90 n_registered = true.
Proof. exact gen_registered_count. Qed.
