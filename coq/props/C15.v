(* Property C15 -- invalid inputs are rejected with ValueError/TypeError, never silently used.
   Only the property theorems; each is closed by an exact lemma of C15/Proofs.v. *)
From Coq Require Import ZArith QArith List Bool String.
From PB Require Import C15.Model C15.Routing C15.Proofs gen.GenRouting.
Import ListNotations.
Open Scope Z_scope.

(* `if not 0 <[=] p <[=] 1: raise` accepts EXACTLY scalars / one-element arrays inside the interval,
   for every value (ints, floats, nan, inf, bools, arrays, lists, strings, None). *)
Theorem C15_range01_iff : forall (ls hs : bool) (v : value),
  run_guard (GRange01 ls hs) v = None <->
  exists s, (v = Sc s \/ v = Arr [s]) /\
            (if ls then lt_sc (zc 0) s else le_sc (zc 0) s) = true /\
            (if hs then lt_sc s (zc 1) else le_sc s (zc 1)) = true.
Proof. exact range01_iff. Qed.
Print Assumptions C15_range01_iff.

Theorem C15_range01_rejects_nan : forall ls hs : bool, run_guard (GRange01 ls hs) (Sc NaN) = Some VErr.
Proof. exact range01_rejects_nan. Qed.
Print Assumptions C15_range01_rejects_nan.

(* ... whereas the `p < 0 or p > 1` style would let NaN through *)
Theorem C15_or_style_accepts_nan_example : or_style_guard (Sc NaN) = None.
Proof. exact or_style_accepts_nan. Qed.

(* `if v < c: raise` (diff_order < 1, num_knots < 2, spline_degree < 0) *)
Theorem C15_lt_guard_iff : forall (c : Z) (v : value),
  run_guard (GLt c) v = None <->
  v = Arr [] \/ exists s, (v = Sc s \/ v = Arr [s]) /\ lt_sc s (zc c) = false.
Proof. exact glt_iff. Qed.
Print Assumptions C15_lt_guard_iff.

(* _check_lam (1-D) *)
Theorem C15_check_lam_iff : forall v : value,
  run_guard (GCSV false false DtFloat) v = None <->
  v = NoneV \/ exists s, scalar_like v s /\ cast DtFloat s <> Raise OErr /\ le_sc s (zc 0) = false.
Proof. exact check_lam_iff. Qed.
Print Assumptions C15_check_lam_iff.

(* _check_half_window (1-D): a positive integer (int, integral float, bool, one-element array) *)
Theorem C15_half_window_1d_iff : forall v : value,
  run_guard (GHalfWindow false false) v = None <->
  exists s z, scalar_like v s /\ cast DtInt s = Ok (Int z) /\ 1 <= z /\ eq_sc (Int z) s = true.
Proof. exact half_window_1d_iff. Qed.
Print Assumptions C15_half_window_1d_iff.

(* _check_scalar_variable(allow_zero=True, dtype=int) (poly_order) *)
Theorem C15_poly_order_iff : forall v : value,
  run_guard (GCSV true false DtInt) v = None <->
  exists s z, scalar_like v s /\ cast DtInt s = Ok (Int z) /\ 0 <= z.
Proof. exact csv_int_allow_zero_iff. Qed.
Print Assumptions C15_poly_order_iff.

(* the scalar validators accept nothing but None / scalar-like values in 1-D *)
Theorem C15_scalar_validators_reject_arrays : forall (az : bool) (d : dt) (v : value),
  of_res (check_scalar_variable az false d v) = None -> v = NoneV \/ exists s, scalar_like v s.
Proof. exact csv_accepts_scalar_like. Qed.
Print Assumptions C15_scalar_validators_reject_arrays.

Theorem C15_banded_solver_iff : forall (v : value) (s : sc),
  banded_solver_set v = Ok s <->
  v = Sc s /\ (forall b, s <> Bl b) /\ existsb (fun k => eq_sc s (Int k)) [1; 2; 3; 4] = true.
Proof. exact banded_solver_iff. Qed.
Print Assumptions C15_banded_solver_iff.

Theorem C15_sized_array : forall (cf fin e1 : bool) (shape s : list Z) (len : Z),
  check_sized_array cf fin e1 shape len = Ok s -> (cf = true -> fin = true) /\ last s 0 = len.
Proof. exact sized_array_ok. Qed.
Print Assumptions C15_sized_array.

(* regular values never make a guard raise anything but ValueError / TypeError *)
Theorem C15_no_other_exception : forall (g : guard) (v : value),
  regular v = true -> run_guard g v <> Some OErr.
Proof. exact harmless. Qed.
Print Assumptions C15_no_other_exception.

(* ROUTING.  For ANY table that passes the reflective check: every entry inside the claim, every value
   the statement lists as outside the documented domain (must_reject; any z, q, list), is rejected with
   ValueError/TypeError by the guards reached BEFORE the first other use of the parameter.
   PARTIAL with respect to the statement: hypothesis `regular` (no empty array, no +-inf / |x| >= 2^63,
   see C15_int_cast_overflow_refuted), 2-D half windows only up to truncation
   (C15_half_window_2d_refuted), optimizers' forwarded parameters and classification half windows are
   outside the table (expected = None). *)
Theorem C15_routing_partial : forall t : list entry,
  routing_ok t = true ->
  forall e d, In e t -> expected e = Some d ->
  forall v, regular v = true -> must_reject d (e_two_d e) v = true ->
    is_vt (run_chain (before_use (e_chain e)) v) = true.
Proof. exact routing_sound. Qed.
Print Assumptions C15_routing_partial.

(* the table generated from the CURRENT source passes the check, and is not degenerate *)
Theorem C15_routing_checked : routing_ok routing = true.
Proof. vm_compute. reflexivity. Qed.
Print Assumptions C15_routing_checked.

Theorem C15_routing_size :
  (150 <=? Z.of_nat (List.length (filter (fun e => match expected e with Some _ => true | None => false end) routing))) = true
  /\ (55 <=? n_methods_1d) = true /\ (30 <=? n_methods_2d) = true.
Proof. vm_compute. repeat split. Qed.
Print Assumptions C15_routing_size.

Example C15_routing_hypotheses_nonvacuous :
  regular (Sc (Int 0)) = true /\ must_reject DPos false (Sc (Int 0)) = true.
Proof. exact regular_bad_value. Qed.

(* what the unchanged code does NOT reject (witnesses on the model; replayed on the implementation) *)
Theorem C15_half_window_2d_refuted :
  exists v, must_reject DHw true v = true /\ regular v = true /\ run_guard (GHalfWindow false true) v = None.
Proof. exact half_window_2d_noninteger_accepted. Qed.
Print Assumptions C15_half_window_2d_refuted.

Theorem C15_int_cast_overflow_refuted :
  exists v, must_reject (DGe 0) false v = true /\ run_guard (GCSV true false DtInt) v = Some OErr.
Proof. exact int_cast_overflow. Qed.
Print Assumptions C15_int_cast_overflow_refuted.

Theorem C15_negative_fraction_refuted :
  exists v, regular v = true /\ lt_sc (Frac (-1 # 2)) (zc 0) = true /\ v = Sc (Frac (-1 # 2)) /\
            run_guard (GCSV true false DtInt) v = None.
Proof. exact negative_fraction_truncated. Qed.
Print Assumptions C15_negative_fraction_refuted.
