(* Property C15 -- invalid inputs are rejected with ValueError/TypeError, never silently used.
   Only the property theorems; each is closed by an exact lemma of C15/Proofs.v. *)
From Coq Require Import ZArith QArith List Bool String.
From PB Require Import C15.Model C15.Routing C15.Proofs C15.Lam2D gen.GenRouting.
Import ListNotations.
Open Scope Z_scope.

(* `if not 0 <[=] p <[=] 1: raise` accepts EXACTLY scalars / one-element arrays inside the interval,
   for every value (ints, floats, nan, inf, bools, arrays, lists, strings, None). *)
Theorem C15_range01_iff : forall (ls hs : bool) (v : value),
  run_guard (GRange01 ls hs) v = None <->
  exists s, (v = Sc s \/ v = Arr [s]) /\
            (if ls then lt_sc (zc 0) s else le_sc (zc 0) s) = true /\
            (if hs then lt_sc s (zc 1) else le_sc s (zc 1)) = true.
Proof. exact range01_iff. Qed.
Print Assumptions C15_range01_iff.

Theorem C15_range01_rejects_nan : forall ls hs : bool, run_guard (GRange01 ls hs) (Sc NaN) = Some VErr.
Proof. exact range01_rejects_nan. Qed.
Print Assumptions C15_range01_rejects_nan.

(* ... whereas the `p < 0 or p > 1` style would let NaN through *)
Theorem C15_or_style_accepts_nan_example : or_style_guard (Sc NaN) = None.
Proof. exact or_style_accepts_nan. Qed.

(* `if v < c: raise` (diff_order < 1, num_knots < 2, spline_degree < 0) *)
Theorem C15_lt_guard_iff : forall (c : Z) (v : value),
  run_guard (GLt c) v = None <->
  v = Arr [] \/ exists s, (v = Sc s \/ v = Arr [s]) /\ lt_sc s (zc c) = false.
Proof. exact glt_iff. Qed.
Print Assumptions C15_lt_guard_iff.

(* _check_lam (1-D) *)
Theorem C15_check_lam_iff : forall v : value,
  run_guard (GCSV false false DtFloat) v = None <->
  v = NoneV \/ exists s, scalar_like v s /\ cast DtFloat s <> Raise OErr /\ le_sc s (zc 0) = false.
Proof. exact check_lam_iff. Qed.
Print Assumptions C15_check_lam_iff.

(* _check_lam for the 2-D fitters: the exact accept set for EVERY value -- None, a scalar-like value, or a
   PAIR (array or list of exactly two), every entry representable and not <= 0 (nan entries pass);
   anything else (other lengths, strings, one bad entry in either position) is rejected. *)
Theorem C15_check_lam_2d_iff : forall v : value,
  run_guard (GCSV false true DtFloat) v = None <->
  v = NoneV \/ (exists s, scalar_like v s /\ lam_entry_ok s)
  \/ (exists a b, (v = Arr [a; b] \/ v = Lst [a; b]) /\ lam_entry_ok a /\ lam_entry_ok b).
Proof. exact check_lam_2d_iff. Qed.
Print Assumptions C15_check_lam_2d_iff.

(* _check_half_window (1-D): a positive integer (int, integral float, bool, one-element array) *)
Theorem C15_half_window_1d_iff : forall v : value,
  run_guard (GHalfWindow false false) v = None <->
  exists s z, scalar_like v s /\ cast DtInt s = Ok (Int z) /\ 1 <= z /\ eq_sc (Int z) s = true.
Proof. exact half_window_1d_iff. Qed.
Print Assumptions C15_half_window_1d_iff.

(* _check_half_window, 1-D and 2-D (pairs): whatever is accepted is a positive integer (pair) *)
Theorem C15_half_window_accepts_only_valid : forall (az td : bool) (v : value),
  regular v = true -> run_guard (GHalfWindow az td) v = None -> must_reject (DHw az) td v = false.
Proof. exact half_window_accepts_only_valid. Qed.
Print Assumptions C15_half_window_accepts_only_valid.

(* _check_scalar_variable(allow_zero=True, dtype=int) (poly_order): castable and NOT negative -- the
   float pre-check rejects the fractions in (-1, 0) that the integer cast would truncate to 0 *)
Theorem C15_poly_order_iff : forall v : value,
  run_guard (GCSV true false DtInt) v = None <->
  exists s z, scalar_like v s /\ cast DtInt s = Ok (Int z) /\ lt_sc s (zc 0) = false.
Proof. exact csv_int_allow_zero_iff. Qed.
Print Assumptions C15_poly_order_iff.

(* integer parameters: +-inf is a ValueError (np.isinf test before the cast) *)
Theorem C15_int_param_inf_is_value_error : forall (az td : bool) (s : sc),
  is_inf s = true -> run_guard (GCSV az td DtInt) (Sc s) = Some VErr.
Proof. exact int_param_inf_is_value_error. Qed.
Print Assumptions C15_int_param_inf_is_value_error.

(* the scalar validators accept nothing but None / scalar-like values in 1-D *)
Theorem C15_scalar_validators_reject_arrays : forall (az : bool) (d : dt) (v : value),
  of_res (check_scalar_variable az false d v) = None -> v = NoneV \/ exists s, scalar_like v s.
Proof. exact csv_accepts_scalar_like. Qed.
Print Assumptions C15_scalar_validators_reject_arrays.

Theorem C15_banded_solver_iff : forall (v : value) (s : sc),
  banded_solver_set v = Ok s <->
  v = Sc s /\ (forall b, s <> Bl b) /\ existsb (fun k => eq_sc s (Int k)) [1; 2; 3; 4] = true.
Proof. exact banded_solver_iff. Qed.
Print Assumptions C15_banded_solver_iff.

Theorem C15_sized_array : forall (cf fin e1 : bool) (shape s : list Z) (len : Z),
  check_sized_array cf fin e1 shape len = Ok s -> (cf = true -> fin = true) /\ last s 0 = len.
Proof. exact sized_array_ok. Qed.
Print Assumptions C15_sized_array.

(* regular values never make a guard raise anything but ValueError / TypeError *)
Theorem C15_no_other_exception : forall (g : guard) (v : value),
  regular v = true -> run_guard g v <> Some OErr.
Proof. exact harmless. Qed.
Print Assumptions C15_no_other_exception.

(* ROUTING.  For ANY table that passes the reflective check: every entry inside the claim, every value
   the statement lists as outside the documented domain (must_reject: lam <= 0, p/quantile outside (0,1),
   eta outside [0,1], diff_order < 1, poly_order < 0, num_knots < 2, spline_degree < 0 -- strict
   comparisons on the value itself, fractions and +-inf included --, nan / non-positive / non-integer
   half windows in 1-D and 2-D, wrong-length arrays; any z, q, list), is rejected with
   ValueError/TypeError by the guards reached BEFORE the first other use of the parameter.
   PARTIAL with respect to the statement only because: hypothesis `regular` (no empty array; finite
   elements below 2^63 in magnitude -- larger finite values are inside the documented domains anyway,
   see C15_huge_finite_overflow_example), and the optimizers' forwarded parameters and the half windows
   of non-morphological/smoothing methods are outside the table (expected = None). *)
Theorem C15_routing_partial : forall t : list entry,
  routing_ok t = true ->
  forall e d, In e t -> expected e = Some d ->
  forall v, regular v = true -> must_reject d (pair_of e) v = true ->
    is_vt (run_chain (before_use (e_chain e)) v) = true.
Proof. exact routing_sound. Qed.
Print Assumptions C15_routing_partial.

(* the table generated from the CURRENT source passes the check, and is not degenerate *)
Theorem C15_routing_checked : routing_ok routing = true.
Proof. vm_compute. reflexivity. Qed.
Print Assumptions C15_routing_checked.

Theorem C15_routing_size :
  (150 <=? Z.of_nat (List.length (filter (fun e => match expected e with Some _ => true | None => false end) routing))) = true
  /\ (55 <=? n_methods_1d) = true /\ (30 <=? n_methods_2d) = true.
Proof. vm_compute. repeat split. Qed.
Print Assumptions C15_routing_size.

(* PER-POINT ARRAYS.  In every function that validates a per-point argument (weights, alpha) the call of
   _check_optional_array / _check_sized_array is the first event of that argument: nothing subscripts,
   fancy-indexes (sort order!) or converts it before its length and finiteness are checked; the eight
   _setup_* families, adaptive_minmax and the aspls methods do validate theirs; and the keyword arrays
   that optimize_extended_range forwards (method_kws['weights'/'alpha']) are only ever extended by
   np.pad(..., 'constant'), directly or after a _check_optional_array length validation -- never the source
   of a (broadcasting) store -- before the inner method validates their length. *)
Theorem C15_array_validation_first : forall t : list aentry,
  array_routing_ok t = true ->
  (forall e, In e t -> a_arg e <> forwarded_arg -> exists rest, a_events e = AValidate :: rest) /\
  (forall e, In e t -> a_arg e = forwarded_arg ->
     a_events e <> [] /\ forall a, In a (a_events e) -> a = APad \/ a = AValidate) /\
  (forall r, In r required_arrays -> exists e, In e t /\ amatches r e = true).
Proof. exact array_routing_sound. Qed.
Print Assumptions C15_array_validation_first.

Theorem C15_array_routing_checked : array_routing_ok array_routing = true.
Proof. vm_compute. reflexivity. Qed.
Print Assumptions C15_array_routing_checked.

(* CHECK_FINITE FORWARDING.  Every validation call site of the wrappers (_register.inner, 1-D and 2-D, both
   the branch for objects with x-values and the one without), the constructors, the _setup_* methods and
   the registered methods passes check_finite=self._check_finite on (fail-closed: a call without it, or
   an inlined replacement, fails the check).  The only exception is a PRE-validation of a keyword array
   (method_kws[key] in optimize_extended_range): it is handed on to the inner registered method, whose own
   validation sees it again with the fitter's flag (np.pad keeps non-finite values; covered by the oracle). *)
Theorem C15_check_finite_forwarded : forall t : list centry,
  finite_routing_ok t = true ->
  (forall e, In e t -> c_forwarded e = true \/ c_prevalidation e = true) /\
  (forall td fn n, In (td, fn, n) finite_required -> (n <= count_sites td fn t)%nat).
Proof. exact finite_routing_sound. Qed.
Print Assumptions C15_check_finite_forwarded.

Theorem C15_finite_routing_checked : finite_routing_ok finite_routing = true.
Proof. vm_compute. reflexivity. Qed.
Print Assumptions C15_finite_routing_checked.

(* HALF-WINDOW SITES.  The list of _check_half_window call sites generated from the source, WITH the
   allow_zero / two_d flags each one passes, equals the pinned documented contract (positive vs
   non-negative window; scalar vs two-item form such as snip's (left, right) max_half_window). *)
Theorem C15_hw_sites_pinned : forall t : list hwsite, hw_sites_ok t = true -> t = hw_sites_expected.
Proof. exact hw_sites_sound. Qed.
Print Assumptions C15_hw_sites_pinned.

Theorem C15_hw_sites_checked : hw_sites_ok hw_sites = true.
Proof. vm_compute. reflexivity. Qed.
Print Assumptions C15_hw_sites_checked.

(* in a pair every entry must be valid: one zero entry is enough for must_reject (non-vacuity of the pair claim) *)
Example C15_pair_one_zero_nonvacuous :
  must_reject (DHw false) true (Lst [Int 10; Int 0]) = true /\ regular (Lst [Int 10; Int 0]) = true /\
  run_guard (GHalfWindow false true) (Lst [Int 10; Int 0]) = Some VErr /\
  run_guard (GHalfWindow true true) (Lst [Int 10; Int 0]) = None.
Proof. vm_compute. repeat split. Qed.

(* CONFIGURATION WRITES.  The table of every store / delete / setattr of a fitter configuration attribute
   (on any receiver) generated from the source has NO entry outside the constructors, the documented
   setters and the helpers that configure a freshly built object: no fitting method switches
   check_finite, the output dtype, the sort order or the solver of an object that outlives the call. *)
Theorem C15_cfg_writes_none_outside : forall t : list cfgwrite,
  cfg_writes_ok t = true -> cfg_violations t = [] /\ forall w, In w t -> cfg_allowed w = true.
Proof. exact cfg_writes_sound. Qed.
Print Assumptions C15_cfg_writes_none_outside.

Theorem C15_cfg_writes_checked : cfg_writes_ok cfg_writes = true.
Proof. vm_compute. reflexivity. Qed.
Print Assumptions C15_cfg_writes_checked.

Example C15_routing_hypotheses_nonvacuous :
  regular (Sc (Int 0)) = true /\ must_reject DPos false (Sc (Int 0)) = true.
Proof. exact regular_bad_value. Qed.

Example C15_routing_hypotheses_inf_nonvacuous :
  regular (Sc NegInf) = true /\ must_reject (DGe 0) false (Sc NegInf) = true.
Proof. exact regular_bad_inf. Qed.

(* documented remainder: a finite value >= 2^63 (inside the domains) still overflows the integer cast *)
Theorem C15_huge_finite_overflow_example : run_guard (GCSV true false DtInt) (Sc (Int (2 ^ 63))) = Some OErr.
Proof. exact huge_finite_overflow. Qed.

(* the witnesses of the three repaired defects are rejected by the current code *)
Theorem C15_former_witnesses_rejected :
  run_guard (GHalfWindow false true) (Sc (Frac (5 # 2))) = Some TErr /\
  run_guard (GCSV true false DtInt) (Sc NegInf) = Some VErr /\
  run_guard (GCSV true false DtInt) (Sc (Frac (-1 # 2))) = Some VErr.
Proof. exact former_witnesses_rejected. Qed.
Print Assumptions C15_former_witnesses_rejected.
