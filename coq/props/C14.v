(* Property C14 -- morphological and hull baselines never exceed the data and commute with shifts.
   Statements are about the executable model coq/C14/Model.v (tied to /repo on every run by the
   correspondence harness and by the generated filter table gen/GenSnip.v). *)
From Coq Require Import ZArith List Bool.
From Coq Require Import QArith Qcanon.
From PB Require Import lib.PySlice C14.Model C14.Proofs C14.Reflect C14.Methods C14.Inst C14.Shift C14.Grid C14.Rubber
  C14.SnipTable gen.GenSnip.
Import ListNotations.
Open Scope Z_scope.

(* tophat: grey_opening with window 2h+1 and SciPy's reflect boundary never exceeds the data -- every
   length, every half window (also 2h+1 > length), every total order *)
Theorem C14_opening_le : forall (A : Type) (le : A -> A -> bool), total le -> transitive le ->
  forall (h : Z) (y : list A), Forall2 (fun b v => le b v = true) (opening_l le h y) y.
Proof. exact opening_l_le. Qed.
Print Assumptions C14_opening_le.

(* "applying tophat to its own output changes nothing" (same explicit half window) *)
Theorem C14_opening_idem : forall (A : Type) (le : A -> A -> bool), total le -> transitive le -> antisym le ->
  forall (h : Z) (y : list A), opening_l le h (opening_l le h y) = opening_l le h y.
Proof. intros A le Ht Htr Ha h y. apply opening_l_idem; auto. Qed.
Print Assumptions C14_opening_idem.

(* opening commutes with EVERY monotone map (x |-> fl(x + c) is one): shift equivariance of tophat
   does not depend on arithmetic at all *)
Theorem C14_monotone_commute : forall (A B : Type) (leA : A -> A -> bool) (leB : B -> B -> bool),
  total leA -> transitive leA -> total leB -> transitive leB -> antisym leB ->
  forall phi : A -> B, (forall a b, leA a b = true -> leB (phi a) (phi b) = true) ->
  forall (h : Z) (y : list A), opening_l leB h (map phi y) = map phi (opening_l leA h y).
Proof. exact opening_l_commute. Qed.
Print Assumptions C14_monotone_commute.

(* the opening only ever returns data values (so it introduces no rounding in floats) *)
Theorem C14_opening_values : forall (A : Type) (le : A -> A -> bool), total le -> transitive le ->
  forall (h : Z) (y : list A), Forall (fun b => In b y) (opening_l le h y).
Proof. intros A le _ _. apply opening_l_sel. Qed.
Print Assumptions C14_opening_values.

(* mor <= opening <= y and imor <= y after any number of passes, whatever the exit test does and
   whatever the scalar arithmetic does (only the order is used) *)
Theorem C14_mor_le : forall N : Num, total (leb N) -> transitive (leb N) ->
  forall (h : Z) (y : list (T N)),
  Forall2 (fun b v => leb N b v = true) (mor N h y) (opening_l (leb N) h y) /\
  Forall2 (fun b v => leb N b v = true) (mor N h y) y.
Proof. intros N Ht Htr h y. split; [apply mor_le_opening|apply mor_le]; auto. Qed.
Print Assumptions C14_mor_le.

Theorem C14_imor_le : forall N : Num, total (leb N) -> transitive (leb N) ->
  forall (stop : nat -> list (T N) -> list (T N) -> bool) (h : Z) (max_iter : nat) (y : list (T N)),
  Forall2 (fun b v => leb N b v = true) (imor N stop h max_iter y) y.
Proof. intros N Ht Htr stop h k y. apply imor_le; auto. Qed.
Print Assumptions C14_imor_le.

(* snip WITHOUT smoothing (smooth_half_window None or 0) never exceeds the data: any filter table, any
   filter order, both iteration directions, asymmetric half windows, any padding values.
   NOT claimed: snip with smooth_half_window > 0 (the smoothed previous baseline may exceed the data). *)
Theorem C14_snip_le : forall N : Num, total (leb N) -> transitive (leb N) ->
  (forall a b, ltb N a b = true -> leb N a b = true) ->
  forall (table : list filt) (order : Z) (decreasing : bool) (hwl hwr : Z) (left y right : list (T N)),
  let n := lenZ y in
  let m := Z.max (snip_hw n hwl) (snip_hw n hwr) in
  0 < m -> lenZ left = m -> lenZ right = m ->
  Forall2 (fun b v => leb N b v = true) (snip N table order decreasing n hwl hwr (left ++ y ++ right)) y.
Proof. intros N Ht Htr Hlt. apply snip_le; auto. Qed.
Print Assumptions C14_snip_le.

(* ---- 2-D (Baseline2D.tophat / mor / imor pass): rectangular window (2hr+1) x (2hc+1), row-major grids ---- *)
Theorem C14_opening2d_le : forall (A : Type) (le : A -> A -> bool), total le -> transitive le ->
  forall (nr nc hr hc : Z) (y : list A), 0 < nr -> 0 < nc -> lenZ y = nr * nc ->
  Forall2 (fun b v => le b v = true) (opening_g le nr nc hr hc y) y.
Proof. intros A le Ht Htr nr nc hr hc y Hr Hc Hl. apply opening_g_le; auto. Qed.
Print Assumptions C14_opening2d_le.

Theorem C14_opening2d_idem : forall (A : Type) (le : A -> A -> bool), total le -> transitive le -> antisym le ->
  forall (nr nc hr hc : Z) (y : list A), 0 < nr -> 0 < nc -> lenZ y = nr * nc ->
  opening_g le nr nc hr hc (opening_g le nr nc hr hc y) = opening_g le nr nc hr hc y.
Proof. intros A le Ht Htr Ha nr nc hr hc y Hr Hc Hl. apply opening_g_idem; auto. Qed.
Print Assumptions C14_opening2d_idem.

Theorem C14_mor2d_imor2d_le : forall N : Num, total (leb N) -> transitive (leb N) ->
  forall (nr nc hr hc : Z) (y b : list (T N)), 0 < nr -> 0 < nc -> lenZ y = nr * nc -> lenZ b = nr * nc ->
  Forall2 (fun u v => leb N u v = true) (mor2 N nr nc hr hc y) y /\
  Forall2 (fun u v => leb N u v = true) (imor_step2 N nr nc hr hc y b) y.
Proof. intros N Ht Htr nr nc hr hc y b Hr Hc Hl Hb. split.
  - apply (mor2_le N Ht Htr nr nc hr hc Hr Hc y Hl).
  - apply imor_step2_le; auto. Qed.
Print Assumptions C14_mor2d_imor2d_le.

(* ---- shift equivariance over exact rationals ---- *)
(* the four filters AS CODED (table generated from smooth.py on every run): 2 * (sum of coefficients) = divisor *)
Theorem C14_snip_weights : Forall filt_unit snip_table /\ length snip_table = 4%nat.
Proof. split; [exact snip_table_unit|exact snip_table_orders]. Qed.
Print Assumptions C14_snip_weights.

Theorem C14_snip_shift : forall (c : Qc) (order : Z) (decreasing : bool) (n hwl hwr : Z) (padded : list Qc),
  snip Num_Qc snip_table order decreasing n hwl hwr (map (sh c) padded) =
  map (sh c) (snip Num_Qc snip_table order decreasing n hwl hwr padded).
Proof. intros. apply snip_shift. exact snip_table_unit. Qed.
Print Assumptions C14_snip_shift.

Theorem C14_mor_shift : forall (c : Qc) (h : Z) (y : list Qc),
  mor Num_Qc h (map (sh c) y) = map (sh c) (mor Num_Qc h y) /\
  tophat Num_Qc h (map (sh c) y) = map (sh c) (tophat Num_Qc h y).
Proof. intros. split; [apply mor_shift|apply tophat_shift]. Qed.
Print Assumptions C14_mor_shift.

(* ---- rubberband: the kept vertices are the cyclic sub-path from the position of the smallest index to the
   position of the largest one.  PARTIAL: that this path is the LOWER hull (convex, below the data) needs the
   hypothesis that qhull lists 2-D hull vertices counter-clockwise; it is not a theorem here (oracle + exact
   rational hull in the harness).  Full statement: rubberband(y) = linear interpolation of the lower convex
   hull of (x, y). *)
Theorem C14_rubberband_rotation_partial : forall v : list Z, v <> [] ->
  let n := lenZ v in let mn := argmin v in let mx := argmax v in
  0 <= mn < n /\ 0 <= mx < n /\
  (forall x, In x v -> nthZ 0 v mn <= x <= nthZ 0 v mx) /\
  rb_select v = firstn (Z.to_nat ((mx - mn) mod n + 1)) (rotate mn v).
Proof. intros v Hv. cbv zeta. split; [apply argmin_range; auto|]. split; [apply argmax_range; auto|].
  split; [intros x Hx; split; [apply argmin_spec|apply argmax_spec]; auto|].
  apply rb_select_rotation; auto. Qed.
Print Assumptions C14_rubberband_rotation_partial.

Example C14_rubberband_example :
  rb_select [4; 2; 0; 1; 5; 6] = [0; 1; 5; 6] /\ rb_select [1; 5; 6; 4; 2; 0] = [0; 1; 5; 6].
Proof. split; reflexivity. Qed.

Example C14_orders_nonvacuous :
  (total Z.leb /\ transitive Z.leb /\ antisym Z.leb) /\
  (total (leb Num_Qc) /\ transitive (leb Num_Qc) /\ antisym (leb Num_Qc) /\
   (forall a b, ltb Num_Qc a b = true -> leb Num_Qc a b = true)).
Proof. repeat split; [apply Zle_total|apply Zle_trans|apply Zle_antisym|apply Qcle_total|apply Qcle_trans'|apply Qcle_antisym'|apply Qclt_le']. Qed.
