(* Property C14 -- morphological and hull baselines never exceed the data and commute with shifts.
   Statements are about the executable model coq/C14/Model.v (tied to /repo on every run by the
   correspondence harness and by the generated filter table gen/GenSnip.v). *)
From Coq Require Import ZArith List Bool.
From Coq Require Import QArith Qcanon Qround.
From PB Require Import lib.PySlice lib.Arr C14.Model C14.Proofs C14.Reflect C14.Methods C14.Inst C14.Shift C14.Shift2 C14.Grid C14.Rubber C14.Hull C14.Affine C14.Cast C14.CastRange
  C14.SnipTable gen.GenSnip gen.GenRubber.
Import ListNotations.
Open Scope Z_scope.

(* tophat: grey_opening with window 2h+1 and SciPy's reflect boundary never exceeds the data -- every
   length, every half window (also 2h+1 > length), every total order *)
Theorem C14_opening_le : forall (A : Type) (le : A -> A -> bool), total le -> transitive le ->
  forall (h : Z) (y : list A), Forall2 (fun b v => le b v = true) (opening_l le h y) y.
Proof. exact opening_l_le. Qed.
Print Assumptions C14_opening_le.

(* "applying tophat to its own output changes nothing" (same explicit half window) *)
Theorem C14_opening_idem : forall (A : Type) (le : A -> A -> bool), total le -> transitive le -> antisym le ->
  forall (h : Z) (y : list A), opening_l le h (opening_l le h y) = opening_l le h y.
Proof. intros A le Ht Htr Ha h y. apply opening_l_idem; auto. Qed.
Print Assumptions C14_opening_idem.

(* opening commutes with EVERY monotone map (x |-> fl(x + c) is one): shift equivariance of tophat
   does not depend on arithmetic at all *)
Theorem C14_monotone_commute : forall (A B : Type) (leA : A -> A -> bool) (leB : B -> B -> bool),
  total leA -> transitive leA -> total leB -> transitive leB -> antisym leB ->
  forall phi : A -> B, (forall a b, leA a b = true -> leB (phi a) (phi b) = true) ->
  forall (h : Z) (y : list A), opening_l leB h (map phi y) = map phi (opening_l leA h y).
Proof. exact opening_l_commute. Qed.
Print Assumptions C14_monotone_commute.

(* the opening only ever returns data values (so it introduces no rounding in floats) *)
Theorem C14_opening_values : forall (A : Type) (le : A -> A -> bool), total le -> transitive le ->
  forall (h : Z) (y : list A), Forall (fun b => In b y) (opening_l le h y).
Proof. intros A le _ _. apply opening_l_sel. Qed.
Print Assumptions C14_opening_values.

(* mor <= opening <= y and imor <= y after any number of passes, whatever the exit test does and
   whatever the scalar arithmetic does (only the order is used) *)
Theorem C14_mor_le : forall N : Num, total (leb N) -> transitive (leb N) ->
  forall (h : Z) (y : list (T N)),
  Forall2 (fun b v => leb N b v = true) (mor N h y) (opening_l (leb N) h y) /\
  Forall2 (fun b v => leb N b v = true) (mor N h y) y.
Proof. intros N Ht Htr h y. split; [apply mor_le_opening|apply mor_le]; auto. Qed.
Print Assumptions C14_mor_le.

Theorem C14_imor_le : forall N : Num, total (leb N) -> transitive (leb N) ->
  forall (stop : nat -> list (T N) -> list (T N) -> bool) (h : Z) (max_iter : nat) (y : list (T N)),
  Forall2 (fun b v => leb N b v = true) (imor N stop h max_iter y) y.
Proof. intros N Ht Htr stop h k y. apply imor_le; auto. Qed.
Print Assumptions C14_imor_le.

(* snip WITHOUT smoothing (smooth_half_window None or 0) never exceeds the data: any filter table, any
   filter order, both iteration directions, asymmetric half windows, any padding values.
   NOT claimed: snip with smooth_half_window > 0 (the smoothed previous baseline may exceed the data). *)
Theorem C14_snip_le : forall N : Num, total (leb N) -> transitive (leb N) ->
  (forall a b, ltb N a b = true -> leb N a b = true) ->
  forall (table : list filt) (order : Z) (decreasing : bool) (hwl hwr : Z) (left y right : list (T N)),
  let n := lenZ y in
  let m := Z.max (snip_hw n hwl) (snip_hw n hwr) in
  0 < m -> lenZ left = m -> lenZ right = m ->
  Forall2 (fun b v => leb N b v = true) (snip N table order decreasing n hwl hwr (left ++ y ++ right)) y.
Proof. intros N Ht Htr Hlt. apply snip_le; auto. Qed.
Print Assumptions C14_snip_le.

(* ---- 2-D (Baseline2D.tophat / mor / imor pass): rectangular window (2hr+1) x (2hc+1), row-major grids ---- *)
Theorem C14_opening2d_le : forall (A : Type) (le : A -> A -> bool), total le -> transitive le ->
  forall (nr nc hr hc : Z) (y : list A), 0 < nr -> 0 < nc -> lenZ y = nr * nc ->
  Forall2 (fun b v => le b v = true) (opening_g le nr nc hr hc y) y.
Proof. intros A le Ht Htr nr nc hr hc y Hr Hc Hl. apply opening_g_le; auto. Qed.
Print Assumptions C14_opening2d_le.

Theorem C14_opening2d_idem : forall (A : Type) (le : A -> A -> bool), total le -> transitive le -> antisym le ->
  forall (nr nc hr hc : Z) (y : list A), 0 < nr -> 0 < nc -> lenZ y = nr * nc ->
  opening_g le nr nc hr hc (opening_g le nr nc hr hc y) = opening_g le nr nc hr hc y.
Proof. intros A le Ht Htr Ha nr nc hr hc y Hr Hc Hl. apply opening_g_idem; auto. Qed.
Print Assumptions C14_opening2d_idem.

Theorem C14_mor2d_imor2d_le : forall N : Num, total (leb N) -> transitive (leb N) ->
  forall (nr nc hr hc : Z) (y b : list (T N)), 0 < nr -> 0 < nc -> lenZ y = nr * nc -> lenZ b = nr * nc ->
  Forall2 (fun u v => leb N u v = true) (mor2 N nr nc hr hc y) y /\
  Forall2 (fun u v => leb N u v = true) (imor_step2 N nr nc hr hc y b) y.
Proof. intros N Ht Htr nr nc hr hc y b Hr Hc Hl Hb. split.
  - apply (mor2_le N Ht Htr nr nc hr hc Hr Hc y Hl).
  - apply imor_step2_le; auto. Qed.
Print Assumptions C14_mor2d_imor2d_le.

(* ---- shift equivariance over exact rationals ---- *)
(* the four filters AS CODED (table generated from smooth.py on every run): 2 * (sum of coefficients) = divisor *)
Theorem C14_snip_weights : Forall filt_unit snip_table /\ length snip_table = 4%nat.
Proof. split; [exact snip_table_unit|exact snip_table_orders]. Qed.
Print Assumptions C14_snip_weights.

Theorem C14_snip_shift : forall (c : Qc) (order : Z) (decreasing : bool) (n hwl hwr : Z) (padded : list Qc),
  snip Num_Qc snip_table order decreasing n hwl hwr (map (sh c) padded) =
  map (sh c) (snip Num_Qc snip_table order decreasing n hwl hwr padded).
Proof. intros. apply snip_shift. exact snip_table_unit. Qed.
Print Assumptions C14_snip_shift.

Theorem C14_mor_shift : forall (c : Qc) (h : Z) (y : list Qc),
  mor Num_Qc h (map (sh c) y) = map (sh c) (mor Num_Qc h y) /\
  tophat Num_Qc h (map (sh c) y) = map (sh c) (tophat Num_Qc h y).
Proof. intros. split; [apply mor_shift|apply tophat_shift]. Qed.
Print Assumptions C14_mor_shift.

(* ---- rubberband ---- *)
(* the selection logic alone (no geometry): the kept vertices are the cyclic sub-path from the position of the
   smallest index to the position of the largest one.  Named _partial because it says nothing about hulls; the
   geometric statement is C14_rubberband_lower_hull below. *)
Theorem C14_rubberband_rotation_partial : forall v : list Z, v <> [] ->
  let n := lenZ v in let mn := argmin v in let mx := argmax v in
  0 <= mn < n /\ 0 <= mx < n /\
  (forall x, In x v -> nthZ 0 v mn <= x <= nthZ 0 v mx) /\
  rb_select v = firstn (Z.to_nat ((mx - mn) mod n + 1)) (rotate mn v).
Proof. intros v Hv. cbv zeta. split; [apply argmin_range; auto|]. split; [apply argmax_range; auto|].
  split; [intros x Hx; split; [apply argmin_spec|apply argmax_spec]; auto|].
  apply rb_select_rotation; auto. Qed.
Print Assumptions C14_rubberband_rotation_partial.

(* the constant added to argmax in the source (translated on every run) is the one the model uses; the
   translator also pins  hull_data = np.vstack((self.x, y)).T,  ConvexHull(hull_data[segment]).vertices  and
   np.interp(self.x, self.x[mask], y[mask]) *)
Theorem C14_rubberband_source : forall v, rb_select_off rb_max_offset v = rb_select v /\
  rb_points_are_x_y = true /\ rb_interp_over_x_mask = true.
Proof. intros v. repeat split. Qed.
Print Assumptions C14_rubberband_source.

(* Under qhull's contract for ConvexHull(column_stack((x, y))).vertices -- vertices are distinct data points, at
   least three, listed counter-clockwise so that every data point is on the left of (or on) every directed edge
   (cross >= 0), strictly convex (consecutive vertices turn strictly left) -- and x strictly increasing, the kept
   vertices w 0 .. w m are the LOWER hull: strictly increasing indices from 0 to n-1 (so the boolean mask lists
   them in path order), every segment's line is at or below EVERY data point, every data index lies between two
   consecutive nodes, slopes strictly increase (convex), the interpolant equals the data at the nodes, and
   np.interp through the nodes is at or below the data at every point. *)
Theorem C14_rubberband_lower_hull : forall (n : Z) (x y : Z -> Q) (v : list Z),
  (forall i j, 0 <= i -> i < j -> j < n -> (x i < x j)%Q) ->
  (forall a, In a v -> 0 <= a < n) -> NoDup v -> 3 <= lenZ v ->
  (forall p k, 0 <= k < n -> (0 <= cross x y (vat v p) (vat v (p + 1)%Z) k)%Q) ->
  (forall p, (0 < cross x y (vat v p) (vat v (p + 1)%Z) (vat v (p + 2)%Z))%Q) ->
  let m := msteps v in let w := w v in
  rb_select v = map w (zrange 0 (m + 1)) /\ 0 < m /\ w 0 = 0 /\ w m = n - 1 /\
  (forall j, 0 <= j < m -> w j < w (j + 1)) /\
  (forall j k, 0 <= j < m -> 0 <= k < n -> (seg x y (w j) (w (j + 1)%Z) (x k) <= y k)%Q) /\
  (forall k, 0 <= k < n -> exists j, 0 <= j < m /\ w j <= k <= w (j + 1)) /\
  (forall j, 0 <= j -> j + 2 <= m ->
     ((y (w (j + 1)%Z) - y (w j)) * (x (w (j + 2)%Z) - x (w (j + 1)%Z)) <
      (y (w (j + 2)%Z) - y (w (j + 1)%Z)) * (x (w (j + 1)%Z) - x (w j)))%Q) /\
  (forall a b, (x a < x b)%Q -> (seg x y a b (x a) == y a)%Q /\ (seg x y a b (x b) == y b)%Q) /\
  (forall k, 0 <= k < n -> (interp x y (rb_select v) (x k) <= y k)%Q).
Proof. intros n x y v H1 H2 H3 H4 H5 H6. exact (lower_hull n x y v H1 H2 H3 H4 H5 H6). Qed.
Print Assumptions C14_rubberband_lower_hull.

(* rubberband hands qhull the points scaled to [0,1] on both axes, (a*x+b, c*y+d) with a, c > 0 (translator:
   rb_x_scaled / rb_y_scaled).  The orientation predicate is multiplied by a*c > 0, so its sign, hence qhull's
   contract and the lower-hull vertex set, are those of the unscaled data. *)
Theorem C14_rubberband_affine_invariant : forall (x y : Z -> Q) (a b c d : Q), (0 < a)%Q -> (0 < c)%Q ->
  forall p q k : Z,
  (cross (X x a b) (Y y c d) p q k == a * c * cross x y p q k)%Q /\
  ((0 <= cross (X x a b) (Y y c d) p q k)%Q <-> (0 <= cross x y p q k)%Q) /\
  ((0 < cross (X x a b) (Y y c d) p q k)%Q <-> (0 < cross x y p q k)%Q) /\
  ((X x a b p < X x a b q)%Q <-> (x p < x q)%Q).
Proof. intros x y a b c d Ha Hc p q k. split; [apply cross_affine|].
  split; [apply cross_nonneg_iff; auto|]. split; [apply cross_pos_iff; auto|apply X_lt_iff; auto]. Qed.
Print Assumptions C14_rubberband_affine_invariant.

(* the lower-hull statement with qhull's contract on the SCALED points and the conclusions on the data *)
Theorem C14_rubberband_lower_hull_scaled : forall (x y : Z -> Q) (a b c d : Q), (0 < a)%Q -> (0 < c)%Q ->
  forall (n : Z) (v : list Z),
  (forall i j, 0 <= i -> i < j -> j < n -> (x i < x j)%Q) ->
  (forall u, In u v -> 0 <= u < n) -> NoDup v -> 3 <= lenZ v ->
  (forall p k, 0 <= k < n -> (0 <= cross (X x a b) (Y y c d) (vat v p) (vat v (p + 1)%Z) k)%Q) ->
  (forall p, (0 < cross (X x a b) (Y y c d) (vat v p) (vat v (p + 1)%Z) (vat v (p + 2)%Z))%Q) ->
  rb_select v = map (w v) (zrange 0 (msteps v + 1)) /\ w v 0 = 0 /\ w v (msteps v) = n - 1 /\
  (forall j, 0 <= j < msteps v -> w v j < w v (j + 1)) /\
  (forall j k, 0 <= j < msteps v -> 0 <= k < n -> (seg x y (w v j) (w v (j + 1)%Z) (x k) <= y k)%Q) /\
  (forall k, 0 <= k < n -> (interp x y (rb_select v) (x k) <= y k)%Q).
Proof. intros x y a b c d Ha Hc n v. exact (lower_hull_scaled x y a b c d Ha Hc n v). Qed.
Print Assumptions C14_rubberband_lower_hull_scaled.

Example C14_rubberband_contract_nonvacuous :
  let n := 4 in let x := fun i => inject_Z i in let y := fun i => inject_Z (nthZ 0 [1; 0; 2; 1] i) in
  let v := [1; 3; 2; 0] in
  (forall i j, 0 <= i -> i < j -> j < n -> (x i < x j)%Q) /\
  (forall a, In a v -> 0 <= a < n) /\ NoDup v /\ 3 <= lenZ v /\
  (forall p k, 0 <= k < n -> (0 <= cross x y (vat v p) (vat v (p + 1)) k)%Q) /\
  (forall p, (0 < cross x y (vat v p) (vat v (p + 1)) (vat v (p + 2)))%Q) /\
  rb_select v = [0; 1; 3].
Proof. exact contract_example. Qed.

(* ---- 2-D shift equivariance ---- *)
Theorem C14_monotone_commute_2d : forall (A B : Type) (leA : A -> A -> bool) (leB : B -> B -> bool),
  total leA -> transitive leA -> total leB -> transitive leB -> antisym leB ->
  forall phi : A -> B, (forall a b, leA a b = true -> leB (phi a) (phi b) = true) ->
  forall (nr nc hr hc : Z) (y : list A), 0 < nr -> 0 < nc -> lenZ y = nr * nc ->
  opening_g leB nr nc hr hc (map phi y) = map phi (opening_g leA nr nc hr hc y).
Proof. intros A B leA leB tA rA tB rB aB phi Hphi nr nc hr hc y Hr Hc Hl.
  apply (opening_g_commute A B leA leB tA rA tB rB aB phi Hphi nr nc hr hc Hr Hc y Hl). Qed.
Print Assumptions C14_monotone_commute_2d.

Theorem C14_mor2d_shift : forall (c : Qc) (nr nc hr hc : Z) (y : list Qc), 0 < nr -> 0 < nc -> lenZ y = nr * nc ->
  mor2 Num_Qc nr nc hr hc (map (sh c) y) = map (sh c) (mor2 Num_Qc nr nc hr hc y) /\
  tophat2 Num_Qc nr nc hr hc (map (sh c) y) = map (sh c) (tophat2 Num_Qc nr nc hr hc y).
Proof. intros c nr nc hr hc y Hr Hc Hl. split; [apply mor2_shift|apply tophat2_shift]; auto. Qed.
Print Assumptions C14_mor2d_shift.

Example C14_rubberband_example :
  rb_select [4; 2; 0; 1; 5; 6] = [0; 1; 5; 6] /\ rb_select [1; 5; 6; 4; 2; 0] = [0; 1; 5; 6].
Proof. split; reflexivity. Qed.

(* ---- the cast of the float baseline back to the integer dtype of the data (NumPy: truncation towards zero, then
   wrap modulo 2^w) ----
   For integer data y and a baseline b <= y the cast keeps "at or below the data" as long as b is not below the
   dtype minimum (unsigned: b >= 0); tophat and mor baselines never go below the smallest data value, so for them the
   condition always holds.  snip (extrapolated padding, negative filter weights) and rounding errors violate the
   hypotheses: the recorded findings are the _refuted witnesses. *)
Theorem C14_cast_safe : forall (w : Z) (b : Q) (y : Z), (b <= inject_Z y)%Q ->
  (0 <= w -> (0 <= b)%Q -> y < 2 ^ w -> cast_u w b = qtrunc b /\ 0 <= cast_u w b <= y) /\
  (1 <= w -> (inject_Z (- 2 ^ (w - 1)) <= b)%Q -> y < 2 ^ (w - 1) ->
     cast_s w b = qtrunc b /\ - 2 ^ (w - 1) <= cast_s w b <= y).
Proof. intros w b y Hb. split; intros; [apply cast_u_safe|apply cast_s_safe]; auto. Qed.
Print Assumptions C14_cast_safe.

Theorem C14_baseline_range : forall (m : Qc) (h : Z) (y : list Qc),
  Forall (fun v => Qc_leb m v = true) y ->
  Forall (fun v => Qc_leb m v = true) (tophat Num_Qc h y) /\ Forall (fun v => Qc_leb m v = true) (mor Num_Qc h y).
Proof. intros m h y Hy. split; [apply tophat_ge_lower_bound|apply mor_ge_lower_bound]; auto. Qed.
Print Assumptions C14_baseline_range.

(* snip:unsigned-data:wraps-above -- uint8, baseline -1.0 under data 0 becomes 255 *)
Theorem C14_cast_unsigned_refuted : exists (b : Q) (y : Z), (b <= inject_Z y)%Q /\ 0 <= y < 2 ^ 8 /\ y < cast_u 8 b.
Proof. exact cast_u_refuted. Qed.
Print Assumptions C14_cast_unsigned_refuted.

(* snip:signed-data:wraps-above -- int8, baseline -129.0 under data -128 becomes 127 *)
Theorem C14_cast_signed_refuted : exists (b : Q) (y : Z), (b <= inject_Z y)%Q /\ - 2 ^ 7 <= y < 2 ^ 7 /\ y < cast_s 8 b.
Proof. exact cast_s_refuted. Qed.
Print Assumptions C14_cast_signed_refuted.

(* rubberband:signed-int-data:above-by-one-count -- a baseline above an integer data point by a rounding error:
   floor would keep it at the data, truncation towards zero lifts it one count *)
Theorem C14_cast_truncation_refuted : exists (b : Q) (y : Z),
  (inject_Z y < b)%Q /\ (b < inject_Z y + (1 # 1000000))%Q /\ Qfloor b <= y /\ y < qtrunc b.
Proof. exact trunc_rounding_refuted. Qed.
Print Assumptions C14_cast_truncation_refuted.

Example C14_orders_nonvacuous :
  (total Z.leb /\ transitive Z.leb /\ antisym Z.leb) /\
  (total (leb Num_Qc) /\ transitive (leb Num_Qc) /\ antisym (leb Num_Qc) /\
   (forall a b, ltb Num_Qc a b = true -> leb Num_Qc a b = true)).
Proof. repeat split; [apply Zle_total|apply Zle_trans|apply Zle_antisym|apply Qcle_total|apply Qcle_trans'|apply Qcle_antisym'|apply Qclt_le']. Qed.
