(* Property C17 -- optimizer methods are the documented composition of the underlying method.
   Theorems about the executable models of pybaselines/optimizers.py in C17/Model.v, for ALL data
   sizes, ALL caller-supplied keyword dictionaries, ALL max_iter, ALL sides / added windows.
   The wrapped methods themselves, np.mean over several points, np.maximum and the Gaussian / edge
   extrapolation are arguments of the models (C06-C09 / library). *)
From Coq Require Import ZArith List Bool Lia String QArith PrimFloat.
From PB Require Import lib.PySlice lib.Arr lib.Loop lib.LoopProofs C17.Model C17.Float C17.Proofs C17.Custom C17.Grow C17.Smooth C17.Guard.
Import ListNotations.
Open Scope Z_scope.

(* ---------------------------------------------------------------- collab_pls *)
(* For ANY caller-supplied method_kwargs: a key of the dictionary every step-2 call receives has the
   forced value when collab_pls forces it for this method (weights := THE reported average weights,
   alpha := THE reported average alpha for aspls / pspline_aspls, tol := inf unless 1-D mpls /
   pspline_mpls / fabc, tol_2 := inf for brpls / pspline_brpls, weights_as_mask := True for fabc)
   -- the forced settings win over 'tol', 'tol_2', 'weights', 'alpha', 'weights_as_mask' given by
   the caller -- and is the caller's own value otherwise (max_iter, lam, ... are not touched). *)
Theorem C17_collab_forced_win : forall (two_d : bool) (m : string) (user : dict val) (k : string),
  dget k (collab_step2 two_d m user) =
  match forced two_d m k with Some v => Some v | None => dget k user end.
Proof. exact collab_step2_get. Qed.
Print Assumptions C17_collab_forced_win.

Theorem C17_collab_calls : forall two_d m (avg : bool) (M : nat) user,
  skipn (if avg then 1 else M)%nat (collab_calls two_d m avg M user)
  = map (fun i => (Row i, collab_step2 two_d m user)) (seq 0 M).
Proof. exact collab_calls_step2. Qed.
Print Assumptions C17_collab_calls.

(* The wrapped loop skeleton (lib/Loop.v; tied to every iterative method by C01's trace validation)
   run from the averaged weights with a tolerance the first recorded difference is below -- under
   tol = inf: any difference that is not NaN / +inf -- or with an early exit at the first pass:
   for EVERY max_iter >= 0 exactly one solve, with the supplied weights, which are returned
   unchanged.  So each output row is the wrapped method's single-pass fit with the reported
   average weights. *)
Theorem C17_collab_single_pass :
  forall (W B D : Type) (solve : nat -> W -> B) (reweight : nat -> B -> W -> W * bool)
         (diff : nat -> W -> W -> B -> D) (below : D -> bool) (wavg : W) (max_iter : nat),
  let early0 := snd (reweight 0%nat (solve 0%nat wavg) wavg) in
  let d0 := diff 0%nat wavg (fst (reweight 0%nat (solve 0%nat wavg) wavg)) (solve 0%nat wavg) in
  early0 || below d0 = true ->
  loop W B D solve reweight diff below (S max_iter) wavg =
  Some {| r_base := solve 0%nat wavg; r_state := wavg;
          r_hist := if early0 then [] else [d0];
          r_reason := if early0 then EarlyExit else Converged |}.
Proof. exact single_pass. Qed.
Print Assumptions C17_collab_single_pass.

(* the binary64 instance: `calc_difference < tol` with the forced tol = np.inf *)
Theorem C17_collab_single_pass_inf :
  forall (W B : Type) (solve : nat -> W -> B) (reweight : nat -> B -> W -> W * bool)
         (diff : nat -> W -> W -> B -> float) (wavg : W) (max_iter : nat),
  below_inf (diff 0%nat wavg (fst (reweight 0%nat (solve 0%nat wavg) wavg)) (solve 0%nat wavg)) = true ->
  exists r, loop W B float solve reweight diff below_inf (S max_iter) wavg = Some r /\
            r_base r = solve 0%nat wavg /\ r_state r = wavg.
Proof.
  intros W B solve reweight diff wavg max_iter H. eexists. split.
  - apply single_pass. rewrite H. apply orb_true_r.
  - split; reflexivity.
Qed.
Print Assumptions C17_collab_single_pass_inf.

Example C17_below_inf_nonvacuous :
  below_inf 0x1p-3%float = true /\ below_inf 0x1.fffffffffffffp+1023%float = true /\
  below_inf nan = false /\ below_inf infinity = false.
Proof. vm_compute. repeat split. Qed.

(* the hypothesis is needed: a first difference that is NaN / +inf is not below inf, and then a
   budget of two or more passes solves again with re-computed weights *)
Theorem C17_collab_not_single_pass :
  forall (W B D : Type) (solve : nat -> W -> B) (reweight : nat -> B -> W -> W * bool)
         (diff : nat -> W -> W -> B -> D) (below : D -> bool) (wavg : W) (max_iter : nat) r,
  snd (reweight 0%nat (solve 0%nat wavg) wavg)
    || below (diff 0%nat wavg (fst (reweight 0%nat (solve 0%nat wavg) wavg)) (solve 0%nat wavg)) = false ->
  loop W B D solve reweight diff below (S (S max_iter)) wavg = Some r ->
  exists k w, (1 <= k)%nat /\ r_base r = solve k w.
Proof. exact not_single_pass. Qed.
Print Assumptions C17_collab_not_single_pass.

(* a caller who passes tol, tol_2, weights, alpha, weights_as_mask, max_iter: all but max_iter lose *)
Example C17_collab_forced_nonvacuous :
  let user := [("lam", VUser 0); ("tol", VUser 1); ("max_iter", VUser 2); ("weights", VUser 3);
               ("alpha", VUser 4); ("tol_2", VUser 5); ("weights_as_mask", VUser 6)]%string in
  collab_step2 false "aspls" user
  = [("lam", VUser 0); ("tol", VInf); ("max_iter", VUser 2); ("weights", VAvgW);
     ("alpha", VAvgA); ("tol_2", VUser 5); ("weights_as_mask", VUser 6)]%string /\
  dget "tol" (collab_step2 false "fabc" user) = Some (VUser 1) /\
  dget "tol" (collab_step2 true "fabc" user) = Some VInf /\
  dget "weights_as_mask" (collab_step2 false "fabc" user) = Some VTrue /\
  dget "tol_2" (collab_step2 false "pspline_brpls" user) = Some VInf.
Proof. vm_compute. repeat split. Qed.

(* ---------------------------------------------------------------- adaptive_minmax *)
(* sorted x: the constrained positions are the first cl and the last cr points (right wins) *)
Theorem C17_minmax_edges_sorted : forall (A : Type) (n cl cr : Z) (wl wr : A) (w : Z -> A),
  0 <= cl -> 0 <= cr <= n -> forall j, 0 <= j < n ->
  fst (minmax_weights n None cl cr wl wr w) j = w j /\
  snd (minmax_weights n None cl cr wl wr w) j = if n - cr <=? j then wr else if j <? cl then wl else w j.
Proof. intros A n cl cr wl wr w H1 H2. exact (minmax_edges_sorted n cl cr wl wr w H1 H2). Qed.
Print Assumptions C17_minmax_edges_sorted.

(* unsorted x with sort order p and inverse q (the contract of utils._inverted_sort, C02): the point
   at input position j is constrained iff its RANK in x is among the first cl / last cr -- also for
   default weights (commit 0b7a534) -- and the reported plain weights are the caller's *)
Theorem C17_minmax_edges : forall (A : Type) (n cl cr : Z) (wl wr : A) (w : Z -> A) (p q : Z -> Z),
  0 <= cl -> 0 <= cr <= n ->
  (forall j, 0 <= j < n -> 0 <= q j < n /\ p (q j) = j) ->
  forall j, 0 <= j < n ->
  fst (minmax_weights n (Some (p, q)) cl cr wl wr w) j = w j /\
  snd (minmax_weights n (Some (p, q)) cl cr wl wr w) j =
    if n - cr <=? q j then wr else if q j <? cl then wl else w j.
Proof. intros A n cl cr wl wr w p q H1 H2 H3. exact (minmax_edges_unsorted n cl cr wl wr w H1 H2 p q H3). Qed.
Print Assumptions C17_minmax_edges.

Example C17_minmax_edges_nonvacuous :
  (* x = [30, 10, 20, 40]: sort order [1,2,0,3], inverse [2,0,1,3]; one point constrained per side *)
  to_list 4 (snd (minmax_weights 4 (Some (of_list 0 [1; 2; 0; 3], of_list 0 [2; 0; 1; 3])) 1 1 7 9 (fun _ => 1)))
  = [1; 7; 1; 9].
Proof. vm_compute. reflexivity. Qed.

Theorem C17_minmax_is_max : forall b0 b1 b2 b3 i,
  let m := max4 b0 b1 b2 b3 i in
  b0 i <= m /\ b1 i <= m /\ b2 i <= m /\ b3 i <= m /\ (m = b0 i \/ m = b1 i \/ m = b2 i \/ m = b3 i).
Proof. exact max4_is_max. Qed.
Print Assumptions C17_minmax_is_max.

Theorem C17_minmax_fit_order : forall po,
  fit_sequence po = [(fst po, false); (fst po, true); (snd po, false); (snd po, true)].
Proof. exact fit_sequence_order. Qed.
Print Assumptions C17_minmax_fit_order.

(* ---------------------------------------------------------------- custom_bc *)
(* integer semantics of np.linspace(start, stop, num, dtype=intp) in exact arithmetic *)
Theorem C17_custom_linspace_exact : forall start stop num, 1 <= num ->
  linspace_intp Num_Q start stop num =
  map (fun k => if (1 <? num) && (k =? num - 1) then stop else start + k * (stop - start) / (num - 1))
      (zrange 0 num).
Proof. exact linspace_exact. Qed.
Print Assumptions C17_custom_linspace_exact.

(* one region (None, None), sampling = 1, N >= 2 points, x in non-decreasing order (what _register
   hands over), np.mean of one value is that value: x_fit = x and y_fit = y -- every point its own
   section, no end point added a second time, the stable sort moves nothing.
   PARTIAL: exact-rational instance of the index arithmetic (the binary64 instance is compared
   bit-for-bit with the implementation by the harness, not proved). *)
Theorem C17_custom_identity_partial :
  forall (mean : list Q -> Q), (forall v, mean [v] = v) ->
  forall (n : Z) (d : Q) (x y : list Q),
  2 <= n -> zlen x = n -> zlen y = n -> nondecr x ->
  cb_sources Num_Q n [(None, None, 1)] = inl (map (fun k => Sec k (k + 1)) (zrange 0 n)) /\
  cb_fit Num_Q n mean d x y [(None, None, 1)] = inl (combine x y).
Proof.
  intros mean Hm n d x y Hn Hx Hy Hs. split.
  - apply cb_sources_identity. assumption.
  - apply cb_fit_identity; assumption.
Qed.
Print Assumptions C17_custom_identity_partial.

(* np.interp back onto x: at a node of a STRICTLY increasing x_fit the interpolant is the node value,
   so the returned baseline is the wrapped method's baseline_fit *)
Theorem C17_custom_interp_nodes : forall (n : Z) (xp fp : Z -> Q),
  (forall a b, 0 <= a < n -> 0 <= b < n -> Qle_bool (xp a) (xp b) = (a <=? b)) ->
  forall i, 0 <= i < n -> interp Num_Q n xp fp (xp i) = fp i.
Proof. exact interp_node. Qed.
Print Assumptions C17_custom_interp_nodes.

Example C17_custom_identity_nonvacuous :
  cb_fit Num_Q 3 (fun l => hd 0%Q l) 0%Q [1#2; 1; 3]%Q [5; 4; 6]%Q [(None, None, 1)]
  = inl [(1#2, 5); (1, 4); (3, 6)]%Q /\ nondecr [1#2; 1; 3]%Q.
Proof.
  split; [vm_compute; reflexivity|]. cbn [nondecr].
  repeat split; intros b Hb; cbn [In] in Hb;
    repeat (destruct Hb as [<-|Hb]; [reflexivity|]); destruct Hb.
Qed.

(* strictness is needed: with a repeated x value np.interp returns the last of the tied nodes *)
Theorem C17_custom_tied_nodes_refuted :
  exists (xp fp : Z -> Q) (n i : Z), 0 <= i < n /\
    (forall a b, 0 <= a <= b -> b < n -> Qle_bool (xp a) (xp b) = true) /\
    interp Num_Q n xp fp (xp i) <> fp i.
Proof. exact interp_tied_nodes_refuted. Qed.
Print Assumptions C17_custom_tied_nodes_refuted.

(* N = 1: the `elif` is not reached, the single point is used twice *)
Theorem C17_custom_one_point : cb_sources Num_Q 1 [(None, None, 1)] = inl [Sec 0 1; Pt 0].
Proof. exact cb_sources_one_point. Qed.
Print Assumptions C17_custom_one_point.

(* ---------------------------------------------------------------- optimize_extended_range *)
(* for every N, side and added window (also 0): the returned baseline is the fitted baseline over
   the data -- length N, the central part -- and for added_window >= 1 the weights / alpha of the
   optimal fit, cut back, are the wrapped method's values over the data *)
Theorem C17_extended_slices : forall (A : Type) (s : side) (aw : Z) (addl addr fitmid : list A) (one : A) (w : list A),
  zlen addl = aw -> zlen addr = aw ->
  cut_baseline s aw (ext_data s addl addr fitmid) = fitmid /\
  zlen (ext_data s addl addr fitmid) = zlen fitmid + added_len s aw /\
  zlen (pad_const s aw one w) = zlen w + added_len s aw /\
  (1 <= aw -> cut_param s aw (pad_const s aw one w) = w).
Proof.
  intros A s aw addl addr fitmid one w Hl Hr. pose proof (zlen_nonneg addl). repeat split.
  - apply cut_baseline_ext; assumption.
  - rewrite ext_data_len by lia. rewrite Hl. reflexivity.
  - apply pad_const_len. lia.
  - intros. apply cut_param_pad. assumption.
Qed.
Print Assumptions C17_extended_slices.

(* added_window = 0 (N * width_scale < 1; the implementation raises ValueError in gaussian() before
   reaching the slices): `[0:-0]` would return EMPTY weights for side = right / both *)
Theorem C17_extended_zero_window : forall (A : Type) (s : side) (one : A) (w : list A),
  cut_param s 0 (pad_const s 0 one w) = match s with SLeft => w | _ => [] end.
Proof. intros. apply cut_param_zero. Qed.
Print Assumptions C17_extended_zero_window.

(* the residual compares known_background with the fitted baseline over the added points, in the
   same layout (right addition first, then the left one) *)
Theorem C17_extended_roll : forall (A : Type) (s : side) (aw : Z) (addl addr y : list A),
  zlen addl = aw -> zlen addr = aw -> 1 <= zlen y ->
  rolled_part s aw (ext_data s addl addr y) = known_background s addl addr.
Proof. intros A. exact rolled_part_ext. Qed.
Print Assumptions C17_extended_roll.

(* the sort order handed to the extended fitter sorts the extended data: left addition, the data in
   x order, right addition *)
Theorem C17_extended_sort_order : forall (A : Type) (d : A) (s : side) (aw n : Z) (p : list Z) (addl addr y : list A),
  zlen addl = aw -> zlen addr = aw -> zlen y = n -> (forall i, In i p -> 0 <= i < n) ->
  map (fun i => nth (Z.to_nat i) (ext_data s addl addr y) d) (ext_sort_order s aw n p)
  = ext_data s addl addr (map (fun i => nth (Z.to_nat i) y d) p).
Proof. intros A. exact ext_sort_order_gather. Qed.
Print Assumptions C17_extended_sort_order.

Example C17_extended_nonvacuous :
  cut_baseline SBoth 2 (ext_data SBoth [1; 2] [8; 9] [4; 5; 6]) = [4; 5; 6] /\
  rolled_part SBoth 2 (ext_data SBoth [1; 2] [8; 9] [4; 5; 6]) = [8; 9; 1; 2] /\
  cut_param SRight 2 (pad_const SRight 2 1 [4; 5; 6]) = [4; 5; 6] /\
  ext_sort_order SLeft 2 3 [2; 0; 1] = [0; 1; 4; 2; 3].
Proof. vm_compute. repeat split. Qed.

(* the reported optimum is the FIRST minimiser of the errors; a non-empty sweep always selects *)
Theorem C17_optimum : forall errs b e,
  argmin_first Z.ltb (fun _ => true) errs = Some (b, e) ->
  (b < List.length errs)%nat /\ nth b errs 0 = e /\
  (forall x, In x errs -> e <= x) /\ (forall k, (k < b)%nat -> e < nth k errs 0).
Proof. exact argmin_first_spec. Qed.
Print Assumptions C17_optimum.

Theorem C17_optimum_total : forall errs, errs <> [] -> argmin_first Z.ltb (fun _ => true) errs <> None.
Proof. exact argmin_first_total. Qed.
Print Assumptions C17_optimum_total.

(* errors that are all NaN / +inf select nothing: UnboundLocalError instead of a result *)
Theorem C17_optimum_nonfinite : forall (E : Type) (lt : E -> E -> bool) errs,
  argmin_first lt (fun _ => false) errs = None.
Proof. intros E. exact argmin_never_finite. Qed.
Print Assumptions C17_optimum_nonfinite.

(* ================================================================ growth *)
(* ---------------------------------------------------------------- 2-D adaptive_minmax *)
(* For every (M, N), every pair of sort orders in any of the four Baseline2D._sort_order layouts
   (none, x only, z only, both; q = inverse of p, the contract of utils._inverted_sort) and every
   count 0 <= c0, 0 <= c1 <= M, 0 <= c2, 0 <= c3 <= N (= ceil(M*f0), ceil(M*f1), ceil(N*f2),
   ceil(N*f3); the guard 0 <= f <= 1 gives the upper bounds): the cell at input position (i, j) is
   constrained exactly when the RANK of x_i is among the first c0 / last c1 rows or the rank of z_j
   among the first c2 / last c3 columns; where regions overlap the later write wins (last columns >
   last rows > first columns > first rows); the reported plain weights are the caller's. *)
Theorem C17_minmax2d_edges : forall (A : Type) (m n c0 c1 c2 c3 : Z) (w0 w1 w2 w3 : A)
    (ox oz : option ((Z -> Z) * (Z -> Z))) (w : Z -> Z -> A) (i j : Z),
  0 <= c0 -> 0 <= c1 <= m -> 0 <= c2 -> 0 <= c3 <= n ->
  inv_ok m ox -> inv_ok n oz -> 0 <= i < m -> 0 <= j < n ->
  fst (minmax2d_weights m n ox oz c0 c1 c2 c3 w0 w1 w2 w3 w) i j = w i j /\
  snd (minmax2d_weights m n ox oz c0 c1 c2 c3 w0 w1 w2 w3 w) i j =
    let r := perm_of ox true i in let c := perm_of oz true j in
    if n - c3 <=? c then w3 else if m - c1 <=? r then w1 else if c <? c2 then w2 else if r <? c0 then w0 else w i j.
Proof.
  intros A m n c0 c1 c2 c3 w0 w1 w2 w3 ox oz w i j H0 H1 H2 H3 Hx Hz Hi Hj.
  exact (minmax2d_edges m n c0 c1 c2 c3 w0 w1 w2 w3 H0 H1 H2 H3 ox oz w i j Hx Hz Hi Hj).
Qed.
Print Assumptions C17_minmax2d_edges.

Example C17_minmax2d_nonvacuous :
  (* 3 x 4, x order [2,0,1] (inverse [1,2,0]), z sorted; one first row, one last column *)
  to_list2 3 4 (snd (minmax2d_weights 3 4 (Some (of_list 0 [2; 0; 1], of_list 0 [1; 2; 0])) None 1 0 0 1 5 6 7 8 (fun _ _ => 1)))
  = [1; 1; 1; 8;  1; 1; 1; 8;  5; 5; 5; 8] /\ inv_ok 3 (Some (of_list 0 [2; 0; 1], of_list 0 [1; 2; 0])).
Proof.
  split; [vm_compute; reflexivity|]. intros j Hj.
  assert (j = 0 \/ j = 1 \/ j = 2) as [-> | [-> | ->]] by lia; vm_compute; repeat split; discriminate.
Qed.

(* ---------------------------------------------------------------- nested brpls loops in collab_pls *)
(* the 2-level skeleton of brpls / pspline_brpls with the tolerances forced by collab_pls: when the
   first inner difference is below tol and the first outer difference below tol_2 (under inf:
   neither is NaN / +inf), or the very first pass exits early, there is exactly ONE solve, with the
   supplied (average) weights, and those are the weights reported -- for every max_iter, max_iter_2.
   The tie of the skeleton to the code is the solve count and the recomposition oracle (no per-pass
   trace validation of the nested loops). *)
Theorem C17_collab_brpls_single_pass :
  forall (W B Beta D D2 : Type) (solve : W -> B) (reweight : B -> Beta -> W * bool) (diff : B -> B -> D)
         (below : D -> bool) (diff2 : Beta -> W -> D2) (below2 below2_inf : D2 -> bool) (next_beta : W -> Beta)
         (max_iter max_iter_2 : nat) (beta0 : Beta) (wavg : W) (y : B),
  let nb := solve wavg in
  let nw := fst (reweight nb beta0) in
  let early := snd (reweight nb beta0) in
  (if early then below2_inf (diff2 beta0 nw) else below (diff y nb) && below2 (diff2 beta0 nw)) = true ->
  brpls_loops W B Beta D D2 solve reweight diff below diff2 below2 below2_inf next_beta
              max_iter max_iter_2 beta0 wavg y = (solve wavg, wavg, 1%nat).
Proof. exact brpls_single_pass. Qed.
Print Assumptions C17_collab_brpls_single_pass.

Example C17_brpls_nonvacuous :
  (* without the forced tolerances the same skeleton iterates: 2 outer x 2 inner passes here *)
  brpls_loops nat nat nat nat nat (fun w => w) (fun b beta => (S b, false)) (fun b nb => nb)
              (fun d => Nat.ltb d 0) (fun beta w => w) (fun d => Nat.ltb d 0) (fun _ => true) (fun w => w)
              1 1 0%nat 0%nat 0%nat = (3%nat, 3%nat, 4%nat) /\
  brpls_loops nat nat nat nat nat (fun w => w) (fun b beta => (S b, false)) (fun b nb => nb)
              (fun d => true) (fun beta w => w) (fun d => true) (fun _ => true) (fun w => w)
              1 1 0%nat 0%nat 0%nat = (0%nat, 0%nat, 1%nat).
Proof. vm_compute. split; reflexivity. Qed.

(* ---------------------------------------------------------------- the parameter grid and the optimum on it *)
(* lam sweep = 10.0 ** np.linspace(min, max, ceil((max - min) / step)): never empty; with two or
   more values the last exponent is EXACTLY max_value (for every number instance, binary64 included) *)
Theorem C17_extended_lam_grid : forall (K : NumI) (lo hi step : T K) (g : list (T K)),
  lam_grid K lo hi step = Some g -> g <> [] /\ (2 <= zlen g -> last g lo = hi).
Proof. exact lam_grid_shape. Qed.
Print Assumptions C17_extended_lam_grid.

(* the reported optimal parameter is the grid value at the first minimiser of the errors *)
Theorem C17_optimum_on_grid : forall (P : Type) (grid : list P) (errs : list Z) (p : P),
  selected_param grid errs = Some p ->
  exists b e, nth_error grid b = Some p /\ (b < List.length errs)%nat /\ nth b errs 0 = e /\
              (forall x, In x errs -> e <= x) /\ (forall k, (k < b)%nat -> e < nth k errs 0).
Proof. intros P. exact selected_param_spec. Qed.
Print Assumptions C17_optimum_on_grid.

Theorem C17_optimum_on_grid_total : forall (P : Type) (grid : list P) (errs : list Z),
  List.length grid = List.length errs -> errs <> [] -> selected_param grid errs <> None.
Proof. intros P. exact selected_param_total. Qed.
Print Assumptions C17_optimum_on_grid_total.

Example C17_grid_nonvacuous :
  poly_sweep 5 1 2 = [5; 3; 1] /\ poly_sweep 1 4 0 = [1] /\ poly_sweep 0 5 3 = [0; 3; 6] /\
  selected_param (poly_sweep 5 1 2) [9; 4; 4] = Some 3.
Proof. vm_compute. repeat split. Qed.

(* ---------------------------------------------------------------- custom_bc smoothing step *)
(* `lam` given: the system handed to the banded solver IS (I + lam D'D) z = interpolated baseline,
   for every N > d >= 1, lam > 0 and every solver setting (assembly only; by C06's theorems) *)
Theorem C17_custom_smooth_system : forall (hp : bool) (bs : Z) (N : nat) (lam : Z) (d : nat) (base : Z -> Z),
  (1 <= d < N)%nat -> 0 < lam ->
  exists k, custom_smooth hp bs N lam d base = Some [k] /\
            PB.C06.Proofs.sys_ok N (fun i j => (if i =? j then 1 else 0) + lam * PB.C11.DtD.DtD d N i j) base k.
Proof. exact custom_smooth_system. Qed.
Print Assumptions C17_custom_smooth_system.

(* ---------------------------------------------------------------- the method name is case-insensitive *)
(* collab_pls lower-cases the name before every comparison, so any spelling gets the protocol of the
   lower-case name: in particular the forced settings of C17_collab_forced_win hold for every spelling *)
Theorem C17_collab_name_case : forall (two_d : bool) (name : string) (user : dict val) (k : string) (avg : bool) (M : nat),
  collab_calls_named two_d name avg M user = collab_calls two_d (lower name) avg M user /\
  dget k (collab_step2 two_d (lower name) user) =
  match forced two_d (lower name) k with Some v => Some v | None => dget k user end.
Proof. intros. split; [reflexivity|apply collab_step2_get]. Qed.
Print Assumptions C17_collab_name_case.

Example C17_collab_name_case_nonvacuous :
  lower "asPLS" = "aspls"%string /\ lower "PSPLINE_BRPLS" = "pspline_brpls"%string /\ lower "fabc" = "fabc"%string /\
  collab_param_keys_named "ASPLS" = ["average_weights"; "method_params"; "average_alpha"]%string /\
  dget "alpha" (collab_step2 true (lower "PSpline_AsPLS") [("alpha", VUser 0)]%string) = Some VAvgA.
Proof. vm_compute. repeat split. Qed.

(* ---------------------------------------------------------------- the counts under the fraction guard *)
(* adaptive_minmax rejects fractions outside [0, 1] (ValueError); for the accepted ones the count
   ceil(N * f) lies in [0, N], is 0 for f = 0, N for f = 1 and at least 1 for f > 0 on a non-empty
   axis (exact arithmetic; the binary64 product is compared with the implementation on every run) *)
Theorem C17_minmax_count_bounds : forall (n : Z) (f : Q), 0 <= n -> (0 <= f)%Q -> (f <= 1)%Q ->
  0 <= edge_count Num_Q n f <= n /\
  ((f == 0)%Q -> edge_count Num_Q n f = 0) /\ ((f == 1)%Q -> edge_count Num_Q n f = n) /\
  (1 <= n -> (0 < f)%Q -> 1 <= edge_count Num_Q n f).
Proof.
  intros n f Hn H0 H1. split; [apply edge_count_bounds; assumption|].
  split; [apply edge_count_zero|]. split; [apply edge_count_one|apply edge_count_pos].
Qed.
Print Assumptions C17_minmax_count_bounds.

(* C17_minmax_edges with the counts computed from the guarded fractions: the hypotheses on the counts
   (`0 <= cl`, `0 <= cr <= n`) are discharged by the guard, only the fractions' range is assumed *)
Theorem C17_minmax_edges_guarded : forall (A : Type) (n : Z) (f0 f1 : Q) (wl wr : A) (w : Z -> A) (p q : Z -> Z),
  0 <= n -> (0 <= f0 <= 1)%Q -> (0 <= f1 <= 1)%Q ->
  (forall j, 0 <= j < n -> 0 <= q j < n /\ p (q j) = j) ->
  forall j, 0 <= j < n ->
  let cl := edge_count Num_Q n f0 in let cr := edge_count Num_Q n f1 in
  fst (minmax_weights n (Some (p, q)) cl cr wl wr w) j = w j /\
  snd (minmax_weights n (Some (p, q)) cl cr wl wr w) j =
    if n - cr <=? q j then wr else if q j <? cl then wl else w j.
Proof. intros A. exact minmax_edges_guarded. Qed.
Print Assumptions C17_minmax_edges_guarded.

Theorem C17_minmax_edges_sorted_guarded : forall (A : Type) (n : Z) (f0 f1 : Q) (wl wr : A) (w : Z -> A),
  0 <= n -> (0 <= f0 <= 1)%Q -> (0 <= f1 <= 1)%Q ->
  forall j, 0 <= j < n ->
  let cl := edge_count Num_Q n f0 in let cr := edge_count Num_Q n f1 in
  fst (minmax_weights n None cl cr wl wr w) j = w j /\
  snd (minmax_weights n None cl cr wl wr w) j = if n - cr <=? j then wr else if j <? cl then wl else w j.
Proof. intros A. exact minmax_edges_sorted_guarded. Qed.
Print Assumptions C17_minmax_edges_sorted_guarded.

Theorem C17_minmax2d_edges_guarded : forall (A : Type) (m n : Z) (f0 f1 f2 f3 : Q) (w0 w1 w2 w3 : A)
    (ox oz : option ((Z -> Z) * (Z -> Z))) (w : Z -> Z -> A) (i j : Z),
  0 <= m -> 0 <= n -> (0 <= f0 <= 1)%Q -> (0 <= f1 <= 1)%Q -> (0 <= f2 <= 1)%Q -> (0 <= f3 <= 1)%Q ->
  inv_ok m ox -> inv_ok n oz -> 0 <= i < m -> 0 <= j < n ->
  let c0 := edge_count Num_Q m f0 in let c1 := edge_count Num_Q m f1 in
  let c2 := edge_count Num_Q n f2 in let c3 := edge_count Num_Q n f3 in
  fst (minmax2d_weights m n ox oz c0 c1 c2 c3 w0 w1 w2 w3 w) i j = w i j /\
  snd (minmax2d_weights m n ox oz c0 c1 c2 c3 w0 w1 w2 w3 w) i j =
    let r := perm_of ox true i in let c := perm_of oz true j in
    if n - c3 <=? c then w3 else if m - c1 <=? r then w1 else if c <? c2 then w2 else if r <? c0 then w0 else w i j.
Proof. intros A. exact minmax2d_edges_guarded. Qed.
Print Assumptions C17_minmax2d_edges_guarded.

Example C17_minmax_guard_nonvacuous :
  edge_count Num_Q 57 (1 # 100)%Q = 1 /\ edge_count Num_Q 57 (1 # 3)%Q = 19 /\ edge_count Num_Q 57 (7 # 20)%Q = 20 /\
  edge_count Num_Q 10 0%Q = 0 /\ edge_count Num_Q 10 1%Q = 10.
Proof. vm_compute. repeat split. Qed.
