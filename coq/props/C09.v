(* Property C09 -- each reweighting step follows the documented rule; the stop rule is honest.
   Rule theorems are over Coq's real numbers (standard Reals axioms, listed by Print Assumptions);
   the formulas are the same Gallina definitions (C09/Rules.v) that the float instance executes. *)
From Coq Require Import Reals List Bool Arith.
From Coq Require Import ZArith.
From PB Require Import lib.Loop lib.LoopProofs C09.Rules C09.RealProofs C01.PyLoop C01.PyLoopProofs gen.GenLoops.
Import ListNotations.

(* stop rule: the loop stops exactly at the first pass whose recorded value is below tol or that
   exits early, or at exhaustion -- never earlier or later (all budgets, all oracles) *)
Theorem C09_stop_exact : forall (W B D : Type) (solve : nat -> W -> B) (reweight : nat -> B -> W -> W * bool)
    (diff : nat -> W -> W -> B -> D) (below : D -> bool) (w0 : W) (budget : nat),
  loop W B D solve reweight diff below budget w0 = spec W B D solve reweight diff below w0 budget.
Proof. exact loop_spec. Qed.
Print Assumptions C09_stop_exact.

(* the stop rule of the loops AS WRITTEN IN THE SOURCE (table regenerated from /repo on every run by
   tools/gen_loops.py): for every single-loop iterative method, every max_iter and every oracle, the
   Python loop stops exactly where the functional specification says -- at the first pass that exits
   early or records a value below tol, else after max_iter + l_stop - l_start passes -- and returns
   exactly the recorded values of the passes before that point *)
Theorem C09_stop_exact_source : forall name l, In (name, l) loops ->
  forall (W B D : Type) (solve : nat -> W -> B) (reweight : nat -> B -> W -> W * bool)
         (diff : nat -> W -> W -> B -> D) (below : D -> bool) (max_iter : Z) (w0 : W),
  (l_early l = false -> forall k b w, snd (reweight k b w) = false) ->
  pyloop W B D solve reweight diff below l max_iter w0 =
  match spec W B D solve reweight diff below w0 (budget l max_iter) with
  | None => None
  | Some r => Some (r_base r, r_state r, map Some (r_hist r), r_reason r)
  end.
Proof.
  intros name l Hin W B D solve reweight diff below m w0 He.
  assert (Hall : forallb (fun p => loop_ok (snd p)) loops = true) by (vm_compute; reflexivity).
  rewrite forallb_forall in Hall. specialize (Hall _ Hin). cbn [snd] in Hall.
  rewrite (pyloop_refines W B D solve reweight diff below l m Hall He w0).
  now rewrite loop_spec.
Qed.
Print Assumptions C09_stop_exact_source.

(* on early exit the zero weights returned by the rule are NOT installed: the returned state is the
   one the exiting pass started from, and the returned baseline is its solve *)
Theorem C09_returned_pair : forall (W B D : Type) (solve : nat -> W -> B) (reweight : nat -> B -> W -> W * bool)
    (diff : nat -> W -> W -> B -> D) (below : D -> bool) (w0 : W) (budget : nat) (r : result W B D),
  loop W B D solve reweight diff below budget w0 = Some r ->
  match r_reason r with
  | Converged | EarlyExit => exists k, (k < budget)%nat /\ r_base r = solve k (r_state r)
  | Exhausted => exists wprev, r_base r = solve (budget - 1)%nat wprev /\
                               r_state r = fst (reweight (budget - 1)%nat (r_base r) wprev)
  end.
Proof. exact loop_returned_pair. Qed.
Print Assumptions C09_returned_pair.

Open Scope R_scope.

Theorem C09_early_exit_iff : forall rs : list R,
  exit_early Num_R rs = true <-> (length (filter (fun r => Rltb r 0) rs) < 2)%nat.
Proof. exact exit_early_iff. Qed.
Print Assumptions C09_early_exit_iff.

Theorem C09_early_exit_brpls_iff : forall rs : list R,
  exit_early_brpls Num_R rs = true <->
  (length (filter (fun r => Rltb r 0) rs) < 2)%nat \/ (length (filter (fun r => Rgtb r 0) rs) < 2)%nat.
Proof. exact exit_early_brpls_iff. Qed.
Print Assumptions C09_early_exit_brpls_iff.

Theorem C09_asls_range : forall p y b : R, 0 <= p <= 1 -> 0 <= asls_w Num_R p y b <= 1.
Proof. exact asls_range. Qed.
Print Assumptions C09_asls_range.

(* the proof forces p <= 1/2: for p > 1/2 the documented formula itself increases with the residual *)
Theorem C09_asls_antitone : forall p y1 y2 b : R, p <= / 2 -> y1 - b <= y2 - b ->
  asls_w Num_R p y2 b <= asls_w Num_R p y1 b.
Proof. exact asls_antitone. Qed.
Print Assumptions C09_asls_antitone.

Theorem C09_drpls_lsrpls_range : forall scale std mean r : R, 0 < drpls_w Num_R scale std mean r < 1.
Proof. exact drpls_range. Qed.
Print Assumptions C09_drpls_lsrpls_range.

Theorem C09_drpls_lsrpls_antitone : forall scale std mean r1 r2 : R, 0 < scale -> 0 < std -> r1 <= r2 ->
  drpls_w Num_R scale std mean r2 <= drpls_w Num_R scale std mean r1.
Proof. exact drpls_antitone. Qed.
Print Assumptions C09_drpls_lsrpls_antitone.

Theorem C09_iarpls_range : forall scale std r : R, 0 < iarpls_w Num_R scale std r < 1.
Proof. intros. apply shape_sqrt_range. Qed.
Print Assumptions C09_iarpls_range.

Theorem C09_iarpls_antitone : forall scale std r1 r2 : R, 0 < scale -> 0 < std -> r1 <= r2 ->
  iarpls_w Num_R scale std r2 <= iarpls_w Num_R scale std r1.
Proof. exact iarpls_antitone. Qed.
Print Assumptions C09_iarpls_antitone.

Theorem C09_psalsa_range : forall p k r : R, 0 <= p <= 1 -> 0 < k -> 0 <= psalsa_w Num_R exp p k r <= 1.
Proof. exact psalsa_range. Qed.
Print Assumptions C09_psalsa_range.

Theorem C09_psalsa_antitone : forall p k r1 r2 : R, 0 <= p <= / 2 -> 0 < k -> r1 <= r2 ->
  psalsa_w Num_R exp p k r2 <= psalsa_w Num_R exp p k r1.
Proof. exact psalsa_antitone. Qed.
Print Assumptions C09_psalsa_antitone.

Theorem C09_derpsalsa_range : forall p k partial r : R, 0 <= p <= 1 -> 0 <= partial <= 1 ->
  0 <= derpsalsa_w Num_R exp p k partial r <= 1.
Proof. exact derpsalsa_range. Qed.
Print Assumptions C09_derpsalsa_range.

Theorem C09_arpls_range_antitone : forall std mean r1 r2 : R, 0 < std -> r1 <= r2 ->
  0 < arpls_wR std mean r1 < 1 /\ arpls_wR std mean r2 <= arpls_wR std mean r1.
Proof. intros. split; [apply arpls_range|apply arpls_antitone; assumption]. Qed.
Print Assumptions C09_arpls_range_antitone.

Theorem C09_aspls_range_antitone : forall k std r1 r2 : R, 0 < k -> 0 < std -> r1 <= r2 ->
  0 < aspls_wR k std r1 < 1 /\ aspls_wR k std r2 <= aspls_wR k std r1.
Proof. intros. split; [apply expit_range|apply aspls_antitone; assumption]. Qed.
Print Assumptions C09_aspls_range_antitone.

Theorem C09_airpls_normalised : forall t l1 r rmin : R, 0 < t -> l1 < 0 -> rmin <= r ->
  0 < airpls_wR t l1 r / airpls_wR t l1 rmin <= 1 /\ airpls_wR t l1 r <= airpls_wR t l1 rmin.
Proof. intros. split; [apply airpls_normalised_range|apply airpls_antitone]; assumption. Qed.
Print Assumptions C09_airpls_normalised.

Theorem C09_clip_no_overflow : forall logmax spacing inner : R,
  0 < spacing -> Rmin (Rmax inner 0) (logmax - spacing) < logmax.
Proof. exact airpls_clip_no_overflow. Qed.
Print Assumptions C09_clip_no_overflow.

Theorem C09_quantile_pos : forall q eps r : R, 0 < q < 1 -> 0 < eps -> 0 < quantile_w Num_R q eps r.
Proof. exact quantile_pos. Qed.
Print Assumptions C09_quantile_pos.

(* ---- default / derived parameters of the rules (the same Gallina definitions run bit-exactly
   against _weighting.py with eps=None and with degenerate standard deviations) ---- *)

(* _quantile as coded, for EVERY choice of eps (None = documented default from the fit, or any explicit
   value, even <= 0): strictly positive and at most 1/sqrt(_MIN_FLOAT), because the effective eps is
   max(eps, _MIN_FLOAT) *)
Theorem C09_quantile_full_range : forall (c minf q m : R) (eps : option R) (r : R), 0 < q < 1 -> 0 < minf ->
  0 < quantile_full_w Num_R c minf q m eps r <= 1 / sqrt minf.
Proof. exact quantile_full_range. Qed.
Print Assumptions C09_quantile_full_range.

(* the default eps (c * max(abs(fit)))**2 is > 0 exactly when the fit is not identically zero *)
Theorem C09_quantile_default_eps_pos_iff : forall (c : R) (fit : list R), 0 < c ->
  (0 < eps_default Num_R c (max_abs fit) <-> exists x, In x fit /\ x <> 0).
Proof. exact eps_default_fit_pos_iff. Qed.
Print Assumptions C09_quantile_default_eps_pos_iff.

(* eps=None, fit not below the floor: the rule is the documented one with eps = (1e-6*max|fit|)**2 *)
Theorem C09_quantile_default_documented : forall (c minf q : R) (fit : list R) (r : R),
  minf <= (c * max_abs fit) * (c * max_abs fit) ->
  quantile_full_w Num_R c minf q (max_abs fit) None r
  = quantile_w Num_R q ((c * max_abs fit) * (c * max_abs fit)) r.
Proof. exact quantile_default_documented. Qed.
Print Assumptions C09_quantile_default_documented.

(* eps=None, all-zero fit: the default eps is 0 and the rule runs with eps = _MIN_FLOAT *)
Theorem C09_quantile_default_zero_fit : forall (c minf q : R) (fit : list R) (r : R),
  0 <= minf -> Forall (fun x => x = 0) fit ->
  quantile_full_w Num_R c minf q (max_abs fit) None r = quantile_w Num_R q minf r.
Proof. exact quantile_default_zero_fit. Qed.
Print Assumptions C09_quantile_default_zero_fit.

(* max(abs(fit)) is not abs(max(fit)): for fit = [-5, 0] the first gives eps > 0, the second eps = 0 *)
Theorem C09_quantile_eps_abs_of_max_differs :
  let fit := (-5) :: 0 :: nil in
  0 < eps_default Num_R 1 (max_abs fit) /\ eps_default Num_R 1 (Rabs (max_list fit)) = 0.
Proof. exact eps_abs_of_max_differs. Qed.
Print Assumptions C09_quantile_eps_abs_of_max_differs.

(* drpls / lsrpls / iarpls with the standard deviation as the code derives it (_safe_std: a std that
   is exactly 0 is replaced by _MIN_FLOAT): antitone for every std >= 0, no hypothesis std > 0 left *)
Theorem C09_drpls_lsrpls_safe_std_antitone : forall minf scale std mean r1 r2 : R,
  0 < minf -> 0 < scale -> 0 <= std -> r1 <= r2 ->
  drpls_full_w Num_R minf scale std mean r2 <= drpls_full_w Num_R minf scale std mean r1.
Proof. exact drpls_full_antitone. Qed.
Print Assumptions C09_drpls_lsrpls_safe_std_antitone.

Theorem C09_iarpls_safe_std_antitone : forall minf scale std r1 r2 : R,
  0 < minf -> 0 < scale -> 0 <= std -> r1 <= r2 ->
  iarpls_full_w Num_R minf scale std r2 <= iarpls_full_w Num_R minf scale std r1.
Proof. exact iarpls_full_antitone. Qed.
Print Assumptions C09_iarpls_safe_std_antitone.

(* ---- the two-loop hosts (brpls, pspline_brpls in 1-D and 2-D; goldindec): the bookkeeping that
   tools/gen_loops.py (GenNested) extracts on every run passes the conditions of the two-level skeleton
   (C01/Nested.v); the generator itself refuses an outer stop test that compares with anything but
   tol_2 / tol_3 or reads the inner loop's exit_early flag ---- *)
From PB Require C01.Nested C01.NestedProofs gen.GenNested.

Theorem C09_two_loop_source_checked :
  forallb (fun p => Nested.nested_ok (snd p)) GenNested.nested_descs = true.
Proof. vm_compute. reflexivity. Qed.
Print Assumptions C09_two_loop_source_checked.

(* the documented early exit of the inner loop ends the outer loop in that very iteration *)
Theorem C09_two_loop_early_exit_ends_outer : forall (St D : Type) (istep : nat -> nat -> St -> St * Nested.ires D)
    (ostep : nat -> St -> bool -> list D * bool * St) (n : Nested.ndesc) (m m2 : BinNums.Z),
  Nested.nested_ok n = true ->
  forall fuel i s jmax t s1 j t1, Nested.n_early n = true -> (i < Nested.obudget n m2)%nat ->
  Nested.inner St D istep n m m2 (Nested.ibudget n m) 0 i s t = Some (s1, j, true, t1) ->
  exists x, Nested.outer St D istep ostep n m m2 (S fuel) i s jmax t = Some x /\ Nested.x_i x = i.
Proof.
  intros St D istep ostep n m m2 Hok fuel i s jmax t s1 j t1 He.
  assert (Hv : Nested.n_early n = false -> forall i j s, snd (istep i j s) <> Nested.IEarly)
    by (intros Hf; rewrite Hf in He; discriminate).
  exact (NestedProofs.early_ends_outer St D istep ostep n m m2 Hok Hv fuel i s jmax t s1 j t1 He).
Qed.
Print Assumptions C09_two_loop_early_exit_ends_outer.

(* derpsalsa: for fixed (non-negative) partial weights and p <= 1/2 the weight never increases with
   the residual (so far only the range was proved; the oracle skips this rule's monotonicity) *)
Theorem C09_derpsalsa_antitone : forall p k partial r1 r2 : R, 0 <= p <= / 2 -> 0 < k -> 0 <= partial -> r1 <= r2 ->
  derpsalsa_w Num_R exp p k partial r2 <= derpsalsa_w Num_R exp p k partial r1.
Proof. exact derpsalsa_antitone. Qed.
Print Assumptions C09_derpsalsa_antitone.

(* quantile: on each side of zero the weight decreases with the size of the residual ... *)
Theorem C09_quantile_decreasing_in_abs : forall q eps r1 r2 : R, 0 <= q <= 1 -> 0 < eps ->
  (0 < r1 <= r2 \/ r2 <= r1 <= 0) ->
  quantile_w Num_R q eps r2 <= quantile_w Num_R q eps r1.
Proof. exact quantile_decreasing_in_abs. Qed.
Print Assumptions C09_quantile_decreasing_in_abs.

(* ... and for q <= 1/2 a positive residual never weighs more than the negative one of the same size
   (the rule is NOT antitone on the negative side: it is the documented rho(r)/|r|) *)
Theorem C09_quantile_sides : forall q eps r : R, 0 <= q <= / 2 -> 0 < eps -> 0 < r ->
  quantile_w Num_R q eps r <= quantile_w Num_R q eps (- r).
Proof. exact quantile_sides. Qed.
Print Assumptions C09_quantile_sides.

Example C09_rules_nonvacuous :
  0 < drpls_w Num_R 10 1 (-1) 0 < 1 /\ asls_w Num_R (/ 100) 0 0 = 1 - / 100.
Proof.
  split; [apply drpls_range|]. unfold asls_w. cbv beta iota delta [Num_R gtb sub one T].
  unfold Rgtb. destruct (Rlt_dec 0 0) as [H|H]; [exfalso; apply (Rlt_irrefl 0 H)|reflexivity].
Qed.
