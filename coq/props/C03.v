(* Property C03 -- a reused fitter object gives the same answers as a fresh one.
   This file contains only the property theorems; each is closed by an exact lemma. *)
From Coq Require Import ZArith List Bool Lia.
From Coq Require Import String.
From PB Require Import C03.Model C03.Model2D C03.Proofs C03.Proofs2D C03.Instance
  C03.Table C03.Instantiate gen.GenC03 C03.TableProofs C03.Raise C03.Denote2D.
Import ListNotations.
Open Scope Z_scope.

(* The slicing branch of _PolyHelper.recalc_vandermonde is sound for the way polyvander builds its
   rows (1, x, x*x, ... by repeated multiplication): for ANY carrier and ANY multiplication (so also
   for IEEE doubles, bit for bit) the first q+1 columns of the order-p matrix are the order-q matrix. *)
Theorem C03_vander_prefix : forall (T : Type) (mul : T -> T -> T) (one : T) (xs : list T) (p q : nat),
  (q <= p)%nat -> slice_rows T (vander_rows T mul one xs p) q = vander_rows T mul one xs q.
Proof. exact vander_prefix. Qed.
Print Assumptions C03_vander_prefix.

(* C03_inv (1-D).  For every type of x-values and every (deterministic) polyvander / column-slice
   satisfying the prefix contract, after EVERY finite history of method calls (any methods, orders going
   up and down, weighted or not, calls that raise at any stage, solver changes) the caches denote what
   their attributes claim: the stored Vandermonde is the one of the stored order, a pseudo-inverse not
   flagged stale is the pseudo-inverse of the stored Vandermonde, a stored spline key is a valid one,
   _size is len(x), a set _validated_x flag means x is duplicate-free, (banded, pentapy) solver settings
   are consistent. *)
Theorem C03_inv :
  forall (O : XOps) (V : Type) (vander : X O -> bool -> Z -> V) (slice : V -> Z -> V),
    (forall (x : X O) (dm : bool) (p q : Z), 0 <= q <= p -> slice (vander x dm p) q = vander x dm q) ->
    (forall n : Z, 0 <= n -> xsize O (linspace O n) = n) ->
    (forall n : Z, xunique O (linspace O n) = true) ->
    forall (x0 : option (X O)) (ops : list op),
      Forall wf_op ops -> Inv O V vander slice (run O ops (init O x0)).
Proof. exact inv_run. Qed.
Print Assumptions C03_inv.

(* each single operation (including every raising stage) preserves the invariant *)
Theorem C03_inv_step :
  forall (O : XOps) (V : Type) (vander : X O -> bool -> Z -> V) (slice : V -> Z -> V),
    (forall (x : X O) (dm : bool) (p q : Z), 0 <= q <= p -> slice (vander x dm p) q = vander x dm q) ->
    (forall n : Z, 0 <= n -> xsize O (linspace O n) = n) ->
    (forall n : Z, xunique O (linspace O n) = true) ->
    forall (s : st O) (o : op), Inv O V vander slice s -> wf_op o -> Inv O V vander slice (fst (step O s o)).
Proof. exact step_inv. Qed.
Print Assumptions C03_inv_step.

(* C03_history (1-D).  After ANY history, ANY probe operation observes (the x-values in force, every
   cached array it reads -- Vandermonde, pseudo-inverse, spline basis --, the solver pair, and whether /
   where it raises) exactly what it observes on the object built afresh for the current x-values and
   solver preference.  wf_op only excludes creating a one-point x lazily (see linspace_domain). *)
Theorem C03_history :
  forall (O : XOps) (V P B : Type) (vander : X O -> bool -> Z -> V) (slice : V -> Z -> V)
         (pinv : V -> P) (basis : X O -> Z -> Z -> B),
    (forall (x : X O) (dm : bool) (p q : Z), 0 <= q <= p -> slice (vander x dm p) q = vander x dm q) ->
    (forall n : Z, 0 <= n -> xsize O (linspace O n) = n) ->
    (forall n : Z, xunique O (linspace O n) = true) ->
    (forall n p : Z, 2 <= n -> vander (linspace O n) true p = vander (linspace O n) false p) ->
    forall (x0 : option (X O)) (ops : list op) (probe : op),
      Forall wf_op ops ->
      obs O V P B vander slice pinv basis (run O ops (init O x0)) probe =
      obs O V P B vander slice pinv basis (fresh O (run O ops (init O x0))) probe.
Proof. exact history. Qed.
Print Assumptions C03_history.

(* C03_raise_then_fresh.  A rejected call -- raised in the prologue, on its weights / orders / knots, inside
   SplineBasis or PSpline after the basis was replaced, or anywhere in the body (this covers a method an optimizer
   delegated to) -- leaves the object in a state satisfying the invariant, from which ANY later call observes what it
   observes on a fresh object.  (Configuration attributes -- output dtype, check_finite, sort order -- are constants
   of the model: C03_table_checked proves no registered method body writes through self at all, and
   C03_cells_checked pins the attribute set.) *)
Theorem C03_raise_then_fresh :
  forall (O : XOps) (V P B : Type) (vander : X O -> bool -> Z -> V) (slice : V -> Z -> V)
         (pinv : V -> P) (basis : X O -> Z -> Z -> B),
    (forall (x : X O) (dm : bool) (p q : Z), 0 <= q <= p -> slice (vander x dm p) q = vander x dm q) ->
    (forall n : Z, 0 <= n -> xsize O (linspace O n) = n) ->
    (forall n : Z, xunique O (linspace O n) = true) ->
    (forall n p : Z, 2 <= n -> vander (linspace O n) true p = vander (linspace O n) false p) ->
    forall (x0 : option (X O)) (ops : list op) (o probe : op),
      Forall wf_op ops -> wf_op o ->
      o_err (snd (step O (run O ops (init O x0)) o)) <> None ->
      let s' := fst (step O (run O ops (init O x0)) o) in
      Inv O V vander slice s' /\
      obs O V P B vander slice pinv basis s' probe = obs O V P B vander slice pinv basis (fresh O s') probe.
Proof. exact raise_then_fresh. Qed.
Print Assumptions C03_raise_then_fresh.

Theorem C03_raise_then_fresh_2d : forall (x0 z0 : option Z) (ops : list op2) (o probe : op2),
  o2_err (snd (step2 (run2 ops (init2 x0 z0)) o)) <> None ->
  let s' := fst (step2 (run2 ops (init2 x0 z0)) o) in
  Inv2 s' /\ snd (step2 s' probe) = snd (step2 (fresh2 s') probe).
Proof. exact raise_then_fresh_2d. Qed.
Print Assumptions C03_raise_then_fresh_2d.

(* C03_solver_setting.  banded_solver is plain configuration: a method call never changes it, and after
   any history the pair (banded, pentapy) a call reads is the one written by the last accepted setter. *)
Theorem C03_call_keeps_solver : forall (O : XOps) (s : st O) (c : call),
  s_solver (fst (step O s (Call c))) = s_solver s /\ s_penta (fst (step O s (Call c))) = s_penta s.
Proof. exact call_keeps_solver. Qed.
Print Assumptions C03_call_keeps_solver.

Theorem C03_solver_setting : forall (O : XOps) (ops : list op) (s : st O),
  s_solver (run O ops s) = last_solver ops (s_solver s) /\
  (s_penta s = penta_of (s_solver s) -> s_penta (run O ops s) = penta_of (last_solver ops (s_solver s))).
Proof. exact solver_setting. Qed.
Print Assumptions C03_solver_setting.

(* C03_inv_2d / C03_history_2d (Baseline2D, _PolyHelper2D keyed by (orders, max_cross), lazily created x and z,
   and the THREE-level spline cache: the SplineBasis2D attributes (knots, degrees) that same_basis compares, the
   per-axis bases basis_r / basis_c, and the lazily created full basis `_basis` read only by pspline_iasls).
   Inv2 includes: the per-axis bases are the ones of the key's axes, and the lazy cell is None or the Kronecker
   product of the CURRENT per-axis bases.  Reads (Vandermonde, pseudo-inverse, per-axis bases, full basis) are
   keys; the array a key denotes is a deterministic library function of (x, z, key). *)
Theorem C03_inv_2d : forall (x0 z0 : option Z) (ops : list op2), Inv2 (run2 ops (init2 x0 z0)).
Proof. exact inv2_run. Qed.
Print Assumptions C03_inv_2d.

Theorem C03_history_2d : forall (x0 z0 : option Z) (ops : list op2) (probe : op2),
  snd (step2 (run2 ops (init2 x0 z0)) probe) = snd (step2 (fresh2 (run2 ops (init2 x0 z0))) probe).
Proof. exact history2. Qed.
Print Assumptions C03_history_2d.

(* ---- the call table extracted from the CURRENT source (tools/gen_c03.py -> gen/GenC03.v) ----
   C03_table_checked: every cache use of every registered 1-D / 2-D method is of a kind the state machines
   model (a _setup_polynomial / _setup_spline / _setup_whittaker call whose key arguments are constants or the
   method's own parameters, under at most one recognised guard; no write through self, no other attribute of
   the cache objects, no direct call of another registered method; no 2-D method with require_unique_xz).
   A method gaining a new kind of cache use is emitted as UUnknown and breaks this theorem. *)
Theorem C03_table_checked : table_ok gen_methods = true.
Proof. exact table_checked. Qed.
Print Assumptions C03_table_checked.

(* C03_cells_checked: the attributes assigned through `self` in _PolyHelper, _PolyHelper2D, SplineBasis,
   SplineBasis2D, _Algorithm, _Algorithm2D (and the memoising decorators of their modules), as extracted from the
   CURRENT source, are exactly the list each of whose entries is accounted for by a cell of the models
   (Instantiate.expected_cells).  A new persistent attribute -- a new place where one call can leave something
   for the next -- breaks this theorem. *)
Theorem C03_cells_checked : cells_ok gen_cells = true.
Proof. exact cells_checked. Qed.
Print Assumptions C03_cells_checked.

(* C03_keys_by_value.  The machines compare cache keys by value, i.e. assume a stored key is a value captured at
   call time.  Tie to the source: EVERY assignment to a cache-key attribute (_PolyHelper.poly_order,
   _PolyHelper2D.poly_order / max_cross, SplineBasis(2D).num_knots / spline_degree -- all must be present), as
   classified by the translator from the CURRENT source (names resolved through their bindings and through the call
   sites of the cache classes' methods), stores a constant, a copy (np.array(...), int(...), tuple(...), .item(), ...)
   or an immutable scalar (_check_scalar_variable(..., two_d=False)); never the caller's own array. *)
Theorem C03_keys_by_value :
  keys_complete gen_key_stores = true /\
  (forall c a m k, In (c, a, m, k) gen_key_stores -> kstore_by_value k = true).
Proof.
  split; [|exact keys_by_value].
  pose proof keys_checked as H. apply Bool.andb_true_iff in H. exact (proj1 H).
Qed.
Print Assumptions C03_keys_by_value.

(* soundness of the check, for ANY table: every method found in a checked table is modelled, i.e.
   instantiates (for all argument values) to an operation of the 1-D resp. 2-D machine *)
Theorem C03_table_sound : forall t : list minfo, table_ok t = true ->
  (forall name dim m, lookup t name dim = Some m -> minfo_ok m = true) /\
  (forall name a m, lookup t name 1 = Some m -> inst t (IMethod name a) = Some (call_of m a)) /\
  (forall name a m, lookup t name 2 = Some m -> inst2 t (IMethod2 name a) = Some (call_of2 m a)).
Proof. intros t Ht. split; [exact (table_ok_sound t Ht)|split; [exact (inst_total_any t Ht)|exact (inst2_total_any t Ht)]]. Qed.
Print Assumptions C03_table_sound.

(* C03_history for histories given as (registered method name, argument values) through the generated table *)
Theorem C03_history_table :
  forall (O : XOps) (V P B : Type) (vander : X O -> bool -> Z -> V) (slice : V -> Z -> V)
         (pinv : V -> P) (basis : X O -> Z -> Z -> B),
    (forall (x : X O) (dm : bool) (p q : Z), 0 <= q <= p -> slice (vander x dm p) q = vander x dm q) ->
    (forall n : Z, 0 <= n -> xsize O (linspace O n) = n) ->
    (forall n : Z, xunique O (linspace O n) = true) ->
    (forall n p : Z, 2 <= n -> vander (linspace O n) true p = vander (linspace O n) false p) ->
    forall (x0 : option (X O)) (items : list item) (ops : list op) (pitem : item) (probe : op),
      inst_all gen_methods items = Some ops -> Forall item_wf items -> inst gen_methods pitem = Some probe ->
      obs O V P B vander slice pinv basis (run O ops (init O x0)) probe =
      obs O V P B vander slice pinv basis (fresh O (run O ops (init O x0))) probe.
Proof. exact history_table. Qed.
Print Assumptions C03_history_table.

(* an optimizer call (its own prologue, then the calls it delegates to methods of the same object, stopping
   at the first raise) executes a prefix of its operation list: covered by the theorems over all lists *)
Theorem C03_group_prefix : forall (ops : list op) (s : st XSym),
  exists k, fst (step_group s ops) = run XSym (firstn k ops) s.
Proof. exact step_group_prefix. Qed.
Print Assumptions C03_group_prefix.

(* The 2-D theorems lifted from keys to the arrays the keys denote, for ANY deterministic library functions of the
   object's axes (E = the x and z arrays): C03_inv_2d_denoted -- after every history the stored Vandermonde is the one
   of the stored orders / max_cross, a pseudo-inverse not flagged stale is the pseudo-inverse of the stored Vandermonde,
   the per-axis bases are those of the key's axes and the lazy full basis is absent or the Kronecker product of the
   CURRENT per-axis bases; C03_history_2d_denoted -- a probe reads the same arrays as on a fresh object. *)
Theorem C03_inv_2d_denoted :
  forall (E V P B F : Type) (vander2 : E -> key2 -> V) (pinv : V -> P) (basis : E -> bool -> akey -> B)
         (kron : B -> B -> F) (e : E) (x0 z0 : option Z) (ops : list op2),
    DInv2 E V P B F vander2 pinv basis kron e (run2 ops (init2 x0 z0)).
Proof. exact inv2_run_denoted. Qed.
Print Assumptions C03_inv_2d_denoted.

Theorem C03_history_2d_denoted :
  forall (E V P B F : Type) (vander2 : E -> key2 -> V) (pinv : V -> P) (basis : E -> bool -> akey -> B)
         (kron : B -> B -> F) (e : E) (x0 z0 : option Z) (ops : list op2) (probe : op2),
    dobs2 E V P B F vander2 pinv basis kron e (snd (step2 (run2 ops (init2 x0 z0)) probe)) =
    dobs2 E V P B F vander2 pinv basis kron e (snd (step2 (fresh2 (run2 ops (init2 x0 z0))) probe)).
Proof. exact history2_denoted. Qed.
Print Assumptions C03_history_2d_denoted.

Theorem C03_group_prefix_2d : forall (ops : list op2) (s : st2),
  exists k, fst (step_group2 s ops) = run2 (firstn k ops) s.
Proof. exact step_group2_prefix. Qed.
Print Assumptions C03_group_prefix_2d.

(* non-vacuity: the contracts of C03_history are jointly satisfiable (lists of integers, repeated
   multiplication, firstn), giving a hypothesis-free instance of the theorem *)
Example C03_contracts_nonvacuous : forall (x0 : option (list Z)) (ops : list op) (probe : op),
  Forall wf_op ops ->
  obs XL _ _ _ vanderL sliceL (fun v => v) (fun x k d => (x, k, d)) (run XL ops (init XL x0)) probe =
  obs XL _ _ _ vanderL sliceL (fun v => v) (fun x k d => (x, k, d)) (fresh XL (run XL ops (init XL x0))) probe.
Proof. exact history_instance. Qed.

(* non-vacuity of the premise: a history 5 -> 2 -> 7 in polynomial order with weighted and unweighted
   calls, raising calls, a spline-key change with equal knots+degree and a solver change is well formed
   and drives the model through the slice / stale / recompute branches *)
Example C03_history_example_nonvacuous :
  Forall wf_op example_ops /\
  map (fun o => (nth 4 o 0, nth 5 o 0, nth 6 o 0, nth 8 o 0, nth 10 o 0, nth 11 o 0, nth 12 o 0, nth 14 o 0))
      (trace (init XSym None) example_ops)
  = [ (5, 6, 0, 6, -1, -1, 2, 0); (2, 3, 1, 6, -1, -1, 2, 0); (2, 3, 1, 6, -1, -1, 2, 1); (2, 3, 1, 6, -1, -1, 2, 0);
      (2, 3, 1, 6, -1, -1, 4, 0); (2, 3, 1, 6, 5, 3, 4, 0); (2, 3, 1, 6, 6, 2, 4, 1); (7, 8, 0, 8, 6, 2, 4, 1) ].
Proof. split; [exact example_wf|exact example_trace]. Qed.
