(* Property C19 -- LOESS gives the same fit whichever internal strategy is used.
   Model: C19/Model.v (one model over an abstract number record; the binary64 instance C19/Float.v is what the
   harness evaluates against pybaselines/polynomial.py on every run).  Proofs: C19/FitsProofs.v, C19/MemProofs.v.

   C19_poly_exact is proved at the level of the local linear system (C19_poly_exact_partial); its lifting to the
   list-based kernel loop of the model is not proved (oracle). *)
From Coq Require Import ZArith List Bool QArith Qcanon.
From PB Require Import C19.Model C19.FitsProofs C19.MemProofs C19.InterpProofs C19.NearestProofs C19.PolyProofs C19.HistoryProofs.
Import ListNotations.
Open Scope Z_scope.

(* _determine_fits, for EVERY number instance R (integers, rationals, binary64 with NaNs: nothing is assumed about
   the arithmetic or the comparisons), every x (any length, sorted or not), every num_x >= 1, every
   1 <= total_points <= num_x and every delta:
     - the first and the last point are fitted; fitted indices strictly increase;
     - one window per fitted point; every window has exactly total_points entries and lies inside [0, num_x);
     - every skip entry is (a, b + 1) for two CONSECUTIVE fitted indices a < b, and every pair of consecutive
       fitted indices with something in between has its skip entry: skips are exactly the gaps (a final entry
       over an empty gap (N-3, N-1) can occur; it interpolates nothing);
     - not (delta > 0)  =>  every point is fitted and there are no skips.
   No side condition is needed after f7472e9 / 81e4538 (before them: total_points < num_x on the
   second-to-last branch and num_x >= 2). *)
Theorem C19_fits_spec : forall (R : Num) (xs : list (T R)) (N tp : Z) (delta : T R),
  1 <= N -> 1 <= tp <= N ->
  let '(windows, fits, skips) := determine_fits R xs N tp delta in
  hd 0 fits = 0 /\ last fits 0 = N - 1 /\
  incr fits /\
  length windows = length fits /\
  Forall (fun w => snd w - fst w = tp /\ 0 <= fst w /\ snd w <= N) windows /\
  (forall p, In p skips -> In p (cpairs fits)) /\
  (forall p, In p (gaps fits) -> In p skips) /\
  (ltb R (zero R) delta = false -> fits = zrange 0 (Z.to_nat N) /\ skips = []).
Proof. exact determine_fits_spec. Qed.
Print Assumptions C19_fits_spec.

(* every window contains the point it is fitted for: left <= i always for non-decreasing x, and i < right when
   x is strictly increasing (what loess requires: require_unique_x).  Integer instance (exact arithmetic). *)
Theorem C19_window_contains : forall (xs : list Z) (N tp delta : Z) (strict : bool),
  1 <= N -> 1 <= tp <= N -> N = zlen xs ->
  (forall a b, 0 <= a <= b -> b < N -> X Num_Z xs a <= X Num_Z xs b) ->
  (strict = true -> forall a b, 0 <= a < b -> b < N -> X Num_Z xs a < X Num_Z xs b) ->
  let '(windows, fits, _) := determine_fits Num_Z xs N tp delta in
  Forall2 (fun i w => fst w <= i /\ (strict = true -> i < snd w)) fits windows.
Proof. exact determine_fits_contains. Qed.
Print Assumptions C19_window_contains.

(* with ties in x the right half fails in the model (and in the code): the window of a tied point need not
   contain its index -- the reason loess insists on strictly increasing x.  x = [0,0,0,0,0], total_points = 2,
   delta = 0: point 2 gets the window (0, 2). *)
Theorem C19_window_contains_ties_refuted :
  exists (xs : list Z) (tp delta : Z),
    (forall a b, 0 <= a <= b -> b < zlen xs -> X Num_Z xs a <= X Num_Z xs b) /\
    let '(windows, fits, _) := determine_fits Num_Z xs (zlen xs) tp delta in
    exists k, nth k fits 0 = 2 /\ nth k windows (0, 0) = (0, 2).
Proof. exact contains_ties_refuted. Qed.
Print Assumptions C19_window_contains_ties_refuted.

(* conserve_memory=True (_loess_low_memory every pass) and conserve_memory=False (_loess_first_loop, then
   _loess_nonfirst_loops on the cached kernels) produce the same baseline, coefficient rows, weights, fit data and
   tol_history for every max_iter -- for every number instance, solver, prediction, stop test, reweighting /
   thresholding rule and np.empty contents, on the windows/fits/skips of _determine_fits.  Taking
   Coef := (arguments of the solver) and local_fit := pair shows that the solver is called with identical
   arguments and its results are stored at the same x-indices. *)
Theorem C19_memory_equiv : forall (R : Num) (Coef D : Type)
    (local_fit : list (list (T R)) -> list (T R) -> Coef) (predict : list (T R) -> Coef -> T R)
    (reldiff : list (T R) -> list (T R) -> D) (below : D -> bool)
    (update : list (T R) -> list (T R) -> list (T R) -> list (T R) * list (T R)) (garbage : nat -> Z -> T R)
    (xraw x : list (T R)) (vander : list (list (T R))) (ncoef : nat) (N tp : Z) (delta : T R)
    (s0 : dstate R Coef D) (max_iter : nat),
  1 <= N -> 1 <= tp <= N ->
  let '(windows, fits, skips) := determine_fits R xraw N tp delta in
  observe R Coef N D (drive R Coef local_fit predict x vander ncoef N windows fits skips D reldiff below update garbage true (S max_iter) O s0)
  = observe R Coef N D (drive R Coef local_fit predict x vander ncoef N windows fits skips D reldiff below update garbage false (S max_iter) O s0).
Proof. exact memory_equiv. Qed.
Print Assumptions C19_memory_equiv.

(* HISTORIES.  One loess call does not depend on what earlier calls left in the kernel cache: for either strategy on
   either side (c1, c2) and ANY two initial driver states that agree on data, weights, baseline, coefficients and
   history but carry arbitrary (stale, partially filled, foreign) kernel caches, the observable results coincide --
   because the cached strategy refills the cache in its first iteration (`elif i == 0`).  The translator obligation
   C19_driver_stateless (props/C19_state.v) shows the driver hands nothing else from one call to the next, so the
   strategies agree after every sequence of earlier loess calls on the same object. *)
Theorem C19_history_independent : forall (R : Num) (Coef D : Type)
    (local_fit : list (list (T R)) -> list (T R) -> Coef) (predict : list (T R) -> Coef -> T R)
    (reldiff : list (T R) -> list (T R) -> D) (below : D -> bool)
    (update : list (T R) -> list (T R) -> list (T R) -> list (T R) * list (T R)) (garbage : nat -> Z -> T R)
    (xraw x : list (T R)) (vander : list (list (T R))) (ncoef : nat) (N tp : Z) (delta : T R)
    (c1 c2 : bool) (a b : dstate R Coef D) (max_iter : nat),
  1 <= N -> 1 <= tp <= N ->
  d_y _ _ _ a = d_y _ _ _ b -> d_w _ _ _ a = d_w _ _ _ b -> d_base _ _ _ a = d_base _ _ _ b ->
  d_coefs _ _ _ a = d_coefs _ _ _ b -> d_hist _ _ _ a = d_hist _ _ _ b ->
  let '(windows, fits, skips) := determine_fits R xraw N tp delta in
  observe R Coef N D (drive R Coef local_fit predict x vander ncoef N windows fits skips D reldiff below update garbage c1 (S max_iter) O a)
  = observe R Coef N D (drive R Coef local_fit predict x vander ncoef N windows fits skips D reldiff below update garbage c2 (S max_iter) O b).
Proof. exact history_independent_fits. Qed.
Print Assumptions C19_history_independent.

(* The stop test applies to every pass, the first included (source tie: C19_driver_stop_test, props/C19_driver.v): if the
   first recorded difference is below tol, the driver returns the first-pass fit untouched -- baseline and coefficients of
   pass 0, weights and fit data not updated, one tol_history entry -- whichever strategy runs.  Hence whatever one pass
   reproduces (C19_poly_exact_partial) the full iteration with default tol / max_iter reproduces. *)
Theorem C19_first_pass_exit : forall (R : Num) (Coef D : Type)
    (local_fit : list (list (T R)) -> list (T R) -> Coef) (predict : list (T R) -> Coef -> T R)
    (reldiff : list (T R) -> list (T R) -> D) (below : D -> bool)
    (update : list (T R) -> list (T R) -> list (T R) -> list (T R) * list (T R)) (garbage : nat -> Z -> T R)
    (x : list (T R)) (vander : list (list (T R))) (ncoef : nat) (N : Z)
    (windows : list (Z * Z)) (fits : list Z) (skips : list (Z * Z)) (conserve : bool) (max_iter : nat) (s : dstate R Coef D),
  let p := pass R Coef local_fit predict x vander ncoef N windows fits skips (mode_of conserve O) (garbage O)
             (d_y _ _ _ s) (d_w _ _ _ s) (d_coefs _ _ _ s) (d_cache _ _ _ s) in
  let b := fst (fst p) in
  below (reldiff (d_base _ _ _ s) b) = true ->
  let r := drive R Coef local_fit predict x vander ncoef N windows fits skips D reldiff below update garbage conserve (S max_iter) O s in
  d_base _ _ _ r = b /\ d_coefs _ _ _ r = snd (fst p) /\ d_w _ _ _ r = d_w _ _ _ s /\ d_y _ _ _ r = d_y _ _ _ s /\
  d_hist _ _ _ r = reldiff (d_base _ _ _ s) b :: d_hist _ _ _ s.
Proof. exact first_pass_exit. Qed.
Print Assumptions C19_first_pass_exit.

(* the same for any index lists without repeated fitted indices (what the equivalence really needs) *)
Theorem C19_memory_equiv_nodup : forall (R : Num) (Coef : Type)
    (local_fit : list (list (T R)) -> list (T R) -> Coef) (predict : list (T R) -> Coef -> T R)
    (x : list (T R)) (vander : list (list (T R))) (ncoef : nat) (N : Z)
    (windows : list (Z * Z)) (fits : list Z) (skips : list (Z * Z)),
  NoDup fits ->
  forall (D : Type) (reldiff : list (T R) -> list (T R) -> D) (below : D -> bool)
    (update : list (T R) -> list (T R) -> list (T R) -> list (T R) * list (T R)) (garbage : nat -> Z -> T R)
    (max_iter : nat) (s0 : dstate R Coef D),
  observe R Coef N D (drive R Coef local_fit predict x vander ncoef N windows fits skips D reldiff below update garbage true (S max_iter) O s0)
  = observe R Coef N D (drive R Coef local_fit predict x vander ncoef N windows fits skips D reldiff below update garbage false (S max_iter) O s0).
Proof. exact memory_equiv_nodup. Qed.
Print Assumptions C19_memory_equiv_nodup.

(* _fill_skips on the output of _determine_fits (any number instance, any x, any baseline b0 left by the kernel
   loop): fitted entries are not touched; every index strictly between two consecutive fitted indices a < e-1
   receives exactly  b0[a] + (x[j] - x[a]) * ((b0[e-1] - b0[a]) / (x[e-1] - x[a]))  -- the straight line between
   the two neighbouring fitted points; and every index of [0, N) is of one of these two kinds. *)
Theorem C19_interp_line : forall (R : Num) (xraw x : list (T R)) (N tp : Z) (delta : T R) (b0 : Z -> T R),
  1 <= N -> 1 <= tp <= N ->
  let '(_, fits, skips) := determine_fits R xraw N tp delta in
  let b := fill_skips R x b0 skips in
  (forall i, In i fits -> b i = b0 i) /\
  (forall a e j, In (a, e) (cpairs fits) -> a < j < e - 1 ->
     b j = add R (b0 a) (mul R (sub R (pyget (zero R) x j) (pyget (zero R) x a))
                              (div R (sub R (b0 (e - 1)) (b0 a)) (sub R (pyget (zero R) x (e - 1)) (pyget (zero R) x a))))) /\
  (forall j, 0 <= j < N -> In j fits \/ exists a e, In (a, e) (cpairs fits) /\ a < j < e - 1).
Proof. exact interp_line. Qed.
Print Assumptions C19_interp_line.

(* consequently nothing of the uninitialised np.empty baseline survives: two runs that agree at the fitted
   indices return the same baseline (this is what makes the `garbage` argument of C19_memory_equiv harmless) *)
Theorem C19_no_garbage : forall (R : Num) (xraw x : list (T R)) (N tp : Z) (delta : T R) (b0 b0' : Z -> T R),
  1 <= N -> 1 <= tp <= N ->
  let '(_, fits, skips) := determine_fits R xraw N tp delta in
  (forall i, In i fits -> b0 i = b0' i) ->
  tab N (fill_skips R x b0 skips) = tab N (fill_skips R x b0' skips).
Proof. exact no_garbage. Qed.
Print Assumptions C19_no_garbage.

(* Nearest-neighbour windows (integer instance, non-decreasing x).  `nn` in boundary form: the first point left of the
   window is at least as far from x[i] as the last point inside, the first point right of it at least as far as the
   first point inside.  EVERY window chosen by the sliding loop, the first and the last window, and the full window
   of the second-to-last branch are nearest-neighbour windows; the only possible exception is the shifted window
   (N-tp-1, N-1) of the second-to-last branch (see the _refuted witness below). *)
Theorem C19_nearest : forall (xs : list Z) (N tp delta : Z),
  1 <= N -> 1 <= tp <= N -> N = zlen xs ->
  (forall a b, 0 <= a <= b -> b < N -> X Num_Z xs a <= X Num_Z xs b) ->
  let '(windows, fits, _) := determine_fits Num_Z xs N tp delta in
  Forall2 (fun i w =>
     ((0 < fst w -> X Num_Z xs i - X Num_Z xs (fst w - 1) >= X Num_Z xs (snd w - 1) - X Num_Z xs i) /\
      (snd w < N -> X Num_Z xs (snd w) - X Num_Z xs i >= X Num_Z xs i - X Num_Z xs (fst w)))
     \/ (i = N - 2 /\ w = (N - tp - 1, N - 1))) fits windows.
Proof. exact determine_fits_nearest. Qed.
Print Assumptions C19_nearest.

(* what the boundary form means for a window that contains its point (C19_window_contains): no point outside the
   window is strictly closer to x[i] than any point inside *)
Theorem C19_nearest_meaning : forall (xs : list Z) (N tp : Z),
  1 <= N -> 1 <= tp <= N ->
  (forall a b, 0 <= a <= b -> b < N -> X Num_Z xs a <= X Num_Z xs b) ->
  forall i l r,
  ((0 < l -> X Num_Z xs i - X Num_Z xs (l - 1) >= X Num_Z xs (r - 1) - X Num_Z xs i) /\
   (r < N -> X Num_Z xs r - X Num_Z xs i >= X Num_Z xs i - X Num_Z xs l)) ->
  0 <= l -> l <= i < r -> r <= N ->
  forall j k, 0 <= j < N -> (j < l \/ r <= j) -> l <= k < r ->
    Z.abs (X Num_Z xs k - X Num_Z xs i) <= Z.abs (X Num_Z xs j - X Num_Z xs i).
Proof. exact nn_meaning. Qed.
Print Assumptions C19_nearest_meaning.

(* the second-to-last branch as coded (`x[-1] - x[-2] < x[-2] - x[num_x - total_points]`, i.e. against x[N-tp]
   instead of x[N-tp-1]) can choose a window that is NOT nearest: x = [0,5,10,11], total_points = 2, delta = 100:
   point 2 (x = 10) is fitted on {5, 10} although 11 is strictly closer than 5.  Not a C19 violation by the letter
   (the window has total_points neighbouring points containing the point); recorded as an observation. *)
Theorem C19_nearest_second_last_refuted :
  exists (xs : list Z) (tp delta : Z),
    (forall a b, 0 <= a < b -> b < zlen xs -> X Num_Z xs a < X Num_Z xs b) /\
    let '(windows, fits, _) := determine_fits Num_Z xs (zlen xs) tp delta in
    exists k, nth k fits 0 = 2 /\ nth k windows (0, 0) = (1, 3) /\
      Z.abs (X Num_Z xs 3 - X Num_Z xs 2) < Z.abs (X Num_Z xs 1 - X Num_Z xs 2).
Proof. exact nearest_second_last_refuted. Qed.
Print Assumptions C19_nearest_second_last_refuted.

(* Polynomial exactness of one local fit, over the rationals (the proof is ring-only and generic in the ring).
   With A[a][t] = kernel[t] * (vander[t][a] * w[t]) and b[t] = kernel[t] * (y[t] * w[t]) exactly as `fit_args` builds
   them, data y[t] = sum_a vander[t][a] * c0[a] (a polynomial of degree <= poly_order), a solver result c with
   (A A^T) c = A b, and a non-singular normal matrix (A A^T d = 0 -> d = 0):  c = c0, hence vander[i].dot(c) is the
   polynomial's value for every row.  (total_points = poly_order + 1 never satisfies the non-singularity
   hypothesis: the tricube kernel vanishes at the farthest point.)
   PARTIAL: the full statement -- `pass` of C19/Model.v with such a `local_fit` returns y at every fitted index --
   needs the list-level refinement of fit_args/predict to these sums and is not proved. *)
Theorem C19_poly_exact_partial : forall (m q : nat) (V : nat -> nat -> Qc) (kk w c0 c : nat -> Qc),
  let A := fun a t => Qcmult (kk t) (Qcmult (V t a) (w t)) in
  let y := fun t => rsum Qc 0%Qc Qcplus q (fun a => Qcmult (V t a) (c0 a)) in
  let b := fun t => Qcmult (kk t) (Qcmult (y t) (w t)) in
  let normal := fun d a => rsum Qc 0%Qc Qcplus m (fun t => Qcmult (A a t) (rsum Qc 0%Qc Qcplus q (fun a' => Qcmult (A a' t) (d a')))) in
  (forall a, (a < q)%nat -> normal c a = rsum Qc 0%Qc Qcplus m (fun t => Qcmult (A a t) (b t))) ->
  (forall d, (forall a, (a < q)%nat -> normal d a = 0%Qc) -> forall a, (a < q)%nat -> d a = 0%Qc) ->
  (forall a, (a < q)%nat -> c a = c0 a) /\
  (forall v : nat -> Qc, rsum Qc 0%Qc Qcplus q (fun a => Qcmult (v a) (c a)) = rsum Qc 0%Qc Qcplus q (fun a => Qcmult (v a) (c0 a))).
Proof. exact poly_exact_Qc. Qed.
Print Assumptions C19_poly_exact_partial.

Example C19_poly_exact_hyps_nonvacuous :
  let one := fun _ : nat => 1%Qc in
  let V := fun _ _ : nat => 1%Qc in
  let c := fun _ : nat => Q2Qc 3 in
  (forall a, (a < 1)%nat -> normal Qc 0%Qc Qcplus Qcmult 1 1 V one one c a =
      rsum Qc 0%Qc Qcplus 1 (fun t => Qcmult (A Qc Qcmult V one one a t) (b Qc 0%Qc Qcplus Qcmult 1 V one one c t))) /\
  (forall d, (forall a, (a < 1)%nat -> normal Qc 0%Qc Qcplus Qcmult 1 1 V one one d a = 0%Qc) ->
     forall a, (a < 1)%nat -> d a = 0%Qc).
Proof. exact poly_exact_hyps_nonvacuous. Qed.

(* the hypotheses are satisfiable and the statements are not about trivial outputs: x = 0..7,
   total_points = 3, delta = 3 skips points 1, 3 and 5 (three interpolation segments) *)
Example C19_fits_spec_nonvacuous :
  determine_fits Num_Z [0; 1; 2; 3; 4; 5; 6; 7] 8 3 3 =
    ([(0, 3); (1, 4); (3, 6); (5, 8); (5, 8)], [0; 2; 4; 6; 7], [(0, 3); (2, 5); (4, 7)]).
Proof. vm_compute. reflexivity. Qed.

(* the corner repaired by f7472e9: total_points = num_x on the second-to-last branch *)
Example C19_second_last_full_window_nonvacuous :
  determine_fits Num_Z [0; 1; 2; 10] 4 4 100 = ([(0, 4); (0, 4); (0, 4)], [0; 2; 3], [(0, 3)]).
Proof. vm_compute. reflexivity. Qed.
