(* Property C10, growth: PSpline.solve_pspline does not depend on whether numba is importable
   (B'WB accumulated in bands by _numba_btb_bty  vs  the scipy.sparse product B.T @ diags(w) @ B ->
   _sparse_to_banded -> ab[len(ab) // 2:]) nor on allow_lower (banded_solver < 4 or = 4).
   Both assembly paths are modelled in C07/Model.v (make_ab) and proved there to denote B'WB + Q
   (C07_solve_pspline); the kernel itself is modelled loop by loop in C12/Model.v and proved in
   C12/Btb.v to accumulate sum_i w_i B[i,r] B[i,c].  This file states the configuration invariance and
   bridges the two developments on the integers. *)
From Coq Require Import ZArith List Bool Lia ZifyBool.
From PB Require Import lib.SumZ lib.PySlice lib.Arr C11.DtD C11.Table gen.GenBands C11.Banded
                       C10.Syntax gen.GenC10 C07.Model C07.Proofs.
Import ListNotations.
Open Scope Z_scope.

(* the two things a configuration decides for a P-spline system *)
Definition ps_allow_lower (bs : Z) (allow_lower : bool) : bool := sp_allow_lower allow_lower bs.

Section Paths.
  Variable O : ops.
  Hypothesis Rth : ring_theory (zero O) (one O) (add O) (mul O) (sub O) (opp O) (@eq (T O)).
  Hypothesis is0_sound : forall x : T O, is0 O x = true -> x = zero O.
  Hypothesis ofZ0 : ofZ O 0 = zero O.

  Variables (M : nat) (k : Z) (n : nat) (B : Z -> Z -> T O) (left : Z -> Z).
  Hypothesis Hk : 0 <= k.
  (* row i of the design matrix is supported on the k + 1 columns left i - k .. left i *)
  Hypothesis Hsup : forall i c, 0 <= i < Z.of_nat n -> c < left i - k \/ left i < c -> B i c = zero O.

  (* any two PSpline objects for the same basis whose penalty arrays denote the same matrix Q (in the
     layout of their own `lower` flag), each on either assembly path *)
  Theorem solve_pspline_paths (s1 s2 : ps O) (numba1 numba2 : bool) (w y : Z -> T O)
      (rhs_extra : option (Z -> T O)) (u1 u2 : Z) (Q : Z -> Z -> T O) :
    p_M s1 = M -> p_k s1 = k -> p_M s2 = M -> p_k s2 = k ->
    Rep O M (p_lower s1) (p_pen s1) u1 Q -> Rep O M (p_lower s2) (p_pen s2) u2 Q ->
    exists c1 c2,
      solve_pspline O s1 numba1 n B w y None rhs_extra = Some c1 /\
      solve_pspline O s2 numba2 n B w y None rhs_extra = Some c2 /\
      call_wf O (Z.of_nat M) c1 = true /\ call_wf O (Z.of_nat M) c2 = true /\
      (forall i j, inR M i -> inR M j ->
         den O c1 i j = den O c2 i j /\ den O c1 i j = add O (btwb O n B w i j) (Q i j)) /\
      (forall r, k_rhs c1 r = k_rhs c2 r).
  Proof.
    intros M1 K1 M2 K2 R1 R2.
    destruct (solve_pspline_spec O Rth is0_sound M k n B left Hk Hsup s1 numba1 w y None rhs_extra
                (p_pen s1) u1 Q M1 K1 eq_refl R1) as (c1 & E1 & _ & W1 & D1 & H1).
    destruct (solve_pspline_spec O Rth is0_sound M k n B left Hk Hsup s2 numba2 w y None rhs_extra
                (p_pen s2) u2 Q M2 K2 eq_refl R2) as (c2 & E2 & _ & W2 & D2 & H2).
    exists c1, c2. repeat (split; [assumption|]). split.
    - intros i j Hi Hj. rewrite D1, D2 by assumption. split; reflexivity.
    - intros r. rewrite H1, H2. reflexivity.
  Qed.

  (* the systems _setup_spline builds under two configurations (banded_solver b1 / b2, numba importable
     or not), default reverse_diags: same matrix B'WB + lam D'D, same right-hand side *)
  Theorem pspline_config_invariant (b1 b2 : Z) (numba1 numba2 al : bool) (lam : T O) (d : nat)
      (w y : Z -> T O) :
    (1 <= d < M)%nat ->
    exists s1 s2 c1 c2,
      pspline_init O k M lam d (ps_allow_lower b1 al) false = Some s1 /\
      pspline_init O k M lam d (ps_allow_lower b2 al) false = Some s2 /\
      solve_pspline O s1 numba1 n B w y None None = Some c1 /\
      solve_pspline O s2 numba2 n B w y None None = Some c2 /\
      k_lower c1 = ps_allow_lower b1 al /\ k_lower c2 = ps_allow_lower b2 al /\
      call_wf O (Z.of_nat M) c1 = true /\ call_wf O (Z.of_nat M) c2 = true /\
      (forall i j, inR M i -> inR M j ->
         den O c1 i j = den O c2 i j /\ den O c1 i j = add O (btwb O n B w i j) (Pq O M d lam i j)) /\
      (forall r, k_rhs c1 r = k_rhs c2 r /\ k_rhs c1 r = bty O n B w y r).
  Proof.
    intros Hd.
    destruct (init_spec O Rth is0_sound ofZ0 M k lam d (ps_allow_lower b1 al) false Hd Hk)
      as (s1 & I1 & K1 & M1 & L1 & _ & _ & R1 & _).
    destruct (init_spec O Rth is0_sound ofZ0 M k lam d (ps_allow_lower b2 al) false Hd Hk)
      as (s2 & I2 & K2 & M2 & L2 & _ & _ & R2 & _).
    specialize (R1 eq_refl). specialize (R2 eq_refl). rewrite <- L1 in R1. rewrite <- L2 in R2.
    destruct (solve_pspline_spec O Rth is0_sound M k n B left Hk Hsup s1 numba1 w y None None
                (p_pen s1) _ _ M1 K1 eq_refl R1) as (c1 & E1 & F1 & W1 & D1 & H1).
    destruct (solve_pspline_spec O Rth is0_sound M k n B left Hk Hsup s2 numba2 w y None None
                (p_pen s2) _ _ M2 K2 eq_refl R2) as (c2 & E2 & F2 & W2 & D2 & H2).
    exists s1, s2, c1, c2. repeat (split; [assumption|]).
    split; [congruence|]. split; [congruence|]. repeat (split; [assumption|]). split.
    - intros i j Hi Hj. rewrite D1, D2 by assumption. split; reflexivity.
    - intros r. rewrite H1, H2. split; reflexivity.
  Qed.
End Paths.

(* the configuration really changes the object: banded_solver 4 forces full bands *)
Lemma ps_allow_lower_4 al : ps_allow_lower 4 al = false.
Proof. unfold ps_allow_lower, sp_allow_lower. apply andb_false_r. Qed.
Lemma ps_allow_lower_lt4 b : b < 4 -> ps_allow_lower b true = true.
Proof. unfold ps_allow_lower, sp_allow_lower. lia. Qed.
