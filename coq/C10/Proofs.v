(* Proofs for property C10: for every size N > d, every diff_order, every data / weights / lam and
   every one of the 16 configurations (banded_solver 1..4 x pentapy importable or not x numba
   importable or not), the solver selected by PenalizedSystem.solve reads exactly the layout the
   bands are in, and the matrix + right-hand side it receives are the same for all configurations.
   Built on C11 (the penalty bands denote D'D for every N, layout and reconfiguration history). *)
From Coq Require Import ZArith List Bool Lia ZifyBool.
From PB Require Import lib.SumZ lib.PySlice lib.Arr C11.DtD C11.Table gen.GenBands C11.Banded C11.History
                       C10.Syntax gen.GenC10 C10.Model.
Import ListNotations.
Open Scope Z_scope.

Ltac Zify.zify_post_hook ::= Z.to_euclidean_division_equations.
(* split syntactic conjunctions only (never unfolds Rep / aeq) *)
Ltac splits := repeat match goal with |- _ /\ _ => split end.

(* ------------------------------------------------------------------ banded representations *)
Definition Banded (N u : Z) (B : Z -> Z -> Z) : Prop :=
  forall i j, 0 <= i < N -> 0 <= j < N -> u < Z.abs (i - j) -> B i j = 0.
Definition Sym (N : Z) (B : Z -> Z -> Z) : Prop :=
  forall i j, 0 <= i < N -> 0 <= j < N -> B i j = B j i.

(* array a stores the band |i - j| <= u of the N x N matrix B in layout L *)
Definition Rep (L : storage) (u N : Z) (a : arr) (B : Z -> Z -> Z) : Prop :=
  nr a = rows L u /\ nc a = N /\
  forall i j, 0 <= i < N -> 0 <= j < N -> Z.abs (i - j) <= u ->
    get a (fst (coord L u i j)) (snd (coord L u i j)) = B i j.

Definition main_of (L : storage) (u : Z) : Z := match L with LLower => 0 | _ => u end.

Lemma coord_bounds L u N i j : 0 <= i < N -> 0 <= j < N -> Z.abs (i - j) <= u ->
  0 <= fst (coord L u i j) < rows L u /\ 0 <= snd (coord L u i j) < N.
Proof. intros. destruct L; cbn [coord rows fst snd]; lia. Qed.

Lemma rep_ext L u N a B B' :
  (forall i j, 0 <= i < N -> 0 <= j < N -> B i j = B' i j) -> Rep L u N a B -> Rep L u N a B'.
Proof. intros E (H1 & H2 & H3). repeat split; try assumption. intros. rewrite H3 by assumption. auto. Qed.

Lemma rep_aeq L u N a b B : aeq a b -> Rep L u N b B -> Rep L u N a B.
Proof.
  intros (E1 & E2 & E3) (H1 & H2 & H3). repeat split; try congruence.
  intros i j Hi Hj Hb. destruct (coord_bounds L u N i j Hi Hj Hb).
  rewrite E3 by lia. apply H3; assumption.
Qed.

Lemma rep_scale L u N a B m : Rep L u N a B -> Rep L u N (scale m a) (fun i j => m * B i j).
Proof. intros (H1 & H2 & H3). repeat split; try assumption. intros. cbn [scale get]. rewrite H3 by assumption. reflexivity. Qed.

Lemma rep_add L u N a b B B' :
  Rep L u N a B -> Rep L u N b B' -> Rep L u N (add_arr a b) (fun i j => B i j + B' i j).
Proof.
  intros (H1 & H2 & H3) (G1 & G2 & G3). repeat split; try assumption.
  intros. cbn [add_arr get]. rewrite H3, G3 by assumption. reflexivity.
Qed.

Lemma coord_main L u i j : 0 <= u -> Z.abs (i - j) <= u ->
  (fst (coord L u i j) =? main_of L u) = (i =? j).
Proof. intros. destruct L; cbn [coord main_of fst]; lia. Qed.

Lemma coord_diag L u i : snd (coord L u i i) = i.
Proof. destruct L; cbn [coord snd]; lia. Qed.

(* a[main] += v  adds diag(v) *)
Lemma rep_set_main L u N a B v : 0 <= u -> Rep L u N a B ->
  Rep L u N (set_row a (main_of L u) (fun c => get a (main_of L u) c + v c))
            (fun i j => B i j + diagm v i j).
Proof.
  intros Hu (H1 & H2 & H3). repeat split; try assumption.
  intros i j Hi Hj Hb. cbn [set_row get]. rewrite coord_main by assumption. unfold diagm.
  destruct (i =? j) eqn:E.
  - assert (i = j) by lia. subst j. rewrite coord_diag.
    pose proof (H3 i i Hi Hi Hb) as H. rewrite coord_diag in H.
    assert (Hm : fst (coord L u i i) = main_of L u).
    { pose proof (coord_main L u i i Hu Hb). lia. }
    rewrite Hm in H. rewrite H. reflexivity.
  - rewrite H3 by assumption. ring.
Qed.

Lemma rep_add_main L u N a B v : 0 <= u -> Rep L u N a B ->
  Rep L u N (add_main a (main_of L u) v) (fun i j => B i j + diagm v i j).
Proof. apply rep_set_main. Qed.

(* _pad_diagonals keeps the denotation (the new rows hold bands on which B vanishes) *)
Definition is_lower (L : storage) : bool := match L with LLower => true | _ => false end.

Lemma rep_pad L u' p N a B : 0 <= u' -> 0 < p ->
  Rep L u' N a B -> Banded N u' B -> Rep L (u' + p) N (pad_diagonals a p (is_lower L)) B.
Proof.
  intros Hu Hp (H1 & H2 & H3) HB. unfold pad_diagonals. replace (0 <? p) with true by lia.
  destruct L; cbn [is_lower]; (split; [cbn [nr rows] in *; lia|]); (split; [exact H2|]);
    intros i j Hi Hj Hb; cbn [coord fst snd get rows] in *.
  - destruct (Z.abs (i - j) <? nr a) eqn:E.
    + apply (H3 i j); lia.
    + symmetry. apply HB; lia.
  - destruct ((p <=? u' + p + i - j) && (u' + p + i - j <? p + nr a)) eqn:E.
    + replace (u' + p + i - j - p) with (u' + i - j) by lia. apply (H3 i j); lia.
    + symmetry. apply HB; lia.
  - destruct ((p <=? u' + p + i - j) && (u' + p + i - j <? p + nr a)) eqn:E.
    + replace (u' + p + i - j - p) with (u' + i - j) by lia. apply (H3 i j); lia.
    + symmetry. apply HB; lia.
Qed.

(* _add_diagonals of a wide and a narrower system *)
Lemma rep_add_diagonals L u u' N a b B B' :
  0 <= u' <= u -> Rep L u N a B -> Rep L u' N b B' -> Banded N u' B' ->
  exists r, add_diagonals a b (is_lower L) = Some r /\ Rep L u N r (fun i j => B i j + B' i j).
Proof.
  intros Hu Ha Hb HB'. pose proof Ha as (A1 & A2 & _). pose proof Hb as (B1 & B2 & _).
  unfold add_diagonals. rewrite A2, B2, Z.eqb_refl. cbn [negb]. cbv zeta.
  destruct (Z.eq_dec u u') as [->|Hne].
  - replace (nr a - nr b =? 0) with true by lia.
    eexists. split; [reflexivity|]. apply rep_add; assumption.
  - replace (nr a - nr b =? 0) with false by (destruct L; cbn [rows] in *; lia).
    assert (Hpad : Rep L u N (pad_diagonals b (u - u') (is_lower L)) B').
    { replace u with (u' + (u - u')) at 1 by lia. apply rep_pad; try assumption; lia. }
    destruct L; cbn [is_lower rows] in *.
    + replace (0 <? nr a - nr b) with true by lia.
      replace (Z.abs (nr a - nr b)) with (u - u') by lia.
      eexists. split; [reflexivity|]. apply rep_add; assumption.
    + replace (Z.abs (nr a - nr b) mod 2 =? 0) with true by lia. cbn [negb].
      replace (0 <? nr a - nr b) with true by lia.
      replace (Z.abs (nr a - nr b) / 2) with (u - u') by lia.
      eexists. split; [reflexivity|]. apply rep_add; assumption.
    + replace (Z.abs (nr a - nr b) mod 2 =? 0) with true by lia. cbn [negb].
      replace (0 <? nr a - nr b) with true by lia.
      replace (Z.abs (nr a - nr b) / 2) with (u - u') by lia.
      eexists. split; [reflexivity|]. apply rep_add; assumption.
Qed.

(* a[::-1] of LAPACK-full bands of a symmetric matrix is its row-aligned layout *)
Lemma rep_rev u N a B : 0 <= u -> Sym N B -> Rep LFull u N a B -> Rep LRow u N (rev_rows a) B.
Proof.
  intros Hu HS (H1 & H2 & H3). repeat split; try assumption.
  intros i j Hi Hj Hb. cbn [coord fst snd rev_rows get rows] in *.
  rewrite H1. replace (2 * u + 1 - 1 - (u + i - j)) with (u + j - i) by lia.
  rewrite (H3 j i) by lia. apply HS; assumption.
Qed.

(* multiplying column c of row-aligned bands by w[c] is the product diag(w) B *)
Lemma rep_colscale_row u N a B w :
  Rep LRow u N a B -> Rep LRow u N (colscale a w) (fun i j => B i j * w i).
Proof.
  intros (H1 & H2 & H3). repeat split; try assumption.
  intros i j Hi Hj Hb. cbn [coord fst snd colscale get] in *. rewrite (H3 i j) by assumption. reflexivity.
Qed.

(* _shift_rows(a, u, u) turns row-aligned bands into LAPACK-full bands of the same matrix *)
Lemma rep_shift u N a B : 0 <= u -> Rep LRow u N a B -> Rep LFull u N (shift_rows a u u) B.
Proof.
  intros Hu (H1 & H2 & H3). unfold shift_rows, shift_lower, shift_upper.
  split; [exact H1|]. split; [exact H2|].
  intros i j Hi Hj Hb. cbn [coord fst snd nr nc get rows] in *. rewrite H1, H2. cbv zeta.
  destruct (2 * u + 1 - (u + i - j) <=? u) eqn:E1.
  - replace (j <? N - (u - (2 * u + 1 - (u + i - j)) + 1)) with true by lia.
    replace (u + i - j <? u) with false by lia.
    replace (j + (u - (2 * u + 1 - (u + i - j)) + 1)) with i by lia. apply (H3 i j); assumption.
  - destruct (u + i - j <? u) eqn:E2.
    + replace (j <? u - (u + i - j)) with false by lia.
      replace (j - (u - (u + i - j))) with i by lia. apply (H3 i j); assumption.
    + assert (i = j) by lia. subst j. apply (H3 i i); assumption.
Qed.

(* ------------------------------------------------------------------ reading a call through its library convention *)
Definition shape_ok (u : Z) (sv : solver) : Prop :=
  match sv with
  | Penta f _ which => f = true /\ u = 2 /\ (which = 1 \/ which = 2)
  | Solveh lo => lo = true
  | SolveBanded l u' => l = u /\ u' = u
  end.

Lemma den_of_rep N u k L B :
  0 <= u -> expects (k_solver k) = Some L -> shape_ok u (k_solver k) ->
  Rep L u N (k_lhs k) B -> Banded N u B -> (L = LLower -> Sym N B) ->
  call_wf N k = true /\ forall i j, 0 <= i < N -> 0 <= j < N -> den k i j = B i j.
Proof.
  intros Hu He Hs (H1 & H2 & H3) HB HS. unfold call_wf, den.
  destruct (k_solver k) as [f rw which|lo|l u'] eqn:Ek; cbn [expects shape_ok] in *.
  - destruct Hs as (-> & -> & Hw). destruct rw; injection He as <-; cbn [rows] in *.
    + split; [lia|]. intros i j Hi Hj. destruct (Z.abs (i - j) <=? 2) eqn:E.
      * apply (H3 i j); lia.
      * symmetry. apply HB; lia.
    + split; [lia|]. intros i j Hi Hj. destruct (Z.abs (i - j) <=? 2) eqn:E.
      * apply (H3 i j); lia.
      * symmetry. apply HB; lia.
  - subst lo. injection He as <-. cbn [rows] in *. split; [lia|]. intros i j Hi Hj. cbv zeta.
    destruct (Z.abs (i - j) <? nr (k_lhs k)) eqn:E.
    + apply (H3 i j); lia.
    + symmetry. apply HB; lia.
  - destruct Hs as (-> & ->). injection He as <-. cbn [rows] in *. split; [lia|]. intros i j Hi Hj.
    destruct ((- u <=? i - j) && (i - j <=? u)) eqn:E.
    + apply (H3 i j); lia.
    + symmetry. apply HB; lia.
Qed.

(* ------------------------------------------------------------------ D'D in the C11 layouts *)
Lemma bs_full d N i j : 0 <= i < Z.of_nat N -> 0 <= j < Z.of_nat N ->
  band_spec d N false (Z.of_nat d + i - j) j = DtD d N i j.
Proof.
  intros Hi Hj. unfold band_spec, band_r. cbv zeta.
  replace (j + (Z.of_nat d + i - j - Z.of_nat d)) with i by lia.
  destruct (0 <=? i) eqn:?, (i <? Z.of_nat N) eqn:?; cbn [andb]; try lia; reflexivity.
Qed.

Lemma bs_lower d N i j : 0 <= i < Z.of_nat N -> 0 <= j < Z.of_nat N ->
  band_spec d N true (Z.abs (i - j)) (Z.min i j) = DtD d N i j.
Proof.
  intros Hi Hj. unfold band_spec, band_r. cbv zeta.
  destruct (Z_le_gt_dec j i).
  - replace (Z.min i j + Z.abs (i - j)) with i by lia. replace (Z.min i j) with j by lia.
    destruct (0 <=? i) eqn:?, (i <? Z.of_nat N) eqn:?; cbn [andb]; try lia; reflexivity.
  - replace (Z.min i j + Z.abs (i - j)) with j by lia. replace (Z.min i j) with i by lia.
    destruct (0 <=? j) eqn:?, (j <? Z.of_nat N) eqn:?; cbn [andb]; try lia; apply DtD_sym.
Qed.

Lemma DtD_Sym d N : Sym (Z.of_nat N) (DtD d N).
Proof. intros i j _ _. apply DtD_sym. Qed.

Lemma DtD_Banded d N : Banded (Z.of_nat N) (Z.of_nat d) (DtD d N).
Proof. intros i j _ _ H. apply DtD_band. lia. Qed.

Lemma spec_rep_full d N : Rep LFull (Z.of_nat d) (Z.of_nat N) (spec_bands d N false) (DtD d N).
Proof.
  repeat split. intros i j Hi Hj Hb. cbn [coord fst snd spec_bands get]. apply bs_full; assumption.
Qed.

Lemma spec_rep_lower d N : Rep LLower (Z.of_nat d) (Z.of_nat N) (spec_bands d N true) (DtD d N).
Proof.
  repeat split. intros i j Hi Hj Hb. cbn [coord fst snd spec_bands get]. apply bs_lower; assumption.
Qed.

(* the layout the flags (lower, reversed) claim; lower + reversed is not a layout any solver reads *)
Definition lay (lower rev : bool) : option storage :=
  match lower, rev with
  | true, false => Some LLower
  | false, false => Some LFull
  | false, true => Some LRow
  | true, true => None
  end.

Lemma layout_rep d N lower rev L : lay lower rev = Some L ->
  Rep L (Z.of_nat d) (Z.of_nat N) (layout d N lower rev) (DtD d N).
Proof.
  unfold layout. destruct lower, rev; cbn [lay maybe_rev]; intros [= <-].
  - apply spec_rep_lower.
  - apply rep_rev; [lia|apply DtD_Sym|apply spec_rep_full].
  - apply spec_rep_full.
Qed.

(* ------------------------------------------------------------------ the flags: generated expressions = C11 hand model *)
Lemma flags_agree c lam d al rv :
  want_penta (cf_penta c) (ws_cfg c lam d al rv) = flag_penta c d /\
  want_lower (cf_penta c) (ws_cfg c lam d al rv) = flag_lower c d al /\
  want_rev (cf_penta c) (ws_cfg c lam d al rv) = flag_rev c d rv.
Proof.
  unfold want_penta, want_lower, want_rev, flag_penta, flag_lower, flag_rev, ws_cfg,
    rd_using_pentapy, rd_lower_only, rd_needs_reversed; cbn [c_allow_penta c_allow_lower c_d c_rev].
  split; [reflexivity|]. split; [reflexivity|].
  destruct rv as [[|]|]; cbn [orb]; try reflexivity.
  - symmetry. apply andb_false_r.
  - symmetry. apply andb_true_r.
Qed.

Lemma valid_bs_cases b : valid_bs b = true -> b = 1 \/ b = 2 \/ b = 3 \/ b = 4.
Proof. unfold valid_bs, bs_values. cbn [existsb]. lia. Qed.

(* the combinations of flags a configuration can produce *)
Lemma flag_penta_true c d : flag_penta c d = true -> Z.of_nat d = 2 /\ cf_penta c = true /\ cf_bs c < 3.
Proof.
  unfold flag_penta, rd_using_pentapy, sw_allow_pentapy. intros H.
  apply andb_true_iff in H as [H H3]. apply andb_true_iff in H as [H1 H2].
  repeat split; [lia|assumption|lia].
Qed.

Lemma flag_lower_penta c d al : flag_penta c d = true -> flag_lower c d al = false.
Proof. unfold flag_lower, rd_lower_only. intros ->. apply andb_false_r. Qed.

(* _setup_whittaker never fails for an accepted banded_solver, and its system holds lam D'D in
   the layout its flags claim *)
Lemma setup_spec c N lam d al rv :
  valid_bs (cf_bs c) = true -> (1 <= d < N)%nat -> 0 < lam ->
  exists s, setup c N lam d al rv = Some s /\
    s_lower s = flag_lower c d al /\ s_rev s = flag_rev c d rv /\ s_penta s = flag_penta c d /\
    s_main s = (if flag_lower c d al then 0 else Z.of_nat d) /\
    aeq (s_pen s) (scale lam (layout d N (flag_lower c d al) (flag_rev c d rv))).
Proof.
  intros Hv Hd Hlam. unfold setup. rewrite Hv. cbn [negb]. replace (Z.of_nat d <? 1) with false by lia.
  destruct (flags_agree c lam d al rv) as (E1 & E2 & E3).
  set (cc := ws_cfg c lam d al rv) in *.
  destruct (fresh_layout N d (flag_lower c d al) (flag_rev c d rv) ltac:(lia)) as (a & Ha & Hal).
  unfold reset. rewrite E1, E2, E3. change (c_d cc) with d. change (c_lam cc) with lam. change (c_pad cc) with 0.
  rewrite Ha. replace (0 <? lam) with true by lia.
  eexists. split; [reflexivity|].
  unfold finish, pad_diagonals. rewrite Z.ltb_irrefl. cbn [s_lower s_rev s_penta s_main s_pen].
  split; [reflexivity|]. split; [reflexivity|]. split; [reflexivity|].
  split; [|apply scale_cong, Hal].
  destruct Hal as (H1 & _). cbn [scale nr]. rewrite H1. unfold layout, spec_bands.
  destruct (flag_lower c d al), (flag_rev c d rv); cbn [maybe_rev rev_rows nr]; lia.
Qed.

Lemma setup_rep c N lam d al rv L :
  valid_bs (cf_bs c) = true -> (1 <= d < N)%nat -> 0 < lam ->
  lay (flag_lower c d al) (flag_rev c d rv) = Some L ->
  exists s, setup c N lam d al rv = Some s /\
    s_lower s = flag_lower c d al /\ s_rev s = flag_rev c d rv /\ s_penta s = flag_penta c d /\
    s_main s = main_of L (Z.of_nat d) /\ is_lower L = flag_lower c d al /\
    Rep L (Z.of_nat d) (Z.of_nat N) (s_pen s) (fun i j => lam * DtD d N i j).
Proof.
  intros Hv Hd Hlam HL.
  destruct (setup_spec c N lam d al rv Hv Hd Hlam) as (s & Hs & F1 & F2 & F3 & Hm & Hp).
  exists s. splits; try assumption.
  - rewrite Hm. destruct (flag_lower c d al), (flag_rev c d rv); cbn [lay] in HL; try discriminate;
      injection HL as <-; reflexivity.
  - destruct (flag_lower c d al), (flag_rev c d rv); cbn [lay] in HL; try discriminate;
      injection HL as <-; reflexivity.
  - eapply rep_aeq; [exact Hp|]. apply rep_scale, layout_rep, HL.
Qed.

(* ------------------------------------------------------------------ the dispatch of PenalizedSystem.solve *)
(* for every flag combination: an arm is selected, and it is the documented one *)
Lemma dispatch_spec penta lower which lu nrows :
  dispatch solve_chain penta lower which lu nrows =
  Some (if penta then Penta true true which
        else if lower then Solveh true
        else match lu with Some (l, u) => SolveBanded l u | None => SolveBanded (nrows / 2) (nrows / 2) end).
Proof. destruct penta, lower; reflexivity. Qed.

Lemma psolver_ok c : valid_bs (cf_bs c) = true -> psolver c = 1 \/ psolver c = 2.
Proof.
  intros H. apply valid_bs_cases in H. unfold psolver, bs_pentapy_solver.
  destruct (cf_bs c <? 3) eqn:E; lia.
Qed.

(* what a correct hand-over is: the solver reads layout L, the bands ARE in layout L, the band
   counts agree (pentapy only for 5 bands; l_and_u = (u, u) for 2u + 1 rows), and they store A *)
Definition hands_over (N : nat) (u : Z) (A : Z -> Z -> Z) (b : Z -> Z) (k : call) : Prop :=
  exists L, expects (k_solver k) = Some L /\ shape_ok u (k_solver k) /\
            Rep L u (Z.of_nat N) (k_lhs k) A /\
            (forall i, k_rhs k i = b i).

(* solve() on bands that are in the layout the flags claim *)
Lemma solve_call_ok c s N u L A lhs rhs lu :
  valid_bs (cf_bs c) = true ->
  lay (s_lower s) (s_penta s) = Some L ->          (* penta systems are row-aligned, others LAPACK *)
  (s_penta s = true -> u = 2) ->
  (lu = None \/ lu = Some (u, u)) -> 0 <= u ->
  Rep L u (Z.of_nat N) lhs A ->
  exists k, solve_call c s lhs rhs lu = Some k /\ hands_over N u A rhs k.
Proof.
  intros Hv HL Hp Hlu Hu HR. unfold solve_call. rewrite dispatch_spec.
  eexists. split; [reflexivity|]. exists L. cbn [k_solver k_lhs k_rhs].
  destruct (s_penta s) eqn:Ep, (s_lower s) eqn:El; cbn [lay] in HL; try discriminate; injection HL as <-.
  - cbn [expects shape_ok]. splits; try reflexivity; try assumption; auto using psolver_ok.
  - cbn [expects shape_ok]. splits; try reflexivity; assumption.
  - destruct HR as (R1 & R2 & R3).
    assert (Hsv : (match lu with Some (l, u0) => SolveBanded l u0 | None => SolveBanded (nr lhs / 2) (nr lhs / 2) end)
                  = SolveBanded u u).
    { destruct Hlu as [-> | ->]; [|reflexivity]. rewrite R1. cbn [rows]. f_equal; lia. }
    rewrite Hsv. cbn [expects shape_ok]. splits; try reflexivity. repeat split; assumption.
Qed.

(* ------------------------------------------------------------------ the methods *)
Lemma lamDtD_Banded N d lam : Banded (Z.of_nat N) (Z.of_nat d) (fun i j => lam * DtD d N i j).
Proof. intros i j Hi Hj Hb. rewrite (DtD_Banded d N i j) by assumption. ring. Qed.

(* the flags with reverse_diags=None: lower (LAPACK lower), full (LAPACK), or pentapy (row-aligned) *)
Lemma lay_default c d al :
  flag_rev c d None = flag_penta c d /\
  exists L, lay (flag_lower c d al) (flag_penta c d) = Some L.
Proof.
  split.
  - unfold flag_rev, rd_needs_reversed. cbn [orb]. apply andb_true_r.
  - destruct (flag_penta c d) eqn:Ep.
    + rewrite (flag_lower_penta c d al Ep). eexists; reflexivity.
    + destruct (flag_lower c d al); eexists; reflexivity.
Qed.

Lemma d_penta c d : flag_penta c d = true -> Z.of_nat d = 2.
Proof. intros H. apply (flag_penta_true c d H). Qed.

Theorem plain_ok c N d lam w y :
  valid_bs (cf_bs c) = true -> (1 <= d < N)%nat -> 0 < lam ->
  exists k, m_plain c N d lam w y = Some k /\
    hands_over N (Z.of_nat d) (fun i j => lam * DtD d N i j + diagm w i j) (mulv w y) k.
Proof.
  intros Hv Hd Hlam. destruct (lay_default c d true) as (Er & L & HL).
  destruct (setup_rep c N lam d true None L Hv Hd Hlam ltac:(rewrite Er; exact HL))
    as (s & Hs & F1 & F2 & F3 & Hm & _ & HR).
  unfold m_plain. rewrite Hs, Hm.
  apply (solve_call_ok c s N (Z.of_nat d) L); try assumption; try lia.
  - rewrite F1, F3. exact HL.
  - rewrite F3. apply d_penta.
  - left; reflexivity.
  - apply rep_set_main; [lia|exact HR].
Qed.

Theorem jbcd_ok c N d mu v rhs :
  valid_bs (cf_bs c) = true -> (1 <= d < N)%nat ->
  exists k, m_jbcd c N d mu v rhs = Some k /\
    hands_over N (Z.of_nat d) (fun i j => mu * (1 * DtD d N i j) + diagm (fun _ => v) i j) rhs k.
Proof.
  intros Hv Hd. destruct (lay_default c d true) as (Er & L & HL).
  destruct (setup_rep c N 1 d true None L Hv Hd ltac:(lia) ltac:(rewrite Er; exact HL))
    as (s & Hs & F1 & F2 & F3 & Hm & _ & HR).
  unfold m_jbcd. rewrite Hs, Hm.
  apply (solve_call_ok c s N (Z.of_nat d) L); try assumption; try lia.
  - rewrite F1, F3. exact HL.
  - rewrite F3. apply d_penta.
  - left; reflexivity.
  - apply rep_add_main; [lia|]. apply rep_scale, HR.
Qed.

(* first-order penalty bands with padding, in the layout of the host system *)
Lemma dpd1_rep N lower p : (1 < N)%nat -> 0 <= p ->
  exists a, dpd N 1 lower p = DpdOk a /\
    Rep (if lower then LLower else LFull) (1 + p) (Z.of_nat N) a (DtD 1 N).
Proof.
  intros HN Hp. unfold dpd. destruct (dpd_core_exact N 1 lower ltac:(lia)) as (a & Ha & Hal).
  rewrite Ha. eexists. split; [reflexivity|].
  assert (H0 : Rep (if lower then LLower else LFull) 1 (Z.of_nat N) a (DtD 1 N)).
  { eapply rep_aeq; [exact Hal|]. destruct lower; [apply (spec_rep_lower 1 N)|apply (spec_rep_full 1 N)]. }
  destruct (Z.eq_dec p 0) as [->|Hne].
  - unfold pad_diagonals. rewrite Z.ltb_irrefl. replace (1 + 0) with 1 by lia. exact H0.
  - destruct lower.
    + apply (rep_pad LLower 1 p); try lia; [exact H0|apply (DtD_Banded 1 N)].
    + apply (rep_pad LFull 1 p); try lia; [exact H0|apply (DtD_Banded 1 N)].
Qed.

Lemma Banded_weaken N u u' B : u <= u' -> Banded N u B -> Banded N u' B.
Proof. intros H HB i j Hi Hj Hb. apply HB; lia. Qed.

Theorem iasls_ok c N d lam lam1 w y :
  valid_bs (cf_bs c) = true -> (2 <= d < N)%nat -> 0 < lam ->
  exists k, m_iasls c N d lam lam1 w y = Some k /\
    hands_over N (Z.of_nat d)
      (fun i j => lam * DtD d N i j + lam1 * DtD 1 N i j + diagm (mulv w w) i j)
      (fun i => w i * w i * y i + lam1 * d1y (Z.of_nat N) y i) k.
Proof.
  intros Hv Hd Hlam. destruct (lay_default c d true) as (Er & L & HL).
  destruct (setup_rep c N lam d true None L Hv ltac:(lia) Hlam ltac:(rewrite Er; exact HL))
    as (s & Hs & F1 & F2 & F3 & Hm & HiL & HR).
  unfold m_iasls. replace (Z.of_nat d <? 2) with false by lia. rewrite Hs.
  destruct (dpd1_rep N (s_lower s) 1 ltac:(lia) ltac:(lia)) as (d1 & Hd1 & Rd1).
  rewrite Hd1.
  (* the first-order bands, reversed under pentapy, are in the layout of the host system, u' = 2 *)
  assert (R1 : Rep L 2 (Z.of_nat N) (scale lam1 (if s_penta s then rev_rows d1 else d1))
                   (fun i j => lam1 * DtD 1 N i j)).
  { apply rep_scale. rewrite F1 in Rd1. rewrite F3.
    destruct (flag_penta c d) eqn:Ep.
    - rewrite (flag_lower_penta c d true Ep) in *. cbn [lay] in HL. injection HL as <-.
      apply rep_rev; [lia|apply DtD_Sym|exact Rd1].
    - destruct (flag_lower c d true); cbn [lay] in HL; injection HL as <-; exact Rd1. }
  assert (B1 : Banded (Z.of_nat N) 2 (fun i j => lam1 * DtD 1 N i j)).
  { intros i j Hi Hj Hb. rewrite (DtD_Banded 1 N i j) by (try assumption; cbn; lia). ring. }
  destruct (rep_add_diagonals L (Z.of_nat d) 2 (Z.of_nat N) _ _ _ _ ltac:(lia) HR R1 B1) as (pen & Hpen & Rpen).
  rewrite <- F1 in HiL. rewrite <- HiL. rewrite Hpen.
  assert (Hmain : main_index (is_lower L) pen = main_of L (Z.of_nat d)).
  { destruct Rpen as (P1 & _). unfold main_index. destruct L; cbn [is_lower main_of rows] in *; lia. }
  rewrite Hmain.
  apply (solve_call_ok c s N (Z.of_nat d) L); try assumption; try lia.
  - rewrite F1, F3. exact HL.
  - rewrite F3. apply d_penta.
  - left; reflexivity.
  - apply rep_add_main; [lia|exact Rpen].
Qed.

(* allow_lower=False: the system is never lower *)
Lemma flag_lower_false c d : flag_lower c d false = false.
Proof. reflexivity. Qed.

Theorem drpls_ok c N d lam eta w y :
  valid_bs (cf_bs c) = true -> (2 <= d < N)%nat -> 0 < lam ->
  exists k, m_drpls c N d lam eta w y = Some k /\
    hands_over N (Z.of_nat d)
      (fun i j => (lam * DtD d N i j + DtD 1 N i j)
                  + ((- eta) * (lam * DtD d N i j) + diagm (fun _ => 1) i j) * w i)
      (mulv w y) k.
Proof.
  intros Hv Hd Hlam.
  assert (Erev : flag_rev c d (Some false) = false).
  { unfold flag_rev, rd_needs_reversed. cbn [orb]. apply andb_false_r. }
  destruct (setup_rep c N lam d false (Some false) LFull Hv ltac:(lia) Hlam ltac:(rewrite Erev; reflexivity))
    as (s & Hs & F1 & F2 & F3 & Hm & _ & HR).
  cbn [main_of] in Hm. rewrite flag_lower_false in F1.
  unfold m_drpls. replace (Z.of_nat d <? 2) with false by lia. rewrite Hs. cbv zeta.
  destruct (dpd1_rep N false (Z.of_nat d - 1) ltac:(lia) ltac:(lia)) as (d1 & Hd1 & Rd1).
  rewrite Hd1. replace (1 + (Z.of_nat d - 1)) with (Z.of_nat d) in Rd1 by lia.
  destruct (rep_add_diagonals LFull (Z.of_nat d) (Z.of_nat d) (Z.of_nat N) _ _ _ _ ltac:(lia) HR Rd1
              (Banded_weaken (Z.of_nat N) 1 (Z.of_nat d) (DtD 1 N) ltac:(lia) (DtD_Banded 1 N))) as (pen0 & Hpen & Rpen).
  rewrite F1. cbn [is_lower] in Hpen. rewrite Hpen. rewrite andb_false_r.
  (* the weighted part, row-aligned *)
  assert (SymP : Sym (Z.of_nat N) (fun i j => lam * DtD d N i j)).
  { intros i j _ _. rewrite DtD_sym. reflexivity. }
  assert (Rdn : Rep LRow (Z.of_nat d) (Z.of_nat N)
                  (colscale (add_main (scale (- eta) (rev_rows (s_pen s))) (s_main s) (fun _ => 1)) w)
                  (fun i j => ((- eta) * (lam * DtD d N i j) + diagm (fun _ => 1) i j) * w i)).
  { apply rep_colscale_row. rewrite Hm. apply (rep_add_main LRow); [lia|].
    apply rep_scale. apply rep_rev; [lia|exact SymP|exact HR]. }
  assert (SymS : Sym (Z.of_nat N) (fun i j => lam * DtD d N i j + DtD 1 N i j)).
  { intros i j _ _. rewrite (DtD_sym d), (DtD_sym 1). reflexivity. }
  rewrite F3. destruct (flag_penta c d) eqn:Ep.
  - apply (solve_call_ok c s N (Z.of_nat d) LRow); try assumption; try lia.
    + rewrite F1, F3. reflexivity.
    + intros _. apply (d_penta c d Ep).
    + right; reflexivity.
    + apply rep_add; [|exact Rdn]. apply rep_rev; [lia|exact SymS|exact Rpen].
  - apply (solve_call_ok c s N (Z.of_nat d) LFull); try assumption; try lia.
    + rewrite F1, F3. reflexivity.
    + rewrite F3. discriminate.
    + right; reflexivity.
    + apply rep_add; [exact Rpen|]. apply rep_shift; [lia|exact Rdn].
Qed.

Theorem aspls_ok c N d lam w al y :
  valid_bs (cf_bs c) = true -> (1 <= d < N)%nat -> 0 < lam ->
  exists k, m_aspls c N d lam w al y = Some k /\
    hands_over N (Z.of_nat d) (fun i j => (lam * DtD d N i j) * al i + diagm w i j) (mulv w y) k.
Proof.
  intros Hv Hd Hlam.
  assert (Erev : flag_rev c d (Some true) = true) by reflexivity.
  destruct (setup_rep c N lam d false (Some true) LRow Hv Hd Hlam ltac:(rewrite Erev; reflexivity))
    as (s & Hs & F1 & F2 & F3 & Hm & _ & HR).
  cbn [main_of] in Hm. rewrite flag_lower_false in F1.
  unfold m_aspls. rewrite Hs. cbv zeta.
  assert (R1 : Rep LRow (Z.of_nat d) (Z.of_nat N) (add_main (colscale (s_pen s) al) (s_main s) w)
                 (fun i j => (lam * DtD d N i j) * al i + diagm w i j)).
  { rewrite Hm. apply (rep_add_main LRow); [lia|]. apply rep_colscale_row, HR. }
  rewrite F3. destruct (flag_penta c d) eqn:Ep.
  - apply (solve_call_ok c s N (Z.of_nat d) LRow); try assumption; try lia.
    + rewrite F1, F3. reflexivity.
    + intros _. apply (d_penta c d Ep).
    + right; reflexivity.
  - apply (solve_call_ok c s N (Z.of_nat d) LFull); try assumption; try lia.
    + rewrite F1, F3. reflexivity.
    + rewrite F3. discriminate.
    + right; reflexivity.
    + apply rep_shift; [lia|exact R1].
Qed.

(* ------------------------------------------------------------------ the property theorems *)
Definition valid (c : config) : Prop := valid_bs (cf_bs c) = true.

Lemma all_configs_valid c : In c all_configs <-> (valid c /\ True).
Proof.
  split.
  - intros H. split; [|exact I]. unfold all_configs in H.
    apply in_flat_map in H as (b & Hb & H). apply in_flat_map in H as (p & _ & H).
    apply in_map_iff in H as (n & <- & _). unfold valid, valid_bs. cbn [cf_bs].
    apply existsb_exists. exists b. split; [exact Hb|apply Z.eqb_refl].
  - intros [H _]. unfold valid, valid_bs in H. apply existsb_exists in H as (b & Hb & E).
    unfold all_configs. apply in_flat_map. exists b. split; [exact Hb|].
    apply in_flat_map. exists (cf_penta c). split; [destruct (cf_penta c); cbn; tauto|].
    apply in_map_iff. exists (cf_numba c). split; [|destruct (cf_numba c); cbn; tauto].
    destruct c as [b0 p0 n0]. cbn [cf_bs cf_penta cf_numba] in *. f_equal. lia.
Qed.

Lemma all_configs_16 : length all_configs = 16%nat.
Proof. reflexivity. Qed.

Theorem method_hands_over m c N d x :
  valid c -> (min_order m <= d < N)%nat -> 0 < i_lam x ->
  exists k, run m c N d x = Some k /\ hands_over N (Z.of_nat d) (doc m N d x) (doc_rhs m N x) k.
Proof.
  intros Hv Hd Hlam. destruct m; cbn [run doc doc_rhs min_order] in *.
  - apply plain_ok; assumption.
  - apply iasls_ok; assumption.
  - destruct (drpls_ok c N d (i_lam x) (i_p x) (i_w x) (i_y x) Hv Hd Hlam) as (k & Hk & L & H1 & H2 & H3 & H4).
    exists k. split; [exact Hk|]. exists L. splits; try assumption.
    revert H3. apply rep_ext. intros i j _ _. unfold doc. ring.
  - apply aspls_ok; assumption.
  - apply jbcd_ok; assumption.
  - apply jbcd_ok; assumption.
Qed.

Lemma doc_Banded m N d x : (min_order m <= d)%nat -> Banded (Z.of_nat N) (Z.of_nat d) (doc m N d x).
Proof.
  intros Hd i j Hi Hj Hb. unfold doc, diagm.
  assert (E : DtD d N i j = 0) by (apply DtD_Banded; assumption).
  assert (E1 : DtD 1 N i j = 0) by (apply (DtD_Banded 1 N); try assumption; destruct m; cbn in *; lia).
  assert (Hne : (i =? j) = false) by lia.
  destruct m; rewrite ?E, ?E1, ?Hne; ring.
Qed.

Definition symmetric_doc (m : method) : bool :=
  match m with MPlain | MIasls | MJbcd1 | MJbcd2 => true | MDrpls | MAspls => false end.

Lemma doc_Sym m N d x : symmetric_doc m = true -> Sym (Z.of_nat N) (doc m N d x).
Proof.
  intros Hs i j Hi Hj. unfold doc, diagm, mulv.
  rewrite (DtD_sym d N i j), (DtD_sym 1 N i j).
  destruct m; try discriminate; destruct (i =? j) eqn:E, (j =? i) eqn:E'; try lia;
    try (assert (i = j) by lia; subst j); reflexivity.
Qed.

(* the non-symmetric systems are never handed to the symmetric solver *)
Lemma lower_only_symmetric m c N d x k :
  valid c -> (min_order m <= d < N)%nat -> 0 < i_lam x ->
  run m c N d x = Some k -> expects (k_solver k) = Some LLower -> symmetric_doc m = true.
Proof.
  intros Hv Hd Hlam Hk He. destruct m; try reflexivity; exfalso; cbn [run min_order] in *.
  - (* drpls *)
    assert (Erev : flag_rev c d (Some false) = false).
    { unfold flag_rev, rd_needs_reversed. cbn [orb]. apply andb_false_r. }
    destruct (setup_spec c N (i_lam x) d false (Some false) Hv ltac:(lia) Hlam) as (s & Hs & F1 & _).
    unfold m_drpls in Hk. replace (Z.of_nat d <? 2) with false in Hk by lia. rewrite Hs in Hk. cbv zeta in Hk.
    destruct (dpd N 1 false (Z.of_nat d - 1)); try discriminate.
    destruct (add_diagonals (s_pen s) a (s_lower s)); try discriminate.
    destruct (s_penta s && s_lower s); try discriminate.
    unfold solve_call in Hk. rewrite dispatch_spec in Hk. injection Hk as <-. cbn [k_solver] in He.
    rewrite F1, flag_lower_false in He. destruct (s_penta s); discriminate.
  - (* aspls *)
    destruct (setup_spec c N (i_lam x) d false (Some true) Hv ltac:(lia) Hlam) as (s & Hs & F1 & _).
    unfold m_aspls in Hk. rewrite Hs in Hk. cbv zeta in Hk.
    unfold solve_call in Hk. rewrite dispatch_spec in Hk. injection Hk as <-. cbn [k_solver] in He.
    rewrite F1, flag_lower_false in He. destruct (s_penta s); discriminate.
Qed.

(* C10_dispatch_total *)
Theorem dispatch_total m c N d x :
  valid c -> (min_order m <= d < N)%nat -> 0 < i_lam x ->
  exists k L, run m c N d x = Some k /\
    expects (k_solver k) = Some L /\                     (* the solver's documented layout ... *)
    Rep L (Z.of_nat d) (Z.of_nat N) (k_lhs k) (doc m N d x) /\   (* ... is the one the bands are in *)
    shape_ok (Z.of_nat d) (k_solver k) /\                (* 5 bands for pentapy, l_and_u = (d, d) *)
    call_wf (Z.of_nat N) k = true /\
    (L = LLower -> symmetric_doc m = true).
Proof.
  intros Hv Hd Hlam.
  destruct (method_hands_over m c N d x Hv Hd Hlam) as (k & Hk & L & H1 & H2 & H3 & H4).
  exists k, L. splits; try assumption.
  - assert (HS : L = LLower -> Sym (Z.of_nat N) (doc m N d x)).
    { intros ->. apply doc_Sym. eapply lower_only_symmetric; eassumption. }
    apply (den_of_rep (Z.of_nat N) (Z.of_nat d) k L (doc m N d x)); try assumption; try lia.
    apply doc_Banded; lia.
  - intros ->. eapply lower_only_symmetric; eassumption.
Qed.

(* every configuration's call denotes the documented system *)
Theorem config_denotes m c N d x :
  valid c -> (min_order m <= d < N)%nat -> 0 < i_lam x ->
  exists k, run m c N d x = Some k /\ call_wf (Z.of_nat N) k = true /\
    (forall i j, 0 <= i < Z.of_nat N -> 0 <= j < Z.of_nat N -> den k i j = doc m N d x i j) /\
    (forall i, k_rhs k i = doc_rhs m N x i).
Proof.
  intros Hv Hd Hlam.
  destruct (dispatch_total m c N d x Hv Hd Hlam) as (k & L & Hk & He & HR & Hs & Hwf & Hsym).
  destruct (method_hands_over m c N d x Hv Hd Hlam) as (k' & Hk' & L' & _ & _ & _ & Hrhs).
  rewrite Hk in Hk'. injection Hk' as <-.
  exists k. splits; try assumption.
  apply (den_of_rep (Z.of_nat N) (Z.of_nat d) k L (doc m N d x)); try assumption; try lia.
  - apply doc_Banded; lia.
  - intros E. apply doc_Sym, Hsym, E.
Qed.

(* C10_config_invariant *)
Theorem config_invariant m c1 c2 N d x :
  valid c1 -> valid c2 -> (min_order m <= d < N)%nat -> 0 < i_lam x ->
  exists k1 k2, run m c1 N d x = Some k1 /\ run m c2 N d x = Some k2 /\
    (forall i j, 0 <= i < Z.of_nat N -> 0 <= j < Z.of_nat N -> den k1 i j = den k2 i j) /\
    (forall i, k_rhs k1 i = k_rhs k2 i).
Proof.
  intros H1 H2 Hd Hlam.
  destruct (config_denotes m c1 N d x H1 Hd Hlam) as (k1 & E1 & _ & D1 & R1).
  destruct (config_denotes m c2 N d x H2 Hd Hlam) as (k2 & E2 & _ & D2 & R2).
  exists k1, k2. splits; try assumption.
  - intros. rewrite D1, D2 by assumption. reflexivity.
  - intros. rewrite R1, R2. reflexivity.
Qed.

(* the reachable flag combinations, for the three ways the callers set (allow_lower, reverse_diags) *)
Theorem reachable_flags c d :
  valid c ->
  let f al rv := (flag_lower c d al, flag_rev c d rv, flag_penta c d) in
  In (f true None) [(true, false, false); (false, false, false); (false, true, true)] /\
  In (f false (Some false)) [(false, false, false); (false, false, true)] /\
  In (f false (Some true)) [(false, true, false); (false, true, true)] /\
  (flag_penta c d = true -> Z.of_nat d = 2 /\ cf_penta c = true /\ cf_bs c <= 2) /\
  (cf_bs c = 4 -> flag_lower c d true = false) /\
  (cf_penta c = false -> flag_penta c d = false).
Proof.
  intros Hv. cbv beta zeta.
  assert (E0 : flag_rev c d None = flag_penta c d) by apply (lay_default c d true).
  assert (E1 : flag_rev c d (Some false) = false).
  { unfold flag_rev, rd_needs_reversed. cbn [orb]. apply andb_false_r. }
  assert (E2 : flag_rev c d (Some true) = true) by reflexivity.
  rewrite E0, E1, E2, flag_lower_false.
  splits.
  - destruct (flag_penta c d) eqn:Ep.
    + rewrite (flag_lower_penta c d true Ep). cbn; tauto.
    + destruct (flag_lower c d true); cbn; tauto.
  - destruct (flag_penta c d); cbn; tauto.
  - destruct (flag_penta c d); cbn; tauto.
  - intros H. destruct (flag_penta_true c d H) as (A & B & C). splits; [exact A|exact B|lia].
  - intros E. unfold flag_lower, rd_lower_only, sw_allow_lower. rewrite E. reflexivity.
  - intros E. unfold flag_penta, rd_using_pentapy. rewrite E. rewrite andb_false_r. reflexivity.
Qed.

(* ------------------------------------------------------------------ the jit shim *)
Theorem jit_shim sh f : exists g, decorate sh f = Some g /\ forall x, g x = f x.
Proof. destruct sh; (eexists; split; [reflexivity|]); intros; reflexivity. Qed.

(* what is bound to a decorated kernel name under a configuration: numba's Dispatcher when numba is
   importable (library; contract: calling it computes the Python function), the shim's wrapper
   otherwise *)
Section Numba.
  Variable compile : (Z -> Z) -> (Z -> Z).
  Hypothesis compile_ok : forall f x, compile f x = f x.

  Definition bound (c : config) (sh : shape) (f : Z -> Z) : option (Z -> Z) :=
    if cf_numba c then Some (compile f) else decorate sh f.

  Theorem kernels_config_invariant c1 c2 sh f :
    exists g1 g2, bound c1 sh f = Some g1 /\ bound c2 sh f = Some g2 /\ forall x, g1 x = g2 x.
  Proof.
    destruct (jit_shim sh f) as (g & Hg & Hgx).
    unfold bound. destruct (cf_numba c1), (cf_numba c2); rewrite ?Hg; do 2 eexists;
      (split; [reflexivity|split; [reflexivity|]]); intros x; rewrite ?compile_ok, ?Hgx; reflexivity.
  Qed.
End Numba.

(* non-vacuity material: two configurations that hand the same drpls system to different solvers
   in different layouts *)
Definition ex_inputs : inputs :=
  {| i_lam := 4; i_p := 1; i_q := 0; i_w := fun i => if i =? 2 then 0 else 1;
     i_a := fun i => 1 + i; i_y := fun i => i * i - 3 |}.
Definition ex_c1 : config := {| cf_bs := 2; cf_penta := true; cf_numba := true |}.
Definition ex_c2 : config := {| cf_bs := 4; cf_penta := false; cf_numba := false |}.
