(* Property C10: the vocabulary in which tools/gen_c10.py describes the configuration logic of
   /repo (gen/GenC10.v is DATA in this vocabulary, regenerated from the source on every run);
   C10/Model.v interprets it.  No proofs here. *)
From Coq Require Import ZArith List Bool.
Import ListNotations.
Open Scope Z_scope.

(* PenalizedSystem.solve: an if / elif / else chain over the flags, each arm calling one library
   entry point *)
Inductive dcond := CUsingPentapy | CLower | CElse.
(* l_and_u when the caller passes None: (len(lhs) // 2, len(lhs) // 2) *)
Inductive lu_default := LuHalfRows.
Inductive dcall :=
  | KPentapy (is_flat row_wise : bool)      (* _pentapy_solver -> pentapy.solve(ab, y, is_flat=, index_row_wise=, solver=self.pentapy_solver) *)
  | KSolveh (lower : bool)                  (* scipy.linalg.solveh_banded(lhs, rhs, lower=) *)
  | KSolveBanded (dflt : lu_default).       (* scipy.linalg.solve_banded(l_and_u, lhs, rhs) *)

(* the no-numba `jit` shim of _compat.py *)
Inductive guard_atom := GIsNone | GNotCallable.         (* disjuncts of the first `if` *)
Inductive shim_ret := RetDecorator | RetWrapper.        (* `return jit` | `return wrapper` *)
(* def wrapper( *args, **kwargs ): return func( *args, **kwargs ) *)
Record wrapper_body := { wb_calls_func : bool; wb_star_args : bool; wb_star_kwargs : bool; wb_returns : bool }.
