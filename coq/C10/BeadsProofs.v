(* Proofs about the model of _numba_banded_dot_banded / _banded_dot_banded (C10/BeadsModel.v):
   for every size n and all band counts (including a_upper + b_upper > n - 1, where row_c is negative
   and Python wraps it around) every cell of the kernel output is the corresponding entry of the
   matrix product A @ B, or 0 where the loops do not go; with symmetric_output the completion loop
   produces the full LAPACK band storage of the (symmetric) product. *)
From Coq Require Import ZArith List Bool Lia ZifyBool.
From PB Require Import lib.SumZ lib.Arr C10.BeadsModel.
Import ListNotations.
Open Scope Z_scope.

(* ---- sums over integer ranges ---- *)
Lemma ssum_zero lo hi f : (forall t, lo <= t <= hi -> f t = 0) -> ssum lo hi f = 0.
Proof. intros H. unfold ssum. apply sumZ_zero. intros k Hk. apply H. lia. Qed.

Lemma ssum_ext lo hi f g : (forall t, lo <= t <= hi -> f t = g t) -> ssum lo hi f = ssum lo hi g.
Proof. intros H. unfold ssum. apply sumZ_ext. intros k Hk. apply H. lia. Qed.

Lemma ssum_add lo hi f g : ssum lo hi (fun t => f t + g t) = ssum lo hi f + ssum lo hi g.
Proof. unfold ssum. apply sumZ_add. Qed.

Lemma ssum_point lo hi p v :
  ssum lo hi (fun t => if t =? p then v else 0) = if (lo <=? p) && (p <=? hi) then v else 0.
Proof.
  unfold ssum. rewrite (sumZ_ext _ _ (fun t => if t =? p - lo then v else 0)).
  - rewrite sumZ_point.
    destruct (0 <=? p - lo) eqn:?, (p - lo <? Z.of_nat (Z.to_nat (hi - lo + 1))) eqn:?,
             (lo <=? p) eqn:?, (p <=? hi) eqn:?; cbn [andb]; try reflexivity; lia.
  - intros k Hk. destruct (lo + k =? p) eqn:?, (k =? p - lo) eqn:?; try reflexivity; lia.
Qed.

(* re-indexing oa -> k = i - oa: a sum over an offset range whose summand vanishes unless
   0 <= i - oa < n is the sum over k = 0..n-1 of the summand at i - k, restricted to the range *)
Lemma ssum_reindex (n : nat) : forall (F : Z -> Z) (i lo hi : Z),
  (forall oa, ~ (0 <= i - oa < Z.of_nat n) -> F oa = 0) ->
  ssum lo hi F = sumZ n (fun k => if (lo <=? i - k) && (i - k <=? hi) then F (i - k) else 0).
Proof.
  induction n as [|n IH]; intros F i lo hi HF.
  - cbn [sumZ]. apply ssum_zero. intros t _. apply HF. lia.
  - rewrite sumZ_S.
    set (p := i - Z.of_nat n).
    set (F1 := fun oa => if oa =? p then 0 else F oa).
    set (F2 := fun oa => if oa =? p then F p else 0).
    rewrite (ssum_ext lo hi F (fun t => F1 t + F2 t)).
    2:{ intros t _. unfold F1, F2. destruct (t =? p) eqn:E; [replace t with p by lia|]; ring. }
    rewrite ssum_add. rewrite (IH F1 i lo hi).
    2:{ intros oa Hoa. unfold F1. destruct (oa =? p) eqn:E; [reflexivity|]. apply HF. unfold p in *. lia. }
    unfold F2 at 1. rewrite ssum_point. f_equal.
    apply sumZ_ext. intros k Hk. unfold F1, p. replace (i - k =? i - Z.of_nat n) with false by lia. reflexivity.
Qed.

(* ---- the two inner loops: one entry of the product ---- *)
Lemma term_support a b au bu n oc col oa :
  ~ (0 <= (col + oc) - oa < n) -> term a b au bu n oc col oa = 0.
Proof.
  intros H. unfold term. cbv zeta.
  destruct ((Z.max 0 (Z.max (- oa) (oc - oa)) <=? col + (oc - oa))
            && (col + (oc - oa) <? Z.max 0 (n + Z.min 0 (Z.min (- oa) (oc - oa))))) eqn:E; [lia|reflexivity].
Qed.

Lemma inner_spec a b al au bl bu n oc col :
  0 <= n -> 0 <= col < n ->
  inner a b al au bl bu n oc col =
  if (0 <=? col + oc) && (col + oc <? n) then prod a b al au bl bu n (col + oc) col else 0.
Proof.
  intros Hn Hc. unfold inner.
  rewrite (ssum_reindex (Z.to_nat n) _ (col + oc)).
  2:{ intros oa H. apply term_support. lia. }
  destruct ((0 <=? col + oc) && (col + oc <? n)) eqn:Ei.
  - unfold prod. apply sumZ_ext. intros k Hk. unfold term, mat. cbv zeta.
    replace (col + (oc - (col + oc - k))) with k by lia.
    replace (k - (oc - (col + oc - k))) with col by lia.
    replace (au + (col + oc) - k) with (au + (col + oc - k)) by lia.
    replace (bu + k - col) with (bu + (oc - (col + oc - k))) by lia.
    destruct ((- Z.min au (bl - oc) <=? col + oc - k) && (col + oc - k <=? Z.min al (bu + oc))) eqn:E1,
             ((Z.max 0 (Z.max (- (col + oc - k)) (oc - (col + oc - k))) <=? k)
              && (k <? Z.max 0 (n + Z.min 0 (Z.min (- (col + oc - k)) (oc - (col + oc - k)))))) eqn:E2,
             ((0 <=? col + oc) && (col + oc <? n) && (0 <=? k) && (k <? n) && (- au <=? col + oc - k)
              && (col + oc - k <=? al)) eqn:E3,
             ((0 <=? k) && (k <? n) && (0 <=? col) && (col <? n) && (- bu <=? k - col) && (k - col <=? bl)) eqn:E4;
      try reflexivity; try ring; lia.
  - apply sumZ_zero. intros k Hk.
    destruct ((- Z.min au (bl - oc) <=? col + oc - k) && (col + oc - k <=? Z.min al (bu + oc))); [|reflexivity].
    unfold term. cbv zeta.
    destruct ((Z.max 0 (Z.max (- (col + oc - k)) (oc - (col + oc - k))) <=? col + (oc - (col + oc - k)))
              && (col + (oc - (col + oc - k)) <? Z.max 0 (n + Z.min 0 (Z.min (- (col + oc - k)) (oc - (col + oc - k)))))) eqn:E;
      [lia|reflexivity].
Qed.

(* ---- the whole kernel: C10_beads_kernel ---- *)
Theorem kernel_spec a b al au bl bu n lb rows row col :
  0 <= n -> 0 <= au -> 0 <= bu -> 0 <= row < rows -> 0 <= col < n ->
  let cu := c_upper au bu n in
  get (kernel a b al au bl bu cu n lb rows) row col =
  if (row - cu <=? lb) && (0 <=? col + (row - cu)) && (col + (row - cu) <? n)
  then prod a b al au bl bu n (col + (row - cu)) col else 0.
Proof.
  intros Hn Hau Hbu Hr Hc cu. unfold kernel. cbn [get].
  set (oc0 := row - cu).
  rewrite (ssum_ext _ _ _ (fun oc => if oc =? oc0 then inner a b al au bl bu n oc0 col else 0)).
  - rewrite ssum_point. rewrite inner_spec by assumption.
    assert (Hcu : cu = Z.min (au + bu) (n - 1)) by reflexivity.
    replace (- (au + bu) <=? oc0) with true by (unfold oc0; lia).
    destruct (oc0 <=? lb), (0 <=? col + oc0), (col + oc0 <? n); reflexivity.
  - intros oc Hoc. unfold pyrow.
    destruct (oc =? oc0) eqn:E.
    + assert (oc = oc0) by lia. subst oc. unfold oc0. replace (cu + (row - cu)) with row by lia.
      replace (row <? 0) with false by lia. rewrite Z.eqb_refl. reflexivity.
    + destruct ((if cu + oc <? 0 then cu + oc + rows else cu + oc) =? row) eqn:E2; [|reflexivity].
      (* a different o_c lands in this row only through the negative wrap; its loops are empty *)
      rewrite inner_spec by assumption.
      assert (Hcu : cu = Z.min (au + bu) (n - 1)) by reflexivity.
      destruct (cu + oc <? 0) eqn:E3; [|unfold oc0 in *; lia].
      destruct ((0 <=? col + oc) && (col + oc <? n)) eqn:E4; [lia|reflexivity].
Qed.

(* ---- _banded_dot_banded, symmetric_output=False: all bands, LAPACK general storage ---- *)
Theorem banded_dot_banded_full a b al au bl bu i j :
  let n := nc a in
  0 <= al -> 0 <= au -> 0 <= bl -> 0 <= bu -> 0 <= i < n -> 0 <= j < n ->
  - c_upper au bu n <= i - j <= c_lower al bl n ->
  get (banded_dot_banded a b al au bl bu false) (c_upper au bu n + i - j) j = prod a b al au bl bu n i j.
Proof.
  intros n Hal Hau Hbl Hbu Hi Hj Hb. unfold banded_dot_banded. fold n. cbv zeta.
  rewrite kernel_spec by (unfold c_upper, c_lower in *; lia).
  replace (c_upper au bu n + i - j - c_upper au bu n) with (i - j) by lia.
  replace (j + (i - j)) with i by lia.
  replace (i - j <=? al + bl) with true by (unfold c_lower in *; lia).
  replace (0 <=? i) with true by lia. replace (i <? n) with true by lia. reflexivity.
Qed.

(* entries outside the matrix (the corners of the band storage) are zero *)
Theorem banded_dot_banded_full_corner a b al au bl bu row col :
  let n := nc a in
  0 <= al -> 0 <= au -> 0 <= bl -> 0 <= bu ->
  0 <= row < c_lower al bl n + c_upper au bu n + 1 -> 0 <= col < n ->
  ~ (0 <= col + (row - c_upper au bu n) < n) ->
  get (banded_dot_banded a b al au bl bu false) row col = 0.
Proof.
  intros n Hal Hau Hbl Hbu Hr Hc Hout. unfold banded_dot_banded. fold n. cbv zeta.
  rewrite kernel_spec by lia.
  destruct ((row - c_upper au bu n <=? al + bl) && (0 <=? col + (row - c_upper au bu n))
            && (col + (row - c_upper au bu n) <? n)) eqn:E; [lia|reflexivity].
Qed.

(* ---- the completion loop ---- *)
Lemma complete_loop_closed u n out : 0 <= u -> forall m : nat, Z.of_nat m <= u ->
  forall r c, 0 <= r < 2 * u + 1 ->
  complete_loop (2 * u + 1) n u m out r c =
  if (2 * u + 1 - Z.of_nat m <=? r) && (0 <=? c) && (c <? n - (r - u)) then out (2 * u - r) (c + (r - u)) else out r c.
Proof.
  intros Hu. induction m as [|m IH]; intros Hm r c Hr.
  - cbn [complete_loop]. replace (2 * u + 1 - Z.of_nat 0 <=? r) with false by lia. reflexivity.
  - cbn [complete_loop]. unfold complete_step at 1. cbv zeta.
    destruct (r =? 2 * u + 1 - Z.of_nat (S m)) eqn:E.
    + assert (Er : r = 2 * u + 1 - Z.of_nat (S m)) by lia.
      replace (u + 1 - Z.of_nat (S m)) with (r - u) by lia.
      replace (2 * u + 1 - Z.of_nat (S m) <=? r) with true by lia. cbn [andb].
      destruct ((0 <=? c) && (c <? n - (r - u))) eqn:Ec.
      * rewrite IH by lia.
        replace (2 * u + 1 - Z.of_nat m <=? Z.of_nat (S m) - 1) with false by lia. cbn [andb].
        replace (Z.of_nat (S m) - 1) with (2 * u - r) by lia. reflexivity.
      * rewrite IH by lia. replace (2 * u + 1 - Z.of_nat m <=? r) with false by lia. reflexivity.
    + cbn [andb]. rewrite IH by lia.
      destruct (2 * u + 1 - Z.of_nat m <=? r) eqn:E1, (2 * u + 1 - Z.of_nat (S m) <=? r) eqn:E2; try reflexivity; lia.
Qed.

(* ---- _banded_dot_banded, symmetric_output=True (BTB = B @ B and A D A in beads) ---- *)
Theorem banded_dot_banded_sym a b al au bl bu i j :
  let n := nc a in
  let u := au + bu in
  0 <= al -> 0 <= au -> 0 <= bl -> 0 <= bu -> al + bl = u -> u <= n - 1 ->
  (forall p q, 0 <= p < n -> 0 <= q < n -> prod a b al au bl bu n p q = prod a b al au bl bu n q p) ->
  0 <= i < n -> 0 <= j < n -> Z.abs (i - j) <= u ->
  get (banded_dot_banded a b al au bl bu true) (u + i - j) j = prod a b al au bl bu n i j.
Proof.
  intros n u Hal Hau Hbl Hbu Hs Hun Hsym Hi Hj Hb. unfold banded_dot_banded. fold n. cbv zeta.
  assert (Ecu : c_upper au bu n = u) by (unfold c_upper; fold u; lia).
  assert (Ecl : c_lower al bl n = u) by (unfold c_lower; lia).
  rewrite Ecu, Ecl, Hs. cbn [get]. replace (u + u + 1) with (2 * u + 1) by lia.
  rewrite complete_loop_closed by lia. rewrite Z2Nat.id by lia.
  destruct ((2 * u + 1 - u <=? u + i - j) && (0 <=? j) && (j <? n - (u + i - j - u))) eqn:E.
  - (* a lower band: copied from the mirrored upper band *)
    rewrite <- Ecu at 1. rewrite kernel_spec by lia. rewrite Ecu.
    replace (2 * u - (u + i - j) - u) with (j - i) by lia.
    replace (j + (u + i - j - u) + (j - i)) with j by lia.
    replace (j + (u + i - j - u)) with i by lia.
    replace (j - i <=? 0) with true by lia. replace (0 <=? j) with true by lia. replace (j <? n) with true by lia.
    cbn [andb]. apply Hsym; assumption.
  - (* main diagonal and upper bands: computed by the kernel *)
    rewrite <- Ecu at 1. rewrite kernel_spec by lia. rewrite Ecu.
    replace (u + i - j - u) with (i - j) by lia. replace (j + (i - j)) with i by lia.
    replace (i - j <=? 0) with true by lia. replace (0 <=? i) with true by lia. replace (i <? n) with true by lia.
    reflexivity.
Qed.

(* transposes: the product of symmetric band matrices A, B with B = A-compatible symmetry *)
Lemma prod_sym_same a al au n : al = au ->
  (forall p q, mat a al au n p q = mat a al au n q p) ->
  forall p q, prod a a al au al au n p q = prod a a al au al au n q p.
Proof.
  intros _ Hm p q. unfold prod. apply sumZ_ext. intros k _. rewrite (Hm p k), (Hm k q). ring.
Qed.
