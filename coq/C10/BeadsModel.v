(* Property C10, growth: executable model of pybaselines/misc.py _numba_banded_dot_banded (the only
   numba kernel of beads) and of its caller _banded_dot_banded (output allocation, symmetric completion).
   The kernel is modelled as an INDEX FUNCTION: what each cell of the zero-initialised output holds
   after the three nested loops, i.e. the sum of all increments `c[row_c, frame + d_c] += ...` that land
   in that cell -- with Python's negative-row wrap-around kept (row_c = c_upper + o_c is negative when
   a_upper + b_upper > n - 1).  Models only; proofs in C10/BeadsProofs.v. *)
From Coq Require Import ZArith List Bool Lia ZifyBool.
From PB Require Import lib.SumZ lib.Arr.
Import ListNotations.
Open Scope Z_scope.

(* sum over the inclusive integer range lo..hi (range(lo, hi + 1)); empty when hi < lo *)
Definition ssum (lo hi : Z) (f : Z -> Z) : Z := sumZ (Z.to_nat (hi - lo + 1)) (fun t => f (lo + t)).

(* a Python row index into an array with `rows` rows: negative indices wrap *)
Definition pyrow (rows r : Z) : Z := if r <? 0 then r + rows else r.

(* innermost loop, for fixed o_c, o_a and target column col = frame + d_c = frame - o_b:
     for frame in range(max(0, -o_a, o_b), max(0, diag_length + min(0, -o_a, o_b))):
         c[row_c, frame + d_c] += a[row_a, frame + d_a] * b[row_b, frame + d_b]
   with row_a = a_upper + o_a, row_b = b_upper + o_b, d_a = 0, d_b = d_c = -o_b *)
Definition term (a b : arr) (au bu n oc col oa : Z) : Z :=
  let ob := oc - oa in
  let frame := col + ob in
  let lo := Z.max 0 (Z.max (- oa) ob) in
  let hi := Z.max 0 (n + Z.min 0 (Z.min (- oa) ob)) in
  if (lo <=? frame) && (frame <? hi) then get a (au + oa) frame * get b (bu + ob) (frame - ob) else 0.

(* for o_a in range(-min(a_upper, b_lower - o_c), min(a_lower, b_upper + o_c) + 1) *)
Definition inner (a b : arr) (al au bl bu n oc col : Z) : Z :=
  ssum (- Z.min au (bl - oc)) (Z.min al (bu + oc)) (term a b au bu n oc col).

(* for o_c in range(-(a_upper + b_upper), lower_bound + 1): everything that lands in cell (row, col) *)
Definition kernel (a b : arr) (al au bl bu cu n lb rows : Z) : arr :=
  mkarr rows n (fun row col =>
    ssum (- (au + bu)) lb (fun oc => if pyrow rows (cu + oc) =? row then inner a b al au bl bu n oc col else 0)).

(* _banded_dot_banded for square n x n operands: c_upper / c_lower clamping, lower_bound, allocation *)
Definition c_upper (au bu n : Z) : Z := Z.min (au + bu) (n - 1).
Definition c_lower (al bl n : Z) : Z := Z.min (al + bl) (n - 1).

(* the completion loop:  for row in range(1, a_lower + b_lower + 1):
       offset = a_lower + b_lower + 1 - row;  output[-row, :-offset] = output[row - 1, offset:] *)
Definition complete_step (rows n s : Z) (out : Z -> Z -> Z) (row : Z) : Z -> Z -> Z :=
  let offset := s + 1 - row in
  fun r c => if (r =? rows - row) && (0 <=? c) && (c <? n - offset) then out (row - 1) (c + offset) else out r c.

Fixpoint complete_loop (rows n s : Z) (m : nat) (out : Z -> Z -> Z) : Z -> Z -> Z :=
  match m with
  | O => out
  | S m' => complete_step rows n s (complete_loop rows n s m' out) (Z.of_nat m)     (* rows 1, 2, ..., m in order *)
  end.

Definition banded_dot_banded (a b : arr) (al au bl bu : Z) (symmetric_output : bool) : arr :=
  let n := nc a in
  let cu := c_upper au bu n in
  let cl := c_lower al bl n in
  let rows := cl + cu + 1 in
  let lb := if symmetric_output then 0 else al + bl in
  let out := kernel a b al au bl bu cu n lb rows in
  if symmetric_output then mkarr rows n (complete_loop rows n (al + bl) (Z.to_nat (al + bl)) (get out))
  else out.

(* ---- specification: the matrices the band arrays denote (LAPACK general band storage
   ab[u + i - j, j] = M[i, j]) and their product ---- *)
Definition mat (a : arr) (l u n : Z) (i j : Z) : Z :=
  if (0 <=? i) && (i <? n) && (0 <=? j) && (j <? n) && (- u <=? i - j) && (i - j <=? l)
  then get a (u + i - j) j else 0.
Definition prod (a b : arr) (al au bl bu n : Z) (i j : Z) : Z :=
  sumZ (Z.to_nat n) (fun k => mat a al au n i k * mat b bl bu n k j).

(* observation *)
Definition of_rows (l : list (list Z)) : arr :=
  mkarr (Z.of_nat (length l)) (Z.of_nat (length (hd [] l))) (fun r c => nth (Z.to_nat c) (nth (Z.to_nat r) l []) 0).
