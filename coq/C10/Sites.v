(* Property C10: the EXPECTED list of places where pybaselines looks at its optional dependencies
   (_HAS_NUMBA / _HAS_PENTAPY reads, stores and imports; imports of numba / pentapy; py_func / find_spec /
   import_module / __wrapped__ / sys.modules probes) and of jit-decorated functions.  tools/gen_c10.py
   enumerates the actual ones from the whole package on every run (gen/GenC10.v); [sites_ok] compares.
   Every flag-conditional branch listed here is modelled / covered:
     PenalizedSystem.reset_diagonals  -> C11/Banded.v want_penta, C10_flags_agree;
     _spline_basis, PSpline.__init__  -> C07 make_ab (numba : bool), C10_btb_paths, exact P-spline captures;
     _Misc.beads                      -> C10_beads_*, translator equality of the two beads paths;
     _Polynomial.loess                -> only np.ascontiguousarray of the Vandermonde matrix (layout, not values); oracle.
   A NEW site (a new `if _HAS_NUMBA:` fallback anywhere) makes [sites_ok] fail until it is modelled here. *)
From Coq Require Import List String.
From PB Require Import C10.Syntax gen.GenC10.
Import ListNotations.

Definition expected_flag_sites : list (string * string * string) := [
  ("pybaselines/_banded_utils.py"%string, "<module>"%string, "import _HAS_PENTAPY"%string);
  ("pybaselines/_banded_utils.py"%string, "PenalizedSystem.reset_diagonals"%string, "read _HAS_PENTAPY"%string);
  ("pybaselines/_compat.py"%string, "<module>"%string, "import from numba"%string);
  ("pybaselines/_compat.py"%string, "<module>"%string, "import from pentapy"%string);
  ("pybaselines/_compat.py"%string, "<module>"%string, "store _HAS_NUMBA"%string);
  ("pybaselines/_compat.py"%string, "<module>"%string, "store _HAS_NUMBA"%string);
  ("pybaselines/_compat.py"%string, "<module>"%string, "store _HAS_PENTAPY"%string);
  ("pybaselines/_compat.py"%string, "<module>"%string, "store _HAS_PENTAPY"%string);
  ("pybaselines/_spline_utils.py"%string, "<module>"%string, "import _HAS_NUMBA"%string);
  ("pybaselines/_spline_utils.py"%string, "PSpline.__init__"%string, "read _HAS_NUMBA"%string);
  ("pybaselines/_spline_utils.py"%string, "_spline_basis"%string, "read _HAS_NUMBA"%string);
  ("pybaselines/misc.py"%string, "<module>"%string, "import _HAS_NUMBA"%string);
  ("pybaselines/misc.py"%string, "_Misc.beads"%string, "read _HAS_NUMBA"%string);
  ("pybaselines/polynomial.py"%string, "<module>"%string, "import _HAS_NUMBA"%string);
  ("pybaselines/polynomial.py"%string, "_Polynomial.loess"%string, "read _HAS_NUMBA"%string)
].
(* the optionally compiled kernels: each must be covered by the direct oracle of harness/c10.py (numba blocked vs
   importable) -- see KERNEL_METHODS there *)
Definition expected_jit_functions : list (string * string * string) := [
  ("pybaselines/_spline_utils.py"%string, "__make_design_matrix"%string, "jit(nopython=True, cache=True)"%string);
  ("pybaselines/_spline_utils.py"%string, "_de_boor"%string, "jit(nopython=True, cache=True)"%string);
  ("pybaselines/_spline_utils.py"%string, "_find_interval"%string, "jit(nopython=True, cache=True)"%string);
  ("pybaselines/_spline_utils.py"%string, "_numba_btb_bty"%string, "jit(nopython=True, cache=True)"%string);
  ("pybaselines/classification.py"%string, "_rolling_std"%string, "jit(nopython=True, cache=True)"%string);
  ("pybaselines/misc.py"%string, "_numba_banded_dot_banded"%string, "jit(nopython=True, cache=True)"%string);
  ("pybaselines/polynomial.py"%string, "_determine_fits"%string, "jit(nopython=True, cache=True)"%string);
  ("pybaselines/polynomial.py"%string, "_fill_skips"%string, "jit(nopython=True, cache=True)"%string);
  ("pybaselines/polynomial.py"%string, "_loess_first_loop"%string, "jit(nopython=True, cache=True)"%string);
  ("pybaselines/polynomial.py"%string, "_loess_low_memory"%string, "jit(nopython=True, cache=True)"%string);
  ("pybaselines/polynomial.py"%string, "_loess_nonfirst_loops"%string, "jit(nopython=True, cache=True)"%string);
  ("pybaselines/polynomial.py"%string, "_loess_solver"%string, "jit(nopython=True, cache=True)"%string);
  ("pybaselines/smooth.py"%string, "_directional_min_moving_avg"%string, "jit(nopython=True, cache=True)"%string);
  ("pybaselines/spline.py"%string, "_quadratic_bezier"%string, "jit(nopython=True, cache=True)"%string);
  ("pybaselines/spline.py"%string, "_quadratic_bezier_spline"%string, "jit(nopython=True, cache=True)"%string);
  ("pybaselines/utils.py"%string, "_interp_inplace"%string, "jit(nopython=True, cache=True)"%string)
].

Lemma sites_ok : flag_sites = expected_flag_sites /\ jit_functions = expected_jit_functions.
Proof. split; reflexivity. Qed.

(* ---- in-place solver buffers.  SciPy's banded solvers write the solution into `b` (overwrite_b=True) and the
   factorisation into `ab` (overwrite_ab=True); pentapy never writes.  Whatever is handed to a backend-dispatching
   solve() with such a flag must therefore be a freshly allocated local that nothing returned / stored refers to
   (classified by tools/gen_c10.py from the source: arithmetic results, allocating calls, locals all of whose
   definitions are such and that are not also stored in a dict / list / attribute / return value); for the
   left-hand side also the penalty array of a system that is not solved again. *)
Definition site_ok (s : string * string * string * string * string) : bool :=
  let '(_, _, role, _, cls) := s in
  String.eqb cls "fresh" || (String.eqb role "lhs" && String.eqb cls "system-penalty").

Lemma overwrite_ok : (forall s, In s overwrite_sites -> site_ok s = true) /\ overwrite_sites <> [].
Proof.
  split.
  - apply forallb_forall. vm_compute. reflexivity.
  - discriminate.
Qed.

(* ---- round 6: which code each arm of a backend-conditional branch runs, and for every optionally compiled kernel the
   fallback it is PAIRED with (a different implementation, or the same source run uncompiled) and where harness/c10.py runs
   the pair -- on sorted and on non-monotone inputs for those whose inputs have an order. *)
Definition expected_flag_branches : list (string * string * string * string * string) := [
  ("pybaselines/_banded_utils.py"%string, "PenalizedSystem.reset_diagonals"%string, "allow_lower and (not using_pentapy)"%string, ""%string, ""%string);
  ("pybaselines/_banded_utils.py"%string, "PenalizedSystem.reset_diagonals"%string, "reverse_diags or (using_pentapy and reverse_diags is None)"%string, ""%string, ""%string);
  ("pybaselines/_banded_utils.py"%string, "PenalizedSystem.solve"%string, "check_output and (not self.using_pentapy) and (not np.isfinite(output).all())"%string, "np.linalg.LinAlgError"%string, ""%string);
  ("pybaselines/_banded_utils.py"%string, "PenalizedSystem.solve"%string, "self.using_pentapy"%string, "_pentapy_solver"%string, "len solve_banded solveh_banded"%string);
  ("pybaselines/_spline_utils.py"%string, "PSpline.__init__"%string, "_HAS_NUMBA and self.basis._x_len * (self.basis.spline_degree + 1) == len(self.ba"%string, ""%string, ""%string);
  ("pybaselines/_spline_utils.py"%string, "PSpline.solve_pspline"%string, "self._use_numba"%string, "=self.basis.basis.tocsr().data _lower_to_full _numba_btb_bty np.zeros self.basis.basis.tocsr"%string, ""%string);
  ("pybaselines/_spline_utils.py"%string, "_spline_basis"%string, "_HAS_NUMBA"%string, "=_make_design_matrix"%string, "=BSpline.design_matrix =_slow_design_matrix hasattr"%string);
  ("pybaselines/misc.py"%string, "_Misc.beads"%string, "_HAS_NUMBA"%string, "_banded_beads"%string, "_sparse_beads"%string);
  ("pybaselines/polynomial.py"%string, "_Polynomial.loess"%string, "_HAS_NUMBA"%string, "np.ascontiguousarray"%string, "=self._polynomial.vandermonde"%string);
  ("pybaselines/whittaker.py"%string, "_Whittaker.aspls"%string, "not whittaker_system.using_pentapy"%string, "_shift_rows"%string, ""%string);
  ("pybaselines/whittaker.py"%string, "_Whittaker.drpls"%string, "not whittaker_system.using_pentapy"%string, "_shift_rows"%string, ""%string);
  ("pybaselines/whittaker.py"%string, "_Whittaker.drpls"%string, "whittaker_system.using_pentapy"%string, "whittaker_system.reverse_penalty"%string, ""%string);
  ("pybaselines/whittaker.py"%string, "_Whittaker.iasls"%string, "whittaker_system.using_pentapy"%string, ""%string, ""%string)
].

Definition expected_kernel_fallbacks : list (string * string * string) := [
  ("__make_design_matrix"%string, "BSpline.design_matrix / _slow_design_matrix (chosen in _spline_basis)"%string, "pairs: design:* on all x orders"%string);
  ("_de_boor"%string, "same source (py_func); reached through __make_design_matrix"%string, "pairs: design:*"%string);
  ("_find_interval"%string, "same source (py_func); reached through __make_design_matrix and _numba_btb_bty"%string, "pairs: design:*, btb:*"%string);
  ("_numba_btb_bty"%string, "sparse product B.T @ W @ B -> _sparse_to_banded (PSpline.solve_pspline, not self._use_numba)"%string, "pairs: btb:*, bty:*, solve_pspline:arms on all x orders; C10_btb_paths"%string);
  ("_rolling_std"%string, "same source (py_func)"%string, "oracle: std_distribution, fastchrom incl. large pedestals"%string);
  ("_numba_banded_dot_banded"%string, "scipy.sparse products of _sparse_beads"%string, "bdb correspondence; C10_beads_*"%string);
  ("_determine_fits"%string, "same source (py_func)"%string, "oracle: loess"%string);
  ("_fill_skips"%string, "same source (py_func)"%string, "oracle: loess delta > 0"%string);
  ("_loess_first_loop"%string, "same source (py_func)"%string, "oracle: loess"%string);
  ("_loess_low_memory"%string, "same source (py_func)"%string, "oracle: loess conserve_memory"%string);
  ("_loess_nonfirst_loops"%string, "same source (py_func)"%string, "oracle: loess"%string);
  ("_loess_solver"%string, "same source (py_func)"%string, "oracle: loess"%string);
  ("_directional_min_moving_avg"%string, "same source (py_func)"%string, "oracle: peak_filling"%string);
  ("_quadratic_bezier"%string, "same source (py_func)"%string, "oracle: corner_cutting"%string);
  ("_quadratic_bezier_spline"%string, "same source (py_func)"%string, "oracle: corner_cutting"%string);
  ("_interp_inplace"%string, "same source (py_func)"%string, "oracle: golotvin, dietrich, std_distribution, fastchrom, loess delta"%string)
].

Definition kernel_has_pair (k : string * string * string) : bool :=
  let '(_, name, _) := k in existsb (fun p => let '(n, _, _) := p in String.eqb n name) expected_kernel_fallbacks.

Lemma branches_ok :
  flag_branches = expected_flag_branches /\ (forall k, In k jit_functions -> kernel_has_pair k = true).
Proof. split; [reflexivity|]. apply forallb_forall. vm_compute. reflexivity. Qed.

(* ---- round 7: the algebraic identity both members of a pair must implement, read in IEEE arithmetic.  The sums run
   over ALL samples i, including those with w_i = 0: 0 * NaN = NaN and 0 * inf = NaN, so a backend that skips
   zero-weight samples (e.g. by going through a sparse diagonal matrix that drops stored zeros) is NOT the same function
   on non-finite data.  C10 ("the same result whichever backend") therefore demands equal propagation of NaN / inf; the
   harness compares outcome kinds and non-finite patterns on an enumerated grid (zero weights x NaN/+inf/-inf). *)
Definition pair_identities : list (string * string) := [
  ("_numba_btb_bty / sparse fallback: lhs"%string, "ab[r - c, c] = sum_{i = 0..n-1} w_i * B[i,r] * B[i,c]   (C07 btwb, C12_btb_exact)"%string);
  ("_numba_btb_bty / sparse fallback: rhs"%string, "rhs[r] = sum_{i = 0..n-1} w_i * y_i * B[i,r], every i, also w_i = 0   (C07 bty, C12_btb_exact)"%string);
  ("__make_design_matrix / BSpline.design_matrix"%string, "B[i, j] = B_{j,k}(x_i) for the x order given"%string);
  ("_numba_banded_dot_banded / scipy.sparse product"%string, "C[i,j] = sum_k A[i,k] * B[k,j]   (C10_beads_kernel)"%string);
  ("pentapy / solveh_banded / solve_banded"%string, "x with (W + lam D'D + ...) x = rhs; rhs = w * y elementwise for every sample"%string)
].

