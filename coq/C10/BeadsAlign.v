(* Property C10, sprint: the last assembly step of _banded_beads, `temp[2:-2] += BTB`, where temp is the
   (2 filter_type + 2)-band storage of A D A and BTB the (2 filter_type)-band storage of B B: the in-place slice
   addition aligns the main diagonals, so the array handed to solve_banded stores A D A + B B.
   Together with C10_beads_product_full / C10_beads_bands_partial (the three banded products) this is the whole
   left-hand side of the banded path; the sparse path adds the same two matrices with scipy.sparse. *)
From Coq Require Import ZArith List Bool Lia ZifyBool.
From PB Require Import lib.SumZ lib.PySlice lib.Arr C11.DtD C11.Table gen.GenBands C11.Banded C11.History
                       C10.Syntax gen.GenC10 C10.Model C10.Proofs.
Open Scope Z_scope.

(* temp[2:-2] += btb   (rows 2 .. nr temp - 3 of temp, all columns) *)
Definition slice_add2 (temp btb : arr) : arr :=
  mkarr (nr temp) (nc temp)
        (fun r c => if (2 <=? r) && (r <? nr temp - 2) then get temp r c + get btb (r - 2) c else get temp r c).

Theorem beads_lhs_aligned (u N : Z) (temp btb : arr) (X Y : Z -> Z -> Z) :
  0 <= u ->
  Rep LFull (u + 2) N temp X ->          (* (A D) A in LAPACK general band storage, u + 2 bands each side *)
  Rep LFull u N btb Y ->                 (* B B, u bands each side *)
  Banded N u Y ->
  Rep LFull (u + 2) N (slice_add2 temp btb) (fun i j => X i j + Y i j).
Proof.
  intros Hu HT HB HY.
  assert (HP : Rep LFull (u + 2) N (pad_diagonals btb 2 false) Y)
    by (apply (rep_pad LFull u 2); try assumption; lia).
  pose proof (rep_add LFull (u + 2) N temp (pad_diagonals btb 2 false) X Y HT HP) as HS.
  eapply rep_aeq; [|exact HS].
  destruct HT as (T1 & T2 & _). destruct HB as (B1 & B2 & _). cbn [rows] in *.
  unfold slice_add2, add_arr, pad_diagonals, aeq. cbn [nr nc get]. replace (0 <? 2) with true by reflexivity.
  cbn [nr nc get]. split; [reflexivity|]. split; [reflexivity|].
  intros r c Hr Hc. rewrite T1, B1.
  destruct ((2 <=? r) && (r <? 2 * (u + 2) + 1 - 2)) eqn:E1, ((2 <=? r) && (r <? 2 + (2 * u + 1))) eqn:E2; try lia.
Qed.
