(* Property C10 -- executable model of the CONFIGURATION logic of pybaselines: which banded solver /
   optional dependency is used, in which band layout the system is handed over, and what the
   methods that hand-assemble bands do under each configuration.

     pybaselines/_algorithm_setup.py : banded_solver setter, _setup_whittaker
     pybaselines/_banded_utils.py    : PenalizedSystem.reset_diagonals (C11 model, C11/Banded.v),
                                       add_penalty/_add_diagonals, reverse_penalty, solve, _pentapy_solver
     pybaselines/whittaker.py        : asls-type pass, iasls (172-175), drpls (404-421), aspls (587-594)
     pybaselines/morphological.py    : jbcd (798-812)
     pybaselines/_compat.py          : _HAS_PENTAPY / _HAS_NUMBA, the no-numba jit shim

   The banded_solver thresholds, the three flag expressions of reset_diagonals, the arms of
   PenalizedSystem.solve with their keyword constants and the shape of the jit shim are NOT written
   here: they are read from gen/GenC10.v, which tools/gen_c10.py regenerates from the source on
   every run.  Models only; proofs are in C10/Proofs.v. *)
From Coq Require Import ZArith List Bool Lia ZifyBool.
From PB Require Import lib.SumZ lib.PySlice lib.Arr C11.DtD C11.Table gen.GenBands C11.Banded
                       C10.Syntax gen.GenC10.
Import ListNotations.
Open Scope Z_scope.

(* ------------------------------------------------------------------ the 16 configurations *)
Record config := { cf_bs : Z;          (* fitter.banded_solver *)
                   cf_penta : bool;    (* pentapy importable: _compat._HAS_PENTAPY *)
                   cf_numba : bool }.  (* numba importable:   _compat._HAS_NUMBA *)

Definition all_configs : list config :=
  flat_map (fun b => flat_map (fun p => map (fun n => {| cf_bs := b; cf_penta := p; cf_numba := n |})
                                            [true; false]) [true; false]) bs_values.

Definition valid_bs (b : Z) : bool := existsb (Z.eqb b) bs_values.

(* self._pentapy_solver after `fitter.banded_solver = b` *)
Definition psolver (c : config) : Z := bs_pentapy_solver (cf_bs c).

(* the arguments _setup_whittaker passes to PenalizedSystem(...) *)
Definition ws_cfg (c : config) (lam : Z) (d : nat) (allow_lower : bool) (rev : option bool) : cfg :=
  {| c_lam := lam; c_d := d; c_allow_lower := sw_allow_lower allow_lower (cf_bs c); c_rev := rev;
     c_allow_penta := sw_allow_pentapy (cf_bs c); c_pad := 0 |}.

(* the flags reset_diagonals computes, by the expressions of the CURRENT source (gen/GenC10.v) *)
Definition flag_penta (c : config) (d : nat) : bool :=
  rd_using_pentapy (sw_allow_pentapy (cf_bs c)) (cf_penta c) (Z.of_nat d).
Definition flag_lower (c : config) (d : nat) (allow_lower : bool) : bool :=
  rd_lower_only (sw_allow_lower allow_lower (cf_bs c)) (flag_penta c d).
Definition flag_rev (c : config) (d : nat) (rev : option bool) : bool :=
  rd_needs_reversed rev (flag_penta c d).

(* fitter.banded_solver = b ; fitter._setup_whittaker(...)   (None = raised) *)
Definition setup (c : config) (N : nat) (lam : Z) (d : nat) (allow_lower : bool) (rev : option bool)
  : option sys :=
  if negb (valid_bs (cf_bs c)) then None
  else if Z.of_nat d <? 1 then None
  else reset (cf_penta c) N None (ws_cfg c lam d allow_lower rev).

(* ------------------------------------------------------------------ what reaches the libraries *)
Inductive solver :=
  | Penta (is_flat row_wise : bool) (which : Z)   (* pentapy.solve(ab, y, is_flat, index_row_wise, solver) *)
  | Solveh (lower : bool)                         (* scipy.linalg.solveh_banded(ab, b, lower) *)
  | SolveBanded (l u : Z).                        (* scipy.linalg.solve_banded((l, u), ab, b) *)

Record call := { k_solver : solver; k_lhs : arr; k_rhs : Z -> Z }.

Definition cond_holds (cd : dcond) (penta lower : bool) : bool :=
  match cd with CUsingPentapy => penta | CLower => lower | CElse => true end.

(* PenalizedSystem.solve: first arm of the chain whose condition holds; None = no arm (undefined) *)
Fixpoint dispatch (ch : list (dcond * dcall)) (penta lower : bool) (which : Z)
                  (l_and_u : option (Z * Z)) (nrows : Z) : option solver :=
  match ch with
  | [] => None
  | (cd, k) :: rest =>
      if cond_holds cd penta lower then
        Some match k with
             | KPentapy f r => Penta f r which
             | KSolveh lo => Solveh lo
             | KSolveBanded LuHalfRows =>
                 match l_and_u with
                 | Some (l, u) => SolveBanded l u
                 | None => SolveBanded (nrows / 2) (nrows / 2)
                 end
             end
      else dispatch rest penta lower which l_and_u nrows
  end.

Definition solve_call (c : config) (s : sys) (lhs : arr) (rhs : Z -> Z) (l_and_u : option (Z * Z))
  : option call :=
  match dispatch solve_chain (s_penta s) (s_lower s) (psolver c) l_and_u (nr lhs) with
  | Some sv => Some {| k_solver := sv; k_lhs := lhs; k_rhs := rhs |}
  | None => None
  end.

(* the three storage layouts *)
Inductive storage := LLower | LFull | LRow.
Definition rows (L : storage) (u : Z) : Z := match L with LLower => u + 1 | _ => 2 * u + 1 end.
(* where entry (i, j), |i - j| <= u, of the matrix is stored *)
Definition coord (L : storage) (u i j : Z) : Z * Z :=
  match L with
  | LLower => (Z.abs (i - j), Z.min i j)     (* LAPACK lower, symmetric: ab[i - j, j], i >= j *)
  | LFull => (u + i - j, j)                  (* LAPACK general: ab[u + i - j, j] *)
  | LRow => (u + i - j, i)                   (* row-aligned: mat[u + i - j, i]  (pentapy index_row_wise) *)
  end.

(* the layout a library entry point reads, by its documentation; None = a calling convention
   under which the bands this code base builds would be misread *)
Definition expects (sv : solver) : option storage :=
  match sv with
  | Penta true true _ => Some LRow
  | Penta true false _ => Some LFull
  | Penta false _ _ => None
  | Solveh true => Some LLower
  | Solveh false => None
  | SolveBanded _ _ => Some LFull
  end.

(* the dense matrix a call denotes, by the documented conventions of the entry points:
   pentapy.solve(is_flat=True, index_row_wise=True): mat[r, i] = A[i, i + 2 - r] (col-wise: LAPACK);
   solveh_banded(lower=True): ab[i - j, j] = A[i, j] (i >= j), symmetric completion;
   solve_banded((l, u)): ab[u + i - j, j] = A[i, j] for -u <= i - j <= l. *)
Definition den (k : call) (i j : Z) : Z :=
  match k_solver k with
  | Penta true rw _ => if Z.abs (i - j) <=? 2 then get (k_lhs k) (2 + i - j) (if rw then i else j) else 0
  | Penta false _ _ => 0
  | Solveh true => let r := Z.abs (i - j) in if r <? nr (k_lhs k) then get (k_lhs k) r (Z.min i j) else 0
  | Solveh false => 0
  | SolveBanded l u => if (- u <=? i - j) && (i - j <=? l) then get (k_lhs k) (u + i - j) j else 0
  end.

(* shape requirements of the entry points *)
Definition call_wf (N : Z) (k : call) : bool :=
  (nc (k_lhs k) =? N) &&
  match k_solver k with
  | Penta f _ which => f && (nr (k_lhs k) =? 5) && ((which =? 1) || (which =? 2))
  | Solveh lo => lo && (1 <=? nr (k_lhs k))
  | SolveBanded l u => (0 <=? l) && (0 <=? u) && (nr (k_lhs k) =? l + u + 1)
  end.

(* ------------------------------------------------------------------ array helpers *)
Definition mulv (w y : Z -> Z) : Z -> Z := fun i => w i * y i.
Definition colscale (a : arr) (w : Z -> Z) : arr := mkarr (nr a) (nc a) (fun r c => get a r c * w c).
Definition add_arr (a b : arr) : arr := mkarr (nr a) (nc a) (fun r c => get a r c + get b r c).
Definition set_row (a : arr) (r0 : Z) (f : Z -> Z) : arr :=
  mkarr (nr a) (nc a) (fun r c => if r =? r0 then f c else get a r c).
(* a[main] += v *)
Definition add_main (a : arr) (main : Z) (v : Z -> Z) : arr :=
  set_row a main (fun c => get a main c + v c).

(* _add_diagonals(a, b, lower_only); the zero blocks are those of _pad_diagonals *)
Definition add_diagonals (a b : arr) (lower : bool) : option arr :=
  if negb (nc a =? nc b) then None
  else
    let mm := nr a - nr b in
    if mm =? 0 then Some (add_arr a b)
    else
      let am := Z.abs mm in
      if lower then
        if 0 <? mm then Some (add_arr a (pad_diagonals b am true))
        else Some (add_arr (pad_diagonals a am true) b)
      else if negb (am mod 2 =? 0) then None
      else if 0 <? mm then Some (add_arr a (pad_diagonals b (am / 2) false))
      else Some (add_arr (pad_diagonals a (am / 2) false) b).

(* _update_bands: main_diagonal_index of a (new) penalty *)
Definition main_index (lower : bool) (pen : arr) : Z := if lower then 0 else nr pen / 2.

(* ------------------------------------------------------------------ the methods (one pass) *)
(* asls, airpls, arpls, iarpls, psalsa, derpsalsa, brpls, lsrpls, mpls, fabc, ...:
   solve(add_diagonal(w), w * y) *)
Definition m_plain (c : config) (N d : nat) (lam : Z) (w y : Z -> Z) : option call :=
  match setup c N lam d true None with
  | Some s => solve_call c s (set_row (s_pen s) (s_main s) (fun col => get (s_pen s) (s_main s) col + w col))
                         (mulv w y) None
  | None => None
  end.

(* jbcd: _setup_whittaker(y, lam=1, diff_order); lhs = mu * penalty; lhs[main] += v.
   first system: mu = gamma, v = 1; second: mu = 2 beta, v = 1 + 2 alpha; rhs as handed over *)
Definition m_jbcd (c : config) (N d : nat) (mu v : Z) (rhs : Z -> Z) : option call :=
  match setup c N 1 d true None with
  | Some s => solve_call c s (add_main (scale mu (s_pen s)) (s_main s) (fun _ => v)) rhs None
  | None => None
  end.

(* iasls: d1_y[0] = y[0]-y[1]; d1_y[-1] = y[-1]-y[-2]; d1_y[1:-1] = 2y[1:-1]-y[:-2]-y[2:] *)
Definition d1y (N : Z) (y : Z -> Z) : Z -> Z := fun i =>
  if (1 <=? i) && (i <? N - 1) then 2 * y i - y (i - 1) - y (i + 1)
  else if i =? N - 1 then y (N - 1) - y (N - 2)
  else if i =? 0 then y 0 - y 1
  else y i.

Definition m_iasls (c : config) (N d : nat) (lam lam1 : Z) (w y : Z -> Z) : option call :=
  if Z.of_nat d <? 2 then None
  else match setup c N lam d true None with
  | None => None
  | Some s =>
      match dpd N 1 (s_lower s) 1 with
      | DpdOk d1 =>
          let d1' := if s_penta s then rev_rows d1 else d1 in
          match add_diagonals (s_pen s) (scale lam1 d1') (s_lower s) with
          | Some pen =>
              solve_call c s (add_main pen (main_index (s_lower s) pen) (mulv w w))
                         (fun i => w i * w i * y i + lam1 * d1y (Z.of_nat N) y i) None
          | None => None
          end
      | _ => None
      end
  end.

(* drpls: allow_lower=False, reverse_diags=False *)
Definition m_drpls (c : config) (N d : nat) (lam eta : Z) (w y : Z -> Z) : option call :=
  if Z.of_nat d <? 2 then None
  else match setup c N lam d false (Some false) with
  | None => None
  | Some s =>
      let dz := Z.of_nat d in
      let dn := add_main (scale (- eta) (rev_rows (s_pen s))) (s_main s) (fun _ => 1) in
      match dpd N 1 false (dz - 1) with
      | DpdOk d1 =>
          match add_diagonals (s_pen s) d1 (s_lower s) with
          | Some pen0 =>
              if s_penta s && s_lower s then None     (* reverse_penalty raises on lower bands *)
              else
                let pen := if s_penta s then rev_rows pen0 else pen0 in
                let pww := colscale dn w in
                let pww' := if s_penta s then pww else shift_rows pww dz dz in
                solve_call c s (add_arr pen pww') (mulv w y) (Some (dz, dz))
          | None => None
          end
      | _ => None
      end
  end.

(* aspls: allow_lower=False, reverse_diags=True *)
Definition m_aspls (c : config) (N d : nat) (lam : Z) (w al y : Z -> Z) : option call :=
  match setup c N lam d false (Some true) with
  | None => None
  | Some s =>
      let dz := Z.of_nat d in
      let l1 := add_main (colscale (s_pen s) al) (s_main s) w in
      let l2 := if s_penta s then l1 else shift_rows l1 dz dz in
      solve_call c s l2 (mulv w y) (Some (dz, dz))
  end.

(* one interface over the hand-assembling methods *)
Inductive method := MPlain | MIasls | MDrpls | MAspls | MJbcd1 | MJbcd2.
Record inputs := { i_lam : Z;          (* lam  (ignored by jbcd, which uses lam = 1) *)
                   i_p : Z;            (* iasls lam_1 | drpls eta | jbcd gamma resp. beta *)
                   i_q : Z;            (* jbcd alpha *)
                   i_w : Z -> Z;       (* weights *)
                   i_a : Z -> Z;       (* aspls alpha array | jbcd: the right-hand side handed over *)
                   i_y : Z -> Z }.

Definition min_order (m : method) : nat := match m with MIasls | MDrpls => 2 | _ => 1 end.

Definition run (m : method) (c : config) (N d : nat) (x : inputs) : option call :=
  match m with
  | MPlain => m_plain c N d (i_lam x) (i_w x) (i_y x)
  | MIasls => m_iasls c N d (i_lam x) (i_p x) (i_w x) (i_y x)
  | MDrpls => m_drpls c N d (i_lam x) (i_p x) (i_w x) (i_y x)
  | MAspls => m_aspls c N d (i_lam x) (i_w x) (i_a x) (i_y x)
  | MJbcd1 => m_jbcd c N d (i_p x) 1 (i_a x)
  | MJbcd2 => m_jbcd c N d (2 * i_p x) (1 + 2 * i_q x) (i_a x)
  end.

(* ------------------------------------------------------------------ the documented systems *)
Definition diagm (w : Z -> Z) (i j : Z) : Z := if i =? j then w i else 0.

Definition doc (m : method) (N d : nat) (x : inputs) (i j : Z) : Z :=
  match m with
  | MPlain => i_lam x * DtD d N i j + diagm (i_w x) i j
  | MIasls => i_lam x * DtD d N i j + i_p x * DtD 1 N i j + diagm (mulv (i_w x) (i_w x)) i j
  | MDrpls => (i_lam x * DtD d N i j + DtD 1 N i j)
              + i_w x i * ((- i_p x) * (i_lam x * DtD d N i j) + diagm (fun _ => 1) i j)
  | MAspls => (i_lam x * DtD d N i j) * i_a x i + diagm (i_w x) i j
  | MJbcd1 => i_p x * (1 * DtD d N i j) + diagm (fun _ => 1) i j
  | MJbcd2 => (2 * i_p x) * (1 * DtD d N i j) + diagm (fun _ => 1 + 2 * i_q x) i j
  end.

Definition doc_rhs (m : method) (N : nat) (x : inputs) (i : Z) : Z :=
  match m with
  | MPlain | MDrpls | MAspls => i_w x i * i_y x i
  | MIasls => i_w x i * i_w x i * i_y x i + i_p x * d1y (Z.of_nat N) (i_y x) i
  | MJbcd1 | MJbcd2 => i_a x i
  end.

(* ------------------------------------------------------------------ the jit shim of _compat.py *)
(* Python values that can reach `jit`: None, a non-callable (signature string / tuple), a function;
   and what it can return: the decorator itself or a callable. *)
Inductive pyarg := ANone | ANotCallable | AFunc (f : Z -> Z).
Inductive pyres := RDecorator | RCallable (g : Z -> Z).

Definition guard_holds (g : guard_atom) (a : pyarg) : bool :=
  match g, a with
  | GIsNone, ANone => true
  | GNotCallable, ANotCallable => true
  | GNotCallable, ANone => true          (* callable(None) is False *)
  | _, _ => false
  end.

(* the function object the shim's `wrapper` is: calls func with the same arguments and returns
   its result -- unless the (translated) body does something else *)
Definition wrapper_of (wb : wrapper_body) (f : Z -> Z) : option (Z -> Z) :=
  if wb_calls_func wb && wb_star_args wb && wb_star_kwargs wb && wb_returns wb
  then Some (fun x => f x) else None.

(* jit(func=None, *jit_args, **jit_kwargs) of the except-ImportError branch; None = not a usable result *)
Definition shim_jit (a : pyarg) : option pyres :=
  let ret (r : shim_ret) :=
    match r, a with
    | RetDecorator, _ => Some RDecorator
    | RetWrapper, AFunc f => match wrapper_of shim_wrapper f with Some g => Some (RCallable g) | None => None end
    | RetWrapper, _ => None
    end in
  if existsb (fun g => guard_holds g a) shim_guard then ret shim_guard_ret else ret shim_final_ret.

(* decorator call shapes used in the code base:  @jit   |   @jit(nopython=True, cache=True)  /  @jit()   |
   @jit("float64(float64)")  (a signature first) *)
Inductive shape := Bare | WithKwargs | WithSignature.

(* the object bound to the decorated name *)
Definition decorate (sh : shape) (f : Z -> Z) : option (Z -> Z) :=
  let apply_decorator (r : option pyres) :=
    match r with
    | Some RDecorator => match shim_jit (AFunc f) with Some (RCallable g) => Some g | _ => None end
    | _ => None
    end in
  match sh with
  | Bare => match shim_jit (AFunc f) with Some (RCallable g) => Some g | _ => None end
  | WithKwargs => apply_decorator (shim_jit ANone)
  | WithSignature => apply_decorator (shim_jit ANotCallable)
  end.

(* ------------------------------------------------------------------ observation (correspondence) *)
Definition vec (N : Z) (f : Z -> Z) : list Z := map f (zrange 0 N).
Definition dense (N : Z) (A : Z -> Z -> Z) : list (list Z) :=
  map (fun i => map (fun j => A i j) (zrange 0 N)) (zrange 0 N).
Definition of_list (l : list Z) : Z -> Z := fun i => nth (Z.to_nat i) l 0.
Definition solver_code (s : solver) : list Z :=
  let b (x : bool) := if x then 1 else 0 in
  match s with
  | Penta f r which => [0; b f; b r; which]
  | Solveh lo => [1; b lo; 0; 0]
  | SolveBanded l u => [2; l; u; 0]
  end.
Definition observe_call (N : Z) (k : call) := (solver_code (k_solver k), tab (k_lhs k), vec N (k_rhs k)).
Definition observe_flags (s : sys) := (s_lower s, s_rev s, s_penta s).
