(* C07 -- the current source has exactly the expected branch structure in every modelled host. *)
From Coq Require Import String List Bool.
From PB Require Import gen.GenC07Hosts C07.Hosts.
Import ListNotations.

Lemma hosts_pinned : host_branches = expected_branches.
Proof. reflexivity. Qed.

Lemma no_module_thresholds : forallb (fun p => match snd p with [] => true | _ => false end) module_constants = true.
Proof. reflexivity. Qed.

Lemma no_size_gates : size_gated = [].
Proof. reflexivity. Qed.
