(* Executable model of the 2-D penalized-spline assembly (property C07, 2-D part):
     pybaselines/two_d/_whittaker_utils.py : PenalizedSystem2D.reset_diagonals (kron penalties), add_penalty
     pybaselines/two_d/_spline_utils.py    : PSpline2D.__init__ (guards), PSpline2D.solve (lhs, rhs, output)
     pybaselines/two_d/spline.py           : every method's pass  pspline.solve(y, w);  pspline_iasls extra terms
   on top of the C20 model of SplineBasis2D._make_btwb / rhs / output (C20/Model.v, imported, not edited) and
   the C11 difference penalty D'D.  scipy.sparse kron / identity / @ / + are library operations and are
   modelled by the index functions of C20/Model.v (kron, eye, mmul, madd).  Models only. *)
From Coq Require Import ZArith List Bool.
From PB Require Import C11.DtD C20.Model.
Import ListNotations.
Open Scope Z_scope.

Section Model2D.
  Variable R : ops.
  Variable ofZ : Z -> T R.          (* int -> float conversion of the integer difference penalty *)

  Definition mscale (l : T R) (A : mat R) : mat R := fun i j => tmul R l (A i j).
  (* diff_penalty_matrix(n, d) = D_d' D_d  (C11) *)
  Definition pen1 (n d : nat) : mat R := fun i j => ofZ (DtD d n i j).

  (* PenalizedSystem2D.reset_diagonals for a grid of shape (a, c):
       kron(lam[0] * P_rows, identity(c)) + kron(identity(a), lam[1] * P_columns) *)
  Definition pen2d (a c dr dc : nat) (lr lc : T R) : mat R :=
    let cz := Z.of_nat c in
    madd R (kron R cz cz (mscale lr (pen1 a dr)) (eye R))
           (kron R cz cz (eye R) (mscale lc (pen1 c dc))).

  (* guards of PenalizedSystem2D / PSpline2D.__init__ (False = ValueError) *)
  Definition init2d (a c dr dc : nat) : bool :=
    (1 <=? Z.of_nat dr) && (1 <=? Z.of_nat dc) && (Z.of_nat dr <? Z.of_nat a) && (Z.of_nat dc <? Z.of_nat c).

  (* what reaches scipy.sparse.linalg.spsolve: a square matrix of order a*c and a vector *)
  Record call2 := { c_lhs : mat R; c_rhs : vec R }.

  (* PSpline2D.solve(y, weights, penalty, rhs_extra) *)
  Definition solve2d (cf : cfg) (M N a c : nat) (Br Bc W Y : mat R) (pen : mat R) (extra : option (vec R)) : call2 :=
    {| c_lhs := madd R (make_btwb R cf M N a c Br W Bc) pen;
       c_rhs := fun k => match extra with
                         | None => rhs_model R M N (Z.of_nat c) Br W Y Bc k
                         | Some e => tadd R (rhs_model R M N (Z.of_nat c) Br W Y Bc k) (e k)
                         end |}.

  (* mixture_model, irsqr, pspline_asls / airpls / arpls / iarpls / psalsa / brpls / lsrpls (2-D):
     every pass is pspline.solve(y, w) with the weights in force *)
  Definition asls2d (cf : cfg) (M N a c dr dc : nat) (lr lc : T R) (Br Bc Y : mat R) (wl : list (mat R))
    : option (list call2) :=
    if init2d a c dr dc
    then Some (map (fun W => solve2d cf M N a c Br Bc W Y (pen2d a c dr dc lr lc) None) wl)
    else None.

  (* pspline_iasls (2-D): P_1 = PenalizedSystem2D(data shape, lam_1, diff_order=1).penalty on the DATA grid,
     p1_partial = B.T @ P_1;  partial_rhs = p1_partial @ y.ravel();  add_penalty(p1_partial @ B);
     passes solve(y, w**2, rhs_extra=partial_rhs) *)
  Definition iasls2d (cf : cfg) (M N a c dr dc : nat) (lr lc l1r l1c : T R) (Br Bc Y : mat R) (wl : list (mat R))
    : option (list call2) :=
    if negb ((2 <=? Z.of_nat dr) && (2 <=? Z.of_nat dc)) then None
    else if negb (init2d a c dr dc && init2d M N 1 1) then None
    else
      let B := Bkron R (Z.of_nat N) (Z.of_nat c) Br Bc in
      let pp := mmul R (M * N) (mT R B) (pen2d M N 1 1 l1r l1c) in
      let extra_rhs := mvec R (M * N) pp (ravel2 R (Z.of_nat N) Y) in
      let pen := madd R (pen2d a c dr dc lr lc) (mmul R (M * N) pp B) in
      Some (map (fun W => solve2d cf M N a c Br Bc (hadamard R W W) Y pen (Some extra_rhs)) wl).

  (* ---- the documented systems on the coefficient grid (raveled row-major, order a*c) ---- *)
  (* (B'WB + lam_r kron(D_r'D_r, I) + lam_c kron(I, D_c'D_c)) vec(C) = B'W vec(Y),  B = kron(B_r, B_c) *)
  Definition doc_asls2d (M N a c dr dc : nat) (lr lc : T R) (Br Bc W : mat R) : mat R :=
    madd R (btwb_spec R M N (Z.of_nat c) Br W Bc) (pen2d a c dr dc lr lc).
  Definition doc_iasls2d (M N a c dr dc : nat) (lr lc l1r l1c : T R) (Br Bc W : mat R) : mat R :=
    let B := Bkron R (Z.of_nat N) (Z.of_nat c) Br Bc in
    madd R (btwb_spec R M N (Z.of_nat c) Br (hadamard R W W) Bc)
           (madd R (pen2d a c dr dc lr lc)
                   (mmul R (M * N) (mmul R (M * N) (mT R B) (pen2d M N 1 1 l1r l1c)) B)).
  Definition doc_iasls2d_rhs (M N c : nat) (l1r l1c : T R) (Br Bc W Y : mat R) : vec R :=
    let B := Bkron R (Z.of_nat N) (Z.of_nat c) Br Bc in
    fun k => tadd R (btwy_spec R M N (Z.of_nat c) Br (hadamard R W W) Y Bc k)
                    (mvec R (M * N) (mmul R (M * N) (mT R B) (pen2d M N 1 1 l1r l1c)) (ravel2 R (Z.of_nat N) Y) k).
End Model2D.

Arguments c_lhs {R}. Arguments c_rhs {R}.

(* observation helpers for the correspondence *)
Definition tabm {R : ops} (n : nat) (A : mat R) : list (list (T R)) :=
  map (fun i => map (fun j => A i j) (zrange n)) (zrange n).
Definition tabv {R : ops} (n : nat) (v : vec R) : list (T R) := map v (zrange n).
Definition rowsm {R : ops} (l : list (list (T R))) : mat R :=
  fun r c => nth (Z.to_nat c) (nth (Z.to_nat r) l []) (t0 R).
