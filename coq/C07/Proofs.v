(* Proofs for property C07: what every penalized-spline method hands to the banded solver DENOTES the
   documented P-spline system  B'WB + lam D'D (+ documented extra terms),  rhs  B'Wy,  for every number of
   basis functions M, spline degree k >= 0, diff_order 1 <= d < M, every data size, basis matrix with the
   B-spline support shape, weights, data, lam, both band layouts and both assembly paths, over ANY
   commutative ring.  Built on C11 (the penalty bands denote D'D for every size and layout). *)
From Coq Require Import ZArith List Bool Lia ZifyBool Ring.
From PB Require Import lib.SumZ lib.PySlice lib.Arr lib.Loop lib.LoopProofs C11.DtD C11.Table gen.GenBands C11.Banded C11.History C07.Model.
Import ListNotations.
Open Scope Z_scope.

Ltac Zify.zify_post_hook ::= Z.to_euclidean_division_equations.

(* ------------------------------------------------------------------ reading D'D out of the C11 layouts *)
Lemma bs_full d N i j : 0 <= i < Z.of_nat N -> 0 <= j < Z.of_nat N ->
  band_spec d N false (Z.of_nat d + i - j) j = DtD d N i j.
Proof.
  intros Hi Hj. unfold band_spec, band_r. cbv zeta.
  replace (j + (Z.of_nat d + i - j - Z.of_nat d)) with i by lia.
  destruct (0 <=? i) eqn:?, (i <? Z.of_nat N) eqn:?; cbn [andb]; try lia; try reflexivity.
Qed.

Lemma bs_full_T d N i j : 0 <= i < Z.of_nat N -> 0 <= j < Z.of_nat N ->
  band_spec d N false (Z.of_nat d - i + j) i = DtD d N i j.
Proof.
  intros Hi Hj. replace (Z.of_nat d - i + j) with (Z.of_nat d + j - i) by lia.
  rewrite bs_full by lia. apply DtD_sym.
Qed.

Lemma bs_lower d N i j : 0 <= i < Z.of_nat N -> 0 <= j < Z.of_nat N ->
  band_spec d N true (Z.abs (i - j)) (Z.min i j) = DtD d N i j.
Proof.
  intros Hi Hj. unfold band_spec, band_r. cbv zeta.
  destruct (Z_le_gt_dec j i).
  - replace (Z.min i j + Z.abs (i - j)) with i by lia. replace (Z.min i j) with j by lia.
    destruct (0 <=? i) eqn:?, (i <? Z.of_nat N) eqn:?; cbn [andb]; try lia; try reflexivity.
  - replace (Z.min i j + Z.abs (i - j)) with j by lia. replace (Z.min i j) with i by lia.
    destruct (0 <=? j) eqn:?, (j <? Z.of_nat N) eqn:?; cbn [andb]; try lia; apply DtD_sym.
Qed.

Lemma DtD_out d N i j : Z.of_nat d < Z.abs (i - j) -> DtD d N i j = 0.
Proof. intros H. apply DtD_band. lia. Qed.

(* ------------------------------------------------------------------ _basis_midpoints (any number type) *)
Section Midpoints.
  Variable O : ops.

  Lemma clamp_id n a : 0 <= a <= n -> clamp n a = a.
  Proof. intros. unfold clamp. destruct (a <? 0) eqn:?; lia. Qed.

  Lemma py_slice_len {A} (l : list A) a b :
    0 <= a <= b -> b <= Z.of_nat (length l) -> Z.of_nat (length (py_slice l a b)) = b - a.
  Proof.
    intros Hab Hb. unfold py_slice. rewrite !clamp_id by lia.
    rewrite firstn_length, skipn_length. lia.
  Qed.

  Lemma map2_length {A B C} (f : A -> B -> C) : forall x y, length (map2 f x y) = Nat.min (length x) (length y).
  Proof. induction x as [|a x IH]; intros [|b y]; simpl; auto. Qed.

  Lemma tl_length {A} (l : list A) : length (tl l) = (length l - 1)%nat.
  Proof. destruct l; cbn; lia. Qed.

  Lemma removelast_len {A} (l : list A) : length (removelast l) = (length l - 1)%nat.
  Proof. rewrite removelast_firstn_len, firstn_length. lia. Qed.

  (* the number of interpolation points is the number of basis functions, for both degree parities *)
  Theorem basis_midpoints_len (half : T O) (knots : list (T O)) (k nk : Z) :
    0 <= k -> 2 <= nk -> Z.of_nat (length knots) = nk + 2 * k ->
    Z.of_nat (length (basis_midpoints O half knots k)) = nk + k - 1.
  Proof.
    intros Hk Hnk Hlen. unfold basis_midpoints.
    destruct (negb (k mod 2 =? 0)) eqn:Hpar.
    - rewrite py_slice_len by lia. lia.
    - rewrite py_slice_len.
      + rewrite map2_length, tl_length, removelast_len. lia.
      + rewrite map2_length, tl_length, removelast_len. lia.
      + lia.
  Qed.

  (* and point j is the centre of the support [t_j, t_{j+k+1}] of basis function j *)
  Lemma nth_firstn_lt {A} : forall m j (l : list A) d, (j < m)%nat -> nth j (firstn m l) d = nth j l d.
  Proof.
    induction m as [|m IH]; intros j l d Hj; [lia|].
    destruct l as [|x l]; [destruct j; reflexivity|].
    destruct j as [|j]; cbn [firstn nth]; [reflexivity|apply IH; lia].
  Qed.

  Lemma nth_skipn_add {A} : forall a j (l : list A) d, nth j (skipn a l) d = nth (a + j) l d.
  Proof.
    induction a as [|a IH]; intros j l d; [reflexivity|].
    destruct l as [|x l]; cbn [skipn]; [destruct j; reflexivity|]. cbn [Nat.add nth]. apply IH.
  Qed.

  Lemma nth_py_slice {A} (l : list A) a b j dflt :
    0 <= a <= b -> b <= Z.of_nat (length l) -> (Z.of_nat j < b - a) ->
    nth j (py_slice l a b) dflt = nth (Z.to_nat a + j) l dflt.
  Proof.
    intros Hab Hb Hj. unfold py_slice. rewrite !clamp_id by lia.
    rewrite nth_firstn_lt by lia. apply nth_skipn_add.
  Qed.

  Theorem basis_midpoints_odd (half : T O) (knots : list (T O)) (k nk : Z) (j : nat) dflt :
    0 <= k -> k mod 2 = 1 -> 2 <= nk -> Z.of_nat (length knots) = nk + 2 * k -> Z.of_nat j < nk + k - 1 ->
    nth j (basis_midpoints O half knots k) dflt = nth (j + Z.to_nat ((k + 1) / 2)) knots dflt.
  Proof.
    intros Hk Hodd Hnk Hlen Hj. unfold basis_midpoints.
    replace (negb (k mod 2 =? 0)) with true by lia.
    rewrite nth_py_slice by lia. f_equal. lia.
  Qed.
End Midpoints.

(* ------------------------------------------------------------------ the assembly, over any commutative ring *)
Section Ring.
  Variable O : ops.
  Notation F := (T O).
  Hypothesis Rth : ring_theory (zero O) (one O) (add O) (mul O) (sub O) (opp O) (@eq F).
  Hypothesis is0_sound : forall x : F, is0 O x = true -> x = zero O.
  Hypothesis ofZ0 : ofZ O 0 = zero O.
  Add Ring Fring : Rth.

  Notation "a [+] b" := (add O a b) (at level 50, left associativity).
  Notation "a [*] b" := (mul O a b) (at level 40, left associativity).
  Notation zr := (zero O).

  (* ---- finite sums ---- *)
  Lemma tsum_ext n f g : (forall i, 0 <= i < Z.of_nat n -> f i = g i) -> tsum O n f = tsum O n g.
  Proof.
    induction n as [|n IH]; intros H; [reflexivity|].
    cbn [tsum]. rewrite IH by (intros; apply H; lia). rewrite (H (Z.of_nat n)) by lia. reflexivity.
  Qed.

  Lemma tsum_zero n f : (forall i, 0 <= i < Z.of_nat n -> f i = zr) -> tsum O n f = zr.
  Proof.
    induction n as [|n IH]; intros H; [reflexivity|].
    cbn [tsum]. rewrite IH by (intros; apply H; lia). rewrite (H (Z.of_nat n)) by lia. ring.
  Qed.

  Lemma tsum_add n f g : tsum O n (fun i => f i [+] g i) = tsum O n f [+] tsum O n g.
  Proof. induction n as [|n IH]; cbn [tsum]; [ring|]. rewrite IH. ring. Qed.

  Lemma tsum_mul_r n f c : tsum O n f [*] c = tsum O n (fun i => f i [*] c).
  Proof. induction n as [|n IH]; cbn [tsum]; [ring|]. rewrite <- IH. ring. Qed.

  Lemma tsum_exch n m (f : Z -> Z -> F) :
    tsum O n (fun a => tsum O m (fun b => f a b)) = tsum O m (fun b => tsum O n (fun a => f a b)).
  Proof.
    induction n as [|n IH]; cbn [tsum].
    - symmetry. apply tsum_zero. reflexivity.
    - rewrite IH, <- tsum_add. reflexivity.
  Qed.

  (* ---- banded representations of an M x M matrix ---- *)
  Variable M : nat.
  Notation Mz := (Z.of_nat M).
  Definition inR (i : Z) : Prop := 0 <= i < Mz.

  (* LAPACK storage, lower (solveh_banded) or full (solve_banded), of a matrix of bandwidth u *)
  Record Rep (lower : bool) (a : tarr O) (u : Z) (A : Z -> Z -> F) : Prop := {
    rep_u : 0 <= u;
    rep_tr : tr a = if lower then u + 1 else 2 * u + 1;
    rep_tc : tc a = Mz;
    rep_get : forall i j, inR i -> inR j -> Z.abs (i - j) <= u ->
      tg a (if lower then Z.abs (i - j) else u + i - j) (if lower then Z.min i j else j) = A i j;
    rep_out : forall i j, inR i -> inR j -> u < Z.abs (i - j) -> A i j = zr
  }.

  (* row-aligned storage (the reversed LAPACK rows of a symmetric matrix; what a row scaling needs) *)
  Record RowRep (a : tarr O) (u : Z) (Q : Z -> Z -> F) : Prop := {
    rr_u : 0 <= u;
    rr_tr : tr a = 2 * u + 1;
    rr_tc : tc a = Mz;
    rr_get : forall i j, inR i -> inR j -> Z.abs (i - j) <= u -> tg a (u + i - j) i = Q i j;
    rr_out : forall i j, inR i -> inR j -> u < Z.abs (i - j) -> Q i j = zr
  }.

  Ltac split_ifs :=
    repeat match goal with
           | |- context [if ?b then _ else _] => destruct b eqn:?
           end.

  (* _add_diagonals aligns the main diagonals for every pair of bandwidths: no ValueError, and the
     sum denotes the sum of the matrices with the larger bandwidth *)
  Lemma add_rep lower a b ua ub A Bq :
    Rep lower a ua A -> Rep lower b ub Bq ->
    exists s, add_diagonals O a b lower = Some s /\ Rep lower s (Z.max ua ub) (fun i j => A i j [+] Bq i j).
  Proof.
    intros [a1 a2 a3 a4 a5] [b1 b2 b3 b4 b5]. unfold add_diagonals.
    rewrite a3, b3, Z.eqb_refl. cbn [negb].
    destruct lower.
    - (* lower: the shorter operand is padded at the bottom *)
      rewrite a2, b2.
      destruct (ua + 1 - (ub + 1) =? 0) eqn:E0; [|destruct (0 <? ua + 1 - (ub + 1)) eqn:E1];
        eexists; (split; [reflexivity|]); constructor; cbn [tadd tpad_bottom tr tc tg]; try lia.
      + intros i j Hi Hj Hb. rewrite a4, b4 by (try assumption; lia). reflexivity.
      + intros i j Hi Hj Hb. rewrite a5, b5 by (try assumption; lia). ring.
      + intros i j Hi Hj Hb. rewrite a4 by (try assumption; lia). rewrite b2.
        destruct (Z.abs (i - j) <? ub + 1) eqn:Hin.
        * rewrite b4 by (try assumption; lia). reflexivity.
        * rewrite (b5 i j) by (try assumption; lia). reflexivity.
      + intros i j Hi Hj Hb. rewrite a5, b5 by (try assumption; lia). ring.
      + intros i j Hi Hj Hb. rewrite b4 by (try assumption; lia). rewrite a2.
        destruct (Z.abs (i - j) <? ua + 1) eqn:Hin.
        * rewrite a4 by (try assumption; lia). reflexivity.
        * rewrite (a5 i j) by (try assumption; lia). reflexivity.
      + intros i j Hi Hj Hb. rewrite a5, b5 by (try assumption; lia). ring.
    - (* full: the mismatch 2|ua - ub| is always even, half of it goes on each side *)
      rewrite a2, b2.
      destruct (2 * ua + 1 - (2 * ub + 1) =? 0) eqn:E0.
      { eexists; (split; [reflexivity|]); constructor; cbn [tadd tr tc tg]; try lia.
        - intros i j Hi Hj Hb. replace (Z.max ua ub) with ua by lia.
          rewrite a4 by (try assumption; lia). replace ua with ub at 1 by lia.
          rewrite b4 by (try assumption; lia). reflexivity.
        - intros i j Hi Hj Hb. rewrite a5, b5 by (try assumption; lia). ring. }
      replace (negb (Z.abs (2 * ua + 1 - (2 * ub + 1)) mod 2 =? 0)) with false by lia.
      destruct (0 <? 2 * ua + 1 - (2 * ub + 1)) eqn:E1;
        eexists; (split; [reflexivity|]); constructor; cbn [tadd tpad_both tr tc tg]; try lia.
      + intros i j Hi Hj Hb. replace (Z.max ua ub) with ua by lia.
        rewrite a4 by (try assumption; lia). rewrite b2.
        set (h := Z.abs (2 * ua + 1 - (2 * ub + 1)) / 2). assert (Hh : h = ua - ub) by (unfold h; lia).
        destruct ((h <=? ua + i - j) && (ua + i - j <? h + (2 * ub + 1))) eqn:Hin.
        * replace (ua + i - j - h) with (ub + i - j) by lia.
          rewrite b4 by (try assumption; lia). reflexivity.
        * rewrite (b5 i j) by (try assumption; lia). reflexivity.
      + intros i j Hi Hj Hb. rewrite a5, b5 by (try assumption; lia). ring.
      + intros i j Hi Hj Hb. replace (Z.max ua ub) with ub by lia.
        rewrite b4 by (try assumption; lia). rewrite a2.
        set (h := Z.abs (2 * ua + 1 - (2 * ub + 1)) / 2). assert (Hh : h = ub - ua) by (unfold h; lia).
        destruct ((h <=? ub + i - j) && (ub + i - j <? h + (2 * ua + 1))) eqn:Hin.
        * replace (ub + i - j - h) with (ua + i - j) by lia.
          rewrite a4 by (try assumption; lia). reflexivity.
        * rewrite (a5 i j) by (try assumption; lia). reflexivity.
      + intros i j Hi Hj Hb. rewrite a5, b5 by (try assumption; lia). ring.
  Qed.

  (* what the library entry point reads out of such an array is the matrix *)
  Lemma den_rep lower lhs u A rhs :
    Rep lower lhs u A ->
    let k := {| k_lower := lower; k_lhs := lhs; k_rhs := rhs |} in
    call_wf O Mz k = true /\ forall i j, inR i -> inR j -> den O k i j = A i j.
  Proof.
    intros [h1 h2 h3 h4 h5] k. unfold call_wf, den; cbn [k_lower k_lhs k].
    rewrite h3, h2. destruct lower.
    - split; [lia|]. intros i j Hi Hj.
      destruct (Z.abs (i - j) <? u + 1) eqn:Hin.
      + apply h4; (try assumption; lia).
      + symmetry. apply h5; (try assumption; lia).
    - split; [lia|]. intros i j Hi Hj.
      replace ((2 * u + 1) / 2) with u by lia.
      destruct ((- u <=? i - j) && (i - j <=? u)) eqn:Hin.
      + apply h4; (try assumption; lia).
      + symmetry. apply h5; (try assumption; lia).
  Qed.

  Lemma scale_rep lower a u A c :
    Rep lower a u A -> Rep lower (tscale O c a) u (fun i j => c [*] A i j).
  Proof.
    intros [h1 h2 h3 h4 h5]. constructor; cbn [tscale tr tc tg]; try assumption.
    - intros i j Hi Hj Hb. rewrite h4 by assumption. reflexivity.
    - intros i j Hi Hj Hb. rewrite h5 by assumption. ring.
  Qed.

  Lemma scale_rowrep a u Q c :
    RowRep a u Q -> RowRep (tscale O c a) u (fun i j => c [*] Q i j).
  Proof.
    intros [h1 h2 h3 h4 h5]. constructor; cbn [tscale tr tc tg]; try assumption.
    - intros i j Hi Hj Hb. rewrite h4 by assumption. reflexivity.
    - intros i j Hi Hj Hb. rewrite h5 by assumption. ring.
  Qed.

  (* bands * w[None, :] in row-aligned storage scales ROW i of the matrix by w_i *)
  Lemma colscale_rowrep a u Q w :
    RowRep a u Q -> RowRep (tcolscale O a w) u (fun i j => Q i j [*] w i).
  Proof.
    intros [h1 h2 h3 h4 h5]. constructor; cbn [tcolscale tr tc tg]; try assumption.
    - intros i j Hi Hj Hb. rewrite h4 by assumption. reflexivity.
    - intros i j Hi Hj Hb. rewrite h5 by assumption. ring.
  Qed.

  (* penalty[::-1] of a symmetric matrix is its row-aligned storage *)
  Lemma trev_rowrep a u Q :
    Rep false a u Q -> (forall i j, Q i j = Q j i) -> RowRep (trev O a) u Q.
  Proof.
    intros [h1 h2 h3 h4 h5] Hsym. constructor; cbn [trev tr tc tg]; try assumption.
    intros i j Hi Hj Hb. rewrite h2.
    replace (2 * u + 1 - 1 - (u + i - j)) with (u + j - i) by lia.
    rewrite (h4 j i) by (try assumption; lia). apply Hsym.
  Qed.

  (* _shift_rows(rows, u, u) turns row-aligned storage into LAPACK storage of the same matrix *)
  Lemma shift_rep a u Q : RowRep a u Q -> Rep false (tshift_rows O a u u) u Q.
  Proof.
    intros [h1 h2 h3 h4 h5]. constructor; cbn [tshift_rows tshift_lower tshift_upper tr tc tg]; try assumption.
    intros i j Hi Hj Hb. unfold inR in *. rewrite h2, h3.
    destruct (2 * u + 1 - (u + i - j) <=? u) eqn:Hlow.
    - (* below the main diagonal: i > j *)
      cbv zeta. replace (j <? Mz - (u - (2 * u + 1 - (u + i - j)) + 1)) with true by lia.
      replace (u + i - j <? u) with false by lia.
      replace (j + (u - (2 * u + 1 - (u + i - j)) + 1)) with i by lia.
      apply h4; (try assumption; lia).
    - destruct (u + i - j <? u) eqn:Hup.
      + (* above: i < j *)
        cbv zeta. replace (j <? u - (u + i - j)) with false by lia.
        replace (j - (u - (u + i - j))) with i by lia. apply h4; (try assumption; lia).
      + replace j with i at 2 by lia. apply h4; (try assumption; lia).
  Qed.

  (* ---- PSpline.__init__: the padded penalty denotes lam D'D with bandwidth max(degree, diff_order) ---- *)
  Definition Pq (d : nat) (lam : F) : Z -> Z -> F := Pm O M d lam.

  Lemma Pq_sym d lam i j : Pq d lam i j = Pq d lam j i.
  Proof. unfold Pq, Pm. rewrite DtD_sym. reflexivity. Qed.

  Lemma Pq_out d lam i j : Z.of_nat d < Z.abs (i - j) -> Pq d lam i j = zr.
  Proof. intros H. unfold Pq, Pm. rewrite DtD_out by assumption. rewrite ofZ0. ring. Qed.

  Lemma Pq_pad d lam i j : Z.of_nat d < Z.abs (i - j) -> lam [*] ofZ O 0 = Pq d lam i j.
  Proof. intros H. unfold Pq, Pm. rewrite DtD_out by assumption. reflexivity. Qed.

  Lemma init_spec k lam d al rev :
    (1 <= d < M)%nat -> 0 <= k ->
    exists s, pspline_init O k M lam d al rev = Some s /\
      p_k s = k /\ p_M s = M /\ p_lower s = al /\ p_rev s = rev /\ p_nb s = Z.max k (Z.of_nat d) /\
      (rev = false -> Rep al (p_pen s) (Z.max k (Z.of_nat d)) (Pq d lam)) /\
      (rev = true -> al = false -> RowRep (p_pen s) (Z.max k (Z.of_nat d)) (Pq d lam)).
  Proof.
    intros Hd Hk. unfold pspline_init.
    replace (Z.of_nat d <? 1) with false by lia. replace (Mz <=? Z.of_nat d) with false by lia.
    set (c := {| c_lam := 1; c_d := d; c_allow_lower := al; c_rev := Some rev;
                 c_allow_penta := false; c_pad := k - Z.of_nat d |}).
    assert (Ept : want_penta false c = false) by reflexivity.
    assert (Elo : want_lower false c = al).
    { unfold want_lower. rewrite Ept. cbn [c_allow_lower c negb]. apply andb_true_r. }
    assert (Erev : want_rev false c = rev) by reflexivity.
    destruct (fresh_layout M d al rev ltac:(lia)) as (a & Ha & Hal).
    unfold reset. rewrite Elo, Erev, Ept. cbn [c_d c_lam c_pad c]. rewrite Ha.
    replace (0 <? 1) with true by lia.
    eexists. split; [reflexivity|].
    cbn [finish s_lower s_rev s_orig p_k p_M p_lower p_rev p_pen p_nb].
    destruct Hal as (H1 & H2 & H3).
    set (dz := Z.of_nat d) in *.
    assert (Hnr : nr (maybe_rev rev a) = if al then dz + 1 else 2 * dz + 1).
    { rewrite H1. unfold layout, spec_bands. destruct rev, al; reflexivity. }
    assert (Hnc : nc (maybe_rev rev a) = Mz).
    { rewrite H2. unfold layout, spec_bands. destruct rev; reflexivity. }
    set (o := maybe_rev rev a) in *.
    assert (Hget : forall r c0, 0 <= r < nr o -> 0 <= c0 < Mz ->
               get o r c0 = get (layout d M al rev) r c0).
    { intros. apply H3; lia. }
    clearbody o. clear H1 H2 H3 Ha a.
    set (u := Z.max k dz).
    assert (Htr : tr (tscale O lam (of_arr O (pad_diagonals o (k - dz) al))) = if al then u + 1 else 2 * u + 1).
    { cbn [tscale of_arr tr]. unfold pad_diagonals.
      destruct (0 <? k - dz) eqn:Hp; destruct al; cbn [nr]; rewrite Hnr; unfold u; lia. }
    assert (Htc : tc (tscale O lam (of_arr O (pad_diagonals o (k - dz) al))) = Mz).
    { cbn [tscale of_arr tc]. unfold pad_diagonals.
      destruct (0 <? k - dz) eqn:Hp; destruct al; cbn [nc]; exact Hnc. }
    do 4 (split; [reflexivity|]).
    split; [|split].
    - unfold bands_of. rewrite Htr. destruct al; unfold u; lia.
    - (* LAPACK layout *)
      intros ->. constructor; try assumption; [unfold u; lia| |].
      + intros i j Hi Hj Hb. unfold inR in *.
        cbn [tscale of_arr tg]. unfold pad_diagonals.
        destruct (0 <? k - dz) eqn:Hp.
        * (* padded: u = k *)
          destruct al; cbn [get nr].
          -- rewrite Hnr. destruct (Z.abs (i - j) <? dz + 1) eqn:Hin.
             ++ rewrite Hget by (rewrite ?Hnr; lia).
                unfold layout, spec_bands; cbn [maybe_rev get].
                rewrite bs_lower by lia. reflexivity.
             ++ apply Pq_pad. fold dz. lia.
          -- rewrite Hnr. replace u with k by (unfold u; lia).
             destruct ((k - dz <=? k + i - j) && (k + i - j <? k - dz + (2 * dz + 1))) eqn:Hin.
             ++ rewrite Hget by (rewrite ?Hnr; lia).
                unfold layout, spec_bands; cbn [maybe_rev get].
                replace (k + i - j - (k - dz)) with (dz + i - j) by lia.
                unfold dz. rewrite bs_full by lia. reflexivity.
             ++ apply Pq_pad. fold dz. lia.
        * (* not padded: u = d *)
          replace u with dz in * by (unfold u; lia).
          destruct al.
          -- rewrite Hget by (rewrite ?Hnr; lia).
             unfold layout, spec_bands; cbn [maybe_rev get].
             rewrite bs_lower by lia. reflexivity.
          -- rewrite Hget by (rewrite ?Hnr; lia).
             unfold layout, spec_bands; cbn [maybe_rev get].
             unfold dz. rewrite bs_full by lia. reflexivity.
      + intros i j Hi Hj Hb. apply Pq_out. fold dz. unfold u in Hb. lia.
    - (* reversed full layout = row-aligned *)
      intros -> ->. constructor; try assumption; [unfold u; lia| |].
      + intros i j Hi Hj Hb. unfold inR in *.
        cbn [tscale of_arr tg]. unfold pad_diagonals.
        destruct (0 <? k - dz) eqn:Hp; cbn [get nr].
        * rewrite Hnr. replace u with k by (unfold u; lia).
          destruct ((k - dz <=? k + i - j) && (k + i - j <? k - dz + (2 * dz + 1))) eqn:Hin.
          -- rewrite Hget by (rewrite ?Hnr; lia).
             unfold layout, spec_bands; cbn [maybe_rev]; unfold rev_rows; cbn [get nr]. fold dz.
             replace (2 * dz + 1 - 1 - (k + i - j - (k - dz))) with (dz - i + j) by lia.
             unfold dz. rewrite bs_full_T by lia. reflexivity.
          -- apply Pq_pad. fold dz. lia.
        * replace u with dz in * by (unfold u; lia).
          rewrite Hget by (rewrite ?Hnr; lia).
          unfold layout, spec_bands; cbn [maybe_rev]; unfold rev_rows; cbn [get nr]. fold dz.
          replace (2 * dz + 1 - 1 - (dz + i - j)) with (dz - i + j) by lia.
          unfold dz. rewrite bs_full_T by lia. reflexivity.
      + intros i j Hi Hj Hb. apply Pq_out. fold dz. unfold u in Hb. lia.
  Qed.

  (* ---- the bands of a symmetric matrix A as built by the two assembly paths ---- *)
  Section AB.
    Variable A : Z -> Z -> F.
    Hypothesis A_sym : forall i j, A i j = A j i.

    Lemma numba_lower_rep k : 0 <= k ->
      (forall i j, inR i -> inR j -> k < Z.abs (i - j) -> A i j = zr) ->
      Rep true (ab_numba O k M A) k A.
    Proof.
      intros Hk Hout. constructor; cbn [ab_numba tr tc tg]; try lia; try assumption.
      intros i j Hi Hj Hb. unfold inR in *.
      replace (Z.min i j + Z.abs (i - j) <? Mz) with true by lia.
      destruct (Z_le_gt_dec j i).
      - replace (Z.min i j + Z.abs (i - j)) with i by lia. replace (Z.min i j) with j by lia. reflexivity.
      - replace (Z.min i j + Z.abs (i - j)) with j by lia. replace (Z.min i j) with i by lia. apply A_sym.
    Qed.

    Lemma numba_full_rep k : 0 <= k ->
      (forall i j, inR i -> inR j -> k < Z.abs (i - j) -> A i j = zr) ->
      Rep false (tlower_to_full O (ab_numba O k M A)) k A.
    Proof.
      intros Hk Hout. constructor;
        cbn [tlower_to_full tshift_rows tshift_lower tshift_upper ab_numba tr tc tg]; try lia; try assumption.
      intros i j Hi Hj Hb. unfold inR in *.
      replace (2 * (k + 1) - 1 - (k + i - j) <=? 0) with false by lia.
      replace (k + 1 - 1) with k by lia.
      destruct (k + i - j <? k) eqn:Hup.
      - cbv zeta. replace (j <? k - (k + i - j)) with false by lia.
        replace (j - (k - (k + i - j))) with i by lia.
        replace (k - (k + i - j)) with (j - i) by lia.
        replace (i + (j - i) <? Mz) with true by lia.
        replace (i + (j - i)) with j by lia. apply A_sym.
      - replace (k + i - j - k) with (i - j) by lia.
        replace (j + (i - j) <? Mz) with true by lia.
        replace (j + (i - j)) with i by lia. reflexivity.
    Qed.

    (* scipy.sparse keeps only non-zero entries: the detected bandwidth is sound *)
    Lemma band_all_zero_sound u : 0 <= u -> band_all_zero O M A u = true ->
      forall i j, inR i -> inR j -> Z.abs (i - j) = u -> A i j = zr.
    Proof.
      intros Hu Hb i j Hi Hj Hij. unfold band_all_zero in Hb. rewrite forallb_forall in Hb.
      unfold inR in *.
      specialize (Hb (Z.min i j)). rewrite zrange_In in Hb.
      specialize (Hb ltac:(lia)). apply andb_true_iff in Hb as [Hb1 Hb2].
      apply is0_sound in Hb1. apply is0_sound in Hb2.
      destruct (Z_le_gt_dec j i).
      - replace (Z.min i j + u) with i in * by lia. replace (Z.min i j) with j in * by lia. exact Hb1.
      - replace (Z.min i j + u) with j in * by lia. replace (Z.min i j) with i in * by lia. exact Hb2.
    Qed.

    Lemma detect_sound fuel :
      (forall i j, inR i -> inR j -> Z.of_nat fuel < Z.abs (i - j) -> A i j = zr) ->
      0 <= detect_bw O fuel M A <= Z.of_nat fuel /\
      forall i j, inR i -> inR j -> detect_bw O fuel M A < Z.abs (i - j) -> A i j = zr.
    Proof.
      induction fuel as [|f IH]; intros Hout; cbn [detect_bw].
      - split; [lia|]. exact Hout.
      - destruct (band_all_zero O M A (Z.of_nat (S f))) eqn:Hb.
        + destruct IH as [IH1 IH2].
          { intros i j Hi Hj Hij.
            destruct (Z.eq_dec (Z.abs (i - j)) (Z.of_nat (S f))) as [E|NE].
            - apply (band_all_zero_sound (Z.of_nat (S f)) ltac:(lia) Hb i j Hi Hj E).
            - apply Hout; (try assumption; lia). }
          split; [lia|exact IH2].
        + split; [lia|exact Hout].
    Qed.

    Lemma sparse_full_rep :
      exists u, sparse_to_banded O M A = full_bands O u M A /\ Rep false (full_bands O u M A) u A.
    Proof.
      unfold sparse_to_banded.
      destruct (detect_sound (M - 1)) as [Hu Hout].
      { intros i j Hi Hj Hij. unfold inR in *. lia. }
      eexists. split; [reflexivity|].
      constructor; cbn [full_bands tr tc tg]; try lia; try assumption.
      intros i j Hi Hj Hb. unfold inR in *. cbv zeta.
      set (u := detect_bw O (M - 1) M A) in *.
      replace (j + (u + i - j) - u) with i by lia.
      replace ((0 <=? i) && (i <? Mz)) with true by lia. reflexivity.
    Qed.

    Lemma sparse_lower_rep :
      exists u, Rep true (let ab := sparse_to_banded O M A in tdrop O (tr ab / 2) ab) u A.
    Proof.
      destruct sparse_full_rep as (u & -> & [h1 h2 h3 h4 h5]). exists u. cbv zeta.
      cbn [full_bands tr]. replace ((2 * u + 1) / 2) with u by lia.
      constructor; cbn [tdrop full_bands tr tc tg]; try lia; try assumption.
      intros i j Hi Hj Hb. unfold inR in *. cbv zeta.
      replace (Z.min i j + (Z.abs (i - j) + u) - u) with (Z.max i j) by lia.
      replace ((0 <=? Z.max i j) && (Z.max i j <? Mz)) with true by lia.
      destruct (Z_le_gt_dec j i).
      - replace (Z.max i j) with i by lia. replace (Z.min i j) with j by lia. reflexivity.
      - replace (Z.max i j) with j by lia. replace (Z.min i j) with i by lia. apply A_sym.
    Qed.

    Lemma make_ab_rep (s : ps O) numba :
      p_M s = M -> 0 <= p_k s ->
      (forall i j, inR i -> inR j -> p_k s < Z.abs (i - j) -> A i j = zr) ->
      exists u, Rep (p_lower s) (make_ab O s numba A) u A.
    Proof.
      intros HM Hk Hout. unfold make_ab. rewrite HM. destruct numba, (p_lower s).
      - exists (p_k s). apply numba_lower_rep; assumption.
      - exists (p_k s). apply numba_full_rep; assumption.
      - apply sparse_lower_rep.
      - destruct sparse_full_rep as (u & -> & H). exists u. exact H.
    Qed.
  End AB.

  (* ---- B'WB for a basis with the B-spline support shape ---- *)
  Section Basis.
    Variables (k : Z) (n : nat) (B : Z -> Z -> F) (left : Z -> Z).
    Hypothesis Hk : 0 <= k.
    (* row i of the design matrix is supported on the k+1 columns  left_i - k .. left_i *)
    Hypothesis Hsup : forall i c, 0 <= i < Z.of_nat n -> c < left i - k \/ left i < c -> B i c = zr.

    Lemma btwb_sym w i j : btwb O n B w i j = btwb O n B w j i.
    Proof. unfold btwb. apply tsum_ext. intros. ring. Qed.

    Lemma btwb_out w i j : k < Z.abs (i - j) -> btwb O n B w i j = zr.
    Proof.
      intros H. unfold btwb. apply tsum_zero. intros a Ha.
      destruct (Z_lt_le_dec i (left a - k)); [rewrite (Hsup a i) by lia; ring|].
      destruct (Z_lt_le_dec (left a) i); [rewrite (Hsup a i) by lia; ring|].
      rewrite (Hsup a j) by lia. ring.
    Qed.

    (* solve_pspline: whatever penalty array (denoting Q with any bandwidth) is supplied, the call that
       reaches the solver is well formed and denotes B'WB + Q, with right-hand side B'Wy (+ rhs_extra) *)
    Lemma solve_pspline_spec (s : ps O) numba w y penalty rhs_extra pen uq Q :
      p_M s = M -> p_k s = k ->
      pen = match penalty with Some p => p | None => p_pen s end ->
      Rep (p_lower s) pen uq Q ->
      exists c, solve_pspline O s numba n B w y penalty rhs_extra = Some c /\
        k_lower c = p_lower s /\ call_wf O Mz c = true /\
        (forall i j, inR i -> inR j -> den O c i j = btwb O n B w i j [+] Q i j) /\
        (forall r, k_rhs c r = match rhs_extra with
                               | None => bty O n B w y r
                               | Some e => bty O n B w y r [+] e r
                               end).
    Proof.
      intros HM Hks Hpen HQ. unfold solve_pspline. rewrite <- Hpen.
      destruct (make_ab_rep (btwb O n B w) (btwb_sym w) s numba HM ltac:(lia)) as (u & Hab).
      { intros i j _ _ Hij. apply btwb_out. lia. }
      destruct (add_rep _ _ _ _ _ _ _ Hab HQ) as (lhs & Hadd & Hrep). rewrite Hadd.
      eexists. split; [reflexivity|]. cbn [k_lower k_rhs]. split; [reflexivity|].
      destruct (den_rep _ _ _ _ (fun r => match rhs_extra with
                                          | None => bty O n B w y r
                                          | Some e => bty O n B w y r [+] e r
                                          end) Hrep) as [Hwf Hden].
      split; [exact Hwf|]. split; [exact Hden|]. reflexivity.
    Qed.

    Lemma all_some_map {X Y} (f : X -> option Y) (P : X -> Y -> Prop) (l : list X) :
      (forall x, In x l -> exists c, f x = Some c /\ P x c) ->
      exists cs, all_some (map f l) = Some cs /\ Forall2 P l cs.
    Proof.
      induction l as [|x l IH]; intros H; cbn [map all_some].
      - exists []. split; [reflexivity|constructor].
      - destruct (H x (or_introl eq_refl)) as (c & Hc & HP). rewrite Hc.
        destruct IH as (cs & Hcs & HF); [intros; apply H; right; assumption|].
        rewrite Hcs. exists (c :: cs). split; [reflexivity|constructor; assumption].
    Qed.

    (* ---- the methods ---- *)
    Definition pass_ok (A : Z -> Z -> F) (rhs : Z -> F) (al : bool) (c : call O) : Prop :=
      k_lower c = al /\ call_wf O Mz c = true /\
      (forall i j, inR i -> inR j -> den O c i j = A i j) /\ (forall r, k_rhs c r = rhs r).

    Theorem asls_system numba lam d al y wl :
      (1 <= d < M)%nat ->
      exists cs, asls O numba k M lam d al n B y wl = Some cs /\
        Forall2 (fun w c => pass_ok (doc_asls O M d lam n B w) (bty O n B w y) al c) wl cs.
    Proof.
      intros Hd. unfold asls.
      destruct (init_spec k lam d al false Hd Hk) as (s & -> & Hsk & HsM & Hlo & _ & _ & HR & _).
      specialize (HR eq_refl).
      apply all_some_map. intros w _.
      destruct (solve_pspline_spec s numba w y None None _ _ _ HsM Hsk eq_refl ltac:(rewrite Hlo; exact HR))
        as (c & Hc & H1 & H2 & H3 & H4).
      exists c. split; [exact Hc|]. unfold pass_ok. rewrite H1, Hlo. repeat split; assumption.
    Qed.

    (* pspline_iasls *)
    Lemma btTb_sym (Tm : Z -> Z -> F) : (forall a b, Tm a b = Tm b a) ->
      forall i j, btTb O n B Tm i j = btTb O n B Tm j i.
    Proof.
      intros HT i j. unfold btTb, btT.
      rewrite (tsum_ext n _ (fun b => tsum O n (fun a => B a i [*] Tm a b [*] B b j))).
      2:{ intros b _. apply tsum_mul_r. }
      rewrite (tsum_ext n (fun b => tsum O n (fun a => B a j [*] Tm a b) [*] B b i)
                        (fun b => tsum O n (fun a => B a j [*] Tm a b [*] B b i))).
      2:{ intros b _. apply tsum_mul_r. }
      rewrite tsum_exch. apply tsum_ext. intros a _. apply tsum_ext. intros b _.
      rewrite (HT a b). ring.
    Qed.

    Lemma d1mat_sym lam1 a b : d1mat O n lam1 a b = d1mat O n lam1 b a.
    Proof. unfold d1mat. rewrite DtD_sym. reflexivity. Qed.

    Theorem iasls_system numba lam lam1 d al y wl :
      (2 <= d < M)%nat ->
      exists cs, iasls O numba k M lam lam1 d al n B y wl = Some cs /\
        Forall2 (fun w c => pass_ok (doc_iasls O M d lam lam1 n B w) (doc_iasls_rhs O lam1 n B w y) al c) wl cs.
    Proof.
      intros Hd. unfold iasls. replace (Z.of_nat d <? 2) with false by lia.
      destruct (init_spec k lam d al false ltac:(lia) Hk) as (s & -> & Hsk & HsM & Hlo & _ & _ & HR & _).
      specialize (HR eq_refl).
      set (E := btTb O n B (d1mat O n lam1)).
      assert (Esym : forall i j, E i j = E j i) by (apply btTb_sym, d1mat_sym).
      assert (HE : exists ue, Rep al (if p_lower s then tdrop O (tr (sparse_to_banded O M E) / 2) (sparse_to_banded O M E)
                                      else sparse_to_banded O M E) ue E).
      { rewrite Hlo. destruct al.
        - apply (sparse_lower_rep E Esym).
        - destruct (sparse_full_rep E Esym) as (u & -> & H). exists u. exact H. }
      destruct HE as (ue & HE).
      unfold add_penalty. rewrite Hlo in *.
      destruct (add_rep _ _ _ _ _ _ _ HR HE) as (pen & -> & Hpen).
      apply all_some_map. intros w _.
      set (s1 := with_pen O s pen).
      destruct (solve_pspline_spec s1 numba (fun i => w i [*] w i) y None
                  (Some (btTy O n B (d1mat O n lam1) y)) pen _ _ HsM Hsk eq_refl
                  ltac:(cbn [s1 with_pen p_lower]; rewrite Hlo; exact Hpen))
        as (c & Hc & H1 & H2 & H3 & H4).
      exists c. split; [exact Hc|]. unfold pass_ok. cbn [s1 with_pen p_lower] in H1. rewrite H1, Hlo.
      repeat split; try assumption.
    Qed.

    (* pspline_aspls *)
    Theorem aspls_system numba lam d y (wal : list ((Z -> F) * list F)) :
      (1 <= d < M)%nat -> Forall (fun wa => length (snd wa) = M) wal ->
      exists cs, aspls O numba k M lam d n B y wal = Some cs /\
        Forall2 (fun wa c => pass_ok (doc_aspls O M d lam n B (fst wa) (vec_of O (snd wa)))
                                     (bty O n B (fst wa) y) false c) wal cs.
    Proof.
      intros Hd Hlen. unfold aspls.
      destruct (init_spec k lam d false true Hd Hk) as (s & -> & Hsk & HsM & Hlo & _ & Hnb & _ & HR).
      specialize (HR eq_refl eq_refl). rewrite Forall_forall in Hlen.
      apply all_some_map. intros [w ai] Hin. specialize (Hlen _ Hin). cbn [snd fst] in *.
      replace (negb (Z.of_nat (length ai) =? Mz)) with false by lia.
      rewrite Hnb.
      pose proof (shift_rep _ _ _ (colscale_rowrep _ _ _ (vec_of O ai) HR)) as Hap.
      destruct (solve_pspline_spec s numba w y (Some (tshift_rows O (tcolscale O (p_pen s) (vec_of O ai))
                                                        (Z.max k (Z.of_nat d)) (Z.max k (Z.of_nat d))))
                  None _ _ _ HsM Hsk eq_refl ltac:(rewrite Hlo; exact Hap))
        as (c & Hc & H1 & H2 & H3 & H4).
      exists c. split; [exact Hc|]. unfold pass_ok. rewrite H1, Hlo. repeat split; assumption.
    Qed.

    (* pspline_drpls *)
    Lemma d1_rep : (2 <= M)%nat ->
      exists d1, dpd M 1 false 0 = DpdOk d1 /\
        Rep false (of_arr O d1) 1 (fun i j => ofZ O (DtD 1 M i j)).
    Proof.
      intros HM. unfold dpd.
      destruct (dpd_core_exact M 1 false ltac:(lia)) as (a & -> & (H1 & H2 & H3)).
      eexists. split; [reflexivity|]. unfold pad_diagonals. rewrite Z.ltb_irrefl.
      constructor; cbn [of_arr tr tc tg]; try lia.
      - rewrite H1. reflexivity.
      - rewrite H2. reflexivity.
      - intros i j Hi Hj Hb. unfold inR in *. rewrite H3 by (rewrite ?H1, ?H2; cbn [spec_bands nr nc]; lia).
        cbn [spec_bands get]. change 1 with (Z.of_nat 1) at 1. rewrite bs_full by lia. reflexivity.
      - intros i j Hi Hj Hb. rewrite DtD_out by (cbn; lia). apply ofZ0.
    Qed.

    Theorem drpls_system numba lam eta d y (wl : list ((Z -> F) * list F)) :
      (2 <= d < M)%nat -> Forall (fun wp => length (snd wp) = M) wl ->
      exists cs, drpls O numba k M lam eta d n B y wl = Some cs /\
        Forall2 (fun wp c => pass_ok (doc_drpls O M d lam eta n B (fst wp) (vec_of O (snd wp)))
                                     (bty O n B (fst wp) y) false c) wl cs.
    Proof.
      intros Hd Hlen. unfold drpls. replace (Z.of_nat d <? 2) with false by lia.
      destruct (init_spec k lam d false false ltac:(lia) Hk) as (s & -> & Hsk & HsM & Hlo & _ & Hnb & HR & _).
      specialize (HR eq_refl).
      destruct (d1_rep ltac:(lia)) as (d1 & -> & Hd1).
      unfold add_penalty. rewrite Hlo.
      destruct (add_rep _ _ _ _ _ _ _ HR Hd1) as (pen1 & -> & Hpen1).
      rewrite Forall_forall in Hlen.
      apply all_some_map. intros [w wi] Hin. specialize (Hlen _ Hin). cbn [snd fst] in *.
      replace (negb (Z.of_nat (length wi) =? Mz)) with false by lia.
      rewrite Hnb. cbn [with_pen p_pen].
      pose proof (shift_rep _ _ _ (colscale_rowrep _ _ _ (vec_of O wi)
                    (scale_rowrep _ _ _ (opp O eta) (trev_rowrep _ _ _ HR (Pq_sym d lam))))) as Hsh.
      destruct (add_rep _ _ _ _ _ _ _ Hpen1 Hsh) as (pen & -> & Hpen).
      set (s1 := with_pen O s pen1).
      destruct (solve_pspline_spec s1 numba w y (Some pen) None pen _ _ HsM Hsk eq_refl
                  ltac:(cbn [s1 with_pen p_lower]; rewrite Hlo; exact Hpen))
        as (c & Hc & H1 & H2 & H3 & H4).
      exists c. split; [exact Hc|]. unfold pass_ok. cbn [s1 with_pen p_lower] in H1. rewrite H1, Hlo.
      repeat split; assumption.
    Qed.

    (* the documented form  lam (I - eta W_interp) D'D  of the drpls penalty *)
    Lemma doc_drpls_form lam eta d w wi i j :
      doc_drpls O M d lam eta n B w wi i j
      = btwb O n B w i j [+] (ofZ O (DtD 1 M i j)
          [+] lam [*] sub O (one O) (eta [*] wi i) [*] ofZ O (DtD d M i j)).
    Proof. unfold doc_drpls, Pm. ring. Qed.

    (* mpspline: both solves *)
    Theorem mpspline_system numba lam_smooth ratio d al y w0 fit w1 :
      (1 <= d < M)%nat ->
      exists c0 c1, mpspline O numba k M lam_smooth ratio d al n B y w0 fit w1 = Some (c0, c1) /\
        pass_ok (doc_asls O M d lam_smooth n B w0) (bty O n B w0 y) al c0 /\
        pass_ok (fun i j => btwb O n B w1 i j [+] ratio [*] Pm O M d lam_smooth i j) (bty O n B w1 fit) al c1.
    Proof.
      intros Hd. unfold mpspline.
      destruct (init_spec k lam_smooth d al false Hd Hk) as (s & -> & Hsk & HsM & Hlo & _ & _ & HR & _).
      specialize (HR eq_refl).
      destruct (solve_pspline_spec s numba w0 y None None _ _ _ HsM Hsk eq_refl ltac:(rewrite Hlo; exact HR))
        as (c0 & -> & A1 & A2 & A3 & A4).
      set (s1 := with_pen O s (tscale O ratio (p_pen s))).
      destruct (solve_pspline_spec s1 numba w1 fit None None _ _ _ HsM Hsk eq_refl
                  ltac:(cbn [s1 with_pen p_lower p_pen]; rewrite Hlo; exact (scale_rep _ _ _ _ ratio HR)))
        as (c1 & -> & B1 & B2 & B3 & B4).
      exists c0, c1. split; [reflexivity|]. unfold pass_ok.
      cbn [s1 with_pen p_lower] in B1. rewrite A1, B1, Hlo. repeat split; assumption.
    Qed.

    (* ---- the solver as a library with its contract; the returned spline is B c ---- *)
    Section Solver.
      Variable solve : call O -> Z -> F.
      Hypothesis solve_ok : forall c, call_wf O Mz c = true ->
        forall r, inR r -> matvec O M (den O c) (solve c) r = k_rhs c r.

      Theorem coef_solves A rhs al c :
        pass_ok A rhs al c ->
        forall r, inR r -> matvec O M A (solve c) r = rhs r.
      Proof.
        intros (_ & Hwf & Hden & Hrhs) r Hr. rewrite <- Hrhs, <- (solve_ok c Hwf r Hr).
        unfold matvec. apply tsum_ext. intros j Hj. rewrite Hden by (unfold inR in *; lia). reflexivity.
      Qed.

      (* one pass of an asls-type method as a function of the weights: B c with c the solver's answer *)
      Definition pspline_pass (s : ps O) (numba : bool) (y w : Z -> F) : Z -> F :=
        match solve_pspline O s numba n B w y None None with
        | Some c => baseline O M B (solve c)
        | None => fun _ => zr
        end.

      Lemma pass_system numba lam d al y s w :
        (1 <= d < M)%nat -> pspline_init O k M lam d al false = Some s ->
        exists c, solve_pspline O s numba n B w y None None = Some c /\
          pass_ok (doc_asls O M d lam n B w) (bty O n B w y) al c /\
          pspline_pass s numba y w = baseline O M B (solve c) /\
          (forall r, inR r -> matvec O M (doc_asls O M d lam n B w) (solve c) r = bty O n B w y r).
      Proof.
        intros Hd Hs.
        destruct (init_spec k lam d al false Hd Hk) as (s' & Hs' & Hsk & HsM & Hlo & _ & _ & HR & _).
        rewrite Hs in Hs'. injection Hs' as <-. specialize (HR eq_refl).
        destruct (solve_pspline_spec s numba w y None None _ _ _ HsM Hsk eq_refl ltac:(rewrite Hlo; exact HR))
          as (c & Hc & H1 & H2 & H3 & H4).
        assert (Hp : pass_ok (doc_asls O M d lam n B w) (bty O n B w y) al c).
        { unfold pass_ok. rewrite H1, Hlo. repeat split; assumption. }
        exists c. split; [exact Hc|]. split; [exact Hp|]. split.
        - unfold pspline_pass. rewrite Hc. reflexivity.
        - apply (coef_solves _ _ _ _ Hp).
      Qed.

      (* the returned (baseline, weights): when the loop of an asls-type method stops by convergence (or by the
         early exit of airpls/arpls-type reweighting) the returned baseline is B c where c solves the documented
         system FOR THE RETURNED WEIGHTS; when the budget is exhausted the returned weights are the reweighting
         of the returned baseline, which solves the system for the previous weights *)
      Theorem returned_pair (D : Type) (reweight : nat -> (Z -> F) -> (Z -> F) -> (Z -> F) * bool)
              (diff : nat -> (Z -> F) -> (Z -> F) -> (Z -> F) -> D) (below : D -> bool)
              numba lam d al y s (w0 : Z -> F) budget r :
        (1 <= d < M)%nat -> pspline_init O k M lam d al false = Some s ->
        loop (Z -> F) (Z -> F) D (fun _ w => pspline_pass s numba y w) reweight diff below budget w0 = Some r ->
        match r_reason r with
        | Converged | EarlyExit =>
            exists c, solve_pspline O s numba n B (r_state r) y None None = Some c /\
              pass_ok (doc_asls O M d lam n B (r_state r)) (bty O n B (r_state r) y) al c /\
              r_base r = baseline O M B (solve c) /\
              (forall row, inR row ->
                 matvec O M (doc_asls O M d lam n B (r_state r)) (solve c) row = bty O n B (r_state r) y row)
        | Exhausted =>
            exists wprev c, solve_pspline O s numba n B wprev y None None = Some c /\
              pass_ok (doc_asls O M d lam n B wprev) (bty O n B wprev y) al c /\
              r_base r = baseline O M B (solve c) /\
              r_state r = fst (reweight (budget - 1)%nat (r_base r) wprev)
        end.
      Proof.
        intros Hd Hs Hl.
        pose proof (loop_returned_pair _ _ _ _ _ _ _ _ _ _ Hl) as H.
        destruct (r_reason r).
        - destruct H as (k0 & _ & Hb).
          destruct (pass_system numba lam d al y s (r_state r) Hd Hs) as (c & Hc & Hp & Hpass & Hsol).
          exists c. rewrite Hb, Hpass. repeat split; try assumption; apply Hp.
        - destruct H as (wprev & Hb & Hst).
          destruct (pass_system numba lam d al y s wprev Hd Hs) as (c & Hc & Hp & Hpass & Hsol).
          exists wprev, c. rewrite Hb at 1. rewrite Hpass. repeat split; try assumption; apply Hp.
        - destruct H as (k0 & _ & Hb).
          destruct (pass_system numba lam d al y s (r_state r) Hd Hs) as (c & Hc & Hp & Hpass & Hsol).
          exists c. rewrite Hb, Hpass. repeat split; try assumption; apply Hp.
      Qed.
    End Solver.
  End Basis.
End Ring.
