(* C07 -- the EXPECTED branch structure of every host function the C07 models cover (snapshot of the tree the
   models were written against; pybaselines bf1c47d, PenalizedSystem.solve refreshed at 00a2645: the added
   check_output branch raises on a non-finite solution and is never taken by solve_pspline, which leaves check_output=False), and the comparison with what tools/gen_c07hosts.py reads off
   the current source on every run (gen/GenC07Hosts.v).  A new code path in a modelled host -- in particular one
   gated on the size of the data -- changes the list of branch tests and is refused.  Definitions only; the
   lemmas are in C07/HostsProofs.v so that [diff_hosts] can still be evaluated when they fail. *)
From Coq Require Import String List Bool.
From PB Require Import gen.GenC07Hosts.
Import ListNotations.
Open Scope string_scope.

Definition expected_branches : list (string * list string) := [
  ("pybaselines/two_d/spline.py:_Spline.mixture_model", ["not 0 < p < 1"; "weights is not None"; "symmetric and (not 0.2 < p < 0.8)"; "symmetric"; "symmetric"; "calc_difference < tol"; "not symmetric"]);
  ("pybaselines/two_d/spline.py:_Spline.irsqr", ["not 0 < quantile < 1"; "calc_difference < tol"]);
  ("pybaselines/two_d/spline.py:_Spline.pspline_asls", ["not 0 < p < 1"; "calc_difference < tol"]);
  ("pybaselines/two_d/spline.py:_Spline.pspline_iasls", ["not 0 < p < 1"; "np.less(diff_order, 2).any()"; "weights is None"; "calc_difference < tol"]);
  ("pybaselines/two_d/spline.py:_Spline.pspline_airpls", ["exit_early"; "calc_difference < tol"]);
  ("pybaselines/two_d/spline.py:_Spline.pspline_arpls", ["exit_early"; "calc_difference < tol"]);
  ("pybaselines/two_d/spline.py:_Spline.pspline_iarpls", ["exit_early"; "calc_difference < tol"]);
  ("pybaselines/two_d/spline.py:_Spline.pspline_psalsa", ["not 0 < p < 1"; "k is None"; "calc_difference < tol"]);
  ("pybaselines/two_d/spline.py:_Spline.pspline_brpls", ["exit_early"; "i == 0 and j == 0"; "calc_difference < tol"; "i == 0 and j == 0"; "calc_difference_2 < tol_2"]);
  ("pybaselines/two_d/spline.py:_Spline.pspline_lsrpls", ["exit_early"; "calc_difference < tol"]);
  ("pybaselines/two_d/_spline_utils.py:SplineBasis2D.__init__", []);
  ("pybaselines/two_d/_spline_utils.py:SplineBasis2D.same_basis", []);
  ("pybaselines/two_d/_spline_utils.py:SplineBasis2D.basis", ["self._basis is None"]);
  ("pybaselines/two_d/_spline_utils.py:SplineBasis2D._make_btwb", []);
  ("pybaselines/two_d/_spline_utils.py:PSpline2D.__init__", ["(self.diff_order >= self.basis._num_bases).any()"]);
  ("pybaselines/two_d/_spline_utils.py:PSpline2D.reset_penalty", []);
  ("pybaselines/two_d/_spline_utils.py:PSpline2D.solve", ["penalty is None"; "rhs_extra is not None"]);
  ("pybaselines/two_d/_whittaker_utils.py:_face_splitting", []);
  ("pybaselines/two_d/_whittaker_utils.py:PenalizedSystem2D.__init__", []);
  ("pybaselines/two_d/_whittaker_utils.py:PenalizedSystem2D.add_penalty", []);
  ("pybaselines/two_d/_whittaker_utils.py:PenalizedSystem2D._update_bands", []);
  ("pybaselines/two_d/_whittaker_utils.py:PenalizedSystem2D.reset_diagonals", []);
  ("pybaselines/two_d/_algorithm_setup.py:_Algorithm2D._setup_spline", ["self._sort_order is not None and weights is not None"; "not make_basis"; "(diff_order > 4).any()"; "self._spline_basis is None or not self._spline_basis.same_basis(num_knots, spline_degree)"]);
  ("pybaselines/spline.py:_Spline.mixture_model", ["not 0 < p < 1"; "num_bins is not None"; "weights is not None"; "symmetric and (not 0.2 < p < 0.8)"; "symmetric"; "symmetric"; "calc_difference < tol"; "not symmetric"]);
  ("pybaselines/spline.py:_Spline.irsqr", ["not 0 < quantile < 1"; "calc_difference < tol"]);
  ("pybaselines/spline.py:_Spline.corner_cutting", ["num_corners == 0"]);
  ("pybaselines/spline.py:_Spline.pspline_asls", ["not 0 < p < 1"; "calc_difference < tol"]);
  ("pybaselines/spline.py:_Spline.pspline_iasls", ["not 0 < p < 1"; "diff_order < 2"; "weights is None"; "pspline.lower"; "calc_difference < tol"]);
  ("pybaselines/spline.py:_Spline.pspline_airpls", ["exit_early"; "calc_difference < tol"]);
  ("pybaselines/spline.py:_Spline.pspline_arpls", ["exit_early"; "calc_difference < tol"]);
  ("pybaselines/spline.py:_Spline.pspline_drpls", ["not 0 <= eta <= 1"; "diff_order < 2"; "exit_early"; "calc_difference < tol"]);
  ("pybaselines/spline.py:_Spline.pspline_iarpls", ["exit_early"; "calc_difference < tol"]);
  ("pybaselines/spline.py:_Spline.pspline_aspls", ["self._sort_order is not None and alpha is not None"; "exit_early"; "calc_difference < tol"]);
  ("pybaselines/spline.py:_Spline.pspline_psalsa", ["not 0 < p < 1"; "k is None"; "calc_difference < tol"]);
  ("pybaselines/spline.py:_Spline.pspline_derpsalsa", ["not 0 < p < 1"; "k is None"; "smooth_half_window is None"; "pad_kwargs is not None"; "smooth_half_window > 0"; "calc_difference < tol"]);
  ("pybaselines/spline.py:_Spline.pspline_mpls", ["not 0 <= p <= 1"; "tol is not None or max_iter is not None"; "weights is not None"]);
  ("pybaselines/spline.py:_Spline.pspline_brpls", ["exit_early"; "i == 0 and j == 0"; "calc_difference < tol"; "i == 0 and j == 0"; "calc_difference_2 < tol_2"]);
  ("pybaselines/spline.py:_Spline.pspline_lsrpls", ["exit_early"; "calc_difference < tol"]);
  ("pybaselines/_spline_utils.py:_spline_knots", ["num_knots < 2"; "penalized"]);
  ("pybaselines/_spline_utils.py:_spline_basis", ["_HAS_NUMBA"; "hasattr(BSpline, 'design_matrix')"; "validate_inputs"; "np.any(x < knots[spline_degree]) or np.any(x > knots[len_knots - spline_degree - 1])"]);
  ("pybaselines/_spline_utils.py:_numba_btb_bty", []);
  ("pybaselines/_spline_utils.py:_basis_midpoints", ["spline_degree % 2"]);
  ("pybaselines/_spline_utils.py:SplineBasis.__init__", ["spline_degree < 0"]);
  ("pybaselines/_spline_utils.py:SplineBasis.same_basis", []);
  ("pybaselines/_spline_utils.py:PSpline.__init__", ["diff_order < 1"; "diff_order >= self.basis._num_bases"; "_HAS_NUMBA and self.basis._x_len * (self.basis.spline_degree + 1) == len(self.basis.basis.tocsr().data)"]);
  ("pybaselines/_spline_utils.py:PSpline.reset_penalty_diagonals", []);
  ("pybaselines/_spline_utils.py:PSpline.solve_pspline", ["self._use_numba"; "not self.lower"; "use_backup"; "self.lower"; "penalty is None"; "rhs_extra is not None"]);
  ("pybaselines/_banded_utils.py:_shift_rows", ["lower_diagonals is None"]);
  ("pybaselines/_banded_utils.py:_lower_to_full", []);
  ("pybaselines/_banded_utils.py:_pad_diagonals", ["padding > 0"; "lower_only"]);
  ("pybaselines/_banded_utils.py:_add_diagonals", ["a_shape[1] != b_shape[1]"; "row_mismatch == 0"; "lower_only"; "row_mismatch > 0"; "abs_mismatch % 2"; "row_mismatch > 0"]);
  ("pybaselines/_banded_utils.py:_sparse_to_banded", ["data_size == expected_length and np.array_equal(np.sort(diag_matrix.offsets), np.arange(lower, upper + 1))"; "upper == diag_matrix.offsets[0]"]);
  ("pybaselines/_banded_utils.py:PenalizedSystem.add_penalty", []);
  ("pybaselines/_banded_utils.py:PenalizedSystem._update_bands", ["self.lower"; "self.lower"]);
  ("pybaselines/_banded_utils.py:PenalizedSystem.solve", ["self.using_pentapy"; "self.lower"; "l_and_u is None"; "check_output and (not self.using_pentapy) and (not np.isfinite(output).all())"]);
  ("pybaselines/_algorithm_setup.py:_Algorithm._setup_spline", ["self._sort_order is not None and weights is not None"; "not make_basis"; "diff_order > 4"; "self._spline_basis is None or not self._spline_basis.same_basis(num_knots, spline_degree)"]);
  ("pybaselines/morphological.py:_Morphological.mpspline", ["half_window is not None"; "not 0 <= p <= 1"; "weights is None"; "pad_kwargs is not None"]);
  ("pybaselines/utils.py:pspline_smooth", [])
].

Fixpoint sl_eqb (x y : list string) : bool :=
  match x, y with
  | [], [] => true
  | a :: x', b :: y' => String.eqb a b && sl_eqb x' y'
  | _, _ => false
  end.

Fixpoint lookup_host (h : string) (l : list (string * list string)) : option (list string) :=
  match l with
  | [] => None
  | (k, v) :: l' => if String.eqb k h then Some v else lookup_host h l'
  end.

(* hosts whose branch tests differ from the expected ones (or that are new / missing) *)
Definition diff_hosts : list string :=
  map fst (filter (fun p => match lookup_host (fst p) expected_branches with
                            | Some v => negb (sl_eqb v (snd p))
                            | None => true
                            end) host_branches)
  ++ map fst (filter (fun p => match lookup_host (fst p) host_branches with Some _ => false | None => true end)
                     expected_branches).

Definition hosts_ok : bool :=
  match diff_hosts with [] => true | _ => false end
  && forallb (fun p => match snd p with [] => true | _ => false end) module_constants
  && match size_gated with [] => true | _ => false end.
