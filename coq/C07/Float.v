(* binary64 instance of the C07 model, evaluated by vm_compute on hex-float literals taken from the
   implementation (device 1 of DESIGN.md section 0), and bit-equality helpers. *)
From Coq Require Import PrimFloat ZArith List Bool.
From Coq Require Uint63.
From PB Require Import C07.Model.
Import ListNotations.

Definition f_ofZ (z : Z) : float :=
  match z with
  | Z0 => 0%float
  | Zpos _ => PrimFloat.of_uint63 (Uint63.of_Z z)
  | Zneg p => PrimFloat.opp (PrimFloat.of_uint63 (Uint63.of_Z (Zpos p)))
  end.

Definition ops_F : ops :=
  {| T := float; zero := 0%float; one := 1%float;
     add := PrimFloat.add; mul := PrimFloat.mul; sub := PrimFloat.sub; opp := PrimFloat.opp;
     ofZ := f_ofZ; is0 := fun x => PrimFloat.eqb x 0%float |}.

(* bit equality: distinguishes +0/-0, identifies NaNs *)
Definition feqb (x y : float) : bool :=
  match PrimFloat.compare x y with
  | FEq => if PrimFloat.eqb x 0%float
           then Bool.eqb (PrimFloat.ltb (PrimFloat.div 1%float x) 0%float) (PrimFloat.ltb (PrimFloat.div 1%float y) 0%float)
           else true
  | FNotComparable => negb (PrimFloat.eqb x x) && negb (PrimFloat.eqb y y)
  | _ => false
  end.

(* numeric equality (+0 == -0): the sign of a zero that a padding row or an untouched cell holds
   is not part of the system that is solved *)
Definition fnumeqb (x y : float) : bool :=
  match PrimFloat.compare x y with
  | FEq => true
  | FNotComparable => negb (PrimFloat.eqb x x) && negb (PrimFloat.eqb y y)
  | _ => false
  end.

Fixpoint fl_eqb (e : float -> float -> bool) (x y : list float) : bool :=
  match x, y with
  | [], [] => true
  | a :: x', b :: y' => e a b && fl_eqb e x' y'
  | _, _ => false
  end.

Fixpoint fll_eqb (e : float -> float -> bool) (x y : list (list float)) : bool :=
  match x, y with
  | [], [] => true
  | a :: x', b :: y' => fl_eqb e a b && fll_eqb e x' y'
  | _, _ => false
  end.

Definition obs_eqb (e : float -> float -> bool)
           (a b : bool * list (list float) * list float) : bool :=
  let '(l1, m1, r1) := a in let '(l2, m2, r2) := b in
  Bool.eqb l1 l2 && fll_eqb e m1 m2 && fl_eqb e r1 r2.

Fixpoint obsl_eqb (e : float -> float -> bool)
         (x y : list (bool * list (list float) * list float)) : bool :=
  match x, y with
  | [], [] => true
  | a :: x', b :: y' => obs_eqb e a b && obsl_eqb e x' y'
  | _, _ => false
  end.

(* helpers for generated correspondence cases *)
Definition fn (l : list float) : Z -> float := vec_of ops_F l.
Definition Bm (rows : list (list float)) : Z -> Z -> float := of_rows ops_F rows.
Definition check_calls (e : float -> float -> bool) (M : Z) (r : option (list (call ops_F)))
           (expected : list (bool * list (list float) * list float)) : bool :=
  match r with
  | Some l => obsl_eqb e (map (observe_call ops_F M) l) expected
  | None => false
  end.
Definition check_pair (e : float -> float -> bool) (M : Z) (r : option (call ops_F * call ops_F))
           (expected : list (bool * list (list float) * list float)) : bool :=
  match r with
  | Some (a, b) => obsl_eqb e [observe_call ops_F M a; observe_call ops_F M b] expected
  | None => false
  end.
