(* Proofs for the 2-D part of property C07: what every 2-D penalized-spline method hands to spsolve is the
   documented Kronecker system
       kron(B_r,B_c)' diag(vec W) kron(B_r,B_c) + lam_r kron(D_r'D_r, I) + lam_c kron(I, D_c'D_c),   rhs  B' diag(vec W) vec(Y)
   (+ the B'P_1B terms of pspline_iasls), for every data shape, number of basis functions, degree and diff_order per
   axis, over any commutative semiring.  The B'WB / rhs / output array algebra is C20 (imported). *)
From Coq Require Import ZArith List Bool Lia ZifyBool Ring.
From PB Require Import C11.DtD C20.Model C20.Proofs C07.Model2D.
Import ListNotations.
Open Scope Z_scope.

Section P2.
  Variable R : ops.
  Hypothesis Rth : semi_ring_theory (t0 R) (t1 R) (tadd R) (tmul R) (@eq (T R)).
  Add Ring R2ring : Rth.
  Variable ofZ : Z -> T R.

  (* the penalty entry by entry on the coefficient grid: coefficient (a1, c1) <-> index a1*c + c1 *)
  Theorem pen2d_entry (a c dr dc : nat) lr lc a1 c1 a2 c2 :
    0 <= c1 < Z.of_nat c -> 0 <= c2 < Z.of_nat c ->
    pen2d R ofZ a c dr dc lr lc (a1 * Z.of_nat c + c1) (a2 * Z.of_nat c + c2)
    = tadd R (if c1 =? c2 then tmul R lr (ofZ (DtD dr a a1 a2)) else t0 R)
             (if a1 =? a2 then tmul R lc (ofZ (DtD dc c c1 c2)) else t0 R).
  Proof.
    intros H1 H2. unfold pen2d, madd, kron, eye, diagm, mscale, pen1. cbv zeta.
    rewrite !dm_div, !dm_mod by lia.
    destruct (c1 =? c2), (a1 =? a2); ring.
  Qed.

  Definition pass2_ok (n : Z) (A : mat R) (rhs : vec R) (k : call2 R) : Prop :=
    (forall r s, 0 <= r < n -> 0 <= s < n -> c_lhs k r s = A r s) /\ (forall i, 0 <= i -> c_rhs k i = rhs i).

  Lemma Forall2_map_r {X Y} (P : X -> Y -> Prop) (f : X -> Y) (l : list X) :
    (forall x, P x (f x)) -> Forall2 P l (map f l).
  Proof. intros H. induction l; cbn [map]; constructor; auto. Qed.

  Theorem asls2d_system cf (M N a c dr dc : nat) lr lc (Br Bc Y : mat R) (wl : list (mat R)) :
    cfg_ok cf = true -> (1 <= dr < a)%nat -> (1 <= dc < c)%nat ->
    exists cs, asls2d R ofZ cf M N a c dr dc lr lc Br Bc Y wl = Some cs /\
      Forall2 (fun W k => pass2_ok (Z.of_nat a * Z.of_nat c)
                            (doc_asls2d R ofZ M N a c dr dc lr lc Br Bc W)
                            (btwy_spec R M N (Z.of_nat c) Br W Y Bc) k) wl cs.
  Proof.
    intros Hcf Hr Hc. unfold asls2d.
    replace (init2d a c dr dc) with true by (unfold init2d; lia).
    eexists. split; [reflexivity|]. apply Forall2_map_r. intros W. split.
    - intros r s Hr' Hs'. cbn [solve2d c_lhs]. unfold doc_asls2d, madd.
      rewrite (make_btwb_is_BtWB R Rth) by assumption. reflexivity.
    - intros i Hi. cbn [solve2d c_rhs]. apply rhs_is_BtWy; [exact Rth|lia|lia].
  Qed.

  Theorem iasls2d_system cf (M N a c dr dc : nat) lr lc l1r l1c (Br Bc Y : mat R) (wl : list (mat R)) :
    cfg_ok cf = true -> (2 <= dr < a)%nat -> (2 <= dc < c)%nat -> (2 <= M)%nat -> (2 <= N)%nat ->
    exists cs, iasls2d R ofZ cf M N a c dr dc lr lc l1r l1c Br Bc Y wl = Some cs /\
      Forall2 (fun W k => pass2_ok (Z.of_nat a * Z.of_nat c)
                            (doc_iasls2d R ofZ M N a c dr dc lr lc l1r l1c Br Bc W)
                            (doc_iasls2d_rhs R ofZ M N c l1r l1c Br Bc W Y) k) wl cs.
  Proof.
    intros Hcf Hr Hc HM HN. unfold iasls2d.
    replace (negb ((2 <=? Z.of_nat dr) && (2 <=? Z.of_nat dc))) with false by lia.
    replace (negb (init2d a c dr dc && init2d M N 1 1)) with false by (unfold init2d; lia).
    eexists. split; [reflexivity|]. apply Forall2_map_r. intros W. split.
    - intros r s Hr' Hs'. cbn [solve2d c_lhs]. unfold doc_iasls2d, madd.
      rewrite (make_btwb_is_BtWB R Rth) by assumption. reflexivity.
    - intros i Hi. cbn [solve2d c_rhs]. unfold doc_iasls2d_rhs.
      rewrite (rhs_is_BtWy R Rth) by lia. reflexivity.
  Qed.

  (* spsolve as a library with contract lhs * x = rhs: the coefficients solve the documented system, and the
     returned surface B_r C B_c' is kron(B_r, B_c) c reshaped to the data grid (C20_output) *)
  Section Solver2.
    Variable solve : call2 R -> vec R.
    Variable n : nat.
    Hypothesis solve_ok : forall k r, 0 <= r < Z.of_nat n -> mvec R n (c_lhs k) (solve k) r = c_rhs k r.

    Theorem coef2d_solves A rhs k :
      pass2_ok (Z.of_nat n) A rhs k ->
      forall r, 0 <= r < Z.of_nat n -> mvec R n A (solve k) r = rhs r.
    Proof.
      intros [Hl Hrhs] r Hr. rewrite <- Hrhs by lia. rewrite <- (solve_ok k r Hr).
      unfold mvec. apply sum_ext. intros j Hj. rewrite Hl by lia. reflexivity.
    Qed.
  End Solver2.

  Theorem output2d_is_Bc (N a c : nat) (Br Bc : mat R) (coef : vec R) i j :
    0 <= j < Z.of_nat N ->
    output_model R a c Br Bc coef i j
    = mvec R (a * c) (Bkron R (Z.of_nat N) (Z.of_nat c) Br Bc) coef (i * Z.of_nat N + j).
  Proof. apply output_is_Bc. exact Rth. Qed.
End P2.
