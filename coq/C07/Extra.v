(* C07, growth sprint: (1) the even-degree case of _basis_midpoints (the value theorem existed for odd degree
   only): point j is the mean of the two knots around the centre of the support of basis function j;
   (2) the documented systems of the methods that use the LOWER layout (scipy solveh_banded reads only the lower
   bands and assumes symmetry) are symmetric matrices, so the symmetric completion in [den] loses nothing. *)
From Coq Require Import ZArith List Bool Lia ZifyBool Ring.
From PB Require Import lib.SumZ lib.PySlice lib.Arr C11.DtD C07.Model C07.Proofs.
Import ListNotations.
Open Scope Z_scope.

Ltac Zify.zify_post_hook ::= Z.to_euclidean_division_equations.

Section MidEven.
  Variable O : ops.

  Lemma nth_map2 {A B C} (f : A -> B -> C) : forall (x : list A) (y : list B) i da db dc,
    (i < length x)%nat -> (i < length y)%nat ->
    nth i (map2 f x y) dc = f (nth i x da) (nth i y db).
  Proof.
    induction x as [|a x IH]; intros y i da db dc Hx Hy; [cbn in Hx; lia|].
    destruct y as [|b y]; [cbn in Hy; lia|].
    destruct i as [|i]; cbn [map2 nth]; [reflexivity|]. apply IH; cbn [length] in *; lia.
  Qed.

  Lemma nth_tl {A} (l : list A) i d : nth i (tl l) d = nth (S i) l d.
  Proof. destruct l; [destruct i; reflexivity|reflexivity]. Qed.

  Lemma nth_removelast {A} (l : list A) i d : (i < length l - 1)%nat -> nth i (removelast l) d = nth i l d.
  Proof. intros H. rewrite removelast_firstn_len. apply nth_firstn_lt. lia. Qed.

  Theorem basis_midpoints_even (half : T O) (knots : list (T O)) (k nk : Z) (j : nat) dflt :
    0 <= k -> k mod 2 = 0 -> 2 <= nk -> Z.of_nat (length knots) = nk + 2 * k -> Z.of_nat j < nk + k - 1 ->
    nth j (basis_midpoints O half knots k) dflt
    = mul O half (add O (nth (j + Z.to_nat (k / 2) + 1) knots dflt) (nth (j + Z.to_nat (k / 2)) knots dflt)).
  Proof.
    intros Hk Heven Hnk Hlen Hj. unfold basis_midpoints.
    replace (negb (k mod 2 =? 0)) with false by lia.
    set (f := fun a b : T O => mul O half (add O a b)).
    assert (Hm : length (map2 f (tl knots) (removelast knots)) = (length knots - 1)%nat).
    { rewrite map2_length, tl_length, removelast_len. lia. }
    rewrite nth_py_slice by (rewrite ?Hm; lia).
    rewrite (nth_map2 f _ _ _ dflt dflt) by (rewrite ?tl_length, ?removelast_len; lia).
    unfold f. rewrite nth_tl, nth_removelast by lia.
    f_equal. f_equal; f_equal; lia.
  Qed.
End MidEven.

Section Sym.
  Variable O : ops.
  Hypothesis Rth : ring_theory (zero O) (one O) (add O) (mul O) (sub O) (opp O) (@eq (T O)).
  Add Ring Fring2 : Rth.

  Lemma tsum_ext' n f g : (forall i, 0 <= i < Z.of_nat n -> f i = g i) -> tsum O n f = tsum O n g.
  Proof.
    induction n as [|n IH]; intros H; [reflexivity|].
    cbn [tsum]. rewrite IH by (intros; apply H; lia). rewrite (H (Z.of_nat n)) by lia. reflexivity.
  Qed.

  Theorem doc_asls_sym M d lam n B w i j : doc_asls O M d lam n B w i j = doc_asls O M d lam n B w j i.
  Proof.
    unfold doc_asls, Pm, btwb. rewrite (DtD_sym d M i j). f_equal.
    apply tsum_ext'. intros. ring.
  Qed.

  Theorem doc_iasls_sym M d lam lam1 n B w i j :
    doc_iasls O M d lam lam1 n B w i j = doc_iasls O M d lam lam1 n B w j i.
  Proof.
    unfold doc_iasls, Pm, btwb. rewrite (DtD_sym d M i j).
    rewrite (btTb_sym O Rth n B (d1mat O n lam1) (d1mat_sym O n lam1) i j).
    f_equal. apply tsum_ext'. intros. ring.
  Qed.
End Sym.
