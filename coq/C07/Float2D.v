(* binary64 instance of the 2-D C07 model (C20's [ops] record) and comparison helpers.  The 2-D assembly goes
   through scipy.sparse products whose summation order is unspecified, so it is only evaluated on inputs for
   which every intermediate value is exact (dyadic bases, integer data / weights, power-of-two lam). *)
From Coq Require Import PrimFloat ZArith List Bool.
From PB Require Import C20.Model C07.Model2D.
From PB Require C07.Float.
Import ListNotations.

Definition RF : ops := mkops float 0%float 1%float PrimFloat.add PrimFloat.mul.
Definition fofZ : Z -> float := PB.C07.Float.f_ofZ.

Definition obs2 (n : nat) (k : call2 RF) : list (list float) * list float :=
  (tabm n (c_lhs k), tabv n (c_rhs k)).

Fixpoint obs2l_eqb (x y : list (list (list float) * list float)) : bool :=
  match x, y with
  | [], [] => true
  | (m1, r1) :: x', (m2, r2) :: y' =>
      PB.C07.Float.fll_eqb PB.C07.Float.fnumeqb m1 m2 && PB.C07.Float.fl_eqb PB.C07.Float.fnumeqb r1 r2
      && obs2l_eqb x' y'
  | _, _ => false
  end.

Definition check2 (n : nat) (r : option (list (call2 RF)))
           (expected : list (list (list float) * list float)) : bool :=
  match r with
  | Some l => obs2l_eqb (map (obs2 n) l) expected
  | None => false
  end.

Definition Mf (rows : list (list float)) : mat RF := rowsm (R := RF) rows.
