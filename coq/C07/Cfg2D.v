(* the _make_btwb configuration read off the current source (gen/GenC20.v) is one the C20 theorems apply to
   (own copy of the check so that the C07 build does not depend on C20/GenOk.v) *)
From Coq Require Import ZArith List Bool.
From PB Require Import C20.Model gen.GenC20.

Lemma spline_cfg_ok : cfg_ok gen_cfg_spline = true.
Proof. vm_compute. reflexivity. Qed.
