(* Executable model of the penalized-spline assembly code (property C07):
     pybaselines/_spline_utils.py : PSpline.__init__ / reset_penalty_diagonals (padding = degree - diff_order),
                                    PSpline.solve_pspline (numba path and sparse fallback path),
                                    _basis_midpoints
     pybaselines/_banded_utils.py : _add_diagonals, _lower_to_full, _shift_rows, _sparse_to_banded (contract),
                                    PenalizedSystem.add_penalty / _update_bands / solve (dispatch)
     pybaselines/spline.py        : asls-type methods, pspline_iasls, pspline_drpls, pspline_aspls
     pybaselines/morphological.py : mpspline (rescaled penalty);  pybaselines/utils.py : pspline_smooth
   built on the C11 model of diff_penalty_diagonals / _pad_diagonals / PenalizedSystem.reset_diagonals.
   ONE model over an abstract number structure [ops]: the theorems (C07/Proofs.v) are proved for every
   commutative ring, the PrimFloat instance (C07/Float.v) is evaluated on the implementation's own inputs
   and compared bit for bit.  Models only; no proofs here. *)
From Coq Require Import ZArith List Bool Lia ZifyBool.
From PB Require Import lib.SumZ lib.PySlice lib.Arr C11.DtD C11.Table gen.GenBands C11.Banded.
Import ListNotations.
Open Scope Z_scope.

Record ops := mkops {
  T : Type; zero : T; one : T;
  add : T -> T -> T; mul : T -> T -> T; sub : T -> T -> T; opp : T -> T;
  ofZ : Z -> T;            (* int -> float conversion of the integer penalty bands *)
  is0 : T -> bool          (* x == 0, used by scipy.sparse to drop entries *)
}.

Section Model.
  Variable NO : ops.
  Notation F := (T NO).
  Notation "a [+] b" := (add NO a b) (at level 50, left associativity).
  Notation "a [*] b" := (mul NO a b) (at level 40, left associativity).

  (* ---------------------------------------------------------------- 2-D arrays over F *)
  Record tarr := mkt { tr : Z; tc : Z; tg : Z -> Z -> F }.

  Definition of_arr (a : arr) : tarr := mkt (nr a) (nc a) (fun r c => ofZ NO (get a r c)).
  Definition tscale (l : F) (a : tarr) : tarr := mkt (tr a) (tc a) (fun r c => l [*] tg a r c).
  Definition tadd (a b : tarr) : tarr := mkt (tr a) (tc a) (fun r c => tg a r c [+] tg b r c).
  Definition trev (a : tarr) : tarr := mkt (tr a) (tc a) (fun r c => tg a (tr a - 1 - r) c).
  Definition tdrop (k : Z) (a : tarr) : tarr := mkt (tr a - k) (tc a) (fun r c => tg a (r + k) c).
  (* a * w  with w broadcast along the rows: a[r, c] * w[c] *)
  Definition tcolscale (a : tarr) (w : Z -> F) : tarr := mkt (tr a) (tc a) (fun r c => tg a r c [*] w c).
  Definition tpad_bottom (k : Z) (a : tarr) : tarr :=
    mkt (tr a + k) (tc a) (fun r c => if r <? tr a then tg a r c else zero NO).
  Definition tpad_both (k : Z) (a : tarr) : tarr :=
    mkt (tr a + 2 * k) (tc a)
        (fun r c => if (k <=? r) && (r <? k + tr a) then tg a (r - k) c else zero NO).

  (* _add_diagonals; None = ValueError *)
  Definition add_diagonals (a b : tarr) (lower : bool) : option tarr :=
    if negb (tc a =? tc b) then None
    else
      let mm := tr a - tr b in
      if mm =? 0 then Some (tadd a b)
      else
        let am := Z.abs mm in
        if lower then
          if 0 <? mm then Some (tadd a (tpad_bottom am b)) else Some (tadd (tpad_bottom am a) b)
        else if negb (am mod 2 =? 0) then None
        else if 0 <? mm then Some (tadd a (tpad_both (am / 2) b))
        else Some (tadd (tpad_both (am / 2) a) b).

  (* _shift_rows (closed form of the two loops, as in C11.Banded) *)
  Definition tshift_upper (a : tarr) (upper : Z) : tarr :=
    mkt (tr a) (tc a) (fun r c =>
      if r <? upper then let s := upper - r in if c <? s then zero NO else tg a r (c - s)
      else tg a r c).
  Definition tshift_lower (a : tarr) (lower : Z) : tarr :=
    mkt (tr a) (tc a) (fun r c =>
      let p := tr a - r in
      if p <=? lower then let s := lower - p + 1 in if c <? tc a - s then tg a r (c + s) else zero NO
      else tg a r c).
  Definition tshift_rows (a : tarr) (upper lower : Z) : tarr := tshift_lower (tshift_upper a upper) lower.

  (* _lower_to_full *)
  Definition tlower_to_full (ab : tarr) : tarr :=
    let R := tr ab in
    let pre := mkt (2 * R - 1) (tc ab)
                 (fun r c => if r <? R - 1 then tg ab (R - 1 - r) c else tg ab (r - (R - 1)) c) in
    tshift_rows pre (R - 1) 0.

  Fixpoint tsum (n : nat) (f : Z -> F) : F :=
    match n with 0%nat => zero NO | S m => tsum m f [+] f (Z.of_nat m) end.

  (* ---------------------------------------------------------------- PSpline *)
  Record ps := { p_k : Z;          (* basis.spline_degree *)
                 p_M : nat;        (* basis._num_bases *)
                 p_lower : bool; p_rev : bool;
                 p_pen : tarr;     (* self.penalty *)
                 p_nb : Z }.       (* self.num_bands *)

  Definition bands_of (lower : bool) (pen : tarr) : Z := if lower then tr pen - 1 else tr pen / 2.

  (* PSpline.__init__ (via _setup_spline: allow_lower already combined with banded_solver < 4).
     None = ValueError.  lam > 0 is checked by _check_lam outside the model. *)
  Definition pspline_init (k : Z) (M : nat) (lam : F) (d : nat) (allow_lower rev : bool) : option ps :=
    if Z.of_nat d <? 1 then None
    else if Z.of_nat M <=? Z.of_nat d then None
    else
      let c := {| c_lam := 1; c_d := d; c_allow_lower := allow_lower; c_rev := Some rev;
                  c_allow_penta := false; c_pad := k - Z.of_nat d |} in
      match reset false M None c with
      | Some s =>
          let pen := tscale lam (of_arr (pad_diagonals (s_orig s) (k - Z.of_nat d) (s_lower s))) in
          Some {| p_k := k; p_M := M; p_lower := s_lower s; p_rev := s_rev s; p_pen := pen;
                  p_nb := bands_of (s_lower s) pen |}
      | None => None
      end.

  Definition with_pen (s : ps) (pen : tarr) : ps :=
    {| p_k := p_k s; p_M := p_M s; p_lower := p_lower s; p_rev := p_rev s; p_pen := pen;
       p_nb := bands_of (p_lower s) pen |}.

  (* PenalizedSystem.add_penalty *)
  Definition add_penalty (s : ps) (p : tarr) : option ps :=
    match add_diagonals (p_pen s) p (p_lower s) with
    | Some pen => Some (with_pen s pen)
    | None => None
    end.

  (* ---------------------------------------------------------------- B'WB and B'Wy *)
  (* B i j = basis[i, j] (dense view of the CSR design matrix), n data points.
     Entry by entry this is the accumulation order of _numba_btb_bty:
       ab[j - k, column] += work[j] * work[k] * w_i      (r = row >= c = column)
       rhs[row]          += work[j] * y_i * w_i
     (rows of the design matrix that do not touch the entry contribute +0.0, which leaves a float
     accumulator unchanged). *)
  Definition btwb (n : nat) (B : Z -> Z -> F) (w : Z -> F) (r c : Z) : F :=
    tsum n (fun i => B i r [*] B i c [*] w i).
  Definition bty (n : nat) (B : Z -> Z -> F) (w y : Z -> F) (r : Z) : F :=
    tsum n (fun i => B i r [*] y i [*] w i).

  (* numba path: ab = zeros((degree + 1, num_bases)) filled by _numba_btb_bty (lower bands) *)
  Definition ab_numba (k : Z) (M : nat) (A : Z -> Z -> F) : tarr :=
    mkt (k + 1) (Z.of_nat M) (fun r c => if c + r <? Z.of_nat M then A (c + r) c else zero NO).

  (* _sparse_to_banded(matrix, num_bases)[0] for a matrix coming out of scipy.sparse products:
     entries that are exactly 0 are not stored, so the number of bands is the largest offset on
     which a non-zero entry remains (library contract; sampled by the harness) *)
  Definition band_all_zero (M : nat) (A : Z -> Z -> F) (u : Z) : bool :=
    forallb (fun j => is0 NO (A (j + u) j) && is0 NO (A j (j + u))) (zrange 0 (Z.of_nat M - u)).
  Fixpoint detect_bw (fuel : nat) (M : nat) (A : Z -> Z -> F) : Z :=
    match fuel with
    | 0%nat => 0
    | S f => if band_all_zero M A (Z.of_nat fuel) then detect_bw f M A else Z.of_nat fuel
    end.
  Definition full_bands (u : Z) (M : nat) (A : Z -> Z -> F) : tarr :=
    mkt (2 * u + 1) (Z.of_nat M)
        (fun rho c => let i := c + rho - u in
                      if (0 <=? i) && (i <? Z.of_nat M) then A i c else zero NO).
  Definition sparse_to_banded (M : nat) (A : Z -> Z -> F) : tarr :=
    full_bands (detect_bw (M - 1) M A) M A.

  (* the `ab` of solve_pspline; numba = self._use_numba *)
  Definition make_ab (s : ps) (numba : bool) (A : Z -> Z -> F) : tarr :=
    if numba then
      let ab := ab_numba (p_k s) (p_M s) A in
      if p_lower s then ab else tlower_to_full ab
    else
      let ab := sparse_to_banded (p_M s) A in
      if p_lower s then tdrop (tr ab / 2) ab else ab.

  (* what reaches PenalizedSystem.solve (using_pentapy is always False for a PSpline):
     lower -> scipy.linalg.solveh_banded(lower=True); else solve_banded((len//2, len//2)) *)
  Record call := { k_lower : bool; k_lhs : tarr; k_rhs : Z -> F }.

  Definition solve_pspline (s : ps) (numba : bool) (n : nat) (B : Z -> Z -> F) (w y : Z -> F)
                           (penalty : option tarr) (rhs_extra : option (Z -> F)) : option call :=
    let ab := make_ab s numba (btwb n B w) in
    let pen := match penalty with Some p => p | None => p_pen s end in
    match add_diagonals ab pen (p_lower s) with
    | Some lhs =>
        Some {| k_lower := p_lower s; k_lhs := lhs;
                k_rhs := fun r => match rhs_extra with
                                  | None => bty n B w y r
                                  | Some e => bty n B w y r [+] e r
                                  end |}
    | None => None
    end.

  (* the matrix a call denotes: solveh_banded(lower=True): ab[i - j, j] = A[i, j] (i >= j), symmetric;
     solve_banded((u, u)): ab[u + i - j, j] = A[i, j] with u = len(ab) // 2 *)
  Definition den (k : call) (i j : Z) : F :=
    if k_lower k then
      let r := Z.abs (i - j) in
      if r <? tr (k_lhs k) then tg (k_lhs k) r (Z.min i j) else zero NO
    else
      let u := tr (k_lhs k) / 2 in
      if (- u <=? i - j) && (i - j <=? u) then tg (k_lhs k) (u + i - j) j else zero NO.

  (* shape requirements of the two entry points (l + u + 1 rows for solve_banded) *)
  Definition call_wf (M : Z) (k : call) : bool :=
    (tc (k_lhs k) =? M) &&
    (if k_lower k then 1 <=? tr (k_lhs k) else (1 <=? tr (k_lhs k)) && (tr (k_lhs k) mod 2 =? 1)).

  (* returned baseline: basis @ coef *)
  Definition matvec (M : nat) (A : Z -> Z -> F) (v : Z -> F) (i : Z) : F := tsum M (fun j => A i j [*] v j).
  Definition baseline (M : nat) (B : Z -> Z -> F) (coef : Z -> F) (i : Z) : F := matvec M B coef i.

  (* ---------------------------------------------------------------- the methods *)
  Fixpoint all_some {A} (l : list (option A)) : option (list A) :=
    match l with
    | [] => Some []
    | Some x :: r => match all_some r with Some r' => Some (x :: r') | None => None end
    | None :: _ => None
    end.

  (* pspline_asls / airpls / arpls / iarpls / psalsa / derpsalsa / mpls / brpls / lsrpls / mixture_model /
     irsqr and utils.pspline_smooth: every pass is solve_pspline(y, w) with the weights in force *)
  Definition asls (numba : bool) (k : Z) (M : nat) (lam : F) (d : nat) (allow_lower : bool)
                  (n : nat) (B : Z -> Z -> F) (y : Z -> F) (wl : list (Z -> F)) : option (list call) :=
    match pspline_init k M lam d allow_lower false with
    | Some s => all_some (map (fun w => solve_pspline s numba n B w y None None) wl)
    | None => None
    end.

  (* pspline_iasls: lam_1 * D1'D1 on the DATA, carried to the coefficients by scipy.sparse products *)
  Definition d1mat (n : nat) (lam1 : F) (a b : Z) : F := lam1 [*] ofZ NO (DtD 1 n a b).
  (* (B.T @ T)[r, b] *)
  Definition btT (n : nat) (B : Z -> Z -> F) (Tm : Z -> Z -> F) (r b : Z) : F :=
    tsum n (fun a => B a r [*] Tm a b).
  (* (B.T @ T) @ B  and  (B.T @ T) @ y *)
  Definition btTb (n : nat) (B Tm : Z -> Z -> F) (r c : Z) : F := tsum n (fun b => btT n B Tm r b [*] B b c).
  Definition btTy (n : nat) (B Tm : Z -> Z -> F) (y : Z -> F) (r : Z) : F := tsum n (fun b => btT n B Tm r b [*] y b).

  Definition iasls (numba : bool) (k : Z) (M : nat) (lam lam1 : F) (d : nat) (allow_lower : bool)
                   (n : nat) (B : Z -> Z -> F) (y : Z -> F) (wl : list (Z -> F)) : option (list call) :=
    if Z.of_nat d <? 2 then None
    else match pspline_init k M lam d allow_lower false with
    | None => None
    | Some s =>
        let E := btTb n B (d1mat n lam1) in
        let e0 := sparse_to_banded M E in
        let e1 := if p_lower s then tdrop (tr e0 / 2) e0 else e0 in
        match add_penalty s e1 with
        | None => None
        | Some s1 =>
            let extra := btTy n B (d1mat n lam1) y in
            all_some (map (fun w => solve_pspline s1 numba n B (fun i => w i [*] w i) y None (Some extra)) wl)
        end
    end.

  Definition vec_of (l : list F) : Z -> F := fun i => nth (Z.to_nat i) l (zero NO).

  (* pspline_drpls: wl = (weights, np.interp(basis midpoints, x, weights)) at the successive passes;
     a wrong number of interpolation points is a NumPy broadcasting error (None) *)
  Definition drpls (numba : bool) (k : Z) (M : nat) (lam eta : F) (d : nat)
                   (n : nat) (B : Z -> Z -> F) (y : Z -> F) (wl : list ((Z -> F) * list F))
    : option (list call) :=
    if Z.of_nat d <? 2 then None
    else match pspline_init k M lam d false false with
    | None => None
    | Some s =>
        let dn := tscale (opp NO eta) (trev (p_pen s)) in
        let nb := p_nb s in
        match dpd M 1 false 0 with
        | DpdOk d1 =>
            match add_penalty s (of_arr d1) with
            | None => None
            | Some s1 =>
                all_some (map (fun wp : (Z -> F) * list F =>
                  let (w, wi) := wp in
                  if negb (Z.of_nat (length wi) =? Z.of_nat M) then None
                  else
                    let sh := tshift_rows (tcolscale dn (vec_of wi)) nb nb in
                    match add_diagonals (p_pen s1) sh false with
                    | Some pen => solve_pspline s1 numba n B w y (Some pen) None
                    | None => None
                    end) wl)
            end
        | _ => None
        end
    end.

  (* pspline_aspls: wal = (weights, np.interp(basis midpoints, x, alpha)) at the successive passes *)
  Definition aspls (numba : bool) (k : Z) (M : nat) (lam : F) (d : nat)
                   (n : nat) (B : Z -> Z -> F) (y : Z -> F) (wal : list ((Z -> F) * list F))
    : option (list call) :=
    match pspline_init k M lam d false true with
    | None => None
    | Some s =>
        all_some (map (fun wa : (Z -> F) * list F =>
          let (w, ai) := wa in
          if negb (Z.of_nat (length ai) =? Z.of_nat M) then None
          else
            let ap := tshift_rows (tcolscale (p_pen s) (vec_of ai)) (p_nb s) (p_nb s) in
            solve_pspline s numba n B w y (Some ap) None) wal)
    end.

  (* mpspline: smoothing solve with lam_smooth, then  pspline.penalty = (lam / lam_smooth) * pspline.penalty
     and a second solve on the smoothed data; [ratio] is the float lam / lam_smooth *)
  Definition mpspline (numba : bool) (k : Z) (M : nat) (lam_smooth ratio : F) (d : nat) (allow_lower : bool)
                      (n : nat) (B : Z -> Z -> F) (y w0 fit w1 : Z -> F) : option (call * call) :=
    match pspline_init k M lam_smooth d allow_lower false with
    | None => None
    | Some s =>
        match solve_pspline s numba n B w0 y None None with
        | None => None
        | Some c0 =>
            let s1 := with_pen s (tscale ratio (p_pen s)) in
            match solve_pspline s1 numba n B w1 fit None None with
            | Some c1 => Some (c0, c1)
            | None => None
            end
        end
    end.

  (* ---------------------------------------------------------------- _basis_midpoints *)
  Definition py_slice {A} (l : list A) (start stop : Z) : list A :=
    let n := Z.of_nat (length l) in
    let a := clamp n start in let b := clamp n stop in
    firstn (Z.to_nat (b - a)) (skipn (Z.to_nat a) l).

  Fixpoint map2 {A B C} (f : A -> B -> C) (x : list A) (y : list B) : list C :=
    match x, y with
    | a :: x', b :: y' => f a b :: map2 f x' y'
    | _, _ => []
    end.

  Definition basis_midpoints (half : F) (knots : list F) (k : Z) : list F :=
    let len := Z.of_nat (length knots) in
    if negb (k mod 2 =? 0) then
      py_slice knots (1 + k / 2) (len - (k - k / 2))
    else
      (* 0.5 * (knots[1:] + knots[:-1]) *)
      let mid := map2 (fun a b => half [*] (a [+] b)) (tl knots) (removelast knots) in
      py_slice mid (k / 2) (Z.of_nat (length mid) - k / 2).

  (* ---------------------------------------------------------------- the documented systems *)
  Definition Pm (M d : nat) (lam : F) (i j : Z) : F := lam [*] ofZ NO (DtD d M i j).
  (* (B'WB + lam D'D) c = B'Wy *)
  Definition doc_asls (M d : nat) (lam : F) (n : nat) (B : Z -> Z -> F) (w : Z -> F) (i j : Z) : F :=
    btwb n B w i j [+] Pm M d lam i j.
  (* (B'W'WB + lam_1 B'D1'D1B + lam D'D) c = (B'W'W + lam_1 B'D1'D1) y *)
  Definition doc_iasls (M d : nat) (lam lam1 : F) (n : nat) (B : Z -> Z -> F) (w : Z -> F) (i j : Z) : F :=
    btwb n B (fun a => w a [*] w a) i j [+] (Pm M d lam i j [+] btTb n B (d1mat n lam1) i j).
  Definition doc_iasls_rhs (lam1 : F) (n : nat) (B : Z -> Z -> F) (w y : Z -> F) (r : Z) : F :=
    bty n B (fun a => w a [*] w a) y r [+] btTy n B (d1mat n lam1) y r.
  (* (B'WB + D1'D1 + lam (I - eta W_interp) D'D) c = B'Wy *)
  Definition doc_drpls (M d : nat) (lam eta : F) (n : nat) (B : Z -> Z -> F) (w wi : Z -> F) (i j : Z) : F :=
    btwb n B w i j [+] ((Pm M d lam i j [+] ofZ NO (DtD 1 M i j)) [+] (opp NO eta [*] Pm M d lam i j) [*] wi i).
  (* (B'WB + lam diag(alpha_interp) D'D) c = B'Wy *)
  Definition doc_aspls (M d : nat) (lam : F) (n : nat) (B : Z -> Z -> F) (w ai : Z -> F) (i j : Z) : F :=
    btwb n B w i j [+] Pm M d lam i j [*] ai i.

  (* ---------------------------------------------------------------- observation (correspondence) *)
  Definition ttab (a : tarr) : list (list F) :=
    map (fun r => map (fun c => tg a r c) (zrange 0 (tc a))) (zrange 0 (tr a)).
  Definition tvec (M : Z) (f : Z -> F) : list F := map f (zrange 0 M).
  Definition observe_call (M : Z) (k : call) := (k_lower k, ttab (k_lhs k), tvec M (k_rhs k)).
  Definition of_rows (l : list (list F)) : Z -> Z -> F :=
    fun i j => nth (Z.to_nat j) (nth (Z.to_nat i) l []) (zero NO).
  Definition dense (M : Z) (A : Z -> Z -> F) : list (list F) :=
    map (fun i => map (fun j => A i j) (zrange 0 M)) (zrange 0 M).
End Model.

Arguments tr {NO}. Arguments tc {NO}. Arguments tg {NO}.
Arguments k_lower {NO}. Arguments k_lhs {NO}. Arguments k_rhs {NO}.
Arguments p_k {NO}. Arguments p_M {NO}. Arguments p_lower {NO}. Arguments p_rev {NO}.
Arguments p_pen {NO}. Arguments p_nb {NO}.

(* integers: non-vacuity of the ring theorems, exact-input cases *)
Definition ops_Z : ops :=
  {| T := Z; zero := 0; one := 1; add := Z.add; mul := Z.mul; sub := Z.sub; opp := Z.opp;
     ofZ := fun z => z; is0 := fun z => z =? 0 |}.
