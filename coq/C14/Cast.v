(* C14 -- the cast of the float baseline back to the (integer) dtype of the input data.
   NumPy's float -> integer cast truncates towards zero and, for the narrow dtypes, wraps modulo 2^w.
   For integer data y and a real baseline b <= y: truncation keeps "at or below the data", and the wrapped
   value is the truncated one exactly when it lies in the range of the dtype.  Outside that range, or when b
   exceeds y by a rounding error, the statements fail (the four recorded findings are the witnesses). *)
From Coq Require Import ZArith Bool Lia QArith Qround Lqa.
Open Scope Z_scope.

Definition qtrunc (b : Q) : Z := if Qle_bool 0 b then Qfloor b else Qceiling b.   (* towards zero *)
Definition wrap_u (w z : Z) : Z := z mod 2 ^ w.                                    (* uintw *)
Definition wrap_s (w z : Z) : Z := (z + 2 ^ (w - 1)) mod 2 ^ w - 2 ^ (w - 1).      (* intw, two's complement *)
Definition cast_u (w : Z) (b : Q) : Z := wrap_u w (qtrunc b).
Definition cast_s (w : Z) (b : Q) : Z := wrap_s w (qtrunc b).

Lemma qtrunc_le (b : Q) (y : Z) : (b <= inject_Z y)%Q -> qtrunc b <= y.
Proof. intros H. unfold qtrunc. destruct (Qle_bool 0 b).
  - rewrite <- (Qfloor_Z y). apply Qfloor_resp_le; auto.
  - rewrite <- (Qceiling_Z y). apply Qceiling_resp_le; auto. Qed.

Lemma qfloor_le_any (b : Q) (y : Z) : (b < inject_Z (y + 1))%Q -> Qfloor b <= y.
Proof. intros H. pose proof (Qfloor_le b) as F.
  assert (L : (inject_Z (Qfloor b) < inject_Z (y + 1))%Q) by lra.
  rewrite <- Zlt_Qlt in L. lia. Qed.

Lemma qtrunc_ge (b : Q) (l : Z) : (inject_Z l <= b)%Q -> l <= qtrunc b.
Proof. intros H. unfold qtrunc. destruct (Qle_bool 0 b).
  - rewrite <- (Qfloor_Z l). apply Qfloor_resp_le; auto.
  - rewrite <- (Qceiling_Z l). apply Qceiling_resp_le; auto. Qed.

Lemma wrap_u_id w z : 0 <= w -> 0 <= z < 2 ^ w -> wrap_u w z = z.
Proof. intros Hw Hz. unfold wrap_u. apply Z.mod_small; auto. Qed.

Lemma wrap_s_id w z : 1 <= w -> - 2 ^ (w - 1) <= z < 2 ^ (w - 1) -> wrap_s w z = z.
Proof. intros Hw Hz. unfold wrap_s.
  assert (E : 2 ^ w = 2 * 2 ^ (w - 1)) by (replace w with (Z.succ (w - 1)) at 1 by lia; apply Z.pow_succ_r; lia).
  rewrite Z.mod_small by lia. lia. Qed.

(* the cast preserves "at or below the data" whenever the baseline is not below the dtype minimum *)
Theorem cast_u_safe w (b : Q) (y : Z) : 0 <= w -> (0 <= b)%Q -> (b <= inject_Z y)%Q -> y < 2 ^ w ->
  cast_u w b = qtrunc b /\ 0 <= cast_u w b <= y.
Proof. intros Hw H0 Hb Hy. pose proof (qtrunc_le b y Hb). pose proof (qtrunc_ge b 0 H0).
  unfold cast_u. rewrite wrap_u_id by lia. lia. Qed.

Theorem cast_s_safe w (b : Q) (y : Z) : 1 <= w -> (inject_Z (- 2 ^ (w - 1)) <= b)%Q -> (b <= inject_Z y)%Q -> y < 2 ^ (w - 1) ->
  cast_s w b = qtrunc b /\ - 2 ^ (w - 1) <= cast_s w b <= y.
Proof. intros Hw H0 Hb Hy. pose proof (qtrunc_le b y Hb). pose proof (qtrunc_ge b _ H0).
  unfold cast_s. rewrite wrap_s_id by lia. lia. Qed.

(* witnesses: the recorded findings *)
Lemma cast_u_refuted : exists (b : Q) (y : Z), (b <= inject_Z y)%Q /\ 0 <= y < 2 ^ 8 /\ y < cast_u 8 b.
Proof. exists (-1)%Q, 0. split; [vm_compute; discriminate|]. split; [split; vm_compute; [discriminate|reflexivity]|]. reflexivity. Qed.        (* uint8: -1.0 -> 255 *)

Lemma cast_s_refuted : exists (b : Q) (y : Z), (b <= inject_Z y)%Q /\ - 2 ^ 7 <= y < 2 ^ 7 /\ y < cast_s 8 b.
Proof. exists (-129)%Q, (-128). split; [vm_compute; discriminate|]. split; [split; vm_compute; [discriminate|reflexivity]|]. reflexivity. Qed.  (* int8: -129.0 -> 127 *)

(* a baseline above an integer data point by a rounding error: floor would still be safe, truncation is not *)
Lemma trunc_rounding_refuted : exists (b : Q) (y : Z),
  (inject_Z y < b)%Q /\ (b < inject_Z y + (1 # 1000000))%Q /\ Qfloor b <= y /\ y < qtrunc b.
Proof. exists (- (9999999 # 10000000))%Q, (-1). split; [reflexivity|]. split; [reflexivity|]. split; [vm_compute; discriminate|reflexivity]. Qed.
