(* C14 -- rubberband hands qhull the points (a*x+b, c*y+d) with a, c > 0 (both axes scaled to [0,1]).
   The orientation predicate only changes by the positive factor a*c, so qhull's contract on the scaled
   points is the contract on the original points, and the kept vertices are the lower hull of the data. *)
From Coq Require Import ZArith List Bool Lia QArith Lqa.
From PB Require Import lib.PySlice lib.Arr C14.Model C14.Reflect C14.Rubber C14.Hull.
Import ListNotations.

Section Affine.
  Variables x y : Z -> Q.
  Variables a b c d : Q.
  Hypothesis Ha : (0 < a)%Q.
  Hypothesis Hc : (0 < c)%Q.
  Definition X (i : Z) : Q := (a * x i + b)%Q.
  Definition Y (i : Z) : Q := (c * y i + d)%Q.

  Lemma cross_affine p q k : (cross X Y p q k == a * c * cross x y p q k)%Q.
  Proof. unfold cross, X, Y. ring. Qed.

  Lemma ac_pos : (0 < a * c)%Q.
  Proof. nra. Qed.

  Lemma cross_nonneg_iff p q k : (0 <= cross X Y p q k)%Q <-> (0 <= cross x y p q k)%Q.
  Proof. rewrite cross_affine. pose proof ac_pos. set (t := cross x y p q k). set (m := (a * c)%Q) in *.
    split; intros; nra. Qed.

  Lemma cross_pos_iff p q k : (0 < cross X Y p q k)%Q <-> (0 < cross x y p q k)%Q.
  Proof. rewrite cross_affine. pose proof ac_pos. set (t := cross x y p q k). set (m := (a * c)%Q) in *.
    split; intros; nra. Qed.

  Lemma X_lt_iff i j : (X i < X j)%Q <-> (x i < x j)%Q.
  Proof. unfold X. split; intros; nra. Qed.

  (* qhull sees the scaled points; the conclusions are about the data and about np.interp(x, x[mask], y[mask]) *)
  Theorem lower_hull_scaled (n : Z) (v : list Z) :
    (forall i j, (0 <= i)%Z -> (i < j)%Z -> (j < n)%Z -> (x i < x j)%Q) ->
    (forall u, In u v -> (0 <= u < n)%Z) -> NoDup v -> (3 <= lenZ v)%Z ->
    (forall p k, (0 <= k < n)%Z -> (0 <= cross X Y (vat v p) (vat v (p + 1)) k)%Q) ->
    (forall p, (0 < cross X Y (vat v p) (vat v (p + 1)) (vat v (p + 2)))%Q) ->
    rb_select v = map (w v) (zrange 0 (msteps v + 1)) /\ w v 0 = 0%Z /\ w v (msteps v) = (n - 1)%Z /\
    (forall j, (0 <= j < msteps v)%Z -> (w v j < w v (j + 1))%Z) /\
    (forall j k, (0 <= j < msteps v)%Z -> (0 <= k < n)%Z -> (seg x y (w v j) (w v (j + 1)) (x k) <= y k)%Q) /\
    (forall k, (0 <= k < n)%Z -> (interp x y (rb_select v) (x k) <= y k)%Q).
  Proof. intros H1 H2 H3 H4 H5 H6.
    assert (H5' : forall p k, (0 <= k < n)%Z -> (0 <= cross x y (vat v p) (vat v (p + 1)) k)%Q)
      by (intros p k Hk; apply cross_nonneg_iff, H5; auto).
    assert (H6' : forall p, (0 < cross x y (vat v p) (vat v (p + 1)) (vat v (p + 2)))%Q)
      by (intros p; apply cross_pos_iff, H6).
    destruct (lower_hull n x y v H1 H2 H3 H4 H5' H6') as (A & _ & B & C & D & E & _ & _ & _ & F).
    repeat split; auto. Qed.
End Affine.
