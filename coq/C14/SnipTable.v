(* C14 -- facts about the filter table GENERATED from pybaselines/smooth.py (gen/GenSnip.v):
   the weights of each of the four filters sum to one, offsets are well formed. *)
From Coq Require Import ZArith List Bool QArith Qcanon.
From PB Require Import C14.Model C14.Inst C14.Shift gen.GenSnip.
Import ListNotations.

Lemma snip_table_unit : Forall filt_unit snip_table.
Proof. repeat constructor; apply Qc_is_canon; vm_compute; reflexivity. Qed.

Lemma snip_table_orders : length snip_table = 4%nat.
Proof. reflexivity. Qed.

(* every offset fraction lies in [0, 1]: no window element is taken further than the half window *)
Definition term_wf (t : term) : bool := ((0 <=? onum t) && (onum t <=? oden t) && (0 <? oden t))%Z.
Lemma snip_table_wf : forallb (fun f => forallb term_wf (terms f) && (0 <? fden f)%Z) snip_table = true.
Proof. vm_compute. reflexivity. Qed.
