(* C14 -- range of the exact baselines: tophat / mor values lie between the smallest data value and the data,
   so for them the cast back to an integer dtype that holds the data can neither wrap nor exceed the data. *)
From Coq Require Import ZArith List Bool Lia ZifyBool QArith Qcanon.
From PB Require Import lib.PySlice lib.Arr C14.Model C14.Proofs C14.Reflect C14.Methods C14.Inst C14.Shift.
Import ListNotations.
Open Scope Z_scope.

Lemma on_list_sel {A} (op : Z -> (Z -> A) -> Z -> A) (y : list A) :
  (forall n f i, 0 < n -> 0 <= i < n -> exists j, 0 <= j < n /\ op n f i = f j) ->
  Forall (fun b => In b y) (on_list op y).
Proof. intros Hsel. destruct y as [|d y']; [constructor|]. set (y := d :: y').
  apply Forall_forall. intros b Hb. apply (In_nth _ _ d) in Hb. destruct Hb as [k [Hk E]].
  rewrite on_list_length in Hk.
  assert (Hi : 0 <= Z.of_nat k < lenZ y) by (unfold lenZ; lia).
  pose proof (on_list_nth op y d (Z.of_nat k) Hi) as E'.
  unfold nthZ at 1 in E'. rewrite Nat2Z.id in E'. rewrite E in E'.
  destruct (Hsel (lenZ y) (nthZ (hd d y) y) (Z.of_nat k)) as [j [Hj Ej]]; try lia.
  rewrite E', Ej. unfold nthZ. apply nth_In. unfold lenZ in Hj. lia. Qed.

Section Sel.
  Variable A : Type.
  Variable le : A -> A -> bool.
  Variable h : Z.

  Lemma erosion_l_sel y : Forall (fun b => In b y) (erosion_l le h y).
  Proof. unfold erosion_l. apply on_list_sel. intros n f i Hn Hi. unfold erosion1.
    apply (ero_sel A le Z (freeze1 n) (nb1 n h) (dom1 n)); auto.
    - intros; apply freeze1_ok; auto.
    - intros i0 j H0 Hj; eapply nb1_dom; eauto. Qed.

  Lemma dilation_l_sel y : Forall (fun b => In b y) (dilation_l le h y).
  Proof. unfold dilation_l. apply on_list_sel. intros n f i Hn Hi. unfold dilation1.
    apply (dil_sel A le Z (freeze1 n) (nb1 n h) (dom1 n)); auto.
    - intros; apply freeze1_ok; auto.
    - intros i0 j H0 Hj; eapply nb1_dom; eauto. Qed.
End Sel.

Lemma Forall_sub {A} (P : A -> Prop) (l y : list A) : Forall (fun b => In b y) l -> Forall P y -> Forall P l.
Proof. intros H Hy. rewrite Forall_forall in *. intros b Hb. apply Hy, H, Hb. Qed.

Lemma Forall_map2 {A} (P : A -> Prop) (f : A -> A -> A) : (forall a b, P a -> P b -> P (f a b)) ->
  forall x y, Forall P x -> Forall P y -> Forall P (map2 f x y).
Proof. intros Hf. induction x; intros [|b y] Hx Hy; simpl; try constructor.
  - inversion Hx; inversion Hy; subst; auto.
  - inversion Hx; inversion Hy; subst; apply IHx; auto. Qed.

Local Open Scope Qc_scope.

Lemma half_ge (m a b : Qc) : m <= a -> m <= b -> m <= Q2Qc (1 # 2) * (a + b).
Proof. intros Ha Hb.
  assert (E : Q2Qc (1 # 2) * (a + b) = m + Q2Qc (1 # 2) * ((a + - m) + (b + - m))).
  { transitivity ((Q2Qc (1 # 2) + Q2Qc (1 # 2)) * m + Q2Qc (1 # 2) * ((a + - m) + (b + - m))); [ring|].
    rewrite half_twice. ring. }
  rewrite E. apply Qcle_minus_iff.
  replace (m + Q2Qc (1 # 2) * (a + - m + (b + - m)) + - m) with (Q2Qc (1 # 2) * (a + - m + (b + - m))) by ring.
  apply Qcle_minus_iff in Ha. apply Qcle_minus_iff in Hb.
  assert (Hh : 0 <= Q2Qc (1 # 2)) by (unfold Qcle; simpl; unfold Qle; simpl; lia).
  assert (Hs : 0 <= a + - m + (b + - m)).
  { replace 0 with (0 + 0) by ring. apply Qcplus_le_compat; auto. }
  replace 0 with (0 * (a + - m + (b + - m))) by ring.
  apply Qcmult_le_compat_r; auto. Qed.

(* every lower bound of the data is a lower bound of the exact mor (and tophat) baseline *)
Theorem mor_ge_lower_bound (m : Qc) h y :
  Forall (fun v => Qc_leb m v = true) y -> Forall (fun v => Qc_leb m v = true) (mor Num_Qc h y).
Proof. intros Hy. unfold mor. simpl leb.
  set (op := opening_l Qc_leb h y).
  assert (Hop : Forall (fun v => Qc_leb m v = true) op)
    by (eapply Forall_sub; [apply opening_l_sel|exact Hy]).
  apply Forall_map2; auto.
  - intros a b Ha Hb. unfold omin. destruct (Qc_leb a b); auto.
  - unfold avg_opening, avg_of. simpl leb. apply Forall_map2.
    + intros a b Ha Hb. simpl. apply Qc_leb_iff. apply half_ge; apply Qc_leb_iff; auto.
    + eapply Forall_sub; [apply dilation_l_sel|exact Hop].
    + eapply Forall_sub; [apply erosion_l_sel|exact Hop]. Qed.

Theorem tophat_ge_lower_bound (m : Qc) h y :
  Forall (fun v => Qc_leb m v = true) y -> Forall (fun v => Qc_leb m v = true) (tophat Num_Qc h y).
Proof. intros Hy. unfold tophat. simpl leb. eapply Forall_sub; [apply opening_l_sel|exact Hy]. Qed.
