(* C14 -- the 1-D instance: SciPy's reflect extension gives a symmetric neighbourhood structure for
   every n >= 1 and every h >= 0 (windows larger than the data included); list-level theorems. *)
From Coq Require Import ZArith List Bool Lia ZifyBool.
From PB Require Import lib.PySlice lib.Arr C14.Model C14.Proofs.
Import ListNotations.
Open Scope Z_scope.

Lemma refl_range n x : 0 < n -> 0 <= reflect_index n x < n.
Proof. intros Hn. unfold reflect_index. pose proof (Z.mod_pos_bound x (2 * n)) as Hm.
  destruct (x mod (2 * n) <? n) eqn:E; lia. Qed.

Lemma refl_id n i : 0 <= i < n -> reflect_index n i = i.
Proof. intros Hi. unfold reflect_index. rewrite Z.mod_small by lia. destruct (i <? n) eqn:E; lia. Qed.

Lemma refl_period n x t : reflect_index n (x + t * (2 * n)) = reflect_index n x.
Proof. unfold reflect_index. rewrite Z_mod_plus_full. reflexivity. Qed.

Lemma refl_neg n x : 0 < n -> reflect_index n (- 1 - x) = reflect_index n x.
Proof. intros Hn. unfold reflect_index.
  pose proof (Z.mod_pos_bound x (2 * n)) as Hm.
  pose proof (Z.div_mod x (2 * n)) as Hd.
  set (m := x mod (2 * n)) in *. set (q := x / (2 * n)) in *. clearbody m q.
  replace (- 1 - x) with ((2 * n - 1 - m) + (- q - 1) * (2 * n)) by lia.
  rewrite Z_mod_plus_full. rewrite Z.mod_small by lia.
  destruct (m <? n) eqn:E1; destruct (2 * n - 1 - m <? n) eqn:E2; lia. Qed.

Lemma refl_cases n x : 0 < n -> exists t, x = reflect_index n x + t * (2 * n) \/ x = - 1 - reflect_index n x + t * (2 * n).
Proof. intros Hn. unfold reflect_index.
  pose proof (Z.mod_pos_bound x (2 * n)) as Hm.
  pose proof (Z.div_mod x (2 * n)) as Hd.
  set (m := x mod (2 * n)) in *. set (q := x / (2 * n)) in *. clearbody m q.
  destruct (m <? n) eqn:E.
  - exists q. left. lia.
  - exists (q + 1). right. lia. Qed.

Lemma nb1_In n h i j : In j (nb1 n h i) <-> exists k, - h <= k <= h /\ j = reflect_index n (i + k).
Proof. unfold nb1. rewrite in_map_iff. split.
  - intros [k [E Hk]]. apply zrange_In in Hk. exists k; split; [lia|auto].
  - intros [k [Hk E]]. exists k; split; auto. apply zrange_In. lia. Qed.

Lemma nb1_dom n h i j : 0 < n -> In j (nb1 n h i) -> 0 <= j < n.
Proof. intros Hn Hj. apply nb1_In in Hj. destruct Hj as [k [_ ->]]. apply refl_range; auto. Qed.

(* the reflected index of any window element is reached back from it by a symmetric offset *)
Lemma nb1_sym n h i j : 0 < n -> 0 <= i < n -> In j (nb1 n h i) -> In i (nb1 n h j).
Proof. intros Hn Hi Hj. apply nb1_In in Hj. destruct Hj as [k [Hk Ej]]. apply nb1_In.
  destruct (refl_cases n (i + k) Hn) as [t [E|E]]; rewrite <- Ej in E.
  - exists (- k). split; [lia|].
    replace (j + - k) with (i + (- t) * (2 * n)) by lia.
    rewrite refl_period. symmetry; apply refl_id; auto.
  - exists k. split; [lia|].
    replace (j + k) with ((- 1 - i) + t * (2 * n)) by lia.
    rewrite refl_period, refl_neg by auto. symmetry; apply refl_id; auto. Qed.

(* ---------- lists ---------- *)
Lemma nth_zrange lo n k d : (k < Z.to_nat n)%nat -> nth k (zrange lo n) d = lo + Z.of_nat k.
Proof. intros Hk. unfold zrange.
  rewrite (nth_indep _ d ((fun k => lo + Z.of_nat k) 0%nat)) by (rewrite map_length, seq_length; auto).
  rewrite (map_nth (fun k => lo + Z.of_nat k) (seq 0 (Z.to_nat n)) 0%nat k). rewrite seq_nth by auto. reflexivity. Qed.

Lemma zrange_length lo n : length (zrange lo n) = Z.to_nat n.
Proof. unfold zrange. rewrite map_length, seq_length. reflexivity. Qed.

Lemma tabZ_length {A} n (f : Z -> A) : length (tabZ n f) = Z.to_nat n.
Proof. unfold tabZ. rewrite map_length. apply zrange_length. Qed.

Lemma nth_tabZ {A} n (f : Z -> A) d i : 0 <= i < n -> nthZ d (tabZ n f) i = f i.
Proof. intros Hi. unfold nthZ, tabZ.
  rewrite (nth_indep _ d (f 0)) by (rewrite map_length, zrange_length; lia).
  rewrite (map_nth f (zrange 0 n) 0 (Z.to_nat i)). rewrite nth_zrange by lia. f_equal. lia. Qed.

Lemma freeze1_ok {A} n (f : Z -> A) i : 0 <= i < n -> freeze1 n f i = f i.
Proof. intros Hi. unfold freeze1. apply nth_tabZ; auto. Qed.

Lemma nthZ_indep {A} (d d' : A) l i : 0 <= i < lenZ l -> nthZ d l i = nthZ d' l i.
Proof. intros Hi. unfold nthZ, lenZ in *. apply nth_indep. lia. Qed.

Lemma on_list_length {A} op (l : list A) : length (on_list op l) = length l.
Proof. destruct l as [|d l]; [reflexivity|]. unfold on_list. rewrite tabZ_length. unfold lenZ. lia. Qed.

Lemma on_list_nth {A} op (l : list A) d i : 0 <= i < lenZ l ->
  nthZ d (on_list op l) i = op (lenZ l) (nthZ (hd d l) l) i.
Proof. intros Hi. destruct l as [|d0 l]; [unfold lenZ in Hi; simpl in Hi; lia|].
  unfold on_list. rewrite nth_tabZ by auto. reflexivity. Qed.

Lemma Forall2_nthZ {A B} (R : A -> B -> Prop) (l1 : list A) (l2 : list B) d1 d2 :
  length l1 = length l2 -> (forall i, 0 <= i < lenZ l1 -> R (nthZ d1 l1 i) (nthZ d2 l2 i)) -> Forall2 R l1 l2.
Proof. revert l2. induction l1 as [|a l1 IH]; intros [|b l2] Hl H; try discriminate; constructor.
  - apply (H 0). unfold lenZ; simpl; lia.
  - apply IH; [simpl in Hl; lia|]. intros i Hi.
    specialize (H (i + 1)). unfold nthZ, lenZ in *. simpl length in H.
    replace (Z.to_nat (i + 1)) with (S (Z.to_nat i)) in H by lia. simpl in H. apply H. lia. Qed.

Lemma list_eq_nthZ {A} (l1 l2 : list A) d :
  length l1 = length l2 -> (forall i, 0 <= i < lenZ l1 -> nthZ d l1 i = nthZ d l2 i) -> l1 = l2.
Proof. intros Hl H. apply (nth_ext l1 l2 d d); auto. intros k Hk.
  specialize (H (Z.of_nat k)). unfold nthZ, lenZ in H. rewrite Nat2Z.id in H. apply H. lia. Qed.

Section OneD.
  Variable A : Type.
  Variable le : A -> A -> bool.
  Hypothesis le_total : total le.
  Hypothesis le_trans : transitive le.
  Variable h : Z.

  Definition dom1 (n : Z) (i : Z) := 0 <= i < n.

  Lemma opening1_le n f i : 0 < n -> 0 <= i < n -> le (opening1 le n h f i) (f i) = true.
  Proof. intros Hn Hi. unfold opening1.
    apply (opening_le A le le_total le_trans Z (freeze1 n) (nb1 n h) (dom1 n)); auto.
    - intros; apply freeze1_ok; auto.
    - intros i0 j H0 Hj; eapply nb1_dom; eauto.
    - intros i0 j H0 Hj; apply nb1_sym; auto. Qed.

  Lemma closing1_ge n f i : 0 < n -> 0 <= i < n -> le (f i) (closing1 le n h f i) = true.
  Proof. intros Hn Hi. unfold closing1.
    apply (closing_ge A le le_total le_trans Z (freeze1 n) (nb1 n h) (dom1 n)); auto.
    - intros; apply freeze1_ok; auto.
    - intros i0 j H0 Hj; eapply nb1_dom; eauto.
    - intros i0 j H0 Hj; apply nb1_sym; auto. Qed.

  Lemma erosion1_le n f i : 0 < n -> 0 <= i < n -> le (erosion1 le n h f i) (f i) = true.
  Proof. intros Hn Hi. unfold erosion1.
    apply (ero_le A le le_total le_trans Z (freeze1 n) (nb1 n h) (dom1 n)); auto.
    intros; apply freeze1_ok; auto. Qed.

  Lemma dilation1_ge n f i : 0 < n -> 0 <= i < n -> le (f i) (dilation1 le n h f i) = true.
  Proof. intros Hn Hi. unfold dilation1.
    apply (dil_ge A le le_total le_trans Z (freeze1 n) (nb1 n h) (dom1 n)); auto.
    intros; apply freeze1_ok; auto. Qed.

  Lemma opening1_idem n f i : antisym le -> 0 < n -> 0 <= i < n ->
    opening1 le n h (opening1 le n h f) i = opening1 le n h f i.
  Proof. intros Ha Hn Hi. unfold opening1.
    apply (opening_idem A le le_total le_trans Z (freeze1 n) (nb1 n h) (dom1 n)); auto.
    - intros; apply freeze1_ok; auto.
    - intros i0 j H0 Hj; eapply nb1_dom; eauto.
    - intros i0 j H0 Hj; apply nb1_sym; auto. Qed.

  Lemma opening1_ext n f g i : 0 < n -> (forall j, 0 <= j < n -> f j = g j) -> 0 <= i < n ->
    opening1 le n h f i = opening1 le n h g i.
  Proof. intros Hn H Hi. unfold opening1.
    apply (opn_ext A le Z (freeze1 n) (nb1 n h) (dom1 n)); auto.
    - intros; apply freeze1_ok; auto.
    - intros i0 j H0 Hj; eapply nb1_dom; eauto. Qed.

  Lemma opening1_sel n f i : 0 < n -> 0 <= i < n -> exists j, 0 <= j < n /\ opening1 le n h f i = f j.
  Proof. intros Hn Hi. unfold opening1.
    apply (opening_sel A le Z (freeze1 n) (nb1 n h) (dom1 n)); auto.
    - intros; apply freeze1_ok; auto.
    - intros i0 j H0 Hj; eapply nb1_dom; eauto. Qed.
End OneD.
