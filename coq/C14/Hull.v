(* C14 -- rubberband: under qhull's contract (counter-clockwise, strictly convex polygon whose vertices
   are data points and which contains all data points; x strictly increasing) the kept cyclic sub-path
   from argmin to argmax is the LOWER hull: strictly increasing indices from 0 to n-1, every segment's
   line is at or below every data point, slopes strictly increase, and linear interpolation through the
   kept nodes (np.interp) is at or below the data at every point and equal to it at the nodes. *)
From Coq Require Import ZArith List Bool Lia ZifyBool QArith Lqa.
From PB Require Import lib.PySlice lib.Arr C14.Model C14.Reflect C14.Rubber.
Import ListNotations.
Open Scope Z_scope.

(* cyclic access to qhull's vertex list *)
Definition vat (v : list Z) (p : Z) : Z := nthZ 0 v (p mod lenZ v).

Lemma nth_skipn' {A} (d : A) : forall k l j, nth j (skipn k l) d = nth (k + j) l d.
Proof. induction k; intros l j; simpl; auto. destruct l; simpl; auto. destruct j; auto. Qed.

Lemma nth_firstn' {A} (d : A) : forall k l j, (j < k)%nat -> nth j (firstn k l) d = nth j l d.
Proof. induction k; intros l j H; [lia|]. destruct l; simpl; auto. destruct j; auto. apply IHk. lia. Qed.

Lemma rotate_nth v k j : 0 <= k < lenZ v -> 0 <= j < lenZ v -> nthZ 0 (rotate k v) j = vat v (k + j).
Proof. intros Hk Hj. unfold rotate, vat, nthZ. set (len := lenZ v) in *.
  assert (Hl : length v = Z.to_nat len) by (unfold len, lenZ; lia).
  destruct (Z_lt_dec (k + j) len) as [H|H].
  - rewrite Z.mod_small by lia. rewrite app_nth1 by (rewrite skipn_length; lia).
    rewrite nth_skipn'. f_equal. lia.
  - replace (k + j) with ((k + j - len) + 1 * len) by lia. rewrite Z_mod_plus_full, Z.mod_small by lia.
    rewrite app_nth2 by (rewrite skipn_length; lia). rewrite skipn_length.
    rewrite nth_firstn' by lia. f_equal. lia. Qed.

Lemma rb_path v : v <> [] ->
  rb_select v = map (fun j => vat v (argmin v + j)) (zrange 0 ((argmax v - argmin v) mod lenZ v + 1)).
Proof. intros Hv. rewrite (rb_select_rotation v Hv). cbv zeta.
  pose proof (argmin_range v Hv) as Hmn. pose proof (argmax_range v Hv) as Hmx.
  set (len := lenZ v) in *. set (mn := argmin v) in *. set (mx := argmax v) in *.
  pose proof (Z.mod_pos_bound (mx - mn) len) as Hm. set (m := (mx - mn) mod len) in *.
  assert (Hl : length v = Z.to_nat len) by (unfold len, lenZ; lia).
  assert (Hr : length (rotate mn v) = Z.to_nat len).
  { unfold rotate. rewrite app_length, skipn_length, firstn_length. lia. }
  apply (list_eq_nthZ _ _ 0).
  - rewrite firstn_length, Hr, map_length, zrange_length. lia.
  - intros i Hi. unfold lenZ in Hi. rewrite firstn_length, Hr in Hi.
    unfold nthZ at 1. rewrite nth_firstn' by lia. fold (nthZ 0 (rotate mn v) i).
    rewrite rotate_nth by (fold len; lia).
    symmetry. apply (nth_tabZ (m + 1) (fun j => vat v (mn + j)) 0 i). lia. Qed.

Lemma mod_shift_neq len p d : 0 < d < len -> p mod len <> (p + d) mod len.
Proof. intros Hd H. pose proof (Zminus_mod (p + d) p len) as E. rewrite <- H, Z.sub_diag in E.
  replace (p + d - p) with d in E by lia. rewrite Z.mod_small, Z.mod_0_l in E by lia. lia. Qed.

Local Open Scope Q_scope.
Lemma turn_left (xa ya xb yb xc yc xk yk : Q) : xb < xa -> xb < xc ->
  0 <= (xb - xa) * (yk - ya) - (yb - ya) * (xk - xa) ->
  0 <= (xc - xb) * (yk - yb) - (yc - yb) * (xk - xb) ->
  0 < (xb - xa) * (yc - ya) - (yb - ya) * (xc - xa) -> xb <= xk.
Proof. intros. nra. Qed.
Lemma turn_right (xa ya xb yb xc yc xk yk : Q) : xa < xb -> xc < xb ->
  0 <= (xb - xa) * (yk - ya) - (yb - ya) * (xk - xa) ->
  0 <= (xc - xb) * (yk - yb) - (yc - yb) * (xk - xb) ->
  0 < (xb - xa) * (yc - ya) - (yb - ya) * (xc - xa) -> xk <= xb.
Proof. intros. nra. Qed.
Local Close Scope Q_scope.

Section Hull.
  Variable n : Z.
  Variables x y : Z -> Q.
  Variable v : list Z.
  Notation len := (lenZ v).
  Notation at_ := (vat v).

  (* twice the signed area of the triangle (P_a, P_b, P_k): >= 0 iff P_k is on the left of / on a -> b *)
  Definition cross (a b k : Z) : Q := ((x b - x a) * (y k - y a) - (y b - y a) * (x k - x a))%Q.
  (* the line through two nodes, evaluated at abscissa t (np.interp between consecutive nodes) *)
  Definition seg (a b : Z) (t : Q) : Q := (y a + (y b - y a) * (t - x a) / (x b - x a))%Q.

  (* --- the data: x strictly increasing --- *)
  Hypothesis x_incr : forall i j, 0 <= i -> i < j -> j < n -> (x i < x j)%Q.
  (* --- qhull's contract on ConvexHull(column_stack((x, y))).vertices --- *)
  Hypothesis v_range : forall a, In a v -> 0 <= a < n.                    (* vertices are data points *)
  Hypothesis v_nodup : NoDup v.
  Hypothesis v_len : 3 <= len.                                            (* a proper polygon *)
  (* counter-clockwise and containing: every data point is on the left of (or on) every directed edge *)
  Hypothesis contain : forall p k, 0 <= k < n -> (0 <= cross (at_ p) (at_ (p + 1)) k)%Q.
  (* strictly convex: consecutive vertices make a strict left turn *)
  Hypothesis strict : forall p, (0 < cross (at_ p) (at_ (p + 1)) (at_ (p + 2)))%Q.

  Lemma v_ne : v <> [].
  Proof. intros E. rewrite E in v_len. unfold lenZ in v_len. simpl in v_len. lia. Qed.

  Lemma at_in p : In (at_ p) v.
  Proof. unfold vat, nthZ. apply nth_In. pose proof (Z.mod_pos_bound p len). unfold lenZ in *. lia. Qed.
  Lemma at_range p : 0 <= at_ p < n.
  Proof. apply v_range, at_in. Qed.
  Lemma at_inj p q : at_ p = at_ q -> p mod len = q mod len.
  Proof. unfold vat, nthZ. intros H.
    pose proof (Z.mod_pos_bound p len). pose proof (Z.mod_pos_bound q len).
    pose proof (proj1 (NoDup_nth v 0) v_nodup (Z.to_nat (p mod len)) (Z.to_nat (q mod len))) as E.
    unfold lenZ in *. specialize (E ltac:(lia) ltac:(lia) H). lia. Qed.
  Lemma at_shift_neq p d : 0 < d < len -> at_ p <> at_ (p + d).
  Proof. intros Hd H. apply at_inj in H. revert H. apply mod_shift_neq; auto. Qed.
  Lemma at_small p : 0 <= p < len -> at_ p = nthZ 0 v p.
  Proof. intros H. unfold vat. rewrite Z.mod_small by auto. reflexivity. Qed.

  Lemma x_lt a b : 0 <= a < n -> 0 <= b < n -> a < b -> (x a < x b)%Q.
  Proof. intros; apply x_incr; lia. Qed.
  Lemma x_le_idx a b : 0 <= a < n -> 0 <= b < n -> (x a <= x b)%Q -> a <= b.
  Proof. intros Ha Hb H. destruct (Z_le_gt_dec a b); auto.
    pose proof (x_lt b a Hb Ha ltac:(lia)). lra. Qed.

  Lemma left_turn p : at_ (p + 1) < at_ p -> at_ (p + 1) < at_ (p + 2) ->
    forall k, 0 <= k < n -> (x (at_ (p + 1)) <= x k)%Q.
  Proof. intros H1 H2 k Hk.
    pose proof (contain p k Hk) as C1. pose proof (contain (p + 1) k Hk) as C2. pose proof (strict p) as C3.
    replace (p + 1 + 1) with (p + 2) in C2 by lia. unfold cross in C1, C2, C3.
    pose proof (at_range p). pose proof (at_range (p + 1)). pose proof (at_range (p + 2)).
    apply (turn_left (x (at_ p)) (y (at_ p)) (x (at_ (p + 1))) (y (at_ (p + 1))) (x (at_ (p + 2))) (y (at_ (p + 2))) (x k) (y k));
      [apply x_lt; auto | apply x_lt; auto | exact C1 | exact C2 | exact C3]. Qed.

  Lemma right_turn p : at_ p < at_ (p + 1) -> at_ (p + 2) < at_ (p + 1) ->
    forall k, 0 <= k < n -> (x k <= x (at_ (p + 1)))%Q.
  Proof. intros H1 H2 k Hk.
    pose proof (contain p k Hk) as C1. pose proof (contain (p + 1) k Hk) as C2. pose proof (strict p) as C3.
    replace (p + 1 + 1) with (p + 2) in C2 by lia. unfold cross in C1, C2, C3.
    pose proof (at_range p). pose proof (at_range (p + 1)). pose proof (at_range (p + 2)).
    apply (turn_right (x (at_ p)) (y (at_ p)) (x (at_ (p + 1))) (y (at_ (p + 1))) (x (at_ (p + 2))) (y (at_ (p + 2))) (x k) (y k));
      [apply x_lt; auto | apply x_lt; auto | exact C1 | exact C2 | exact C3]. Qed.

  Notation mn := (argmin v).
  Notation mx := (argmax v).
  Definition msteps : Z := (mx - mn) mod len.
  Definition w (j : Z) : Z := at_ (mn + j).

  Lemma mn_range : 0 <= mn < len. Proof. apply argmin_range, v_ne. Qed.
  Lemma mx_range : 0 <= mx < len. Proof. apply argmax_range, v_ne. Qed.

  Lemma w0_min a : In a v -> w 0 <= a.
  Proof. intros Ha. unfold w. rewrite Z.add_0_r, at_small by apply mn_range. apply argmin_spec; auto. apply v_ne. Qed.
  Lemma wm_eq : w msteps = at_ mx.
  Proof. unfold w, msteps, vat. f_equal. rewrite Zplus_mod_idemp_r. f_equal. lia. Qed.
  Lemma wm_max a : In a v -> a <= w msteps.
  Proof. intros Ha. rewrite wm_eq, at_small by apply mx_range. apply argmax_spec; auto. apply v_ne. Qed.
  Lemma msteps_range : 0 <= msteps < len.
  Proof. apply Z.mod_pos_bound. lia. Qed.

  Lemma w0_lt_next : w 0 < at_ (mn + 1).
  Proof. pose proof (w0_min _ (at_in (mn + 1))). pose proof (at_shift_neq mn 1 ltac:(lia)).
    unfold w in *. rewrite Z.add_0_r in *. lia. Qed.
  Lemma w0_lt_prev : w 0 < at_ (mn - 1).
  Proof. pose proof (w0_min _ (at_in (mn - 1))). pose proof (at_shift_neq (mn - 1) 1 ltac:(lia)) as H1.
    replace (mn - 1 + 1) with mn in H1 by lia. unfold w in *. rewrite Z.add_0_r in *. lia. Qed.

  (* the smallest-index vertex is the leftmost data point, the largest-index vertex the rightmost *)
  Lemma w0_zero : w 0 = 0.
  Proof. pose proof w0_lt_next as H1. pose proof w0_lt_prev as H2. unfold w in *. rewrite Z.add_0_r in *.
    pose proof (left_turn (mn - 1)) as L. replace (mn - 1 + 1) with mn in L by lia.
    replace (mn - 1 + 2) with (mn + 1) in L by lia. specialize (L H2 H1).
    pose proof (at_range mn) as R. specialize (L 0 ltac:(lia)).
    apply x_le_idx in L; lia. Qed.

  Lemma msteps_pos : 0 < msteps.
  Proof. pose proof msteps_range as Hm. destruct (Z.eq_dec msteps 0) as [E|]; [|lia]. exfalso.
    pose proof wm_eq as H. rewrite E in H.
    pose proof (w0_min _ (at_in (mn + 1))) as A. pose proof (wm_max _ (at_in (mn + 1))) as B.
    rewrite E in B. pose proof w0_lt_next. lia. Qed.

  Lemma wm_gt_prev : at_ (mn + msteps - 1) < w msteps.
  Proof. pose proof (wm_max _ (at_in (mn + msteps - 1))). pose proof (at_shift_neq (mn + msteps - 1) 1 ltac:(lia)) as H1.
    replace (mn + msteps - 1 + 1) with (mn + msteps) in H1 by lia. unfold w in *. lia. Qed.
  Lemma wm_gt_next : at_ (mn + msteps + 1) < w msteps.
  Proof. pose proof (wm_max _ (at_in (mn + msteps + 1))). pose proof (at_shift_neq (mn + msteps) 1 ltac:(lia)) as H1.
    unfold w in *. lia. Qed.

  Lemma wm_last : w msteps = n - 1.
  Proof. pose proof wm_gt_prev as H1. pose proof wm_gt_next as H2. unfold w in *.
    pose proof (right_turn (mn + msteps - 1)) as L.
    replace (mn + msteps - 1 + 1) with (mn + msteps) in L by lia.
    replace (mn + msteps - 1 + 2) with (mn + msteps + 1) in L by lia. specialize (L H1 H2).
    pose proof (at_range (mn + msteps)) as R. specialize (L (n - 1) ltac:(lia)).
    apply x_le_idx in L; lia. Qed.

  (* indices (hence abscissae) strictly increase along the kept path *)
  Lemma w_mono_nat : forall k : nat, Z.of_nat k < msteps -> w (Z.of_nat k) < w (Z.of_nat k + 1).
  Proof. induction k as [|k IH]; intros Hk.
    - change (Z.of_nat 0) with 0. unfold w at 2. rewrite Z.add_assoc, Z.add_0_r. apply w0_lt_next.
    - specialize (IH ltac:(lia)). replace (Z.of_nat (S k)) with (Z.of_nat k + 1) by lia.
      set (j := Z.of_nat k) in *.
      destruct (Z_lt_ge_dec (w (j + 1)) (w (j + 1 + 1))) as [|Hge]; auto. exfalso.
      unfold w in *.
      pose proof (at_shift_neq (mn + (j + 1)) 1 ltac:(lia)) as Hn.
      replace (mn + (j + 1) + 1) with (mn + (j + 1 + 1)) in Hn by lia.
      pose proof (right_turn (mn + j)) as L.
      replace (mn + j + 1) with (mn + (j + 1)) in L by lia.
      replace (mn + j + 2) with (mn + (j + 1 + 1)) in L by lia.
      specialize (L IH ltac:(lia)).
      pose proof (at_range (mn + (j + 1))) as R. specialize (L (n - 1) ltac:(lia)).
      apply x_le_idx in L; try lia.
      pose proof wm_last as W. unfold w in W.
      assert (E : at_ (mn + (j + 1)) = at_ (mn + (j + 1) + (msteps - (j + 1)))).
      { replace (mn + (j + 1) + (msteps - (j + 1))) with (mn + msteps) by lia. lia. }
      pose proof msteps_range.
      revert E. apply at_shift_neq. lia. Qed.

  Lemma w_mono j : 0 <= j < msteps -> w j < w (j + 1).
  Proof. intros Hj. pose proof (w_mono_nat (Z.to_nat j)) as H. rewrite Z2Nat.id in H by lia. apply H. lia. Qed.

  Lemma w_range j : 0 <= w j < n.
  Proof. apply at_range. Qed.

  Lemma w_mono_le : forall d : nat, forall j, 0 <= j -> j + Z.of_nat d <= msteps -> w j <= w (j + Z.of_nat d).
  Proof. induction d as [|d IH]; intros j Hj Hd.
    - rewrite Z.add_0_r. lia.
    - specialize (IH j Hj ltac:(lia)). pose proof (w_mono (j + Z.of_nat d) ltac:(lia)).
      replace (j + Z.of_nat (S d)) with (j + Z.of_nat d + 1) by lia. lia. Qed.

  (* every data index lies between two consecutive kept nodes *)
  Lemma w_cover : forall d : nat, forall k, Z.of_nat d <= msteps -> 0 < Z.of_nat d -> w 0 <= k <= w (Z.of_nat d) ->
    exists j, 0 <= j < Z.of_nat d /\ w j <= k <= w (j + 1).
  Proof. induction d as [|d IH]; intros k Hd Hp Hk; [lia|].
    destruct (Z_le_gt_dec (w (Z.of_nat d)) k) as [Hge|Hlt].
    - exists (Z.of_nat d). replace (Z.of_nat d + 1) with (Z.of_nat (S d)) by lia. lia.
    - destruct d as [|d']; [change (Z.of_nat 0) with 0 in Hlt; lia|].
      destruct (IH k ltac:(lia) ltac:(lia) ltac:(lia)) as [j [Hj Hw]]. exists j. lia. Qed.

  (* --- the lower-hull statements --- *)
  Theorem seg_below j k : 0 <= j < msteps -> 0 <= k < n -> (seg (w j) (w (j + 1)) (x k) <= y k)%Q.
  Proof. intros Hj Hk. pose proof (w_mono j Hj) as Hm.
    pose proof (x_lt _ _ (w_range j) (w_range (j + 1)) Hm) as Hx.
    pose proof (contain (mn + j) k Hk) as C. replace (mn + j + 1) with (mn + (j + 1)) in C by lia.
    fold (w j) (w (j + 1)) in C. unfold cross in C. unfold seg.
    set (a := w j) in *. set (b := w (j + 1)) in *.
    assert (D : ((y b - y a) * (x k - x a) / (x b - x a) <= y k - y a)%Q).
    { apply Qle_shift_div_r; [lra|]. lra. }
    lra. Qed.

  Theorem seg_touch a b : (x a < x b)%Q -> (seg a b (x a) == y a)%Q /\ (seg a b (x b) == y b)%Q.
  Proof. intros H. unfold seg. split; field; lra. Qed.

  (* convexity: slopes strictly increase from one segment to the next (cross-multiplied, all
     denominators x(w(j+1)) - x(w j) are positive by w_mono) *)
  Theorem slopes_increase j : 0 <= j -> j + 2 <= msteps ->
    ((y (w (j + 1)) - y (w j)) * (x (w (j + 2)) - x (w (j + 1))) <
     (y (w (j + 2)) - y (w (j + 1))) * (x (w (j + 1)) - x (w j)))%Q.
  Proof. intros Hj Hm. pose proof (strict (mn + j)) as S.
    replace (mn + j + 1) with (mn + (j + 1)) in S by lia. replace (mn + j + 2) with (mn + (j + 2)) in S by lia.
    fold (w j) (w (j + 1)) (w (j + 2)) in S. unfold cross in S. lra. Qed.

  Theorem path_is_w : rb_select v = map w (zrange 0 (msteps + 1)).
  Proof. apply rb_path, v_ne. Qed.

  (* np.interp(x, x[nodes], y[nodes]) for abscissae inside the node range *)
  Fixpoint interp (nodes : list Z) (t : Q) : Q :=
    match nodes with
    | [] => 0%Q
    | a :: rest =>
        match rest with
        | [] => y a
        | b :: _ => if Qle_bool t (x b) then seg a b t else interp rest t
        end
    end.

  Lemma interp_cons2 a b r t : interp (a :: b :: r) t = if Qle_bool t (x b) then seg a b t else interp (b :: r) t.
  Proof. reflexivity. Qed.

  Lemma zrange_cons lo cnt : 0 < cnt -> zrange lo cnt = lo :: zrange (lo + 1) (cnt - 1).
  Proof. intros H. unfold zrange. replace (Z.to_nat cnt) with (S (Z.to_nat (cnt - 1))) by lia.
    simpl seq. simpl map. f_equal; [lia|]. rewrite <- seq_shift, map_map. apply map_ext. intros; lia. Qed.

  Lemma interp_below_from : forall d : nat, forall j k, 0 <= j -> j + Z.of_nat d = msteps -> w j <= k < n ->
    (interp (map w (zrange j (Z.of_nat d + 1))) (x k) <= y k)%Q.
  Proof. induction d as [|d IH]; intros j k Hj Hd Hk.
    - change (Z.of_nat 0 + 1) with 1. rewrite zrange_cons by lia. simpl.
      assert (k = w j). { pose proof wm_last. replace j with msteps in * by lia. lia. }
      subst k. lra.
    - rewrite zrange_cons by lia. replace (Z.of_nat (S d) + 1 - 1) with (Z.of_nat d + 1) by lia.
      assert (EL : zrange (j + 1) (Z.of_nat d + 1) = (j + 1) :: zrange (j + 1 + 1) (Z.of_nat d + 1 - 1))
        by (apply zrange_cons; lia).
      pose proof (w_range j). pose proof (w_range (j + 1)).
      destruct (Qle_bool (x k) (x (w (j + 1)))) eqn:E.
      + rewrite EL. simpl map. rewrite interp_cons2, E. apply seg_below; lia.
      + assert (Hgt : w (j + 1) <= k).
        { assert (~ (x k <= x (w (j + 1)))%Q) as Hn by (rewrite <- Qle_bool_iff; congruence).
          destruct (Z_le_gt_dec (w (j + 1)) k) as [|Hlt]; auto. exfalso. apply Hn.
          apply Qlt_le_weak, x_lt; lia. }
        pose proof (IH (j + 1) k ltac:(lia) ltac:(lia) ltac:(lia)) as G.
        rewrite EL in *. simpl map in *. rewrite interp_cons2, E. exact G. Qed.

  (* the rubberband baseline (linear interpolation through the kept vertices) never exceeds the data *)
  Theorem interp_below k : 0 <= k < n -> (interp (rb_select v) (x k) <= y k)%Q.
  Proof. intros Hk. rewrite path_is_w. pose proof msteps_range.
    replace (msteps + 1) with (Z.of_nat (Z.to_nat msteps) + 1) by lia.
    apply interp_below_from; try lia. rewrite w0_zero. lia. Qed.

  (* packaged statement *)
  Theorem lower_hull :
    rb_select v = map w (zrange 0 (msteps + 1)) /\ 0 < msteps /\ w 0 = 0 /\ w msteps = n - 1 /\
    (forall j, 0 <= j < msteps -> w j < w (j + 1)) /\
    (forall j k, 0 <= j < msteps -> 0 <= k < n -> (seg (w j) (w (j + 1)) (x k) <= y k)%Q) /\
    (forall k, 0 <= k < n -> exists j, 0 <= j < msteps /\ w j <= k <= w (j + 1)) /\
    (forall j, 0 <= j -> j + 2 <= msteps ->
       ((y (w (j + 1)) - y (w j)) * (x (w (j + 2)) - x (w (j + 1))) <
        (y (w (j + 2)) - y (w (j + 1))) * (x (w (j + 1)) - x (w j)))%Q) /\
    (forall a b, (x a < x b)%Q -> (seg a b (x a) == y a)%Q /\ (seg a b (x b) == y b)%Q) /\
    (forall k, 0 <= k < n -> (interp (rb_select v) (x k) <= y k)%Q).
  Proof. pose proof msteps_pos as Hp. pose proof msteps_range as Hr.
    repeat split.
    - apply path_is_w.
    - exact Hp.
    - apply w0_zero.
    - apply wm_last.
    - apply w_mono; auto.
    - apply seg_below; auto.
    - intros k Hk. pose proof (w_cover (Z.to_nat msteps) k) as C. rewrite Z2Nat.id in C by lia.
      apply C; try lia. rewrite w0_zero, wm_last. lia.
    - apply slopes_increase; auto.
    - apply (proj1 (seg_touch a b H)).
    - apply (proj2 (seg_touch a b H)).
    - apply interp_below; auto.
  Qed.
End Hull.

(* the contract is satisfiable: the quadrilateral (0,1) (1,0) (2,2) (3,1), listed counter-clockwise from vertex 1 *)
Lemma contract_example :
  let n := 4 in let x := fun i => inject_Z i in let y := fun i => inject_Z (nthZ 0 [1; 0; 2; 1] i) in
  let v := [1; 3; 2; 0] in
  (forall i j, 0 <= i -> i < j -> j < n -> (x i < x j)%Q) /\
  (forall a, In a v -> 0 <= a < n) /\ NoDup v /\ 3 <= lenZ v /\
  (forall p k, 0 <= k < n -> (0 <= cross x y (vat v p) (vat v (p + 1)) k)%Q) /\
  (forall p, (0 < cross x y (vat v p) (vat v (p + 1)) (vat v (p + 2)))%Q) /\
  rb_select v = [0; 1; 3].
Proof. cbv zeta.
  assert (Hv : forall p, vat [1; 3; 2; 0] p = nthZ 0 [1; 3; 2; 0] (p mod 4)) by reflexivity.
  assert (Hm : forall p, let r := p mod 4 in (r = 0 \/ r = 1 \/ r = 2 \/ r = 3) /\
                         (p + 1) mod 4 = (r + 1) mod 4 /\ (p + 2) mod 4 = (r + 2) mod 4).
  { intros p r. pose proof (Z.mod_pos_bound p 4 ltac:(lia)). unfold r. split; [lia|].
    split; [rewrite <- (Zplus_mod_idemp_l p 1 4)|rewrite <- (Zplus_mod_idemp_l p 2 4)]; reflexivity. }
  split; [intros i j _ H _; rewrite <- Zlt_Qlt; exact H|].
  split; [simpl In; intros a H; intuition lia|].
  split; [repeat constructor; simpl; intuition lia|].
  split; [unfold lenZ; simpl; lia|].
  split; [|split].
  - intros p k Hk. rewrite !Hv. destruct (Hm p) as [Hr [E1 _]]. rewrite E1.
    assert (Hkk : k = 0 \/ k = 1 \/ k = 2 \/ k = 3) by lia.
    destruct Hr as [-> | [-> | [-> | ->]]]; destruct Hkk as [-> | [-> | [-> | ->]]]; vm_compute; discriminate.
  - intros p. rewrite !Hv. destruct (Hm p) as [Hr [E1 E2]]. rewrite E1, E2.
    destruct Hr as [-> | [-> | [-> | ->]]]; vm_compute; reflexivity.
  - reflexivity.
Qed.
