(* C14 -- rubberband: the kept vertices are the cyclic sub-path of qhull's vertex cycle that starts at
   the position of the smallest index and ends at the position of the largest index. *)
From Coq Require Import ZArith List Bool Lia ZifyBool.
From PB Require Import lib.PySlice lib.Arr C14.Model.
Import ListNotations.
Open Scope Z_scope.

Lemma arg_best_range better v : forall pos best bpos, 0 <= bpos < pos ->
  0 <= arg_best better v pos best bpos < pos + lenZ v.
Proof. induction v as [|x v IH]; intros pos best bpos H; simpl.
  - unfold lenZ; simpl; lia.
  - assert (E : lenZ (x :: v) = lenZ v + 1) by (unfold lenZ; simpl length; lia). rewrite E.
    destruct (better x best).
    + specialize (IH (pos + 1) x pos). lia.
    + specialize (IH (pos + 1) best bpos). lia. Qed.

Lemma argmin_range v : v <> [] -> 0 <= argmin v < lenZ v.
Proof. destruct v as [|x v]; [congruence|]. intros _. unfold argmin.
  pose proof (arg_best_range Z.ltb v 1 x 0). unfold lenZ in *. simpl length. lia. Qed.
Lemma argmax_range v : v <> [] -> 0 <= argmax v < lenZ v.
Proof. destruct v as [|x v]; [congruence|]. intros _. unfold argmax.
  pose proof (arg_best_range Z.gtb v 1 x 0). unfold lenZ in *. simpl length. lia. Qed.

Definition rotate {A} (k : Z) (v : list A) : list A := skipn (Z.to_nat k) v ++ firstn (Z.to_nat k) v.

Theorem rb_select_rotation v : v <> [] ->
  let n := lenZ v in let mn := argmin v in let mx := argmax v in
  rb_select v = firstn (Z.to_nat ((mx - mn) mod n + 1)) (rotate mn v).
Proof. intros Hv. cbv zeta. unfold rb_select, rb_select_off, rotate.
  pose proof (argmin_range v Hv) as Hmn. pose proof (argmax_range v Hv) as Hmx.
  set (n := lenZ v) in *. set (mn := argmin v) in *. set (mx := argmax v) in *.
  assert (Hlen : length v = Z.to_nat n) by (unfold n, lenZ; lia).
  clearbody mn mx.
  assert (Hsk : length (skipn (Z.to_nat mn) v) = Z.to_nat (n - mn)) by (rewrite skipn_length; lia).
  destruct (mn <? mx + 1) eqn:E.
  - rewrite Z.mod_small by lia.
    unfold pyslice, sl_start, sl_stop, clamp. fold n.
    destruct (mn <? 0) eqn:E1; [lia|]. destruct (mx + 1 <? 0) eqn:E2; [lia|].
    rewrite firstn_app. rewrite Hsk.
    replace (Z.to_nat (mx - mn + 1) - Z.to_nat (n - mn))%nat with 0%nat by lia.
    simpl firstn at 2. rewrite app_nil_r.
    replace (Z.min mn n) with mn by lia. replace (Z.min (mx + 1) n) with (mx + 1) by lia. f_equal; lia.
  - replace ((mx - mn) mod n) with (mx - mn + n).
    2:{ rewrite <- (Z_mod_plus_full (mx - mn) 1 n). rewrite Z.mod_small by lia. lia. }
    unfold pyslice, sl_start, sl_stop, clamp. fold n.
    destruct (mn <? 0) eqn:E1; [lia|]. destruct (mx + 1 <? 0) eqn:E2; [lia|].
    rewrite firstn_app. rewrite Hsk. f_equal.
    + replace (Z.min mn n) with mn by lia. rewrite !firstn_all2 by lia. reflexivity.
    + simpl skipn. rewrite firstn_firstn. replace (Z.min (mx + 1) n) with (mx + 1) by lia. f_equal. lia. Qed.

(* ---------- argmin / argmax return the position of a smallest / largest entry ---------- *)
Definition valat (v : list Z) (pos best bpos p : Z) : Z := if p =? bpos then best else nthZ 0 v (p - pos).

Lemma arg_best_pos better v : forall pos best bpos, bpos < pos ->
  arg_best better v pos best bpos = bpos \/ pos <= arg_best better v pos best bpos.
Proof. induction v as [|x v IH]; intros pos best bpos H; simpl; auto.
  destruct (better x best).
  - destruct (IH (pos + 1) x pos); lia.
  - destruct (IH (pos + 1) best bpos); lia. Qed.

Lemma nthZ_cons (x : Z) v k : 1 <= k -> nthZ 0 (x :: v) k = nthZ 0 v (k - 1).
Proof. intros Hk. unfold nthZ. replace (Z.to_nat k) with (S (Z.to_nat (k - 1))) by lia. reflexivity. Qed.

Section ArgBest.
  Variable better : Z -> Z -> bool.
  Variable R : Z -> Z -> Prop.
  Hypothesis Rrefl : forall a, R a a.
  Hypothesis Rtrans : forall a b c, R a b -> R b c -> R a c.
  Hypothesis better_true : forall a b, better a b = true -> R a b.
  Hypothesis better_false : forall a b, better a b = false -> R b a.

  Lemma arg_best_spec v : forall pos best bpos, 0 <= bpos < pos ->
    let p := arg_best better v pos best bpos in
    R (valat v pos best bpos p) best /\ forall x, In x v -> R (valat v pos best bpos p) x.
  Proof. induction v as [|x v IH]; intros pos best bpos H; simpl.
    - unfold valat. rewrite Z.eqb_refl. split; auto.
    - destruct (better x best) eqn:E.
      + destruct (IH (pos + 1) x pos) as [H1 H2]; [lia|].
        destruct (arg_best_pos better v (pos + 1) x pos) as [Hp|Hp]; [lia| |].
        * set (p := arg_best better v (pos + 1) x pos) in *.
          assert (Ev : valat (x :: v) pos best bpos p = x).
          { unfold valat. destruct (p =? bpos) eqn:E1; [lia|]. rewrite Hp, Z.sub_diag. reflexivity. }
          rewrite Ev. split; [apply better_true; auto|]. intros y [<-|Hy]; auto.
          unfold valat in H2. rewrite Hp, Z.eqb_refl in H2. auto.
        * set (p := arg_best better v (pos + 1) x pos) in *.
          assert (Ev : valat (x :: v) pos best bpos p = valat v (pos + 1) x pos p).
          { unfold valat. destruct (p =? bpos) eqn:E1; [lia|]. destruct (p =? pos) eqn:E2; [lia|].
            rewrite nthZ_cons by lia. f_equal. lia. }
          rewrite Ev. split; [eapply Rtrans; [exact H1|apply better_true; auto]|].
          intros y [<-|Hy]; auto.
      + destruct (IH (pos + 1) best bpos) as [H1 H2]; [lia|].
        set (p := arg_best better v (pos + 1) best bpos) in *.
        assert (Ev : valat (x :: v) pos best bpos p = valat v (pos + 1) best bpos p).
        { unfold valat. destruct (p =? bpos) eqn:E1; auto.
          destruct (arg_best_pos better v (pos + 1) best bpos) as [Hp|Hp]; [lia|fold p in Hp; lia|].
          fold p in Hp. rewrite nthZ_cons by lia. f_equal. lia. }
        rewrite Ev. split; auto. intros y [<-|Hy]; auto.
        eapply Rtrans; [exact H1|apply better_false; auto]. Qed.
End ArgBest.

Theorem argmin_spec v : v <> [] -> forall x, In x v -> nthZ 0 v (argmin v) <= x.
Proof. destruct v as [|a v]; [congruence|]. intros _ x Hx. unfold argmin.
  destruct (arg_best_spec Z.ltb Z.le Z.le_refl Z.le_trans) with (v := v) (pos := 1) (best := a) (bpos := 0) as [H1 H2];
    try (intros; lia).
  set (p := arg_best Z.ltb v 1 a 0) in *.
  assert (Ev : nthZ 0 (a :: v) p = valat v 1 a 0 p).
  { unfold valat. destruct (p =? 0) eqn:E; [replace p with 0 by lia; reflexivity|].
    destruct (arg_best_pos Z.ltb v 1 a 0) as [Hp|Hp]; [lia|fold p in Hp; lia|]. fold p in Hp.
    apply nthZ_cons; auto. }
  rewrite Ev. destruct Hx as [<-|Hx]; auto. Qed.

Theorem argmax_spec v : v <> [] -> forall x, In x v -> x <= nthZ 0 v (argmax v).
Proof. destruct v as [|a v]; [congruence|]. intros _ x Hx. unfold argmax.
  destruct (arg_best_spec Z.gtb Z.ge) with (v := v) (pos := 1) (best := a) (bpos := 0) as [H1 H2];
    try (intros; lia).
  set (p := arg_best Z.gtb v 1 a 0) in *.
  assert (Ev : nthZ 0 (a :: v) p = valat v 1 a 0 p).
  { unfold valat. destruct (p =? 0) eqn:E; [replace p with 0 by lia; reflexivity|].
    destruct (arg_best_pos Z.gtb v 1 a 0) as [Hp|Hp]; [lia|fold p in Hp; lia|]. fold p in Hp.
    apply nthZ_cons; auto. }
  rewrite Ev. destruct Hx as [<-|Hx]; [lia|]. specialize (H2 x Hx). lia. Qed.
