(* C14 -- instances of the scalar interface: integers (exact min/max correspondence with
   scipy.ndimage) and canonical rationals Qc (Leibniz equality, field) for the shift statements. *)
From Coq Require Import ZArith List Bool Lia ZifyBool QArith Qcanon.
From PB Require Import C14.Model C14.Proofs.
Open Scope Z_scope.

Definition Num_Z : Num := {|
  T := Z; leb := Z.leb; ltb := Z.ltb; add := Z.add; mul := Z.mul; div := Z.div;
  halve := fun x => x / 2; of_Z := fun z => z
|}.

Lemma Zle_total : total Z.leb.      Proof. intros a b. lia. Qed.
Lemma Zle_trans : transitive Z.leb. Proof. intros a b c. lia. Qed.
Lemma Zle_antisym : antisym Z.leb.  Proof. intros a b. lia. Qed.
Lemma Zlt_le : forall a b, Z.ltb a b = true -> Z.leb a b = true. Proof. intros a b. lia. Qed.

Definition Qc_leb (a b : Qc) : bool := Qle_bool (this a) (this b).
Definition Qc_ltb (a b : Qc) : bool := negb (Qle_bool (this b) (this a)).
Definition Qc_of_Z (z : Z) : Qc := Q2Qc (inject_Z z).

Definition Num_Qc : Num := {|
  T := Qc; leb := Qc_leb; ltb := Qc_ltb; add := Qcplus; mul := Qcmult; div := Qcdiv;
  halve := fun x => Qcmult (Q2Qc (1 # 2)) x; of_Z := Qc_of_Z
|}.

Lemma Qc_leb_iff a b : Qc_leb a b = true <-> (a <= b)%Qc.
Proof. unfold Qc_leb, Qcle. apply Qle_bool_iff. Qed.
Lemma Qc_ltb_iff a b : Qc_ltb a b = true <-> (a < b)%Qc.
Proof. unfold Qc_ltb, Qclt. rewrite negb_true_iff. split.
  - intros H. apply Qnot_le_lt. intros H'. apply Qle_bool_iff in H'. congruence.
  - intros H. destruct (Qle_bool b a) eqn:E; auto. apply Qle_bool_iff in E. apply Qle_not_lt in E. contradiction. Qed.

Lemma Qcle_total : total Qc_leb.
Proof. intros a b. rewrite !Qc_leb_iff. destruct (Qclt_le_dec a b) as [H|H]; [left; apply Qclt_le_weak|right]; auto. Qed.
Lemma Qcle_trans' : transitive Qc_leb.
Proof. intros a b c. rewrite !Qc_leb_iff. apply Qcle_trans. Qed.
Lemma Qcle_antisym' : antisym Qc_leb.
Proof. intros a b. rewrite !Qc_leb_iff. apply Qcle_antisym. Qed.
Lemma Qclt_le' : forall a b, Qc_ltb a b = true -> Qc_leb a b = true.
Proof. intros a b. rewrite Qc_leb_iff, Qc_ltb_iff. apply Qclt_le_weak. Qed.
