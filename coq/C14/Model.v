(* C14 -- executable model of the morphological / snip / rubberband logic.  MODELS ONLY (no proofs).

   * flat grey erosion / dilation / opening / closing as scipy.ndimage computes them for the calls
     pybaselines makes (morphological.py: grey_opening(y, [2*half_window+1]) etc.: size = odd window,
     origin 0, mode 'reflect'), written over an ABSTRACT neighbourhood structure so that the 1-D
     operators (index Z, window 2h+1) and the 2-D ones (index Z*Z, window (2hr+1) x (2hc+1)) are the
     same definitions;
   * tophat, mor, imor, _avg_opening (morphological.py 136-239, 533-580, 832-860; two_d/...);
   * snip exactly as coded in smooth.py 180-266 on Python lists with NumPy slice semantics
     (lib/PySlice.v), parameterised by the filter table that tools/gen_c14.py extracts from the source;
   * the vertex selection of rubberband (classification.py 935-959).

   Scalars are abstract ([Num]); instances: Z, Qc (C14/Inst.v) and binary64 floats (C14/Float.v). *)
From Coq Require Import ZArith List Bool.
From PB Require Import lib.PySlice lib.Arr.
Import ListNotations.
Open Scope Z_scope.

Record Num := {
  T : Type;
  leb : T -> T -> bool;          (* <= *)
  ltb : T -> T -> bool;          (* <  *)
  add : T -> T -> T;
  mul : T -> T -> T;
  div : T -> T -> T;
  halve : T -> T;                (* 0.5 * x *)
  of_Z : Z -> T
}.

(* ------------------------------------------------------------------------------------------ *)
(* generic helpers *)

Definition lenZ {A} (l : list A) : Z := Z.of_nat (length l).
Definition nthZ {A} (d : A) (l : list A) (i : Z) : A := nth (Z.to_nat i) l d.
Definition tabZ {A} (n : Z) (f : Z -> A) : list A := map f (zrange 0 n).

Fixpoint map2 {A B C} (f : A -> B -> C) (x : list A) (y : list B) : list C :=
  match x, y with
  | a :: x', b :: y' => f a b :: map2 f x' y'
  | _, _ => []
  end.

(* a[lo:hi] (step 1) and  a[lo:lo+len v] = v  *)
Definition pyslice {A} (l : list A) (a b : option Z) : list A :=
  let n := lenZ l in
  let s := sl_start n a in
  let e := sl_stop n b in
  firstn (Z.to_nat (e - s)) (skipn (Z.to_nat s) l).

(* a[s : s + len v] = v  for 0 <= s (NumPy requires len v = the slice length; the snip code always
   assigns an array computed from that very slice) *)
Fixpoint overlay {A} (s : nat) (v : list A) (l : list A) : list A :=
  match l with
  | [] => []
  | x :: l' =>
      match s with
      | S s' => x :: overlay s' v l'
      | O => match v with
             | [] => l
             | y :: v' => y :: overlay O v' l'
             end
      end
  end.
Definition assign_at {A} (l : list A) (a : option Z) (v : list A) : list A :=
  overlay (Z.to_nat (sl_start (lenZ l) a)) v l.

(* ------------------------------------------------------------------------------------------ *)
(* order-only part: min / max over a neighbourhood *)

Section Order.
  Variable A : Type.
  Variable le : A -> A -> bool.

  Definition omin (a b : A) : A := if le a b then a else b.
  Definition omax (a b : A) : A := if le a b then b else a.

  Section Nb.
    Variable I : Type.
    Variable fz : (I -> A) -> I -> A.      (* materialisation ("freeze"): identity on the domain *)
    Variable nb : I -> list I.             (* window of i after boundary extension; contains i *)

    Definition wmin (f : I -> A) (i : I) : A := fold_left (fun a j => omin a (f j)) (nb i) (f i).
    Definition wmax (f : I -> A) (i : I) : A := fold_left (fun a j => omax a (f j)) (nb i) (f i).
    Definition erosion (f : I -> A) : I -> A := fz (wmin f).
    Definition dilation (f : I -> A) : I -> A := fz (wmax f).
    (* scipy: grey_opening = grey_dilation(grey_erosion(.)), grey_closing = erosion(dilation(.)) *)
    Definition opening (f : I -> A) : I -> A := dilation (erosion f).
    Definition closing (f : I -> A) : I -> A := erosion (dilation f).
  End Nb.
End Order.

(* ------------------------------------------------------------------------------------------ *)
(* 1-D: scipy's 'reflect' extension  (d c b a | a b c d | d c b a), period 2n, any distance *)

Definition reflect_index (n i : Z) : Z :=
  let m := i mod (2 * n) in if m <? n then m else 2 * n - 1 - m.

Definition nb1 (n h i : Z) : list Z := map (fun k => reflect_index n (i + k)) (zrange (- h) (2 * h + 1)).

Definition freeze1 {A} (n : Z) (f : Z -> A) : Z -> A :=
  let l := tabZ n f in
  let d := f 0 in
  fun i => nthZ d l i.

Definition erosion1 {A} (le : A -> A -> bool) (n h : Z) := erosion A le Z (freeze1 n) (nb1 n h).
Definition dilation1 {A} (le : A -> A -> bool) (n h : Z) := dilation A le Z (freeze1 n) (nb1 n h).
Definition opening1 {A} (le : A -> A -> bool) (n h : Z) := opening A le Z (freeze1 n) (nb1 n h).
Definition closing1 {A} (le : A -> A -> bool) (n h : Z) := closing A le Z (freeze1 n) (nb1 n h).

(* list level *)
Definition on_list {A} (op : Z -> (Z -> A) -> Z -> A) (l : list A) : list A :=
  match l with
  | [] => []
  | d :: _ => tabZ (lenZ l) (op (lenZ l) (nthZ d l))
  end.

Definition erosion_l {A} le (h : Z) (l : list A) := on_list (fun n => erosion1 le n h) l.
Definition dilation_l {A} le (h : Z) (l : list A) := on_list (fun n => dilation1 le n h) l.
Definition opening_l {A} le (h : Z) (l : list A) := on_list (fun n => opening1 le n h) l.
Definition closing_l {A} le (h : Z) (l : list A) := on_list (fun n => closing1 le n h) l.

(* ------------------------------------------------------------------------------------------ *)
(* 2-D: rectangular window (2hr+1) x (2hc+1), reflect on both axes; arrays are row-major lists *)

Definition nb2 (nr nc hr hc : Z) (ij : Z * Z) : list (Z * Z) :=
  list_prod (nb1 nr hr (fst ij)) (nb1 nc hc (snd ij)).

Definition freeze2 {A} (nr nc : Z) (f : Z * Z -> A) : Z * Z -> A :=
  let l := tabZ (nr * nc) (fun k => f (k / nc, k mod nc)) in
  let d := f (0, 0) in
  fun ij => nthZ d l (fst ij * nc + snd ij).

Definition erosion2 {A} (le : A -> A -> bool) nr nc hr hc := erosion A le (Z * Z) (freeze2 nr nc) (nb2 nr nc hr hc).
Definition dilation2 {A} (le : A -> A -> bool) nr nc hr hc := dilation A le (Z * Z) (freeze2 nr nc) (nb2 nr nc hr hc).
Definition opening2 {A} (le : A -> A -> bool) nr nc hr hc := opening A le (Z * Z) (freeze2 nr nc) (nb2 nr nc hr hc).

Definition on_grid {A} (op : (Z * Z -> A) -> Z * Z -> A) (nr nc : Z) (l : list A) : list A :=
  match l with
  | [] => []
  | d :: _ => tabZ (nr * nc) (fun k => op (fun ij => nthZ d l (fst ij * nc + snd ij)) (k / nc, k mod nc))
  end.

Definition erosion_g {A} le nr nc hr hc (l : list A) := on_grid (erosion2 le nr nc hr hc) nr nc l.
Definition dilation_g {A} le nr nc hr hc (l : list A) := on_grid (dilation2 le nr nc hr hc) nr nc l.
Definition opening_g {A} le nr nc hr hc (l : list A) := on_grid (opening2 le nr nc hr hc) nr nc l.

(* ------------------------------------------------------------------------------------------ *)
(* the methods *)

Record term := { coef : Z; onum : Z; oden : Z; posform : bool }.
Record filt := { fden : Z; terms : list term }.

Section Methods.
  Variable N : Num.
  Notation A := (T N).
  Notation le := (leb N).

  (* tophat: baseline = grey_opening(y, [2*half_window+1]) *)
  Definition tophat (h : Z) (y : list A) : list A := opening_l le h y.

  (* _avg_opening(y, hw, opening) = 0.5 * (grey_dilation(opening) + grey_erosion(opening)) *)
  Definition avg_of (dil ero : list A) : list A := map2 (fun a b => halve N (add N a b)) dil ero.
  Definition avg_opening (h : Z) (op : list A) : list A := avg_of (dilation_l le h op) (erosion_l le h op).

  (* mor: np.minimum(opening, _avg_opening(y, hw, opening)) *)
  Definition mor (h : Z) (y : list A) : list A :=
    let op := opening_l le h y in map2 (omin A le) op (avg_opening h op).

  (* imor: baseline_new = np.minimum(y, _avg_opening(baseline, hw)); the exit test is a reduction
     (relative_difference) and enters as the oracle [stop]; the loop runs max_iter+1 passes and
     returns the baseline the exiting pass STARTED from *)
  Definition imor_step (h : Z) (y b : list A) : list A :=
    map2 (omin A le) y (avg_opening h (opening_l le h b)).
  Fixpoint imor_loop (stop : nat -> list A -> list A -> bool) (h : Z) (y : list A)
           (passes : nat) (i : nat) (b : list A) : list A :=
    match passes with
    | O => b
    | S p => let b' := imor_step h y b in
             if stop i b b' then b else imor_loop stop h y p (S i) b'
    end.
  Definition imor (stop : nat -> list A -> list A -> bool) (h : Z) (max_iter : nat) (y : list A) : list A :=
    imor_loop stop h y (S max_iter) O y.

  (* 2-D versions (row-major lists) *)
  Definition tophat2 nr nc hr hc (y : list A) : list A := opening_g le nr nc hr hc y.
  Definition avg_opening2 nr nc hr hc (op : list A) : list A :=
    avg_of (dilation_g le nr nc hr hc op) (erosion_g le nr nc hr hc op).
  Definition mor2 nr nc hr hc (y : list A) : list A :=
    let op := opening_g le nr nc hr hc y in map2 (omin A le) op (avg_opening2 nr nc hr hc op).
  Definition imor_step2 nr nc hr hc (y b : list A) : list A :=
    map2 (omin A le) y (avg_opening2 nr nc hr hc (opening_g le nr nc hr hc b)).

  (* ---------------------------------------------------------------------------------------- *)
  (* snip.  One filter = (sum_k coef_k * (b[i - o_k(il) : stop] + b[i + o_k(ir) : stop'])) / den with
     o_k(w) = (onum_k * w) // oden_k; [posform] tells which of the two spellings of the stop the
     source uses: num_y - i -/+ o  (true)  or  -i -/+ o  (false). *)

  Definition pair_sum (b : list A) (ny i il ir : Z) (t : term) : list A :=
    let ol := (onum t * il) / oden t in
    let or := (onum t * ir) / oden t in
    let stopl := if posform t then ny - i - ol else - i - ol in
    let stopr := if posform t then ny - i + or else - i + or in
    map2 (add N) (pyslice b (Some (i - ol)) (Some stopl)) (pyslice b (Some (i + or)) (Some stopr)).

  Definition scaled (b : list A) (ny i il ir : Z) (t : term) : list A :=
    map (mul N (of_Z N (coef t))) (pair_sum b ny i il ir t).

  Definition eval_filt (b : list A) (ny i il ir : Z) (f : filt) : list A :=
    match terms f with
    | [] => []
    | t :: ts =>
        map (fun x => div N x (of_Z N (fden f)))
            (fold_left (fun acc t' => map2 (add N) acc (scaled b ny i il ir t')) ts (scaled b ny i il ir t))
    end.

  (* filters = f1; if order > 2: filters = np.maximum(filters, f2); ... *)
  Definition filters_of (table : list filt) (order : Z) (b : list A) (ny i il ir : Z) : list A :=
    match map (eval_filt b ny i il ir) (firstn (Z.to_nat (order / 2)) table) with
    | [] => []
    | f :: fs => fold_left (map2 (omax A le)) fs f
    end.

  (* baseline[i:-i] = np.where(baseline[i:-i] > filters, filters, baseline[i:-i])   (no smoothing) *)
  Definition snip_step (table : list filt) (order hl hr ny : Z) (b : list A) (i : Z) : list A :=
    let il := Z.min i hl in
    let ir := Z.min i hr in
    let filters := filters_of table order b ny i il ir in
    let old := pyslice b (Some i) (Some (- i)) in
    assign_at b (Some i) (map2 (fun o f => if ltb N f o then f else o) old filters).

  (* half windows larger than (N-1)//2 are replaced by (N-1)//2 *)
  Definition snip_hw (n hw : Z) : Z := if (n - 1) / 2 <? hw then (n - 1) / 2 else hw.

  (* [padded] = pad_edges(y, M) of length n + 2M, M = max of the two clipped half windows *)
  Definition snip (table : list filt) (order : Z) (decreasing : bool) (n hwl hwr : Z) (padded : list A) : list A :=
    let hl := snip_hw n hwl in
    let hr := snip_hw n hwr in
    let m := Z.max hl hr in
    let ny := n + 2 * m in
    let is := if decreasing then rev (zrange 1 m) else zrange 1 m in
    let b := fold_left (snip_step table order hl hr ny) is padded in
    pyslice b (Some m) (Some (- m)).
End Methods.

(* ------------------------------------------------------------------------------------------ *)
(* rubberband: which hull vertices are kept.  [v] = ConvexHull(...).vertices (qhull: counter-
   clockwise in 2-D); min_idx = v.argmin(); max_idx = v.argmax() + 1;
   v[min_idx:max_idx] if max_idx > min_idx else concatenate(v[min_idx:], v[:max_idx]) *)
Fixpoint arg_best (better : Z -> Z -> bool) (v : list Z) (pos : Z) (best bpos : Z) : Z :=
  match v with
  | [] => bpos
  | x :: v' => if better x best then arg_best better v' (pos + 1) x pos
               else arg_best better v' (pos + 1) best bpos
  end.
Definition argmin (v : list Z) : Z := match v with [] => 0 | x :: v' => arg_best Z.ltb v' 1 x 0 end.
Definition argmax (v : list Z) : Z := match v with [] => 0 | x :: v' => arg_best Z.gtb v' 1 x 0 end.

(* [off] is the constant added to argmax in the source (translated into gen/GenRubber.v) *)
Definition rb_select_off (off : Z) (v : list Z) : list Z :=
  let min_idx := argmin v in
  let max_idx := argmax v + off in
  if min_idx <? max_idx then pyslice v (Some min_idx) (Some max_idx)
  else pyslice v (Some min_idx) None ++ pyslice v None (Some max_idx).
Definition rb_select (v : list Z) : list Z := rb_select_off 1 v.
