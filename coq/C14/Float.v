(* C14 -- binary64 instance of the SAME model, evaluated by vm_compute on hex-float literals and
   compared bit for bit with the implementation's output. *)
From Coq Require Import PrimFloat Uint63 ZArith List Bool.
From PB Require Import C14.Model.

Definition f_of_Z (z : Z) : float :=
  if (z <? 0)%Z then PrimFloat.opp (PrimFloat.of_uint63 (Uint63.of_Z (- z)))
  else PrimFloat.of_uint63 (Uint63.of_Z z).

Definition Num_F : Num := {|
  T := float; leb := PrimFloat.leb; ltb := PrimFloat.ltb;
  add := PrimFloat.add; mul := PrimFloat.mul; div := PrimFloat.div;
  halve := fun x => PrimFloat.mul 0.5%float x; of_Z := f_of_Z
|}.

(* bit equality: distinguishes +0/-0, identifies NaNs *)
Definition feqb (x y : float) : bool :=
  match PrimFloat.compare x y with
  | FEq => if PrimFloat.eqb x 0%float
           then Bool.eqb (PrimFloat.ltb (PrimFloat.div 1%float x) 0%float) (PrimFloat.ltb (PrimFloat.div 1%float y) 0%float)
           else true
  | FNotComparable => negb (PrimFloat.eqb x x) && negb (PrimFloat.eqb y y)
  | _ => false
  end.

Fixpoint fl_eqb (x y : list float) : bool :=
  match x, y with
  | nil, nil => true
  | cons a x', cons b y' => feqb a b && fl_eqb x' y'
  | _, _ => false
  end.
