(* C14 -- 2-D shift equivariance over exact rationals: Baseline2D.tophat and mor. *)
From Coq Require Import ZArith List Bool Lia QArith Qcanon.
From PB Require Import lib.PySlice lib.Arr C14.Model C14.Proofs C14.Reflect C14.Methods C14.Inst C14.Shift C14.Grid.
Import ListNotations.

Section Shift2.
  Variable c : Qc.
  Variables nr nc hr hc : Z.
  Hypothesis Hr : (0 < nr)%Z.
  Hypothesis Hc : (0 < nc)%Z.
  Notation N := Num_Qc.
  Notation shc := (sh c).

  Theorem tophat2_shift y : lenZ y = (nr * nc)%Z ->
    tophat2 N nr nc hr hc (map shc y) = map shc (tophat2 N nr nc hr hc y).
  Proof. intros Hl. unfold tophat2. simpl leb.
    apply (opening_g_commute Qc Qc Qc_leb Qc_leb Qcle_total Qcle_trans' Qcle_total Qcle_trans' Qcle_antisym' shc (sh_mono c)); auto. Qed.

  Lemma grid_len_opening y : lenZ y = (nr * nc)%Z -> lenZ (opening_g Qc_leb nr nc hr hc y) = (nr * nc)%Z.
  Proof. intros Hl. unfold lenZ, opening_g. rewrite on_grid_length; [nia|].
    intros E. rewrite E in Hl. unfold lenZ in Hl. simpl in Hl. nia. Qed.

  Theorem mor2_shift y : lenZ y = (nr * nc)%Z ->
    mor2 N nr nc hr hc (map shc y) = map shc (mor2 N nr nc hr hc y).
  Proof. intros Hl. unfold mor2, avg_opening2, avg_of. simpl leb.
    pose proof (grid_len_opening y Hl) as Ho.
    rewrite (opening_g_commute Qc Qc Qc_leb Qc_leb Qcle_total Qcle_trans' Qcle_total Qcle_trans' Qcle_antisym' shc (sh_mono c)) by auto.
    rewrite (dilation_g_commute Qc Qc Qc_leb Qc_leb Qcle_total Qcle_trans' Qcle_total Qcle_trans' Qcle_antisym' shc (sh_mono c)) by auto.
    rewrite (erosion_g_commute Qc Qc Qc_leb Qc_leb Qcle_total Qcle_trans' Qcle_total Qcle_trans' Qcle_antisym' shc (sh_mono c)) by auto.
    rewrite (map_map2 shc (fun a b => halve N (add N a b)) (fun a b => halve N (add N a b)) shc shc).
    - apply map_map2. intros a b. symmetry. apply omin_sh.
    - intros a b. unfold sh. simpl.
      transitivity (Q2Qc (1 # 2) * (a + b) + (Q2Qc (1 # 2) + Q2Qc (1 # 2)) * c)%Qc; [|ring].
      rewrite half_twice. ring. Qed.
End Shift2.
