(* C14 -- list-level theorems: tophat/opening, mor, imor, snip never exceed the data. *)
From Coq Require Import ZArith List Bool Lia ZifyBool.
From PB Require Import lib.PySlice lib.Arr C14.Model C14.Proofs C14.Reflect.
Import ListNotations.
Open Scope Z_scope.

(* ---------- Forall2 helpers ---------- *)
Lemma Forall2_refl' {A} (R : A -> A -> Prop) : (forall a, R a a) -> forall l, Forall2 R l l.
Proof. intros H l. induction l; constructor; auto. Qed.

Lemma Forall2_trans' {A} (R : A -> A -> Prop) : (forall a b c, R a b -> R b c -> R a c) ->
  forall x y z, Forall2 R x y -> Forall2 R y z -> Forall2 R x z.
Proof. intros H x y z Hxy. revert z. induction Hxy; intros z Hyz; inversion Hyz; subst; constructor; eauto. Qed.

Lemma Forall2_firstn {A B} (R : A -> B -> Prop) k : forall x y, Forall2 R x y -> Forall2 R (firstn k x) (firstn k y).
Proof. induction k; intros x y H; simpl; [constructor|]. destruct H; constructor; auto. Qed.

Lemma Forall2_skipn {A B} (R : A -> B -> Prop) k : forall x y, Forall2 R x y -> Forall2 R (skipn k x) (skipn k y).
Proof. induction k; intros x y H; simpl; auto. destruct H; [constructor|auto]. Qed.

Lemma Forall2_len {A B} (R : A -> B -> Prop) x y : Forall2 R x y -> length x = length y.
Proof. induction 1; simpl; auto. Qed.

Lemma Forall2_pyslice {A B} (R : A -> B -> Prop) x y a b :
  Forall2 R x y -> Forall2 R (pyslice x a b) (pyslice y a b).
Proof. intros H. unfold pyslice, lenZ. rewrite (Forall2_len R x y H).
  apply Forall2_firstn, Forall2_skipn, H. Qed.

Lemma map2_length {A B C} (f : A -> B -> C) : forall x y, length (map2 f x y) = Nat.min (length x) (length y).
Proof. induction x; intros [|b y]; simpl; auto. Qed.

Lemma Forall2_map2_l {A B} (R : A -> A -> Prop) (f : A -> B -> A) :
  (forall a b, R (f a b) a) -> forall x y, (length x <= length y)%nat -> Forall2 R (map2 f x y) x.
Proof. intros H. induction x; intros [|b y] Hl; simpl in *; try constructor; auto; try lia.
  apply IHx. lia. Qed.

Lemma lenZ_on_list {A} op (l : list A) : lenZ (on_list op l) = lenZ l.
Proof. unfold lenZ. rewrite on_list_length. reflexivity. Qed.

(* ---------- opening on lists ---------- *)
Section Lists.
  Variable A : Type.
  Variable le : A -> A -> bool.
  Hypothesis le_total : total le.
  Hypothesis le_trans : transitive le.
  Notation LE := (fun a b => le a b = true).

  Lemma lenZ_pos (l : list A) i : 0 <= i < lenZ l -> 0 < lenZ l.
  Proof. lia. Qed.

  Theorem opening_l_le h y : Forall2 LE (opening_l le h y) y.
  Proof. destruct y as [|d y']; [constructor|]. set (y := d :: y').
    apply (Forall2_nthZ _ _ _ d d).
    - apply on_list_length.
    - intros i Hi. unfold opening_l in *. rewrite lenZ_on_list in Hi.
      rewrite on_list_nth by auto. apply opening1_le; auto. lia.
  Qed.

  Theorem closing_l_ge h y : Forall2 (fun a b => le b a = true) (closing_l le h y) y.
  Proof. destruct y as [|d y']; [constructor|]. set (y := d :: y').
    apply (Forall2_nthZ _ _ _ d d).
    - apply on_list_length.
    - intros i Hi. unfold closing_l in *. rewrite lenZ_on_list in Hi.
      rewrite on_list_nth by auto. apply closing1_ge; auto. lia.
  Qed.

  Theorem erosion_l_le h y : Forall2 LE (erosion_l le h y) y.
  Proof. destruct y as [|d y']; [constructor|]. set (y := d :: y').
    apply (Forall2_nthZ _ _ _ d d).
    - apply on_list_length.
    - intros i Hi. unfold erosion_l in *. rewrite lenZ_on_list in Hi.
      rewrite on_list_nth by auto. apply erosion1_le; auto. lia.
  Qed.

  Lemma opening_l_nth h y d i : 0 <= i < lenZ y ->
    nthZ d (opening_l le h y) i = opening1 le (lenZ y) h (nthZ (hd d y) y) i.
  Proof. intros Hi. unfold opening_l. rewrite on_list_nth by auto. reflexivity. Qed.

  Lemma opening_l_lenZ h y : lenZ (opening_l le h y) = lenZ y.
  Proof. unfold opening_l; apply lenZ_on_list. Qed.

  Theorem opening_l_idem h y : antisym le -> opening_l le h (opening_l le h y) = opening_l le h y.
  Proof. intros Ha. destruct y as [|d y']; [reflexivity|]. set (y := d :: y').
    pose proof (opening_l_lenZ h y) as Hlen.
    apply (list_eq_nthZ _ _ d).
    - unfold lenZ in *. rewrite !(Nat2Z.inj _ _ (opening_l_lenZ h _)). reflexivity.
    - intros i Hi. rewrite opening_l_lenZ, Hlen in Hi.
      rewrite opening_l_nth by lia. rewrite Hlen.
      rewrite (opening_l_nth h y d i) by auto.
      rewrite <- (opening1_idem A le le_total le_trans h (lenZ y) (nthZ (hd d y) y) i Ha) by lia.
      apply opening1_ext; try lia.
      intros j Hj. rewrite opening_l_nth by auto. reflexivity.
  Qed.

  (* every value of the opening is one of the data values *)
  Theorem opening_l_sel h y : Forall (fun b => In b y) (opening_l le h y).
  Proof. destruct y as [|d y']; [constructor|]. set (y := d :: y').
    apply Forall_forall. intros b Hb. apply (In_nth _ _ d) in Hb. destruct Hb as [k [Hk E]].
    unfold opening_l in Hk. rewrite on_list_length in Hk.
    assert (Hi : 0 <= Z.of_nat k < lenZ y) by (unfold lenZ; lia).
    pose proof (on_list_nth (fun n => opening1 le n h) y d (Z.of_nat k) Hi) as E'.
    unfold nthZ at 1 in E'. rewrite Nat2Z.id in E'. unfold opening_l in E. rewrite E in E'.
    destruct (opening1_sel A le h (lenZ y) (nthZ (hd d y) y) (Z.of_nat k)) as [j [Hj Ej]]; try lia.
    rewrite E', Ej. unfold nthZ. apply nth_In. unfold lenZ in Hj. lia.
  Qed.
End Lists.

(* opening commutes with every monotone map into an (antisymmetric) total order *)
Section ListCommute.
  Variables (A B : Type) (leA : A -> A -> bool) (leB : B -> B -> bool).
  Hypothesis totA : total leA.
  Hypothesis trA : transitive leA.
  Hypothesis totB : total leB.
  Hypothesis trB : transitive leB.
  Hypothesis asB : antisym leB.
  Variable phi : A -> B.
  Hypothesis phi_mono : forall a b, leA a b = true -> leB (phi a) (phi b) = true.

  Theorem opening_l_commute h y : opening_l leB h (map phi y) = map phi (opening_l leA h y).
  Proof. destruct y as [|d y']; [reflexivity|]. set (y := d :: y').
    assert (Hl : lenZ (map phi y) = lenZ y) by (unfold lenZ; rewrite map_length; auto).
    apply (list_eq_nthZ _ _ (phi d)).
    - unfold opening_l. rewrite map_length, !on_list_length, map_length. reflexivity.
    - intros i Hi. rewrite opening_l_lenZ, Hl in Hi.
      rewrite opening_l_nth by lia. rewrite Hl.
      assert (E : nthZ (phi d) (map phi (opening_l leA h y)) i = phi (nthZ d (opening_l leA h y) i))
        by (unfold nthZ; apply (map_nth phi)).
      rewrite E. rewrite (opening_l_nth A leA h y d i) by auto.
      unfold opening1.
      rewrite <- (opening_commute A B leA leB totA trA totB trB asB phi phi_mono Z
                   (freeze1 (lenZ y)) (freeze1 (lenZ y)) (nb1 (lenZ y) h) (dom1 (lenZ y))); auto.
      + apply (opn_ext B leB Z (freeze1 (lenZ y)) (nb1 (lenZ y) h) (dom1 (lenZ y))); auto.
        * intros; apply freeze1_ok; auto.
        * intros i0 j H0 Hj; eapply nb1_dom; eauto. unfold dom1 in H0; lia.
        * intros j Hj. unfold nthZ. simpl hd. apply (map_nth phi).
      + intros; apply freeze1_ok; auto.
      + intros; apply freeze1_ok; auto.
      + intros i0 j H0 Hj; eapply nb1_dom; eauto. unfold dom1 in H0; lia.
  Qed.
End ListCommute.

(* ---------- mor / imor / snip : only the order is used, whatever the arithmetic does ---------- *)
Section MethodsLe.
  Variable N : Num.
  Hypothesis le_total : total (leb N).
  Hypothesis le_trans : transitive (leb N).
  Notation A := (T N).
  Notation le := (leb N).
  Notation LE := (fun a b : T N => leb N a b = true).

  Lemma LE_refl (a : A) : le a a = true.
  Proof. apply le_refl; auto. Qed.

  Lemma avg_opening_length h op : length (avg_opening N h op) = length op.
  Proof. unfold avg_opening, avg_of. rewrite map2_length. unfold dilation_l, erosion_l.
    rewrite !on_list_length. lia. Qed.

  Theorem mor_le_opening h y : Forall2 LE (mor N h y) (opening_l le h y).
  Proof. unfold mor. apply Forall2_map2_l.
    - intros a b. apply omin_l; auto.
    - rewrite avg_opening_length. lia. Qed.

  Theorem mor_le h y : Forall2 LE (mor N h y) y.
  Proof. eapply Forall2_trans'; [exact le_trans|apply mor_le_opening|apply opening_l_le; auto]. Qed.

  Lemma imor_step_le h y b : length b = length y -> Forall2 LE (imor_step N h y b) y.
  Proof. intros Hl. unfold imor_step. apply Forall2_map2_l.
    - intros a c. apply omin_l; auto.
    - rewrite avg_opening_length. unfold opening_l. rewrite on_list_length. lia. Qed.

  Theorem imor_le stop h max_iter y : Forall2 LE (imor N stop h max_iter y) y.
  Proof. unfold imor.
    assert (G : forall passes i b, length b = length y -> Forall2 LE b y ->
                Forall2 LE (imor_loop N stop h y passes i b) y).
    { induction passes as [|p IH]; intros i b Hl Hb; simpl; auto.
      destruct (stop i b (imor_step N h y b)); auto.
      pose proof (imor_step_le h y b Hl) as H. apply IH; auto.
      apply Forall2_len in H. auto. }
    apply G; auto. apply Forall2_refl'. apply LE_refl. Qed.

  (* snip: needs only  (f < o -> f <= o),  reflexivity and transitivity *)
  Hypothesis lt_le : forall a b : A, ltb N a b = true -> le a b = true.

  Lemma overlay0_le (g : A -> A -> A) : (forall o f, le (g o f) o = true) ->
    forall b m F, Forall2 LE (overlay 0 (map2 g (firstn m b) F) b) b.
  Proof. intros Hg. induction b as [|x b IH]; intros m F; simpl; [constructor|].
    destruct m as [|m]; simpl.
    - constructor; [apply LE_refl|apply Forall2_refl'; apply LE_refl].
    - destruct F as [|f F]; simpl.
      + constructor; [apply LE_refl|apply Forall2_refl'; apply LE_refl].
      + constructor; auto. Qed.

  Lemma overlay_le (g : A -> A -> A) : (forall o f, le (g o f) o = true) ->
    forall b s m F, Forall2 LE (overlay s (map2 g (firstn m (skipn s b)) F) b) b.
  Proof. intros Hg. induction b as [|x b IH]; intros s m F.
    - simpl. constructor.
    - destruct s as [|s].
      + apply overlay0_le; auto.
      + simpl. constructor; [apply LE_refl|apply IH]. Qed.

  Lemma snip_step_le table order hl hr ny b i : Forall2 LE (snip_step N table order hl hr ny b i) b.
  Proof. unfold snip_step, assign_at, pyslice. apply overlay_le.
    intros o f. destruct (ltb N f o) eqn:E; [apply lt_le; auto|apply LE_refl]. Qed.

  Lemma snip_fold_le table order hl hr ny is : forall b,
    Forall2 LE (fold_left (snip_step N table order hl hr ny) is b) b.
  Proof. induction is as [|i is IH]; intros b; simpl; [apply Forall2_refl'; apply LE_refl|].
    eapply Forall2_trans'; [exact le_trans|apply IH|apply snip_step_le]. Qed.

  (* the returned array is pointwise <= the same slice of the (padded) input *)
  Theorem snip_le_slice table order decreasing n hwl hwr padded :
    let m := Z.max (snip_hw n hwl) (snip_hw n hwr) in
    Forall2 LE (snip N table order decreasing n hwl hwr padded) (pyslice padded (Some m) (Some (- m))).
  Proof. intros m. unfold snip. fold m. apply Forall2_pyslice. apply snip_fold_le. Qed.

  Lemma pyslice_middle (left y right : list A) m : 0 < m -> lenZ left = m -> lenZ right = m ->
    pyslice (left ++ y ++ right) (Some m) (Some (- m)) = y.
  Proof. intros Hm Hl Hr. unfold pyslice, sl_start, sl_stop, clamp, lenZ in *.
    rewrite !app_length.
    destruct (m <? 0) eqn:E1; [lia|]. destruct (- m <? 0) eqn:E2; [|lia].
    replace (Z.to_nat (Z.min m (Z.of_nat (length left + (length y + length right))))) with (length left) by lia.
    rewrite skipn_app, skipn_all, Nat.sub_diag. simpl.
    replace (Z.to_nat _) with (length y + 0)%nat by lia.
    rewrite firstn_app_2. simpl. apply app_nil_r. Qed.

  (* pad_edges returns  left ++ y ++ right  with m values on each side (whatever they are) *)
  Theorem snip_le table order decreasing hwl hwr (left y right : list A) :
    let n := lenZ y in
    let m := Z.max (snip_hw n hwl) (snip_hw n hwr) in
    0 < m -> lenZ left = m -> lenZ right = m ->
    Forall2 LE (snip N table order decreasing n hwl hwr (left ++ y ++ right)) y.
  Proof. intros n m Hm Hl Hr.
    pose proof (snip_le_slice table order decreasing n hwl hwr (left ++ y ++ right)) as H.
    cbv zeta in H. fold m in H. rewrite (pyslice_middle left y right m Hm Hl Hr) in H. exact H. Qed.
End MethodsLe.
